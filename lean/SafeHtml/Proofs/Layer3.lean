/-
Layer 3 (partial): the context the template engine infers for a static text is the state of the HTML tokenizer
after the text the engine emits.

Two independent executable definitions are related:
  * engine model: `Model/Tmpl/Transition.lean`, `Model/Tmpl/EscapeText.lean` (`escapeText`: the scan of one static
    text node, which also rewrites the text: stray `<` become `&lt;`, comments are dropped);
  * `Spec/HtmlTok.lean`: the WHATWG tokenizer (`run`).

`Rel c t` is the correspondence between an engine context and a tokenizer state. `Simple js en st dl s out se` is an
inductive grammar of "simple" static texts `s` for a start context with state `st`, delimiter `dl`, element name `en`;
`out` is the emitted text and `se` the engine state at the end. Main results:

  * `layer3_simple` / `layer3_partial`:  `Rel c t → Simple … s out se →` the scan of `s` from `c` ends normally with
    context `c'` and emitted text `out`, `c'.state = se` and `Rel c' (run t out)`;
  * `layer3_a_text`, `layer3_a_text_stray`, `layer3_a_attr`, `layer3_b_quote`, `layer3_c_tag`, `layer3_d_attr`:
    the single preservation lemmas (a)–(d), for all byte strings satisfying explicit decidable side conditions;
  * `layer3_tag_attr`: a text node that starts with an attribute name, when the tokenizer is between attributes.

The statement is false outside the fragment; what is excluded, and why, is listed at the end of the file.
Core Lean only; `#print axioms` of every theorem named above: propext, Classical.choice, Quot.sound.
-/
import SafeHtml.Props.C01
import SafeHtml.Model.Tmpl.EscapeText
import SafeHtml.Proofs.HtmlTokSim
set_option linter.unusedSimpArgs false
set_option linter.unusedVariables false
namespace SafeHtml.Proofs.Layer3
open SafeHtml SafeHtml.Model.Tmpl SafeHtml.Spec SafeHtml.Spec.HtmlTok SafeHtml.Generated.Policy
open SafeHtml.Props.C01 (run_nil run_cons run_append run_data run_rcdata run_dq run_sq)
open SafeHtml.Proofs.HtmlTokSim

/-! ### byte classes -/

theorem ws_mem (c : Nat) : c ∈ whiteSpace ↔ isWs c = true := by
  simp [whiteSpace, isWs]; omega

theorem ws_contains (c : Nat) : whiteSpace.contains c = isWs c := by
  rw [Bool.eq_iff_iff]; simp [ws_mem]

/-- all bytes are HTML white space -/
def allWs (w : Bytes) : Bool := w.all isWs

/-- `rest` is empty or its first byte does not satisfy `p` -/
def headNot (p : Nat → Bool) (rest : Bytes) : Bool :=
  match rest with
  | [] => true
  | c :: _ => !p c

/-- `rest` is non-empty and its first byte satisfies `p` -/
def headIs (p : Nat → Bool) (rest : Bytes) : Bool :=
  match rest with
  | [] => false
  | c :: _ => p c

theorem eatWhiteSpace_append : ∀ (w rest : Bytes), allWs w = true → headNot isWs rest = true →
    eatWhiteSpace (w ++ rest) = w.length
  | [], [], _, _ => rfl
  | [], c :: r, _, h => by
    simp only [headNot, Bool.not_eq_true'] at h
    simp only [List.nil_append, eatWhiteSpace, ws_contains, h]; rfl
  | c :: w, rest, hw, hr => by
    simp only [allWs, List.all_cons, Bool.and_eq_true] at hw
    have := eatWhiteSpace_append w rest hw.2 hr
    simp only [List.cons_append, eatWhiteSpace, ws_contains, hw.1, this, if_true, List.length_cons]

/-- a byte that may occur in an attribute name for which engine and tokenizer agree:
    not a name terminator (white space, `=`, `>`), not `' " <` (engine: ErrBadHTML), not `/`
    (tokenizer: self-closing start), ASCII (engine lower-cases with `strings.ToLower`, tokenizer ASCII only) -/
def attrNameByte (c : Nat) : Bool :=
  !isWs c && c != 61 && c != 62 && c != 39 && c != 34 && c != 60 && c != 47 && decide (c < 128)

def attrNameEndB (c : Nat) : Bool := isWs c || c == 61 || c == 62

theorem attrNameEnd_contains (c : Nat) : attrNameEnd.contains c = attrNameEndB c := by
  rw [Bool.eq_iff_iff]; simp [attrNameEnd, attrNameEndB, isWs]; omega

theorem attrNameByte_spec {c : Nat} (h : attrNameByte c = true) :
    attrNameEnd.contains c = false ∧ attrNameBad.contains c = false ∧ isWs c = false ∧ c ≠ 61 ∧ c ≠ 62 ∧
    c ≠ 47 ∧ c < 128 := by
  simp only [attrNameByte, Bool.and_eq_true, Bool.not_eq_true', bne_iff_ne, ne_eq, decide_eq_true_eq] at h
  obtain ⟨⟨⟨⟨⟨⟨⟨h1, h2⟩, h3⟩, h4⟩, h5⟩, h6⟩, h7⟩, h8⟩ := h
  refine ⟨?_, ?_, h1, h2, h3, h7, h8⟩
  · rw [attrNameEnd_contains]; simp [attrNameEndB, h1, h2, h3]
  · simp [attrNameBad, h4, h5, h6]

theorem eatAttrName_append : ∀ (nm rest : Bytes), nm.all attrNameByte = true →
    headNot (fun c => !attrNameEndB c) rest = true → eatAttrName (nm ++ rest) = some nm.length
  | [], [], _, _ => rfl
  | [], c :: r, _, h => by
    simp only [headNot, Bool.not_not] at h
    simp only [List.nil_append, eatAttrName, attrNameEnd_contains, h, if_true]; rfl
  | c :: nm, rest, hn, hr => by
    simp only [List.all_cons, Bool.and_eq_true] at hn
    have ih := eatAttrName_append nm rest hn.2 hr
    have hs := attrNameByte_spec hn.1
    simp only [List.cons_append, eatAttrName, hs.1, hs.2.1, ih, Bool.false_eq_true, if_false, Option.map_some, List.length_cons]

/-! ### tag names -/

theorem alnum_lt {c : Nat} (h : asciiAlphaNum c = true) : c < 128 := by
  simp [asciiAlphaNum, isAlpha, isLowerAlpha, isUpperAlpha, isDigit] at h; omega

/-- byte that continues a tag name for the engine -/
def tagNameCont (c : Nat) : Bool := asciiAlphaNum c || c == 58 || c == 45

theorem eatTagNameRest_append : ∀ (nm rest : Bytes) (f : Nat), nm.length ≤ f → nm.all asciiAlphaNum = true →
    headNot tagNameCont rest = true → eatTagNameRest f (nm ++ rest) = nm.length
  | [], rest, f, _, _, hr => by
    cases f with
    | zero => rfl
    | succ f =>
      cases rest with
      | nil => rfl
      | cons x t =>
        simp only [headNot, tagNameCont, Bool.not_eq_true', Bool.or_eq_false_iff] at hr
        simp [eatTagNameRest, hr.1.1, hr.1.2, hr.2]
  | x :: nm, rest, f, hf, hn, hr => by
    cases f with
    | zero => simp at hf
    | succ f =>
      simp only [List.all_cons, Bool.and_eq_true] at hn
      have ih := eatTagNameRest_append nm rest f (by simpa using hf) hn.2 hr
      simp [eatTagNameRest, hn.1, ih]

theorem goToLower_ascii (s : Bytes) (h : s.all (· < 128) = true) : goToLower s = s.map lower := by
  unfold goToLower
  rw [if_pos h]
  rfl

theorem eatTagName_append (c : Nat) (nm rest : Bytes) (hc : isAlpha c = true) (hn : nm.all asciiAlphaNum = true)
    (hr : headNot tagNameCont rest = true) :
    eatTagName (c :: nm ++ rest) = (nm.length + 1, (c :: nm).map lower) := by
  have h1 : eatTagNameRest (nm ++ rest).length (nm ++ rest) = nm.length :=
    eatTagNameRest_append nm rest _ (by simp) hn hr
  have h2 : (c :: nm).all (· < 128) = true := by
    simp only [List.all_cons, Bool.and_eq_true, decide_eq_true_eq, List.all_eq_true]
    refine ⟨alnum_lt (by simp [asciiAlphaNum, hc]), fun x hx => alnum_lt ?_⟩
    exact (List.all_eq_true.1 hn) x hx
  simp only [eatTagName, List.cons_append, hc, Bool.not_true, Bool.false_eq_true, if_false, h1]
  rw [show (c :: (nm ++ rest)).take (nm.length + 1) = c :: nm by simp]
  rw [goToLower_ascii _ h2]

/-! ### tokenizer: single bytes -/

/-- the registers of the tokenizer that the correspondence talks about (names un-reversed) -/
structure View where
  st : St
  isEnd : Bool
  name : Bytes
  an : Bytes
  lastStart : Bytes
  deriving DecidableEq

def view (t : T) : View := ⟨t.st, t.isEnd, t.name.reverse, t.an.reverse, t.lastStart⟩

theorem alpha_facts {c : Nat} (hc : isAlpha c = true) :
    (c == 33) = false ∧ (c == 47) = false ∧ (c == 62) = false ∧ isWs c = false ∧ (c == 63) = false := by
  simp [isAlpha, isLowerAlpha, isUpperAlpha, isWs] at hc ⊢; omega

theorem alnum_facts {c : Nat} (hc : asciiAlphaNum c = true) :
    (c == 47) = false ∧ (c == 62) = false ∧ isWs c = false := by
  simp [asciiAlphaNum, isAlpha, isLowerAlpha, isUpperAlpha, isDigit, isWs] at hc ⊢; omega

theorem step_data_lt (t : T) (h : t.st = .data) : view (step 4 t 60) = { view t with st := .tagOpen } := by
  simp [step, h, view]

theorem step_tagOpen_alpha (t : T) (c : Nat) (h : t.st = .tagOpen) (hc : isAlpha c = true) :
    view (step 4 t c) = { view t with st := .tagName, isEnd := false, name := [lower c], an := [] } := by
  obtain ⟨h33, h47, h62, hw, _⟩ := alpha_facts hc
  simp [step, h, view, h33, h47, h62, hw, hc, newTag, flush_lastStart]

theorem step_tagOpen_slash (t : T) (h : t.st = .tagOpen) : view (step 4 t 47) = { view t with st := .endTagOpen } := by
  simp [step, h, view]

theorem step_endTagOpen_alpha (t : T) (c : Nat) (h : t.st = .endTagOpen) (hc : isAlpha c = true) :
    view (step 4 t c) = { view t with st := .tagName, isEnd := true, name := [lower c], an := [] } := by
  obtain ⟨h33, h47, h62, hw, _⟩ := alpha_facts hc
  simp [step, h, view, h47, h62, hw, hc, newTag, flush_lastStart]

theorem step_tagName_alnum (t : T) (c : Nat) (h : t.st = .tagName) (hc : asciiAlphaNum c = true) :
    view (step 4 t c) = { view t with name := (view t).name ++ [lower c] } := by
  obtain ⟨h47, h62, hw⟩ := alnum_facts hc
  simp [step, h, view, h47, h62, hw]

theorem run_tagName_alnum : ∀ (nm : Bytes) (t : T), t.st = .tagName → nm.all asciiAlphaNum = true →
    view (run t nm) = { view t with name := (view t).name ++ nm.map lower }
  | [], t, _, _ => by simp [run_nil]
  | c :: nm, t, h, hn => by
    simp only [List.all_cons, Bool.and_eq_true] at hn
    have h1 := step_tagName_alnum t c h hn.1
    have hst : (step 4 t c).st = .tagName := by
      have := congrArg View.st h1; simpa [view, h] using this
    rw [run_cons, run_tagName_alnum nm _ hst hn.2, h1]
    simp

theorem step_tagName_ws (t : T) (c : Nat) (h : t.st = .tagName) (hc : isWs c = true) :
    view (step 4 t c) = { view t with st := .beforeAttrName } := by
  simp [step, h, view, hc]

theorem step_beforeAttrName_ws (t : T) (c : Nat) (h : t.st = .beforeAttrName) (hc : isWs c = true) :
    step 4 t c = t := by
  simp [step, h, hc]

theorem step_afterAttrValueQ_ws (t : T) (c : Nat) (h : t.st = .afterAttrValueQ) (hc : isWs c = true) :
    view (step 4 t c) = { view t with st := .beforeAttrName } := by
  simp [step, h, view, hc]

theorem step_afterAttrName_ws (t : T) (c : Nat) (h : t.st = .afterAttrName) (hc : isWs c = true) :
    step 4 t c = t := by
  simp [step, h, hc]

theorem step_attrName_ws (t : T) (c : Nat) (h : t.st = .attrName) (hc : isWs c = true) :
    view (step 4 t c) = { view t with st := .afterAttrName } := by
  simp [step, h, view, hc]

theorem step_beforeAttrValue_ws (t : T) (c : Nat) (h : t.st = .beforeAttrValue) (hc : isWs c = true) :
    step 4 t c = t := by
  simp [step, h, hc]

theorem nb_facts {c : Nat} (hc : attrNameByte c = true) :
    isWs c = false ∧ (c == 61) = false ∧ (c == 62) = false ∧ (c == 47) = false := by
  have := attrNameByte_spec hc
  simp [this.2.2.1, this.2.2.2.1, this.2.2.2.2.1, this.2.2.2.2.2.1]

theorem step_beforeAttrName_nb (t : T) (c : Nat) (h : t.st = .beforeAttrName) (hc : attrNameByte c = true) :
    view (step 4 t c) = { view t with st := .attrName, an := [lower c] } := by
  obtain ⟨hw, h61, h62, h47⟩ := nb_facts hc
  simp [step, h, view, hw, h61, h62, h47, finishAttr_isEnd, finishAttr_name, finishAttr_lastStart]

theorem step_afterAttrName_nb (t : T) (c : Nat) (h : t.st = .afterAttrName) (hc : attrNameByte c = true) :
    view (step 4 t c) = { view t with st := .attrName, an := [lower c] } := by
  obtain ⟨hw, h61, h62, h47⟩ := nb_facts hc
  simp [step, h, view, hw, h61, h62, h47, finishAttr_isEnd, finishAttr_name, finishAttr_lastStart]

theorem step_attrName_nb (t : T) (c : Nat) (h : t.st = .attrName) (hc : attrNameByte c = true) :
    view (step 4 t c) = { view t with an := (view t).an ++ [lower c] } := by
  obtain ⟨hw, h61, h62, h47⟩ := nb_facts hc
  simp [step, h, view, hw, h61, h62, h47]

theorem step_attrName_eq (t : T) (h : t.st = .attrName) :
    view (step 4 t 61) = { view t with st := .beforeAttrValue } := by
  simp [step, h, view, isWs]

theorem step_afterAttrName_eq (t : T) (h : t.st = .afterAttrName) :
    view (step 4 t 61) = { view t with st := .beforeAttrValue } := by
  simp [step, h, view, isWs]

theorem step_beforeAttrValue_dq (t : T) (h : t.st = .beforeAttrValue) :
    view (step 4 t 34) = { view t with st := .attrValueDq } := by
  simp [step, h, view, isWs]

theorem step_beforeAttrValue_sq (t : T) (h : t.st = .beforeAttrValue) :
    view (step 4 t 39) = { view t with st := .attrValueSq } := by
  simp [step, h, view, isWs]

theorem step_attrValueDq_q (t : T) (h : t.st = .attrValueDq) :
    view (step 4 t 34) = { view t with st := .afterAttrValueQ } := by
  simp [step, h, view]

theorem step_attrValueSq_q (t : T) (h : t.st = .attrValueSq) :
    view (step 4 t 39) = { view t with st := .afterAttrValueQ } := by
  simp [step, h, view]

/-- the state the tree builder switches the tokenizer to after a start tag -/
def nextSt (nm : Bytes) : St :=
  if nm == [116,105,116,108,101] || nm == [116,101,120,116,97,114,101,97] then .rcdata
  else if nm == [115,116,121,108,101] || nm == [120,109,112] || nm == [105,102,114,97,109,101] ||
          nm == [110,111,101,109,98,101,100] || nm == [110,111,102,114,97,109,101,115] ||
          nm == [110,111,115,99,114,105,112,116] then .rawtext
  else if nm == [115,99,114,105,112,116] then .script
  else if nm == [112,108,97,105,110,116,101,120,116] then .plaintext
  else .data

theorem emitTag_st (t : T) (k : String) :
    (emitTag t k).st = if t.isEnd then .data else nextSt t.name.reverse := by
  unfold emitTag nextSt
  simp only [flush_isEnd, finishAttr_isEnd, flush_name, finishAttr_name]
  cases t.isEnd <;> simp

theorem emitTag_lastStart (t : T) (k : String) :
    (emitTag t k).lastStart = if t.isEnd then t.lastStart else t.name.reverse := by
  unfold emitTag
  simp only [flush_isEnd, finishAttr_isEnd, flush_name, finishAttr_name]
  cases t.isEnd <;> simp [flush_lastStart, finishAttr_lastStart]

/-- `>` in any of the in-tag states from which it closes the tag -/
theorem step_gt (t : T) (h : t.st = .tagName ∨ t.st = .beforeAttrName ∨ t.st = .afterAttrValueQ ∨
    t.st = .attrName ∨ t.st = .afterAttrName ∨ t.st = .beforeAttrValue) :
    (step 4 t 62).st = (if t.isEnd then .data else nextSt t.name.reverse) ∧
    (step 4 t 62).lastStart = (if t.isEnd then t.lastStart else t.name.reverse) := by
  rcases h with h | h | h | h | h | h <;> simp [step, h, isWs, emitTag_st, emitTag_lastStart]

/-! ### engine: one call of `contextAfterText` -/

/-- outside special elements and attribute values `contextAfterText` is the transition function -/
theorem cat_plain (c : Ctx) (s : Bytes) (hd : c.delim = .none) (hs : memKey specialElements c.elemName = false)
    (hne : s ≠ []) : contextAfterText c s = transition c s := by
  have hl : (s.length == 0) = false := by
    cases s with
    | nil => exact absurd rfl hne
    | cons a s => simp
  simp [contextAfterText, hd, tSpecialTagEnd, hs, hl]

theorem indexByte_none : ∀ (s : Bytes), (∀ c ∈ s, c ≠ 60) → indexByte 60 s = none
  | [], _ => rfl
  | c :: s, h => by
    have h1 : (c == 60) = false := by simpa using h c (by simp)
    simp [indexByte, h1, indexByte_none s (fun d hd => h d (by simp [hd]))]

theorem indexByte_append : ∀ (s r : Bytes), (∀ c ∈ s, c ≠ 60) → indexByte 60 (s ++ 60 :: r) = some s.length
  | [], _, _ => by simp [indexByte]
  | c :: s, r, h => by
    have h1 : (c == 60) = false := by simpa using h c (by simp)
    simp [indexByte, h1, indexByte_append s r (fun d hd => h d (by simp [hd]))]

theorem tText_none (c : Ctx) (s : Bytes) (h : ∀ b ∈ s, b ≠ 60) : tText c s = (c, s.length) := by
  simp [tText, tTextGo, indexByte_none s h]

theorem tText_open (c : Ctx) (txt : Bytes) (c0 : Nat) (nm rest : Bytes) (h : ∀ b ∈ txt, b ≠ 60)
    (hc : isAlpha c0 = true) (hn : nm.all asciiAlphaNum = true) (hr : headNot tagNameCont rest = true) :
    tText c (txt ++ 60 :: c0 :: nm ++ rest) =
      ({ state := .tag, elemName := (c0 :: nm).map lower }, (txt ++ 60 :: c0 :: nm).length) := by
  obtain ⟨h33, h47, _, _, _⟩ := alpha_facts hc
  have e := eatTagName_append c0 nm rest hc hn hr
  simp only [List.cons_append] at e
  have hd : (txt ++ 60 :: c0 :: (nm ++ rest)).drop (txt.length + 1) = c0 :: (nm ++ rest) := by
    simp
  have hd0 : (txt ++ 60 :: c0 :: (nm ++ rest)).drop txt.length = 60 :: c0 :: (nm ++ rest) := by simp
  simp only [tText, tTextGo, List.append_assoc, List.cons_append, indexByte_append txt _ h, hd, hd0]
  have h33' : ¬ (33 = c0) := by intro hh; subst hh; simp at h33
  simp [commentStart, h33', h47, e]
  omega


theorem tText_close (c : Ctx) (txt : Bytes) (c0 : Nat) (nm rest : Bytes) (h : ∀ b ∈ txt, b ≠ 60)
    (hc : isAlpha c0 = true) (hn : nm.all asciiAlphaNum = true) (hr : headNot tagNameCont rest = true) :
    tText c (txt ++ 60 :: 47 :: c0 :: nm ++ rest) =
      ({ state := .tag, elemName := [] }, (txt ++ 60 :: 47 :: c0 :: nm).length) := by
  have e := eatTagName_append c0 nm rest hc hn hr
  simp only [List.cons_append] at e
  have hd : (txt ++ 60 :: 47 :: c0 :: (nm ++ rest)).drop (txt.length + 1) = 47 :: c0 :: (nm ++ rest) := by
    simp
  have hd0 : (txt ++ 60 :: 47 :: c0 :: (nm ++ rest)).drop txt.length = 60 :: 47 :: c0 :: (nm ++ rest) := by simp
  simp only [tText, tTextGo, List.append_assoc, List.cons_append, indexByte_append txt _ h, hd, hd0]
  simp [commentStart, e]
  omega

/-- the context after `>` -/
def tagEndCtx (c : Ctx) : Ctx :=
  let ret : Ctx := { state := if memKey specialElements c.elemName then .specialBody else .text,
                     elemName := c.elemName, elemNames := c.elemNames,
                     scriptType := c.scriptType, linkRel := c.linkRel }
  if c.elemName != [] && memKey voidElements c.elemName && (c.elemNames.all fun n => memKey voidElements n) then
    { ret with elemName := [], elemNames := [], scriptType := [], linkRel := [] } else ret

theorem drop_ws_append (w rest : Bytes) : (w ++ rest).drop w.length = rest := by simp

theorem tTag_gt (c : Ctx) (w rest : Bytes) (hw : allWs w = true) :
    tTag c (w ++ 62 :: rest) = (tagEndCtx c, (w ++ [62]).length) := by
  have e := eatWhiteSpace_append w (62 :: rest) hw (by simp [headNot, isWs])
  have hl : (w.length == (w ++ 62 :: rest).length) = false := by simp
  simp only [tTag, e, hl, drop_ws_append, tagEndCtx]
  simp

theorem tTag_ws (c : Ctx) (w : Bytes) (hw : allWs w = true) : tTag c w = (c, w.length) := by
  have e := eatWhiteSpace_append w [] hw rfl
  simp only [List.append_nil] at e
  simp [tTag, e]

/-- the context after an attribute name (`last`: the name ends the text node) -/
def attrNameCtx (c : Ctx) (nm : Bytes) (last : Bool) : Ctx :=
  { state := if last then .attrName else .afterName, elemName := c.elemName, elemNames := c.elemNames,
    attrName := nm.map lower, linkRel := c.linkRel }

theorem nb_lt (nm : Bytes) (hn : nm.all attrNameByte = true) : nm.all (· < 128) = true := by
  simp only [List.all_eq_true, decide_eq_true_eq] at hn ⊢
  exact fun x hx => (attrNameByte_spec (hn x hx)).2.2.2.2.2.2

theorem tTag_name (c : Ctx) (w nm rest : Bytes) (hw : allWs w = true) (hn : nm.all attrNameByte = true)
    (hne : nm ≠ []) (hr : headNot (fun c => !attrNameEndB c) rest = true) :
    tTag c (w ++ nm ++ rest) = (attrNameCtx c nm rest.isEmpty, (w ++ nm).length) := by
  obtain ⟨x, nm', rfl⟩ := List.exists_cons_of_ne_nil hne
  have hx : attrNameByte x = true := by simp only [List.all_cons, Bool.and_eq_true] at hn; exact hn.1
  obtain ⟨hxw, h61, h62, h47⟩ := nb_facts hx
  have e := eatWhiteSpace_append w (x :: nm' ++ rest) hw (by simp [headNot, hxw])
  have e2 := eatAttrName_append (x :: nm') rest hn hr
  have hl : (w.length == (w ++ (x :: nm' ++ rest)).length) = false := by simp
  rw [List.append_assoc]
  simp only [tTag, e, hl, drop_ws_append, e2]
  have h62' : ¬ (x = 62) := by simpa using h62
  have ht : (x :: nm' ++ rest).take (x :: nm').length = x :: nm' := by simp
  rw [ht, goToLower_ascii _ (nb_lt _ hn)]
  cases rest with
  | nil => simp [attrNameCtx, h62']
  | cons r rs => simp [attrNameCtx, h62']


theorem tAttrName_end (c : Ctx) (s : Bytes) (hr : headIs attrNameEndB s = true) :
    tAttrName c s = ({ c with state := .afterName }, 0) := by
  cases s with
  | nil => simp [headIs] at hr
  | cons x s =>
    simp only [headIs] at hr
    have e : eatAttrName (x :: s) = some 0 := by
      simp only [eatAttrName, attrNameEnd_contains, hr, if_true]
    simp [tAttrName, e]

theorem tAfterName_eq (c : Ctx) (w rest : Bytes) (hw : allWs w = true) :
    tAfterName c (w ++ 61 :: rest) = ({ c with state := .beforeValue }, (w ++ [61]).length) := by
  have e := eatWhiteSpace_append w (61 :: rest) hw (by simp [headNot, isWs])
  have hl : (w.length == (w ++ 61 :: rest).length) = false := by simp
  simp [tAfterName, e]

theorem tAfterName_ws (c : Ctx) (w : Bytes) (hw : allWs w = true) : tAfterName c w = (c, w.length) := by
  have e := eatWhiteSpace_append w [] hw rfl
  simp only [List.append_nil] at e
  simp [tAfterName, e]

theorem tBeforeValue_dq (c : Ctx) (w rest : Bytes) (hw : allWs w = true) :
    tBeforeValue c (w ++ 34 :: rest) = ({ c with state := .attr, delim := .dq }, (w ++ [34]).length) := by
  have e := eatWhiteSpace_append w (34 :: rest) hw (by simp [headNot, isWs])
  have hl : (w.length == (w ++ 34 :: rest).length) = false := by simp
  simp [tBeforeValue, e]

theorem tBeforeValue_sq (c : Ctx) (w rest : Bytes) (hw : allWs w = true) :
    tBeforeValue c (w ++ 39 :: rest) = ({ c with state := .attr, delim := .sq }, (w ++ [39]).length) := by
  have e := eatWhiteSpace_append w (39 :: rest) hw (by simp [headNot, isWs])
  have hl : (w.length == (w ++ 39 :: rest).length) = false := by simp
  simp [tBeforeValue, e]

theorem tBeforeValue_ws (c : Ctx) (w : Bytes) (hw : allWs w = true) : tBeforeValue c w = (c, w.length) := by
  have e := eatWhiteSpace_append w [] hw rfl
  simp only [List.append_nil] at e
  simp [tBeforeValue, e]

/-! attribute values -/

def quoteOf : Delim → Nat
  | .dq => 34
  | .sq => 39
  | _ => 0

theorem indexAny_none (q : Nat) : ∀ (s : Bytes), (∀ b ∈ s, b ≠ q) → indexAny [q] s = none
  | [], _ => rfl
  | c :: s, h => by
    have h1 : c ≠ q := h c (by simp)
    simp [indexAny, h1, indexAny_none q s (fun d hd => h d (by simp [hd]))]

theorem indexAny_append (q : Nat) : ∀ (s r : Bytes), (∀ b ∈ s, b ≠ q) → indexAny [q] (s ++ q :: r) = some s.length
  | [], _, _ => by simp [indexAny]
  | c :: s, r, h => by
    have h1 : c ≠ q := h c (by simp)
    simp [indexAny, h1, indexAny_append q s r (fun d hd => h d (by simp [hd]))]

theorem delimEnds_q (d : Delim) (h : d = .dq ∨ d = .sq) : delimEnds d = [quoteOf d] := by
  rcases h with rfl | rfl <;> rfl

theorem feedLoop_attr (c : Ctx) (s : Bytes) (h : c.state = .attr) : feedLoop (s.length + 1) c s = c := by
  cases s with
  | nil => simp [feedLoop]
  | cons x s => simp [feedLoop, transition, h, tAttr]

theorem cat_attr_in (c : Ctx) (s : Bytes) (hst : c.state = .attr) (hd : c.delim = .dq ∨ c.delim = .sq)
    (h : ∀ b ∈ s, b ≠ quoteOf c.delim) :
    contextAfterText c s = ({ c with attrValue := c.attrValue ++ s }, s.length) := by
  have hdn : (c.delim == .none) = false := by rcases hd with h | h <;> simp [h]
  have hds : (c.delim == .spaceOrTagEnd) = false := by rcases hd with h | h <;> simp [h]
  simp only [contextAfterText, hdn, delimEnds_q _ hd, indexAny_none _ s h, hds]
  simp [feedLoop_attr _ s (show ({ c with attrValue := c.attrValue ++ s } : Ctx).state = .attr from hst)]


/-- the context after the closing quote of an attribute value `v` -/
def attrCloseCtx (c : Ctx) (v : Bytes) : Ctx :=
  let ret : Ctx := { state := .tag, elemName := c.elemName, elemNames := c.elemNames,
                     scriptType := c.scriptType, linkRel := c.linkRel }
  let ret := if c.state == .attr && c.elemName == scriptName && c.attrName == typeName then
      { ret with scriptType := goToLower v } else ret
  let ret := if c.state == .attr && c.elemName == linkName && c.attrName == relName && c.linkRel == [] then
      { ret with linkRel := normLinkRel v } else ret
  ret

theorem attrCloseCtx_proj (c : Ctx) (v : Bytes) :
    (attrCloseCtx c v).state = .tag ∧ (attrCloseCtx c v).delim = .none ∧
    (attrCloseCtx c v).elemName = c.elemName := by
  unfold attrCloseCtx
  simp only []
  split <;> split <;> simp

theorem cat_attr_close (c : Ctx) (v rest : Bytes) (hd : c.delim = .dq ∨ c.delim = .sq)
    (h : ∀ b ∈ v, b ≠ quoteOf c.delim) :
    contextAfterText c (v ++ quoteOf c.delim :: rest) = (attrCloseCtx c v, (v ++ [quoteOf c.delim]).length) := by
  have hdn : (c.delim == .none) = false := by rcases hd with h | h <;> simp [h]
  have hds : (c.delim == .spaceOrTagEnd) = false := by rcases hd with h | h <;> simp [h]
  have hl : (v.length == (v ++ quoteOf c.delim :: rest).length) = false := by simp
  have ht : (v ++ quoteOf c.delim :: rest).take v.length = v := by simp
  simp only [contextAfterText, hdn, delimEnds_q _ hd, indexAny_append _ v rest h, hds, Option.getD_some, hl, ht,
    attrCloseCtx]
  simpa using hds

/-! ### the loop of `escapeText` -/

/-- the `&lt;` rewriting done by one iteration (first `let (b, written)` of the loop body) -/
def rewriteStep (s : Bytes) (st : ETState) (c1 : Ctx) (i1 : Nat) : Bytes × Nat :=
  if st.c.state == .text || (lookupSC elementContent st.c.elemName == some SC.RCDATA) then
    ltLoop s (s.length + 1) st.i (if c1.state != st.c.state then lastLt s st.i i1 else i1) st.b st.written
  else if isComment st.c.state && st.c.delim == .none then (st.b, i1)
  else (st.b, st.written)

/-- one iteration that rewrites nothing -/
theorem loop_step (s : Bytes) (f : Nat) (st : ETState) (c1 : Ctx) (n : Nat)
    (hi : st.i ≠ s.length)
    (hc : contextAfterText st.c (s.drop st.i) = (c1, n))
    (hrw : rewriteStep s st c1 (st.i + n) = (st.b, st.written))
    (hsb : st.c.state ≠ .specialBody) (hc1 : c1.state ≠ .htmlCmt)
    (hprog : n ≠ 0 ∨ st.c.state ≠ c1.state) :
    escapeTextLoop false s (f + 1) st =
      escapeTextLoop false s f { c := c1, i := st.i + n, written := st.written, b := st.b } := by
  have hi' : (st.i == s.length) = false := by simpa using hi
  have hsb' : (st.c.state == State.specialBody) = false := by simpa using hsb
  have hc1' : isComment c1.state = false := by simpa [isComment] using hc1
  have hp : (st.i == st.i + n && st.c.state == c1.state) = false := by
    rcases hprog with h | h
    · have : (st.i == st.i + n) = false := by simp; omega
      simp [this]
    · have : (st.c.state == c1.state) = false := by simpa using h
      simp [this]
  unfold rewriteStep at hrw
  rw [escapeTextLoop]
  simp only [hi', Bool.false_and, Bool.false_eq_true, if_false, hc, hrw, hsb', hc1', Bool.and_false, hp]


theorem ltLoop_none (s : Bytes) (e : Nat) (b : Bytes) (w : Nat) : ∀ (f j : Nat),
    (∀ k, j ≤ k → k < e → s.getD k 0 ≠ 60) → ltLoop s f j e b w = (b, w)
  | 0, _, _ => rfl
  | f+1, j, h => by
    rw [ltLoop]
    by_cases hj : j ≥ e
    · simp [hj]
    · have h60 : (s.getD j 0 == 60) = false := by simpa using h j (Nat.le_refl _) (by omega)
      simp only [hj, if_false, h60, Bool.false_and, Bool.false_eq_true]
      exact ltLoop_none s e b w f (j+1) (fun k hk hk' => h k (by omega) hk')

theorem getD_ne (nm : Bytes) (hn : ∀ b ∈ nm, b ≠ 60) (m : Nat) : nm.getD m 0 ≠ 60 := by
  rw [List.getD_eq_getElem?_getD]
  cases h : nm[m]? with
  | none => simp
  | some x => simpa using hn x (List.mem_of_getElem? h)

theorem find_last (txt nm : Bytes) (hn : ∀ b ∈ nm, b ≠ 60) : ∀ n, txt.length < n →
    (List.range n).reverse.find? (fun k => (txt ++ 60 :: nm).getD k 0 == 60) = some txt.length
  | 0, h => by omega
  | n+1, h => by
    rw [List.range_succ, List.reverse_append]
    simp only [List.reverse_cons, List.reverse_nil, List.nil_append, List.cons_append, List.find?_cons]
    by_cases hnt : n = txt.length
    · subst hnt; simp
    · have hlt : txt.length < n := by omega
      have : ((txt ++ 60 :: nm).getD n 0 == 60) = false := by
        rw [show (txt ++ 60 :: nm).getD n 0 = (60 :: nm).getD (n - txt.length) 0 by
          simp [List.getD_eq_getElem?_getD, List.getElem?_append_right (Nat.le_of_lt hlt)]]
        obtain ⟨m, hm⟩ : ∃ m, n - txt.length = m + 1 := ⟨n - txt.length - 1, by omega⟩
        rw [hm, List.getD_cons_succ]
        simpa using getD_ne nm hn m
      simp only [this]
      exact find_last txt nm hn n hlt

theorem take_drop_mid (pre seg rest : Bytes) :
    ((pre ++ (seg ++ rest)).take (pre.length + seg.length)).drop pre.length = seg := by
  simp [List.take_append]

theorem lastLt_seg (pre txt nm rest : Bytes) (hn : ∀ b ∈ nm, b ≠ 60) :
    lastLt (pre ++ (txt ++ 60 :: nm ++ rest)) pre.length (pre.length + (txt ++ 60 :: nm).length) =
      pre.length + txt.length := by
  have hseg : ((pre ++ (txt ++ 60 :: nm ++ rest)).take (pre.length + (txt ++ 60 :: nm).length)).drop pre.length
      = txt ++ 60 :: nm := by
    exact take_drop_mid pre _ rest
  unfold lastLt
  simp only [hseg]
  rw [find_last txt nm hn _ (by simp)]

/-! ### the correspondence -/

/-- element names for which engine and tokenizer agree that the content is ordinary markup: not one of the
    engine's special elements (script, style, textarea, title), not switched to a text state by the tree builder
    (also excludes xmp, iframe, noembed, noframes, noscript, plaintext), not RCDATA in the engine's table -/
def plainName (n : Bytes) : Bool :=
  !memKey specialElements n && decide (nextSt n = .data) && !(lookupSC elementContent n == some SC.RCDATA)

theorem plainName_nil : plainName [] = true := by decide

/-- element names covered by the correspondence: `plainName` or one of the engine's four special elements -/
def okName (n : Bytes) : Bool := plainName n || memKey specialElements n

theorem okName_nil : okName [] = true := by decide

/-- inside a tag: same tag. The engine's element name is empty for end tags. -/
def InTag (c : Ctx) (t : T) : Prop :=
  okName c.elemName = true ∧
  (if c.elemName = [] then t.isEnd = true else t.isEnd = false ∧ t.name.reverse = c.elemName)

def TagSt (s : St) : Prop := s = .tagName ∨ s = .beforeAttrName ∨ s = .afterAttrValueQ
def AfterNameSt (s : St) : Prop := s = .attrName ∨ s = .afterAttrName

/-- the tokenizer is right after a tag name, between attributes, or after a quoted value; the tag name of an end
    tag inside RCDATA/RAWTEXT/script is still being matched against the element (`textEndName`); or it is at the end
    of an unquoted attribute value (`attrValueUnq`: the engine leaves an unquoted value only before white space or
    `>`, which end the value for the tokenizer as well) -/
def TagT (t : T) : Prop :=
  TagSt t.st ∨ (∃ k, t.st = .textEndName k ∧ t.name.reverse = t.lastStart) ∨ t.st = .attrValueUnq

/-- states from which `>` emits the tag -/
def GtT (t : T) : Prop :=
  TagT t ∨ t.st = .attrName ∨ t.st = .afterAttrName ∨ t.st = .beforeAttrValue ∨ t.st = .selfClosingStart

/-- **the correspondence** between the context the engine infers and the tokenizer state (of the tokenizer fed with
    the text the engine has emitted so far):
    * `text` (outside any special element) ↔ `data`;
    * `tag` ↔ right after the tag name / between attributes / after a quoted value (`TagT`), same tag (`InTag`: the
      tokenizer's tag name is the engine's element name; end tag ↔ empty element name);
    * `attrName`, `afterName`, `beforeValue` ↔ `attrName` / `attrName` or `afterAttrName` / `beforeAttrValue`, same
      tag, the tokenizer's current attribute name is the engine's (lower-cased) attribute name;
    * `attr` with delimiter `"` / `'` ↔ `attrValueDq` / `attrValueSq`, same tag, same attribute name
      (the accumulated attribute value, `scriptType`, `linkRel`, name lists are not constrained);
    * `specialBody` of script/style/textarea/title ↔ `script` / `rawtext` / `rcdata` with `lastStart` = the element;
    * `htmlCmt` ↔ `data`: the engine drops comments from the emitted text (and emits nothing for actions in them);
    * an error context is related to nothing. -/
def Rel (c : Ctx) (t : T) : Prop :=
  match c.state with
  | .text => c.delim = .none ∧ memKey specialElements c.elemName = false ∧ t.st = .data
  | .tag => c.delim = .none ∧ InTag c t ∧ TagT t
  | .attrName => c.delim = .none ∧ InTag c t ∧ t.st = .attrName ∧ t.an.reverse = c.attrName
  | .afterName => c.delim = .none ∧ InTag c t ∧ AfterNameSt t.st ∧ t.an.reverse = c.attrName
  | .beforeValue => c.delim = .none ∧ InTag c t ∧ t.st = .beforeAttrValue ∧ t.an.reverse = c.attrName
  | .attr => InTag c t ∧ t.an.reverse = c.attrName ∧
      ((c.delim = .dq ∧ t.st = .attrValueDq) ∨ (c.delim = .sq ∧ t.st = .attrValueSq))
  | .specialBody => c.delim = .none ∧ memKey specialElements c.elemName = true ∧ t.lastStart = c.elemName ∧
      t.st = nextSt c.elemName
  | .htmlCmt => c.delim = .none ∧ c.elemName = [] ∧ t.st = .data
  | .error => False

/-! ### tokenizer: runs of white space -/

theorem view_st {t : T} {v : View} (h : view t = v) : t.st = v.st := by rw [← h]; rfl

theorem view_isEnd {t : T} {v : View} (h : view t = v) : t.isEnd = v.isEnd := by rw [← h]; rfl
theorem view_name {t : T} {v : View} (h : view t = v) : t.name.reverse = v.name := by rw [← h]; rfl
theorem view_an {t : T} {v : View} (h : view t = v) : t.an.reverse = v.an := by rw [← h]; rfl

theorem run_ws_before : ∀ (w : Bytes) (t : T), t.st = .beforeAttrName → allWs w = true → run t w = t
  | [], _, _, _ => rfl
  | c :: w, t, h, hw => by
    simp only [allWs, List.all_cons, Bool.and_eq_true] at hw
    rw [run_cons, step_beforeAttrName_ws t c h hw.1]
    exact run_ws_before w t h hw.2

theorem run_ws_afterAttrName : ∀ (w : Bytes) (t : T), t.st = .afterAttrName → allWs w = true → run t w = t
  | [], _, _, _ => rfl
  | c :: w, t, h, hw => by
    simp only [allWs, List.all_cons, Bool.and_eq_true] at hw
    rw [run_cons, step_afterAttrName_ws t c h hw.1]
    exact run_ws_afterAttrName w t h hw.2

theorem run_ws_beforeValue : ∀ (w : Bytes) (t : T), t.st = .beforeAttrValue → allWs w = true → run t w = t
  | [], _, _, _ => rfl
  | c :: w, t, h, hw => by
    simp only [allWs, List.all_cons, Bool.and_eq_true] at hw
    rw [run_cons, step_beforeAttrValue_ws t c h hw.1]
    exact run_ws_beforeValue w t h hw.2

theorem step_textEndName_ws (t : T) (c k : Nat) (h : t.st = .textEndName k) (ha : t.name.reverse = t.lastStart)
    (hc : isWs c = true) : view (step 4 t c) = { view t with st := .beforeAttrName } := by
  simp [step, h, view, hc, ha]

theorem step_textEndName_gt (t : T) (k : Nat) (h : t.st = .textEndName k) (ha : t.name.reverse = t.lastStart) :
    (step 4 t 62).st = (if t.isEnd then .data else nextSt t.name.reverse) ∧
    (step 4 t 62).lastStart = (if t.isEnd then t.lastStart else t.name.reverse) := by
  simp [step, h, isWs, ha, emitTag_st, emitTag_lastStart]

theorem step_textEndName_slash (t : T) (k : Nat) (h : t.st = .textEndName k) (ha : t.name.reverse = t.lastStart) :
    view (step 4 t 47) = { view t with st := .selfClosingStart } := by
  simp [step, h, view, isWs, ha]

theorem step_attrValueUnq_ws (t : T) (c : Nat) (h : t.st = .attrValueUnq) (hc : isWs c = true) :
    view (step 4 t c) = { view t with st := .beforeAttrName } := by
  simp [step, h, view, hc]

/-- white space in a tag (after the name, between attributes): only the state may change, and it stays `TagT` -/
theorem run_ws_tag (w : Bytes) (t : T) (h : TagT t) (hw : allWs w = true) :
    ∃ st', TagT (run t w) ∧ (w ≠ [] → st' = .beforeAttrName) ∧ view (run t w) = { view t with st := st' } := by
  cases w with
  | nil => exact ⟨t.st, h, fun h => absurd rfl h, rfl⟩
  | cons c w =>
    simp only [allWs, List.all_cons, Bool.and_eq_true] at hw
    have h1 : view (step 4 t c) = { view t with st := .beforeAttrName } := by
      rcases h with (h | h | h) | ⟨k, h, ha⟩ | h
      · exact step_tagName_ws t c h hw.1
      · rw [step_beforeAttrName_ws t c h hw.1]; simp [view, h]
      · exact step_afterAttrValueQ_ws t c h hw.1
      · exact step_textEndName_ws t c k h ha hw.1
      · exact step_attrValueUnq_ws t c h hw.1
    have h2 : run t (c :: w) = step 4 t c := by rw [run_cons, run_ws_before w _ (view_st h1) hw.2]
    refine ⟨.beforeAttrName, ?_, fun _ => rfl, ?_⟩
    · rw [h2]; exact Or.inl (Or.inr (Or.inl (view_st h1)))
    · rw [h2, h1]

theorem run_ws_afterName (w : Bytes) (t : T) (h : AfterNameSt t.st) (hw : allWs w = true) :
    ∃ st', AfterNameSt st' ∧ (w ≠ [] → st' = .afterAttrName) ∧ view (run t w) = { view t with st := st' } := by
  cases w with
  | nil => exact ⟨t.st, h, fun h => absurd rfl h, rfl⟩
  | cons c w =>
    simp only [allWs, List.all_cons, Bool.and_eq_true] at hw
    have h1 : view (step 4 t c) = { view t with st := .afterAttrName } := by
      rcases h with h | h
      · exact step_attrName_ws t c h hw.1
      · rw [step_afterAttrName_ws t c h hw.1]; simp [view, h]
    refine ⟨.afterAttrName, Or.inr rfl, fun _ => rfl, ?_⟩
    rw [run_cons, run_ws_afterAttrName w _ (view_st h1) hw.2, h1]

theorem run_attrName_nb : ∀ (nm : Bytes) (t : T), t.st = .attrName → nm.all attrNameByte = true →
    view (run t nm) = { view t with an := (view t).an ++ nm.map lower }
  | [], t, _, _ => by simp [run_nil]
  | c :: nm, t, h, hn => by
    simp only [List.all_cons, Bool.and_eq_true] at hn
    have h1 := step_attrName_nb t c h hn.1
    have hst : (step 4 t c).st = .attrName := by rw [view_st h1]; exact h
    rw [run_cons, run_attrName_nb nm _ hst hn.2, h1]
    simp


/-! ### tokenizer: the productions -/

theorem view_open (t : T) (txt : Bytes) (c0 : Nat) (nm : Bytes) (h : t.st = .data) (ht : ∀ b ∈ txt, b ≠ 60)
    (hc : isAlpha c0 = true) (hn : nm.all asciiAlphaNum = true) :
    view (run t (txt ++ 60 :: c0 :: nm)) = ⟨.tagName, false, (c0 :: nm).map lower, [], t.lastStart⟩ := by
  rw [run_append, run_data txt t h ht, run_cons, run_cons]
  have h1 := step_data_lt { t with txt := txt.reverse ++ t.txt } h
  have h2 := step_tagOpen_alpha _ c0 (view_st h1) hc
  rw [run_tagName_alnum nm _ (view_st h2) hn, h2, h1]
  simp [view]

theorem view_close (t : T) (txt : Bytes) (c0 : Nat) (nm : Bytes) (h : t.st = .data) (ht : ∀ b ∈ txt, b ≠ 60)
    (hc : isAlpha c0 = true) (hn : nm.all asciiAlphaNum = true) :
    view (run t (txt ++ 60 :: 47 :: c0 :: nm)) = ⟨.tagName, true, (c0 :: nm).map lower, [], t.lastStart⟩ := by
  rw [run_append, run_data txt t h ht, run_cons, run_cons, run_cons]
  have h1 := step_data_lt { t with txt := txt.reverse ++ t.txt } h
  have h2 := step_tagOpen_slash _ (view_st h1)
  have h3 := step_endTagOpen_alpha _ c0 (view_st h2) hc
  rw [run_tagName_alnum nm _ (view_st h3) hn, h3, h2, h1]
  simp [view]

theorem rel_text (c : Ctx) (t : T) (txt : Bytes) (hs : c.state = .text) (h : Rel c t) (ht : ∀ b ∈ txt, b ≠ 60) :
    Rel c (run t txt) := by
  simp only [Rel, hs] at h ⊢
  rw [run_data txt t h.2.2 ht]
  exact h

theorem rel_open (c : Ctx) (t : T) (txt : Bytes) (c0 : Nat) (nm : Bytes) (hs : c.state = .text) (h : Rel c t)
    (ht : ∀ b ∈ txt, b ≠ 60) (hc : isAlpha c0 = true) (hn : nm.all asciiAlphaNum = true)
    (hp : okName ((c0 :: nm).map lower) = true) :
    Rel { state := .tag, elemName := (c0 :: nm).map lower } (run t (txt ++ 60 :: c0 :: nm)) := by
  simp only [Rel, hs] at h
  have v := view_open t txt c0 nm h.2.2 ht hc hn
  simp only [Rel, InTag]
  have h1 : (run t (txt ++ 60 :: c0 :: nm)).st = .tagName := view_st v
  have h2 : (run t (txt ++ 60 :: c0 :: nm)).isEnd = false := congrArg View.isEnd v
  have h3 : (run t (txt ++ 60 :: c0 :: nm)).name.reverse = (c0 :: nm).map lower := congrArg View.name v
  refine ⟨trivial, ⟨hp, ?_⟩, Or.inl (Or.inl h1)⟩
  rw [if_neg (by simp)]
  exact ⟨h2, h3⟩

theorem rel_close (c : Ctx) (t : T) (txt : Bytes) (c0 : Nat) (nm : Bytes) (hs : c.state = .text) (h : Rel c t)
    (ht : ∀ b ∈ txt, b ≠ 60) (hc : isAlpha c0 = true) (hn : nm.all asciiAlphaNum = true) :
    Rel { state := .tag, elemName := [] } (run t (txt ++ 60 :: 47 :: c0 :: nm)) := by
  simp only [Rel, hs] at h
  have v := view_close t txt c0 nm h.2.2 ht hc hn
  simp only [Rel, InTag]
  have h1 : (run t (txt ++ 60 :: 47 :: c0 :: nm)).st = .tagName := view_st v
  have h2 : (run t (txt ++ 60 :: 47 :: c0 :: nm)).isEnd = true := congrArg View.isEnd v
  exact ⟨trivial, ⟨okName_nil, by simpa using h2⟩, Or.inl (Or.inl h1)⟩


theorem InTag_of (c c' : Ctx) (t t' : T) (he : c'.elemName = c.elemName) (h1 : t'.isEnd = t.isEnd)
    (h2 : t'.name = t.name) (h : InTag c t) : InTag c' t' := by
  unfold InTag at h ⊢
  rw [he, h1, h2]; exact h

theorem InTag_view (c c' : Ctx) (t t' : T) (he : c'.elemName = c.elemName)
    (h1 : (view t').isEnd = (view t).isEnd) (h2 : (view t').name = (view t).name) (h : InTag c t) :
    InTag c' t' := by
  unfold InTag at h ⊢
  have h1' : t'.isEnd = t.isEnd := h1
  have h2' : t'.name.reverse = t.name.reverse := h2
  rw [he, h1', h2']; exact h

theorem plainName_spec {n : Bytes} (h : plainName n = true) :
    memKey specialElements n = false ∧ nextSt n = .data ∧ (lookupSC elementContent n == some SC.RCDATA) = false := by
  simpa [plainName, and_assoc] using h

theorem okName_cases {n : Bytes} (h : okName n = true) : plainName n = true ∨ memKey specialElements n = true := by
  simpa [okName] using h

theorem special_cases {n : Bytes} (h : memKey specialElements n = true) :
    n = [115, 99, 114, 105, 112, 116] ∨ n = [115, 116, 121, 108, 101] ∨
    n = [116, 101, 120, 116, 97, 114, 101, 97] ∨ n = [116, 105, 116, 108, 101] := by
  simp only [memKey, specialElements, List.any_cons, List.any_nil, Bool.or_false, Bool.or_eq_true, beq_iff_eq] at h
  rcases h with h | h | h | h <;> simp [← h]

theorem special_not_void {n : Bytes} (h : memKey specialElements n = true) :
    memKey voidElements n = false ∧ n ≠ [] := by
  rcases special_cases h with rfl | rfl | rfl | rfl <;> exact ⟨by decide, by decide⟩

/-- after `>` of a non-special element -/
theorem tagEndCtx_plain (c : Ctx) (h : memKey specialElements c.elemName = false) :
    (tagEndCtx c).state = .text ∧ (tagEndCtx c).delim = .none ∧
    ((tagEndCtx c).elemName = c.elemName ∨ (tagEndCtx c).elemName = []) := by
  unfold tagEndCtx
  simp only [h]
  split <;> simp

/-- after `>` of script, style, textarea, title -/
theorem tagEndCtx_special (c : Ctx) (h : memKey specialElements c.elemName = true) :
    (tagEndCtx c).state = .specialBody ∧ (tagEndCtx c).delim = .none ∧ (tagEndCtx c).elemName = c.elemName := by
  unfold tagEndCtx
  simp [h, (special_not_void h).1]

theorem tagEndCtx_state (c : Ctx) : (tagEndCtx c).state ≠ .htmlCmt ∧ (tagEndCtx c).delim = .none := by
  cases h : memKey specialElements c.elemName
  · have := tagEndCtx_plain c h; simp [this.1, this.2.1]
  · have := tagEndCtx_special c h; simp [this.1, this.2.1]

theorem step_gt_all (t : T) (h : GtT t) :
    (step 4 t 62).st = (if t.isEnd then .data else nextSt t.name.reverse) ∧
    (step 4 t 62).lastStart = (if t.isEnd then t.lastStart else t.name.reverse) := by
  rcases h with ((h | h | h) | ⟨k, h, ha⟩ | hu) | h | h | h | h
  · exact step_gt t (Or.inl h)
  · exact step_gt t (Or.inr (Or.inl h))
  · exact step_gt t (Or.inr (Or.inr (Or.inl h)))
  · exact step_textEndName_gt t k h ha
  · simp [step, hu, isWs, emitTag_st, emitTag_lastStart]
  · exact step_gt t (Or.inr (Or.inr (Or.inr (Or.inl h))))
  · exact step_gt t (Or.inr (Or.inr (Or.inr (Or.inr (Or.inl h)))))
  · exact step_gt t (Or.inr (Or.inr (Or.inr (Or.inr (Or.inr h)))))
  · simp [step, h, emitTag_st, emitTag_lastStart]

/-- `>` closes the tag: for a `plainName` element or an end tag both sides return to text/data; for a special
    element both sides enter its body -/
theorem rel_gt (c : Ctx) (t : T) (hin : InTag c t) (hst : GtT t) : Rel (tagEndCtx c) (run t [62]) := by
  obtain ⟨hp, hn⟩ := hin
  obtain ⟨hg1, hg2⟩ := step_gt_all t hst
  rw [run_cons, run_nil]
  rcases okName_cases hp with hp | hp
  · have hsp := plainName_spec hp
    have hdata : (step 4 t 62).st = .data := by
      rw [hg1]
      by_cases he : c.elemName = []
      · rw [if_pos he] at hn; simp [hn]
      · rw [if_neg he] at hn; simp [hn.1, hn.2, hsp.2.1]
    obtain ⟨p1, p2, p3⟩ := tagEndCtx_plain c hsp.1
    simp only [Rel, p1]
    refine ⟨p2, ?_, hdata⟩
    rcases p3 with p3 | p3 <;> rw [p3]
    · exact hsp.1
    · rfl
  · obtain ⟨p1, p2, p3⟩ := tagEndCtx_special c hp
    rw [if_neg (special_not_void hp).2] at hn
    simp only [Rel, p1, p3]
    refine ⟨p2, hp, ?_, ?_⟩
    · rw [hg2]; simp [hn.1, hn.2]
    · rw [hg1]; simp [hn.1, hn.2]

theorem rel_tagEnd (c : Ctx) (t : T) (w : Bytes) (hs : c.state = .tag) (h : Rel c t) (hw : allWs w = true) :
    Rel (tagEndCtx c) (run t (w ++ [62])) := by
  simp only [Rel, hs] at h
  obtain ⟨_, hin, hst⟩ := h
  obtain ⟨st', hst', _, hv⟩ := run_ws_tag w t hst hw
  rw [run_append]
  exact rel_gt c _ (InTag_view c c t _ rfl (view_isEnd hv :) (view_name hv :) hin) (Or.inl hst')

theorem rel_tagWs (c : Ctx) (t : T) (w : Bytes) (hs : c.state = .tag) (h : Rel c t) (hw : allWs w = true) :
    Rel c (run t w) := by
  simp only [Rel, hs] at h ⊢
  obtain ⟨hd, hin, hst⟩ := h
  obtain ⟨st', hst', _, hv⟩ := run_ws_tag w t hst hw
  exact ⟨hd, InTag_view c c t _ rfl (view_isEnd hv :) (view_name hv :) hin, hst'⟩

theorem view_attrNm (t : T) (w nm : Bytes) (hst : TagT t) (hw : allWs w = true) (hwn : w ≠ [])
    (hn : nm.all attrNameByte = true) (hne : nm ≠ []) :
    view (run t (w ++ nm)) = { view t with st := .attrName, an := nm.map lower } := by
  obtain ⟨st', _, hb, hv⟩ := run_ws_tag w t hst hw
  rw [hb hwn] at hv
  obtain ⟨x, nm', rfl⟩ := List.exists_cons_of_ne_nil hne
  simp only [List.all_cons, Bool.and_eq_true] at hn
  have h1 := step_beforeAttrName_nb (run t w) x (view_st hv) hn.1
  rw [run_append, run_cons, run_attrName_nb nm' _ (view_st h1) hn.2, h1, hv]
  simp

theorem rel_attrNm (c : Ctx) (t : T) (w nm : Bytes) (last : Bool) (hs : c.state = .tag) (h : Rel c t)
    (hw : allWs w = true) (hwn : w ≠ []) (hn : nm.all attrNameByte = true) (hne : nm ≠ []) :
    Rel (attrNameCtx c nm last) (run t (w ++ nm)) := by
  simp only [Rel, hs] at h
  obtain ⟨hd, hin, hst⟩ := h
  have hv := view_attrNm t w nm hst hw hwn hn hne
  have hin' : InTag (attrNameCtx c nm last) (run t (w ++ nm)) :=
    InTag_view c _ t _ rfl (view_isEnd hv :) (view_name hv :) hin
  have han : (run t (w ++ nm)).an.reverse = nm.map lower := (view_an hv :)
  cases last
  · simp only [Rel, attrNameCtx, Bool.false_eq_true, if_false]
    exact ⟨trivial, hin', Or.inl (view_st hv), han⟩
  · simp only [Rel, attrNameCtx, if_true]
    exact ⟨trivial, hin', view_st hv, han⟩

theorem rel_nameEnd (c : Ctx) (t : T) (hs : c.state = .attrName) (h : Rel c t) :
    Rel { c with state := .afterName } t := by
  simp only [Rel, hs] at h ⊢
  exact ⟨h.1, InTag_of c _ t t rfl rfl rfl h.2.1, Or.inl h.2.2.1, h.2.2.2⟩

theorem rel_eq (c : Ctx) (t : T) (w : Bytes) (hs : c.state = .afterName) (h : Rel c t) (hw : allWs w = true) :
    Rel { c with state := .beforeValue } (run t (w ++ [61])) := by
  simp only [Rel, hs] at h ⊢
  obtain ⟨hd, hin, hst, han⟩ := h
  obtain ⟨st', hst', _, hv⟩ := run_ws_afterName w t hst hw
  have h1 : view (step 4 (run t w) 61) = { view (run t w) with st := .beforeAttrValue } := by
    have : (run t w).st = st' := view_st hv
    rcases hst' with h | h
    · exact step_attrName_eq _ (this.trans h)
    · exact step_afterAttrName_eq _ (this.trans h)
  have hv2 : view (run t (w ++ [61])) = { view t with st := .beforeAttrValue } := by
    rw [run_append, run_cons, run_nil, h1, hv]
  refine ⟨hd, InTag_view c _ t _ rfl (view_isEnd hv2 :) (view_name hv2 :) hin, view_st hv2, ?_⟩
  exact (view_an hv2 :).trans han

theorem rel_afterWs (c : Ctx) (t : T) (w : Bytes) (hs : c.state = .afterName) (h : Rel c t) (hw : allWs w = true) :
    Rel c (run t w) := by
  simp only [Rel, hs] at h ⊢
  obtain ⟨hd, hin, hst, han⟩ := h
  obtain ⟨st', hst', _, hv⟩ := run_ws_afterName w t hst hw
  refine ⟨hd, InTag_view c c t _ rfl (view_isEnd hv :) (view_name hv :) hin, ?_,
    (view_an hv :).trans han⟩
  rw [view_st hv]; exact hst'

theorem rel_quote (c : Ctx) (t : T) (w : Bytes) (d : Delim) (hd : d = .dq ∨ d = .sq) (hs : c.state = .beforeValue)
    (h : Rel c t) (hw : allWs w = true) :
    Rel { c with state := .attr, delim := d } (run t (w ++ [quoteOf d])) := by
  simp only [Rel, hs] at h ⊢
  obtain ⟨_, hin, hst, han⟩ := h
  have hv2 : view (run t (w ++ [quoteOf d])) =
      { view t with st := if d = .dq then .attrValueDq else .attrValueSq } := by
    rw [run_append, run_cons, run_nil, run_ws_beforeValue w t hst hw]
    rcases hd with rfl | rfl
    · exact step_beforeAttrValue_dq t hst
    · exact step_beforeAttrValue_sq t hst
  refine ⟨InTag_view c _ t _ rfl (view_isEnd hv2 :) (view_name hv2 :) hin,
    (view_an hv2 :).trans han, ?_⟩
  rw [view_st hv2]
  rcases hd with rfl | rfl <;> simp

theorem rel_beforeWs (c : Ctx) (t : T) (w : Bytes) (hs : c.state = .beforeValue) (h : Rel c t)
    (hw : allWs w = true) : Rel c (run t w) := by
  have hst : t.st = .beforeAttrValue := by simp only [Rel, hs] at h; exact h.2.2.1
  rw [run_ws_beforeValue w t hst hw]; exact h

theorem run_val (t : T) (d : Delim) (v : Bytes) (hst : (d = .dq ∧ t.st = .attrValueDq) ∨ (d = .sq ∧ t.st = .attrValueSq))
    (hv : ∀ b ∈ v, b ≠ quoteOf d) : view (run t v) = view t := by
  rcases hst with ⟨rfl, h⟩ | ⟨rfl, h⟩
  · rw [run_dq v t h hv]; rfl
  · rw [run_sq v t h hv]; rfl

theorem rel_val (c : Ctx) (t : T) (v : Bytes) (hs : c.state = .attr) (h : Rel c t)
    (hv : ∀ b ∈ v, b ≠ quoteOf c.delim) : Rel { c with attrValue := c.attrValue ++ v } (run t v) := by
  simp only [Rel, hs] at h ⊢
  obtain ⟨hin, han, hst⟩ := h
  have hv2 := run_val t c.delim v hst hv
  refine ⟨InTag_view c _ t _ rfl (view_isEnd hv2 :) (view_name hv2 :) hin,
    (view_an hv2 :).trans han, ?_⟩
  rw [view_st hv2]; exact hst

theorem rel_closeQ (c : Ctx) (t : T) (v : Bytes) (hs : c.state = .attr) (h : Rel c t)
    (hv : ∀ b ∈ v, b ≠ quoteOf c.delim) : Rel (attrCloseCtx c v) (run t (v ++ [quoteOf c.delim])) := by
  simp only [Rel, hs] at h
  obtain ⟨hin, han, hst⟩ := h
  have hv1 := run_val t c.delim v hst hv
  have hv2 : view (run t (v ++ [quoteOf c.delim])) = { view t with st := .afterAttrValueQ } := by
    rw [run_append, run_cons, run_nil, ← hv1]
    have h1 : (run t v).st = t.st := view_st hv1
    rcases hst with ⟨hd, h⟩ | ⟨hd, h⟩
    · rw [hd]; exact step_attrValueDq_q _ (h1.trans h)
    · rw [hd]; exact step_attrValueSq_q _ (h1.trans h)
  obtain ⟨p1, p2, p3⟩ := attrCloseCtx_proj c v
  simp only [Rel, p1]
  refine ⟨p2, InTag_view c _ t _ p3 (view_isEnd hv2 :) (view_name hv2 :) hin, ?_⟩
  exact Or.inl (Or.inr (Or.inr (view_st hv2)))

/-! ### one iteration of the loop, in general -/

/-- both rewriting stages of one iteration: the new `(b, written)` -/
def stepBW (s : Bytes) (st : ETState) (c1 : Ctx) (i1 : Nat) : Bytes × Nat :=
  let p := rewriteStep s st c1 i1
  if st.c.state != c1.state && isComment c1.state && c1.delim == .none then
    (p.1 ++ (s.take (if c1.state == .htmlCmt then i1 - 4 else i1 - 2)).drop p.2, i1)
  else p

theorem loop_step_gen (s : Bytes) (f : Nat) (st : ETState) (c1 : Ctx) (n : Nat)
    (hi : st.i ≠ s.length)
    (hc : contextAfterText st.c (s.drop st.i) = (c1, n))
    (hjs : (st.c.state == .specialBody && st.c.elemName == scriptName && !isJsTemplateBalanced s) = false)
    (hprog : n ≠ 0 ∨ st.c.state ≠ c1.state) :
    escapeTextLoop false s (f + 1) st =
      escapeTextLoop false s f { c := c1, i := st.i + n, written := (stepBW s st c1 (st.i + n)).2,
                                 b := (stepBW s st c1 (st.i + n)).1 } := by
  have hi' : (st.i == s.length) = false := by simpa using hi
  have hp : (st.i == st.i + n && st.c.state == c1.state) = false := by
    rcases hprog with h | h
    · have : (st.i == st.i + n) = false := by simp; omega
      simp [this]
    · have : (st.c.state == c1.state) = false := by simpa using h
      simp [this]
  rw [escapeTextLoop]
  simp only [hi', Bool.false_and, Bool.false_eq_true, if_false, hc, hjs, hp]
  unfold stepBW rewriteStep
  split <;> rfl


theorem stepBW_nocmt (s : Bytes) (st : ETState) (c1 : Ctx) (i1 : Nat) (h : c1.state ≠ .htmlCmt) :
    stepBW s st c1 i1 = rewriteStep s st c1 i1 := by
  have : isComment c1.state = false := by simpa [isComment] using h
  simp [stepBW, this]

/-! ### bookkeeping of the rewritten text -/

/-- iterations needed by the loop (the engine gives itself `2·|s| + 2`) -/
def need (st : State) (s : Bytes) : Nat := 2 * s.length + (if st = .attrName then 2 else 1)

theorem need_le (st : State) (s : Bytes) : need st s ≤ 2 * s.length + 2 := by
  unfold need; split <;> omega

/-- invariant of the loop state at offset `|pre|`: `written ≤ i`; nothing written yet means an empty buffer;
    inside a comment everything so far has been dealt with -/
def Inv (pre : Bytes) (c : Ctx) (w : Nat) (b : Bytes) : Prop :=
  w ≤ pre.length ∧ (w = 0 → b = []) ∧ (c.state = .htmlCmt → w = pre.length)

/-- what the loop is proved to do on a simple text `s` at offset `|pre|`: it ends normally, the text emitted
    for `s` is `out` (`b ++ pre[w:]` is what is emitted for `pre`), the final context is related to the
    tokenizer state after `out`, and is in state `se` -/
def Good (pre s : Bytes) (c : Ctx) (t : T) (f w : Nat) (b out : Bytes) (se : State) : Prop :=
  ∃ c' w' b', escapeTextLoop false (pre ++ s) f ⟨c, pre.length, w, b⟩ =
      .inl (some ⟨c', (pre ++ s).length, w', b'⟩) ∧
    Inv (pre ++ s) c' w' b' ∧ b' ++ (pre ++ s).drop w' = b ++ pre.drop w ++ out ∧ Rel c' (run t out) ∧
    c'.state = se

theorem chunkM {se : State} (pre seg rest : Bytes) (c c' : Ctx) (t : T) (f : Nat) (m : Nat) (w w1 : Nat)
    (b b1 outSeg outRest : Bytes)
    (hne : seg ++ rest ≠ [])
    (hcat : contextAfterText c (seg ++ rest) = (c', seg.length))
    (hbw : stepBW (pre ++ (seg ++ rest)) ⟨c, pre.length, w, b⟩ c' (pre.length + seg.length) = (b1, w1))
    (hjs : (c.state == .specialBody && c.elemName == scriptName &&
      !isJsTemplateBalanced (pre ++ (seg ++ rest))) = false)
    (hprog : seg ≠ [] ∨ c.state ≠ c'.state)
    (hf : m + 1 ≤ f)
    (hacc : b1 ++ (pre ++ seg).drop w1 = b ++ pre.drop w ++ outSeg)
    (ih : ∀ f', m ≤ f' → Good (pre ++ seg) rest c' (run t outSeg) f' w1 b1 outRest se) :
    Good pre (seg ++ rest) c t f w b (outSeg ++ outRest) se := by
  obtain ⟨f', rfl⟩ : ∃ f', f = f' + 1 := ⟨f - 1, by omega⟩
  obtain ⟨c'', w'', b'', h1, h2, h3, h4, h5⟩ := ih f' (by omega)
  have hi : pre.length ≠ (pre ++ (seg ++ rest)).length := by
    cases h : seg ++ rest with
    | nil => exact absurd h hne
    | cons x l => simp
  have hstep := loop_step_gen (pre ++ (seg ++ rest)) f' ⟨c, pre.length, w, b⟩ c' seg.length hi
    (by simpa using hcat) hjs
    (by rcases hprog with h | h
        · left; cases seg with
          | nil => exact absurd rfl h
          | cons x l => simp
        · right; exact h)
  simp only [hbw] at hstep
  refine ⟨c'', w'', b'', ?_, ?_, ?_, by rw [run_append]; exact h4, h5⟩
  · rw [hstep, ← List.append_assoc, ← List.length_append, h1]
  · rw [← List.append_assoc]; exact h2
  · rw [← List.append_assoc, h3, hacc]; simp [List.append_assoc]

theorem chunk0M {se : State} (pre seg rest : Bytes) (c c' : Ctx) (t : T) (f : Nat) (m : Nat) (w : Nat) (b outRest : Bytes)
    (hne : seg ++ rest ≠ [])
    (hcat : contextAfterText c (seg ++ rest) = (c', seg.length))
    (hrw : rewriteStep (pre ++ (seg ++ rest)) ⟨c, pre.length, w, b⟩ c' (pre.length + seg.length) = (b, w))
    (hsb : c.state ≠ .specialBody) (hc1 : c'.state ≠ .htmlCmt)
    (hprog : seg ≠ [] ∨ c.state ≠ c'.state)
    (hf : m + 1 ≤ f) (hw : w ≤ pre.length)
    (ih : ∀ f', m ≤ f' → Good (pre ++ seg) rest c' (run t seg) f' w b outRest se) :
    Good pre (seg ++ rest) c t f w b (seg ++ outRest) se := by
  refine chunkM pre seg rest c c' t f m w w b b seg outRest hne hcat ?_ ?_ hprog hf ?_ ih
  · rw [stepBW_nocmt _ _ _ _ hc1]; exact hrw
  · have : (c.state == State.specialBody) = false := by simpa using hsb
    simp [this]
  · rw [List.drop_append_of_le_length hw, List.append_assoc]

theorem chunk {se : State} (pre seg rest : Bytes) (c c' : Ctx) (t : T) (f : Nat) (st' : State) (w w1 : Nat)
    (b b1 outSeg outRest : Bytes)
    (hne : seg ++ rest ≠ [])
    (hcat : contextAfterText c (seg ++ rest) = (c', seg.length))
    (hbw : stepBW (pre ++ (seg ++ rest)) ⟨c, pre.length, w, b⟩ c' (pre.length + seg.length) = (b1, w1))
    (hjs : (c.state == .specialBody && c.elemName == scriptName &&
      !isJsTemplateBalanced (pre ++ (seg ++ rest))) = false)
    (hprog : seg ≠ [] ∨ c.state ≠ c'.state)
    (hf : need st' rest + 1 ≤ f)
    (hacc : b1 ++ (pre ++ seg).drop w1 = b ++ pre.drop w ++ outSeg)
    (ih : ∀ f', need st' rest ≤ f' → Good (pre ++ seg) rest c' (run t outSeg) f' w1 b1 outRest se) :
    Good pre (seg ++ rest) c t f w b (outSeg ++ outRest) se :=
  chunkM pre seg rest c c' t f _ w w1 b b1 outSeg outRest hne hcat hbw hjs hprog hf hacc ih

theorem chunk0 {se : State} (pre seg rest : Bytes) (c c' : Ctx) (t : T) (f : Nat) (st' : State) (w : Nat) (b outRest : Bytes)
    (hne : seg ++ rest ≠ [])
    (hcat : contextAfterText c (seg ++ rest) = (c', seg.length))
    (hrw : rewriteStep (pre ++ (seg ++ rest)) ⟨c, pre.length, w, b⟩ c' (pre.length + seg.length) = (b, w))
    (hsb : c.state ≠ .specialBody) (hc1 : c'.state ≠ .htmlCmt)
    (hprog : seg ≠ [] ∨ c.state ≠ c'.state)
    (hf : need st' rest + 1 ≤ f) (hw : w ≤ pre.length)
    (ih : ∀ f', need st' rest ≤ f' → Good (pre ++ seg) rest c' (run t seg) f' w b outRest se) :
    Good pre (seg ++ rest) c t f w b (seg ++ outRest) se :=
  chunk0M pre seg rest c c' t f _ w b outRest hne hcat hrw hsb hc1 hprog hf hw ih

theorem Inv_next (pre seg : Bytes) (c c' : Ctx) (w : Nat) (b : Bytes) (h : Inv pre c w b)
    (hc : c'.state ≠ .htmlCmt) : Inv (pre ++ seg) c' w b :=
  ⟨by have := h.1; simp; omega, h.2.1, fun h' => absurd h' hc⟩

theorem good_nil (pre : Bytes) (c : Ctx) (t : T) (f w : Nat) (b : Bytes) (h : Rel c t) (hf : 1 ≤ f)
    (hinv : Inv pre c w b) : Good pre [] c t f w b [] c.state := by
  obtain ⟨f', rfl⟩ : ∃ f', f = f' + 1 := ⟨f - 1, by omega⟩
  refine ⟨c, w, b, ?_, by simpa using hinv, by simp, h, rfl⟩
  rw [escapeTextLoop]
  simp


theorem rewriteStep_nontext (s : Bytes) (c c1 : Ctx) (i w i1 : Nat) (b : Bytes) (h1 : c.state ≠ .text)
    (h2 : c.state ≠ .htmlCmt) (h3 : (lookupSC elementContent c.elemName == some SC.RCDATA) = false) :
    rewriteStep s ⟨c, i, w, b⟩ c1 i1 = (b, w) := by
  have h1' : (c.state == State.text) = false := by simpa using h1
  have h2' : isComment c.state = false := by simpa [isComment] using h2
  simp [rewriteStep, h1', h2', h3]

theorem getD_mid (pre txt r : Bytes) (ht : ∀ b ∈ txt, b ≠ 60) (k : Nat) (h1 : pre.length ≤ k)
    (h2 : k < pre.length + txt.length) : (pre ++ (txt ++ r)).getD k 0 ≠ 60 := by
  have : (pre ++ (txt ++ r)).getD k 0 = txt.getD (k - pre.length) 0 := by
    simp [List.getD_eq_getElem?_getD, List.getElem?_append_right h1,
      List.getElem?_append_left (show k - pre.length < txt.length by omega)]
  rw [this]; exact getD_ne txt ht _

theorem rewriteStep_text_same (pre txt : Bytes) (c c1 : Ctx) (w : Nat) (b : Bytes) (h : c.state = .text)
    (h1 : c1.state = .text) (ht : ∀ b ∈ txt, b ≠ 60) :
    rewriteStep (pre ++ (txt ++ [])) ⟨c, pre.length, w, b⟩ c1 (pre.length + txt.length) = (b, w) := by
  simp only [rewriteStep, h, h1, beq_self_eq_true, Bool.true_or, if_true, bne_self_eq_false, Bool.false_eq_true,
    if_false]
  exact ltLoop_none _ _ _ _ _ _ (fun k hk hk' => getD_mid pre txt [] ht k hk hk')

theorem rewriteStep_text_lt (pre txt nm rest : Bytes) (c c1 : Ctx) (w : Nat) (b : Bytes) (h : c.state = .text)
    (h1 : c1.state ≠ .text) (ht : ∀ b ∈ txt, b ≠ 60) (hn : ∀ b ∈ nm, b ≠ 60) :
    rewriteStep (pre ++ (txt ++ 60 :: nm ++ rest)) ⟨c, pre.length, w, b⟩ c1
      (pre.length + (txt ++ 60 :: nm).length) = (b, w) := by
  have h1' : (c1.state != State.text) = true := by simpa using h1
  simp only [rewriteStep, h, beq_self_eq_true, Bool.true_or, if_true, h1']
  rw [lastLt_seg pre txt nm rest hn]
  refine ltLoop_none _ _ _ _ _ _ (fun k hk hk' => ?_)
  rw [List.append_assoc txt]
  exact getD_mid pre txt _ ht k hk hk'


/-! ### comments -/

theorem tText_cmt (c : Ctx) (txt rest : Bytes) (h : ∀ b ∈ txt, b ≠ 60) :
    tText c (txt ++ 60 :: 33 :: 45 :: 45 :: rest) = ({ state := .htmlCmt }, (txt ++ [60, 33, 45, 45]).length) := by
  have hd : (txt ++ 60 :: 33 :: 45 :: 45 :: rest).drop (txt.length + 1) = 33 :: 45 :: 45 :: rest := by simp
  have hd0 : (txt ++ 60 :: 33 :: 45 :: 45 :: rest).drop txt.length = 60 :: 33 :: 45 :: 45 :: rest := by simp
  simp only [tText, tTextGo, indexByte_append txt _ h, hd, hd0]
  simp [commentStart]

theorem isPrefixOf_append_of_le : ∀ (n x y : Bytes), n.length ≤ x.length → n.isPrefixOf (x ++ y) = n.isPrefixOf x
  | [], _, _, _ => by simp
  | a :: n, [], _, h => by simp at h
  | a :: n, b :: x, y, h => by
    simp only [List.cons_append, List.isPrefixOf_cons_cons]
    rw [isPrefixOf_append_of_le n x y (by simpa using h)]

theorem indexSub_none (n : Bytes) (hn : n ≠ []) : ∀ (s : Bytes), containsSub n s = false → indexSub n s = none
  | [], _ => by cases n with
    | nil => exact absurd rfl hn
    | cons a n => simp [indexSub]
  | c :: s, h => by
    simp only [containsSub, Bool.or_eq_false_iff] at h
    simp [indexSub, h.1, indexSub_none n hn s h.2]

theorem indexSub_cmtEnd : ∀ (body rest : Bytes), containsSub commentEnd (body ++ [45, 45]) = false →
    indexSub commentEnd (body ++ 45 :: 45 :: 62 :: rest) = some body.length
  | [], rest, _ => by simp [indexSub, commentEnd]
  | c :: body, rest, h => by
    have e : c :: body ++ 45 :: 45 :: 62 :: rest = (c :: body ++ [45, 45]) ++ (62 :: rest) := by simp
    simp only [List.cons_append, containsSub, Bool.or_eq_false_iff] at h
    have h1 : commentEnd.isPrefixOf (c :: body ++ 45 :: 45 :: 62 :: rest) = false := by
      rw [e, isPrefixOf_append_of_le _ _ _ (by simp [commentEnd])]
      simpa using h.1
    have ih := indexSub_cmtEnd body rest h.2
    simp only [List.cons_append] at h1
    simp only [List.cons_append, indexSub, h1, ih]
    simp

theorem tHTMLCmt_none (c : Ctx) (body : Bytes) (h : containsSub commentEnd body = false) :
    tHTMLCmt c body = (c, body.length) := by
  simp [tHTMLCmt, indexSub_none commentEnd (by simp [commentEnd]) body h]

theorem tHTMLCmt_close (c : Ctx) (body rest : Bytes) (h : containsSub commentEnd (body ++ [45, 45]) = false) :
    tHTMLCmt c (body ++ 45 :: 45 :: 62 :: rest) = ({}, (body ++ [45, 45, 62]).length) := by
  simp only [tHTMLCmt, indexSub_cmtEnd body rest h]
  simp

theorem stepBW_text_cmt (pre txt rest : Bytes) (c c1 : Ctx) (w : Nat) (b : Bytes) (h : c.state = .text)
    (h1 : c1.state = .htmlCmt) (hd : c1.delim = .none) (ht : ∀ b ∈ txt, b ≠ 60) :
    stepBW (pre ++ (txt ++ 60 :: [33, 45, 45] ++ rest)) ⟨c, pre.length, w, b⟩ c1
      (pre.length + (txt ++ 60 :: [33, 45, 45]).length) =
      (b ++ (pre ++ txt).drop w, pre.length + (txt ++ 60 :: [33, 45, 45]).length) := by
  have hrw := rewriteStep_text_lt pre txt [33, 45, 45] rest c c1 w b h (by simp [h1]) ht (by decide)
  have hlen : pre.length + (txt ++ 60 :: [33, 45, 45]).length - 4 = (pre ++ txt).length := by
    simp only [List.length_append, List.length_cons, List.length_nil]; omega
  have ht4 : (pre ++ (txt ++ 60 :: [33, 45, 45] ++ rest)).take (pre.length + (txt ++ 60 :: [33, 45, 45]).length - 4)
      = pre ++ txt := by
    rw [hlen, List.append_assoc txt, ← List.append_assoc pre txt]
    exact List.take_left' rfl
  simp only [stepBW, hrw, h1, hd, isComment, beq_self_eq_true, if_true, ht4]
  simp [h]

theorem stepBW_cmt (s : Bytes) (c c1 : Ctx) (i w i1 : Nat) (b : Bytes) (h : c.state = .htmlCmt)
    (hd : c.delim = .none) (he : c.elemName = []) (h1 : c1.state = .htmlCmt ∨ c1.state = .text) :
    stepBW s ⟨c, i, w, b⟩ c1 i1 = (b, i1) := by
  have hl : (lookupSC elementContent [] == some SC.RCDATA) = false := by decide
  have hrw : rewriteStep s ⟨c, i, w, b⟩ c1 i1 = (b, i1) := by
    simp [rewriteStep, h, hd, he, isComment, hl]
  rcases h1 with h1 | h1
  · simp [stepBW, hrw, h, h1]
  · simp [stepBW, hrw, h, h1, isComment]

/-! ### special elements: engine -/

theorem indexSub_lt_none : ∀ (s : Bytes), (∀ b ∈ s, b ≠ 60) → indexSub specialTagEndPrefix s = none
  | [], _ => by simp [indexSub, specialTagEndPrefix]
  | c :: s, h => by
    have h1 : c ≠ 60 := h c (by simp)
    have : specialTagEndPrefix.isPrefixOf (c :: s) = false := by
      simp only [specialTagEndPrefix, List.isPrefixOf_cons_cons, Bool.and_eq_false_imp, beq_iff_eq]
      intro h2; exact absurd h2.symm h1
    simp [indexSub, this, indexSub_lt_none s (fun d hd => h d (by simp [hd]))]

theorem indexSub_lt_append : ∀ (s r : Bytes), (∀ b ∈ s, b ≠ 60) →
    indexSub specialTagEndPrefix (s ++ 60 :: 47 :: r) = some s.length
  | [], r, _ => by simp [indexSub, specialTagEndPrefix]
  | c :: s, r, h => by
    have h1 : c ≠ 60 := h c (by simp)
    have : specialTagEndPrefix.isPrefixOf (c :: s ++ 60 :: 47 :: r) = false := by
      simp only [specialTagEndPrefix, List.cons_append, List.isPrefixOf_cons_cons, Bool.and_eq_false_imp, beq_iff_eq]
      intro h2; exact absurd h2.symm h1
    simp only [List.cons_append] at this
    simp [indexSub, this, indexSub_lt_append s r (fun d hd => h d (by simp [hd]))]

theorem indexTagEnd_none (s tag : Bytes) (h : ∀ b ∈ s, b ≠ 60) : indexTagEnd s tag = none := by
  unfold indexTagEnd
  rw [indexTagEndGo]
  split
  · rfl
  · simp [indexSub_lt_none s h]

theorem asciiLower_idem (x : Nat) : asciiLower (asciiLower x) = asciiLower x := by
  by_cases h : isUpperAlpha x = true
  · have h2 : isUpperAlpha (x + 32) = false := by
      simp [isUpperAlpha] at h ⊢; omega
    simp [asciiLower, h, h2]
  · simp [asciiLower, h]

theorem asciiEqFold_lower : ∀ (nm : Bytes), asciiEqFold (nm.map lower) nm = true
  | [] => by simp [asciiEqFold]
  | x :: nm => by
    have ih := asciiEqFold_lower nm
    simp only [asciiEqFold, List.length_map, beq_self_eq_true, Bool.true_and] at ih ⊢
    simp only [List.map_cons, List.zip_cons_cons, List.all_cons, ih, Bool.and_true]
    have : lower x = asciiLower x := rfl
    rw [this, asciiLower_idem]; simp

/-- a byte after `</name` that ends the name, for the engine and for the tokenizer alike: `>`, HTML white space
    (space, tab, LF, FF, CR) or `/` -/
def sepByte (x : Nat) : Bool := x == 62 || isWs x || x == 47

/-- the only fact used about the generated table `tagEndSeparators` (`"> \t\n\f\r/"` in transition.go): a change
    of the table breaks exactly this lemma -/
theorem tagEndSeparators_spec (b : Nat) : tagEndSeparators.contains b = (b == 62 || isWs b || b == 47) := by
  rw [Bool.eq_iff_iff]; simp [tagEndSeparators, isWs]; omega

theorem sep_contains (x : Nat) : tagEndSeparators.contains x = sepByte x := tagEndSeparators_spec x

theorem indexTagEnd_found (body nm : Bytes) (x : Nat) (rest : Bytes) (h : ∀ b ∈ body, b ≠ 60)
    (hx : sepByte x = true) :
    indexTagEnd (body ++ 60 :: 47 :: nm ++ x :: rest) (nm.map lower) = some body.length := by
  unfold indexTagEnd
  rw [indexTagEndGo]
  have hne : (body ++ 60 :: 47 :: nm ++ x :: rest).isEmpty = false := by cases body <;> simp
  have e : body ++ 60 :: 47 :: nm ++ x :: rest = body ++ 60 :: 47 :: (nm ++ x :: rest) := by simp
  have hd : (body ++ 60 :: 47 :: (nm ++ x :: rest)).drop (body.length + 2) = nm ++ x :: rest := by
    have : body.length + 2 = (body ++ [60, 47]).length := by simp
    rw [this, show body ++ 60 :: 47 :: (nm ++ x :: rest) = (body ++ [60, 47]) ++ (nm ++ x :: rest) by simp]
    exact List.drop_left
  have ht : (nm ++ x :: rest).take nm.length = nm := List.take_left' rfl
  have hd2 : (nm ++ x :: rest).drop nm.length = x :: rest := List.drop_left
  rw [e]
  simp only [hne, Bool.false_eq_true, if_false, indexSub_lt_append body _ h]
  have hl : specialTagEndPrefix.length = 2 := rfl
  simp only [hl, hd, List.length_map, ht, asciiEqFold_lower, hd2, sep_contains, hx]
  simp


theorem tSpecial_none (c : Ctx) (body : Bytes) (h : ∀ b ∈ body, b ≠ 60) : tSpecialTagEnd c body = (c, body.length) := by
  unfold tSpecialTagEnd
  split
  · rw [indexTagEnd_none body _ h]
  · rfl

/-- outside attribute values, when the rest of the text node has no `<`, `contextAfterText` is the transition -/
theorem cat_plain' (c : Ctx) (s : Bytes) (hd : c.delim = .none)
    (hs : memKey specialElements c.elemName = false ∨ ∀ b ∈ s, b ≠ 60) (hne : s ≠ []) :
    contextAfterText c s = transition c s := by
  rcases hs with hs | hs
  · exact cat_plain c s hd hs hne
  · have hl : (s.length == 0) = false := by
      cases s with
      | nil => exact absurd rfl hne
      | cons a s => simp
    simp [contextAfterText, hd, tSpecial_none c s hs, hl]

/-- the body of a special element up to the end of the text node -/
theorem cat_body (c : Ctx) (body : Bytes) (hst : c.state = .specialBody) (hd : c.delim = .none)
    (h : ∀ b ∈ body, b ≠ 60) (hne : body ≠ []) : contextAfterText c body = (c, body.length) := by
  rw [cat_plain' c body hd (Or.inr h) hne]
  simp only [transition, hst]
  exact tSpecial_none c body h

/-- the body of a special element up to its end tag -/
theorem cat_body_then (c : Ctx) (body nm : Bytes) (x : Nat) (rest : Bytes) (hst : c.state = .specialBody)
    (hd : c.delim = .none) (hsp : memKey specialElements c.elemName = true) (hn : nm.map lower = c.elemName)
    (h : ∀ b ∈ body, b ≠ 60) (hne : body ≠ []) (hx : sepByte x = true) :
    contextAfterText c (body ++ 60 :: 47 :: nm ++ x :: rest) = (c, body.length) := by
  have hl : (body.length == 0) = false := by
    cases body with
    | nil => exact absurd rfl hne
    | cons a s => simp
  have ht : (body ++ 60 :: 47 :: nm ++ x :: rest).take body.length = body := by
    rw [List.append_assoc]; exact List.take_left' rfl
  have e1 : tSpecialTagEnd c (body ++ 60 :: 47 :: nm ++ x :: rest) = ({}, body.length) := by
    unfold tSpecialTagEnd
    rw [if_pos hsp, ← hn, indexTagEnd_found body nm x rest h hx]
  simp only [contextAfterText, hd, e1, beq_self_eq_true, if_true, hl, Bool.false_eq_true, if_false, ht, transition,
    hst]
  exact tSpecial_none c body h

/-- at the end tag of a special element the engine returns to the text context without consuming anything -/
theorem cat_body_close (c : Ctx) (nm : Bytes) (x : Nat) (rest : Bytes)
    (hd : c.delim = .none) (hsp : memKey specialElements c.elemName = true) (hn : nm.map lower = c.elemName)
    (hx : sepByte x = true) :
    contextAfterText c (60 :: 47 :: nm ++ x :: rest) = ({}, 0) := by
  have := indexTagEnd_found [] nm x rest (by simp) hx
  simp only [List.nil_append, List.length_nil] at this
  have e1 : tSpecialTagEnd c (60 :: 47 :: nm ++ x :: rest) = ({}, 0) := by
    unfold tSpecialTagEnd
    rw [if_pos hsp, ← hn, this]
  simp only [contextAfterText, hd, e1, beq_self_eq_true, if_true]


/-! ### special elements: tokenizer -/

def BodySt (s : St) : Prop := s = .rcdata ∨ s = .rawtext ∨ s = .script
def kOf : St → Nat
  | .rcdata => 1
  | .rawtext => 2
  | _ => 3

theorem nextSt_special {n : Bytes} (h : memKey specialElements n = true) : BodySt (nextSt n) := by
  rcases special_cases h with rfl | rfl | rfl | rfl
  · exact Or.inr (Or.inr (by decide))
  · exact Or.inr (Or.inl (by decide))
  · exact Or.inl (by decide)
  · exact Or.inl (by decide)

theorem step_body_other (t : T) (c : Nat) (h : BodySt t.st) (hc : c ≠ 60) : view (step 4 t c) = view t := by
  have hc' : (c == 60) = false := by simpa using hc
  rcases h with h | h | h <;> simp [step, h, hc', view, emitChar]

theorem run_body : ∀ (x : Bytes) (t : T), BodySt t.st → (∀ c ∈ x, c ≠ 60) → view (run t x) = view t
  | [], _, _, _ => rfl
  | c :: x, t, h, hx => by
    have h1 := step_body_other t c h (hx c (by simp))
    have h2 : BodySt (step 4 t c).st := by rw [view_st h1]; exact h
    rw [run_cons, run_body x _ h2 (fun d hd => hx d (by simp [hd])), h1]

theorem step_body_lt (t : T) (h : BodySt t.st) : view (step 4 t 60) = { view t with st := .textLt (kOf t.st) } := by
  rcases h with h | h | h <;> simp [step, h, view, kOf]

theorem step_textLt_slash (t : T) (k : Nat) (h : t.st = .textLt k) :
    view (step 4 t 47) = { view t with st := .textEndOpen k } := by
  simp [step, h, view]

theorem step_textEndOpen_alpha (t : T) (k c : Nat) (h : t.st = .textEndOpen k) (hc : isAlpha c = true) :
    view (step 4 t c) = { view t with st := .textEndName k, isEnd := true, name := [lower c], an := [] } := by
  obtain ⟨_, h47, h62, hw, _⟩ := alpha_facts hc
  simp [step, h, view, hc, h47, h62, hw, newTag]

theorem step_textEndName_alpha (t : T) (k c : Nat) (h : t.st = .textEndName k) (hc : isAlpha c = true) :
    view (step 4 t c) = { view t with name := (view t).name ++ [lower c] } := by
  obtain ⟨_, h47, h62, hw, _⟩ := alpha_facts hc
  simp [step, h, view, hc, h47, h62, hw]

theorem run_textEndName_alpha (k : Nat) : ∀ (nm : Bytes) (t : T), t.st = .textEndName k → nm.all isAlpha = true →
    view (run t nm) = { view t with name := (view t).name ++ nm.map lower }
  | [], t, _, _ => by simp [run_nil]
  | c :: nm, t, h, hn => by
    simp only [List.all_cons, Bool.and_eq_true] at hn
    have h1 := step_textEndName_alpha t k c h hn.1
    have hst : (step 4 t c).st = .textEndName k := by rw [view_st h1]; exact h
    rw [run_cons, run_textEndName_alpha k nm _ hst hn.2, h1]
    simp

theorem view_body_close (t : T) (c0 : Nat) (nm : Bytes) (h : BodySt t.st) (hc : isAlpha c0 = true)
    (hn : nm.all isAlpha = true) :
    view (run t (60 :: 47 :: c0 :: nm)) = ⟨.textEndName (kOf t.st), true, (c0 :: nm).map lower, [], t.lastStart⟩ := by
  have h1 := step_body_lt t h
  have h2 := step_textLt_slash _ _ (view_st h1)
  have h3 := step_textEndOpen_alpha _ _ c0 (view_st h2) hc
  rw [run_cons, run_cons, run_cons, run_textEndName_alpha _ nm _ (view_st h3) hn, h3, h2, h1]
  simp [view]

theorem rel_body (c : Ctx) (t : T) (body : Bytes) (hs : c.state = .specialBody) (h : Rel c t)
    (hb : ∀ b ∈ body, b ≠ 60) : Rel c (run t body) := by
  simp only [Rel, hs] at h ⊢
  obtain ⟨hd, hsp, hl, hst⟩ := h
  have hv := run_body body t (by rw [hst]; exact nextSt_special hsp) hb
  refine ⟨hd, hsp, ?_, ?_⟩
  · have : (run t body).lastStart = t.lastStart := congrArg View.lastStart hv
    rw [this]; exact hl
  · rw [view_st hv]; exact hst

theorem rel_bodyClose (c : Ctx) (t : T) (c0 : Nat) (nm : Bytes) (hs : c.state = .specialBody) (h : Rel c t)
    (hc : isAlpha c0 = true) (hn : nm.all isAlpha = true) (he : (c0 :: nm).map lower = c.elemName) :
    Rel { state := .tag, elemName := [] } (run t (60 :: 47 :: c0 :: nm)) := by
  simp only [Rel, hs] at h
  obtain ⟨hd, hsp, hl, hst⟩ := h
  have hv := view_body_close t c0 nm (by rw [hst]; exact nextSt_special hsp) hc hn
  simp only [Rel, InTag]
  refine ⟨trivial, ⟨okName_nil, ?_⟩, Or.inr (Or.inl ⟨kOf t.st, view_st hv, ?_⟩)⟩
  · have : (run t (60 :: 47 :: c0 :: nm)).isEnd = true := (view_isEnd hv :)
    simpa using this
  · have h1 : (run t (60 :: 47 :: c0 :: nm)).name.reverse = (c0 :: nm).map lower := (view_name hv :)
    have h2 : (run t (60 :: 47 :: c0 :: nm)).lastStart = t.lastStart := congrArg View.lastStart hv
    rw [h1, h2, hl, he]


theorem lastLt_none (pre seg rest : Bytes) (h : ∀ b ∈ seg, b ≠ 60) :
    lastLt (pre ++ (seg ++ rest)) pre.length (pre.length + seg.length) = pre.length + seg.length := by
  unfold lastLt
  simp only [take_drop_mid]
  have : (List.range seg.length).reverse.find? (fun k => seg.getD k 0 == 60) = none := by
    rw [List.find?_eq_none]
    intro k _
    simpa using getD_ne seg h k
  rw [this]

/-- an iteration outside element content and comments rewrites nothing: either the element is not RCDATA for
    the engine, or the chunk has no `<` -/
theorem rewriteStep_intag (pre seg rest : Bytes) (c c1 : Ctx) (w : Nat) (b : Bytes) (h1 : c.state ≠ .text)
    (h2 : c.state ≠ .htmlCmt)
    (h : (lookupSC elementContent c.elemName == some SC.RCDATA) = false ∨ ∀ b ∈ seg, b ≠ 60) :
    rewriteStep (pre ++ (seg ++ rest)) ⟨c, pre.length, w, b⟩ c1 (pre.length + seg.length) = (b, w) := by
  rcases h with h | h
  · exact rewriteStep_nontext _ c c1 _ _ _ _ h1 h2 h
  · cases hr : (lookupSC elementContent c.elemName == some SC.RCDATA)
    · exact rewriteStep_nontext _ c c1 _ _ _ _ h1 h2 hr
    · simp only [rewriteStep, hr, Bool.or_true, if_true, lastLt_none pre seg rest h, ite_self]
      exact ltLoop_none _ _ _ _ _ _ (fun k hk hk' => getD_mid pre seg rest h k hk hk')

/-! ### valueless attributes and `/>` -/

theorem tAfterName_tag (c : Ctx) (w : Bytes) (x : Nat) (rest : Bytes) (hw : allWs w = true) (hx : isWs x = false)
    (h61 : x ≠ 61) : tAfterName c (w ++ x :: rest) = ({ c with state := .tag }, w.length) := by
  have e := eatWhiteSpace_append w (x :: rest) hw (by simp [headNot, hx])
  simp [tAfterName, e, h61]

theorem tTag_slash (c : Ctx) (w rest : Bytes) (hw : allWs w = true) :
    tTag c (w ++ 47 :: 62 :: rest) = (attrNameCtx c [47] false, (w ++ [47]).length) := by
  have e := eatWhiteSpace_append w (47 :: 62 :: rest) hw (by simp [headNot, isWs])
  have e2 : eatAttrName (47 :: 62 :: rest) = some 1 := by
    simp [eatAttrName, attrNameEnd, attrNameBad]
  have e3 : goToLower [47] = [47] := by decide
  simp only [tTag, e, drop_ws_append, e2]
  simp [attrNameCtx, e3, lower, isUpperAlpha]

/-- `/` in a tag starts the self-closing syntax; at the end of an unquoted value it belongs to the value -/
theorem step_slash (t : T) (h : TagT t) :
    view (step 4 t 47) = { view t with st := .selfClosingStart } ∨
    (t.st = .attrValueUnq ∧ view (step 4 t 47) = view t) := by
  rcases h with (h | h | h) | ⟨k, h, ha⟩ | h
  · left; simp [step, h, view, isWs]
  · left; simp [step, h, view, isWs]
  · left; simp [step, h, view, isWs]
  · left; exact step_textEndName_slash t k h ha
  · right; exact ⟨h, by simp [step, h, view, isWs]⟩

theorem rel_bareEnd (c : Ctx) (t : T) (w : Bytes) (hs : c.state = .afterName) (h : Rel c t) (hw : allWs w = true) :
    Rel (tagEndCtx c) (run t (w ++ [62])) := by
  simp only [Rel, hs] at h
  obtain ⟨hd, hin, hst, han⟩ := h
  obtain ⟨st', hst', _, hv⟩ := run_ws_afterName w t hst hw
  rw [run_append]
  refine rel_gt c (run t w) (InTag_view c c t _ rfl (view_isEnd hv :) (view_name hv :) hin) ?_
  have : (run t w).st = st' := view_st hv
  rcases hst' with h | h
  · exact Or.inr (Or.inl (this.trans h))
  · exact Or.inr (Or.inr (Or.inl (this.trans h)))

theorem rel_bareNext (c : Ctx) (t : T) (w nm : Bytes) (last : Bool) (hs : c.state = .afterName) (h : Rel c t)
    (hw : allWs w = true) (hwn : w ≠ []) (hn : nm.all attrNameByte = true) (hne : nm ≠ []) :
    Rel (attrNameCtx c nm last) (run t (w ++ nm)) := by
  simp only [Rel, hs] at h
  obtain ⟨hd, hin, hst, han⟩ := h
  obtain ⟨st', _, hb, hv⟩ := run_ws_afterName w t hst hw
  rw [hb hwn] at hv
  obtain ⟨x, nm', rfl⟩ := List.exists_cons_of_ne_nil hne
  simp only [List.all_cons, Bool.and_eq_true] at hn
  have h1 := step_afterAttrName_nb (run t w) x (view_st hv) hn.1
  have hv2 : view (run t (w ++ x :: nm')) = { view t with st := .attrName, an := (x :: nm').map lower } := by
    rw [run_append, run_cons, run_attrName_nb nm' _ (view_st h1) hn.2, h1, hv]
    simp
  have hin' : InTag (attrNameCtx c (x :: nm') last) (run t (w ++ x :: nm')) :=
    InTag_view c _ t _ rfl (view_isEnd hv2 :) (view_name hv2 :) hin
  have han' : (run t (w ++ x :: nm')).an.reverse = (x :: nm').map lower := (view_an hv2 :)
  cases last
  · simp only [Rel, attrNameCtx, Bool.false_eq_true, if_false]
    exact ⟨trivial, hin', Or.inl (view_st hv2), han'⟩
  · simp only [Rel, attrNameCtx, if_true]
    exact ⟨trivial, hin', view_st hv2, han'⟩

theorem rel_selfClose (c c' : Ctx) (t : T) (w : Bytes) (hs : c.state = .tag) (h : Rel c t) (hw : allWs w = true)
    (he : c'.elemName = c.elemName) : Rel (tagEndCtx c') (run t (w ++ [47, 62])) := by
  simp only [Rel, hs] at h
  obtain ⟨_, hin, hst⟩ := h
  obtain ⟨st', hst', _, hv⟩ := run_ws_tag w t hst hw
  have e : w ++ [47, 62] = (w ++ [47]) ++ [62] := by simp
  rw [e, run_append]
  rcases step_slash (run t w) hst' with h1 | ⟨hu, h1⟩
  · have hv2 : view (run t (w ++ [47])) = { view t with st := .selfClosingStart } := by
      rw [run_append, run_cons, run_nil, h1, hv]
    exact rel_gt c' _ (InTag_view c c' t _ he (view_isEnd hv2 :) (view_name hv2 :) hin)
      (Or.inr (Or.inr (Or.inr (Or.inr (view_st hv2)))))
  · have hv2 : view (run t (w ++ [47])) = { view t with st := st' } := by
      rw [run_append, run_cons, run_nil, h1, hv]
    have hst2 : (run t (w ++ [47])).st = .attrValueUnq := by rw [view_st hv2, ← view_st hv]; exact hu
    exact rel_gt c' _ (InTag_view c c' t _ he (view_isEnd hv2 :) (view_name hv2 :) hin)
      (Or.inl (Or.inr (Or.inr hst2)))

/-! ### bookkeeping for special elements -/

def InTagState (st : State) : Prop :=
  st = .tag ∨ st = .attrName ∨ st = .afterName ∨ st = .beforeValue ∨ st = .attr

/-- the engine state after the `>` of a start tag of element `en` -/
def afterTag (en : Bytes) : State := if memKey specialElements en then .specialBody else .text

theorem afterTag_not_inTag (en : Bytes) : ¬ InTagState (afterTag en) := by
  unfold afterTag InTagState; split <;> simp

theorem tagEndCtx_afterTag (c : Ctx) : (tagEndCtx c).state = afterTag c.elemName := by
  unfold afterTag
  cases h : memKey specialElements c.elemName
  · simp [(tagEndCtx_plain c h).1]
  · simp [(tagEndCtx_special c h).1]

theorem tagEndCtx_elem (c : Ctx) (h : (tagEndCtx c).state ≠ .text) : (tagEndCtx c).elemName = c.elemName := by
  cases hs : memKey specialElements c.elemName
  · exact absurd (tagEndCtx_plain c hs).1 h
  · exact (tagEndCtx_special c hs).2.2

theorem intag_facts (c : Ctx) (t : T) (s : Bytes) (hr : Rel c t) (hs : InTagState c.state)
    (hlt : memKey specialElements c.elemName = true → ∀ x ∈ s, x ≠ 60) :
    (c.state ≠ .attr → c.delim = .none) ∧
    (memKey specialElements c.elemName = false ∨ ∀ x ∈ s, x ≠ 60) ∧
    ((lookupSC elementContent c.elemName == some SC.RCDATA) = false ∨ ∀ x ∈ s, x ≠ 60) := by
  have hok : okName c.elemName = true ∧ (c.state ≠ .attr → c.delim = .none) := by
    rcases hs with hs | hs | hs | hs | hs <;> simp only [Rel, hs] at hr
    · exact ⟨hr.2.1.1, fun _ => hr.1⟩
    · exact ⟨hr.2.1.1, fun _ => hr.1⟩
    · exact ⟨hr.2.1.1, fun _ => hr.1⟩
    · exact ⟨hr.2.1.1, fun _ => hr.1⟩
    · exact ⟨hr.1.1, fun hn => absurd hs hn⟩
  refine ⟨hok.2, ?_⟩
  rcases okName_cases hok.1 with hp | hp
  · exact ⟨Or.inl (plainName_spec hp).1, Or.inl (plainName_spec hp).2.2⟩
  · exact ⟨Or.inr (hlt hp), Or.inr (hlt hp)⟩

theorem or_sub {P : Prop} {s s' : Bytes} (h : P ∨ ∀ x ∈ s, x ≠ 60) (hs : ∀ x ∈ s', x ∈ s) :
    P ∨ ∀ x ∈ s', x ≠ 60 := h.imp id (fun h x hx => h x (hs x hx))

theorem hjs_body (c : Ctx) (S : Bytes) (js : Bool) (h1 : c.elemName = scriptName → js = true)
    (h2 : js = true → isJsTemplateBalanced S = true) :
    (c.state == .specialBody && c.elemName == scriptName && !isJsTemplateBalanced S) = false := by
  by_cases he : c.elemName = scriptName
  · simp [h2 (h1 he)]
  · have : (c.elemName == scriptName) = false := by simpa using he
    simp [this]

theorem chunk0J {se : State} (pre seg rest : Bytes) (c c' : Ctx) (t : T) (f : Nat) (m : Nat) (w : Nat) (b outRest : Bytes)
    (hne : seg ++ rest ≠ [])
    (hcat : contextAfterText c (seg ++ rest) = (c', seg.length))
    (hrw : rewriteStep (pre ++ (seg ++ rest)) ⟨c, pre.length, w, b⟩ c' (pre.length + seg.length) = (b, w))
    (hjs : (c.state == .specialBody && c.elemName == scriptName &&
      !isJsTemplateBalanced (pre ++ (seg ++ rest))) = false) (hc1 : c'.state ≠ .htmlCmt)
    (hprog : seg ≠ [] ∨ c.state ≠ c'.state)
    (hf : m + 1 ≤ f) (hw : w ≤ pre.length)
    (ih : ∀ f', m ≤ f' → Good (pre ++ seg) rest c' (run t seg) f' w b outRest se) :
    Good pre (seg ++ rest) c t f w b (seg ++ outRest) se := by
  refine chunkM pre seg rest c c' t f m w w b b seg outRest hne hcat ?_ hjs hprog hf ?_ ih
  · rw [stepBW_nocmt _ _ _ _ hc1]; exact hrw
  · rw [List.drop_append_of_le_length hw, List.append_assoc]

theorem sep_not_cont {x : Nat} (h : sepByte x = true) : tagNameCont x = false := by
  simp [sepByte, isWs, tagNameCont, asciiAlphaNum, isAlpha, isLowerAlpha, isUpperAlpha, isDigit] at h ⊢; omega

theorem alpha_alnum (nm : Bytes) (h : nm.all isAlpha = true) : nm.all asciiAlphaNum = true := by
  simp only [List.all_eq_true] at h ⊢
  intro x hx; simp [asciiAlphaNum, h x hx]

syntax "mem_tac" : tactic
macro_rules
  | `(tactic| mem_tac) => `(tactic| (intro x hx; first | grind | (simp at hx ⊢; grind)))

/-! ### stray `<` in element content -/

/-- a byte after `<` that makes the engine treat the `<` as text: not a letter, not `/`, not `!` -/
def okFollower (y : Nat) : Bool := !isAlpha y && y != 47 && y != 33

/-- every `<` that has a successor in the list is followed by an `okFollower` byte -/
def strayOK : Bytes → Bool
  | [] => true
  | [_] => true
  | x :: y :: r => (x != 60 || okFollower y) && strayOK (y :: r)

/-- the text with every `<` replaced by `&lt;` -/
def escLt : Bytes → Bytes
  | [] => []
  | x :: r => if x == 60 then 38 :: 108 :: 116 :: 59 :: escLt r else x :: escLt r

theorem escLt_no60 : ∀ (s : Bytes), (∀ b ∈ s, b ≠ 60) → escLt s = s
  | [], _ => rfl
  | x :: r, h => by
    have h1 : (x == 60) = false := by simpa using h x (by simp)
    simp [escLt, h1, escLt_no60 r (fun d hd => h d (by simp [hd]))]

theorem escLt_append : ∀ (a b : Bytes), escLt (a ++ b) = escLt a ++ escLt b
  | [], _ => rfl
  | x :: a, b => by
    simp only [List.cons_append, escLt, escLt_append a b]
    split <;> simp

theorem escLt_clean : ∀ (s : Bytes), ∀ b ∈ escLt s, b ≠ 60
  | [], _, h => by simp [escLt] at h
  | x :: r, b, h => by
    simp only [escLt] at h
    split at h
    · simp only [List.mem_cons] at h
      rcases h with rfl | rfl | rfl | rfl | h
      · decide
      · decide
      · decide
      · decide
      · exact escLt_clean r b h
    · next hx =>
      simp only [List.mem_cons] at h
      rcases h with rfl | h
      · simpa using hx
      · exact escLt_clean r b h

theorem split_first60 : ∀ (s : Bytes), (∀ b ∈ s, b ≠ 60) ∨ ∃ t0 t1, s = t0 ++ 60 :: t1 ∧ ∀ b ∈ t0, b ≠ 60
  | [] => Or.inl (by simp)
  | x :: r => by
    by_cases hx : x = 60
    · exact Or.inr ⟨[], r, by simp [hx], by simp⟩
    · rcases split_first60 r with h | ⟨t0, t1, h1, h2⟩
      · exact Or.inl (by intro b hb; rcases List.mem_cons.1 hb with rfl | hb; exact hx; exact h b hb)
      · refine Or.inr ⟨x :: t0, t1, by simp [h1], ?_⟩
        intro b hb; rcases List.mem_cons.1 hb with rfl | hb
        · exact hx
        · exact h2 b hb

theorem strayOK_skip : ∀ (t0 r : Bytes), (∀ b ∈ t0, b ≠ 60) → strayOK (t0 ++ r) = strayOK r
  | [], _, _ => rfl
  | [x], r, h => by
    have hx : (x != 60) = true := by simpa using h x (by simp)
    cases r with
    | nil => simp [strayOK]
    | cons y r => simp [strayOK, hx]
  | x :: y :: t0, r, h => by
    have hx : (x != 60) = true := by simpa using h x (by simp)
    have ih := strayOK_skip (y :: t0) r (fun d hd => h d (by simp [hd]))
    simp only [List.cons_append] at ih ⊢
    simp [strayOK, hx, ih]


/-! engine: `tText` over stray `<` -/

theorem tTextGo_no60 (c : Ctx) (f off : Nat) (s : Bytes) (h : ∀ b ∈ s, b ≠ 60) :
    tTextGo c f off s = (c, off + s.length) := by
  cases f with
  | zero => rfl
  | succ f => simp [tTextGo, indexByte_none s h]

theorem okFollower_spec {y : Nat} (h : okFollower y = true) : isAlpha y = false ∧ (y == 47) = false ∧ y ≠ 33 := by
  simpa [okFollower, and_assoc] using h

theorem tTextGo_stray1 (c : Ctx) (f off : Nat) (t0 : Bytes) (y : Nat) (r : Bytes) (h0 : ∀ b ∈ t0, b ≠ 60)
    (hy : okFollower y = true) :
    tTextGo c (f + 1) off (t0 ++ 60 :: y :: r) = tTextGo c f (off + t0.length + 1) (y :: r) := by
  obtain ⟨ha, h47, h33⟩ := okFollower_spec hy
  have hd : (t0 ++ 60 :: y :: r).drop (t0.length + 1) = y :: r := by simp
  have hd0 : (t0 ++ 60 :: y :: r).drop t0.length = 60 :: y :: r := by simp
  have h33' : ¬ (33 = y) := fun h => h33 h.symm
  simp only [tTextGo, indexByte_append t0 _ h0, hd, hd0]
  simp [commentStart, h33', h47, eatTagName, ha]

theorem tTextGo_strayEnd (c : Ctx) (f off : Nat) (t0 : Bytes) (h0 : ∀ b ∈ t0, b ≠ 60) :
    tTextGo c (f + 1) off (t0 ++ [60]) = (c, off + t0.length + 1) := by
  have hd : (t0 ++ [60]).drop (t0.length + 1) = [] := by simp
  simp only [tTextGo, indexByte_append t0 _ h0, hd]
  simp; omega

theorem okFollower_60 : okFollower 60 = true := by decide

/-- the scan over text with stray `<`, up to a tail that is empty or starts with `<` -/
theorem tTextGo_strays (c : Ctx) (tail : Bytes) (R : Nat → Ctx × Nat)
    (htail : tail = [] ∨ ∃ tl, tail = 60 :: tl)
    (hbase : ∀ f off (t0 : Bytes), (∀ b ∈ t0, b ≠ 60) → tTextGo c (f + 1) off (t0 ++ tail) = R (off + t0.length)) :
    ∀ (n : Nat) (txt : Bytes) (f off : Nat), txt.length ≤ n → strayOK txt = true → txt.length < f →
      tTextGo c f off (txt ++ tail) = R (off + txt.length)
  | n, txt, f, off, hn, hs, hf => by
    obtain ⟨f', rfl⟩ : ∃ f', f = f' + 1 := ⟨f - 1, by omega⟩
    rcases split_first60 txt with h | ⟨t0, t1, rfl, h0⟩
    · exact hbase f' off txt h
    · rw [strayOK_skip t0 _ h0] at hs
      have hlen : (t0 ++ 60 :: t1).length = t0.length + t1.length + 1 := by simp; omega
      cases n with
      | zero => simp at hn
      | succ n =>
      cases t1 with
      | nil =>
        rcases htail with rfl | ⟨tl, rfl⟩
        · have hb := hbase 0 (off + (t0 ++ [60]).length) [] (by simp)
          simp only [List.nil_append, List.length_nil, Nat.add_zero] at hb
          rw [← hb, List.append_nil, tTextGo_strayEnd c f' off t0 h0]
          simp [tTextGo, indexByte]; omega
        · rw [List.append_assoc]
          simp only [List.cons_append, List.nil_append]
          rw [tTextGo_stray1 c f' off t0 60 tl h0 okFollower_60]
          have := tTextGo_strays c (60 :: tl) R (Or.inr ⟨tl, rfl⟩) hbase n [] f' (off + t0.length + 1) (by simp)
            rfl (by simp at hf ⊢; omega)
          simp only [List.nil_append, List.length_nil, Nat.add_zero] at this
          rw [this]; simp [Nat.add_assoc]
      | cons y t1 =>
        have hy : okFollower y = true := by
          simp only [strayOK, bne_self_eq_false, Bool.false_or, Bool.and_eq_true] at hs; exact hs.1
        have hs' : strayOK (y :: t1) = true := by
          simp only [strayOK, Bool.and_eq_true] at hs; exact hs.2
        rw [List.append_assoc]
        simp only [List.cons_append]
        rw [tTextGo_stray1 c f' off t0 y (t1 ++ tail) h0 hy]
        have := tTextGo_strays c tail R htail hbase n (y :: t1) f' (off + t0.length + 1)
          (by simp [hlen] at hn ⊢; omega) hs' (by simp [hlen] at hf ⊢; omega)
        simp only [List.cons_append] at this
        rw [this]; simp; congr 1; omega
termination_by n _ _ _ _ _ _ => n


theorem tTextGo_open (c : Ctx) (f off : Nat) (t0 : Bytes) (c0 : Nat) (nm rest : Bytes) (h : ∀ b ∈ t0, b ≠ 60)
    (hc : isAlpha c0 = true) (hn : nm.all asciiAlphaNum = true) (hr : headNot tagNameCont rest = true) :
    tTextGo c (f + 1) off (t0 ++ 60 :: c0 :: (nm ++ rest)) =
      ({ state := .tag, elemName := (c0 :: nm).map lower }, off + t0.length + (nm.length + 2)) := by
  obtain ⟨h33, h47, _, _, _⟩ := alpha_facts hc
  have e := eatTagName_append c0 nm rest hc hn hr
  simp only [List.cons_append] at e
  have hd : (t0 ++ 60 :: c0 :: (nm ++ rest)).drop (t0.length + 1) = c0 :: (nm ++ rest) := by simp
  have hd0 : (t0 ++ 60 :: c0 :: (nm ++ rest)).drop t0.length = 60 :: c0 :: (nm ++ rest) := by simp
  simp only [tTextGo, indexByte_append t0 _ h, hd, hd0]
  have h33' : ¬ (33 = c0) := by intro hh; subst hh; simp at h33
  simp [commentStart, h33', h47, e]
  omega

theorem tTextGo_close (c : Ctx) (f off : Nat) (t0 : Bytes) (c0 : Nat) (nm rest : Bytes) (h : ∀ b ∈ t0, b ≠ 60)
    (hc : isAlpha c0 = true) (hn : nm.all asciiAlphaNum = true) (hr : headNot tagNameCont rest = true) :
    tTextGo c (f + 1) off (t0 ++ 60 :: 47 :: c0 :: (nm ++ rest)) =
      ({ state := .tag, elemName := [] }, off + t0.length + (nm.length + 3)) := by
  have e := eatTagName_append c0 nm rest hc hn hr
  simp only [List.cons_append] at e
  have hd : (t0 ++ 60 :: 47 :: c0 :: (nm ++ rest)).drop (t0.length + 1) = 47 :: c0 :: (nm ++ rest) := by simp
  have hd0 : (t0 ++ 60 :: 47 :: c0 :: (nm ++ rest)).drop t0.length = 60 :: 47 :: c0 :: (nm ++ rest) := by simp
  simp only [tTextGo, indexByte_append t0 _ h, hd, hd0]
  simp [commentStart, e]
  omega

theorem tTextGo_cmt (c : Ctx) (f off : Nat) (t0 rest : Bytes) (h : ∀ b ∈ t0, b ≠ 60) :
    tTextGo c (f + 1) off (t0 ++ 60 :: 33 :: 45 :: 45 :: rest) = ({ state := .htmlCmt }, off + t0.length + 4) := by
  have hd : (t0 ++ 60 :: 33 :: 45 :: 45 :: rest).drop (t0.length + 1) = 33 :: 45 :: 45 :: rest := by simp
  have hd0 : (t0 ++ 60 :: 33 :: 45 :: 45 :: rest).drop t0.length = 60 :: 33 :: 45 :: 45 :: rest := by simp
  simp only [tTextGo, indexByte_append t0 _ h, hd, hd0]
  simp [commentStart]

/-- (a′) text with stray `<` up to the end of the text node -/
theorem tText_stray (c : Ctx) (txt : Bytes) (hs : strayOK txt = true) : tText c txt = (c, txt.length) := by
  have := tTextGo_strays c [] (fun o => (c, o)) (Or.inl rfl)
    (fun f off t0 h => by simpa using tTextGo_no60 c (f + 1) off t0 h) txt.length txt (txt.length + 1) 0
    (Nat.le_refl _) hs (Nat.lt_succ_self _)
  simpa [tText] using this

theorem tText_open_s (c : Ctx) (txt : Bytes) (c0 : Nat) (nm rest : Bytes) (hs : strayOK txt = true)
    (hc : isAlpha c0 = true) (hn : nm.all asciiAlphaNum = true) (hr : headNot tagNameCont rest = true) :
    tText c (txt ++ 60 :: c0 :: nm ++ rest) =
      ({ state := .tag, elemName := (c0 :: nm).map lower }, (txt ++ 60 :: c0 :: nm).length) := by
  have := tTextGo_strays c (60 :: c0 :: (nm ++ rest))
    (fun o => ({ state := .tag, elemName := (c0 :: nm).map lower }, o + (nm.length + 2))) (Or.inr ⟨_, rfl⟩)
    (fun f off t0 h => by rw [tTextGo_open c f off t0 c0 nm rest h hc hn hr]) txt.length txt
    ((txt ++ 60 :: c0 :: (nm ++ rest)).length + 1) 0 (Nat.le_refl _) hs (by simp; omega)
  have e : txt ++ 60 :: c0 :: nm ++ rest = txt ++ 60 :: c0 :: (nm ++ rest) := by simp
  rw [e, tText, this]
  simp

theorem tText_close_s (c : Ctx) (txt : Bytes) (c0 : Nat) (nm rest : Bytes) (hs : strayOK txt = true)
    (hc : isAlpha c0 = true) (hn : nm.all asciiAlphaNum = true) (hr : headNot tagNameCont rest = true) :
    tText c (txt ++ 60 :: 47 :: c0 :: nm ++ rest) =
      ({ state := .tag, elemName := [] }, (txt ++ 60 :: 47 :: c0 :: nm).length) := by
  have := tTextGo_strays c (60 :: 47 :: c0 :: (nm ++ rest))
    (fun o => ({ state := .tag, elemName := [] }, o + (nm.length + 3))) (Or.inr ⟨_, rfl⟩)
    (fun f off t0 h => by rw [tTextGo_close c f off t0 c0 nm rest h hc hn hr]) txt.length txt
    ((txt ++ 60 :: 47 :: c0 :: (nm ++ rest)).length + 1) 0 (Nat.le_refl _) hs (by simp; omega)
  have e : txt ++ 60 :: 47 :: c0 :: nm ++ rest = txt ++ 60 :: 47 :: c0 :: (nm ++ rest) := by simp
  rw [e, tText, this]
  simp

theorem tText_cmt_s (c : Ctx) (txt rest : Bytes) (hs : strayOK txt = true) :
    tText c (txt ++ 60 :: 33 :: 45 :: 45 :: rest) = ({ state := .htmlCmt }, (txt ++ [60, 33, 45, 45]).length) := by
  have := tTextGo_strays c (60 :: 33 :: 45 :: 45 :: rest)
    (fun o => ({ state := .htmlCmt }, o + 4)) (Or.inr ⟨_, rfl⟩)
    (fun f off t0 h => by rw [tTextGo_cmt c f off t0 rest h]) txt.length txt
    ((txt ++ 60 :: 33 :: 45 :: 45 :: rest).length + 1) 0 (Nat.le_refl _) hs (by simp; omega)
  rw [tText, this]
  simp


/-! engine: the `&lt;` rewriting loop -/

theorem upper_ne33 (y : Nat) (hy : y ≠ 33) : upperAscii y ≠ 33 := by
  unfold upperAscii
  split
  · next h => simp [isLowerAlpha] at h; omega
  · exact hy

theorem hasDoctype_false (y : Nat) (r : Bytes) (hy : y ≠ 33) : hasDoctypePrefix (60 :: y :: r) = false := by
  have := upper_ne33 y hy
  simp [hasDoctypePrefix, doctypeBytes, this]

theorem hasDoctype_single : hasDoctypePrefix [60] = false := by decide

theorem stray_head_nodoctype (seg' C : Bytes) (hs : strayOK (60 :: seg') = true)
    (hC : C = [] ∨ ∃ tl, C = 60 :: tl) : hasDoctypePrefix (60 :: (seg' ++ C)) = false := by
  cases seg' with
  | nil =>
    rcases hC with rfl | ⟨tl, rfl⟩
    · exact hasDoctype_single
    · exact hasDoctype_false 60 tl (by decide)
  | cons y r =>
    simp only [strayOK, bne_self_eq_false, Bool.false_or, Bool.and_eq_true] at hs
    exact hasDoctype_false y (r ++ C) (okFollower_spec hs.1).2.2

theorem strayOK_tail (x : Nat) (r : Bytes) (h : strayOK (x :: r) = true) : strayOK r = true := by
  cases r with
  | nil => rfl
  | cons y r => simp only [strayOK, Bool.and_eq_true] at h; exact h.2

theorem ltLoop_esc : ∀ (seg A C : Bytes) (f : Nat) (b : Bytes) (w : Nat), w ≤ A.length → seg.length ≤ f →
    strayOK seg = true → (C = [] ∨ ∃ tl, C = 60 :: tl) → (w = 0 → b = []) →
    ∃ b' w', ltLoop (A ++ (seg ++ C)) f A.length (A.length + seg.length) b w = (b', w') ∧
      w' ≤ A.length + seg.length ∧ (w' = 0 → b' = []) ∧ b' ++ (A ++ seg).drop w' = b ++ A.drop w ++ escLt seg
  | [], A, C, f, b, w, hw, _, _, _, hb => by
    refine ⟨b, w, ?_, by simpa using hw, hb, by simp [escLt]⟩
    cases f with
    | zero => rfl
    | succ f => rw [ltLoop]; simp
  | x :: seg', A, C, f, b, w, hw, hf, hs, hC, hb => by
    obtain ⟨f', rfl⟩ : ∃ f', f = f' + 1 := ⟨f - 1, by simp at hf; omega⟩
    have hS : A ++ (x :: seg' ++ C) = (A ++ [x]) ++ (seg' ++ C) := by simp
    have hget : (A ++ (x :: seg' ++ C)).getD A.length 0 = x := by
      simp [List.getD_eq_getElem?_getD]
    have hdrop : (A ++ (x :: seg' ++ C)).drop A.length = x :: (seg' ++ C) := by simp
    have htake : (A ++ (x :: seg' ++ C)).take A.length = A := by simp
    have hlen : A.length + (x :: seg').length = (A ++ [x]).length + seg'.length := by simp; omega
    have hj : ¬ (A.length ≥ A.length + (x :: seg').length) := by simp
    rw [ltLoop]
    simp only [hj, if_false, hget, hdrop, htake]
    by_cases hx : x = 60
    · subst hx
      have hnd := stray_head_nodoctype seg' C hs hC
      simp only [beq_self_eq_true, hnd, Bool.not_false, Bool.and_self, if_true]
      obtain ⟨b', w', h1, h2, h3, h4⟩ := ltLoop_esc seg' (A ++ [60]) C f'
        (b ++ A.drop w ++ [38, 108, 116, 59]) (A.length + 1) (by simp) (by simpa using hf)
        (strayOK_tail _ _ hs) hC (by omega)
      refine ⟨b', w', ?_, by rw [hlen]; exact h2, h3, ?_⟩
      · rw [hS, hlen]; simpa using h1
      · have : A ++ 60 :: seg' = (A ++ [60]) ++ seg' := by simp
        rw [this, h4]
        simp [escLt]
    · have hx' : (x == 60) = false := by simpa using hx
      simp only [hx', Bool.false_and, Bool.false_eq_true, if_false]
      obtain ⟨b', w', h1, h2, h3, h4⟩ := ltLoop_esc seg' (A ++ [x]) C f' b w (by simp; omega)
        (by simpa using hf) (strayOK_tail _ _ hs) hC hb
      refine ⟨b', w', ?_, by rw [hlen]; exact h2, h3, ?_⟩
      · rw [hS, hlen]; simpa using h1
      · have : A ++ x :: seg' = (A ++ [x]) ++ seg' := by simp
        rw [this, h4, List.drop_append_of_le_length hw]
        simp [escLt, hx']


/-- the rewriting done by an iteration in element content over text with stray `<`: they become `&lt;` -/
theorem rewriteStep_text_s (pre txt C : Bytes) (c c1 : Ctx) (w : Nat) (b : Bytes) (i1 : Nat) (h : c.state = .text)
    (he : (if c1.state != c.state then lastLt (pre ++ (txt ++ C)) pre.length i1 else i1) = pre.length + txt.length)
    (hs : strayOK txt = true) (hC : C = [] ∨ ∃ tl, C = 60 :: tl) (hw : w ≤ pre.length) (hb : w = 0 → b = []) :
    ∃ b1 w1, rewriteStep (pre ++ (txt ++ C)) ⟨c, pre.length, w, b⟩ c1 i1 = (b1, w1) ∧
      w1 ≤ pre.length + txt.length ∧ (w1 = 0 → b1 = []) ∧
      b1 ++ (pre ++ txt).drop w1 = b ++ pre.drop w ++ escLt txt := by
  obtain ⟨b1, w1, h1, h2, h3, h4⟩ := ltLoop_esc txt pre C ((pre ++ (txt ++ C)).length + 1) b w hw
    (by simp; omega) hs hC hb
  refine ⟨b1, w1, ?_, h2, h3, h4⟩
  rw [h] at he
  simp only [rewriteStep, h, beq_self_eq_true, Bool.true_or, if_true]
  rw [he, h1]

theorem stepBW_text_s (pre txt C : Bytes) (c c1 : Ctx) (w : Nat) (b : Bytes) (i1 : Nat) (h : c.state = .text)
    (hc1 : c1.state ≠ .htmlCmt)
    (he : (if c1.state != c.state then lastLt (pre ++ (txt ++ C)) pre.length i1 else i1) = pre.length + txt.length)
    (hs : strayOK txt = true) (hC : C = [] ∨ ∃ tl, C = 60 :: tl) (hw : w ≤ pre.length) (hb : w = 0 → b = []) :
    ∃ b1 w1, stepBW (pre ++ (txt ++ C)) ⟨c, pre.length, w, b⟩ c1 i1 = (b1, w1) ∧
      w1 ≤ pre.length + txt.length ∧ (w1 = 0 → b1 = []) ∧
      b1 ++ (pre ++ txt).drop w1 = b ++ pre.drop w ++ escLt txt := by
  rw [stepBW_nocmt _ _ _ _ hc1]
  exact rewriteStep_text_s pre txt C c c1 w b i1 h he hs hC hw hb

/-- text, stray `<`, then `<!--`: everything before the comment is flushed to the buffer -/
theorem stepBW_text_cmt_s (pre txt rest : Bytes) (c c1 : Ctx) (w : Nat) (b : Bytes) (h : c.state = .text)
    (h1 : c1.state = .htmlCmt) (hd : c1.delim = .none) (hs : strayOK txt = true) (hw : w ≤ pre.length)
    (hb : w = 0 → b = []) :
    stepBW (pre ++ (txt ++ 60 :: [33, 45, 45] ++ rest)) ⟨c, pre.length, w, b⟩ c1
      (pre.length + (txt ++ 60 :: [33, 45, 45]).length) =
      (b ++ pre.drop w ++ escLt txt, pre.length + (txt ++ 60 :: [33, 45, 45]).length) := by
  have he : (if c1.state != c.state then
      lastLt (pre ++ (txt ++ (60 :: [33, 45, 45] ++ rest))) pre.length (pre.length + (txt ++ 60 :: [33, 45, 45]).length)
      else pre.length + (txt ++ 60 :: [33, 45, 45]).length) = pre.length + txt.length := by
    have : (c1.state != c.state) = true := by simp [h, h1]
    rw [if_pos this, ← List.append_assoc txt]
    exact lastLt_seg pre txt [33, 45, 45] rest (by decide)
  obtain ⟨b1, w1, hrw, h2, h3, h4⟩ := rewriteStep_text_s pre txt (60 :: [33, 45, 45] ++ rest) c c1 w b _ h he hs
    (Or.inr ⟨_, rfl⟩) hw hb
  rw [← List.append_assoc txt] at hrw
  have hlen : pre.length + (txt ++ 60 :: [33, 45, 45]).length - 4 = (pre ++ txt).length := by
    simp only [List.length_append, List.length_cons, List.length_nil]; omega
  have ht4 : (pre ++ (txt ++ 60 :: [33, 45, 45] ++ rest)).take (pre.length + (txt ++ 60 :: [33, 45, 45]).length - 4)
      = pre ++ txt := by
    rw [hlen, List.append_assoc txt, ← List.append_assoc pre txt]
    exact List.take_left' rfl
  simp only [stepBW, hrw, h1, hd, isComment, beq_self_eq_true, if_true, ht4]
  simp [h, List.append_assoc, h4]

/-! ### unquoted attribute values (static text only) -/

/-- a byte of an unquoted attribute value: not white space or `>` (which end the value), and none of
    `" ' < = \`` (for which the engine reports ErrBadHTML) -/
def unqByte (b : Nat) : Bool :=
  !isWs b && b != 62 && b != 34 && b != 39 && b != 60 && b != 61 && b != 96

/-- white space or `>`: what ends an unquoted value -/
def unqEnd (b : Nat) : Bool := isWs b || b == 62

/-- the only facts used about the generated tables `delimEnds_SpaceOrTagEnd` and `unquotedBad` -/
theorem delimEnds_unq_spec (b : Nat) : delimEnds_SpaceOrTagEnd.contains b = unqEnd b := by
  rw [Bool.eq_iff_iff]; simp [delimEnds_SpaceOrTagEnd, unqEnd, isWs]; omega

theorem unquotedBad_spec (b : Nat) :
    unquotedBad.contains b = (b == 34 || b == 39 || b == 60 || b == 61 || b == 96) := by
  rw [Bool.eq_iff_iff]; simp [unquotedBad]; omega

theorem unqByte_spec {b : Nat} (h : unqByte b = true) :
    isWs b = false ∧ b ≠ 62 ∧ b ≠ 34 ∧ b ≠ 39 ∧ b ≠ 60 ∧ delimEnds_SpaceOrTagEnd.contains b = false ∧
    unquotedBad.contains b = false := by
  simp only [unqByte, Bool.and_eq_true, Bool.not_eq_true', bne_iff_ne, ne_eq] at h
  obtain ⟨⟨⟨⟨⟨⟨h1, h2⟩, h3⟩, h4⟩, h5⟩, h6⟩, h7⟩ := h
  refine ⟨h1, h2, h3, h4, h5, ?_, ?_⟩
  · rw [delimEnds_unq_spec]; simp [unqEnd, h1, h2]
  · rw [unquotedBad_spec]; simp [h3, h4, h5, h6, h7]

theorem indexAny_set_none (set : List Nat) : ∀ (s : Bytes), (∀ b ∈ s, set.contains b = false) → indexAny set s = none
  | [], _ => rfl
  | c :: s, h => by
    have h1 := h c (by simp)
    simp only [indexAny, h1, Bool.false_eq_true, if_false,
      indexAny_set_none set s (fun d hd => h d (by simp [hd]))]
    rfl

theorem indexAny_set_append (set : List Nat) (d : Nat) (hd : set.contains d = true) :
    ∀ (s r : Bytes), (∀ b ∈ s, set.contains b = false) → indexAny set (s ++ d :: r) = some s.length
  | [], r, _ => by simp only [List.nil_append, indexAny, hd, if_true]; rfl
  | c :: s, r, h => by
    have h1 := h c (by simp)
    simp only [List.cons_append, indexAny, h1, Bool.false_eq_true, if_false,
      indexAny_set_append set d hd s r (fun d hd => h d (by simp [hd]))]
    rfl

theorem tBeforeValue_unq (c : Ctx) (w : Bytes) (x : Nat) (rest : Bytes) (hw : allWs w = true) (hx : unqByte x = true) :
    tBeforeValue c (w ++ x :: rest) = ({ c with state := .attr, delim := .spaceOrTagEnd }, w.length) := by
  obtain ⟨hxw, _, h34, h39, _, _, _⟩ := unqByte_spec hx
  have e := eatWhiteSpace_append w (x :: rest) hw (by simp [headNot, hxw])
  simp [tBeforeValue, e, h34, h39]

theorem cat_attr_unq (c : Ctx) (v : Bytes) (d : Nat) (rest : Bytes) (hdl : c.delim = .spaceOrTagEnd)
    (hv : v.all unqByte = true) (hd : unqEnd d = true) :
    contextAfterText c (v ++ d :: rest) = (attrCloseCtx c v, v.length) := by
  have hv1 : ∀ b ∈ v, delimEnds_SpaceOrTagEnd.contains b = false :=
    fun b hb => (unqByte_spec ((List.all_eq_true.1 hv) b hb)).2.2.2.2.2.1
  have hv2 : ∀ b ∈ v, unquotedBad.contains b = false :=
    fun b hb => (unqByte_spec ((List.all_eq_true.1 hv) b hb)).2.2.2.2.2.2
  have hl : (v.length == (v ++ d :: rest).length) = false := by simp
  have ht : (v ++ d :: rest).take v.length = v := by simp
  have hi := indexAny_set_append delimEnds_SpaceOrTagEnd d (by rw [delimEnds_unq_spec]; exact hd) v rest hv1
  simp only [contextAfterText, hdl, delimEnds, hi, Option.getD_some, ht, indexAny_set_none unquotedBad v hv2, hl,
    attrCloseCtx]
  simp

/-! tokenizer -/

theorem step_beforeAttrValue_unq (t : T) (x : Nat) (h : t.st = .beforeAttrValue) (hx : unqByte x = true) :
    view (step 4 t x) = { view t with st := .attrValueUnq } := by
  obtain ⟨hxw, h62, h34, h39, _, _, _⟩ := unqByte_spec hx
  simp [step, h, view, hxw, h62, h34, h39]

theorem step_attrValueUnq_unq (t : T) (x : Nat) (h : t.st = .attrValueUnq) (hx : unqByte x = true) :
    view (step 4 t x) = view t := by
  obtain ⟨hxw, h62, _, _, _, _, _⟩ := unqByte_spec hx
  simp [step, h, view, hxw, h62]

theorem run_attrValueUnq : ∀ (v : Bytes) (t : T), t.st = .attrValueUnq → v.all unqByte = true → view (run t v) = view t
  | [], _, _, _ => rfl
  | x :: v, t, h, hv => by
    simp only [List.all_cons, Bool.and_eq_true] at hv
    have h1 := step_attrValueUnq_unq t x h hv.1
    rw [run_cons, run_attrValueUnq v _ (by rw [view_st h1]; exact h) hv.2, h1]

theorem rel_unq (c : Ctx) (t : T) (w v : Bytes) (hs : c.state = .beforeValue) (h : Rel c t) (hw : allWs w = true)
    (hv : v.all unqByte = true) (hne : v ≠ []) :
    Rel (attrCloseCtx { c with state := .attr, delim := .spaceOrTagEnd } v) (run t (w ++ v)) := by
  simp only [Rel, hs] at h
  obtain ⟨_, hin, hst, _⟩ := h
  obtain ⟨x, v', rfl⟩ := List.exists_cons_of_ne_nil hne
  simp only [List.all_cons, Bool.and_eq_true] at hv
  have h1 := step_beforeAttrValue_unq t x hst hv.1
  have hv2 : view (run t (w ++ x :: v')) = { view t with st := .attrValueUnq } := by
    rw [run_append, run_ws_beforeValue w t hst hw, run_cons, run_attrValueUnq v' _ (view_st h1) hv.2, h1]
  obtain ⟨p1, p2, p3⟩ := attrCloseCtx_proj { c with state := .attr, delim := .spaceOrTagEnd } (x :: v')
  simp only [Rel, p1]
  exact ⟨p2, InTag_view c _ t _ p3 (view_isEnd hv2 :) (view_name hv2 :) hin, Or.inr (Or.inr (view_st hv2))⟩

/-! ### the grammar of simple static texts -/

/-- `Simple js en st dl s out`: `s` is a simple static text for an engine context in state `st` with delimiter `dl`
    and element name `en` (only meaningful inside a tag or a special element body), and `out` is the text the engine
    emits in its place (`s` itself except that comments are removed and stray `<` become `&lt;`); the last index is
    the engine state at the end of `s`. `js = true` is required to traverse the body
    of a `script` element (the whole text node must then pass the engine's JS template-literal balance check).
    Each constructor is one chunk of the engine's scan (one call of `contextAfterText`), or two or three for the
    constructors marked (macro). Bytes: 60 `<`, 62 `>`, 47 `/`, 61 `=`, 33 `!`, 45 `-`. -/
inductive Simple (js : Bool) : Bytes → State → Delim → Bytes → Bytes → State → Prop
  /-- the empty text, anywhere -/
  | nil (en : Bytes) (st : State) (dl : Delim) : Simple js en st dl [] [] st
  /-- (a) element content up to the end of the text node; every `<` in it is followed by a byte that is not a
      letter, `/` or `!` (`strayOK`) and is emitted as `&lt;` (`escLt`; the identity on text without `<`) -/
  | text (en txt : Bytes) : strayOK txt = true → txt ≠ [] → Simple js en .text .none txt (escLt txt) .text
  /-- (c,d) `txt <name`: text, then a start tag name: a letter and letters/digits; the lower-cased name is `okName`;
      what follows is simple for the in-tag state (so it starts with white space, `>` or `/>`, or is empty); for one
      of the four special elements the rest of the text node must not contain `<` -/
  | openTag {se : State} (en txt : Bytes) (c0 : Nat) (nm rest out : Bytes) : strayOK txt = true → isAlpha c0 = true →
      nm.all asciiAlphaNum = true → okName ((c0 :: nm).map lower) = true →
      (memKey specialElements ((c0 :: nm).map lower) = true → ∀ b ∈ rest, b ≠ 60) →
      Simple js ((c0 :: nm).map lower) .tag .none rest out se →
      Simple js en .text .none (txt ++ 60 :: c0 :: nm ++ rest) (escLt txt ++ 60 :: c0 :: nm ++ out) se
  /-- `txt </name`: an end tag, any name of letters/digits -/
  | closeTag {se : State} (en txt : Bytes) (c0 : Nat) (nm rest out : Bytes) : strayOK txt = true → isAlpha c0 = true →
      nm.all asciiAlphaNum = true → Simple js [] .tag .none rest out se →
      Simple js en .text .none (txt ++ 60 :: 47 :: c0 :: nm ++ rest) (escLt txt ++ 60 :: 47 :: c0 :: nm ++ out) se
  /-- (e) `txt <!--`: the comment is not emitted -/
  | cmtOpen {se : State} (en txt rest out : Bytes) : strayOK txt = true → Simple js [] .htmlCmt .none rest out se →
      Simple js en .text .none (txt ++ 60 :: 33 :: 45 :: 45 :: rest) (escLt txt ++ out) se
  /-- (e) inside a comment, text without `-->` up to the end of the text node: nothing is emitted -/
  | cmtBody (en body : Bytes) : containsSub commentEnd body = false → body ≠ [] → Simple js en .htmlCmt .none body [] .htmlCmt
  /-- (e) the rest of the comment and `-->` (the first one): nothing is emitted -/
  | cmtClose {se : State} (en body rest out : Bytes) : containsSub commentEnd (body ++ [45, 45]) = false →
      Simple js [] .text .none rest out se → Simple js en .htmlCmt .none (body ++ 45 :: 45 :: 62 :: rest) out se
  /-- (c) `ws* >`: the end of the tag; the text continues in element content, or in the body of a special element -/
  | tagEnd {se : State} (en en' w rest out : Bytes) : allWs w = true → (memKey specialElements en = true → en' = en) →
      Simple js en' (afterTag en) .none rest out se → Simple js en .tag .none (w ++ 62 :: rest) (w ++ 62 :: out) se
  /-- (e, macro) `ws* />` -/
  | selfClose {se : State} (en en' w rest out : Bytes) : allWs w = true → (memKey specialElements en = true → en' = en) →
      Simple js en' (afterTag en) .none rest out se →
      Simple js en .tag .none (w ++ 47 :: 62 :: rest) (w ++ 47 :: 62 :: out) se
  /-- white space inside a tag up to the end of the text node -/
  | tagWs (en w : Bytes) : allWs w = true → w ≠ [] → Simple js en .tag .none w w .tag
  /-- (d) `ws+ attrname` followed by more text (which starts with white space, `=` or `>`) -/
  | attrNm {se : State} (en w nm rest out : Bytes) : allWs w = true → w ≠ [] → nm.all attrNameByte = true → nm ≠ [] → rest ≠ [] →
      Simple js en .afterName .none rest out se → Simple js en .tag .none (w ++ nm ++ rest) (w ++ nm ++ out) se
  /-- `ws+ attrname` at the end of the text node -/
  | attrNmEnd (en w nm : Bytes) : allWs w = true → w ≠ [] → nm.all attrNameByte = true → nm ≠ [] →
      Simple js en .tag .none (w ++ nm ++ []) (w ++ nm ++ []) .attrName
  /-- a text node that starts right after an attribute name must start with white space, `=` or `>` -/
  | nameEnd {se : State} (en s out : Bytes) : headIs attrNameEndB s = true → Simple js en .afterName .none s out se →
      Simple js en .attrName .none s out se
  /-- (d) `ws* =` -/
  | eq {se : State} (en w rest out : Bytes) : allWs w = true → Simple js en .beforeValue .none rest out se →
      Simple js en .afterName .none (w ++ 61 :: rest) (w ++ 61 :: out) se
  /-- white space after an attribute name up to the end of the text node -/
  | afterWs (en w : Bytes) : allWs w = true → w ≠ [] → Simple js en .afterName .none w w .afterName
  /-- (e, macro) a valueless attribute at the end of the tag: after the attribute name, `ws* >` -/
  | bareEnd {se : State} (en en' w rest out : Bytes) : allWs w = true → (memKey specialElements en = true → en' = en) →
      Simple js en' (afterTag en) .none rest out se →
      Simple js en .afterName .none (w ++ 62 :: rest) (w ++ 62 :: out) se
  /-- (e, macro) a valueless attribute followed by another attribute: after the name, `ws+ attrname` and more text -/
  | bareNext {se : State} (en w nm rest out : Bytes) : allWs w = true → w ≠ [] → nm.all attrNameByte = true → nm ≠ [] →
      rest ≠ [] → Simple js en .afterName .none rest out se →
      Simple js en .afterName .none (w ++ nm ++ rest) (w ++ nm ++ out) se
  /-- (e, macro) the same at the end of the text node -/
  | bareNextEnd (en w nm : Bytes) : allWs w = true → w ≠ [] → nm.all attrNameByte = true → nm ≠ [] →
      Simple js en .afterName .none (w ++ nm ++ []) (w ++ nm ++ []) .attrName
  /-- (d) `ws* "` or `ws* '` -/
  | quote {se : State} (en : Bytes) (d : Delim) (w rest out : Bytes) : d = .dq ∨ d = .sq → allWs w = true →
      Simple js en .attr d rest out se → Simple js en .beforeValue .none (w ++ quoteOf d :: rest) (w ++ quoteOf d :: out) se
  /-- white space after `=` up to the end of the text node -/
  | beforeWs (en w : Bytes) : allWs w = true → w ≠ [] → Simple js en .beforeValue .none w w .beforeValue
  /-- (e, macro) an unquoted attribute value in static text: `ws* value`, the value made of bytes other than white
      space and `> " ' < = \``, followed by white space or `>` (which end the value on both sides) -/
  | unq {se : State} (en w v rest out : Bytes) : allWs w = true → v.all unqByte = true → v ≠ [] →
      headIs unqEnd rest = true → Simple js en .tag .none rest out se →
      Simple js en .beforeValue .none (w ++ v ++ rest) (w ++ v ++ out) se
  /-- (a) inside a quoted attribute value, text without the quote up to the end of the text node -/
  | val (en : Bytes) (d : Delim) (v : Bytes) : d = .dq ∨ d = .sq → (∀ b ∈ v, b ≠ quoteOf d) → v ≠ [] →
      Simple js en .attr d v v .attr
  /-- (b) the rest of the value and the closing quote -/
  | closeQ {se : State} (en : Bytes) (d : Delim) (v rest out : Bytes) : d = .dq ∨ d = .sq → (∀ b ∈ v, b ≠ quoteOf d) →
      Simple js en .tag .none rest out se → Simple js en .attr d (v ++ quoteOf d :: rest) (v ++ quoteOf d :: out) se
  /-- (e) the body of script/style/textarea/title: text without `<` up to the end of the text node -/
  | bodyText (en body : Bytes) : (∀ b ∈ body, b ≠ 60) → body ≠ [] → (en = scriptName → js = true) →
      Simple js en .specialBody .none body body .specialBody
  /-- (e) body text without `<` up to the end tag of the element -/
  | bodyThen {se : State} (en body : Bytes) (c0 : Nat) (nm : Bytes) (x : Nat) (rest out : Bytes) : (∀ b ∈ body, b ≠ 60) →
      body ≠ [] → (c0 :: nm).map lower = en → sepByte x = true → (en = scriptName → js = true) →
      Simple js en .specialBody .none (60 :: 47 :: c0 :: nm ++ x :: rest) out se →
      Simple js en .specialBody .none (body ++ 60 :: 47 :: c0 :: nm ++ x :: rest) (body ++ out) se
  /-- (e, macro) the end tag `</name` of the element (letters, any case), followed by `>`, HTML white space (space, tab,
      LF, FF, CR) or `/` (`sepByte`) -/
  | bodyClose {se : State} (en : Bytes) (c0 : Nat) (nm : Bytes) (x : Nat) (rest out : Bytes) : isAlpha c0 = true →
      nm.all isAlpha = true → (c0 :: nm).map lower = en → memKey specialElements en = true → sepByte x = true →
      (en = scriptName → js = true) → Simple js [] .tag .none (x :: rest) out se →
      Simple js en .specialBody .none (60 :: 47 :: c0 :: nm ++ x :: rest) (60 :: 47 :: c0 :: nm ++ out) se

theorem ws_not_cont {c : Nat} (h : isWs c = true) : tagNameCont c = false := by
  simp [isWs, tagNameCont, asciiAlphaNum, isAlpha, isLowerAlpha, isUpperAlpha, isDigit] at h ⊢; omega

theorem headNot_ws_append (p : Nat → Bool) (w r : Bytes) (hw : allWs w = true) (hp : ∀ c, isWs c = true → p c = false)
    (hr : headNot p r = true) : headNot p (w ++ r) = true := by
  cases w with
  | nil => exact hr
  | cons x w =>
    simp only [allWs, List.all_cons, Bool.and_eq_true] at hw
    simp [headNot, hp x hw.1]

theorem headNot_ws_cons (p : Nat → Bool) (w r : Bytes) (hw : allWs w = true) (hne : w ≠ [])
    (hp : ∀ c, isWs c = true → p c = false) : headNot p (w ++ r) = true := by
  obtain ⟨x, w', rfl⟩ := List.exists_cons_of_ne_nil hne
  simp only [allWs, List.all_cons, Bool.and_eq_true] at hw
  simp [headNot, hp x hw.1]

theorem not_cont_62 : tagNameCont 62 = false := by decide
theorem not_cont_47 : tagNameCont 47 = false := by decide

theorem simple_tag_head {js : Bool} {en s out : Bytes} {se : State} (h : Simple js en .tag .none s out se) :
    headNot tagNameCont s = true := by
  cases h with
  | nil => rfl
  | tagEnd _ _ w rest _ hw _ _ =>
    exact headNot_ws_append _ w _ hw (fun c => ws_not_cont) (by simp [headNot, not_cont_62])
  | selfClose _ _ w rest _ hw _ _ =>
    exact headNot_ws_append _ w _ hw (fun c => ws_not_cont) (by simp [headNot, not_cont_47])
  | tagWs _ _ hw _ => simpa using headNot_ws_append _ _ [] hw (fun c => ws_not_cont) rfl
  | attrNm _ w nm rest _ hw hwn _ _ _ _ =>
    rw [List.append_assoc]; exact headNot_ws_cons _ w _ hw hwn (fun c => ws_not_cont)
  | attrNmEnd _ w nm hw hwn _ _ => rw [List.append_assoc]; exact headNot_ws_cons _ w _ hw hwn (fun c => ws_not_cont)

theorem simple_afterName_head {js : Bool} {en s out : Bytes} {se : State}
    (h : Simple js en .afterName .none s out se) :
    headNot (fun c => !attrNameEndB c) s = true := by
  have hp : ∀ c, isWs c = true → (!attrNameEndB c) = false := fun c hc => by simp [attrNameEndB, hc]
  cases h with
  | nil => rfl
  | eq _ w rest _ hw _ => exact headNot_ws_append _ w _ hw hp (by simp [headNot, attrNameEndB])
  | afterWs _ _ hw _ => simpa using headNot_ws_append _ _ [] hw hp rfl
  | bareEnd _ _ w rest _ hw _ _ => exact headNot_ws_append _ w _ hw hp (by simp [headNot, attrNameEndB])
  | bareNext _ w nm rest _ hw hwn _ _ _ _ => rw [List.append_assoc]; exact headNot_ws_cons _ w _ hw hwn hp
  | bareNextEnd _ w nm hw hwn _ _ => rw [List.append_assoc]; exact headNot_ws_cons _ w _ hw hwn hp

/-! ### the main induction -/

theorem alnum_ne60 (nm : Bytes) (hn : nm.all asciiAlphaNum = true) : ∀ b ∈ nm, b ≠ 60 := by
  intro b hb h
  have := (List.all_eq_true.1 hn) b hb
  subst h
  simp [asciiAlphaNum, isAlpha, isLowerAlpha, isUpperAlpha, isDigit] at this

theorem alpha_ne60 {c : Nat} (hc : isAlpha c = true) : c ≠ 60 := by
  intro h; subst h; simp [isAlpha, isLowerAlpha, isUpperAlpha] at hc

theorem need_step (st st' : State) (seg rest : Bytes) (f : Nat) (hne : seg ≠ [])
    (hf : need st (seg ++ rest) ≤ f) : need st' rest + 1 ≤ f := by
  have h1 := need_le st' rest
  have h2 : 1 ≤ seg.length := by
    cases seg with
    | nil => exact absurd rfl hne
    | cons x l => simp
  have h3 : 2 * (seg ++ rest).length + 1 ≤ need st (seg ++ rest) := by unfold need; split <;> omega
  simp only [List.length_append] at h3
  omega

theorem need_pos (st : State) (s : Bytes) (f : Nat) (hf : need st s ≤ f) : 1 ≤ f := by
  unfold need at hf; split at hf <;> omega

theorem append_ne_nil_left (a b : Bytes) (h : a ≠ []) : a ++ b ≠ [] := by
  cases a with
  | nil => exact absurd rfl h
  | cons x l => simp

theorem rel_cmt (c : Ctx) (t : T) (txt : Bytes) (hs : c.state = .text) (h : Rel c t) (ht : ∀ b ∈ txt, b ≠ 60) :
    Rel { state := .htmlCmt } (run t txt) := by
  have := rel_text c t txt hs h ht
  simp only [Rel, hs] at this
  simp only [Rel]
  exact ⟨trivial, trivial, this.2.2⟩

theorem rel_cmt_close (c : Ctx) (t : T) (hs : c.state = .htmlCmt) (h : Rel c t) : Rel {} t := by
  simp only [Rel, hs] at h
  simp only [Rel]
  exact ⟨trivial, by decide, h.2.2⟩

theorem after_elem (X : Ctx) (en en' : Bytes) (hce : X.elemName = en)
    (hee : memKey specialElements en = true → en' = en) :
    (tagEndCtx X).state ≠ .text → (tagEndCtx X).state ≠ .htmlCmt → (tagEndCtx X).elemName = en' := by
  intro h1 _
  rw [tagEndCtx_elem _ h1, hce]
  cases hs : memKey specialElements en
  · exact absurd (tagEndCtx_plain X (by rw [hce]; exact hs)).1 h1
  · exact (hee hs).symm

theorem need_afterTag (en rest : Bytes) : need (afterTag en) rest = 2 * rest.length + 1 := by
  unfold need afterTag; split <;> simp

theorem good_nil' {se : State} (pre : Bytes) (c : Ctx) (t : T) (f w : Nat) (b : Bytes) (h : Rel c t) (hf : 1 ≤ f)
    (hinv : Inv pre c w b) (hse : c.state = se) : Good pre [] c t f w b [] se := hse ▸ good_nil pre c t f w b h hf hinv

theorem hjs_next {js : Bool} {pre seg rest : Bytes}
    (h : js = true → isJsTemplateBalanced (pre ++ (seg ++ rest)) = true) :
    js = true → isJsTemplateBalanced ((pre ++ seg) ++ rest) = true := by
  rw [List.append_assoc]; exact h

theorem loop_simple {js : Bool} {en : Bytes} {st : State} {dl : Delim} {s out : Bytes} {se : State}
    (hs : Simple js en st dl s out se) :
    ∀ (c : Ctx) (t : T) (pre : Bytes) (f w : Nat) (b : Bytes), c.state = st → c.delim = dl → Rel c t →
      need st s ≤ f → Inv pre c w b → (c.state ≠ .text → c.state ≠ .htmlCmt → c.elemName = en) →
      (memKey specialElements en = true → InTagState st → ∀ x ∈ s, x ≠ 60) →
      (js = true → isJsTemplateBalanced (pre ++ s) = true) → Good pre s c t f w b out se := by
  induction hs with
  | nil en st dl =>
    intro c t pre f w b hst _ hr hf hinv _ _ _
    exact good_nil' pre c t f w b hr (need_pos _ _ _ hf) hinv hst
  | text en txt hs hne =>
    intro c t pre f w b hst hdl hr hf hinv hen hlt hjs
    have hr' := hr
    simp only [Rel, hst] at hr'
    rw [← List.append_nil txt] at hf
    obtain ⟨b1, w1, hbw, h1, h2, h3⟩ := stepBW_text_s pre txt [] c c w b (pre.length + txt.length) hst
      (by simp [hst]) (by simp) hs (Or.inl rfl) hinv.1 hinv.2.1
    have := chunk (se := .text) pre txt [] c c t f .text w w1 b b1 (escLt txt) [] (by simpa using hne) ?_ hbw (by simp [hst])
      (Or.inl hne) (need_step _ _ _ _ _ hne hf) h3 ?_
    · simpa using this
    · rw [List.append_nil, cat_plain c txt hr'.1 hr'.2.1 hne]
      simp only [transition, hst]
      exact tText_stray c txt hs
    · intro f' hf'
      exact good_nil' _ c _ f' w1 b1 (rel_text c t (escLt txt) hst hr (escLt_clean txt)) (need_pos _ _ _ hf')
        ⟨by simpa using h1, h2, fun h0 => by simp [hst] at h0⟩ hst
  | openTag en txt c0 nm rest out hs hc hn hp hsl hrest ih =>
    intro c t pre f w b hst hdl hr hf hinv hen hlt hjs
    have hr' := hr
    simp only [Rel, hst] at hr'
    have hsne : txt ++ 60 :: c0 :: nm ≠ [] := by simp
    have hn60 : ∀ b ∈ c0 :: nm, b ≠ 60 := (fun b hb => by
          rcases List.mem_cons.1 hb with rfl | hb
          · exact alpha_ne60 hc
          · exact alnum_ne60 nm hn b hb)
    have he : (if ({ state := .tag, elemName := (c0 :: nm).map lower } : Ctx).state != c.state then
        lastLt (pre ++ (txt ++ (60 :: c0 :: nm ++ rest))) pre.length (pre.length + (txt ++ 60 :: c0 :: nm).length)
        else pre.length + (txt ++ 60 :: c0 :: nm).length) = pre.length + txt.length := by
      rw [if_pos (by simp [hst]), ← List.append_assoc txt]
      exact lastLt_seg pre txt (c0 :: nm) rest hn60
    obtain ⟨b1, w1, hbw, h1, h2, h3⟩ := stepBW_text_s pre txt (60 :: c0 :: nm ++ rest) c { state := .tag, elemName := (c0 :: nm).map lower } w b _ hst
      (by simp) he hs (Or.inr ⟨_, rfl⟩) hinv.1 hinv.2.1
    rw [← List.append_assoc txt] at hbw
    refine chunk pre (txt ++ 60 :: c0 :: nm) rest c { state := .tag, elemName := (c0 :: nm).map lower } t f .tag
      w w1 b b1 (escLt txt ++ 60 :: c0 :: nm) out (append_ne_nil_left _ _ hsne) ?_ hbw (by simp [hst]) (Or.inl hsne)
      (need_step _ _ _ _ _ hsne hf) ?_ ?_
    · rw [cat_plain c _ hr'.1 hr'.2.1 (append_ne_nil_left _ _ hsne)]
      simp only [transition, hst]
      exact tText_open_s c txt c0 nm rest hs hc hn (simple_tag_head hrest)
    · rw [← List.append_assoc pre, List.drop_append_of_le_length (by simpa using h1), ← List.append_assoc, h3]
      simp [List.append_assoc]
    · intro f' hf'
      exact ih _ _ _ f' w1 b1 rfl rfl (rel_open c t (escLt txt) c0 nm hst hr (escLt_clean txt) hc hn hp) hf'
        ⟨by simp at h1 ⊢; omega, h2, fun h0 => by simp at h0⟩ (fun _ _ => rfl) (fun h _ => hsl h) (hjs_next hjs)
  | closeTag en txt c0 nm rest out hs hc hn hrest ih =>
    intro c t pre f w b hst hdl hr hf hinv hen hlt hjs
    have hr' := hr
    simp only [Rel, hst] at hr'
    have hsne : txt ++ 60 :: 47 :: c0 :: nm ≠ [] := by simp
    have hn60 : ∀ b ∈ 47 :: c0 :: nm, b ≠ 60 := (fun b hb => by
          rcases List.mem_cons.1 hb with rfl | hb
          · decide
          · rcases List.mem_cons.1 hb with rfl | hb
            · exact alpha_ne60 hc
            · exact alnum_ne60 nm hn b hb)
    have he : (if ({ state := .tag, elemName := [] } : Ctx).state != c.state then
        lastLt (pre ++ (txt ++ (60 :: 47 :: c0 :: nm ++ rest))) pre.length (pre.length + (txt ++ 60 :: 47 :: c0 :: nm).length)
        else pre.length + (txt ++ 60 :: 47 :: c0 :: nm).length) = pre.length + txt.length := by
      rw [if_pos (by simp [hst]), ← List.append_assoc txt]
      exact lastLt_seg pre txt (47 :: c0 :: nm) rest hn60
    obtain ⟨b1, w1, hbw, h1, h2, h3⟩ := stepBW_text_s pre txt (60 :: 47 :: c0 :: nm ++ rest) c { state := .tag, elemName := [] } w b _ hst
      (by simp) he hs (Or.inr ⟨_, rfl⟩) hinv.1 hinv.2.1
    rw [← List.append_assoc txt] at hbw
    refine chunk pre (txt ++ 60 :: 47 :: c0 :: nm) rest c { state := .tag, elemName := [] } t f .tag
      w w1 b b1 (escLt txt ++ 60 :: 47 :: c0 :: nm) out (append_ne_nil_left _ _ hsne) ?_ hbw (by simp [hst]) (Or.inl hsne)
      (need_step _ _ _ _ _ hsne hf) ?_ ?_
    · rw [cat_plain c _ hr'.1 hr'.2.1 (append_ne_nil_left _ _ hsne)]
      simp only [transition, hst]
      exact tText_close_s c txt c0 nm rest hs hc hn (simple_tag_head hrest)
    · rw [← List.append_assoc pre, List.drop_append_of_le_length (by simpa using h1), ← List.append_assoc, h3]
      simp [List.append_assoc]
    · intro f' hf'
      exact ih _ _ _ f' w1 b1 rfl rfl (rel_close c t (escLt txt) c0 nm hst hr (escLt_clean txt) hc hn) hf'
        ⟨by simp at h1 ⊢; omega, h2, fun h0 => by simp at h0⟩ (fun _ _ => rfl) (fun h => absurd h (by decide)) (hjs_next hjs)
  | cmtOpen en txt rest out hs hrest ih =>
    intro c t pre f w b hst hdl hr hf hinv hen hlt hjs
    have hr' := hr
    simp only [Rel, hst] at hr'
    have e : txt ++ 60 :: 33 :: 45 :: 45 :: rest = (txt ++ 60 :: [33, 45, 45]) ++ rest := by simp
    have hsne : txt ++ 60 :: [33, 45, 45] ≠ [] := by simp
    rw [e] at hf hjs ⊢
    refine chunk pre (txt ++ 60 :: [33, 45, 45]) rest c { state := .htmlCmt } t f .htmlCmt w
      (pre.length + (txt ++ 60 :: [33, 45, 45]).length) b (b ++ pre.drop w ++ escLt txt) (escLt txt) out
      (append_ne_nil_left _ _ hsne) ?_ ?_ (by simp [hst]) (Or.inl hsne) (need_step _ _ _ _ _ hsne hf) ?_ ?_
    · rw [cat_plain c _ hr'.1 hr'.2.1 (append_ne_nil_left _ _ hsne), ← e]
      simp only [transition, hst]
      exact tText_cmt_s c txt rest hs
    · exact stepBW_text_cmt_s pre txt rest c _ w b hst rfl rfl hs hinv.1 hinv.2.1
    · rw [← List.length_append, List.drop_length, List.append_nil]
    · intro f' hf'
      exact ih _ _ _ f' _ _ rfl rfl (rel_cmt c t (escLt txt) hst hr (escLt_clean txt)) hf'
        ⟨by simp, fun h0 => by simp at h0, fun _ => by simp⟩ (fun _ h => absurd rfl h) (fun _ h => absurd h (by simp [InTagState])) (hjs_next hjs)
  | cmtBody en body hb hne =>
    intro c t pre f w b hst hdl hr hf hinv hen hlt hjs
    have hr' := hr
    simp only [Rel, hst] at hr'
    have hw : w = pre.length := hinv.2.2 hst
    rw [← List.append_nil body] at hf
    have := chunk (se := .htmlCmt) pre body [] c c t f .htmlCmt w (pre.length + body.length) b b [] [] (by simpa using hne) ?_ ?_
      (by simp [hst]) (Or.inl hne) (need_step _ _ _ _ _ hne hf) ?_ ?_
    · simpa using this
    · rw [List.append_nil, cat_plain c body hr'.1 (by rw [hr'.2.1]; decide) hne]
      simp only [transition, hst]
      exact tHTMLCmt_none c body hb
    · exact stepBW_cmt _ c c _ _ _ _ hst hr'.1 hr'.2.1 (Or.inl hst)
    · rw [← List.length_append, List.drop_length, hw, List.drop_length]; simp
    · intro f' hf'
      exact good_nil' _ c _ f' _ b hr (need_pos _ _ _ hf')
        ⟨by simp, fun h0 => by
          have : body.length ≠ 0 := by cases body with
            | nil => exact absurd rfl hne
            | cons x l => simp
          omega, fun _ => by simp⟩ hst
  | @cmtClose se en body rest out hb hrest ih =>
    intro c t pre f w b hst hdl hr hf hinv hen hlt hjs
    have hr' := hr
    simp only [Rel, hst] at hr'
    have hw : w = pre.length := hinv.2.2 hst
    have e : body ++ 45 :: 45 :: 62 :: rest = (body ++ [45, 45, 62]) ++ rest := by simp
    have hsne : body ++ [45, 45, 62] ≠ [] := by simp
    rw [e] at hf hjs ⊢
    have := chunk (se := se) pre (body ++ [45, 45, 62]) rest c {} t f .text w (pre.length + (body ++ [45, 45, 62]).length) b b
      [] out (append_ne_nil_left _ _ hsne) ?_ ?_ (by simp [hst]) (Or.inl hsne) (need_step _ _ _ _ _ hsne hf) ?_ ?_
    · simpa using this
    · rw [cat_plain c _ hr'.1 (by rw [hr'.2.1]; decide) (append_ne_nil_left _ _ hsne), ← e]
      simp only [transition, hst]
      exact tHTMLCmt_close c body rest hb
    · exact stepBW_cmt _ c {} _ _ _ _ hst hr'.1 hr'.2.1 (Or.inr rfl)
    · rw [← List.length_append, List.drop_length, hw, List.drop_length]; simp
    · intro f' hf'
      exact ih _ _ _ f' _ _ rfl rfl (rel_cmt_close c t hst hr) hf'
        ⟨by simp, fun h0 => by simp at h0, fun h0 => by simp at h0⟩ (fun h => absurd rfl h) (fun _ h => absurd h (by simp [InTagState])) (hjs_next hjs)
  | tagEnd en en' w' rest out hw hee hrest ih =>
    intro c t pre f w b hst hdl hr hf hinv hen hlt hjs
    have hce : c.elemName = en := hen (by simp [hst]) (by simp [hst])
    obtain ⟨hdn, hsp, hrc⟩ := intag_facts c t _ hr (by simp [hst, InTagState])
      (fun h => hlt (hce ▸ h) (by simp [InTagState]))
    have hdn := hdn (by simp [hst])
    have e : w' ++ 62 :: rest = (w' ++ [62]) ++ rest := by simp
    have e' : w' ++ 62 :: out = (w' ++ [62]) ++ out := by simp
    have hsne : w' ++ [62] ≠ [] := by simp
    have hrc' := or_sub (s' := w' ++ [62]) hrc (by mem_tac)
    rw [e] at hf hjs hsp ⊢
    rw [e']
    refine chunk0 pre (w' ++ [62]) rest c (tagEndCtx c) t f (afterTag en) w b out
      (append_ne_nil_left _ _ hsne) ?_ ?_ (by simp [hst]) (tagEndCtx_state c).1 (Or.inl hsne)
      (need_step _ _ _ _ _ hsne hf) hinv.1 ?_
    · rw [cat_plain' c _ hdn hsp (append_ne_nil_left _ _ hsne), ← e]
      simp only [transition, hst]
      exact tTag_gt c w' rest hw
    · exact rewriteStep_intag pre _ rest c _ w b (by simp [hst]) (by simp [hst]) hrc'
    · intro f' hf'
      refine ih (tagEndCtx (c : Ctx)) _ _ f' w b (by rw [tagEndCtx_afterTag]; exact congrArg afterTag hce) (tagEndCtx_state _).2 ?_ hf'
              ⟨by have := hinv.1; simp; omega, hinv.2.1, fun h0 => absurd h0 (tagEndCtx_state _).1⟩
              (after_elem _ en en' hce hee)
              (fun _ h => absurd h (afterTag_not_inTag en)) (hjs_next hjs)
      exact rel_tagEnd c t w' hst hr hw
  | tagWs en w' hw hne =>
    intro c t pre f w b hst hdl hr hf hinv hen hlt hjs
    have hce : c.elemName = en := hen (by simp [hst]) (by simp [hst])
    obtain ⟨hdn, hsp, hrc⟩ := intag_facts c t _ hr (by simp [hst, InTagState])
      (fun h => hlt (hce ▸ h) (by simp [InTagState]))
    have hdn := hdn (by simp [hst])
    rw [← List.append_nil w'] at hf
    have := chunk0 (se := .tag) pre w' [] c c t f .tag w b [] (by simpa using hne) ?_ ?_ (by simp [hst]) (by simp [hst])
      (Or.inl hne) (need_step _ _ _ _ _ hne hf) hinv.1 ?_
    · simpa using this
    · rw [List.append_nil, cat_plain' c w' hdn hsp hne]
      simp only [transition, hst]
      exact tTag_ws c w' hw
    · exact rewriteStep_intag pre w' [] c c w b (by simp [hst]) (by simp [hst]) hrc
    · intro f' hf'
      exact good_nil' _ c _ f' w b (rel_tagWs c t w' hst hr hw) (need_pos _ _ _ hf')
        (Inv_next pre w' c c w b hinv (by simp [hst])) hst
  | attrNm en w' nm rest out hw hwn hn hne hrne hrest ih =>
    intro c t pre f w b hst hdl hr hf hinv hen hlt hjs
    have hce : c.elemName = en := hen (by simp [hst]) (by simp [hst])
    obtain ⟨hdn, hsp, hrc⟩ := intag_facts c t _ hr (by simp [hst, InTagState])
      (fun h => hlt (hce ▸ h) (by simp [InTagState]))
    have hdn := hdn (by simp [hst])
    have hsne : w' ++ nm ≠ [] := append_ne_nil_left _ _ hwn
    have hie : rest.isEmpty = false := by cases rest with
      | nil => exact absurd rfl hrne
      | cons x l => rfl
    have hrc' := or_sub (s' := w' ++ nm) hrc (by mem_tac)
    refine chunk0 pre (w' ++ nm) rest c (attrNameCtx c nm false) t f .afterName w b out
      (append_ne_nil_left _ _ hsne) ?_ ?_ (by simp [hst]) (by simp [attrNameCtx]) (Or.inl hsne)
      (need_step _ _ _ _ _ hsne hf) hinv.1 ?_
    · rw [cat_plain' c _ hdn hsp (append_ne_nil_left _ _ hsne)]
      simp only [transition, hst]
      rw [tTag_name c w' nm rest hw hn hne (simple_afterName_head hrest), hie]
    · exact rewriteStep_intag pre _ rest c _ w b (by simp [hst]) (by simp [hst]) hrc'
    · intro f' hf'
      exact ih _ _ _ f' w b (by simp [attrNameCtx]) rfl (rel_attrNm c t w' nm false hst hr hw hwn hn hne) hf'
        (Inv_next pre _ c _ w b hinv (by simp [attrNameCtx])) (fun _ _ => hce) (fun h _ x hx => hlt h (by simp [InTagState]) x (by revert x; mem_tac)) (hjs_next hjs)
  | attrNmEnd en w' nm hw hwn hn hne =>
    intro c t pre f w b hst hdl hr hf hinv hen hlt hjs
    have hce : c.elemName = en := hen (by simp [hst]) (by simp [hst])
    obtain ⟨hdn, hsp, hrc⟩ := intag_facts c t _ hr (by simp [hst, InTagState])
      (fun h => hlt (hce ▸ h) (by simp [InTagState]))
    have hdn := hdn (by simp [hst])
    have hsne : w' ++ nm ≠ [] := append_ne_nil_left _ _ hwn
    have hrc' := or_sub (s' := w' ++ nm) hrc (by mem_tac)
    refine chunk0 pre (w' ++ nm) [] c (attrNameCtx c nm true) t f .attrName w b []
      (append_ne_nil_left _ _ hsne) ?_ ?_ (by simp [hst]) (by simp [attrNameCtx]) (Or.inl hsne)
      (need_step _ _ _ _ _ hsne hf) hinv.1 ?_
    · rw [cat_plain' c _ hdn hsp (append_ne_nil_left _ _ hsne)]
      simp only [transition, hst]
      rw [tTag_name c w' nm [] hw hn hne rfl]; rfl
    · exact rewriteStep_intag pre _ [] c _ w b (by simp [hst]) (by simp [hst]) hrc'
    · intro f' hf'
      exact good_nil' _ _ _ f' w b (rel_attrNm c t w' nm true hst hr hw hwn hn hne) (need_pos _ _ _ hf')
        (Inv_next pre _ c _ w b hinv (by simp [attrNameCtx])) (by simp [attrNameCtx])
  | @nameEnd se en s out hh hrest ih =>
    intro c t pre f w b hst hdl hr hf hinv hen hlt hjs
    have hce : c.elemName = en := hen (by simp [hst]) (by simp [hst])
    obtain ⟨hdn, hsp, hrc⟩ := intag_facts c t _ hr (by simp [hst, InTagState])
      (fun h => hlt (hce ▸ h) (by simp [InTagState]))
    have hdn := hdn (by simp [hst])
    have hsne : s ≠ [] := by cases s with
      | nil => simp [headIs] at hh
      | cons x l => simp
    show Good pre ([] ++ s) c t f w b ([] ++ out) se
    refine chunk0 pre [] s c { c with state := .afterName } t f .afterName w b out
      (by simpa using hsne) ?_ ?_ (by simp [hst]) (by simp) (Or.inr (by simp [hst]))
      (by simp only [need] at hf ⊢; simp at hf ⊢; omega) hinv.1 ?_
    · rw [List.nil_append, cat_plain' c _ hdn hsp hsne]
      simp only [transition, hst]
      exact tAttrName_end c s hh
    · exact rewriteStep_intag pre [] s c _ w b (by simp [hst]) (by simp [hst]) (Or.inr (by simp))
    · intro f' hf'
      exact ih _ _ _ f' w b rfl hdn (rel_nameEnd c t hst hr) hf' (Inv_next pre _ c _ w b hinv (by simp))
        (fun _ _ => hce) (fun h _ => hlt h (by simp [InTagState])) (by simpa using hjs)
  | eq en w' rest out hw hrest ih =>
    intro c t pre f w b hst hdl hr hf hinv hen hlt hjs
    have hce : c.elemName = en := hen (by simp [hst]) (by simp [hst])
    obtain ⟨hdn, hsp, hrc⟩ := intag_facts c t _ hr (by simp [hst, InTagState])
      (fun h => hlt (hce ▸ h) (by simp [InTagState]))
    have hdn := hdn (by simp [hst])
    have e : w' ++ 61 :: rest = (w' ++ [61]) ++ rest := by simp
    have e' : w' ++ 61 :: out = (w' ++ [61]) ++ out := by simp
    have hsne : w' ++ [61] ≠ [] := by simp
    have hrc' := or_sub (s' := w' ++ [61]) hrc (by mem_tac)
    have hlt' : memKey specialElements en = true → ∀ x ∈ rest, x ≠ 60 :=
      fun h x hx => hlt h (by simp [InTagState]) x (by revert x; mem_tac)
    rw [e] at hf hjs hsp ⊢
    rw [e']
    refine chunk0 pre (w' ++ [61]) rest c { c with state := .beforeValue } t f .beforeValue w b out
      (append_ne_nil_left _ _ hsne) ?_ ?_ (by simp [hst]) (by simp) (Or.inl hsne)
      (need_step _ _ _ _ _ hsne hf) hinv.1 ?_
    · rw [cat_plain' c _ hdn hsp (append_ne_nil_left _ _ hsne), ← e]
      simp only [transition, hst]
      exact tAfterName_eq c w' rest hw
    · exact rewriteStep_intag pre _ rest c _ w b (by simp [hst]) (by simp [hst]) hrc'
    · intro f' hf'
      exact ih _ _ _ f' w b rfl hdn (rel_eq c t w' hst hr hw) hf' (Inv_next pre _ c _ w b hinv (by simp))
        (fun _ _ => hce) (fun h _ => hlt' h) (hjs_next hjs)
  | afterWs en w' hw hne =>
    intro c t pre f w b hst hdl hr hf hinv hen hlt hjs
    have hce : c.elemName = en := hen (by simp [hst]) (by simp [hst])
    obtain ⟨hdn, hsp, hrc⟩ := intag_facts c t _ hr (by simp [hst, InTagState])
      (fun h => hlt (hce ▸ h) (by simp [InTagState]))
    have hdn := hdn (by simp [hst])
    rw [← List.append_nil w'] at hf
    have := chunk0 (se := .afterName) pre w' [] c c t f .afterName w b [] (by simpa using hne) ?_ ?_ (by simp [hst]) (by simp [hst])
      (Or.inl hne) (need_step _ _ _ _ _ hne hf) hinv.1 ?_
    · simpa using this
    · rw [List.append_nil, cat_plain' c w' hdn hsp hne]
      simp only [transition, hst]
      exact tAfterName_ws c w' hw
    · exact rewriteStep_intag pre w' [] c c w b (by simp [hst]) (by simp [hst]) hrc
    · intro f' hf'
      exact good_nil' _ c _ f' w b (rel_afterWs c t w' hst hr hw) (need_pos _ _ _ hf')
        (Inv_next pre w' c c w b hinv (by simp [hst])) hst
  | quote en d w' rest out hd hw hrest ih =>
    intro c t pre f w b hst hdl hr hf hinv hen hlt hjs
    have hce : c.elemName = en := hen (by simp [hst]) (by simp [hst])
    obtain ⟨hdn, hsp, hrc⟩ := intag_facts c t _ hr (by simp [hst, InTagState])
      (fun h => hlt (hce ▸ h) (by simp [InTagState]))
    have hdn := hdn (by simp [hst])
    have e : w' ++ quoteOf d :: rest = (w' ++ [quoteOf d]) ++ rest := by simp
    have e' : w' ++ quoteOf d :: out = (w' ++ [quoteOf d]) ++ out := by simp
    have hsne : w' ++ [quoteOf d] ≠ [] := by simp
    have hrc' := or_sub (s' := w' ++ [quoteOf d]) hrc (by mem_tac)
    have hlt' : memKey specialElements en = true → ∀ x ∈ rest, x ≠ 60 :=
      fun h x hx => hlt h (by simp [InTagState]) x (by revert x; mem_tac)
    rw [e] at hf hjs hsp ⊢
    rw [e']
    refine chunk0 pre (w' ++ [quoteOf d]) rest c { c with state := .attr, delim := d } t f .attr w b out
      (append_ne_nil_left _ _ hsne) ?_ ?_ (by simp [hst]) (by simp) (Or.inl hsne)
      (need_step _ _ _ _ _ hsne hf) hinv.1 ?_
    · rw [cat_plain' c _ hdn hsp (append_ne_nil_left _ _ hsne), ← e]
      simp only [transition, hst]
      rcases hd with rfl | rfl
      · exact tBeforeValue_dq c w' rest hw
      · exact tBeforeValue_sq c w' rest hw
    · exact rewriteStep_intag pre _ rest c _ w b (by simp [hst]) (by simp [hst]) hrc'
    · intro f' hf'
      exact ih _ _ _ f' w b rfl rfl (rel_quote c t w' d hd hst hr hw) hf' (Inv_next pre _ c _ w b hinv (by simp))
        (fun _ _ => hce) (fun h _ => hlt' h) (hjs_next hjs)
  | beforeWs en w' hw hne =>
    intro c t pre f w b hst hdl hr hf hinv hen hlt hjs
    have hce : c.elemName = en := hen (by simp [hst]) (by simp [hst])
    obtain ⟨hdn, hsp, hrc⟩ := intag_facts c t _ hr (by simp [hst, InTagState])
      (fun h => hlt (hce ▸ h) (by simp [InTagState]))
    have hdn := hdn (by simp [hst])
    rw [← List.append_nil w'] at hf
    have := chunk0 (se := .beforeValue) pre w' [] c c t f .beforeValue w b [] (by simpa using hne) ?_ ?_ (by simp [hst]) (by simp [hst])
      (Or.inl hne) (need_step _ _ _ _ _ hne hf) hinv.1 ?_
    · simpa using this
    · rw [List.append_nil, cat_plain' c w' hdn hsp hne]
      simp only [transition, hst]
      exact tBeforeValue_ws c w' hw
    · exact rewriteStep_intag pre w' [] c c w b (by simp [hst]) (by simp [hst]) hrc
    · intro f' hf'
      exact good_nil' _ c _ f' w b (rel_beforeWs c t w' hst hr hw) (need_pos _ _ _ hf')
        (Inv_next pre w' c c w b hinv (by simp [hst])) hst
  | @unq se en w' v rest out hw hv hne hhd hrest ih =>
    intro c t pre f w b hst hdl hr hf hinv hen hlt hjs
    have hce : c.elemName = en := hen (by simp [hst]) (by simp [hst])
    obtain ⟨hdn, hsp, hrc⟩ := intag_facts c t _ hr (by simp [hst, InTagState])
      (fun h => hlt (hce ▸ h) (by simp [InTagState]))
    have hdn := hdn (by simp [hst])
    obtain ⟨x, v', rfl⟩ := List.exists_cons_of_ne_nil hne
    have hx : unqByte x = true := by simp only [List.all_cons, Bool.and_eq_true] at hv; exact hv.1
    obtain ⟨d, rest', rfl, hd⟩ : ∃ d rest', rest = d :: rest' ∧ unqEnd d = true := by
      cases rest with
      | nil => simp [headIs] at hhd
      | cons d r => exact ⟨d, r, rfl, by simpa [headIs] using hhd⟩
    have hv60 : ∀ y ∈ x :: v', y ≠ 60 := fun y hy => (unqByte_spec ((List.all_eq_true.1 hv) y hy)).2.2.2.2.1
    have hlen : (w' ++ x :: v' ++ d :: rest').length = w'.length + v'.length + rest'.length + 2 := by simp; omega
    have hf0 : 2 * rest'.length + 4 + 1 ≤ f := by
      simp only [need, hlen] at hf; simp at hf; omega
    have hrc1 := or_sub (s' := w') hrc (by mem_tac)
    have hlt' : memKey specialElements en = true → ∀ y ∈ d :: rest', y ≠ 60 :=
      fun h y hy => hlt h (by simp [InTagState]) y (by revert y; mem_tac)
    rw [List.append_assoc] at hjs hsp ⊢
    rw [List.append_assoc]
    obtain ⟨p1, p2, p3⟩ := attrCloseCtx_proj ({ c with state := .attr, delim := .spaceOrTagEnd } : Ctx) (x :: v')
    refine chunk0M pre w' (x :: v' ++ d :: rest') c { c with state := .attr, delim := .spaceOrTagEnd } t f
      (2 * rest'.length + 4) w b (x :: v' ++ out) (by simp) ?_ ?_ (by simp [hst]) (by simp) (Or.inr (by simp [hst]))
      hf0 hinv.1 ?_
    · rw [cat_plain' c _ hdn hsp (by simp)]
      simp only [transition, hst]
      exact tBeforeValue_unq c w' x (v' ++ d :: rest') hw hx
    · exact rewriteStep_intag pre _ _ c _ w b (by simp [hst]) (by simp [hst]) hrc1
    · intro f1 hf1
      refine chunk0 (pre ++ w') (x :: v') (d :: rest') ({ c with state := .attr, delim := .spaceOrTagEnd } : Ctx)
        (attrCloseCtx { c with state := .attr, delim := .spaceOrTagEnd } (x :: v')) (run t w') f1 .tag w b out
        (by simp) ?_ ?_ (by simp) (by simp [p1]) (Or.inl (by simp)) (by simp only [need]; simp; omega)
        (by have := hinv.1; simp; omega) ?_
      · exact cat_attr_unq _ (x :: v') d rest' rfl hv hd
      · exact rewriteStep_intag (pre ++ w') (x :: v') _ ({ c with state := .attr, delim := .spaceOrTagEnd } : Ctx) _
          w b (by simp) (by simp) (Or.inr hv60)
      · intro f2 hf2
        refine ih _ _ _ f2 w b p1 p2 ?_ hf2
          ⟨by have := hinv.1; simp; omega, hinv.2.1, fun h0 => by simp [p1] at h0⟩
          (fun _ _ => p3.trans hce) (fun h _ => hlt' h) (hjs_next (hjs_next hjs))
        rw [← run_append]
        exact rel_unq c t w' (x :: v') hst hr hw hv (by simp)
  | val en d v hd hv hne =>
    intro c t pre f w b hst hdl hr hf hinv hen hlt hjs
    have hce : c.elemName = en := hen (by simp [hst]) (by simp [hst])
    obtain ⟨hdn, hsp, hrc⟩ := intag_facts c t _ hr (by simp [hst, InTagState])
      (fun h => hlt (hce ▸ h) (by simp [InTagState]))
    subst hdl
    rw [← List.append_nil v] at hf
    have := chunk0 (se := .attr) pre v [] c { c with attrValue := c.attrValue ++ v } t f .attr w b [] (by simpa using hne) ?_ ?_
      (by simp [hst]) (by simp [hst]) (Or.inl hne) (need_step _ _ _ _ _ hne hf) hinv.1 ?_
    · simpa using this
    · rw [List.append_nil]
      exact cat_attr_in c v hst hd hv
    · exact rewriteStep_intag pre v [] c _ w b (by simp [hst]) (by simp [hst]) hrc
    · intro f' hf'
      exact good_nil' _ _ _ f' w b (rel_val c t v hst hr hv) (need_pos _ _ _ hf')
        (Inv_next pre _ c _ w b hinv (by simp [hst])) hst
  | closeQ en d v rest out hd hv hrest ih =>
    intro c t pre f w b hst hdl hr hf hinv hen hlt hjs
    have hce : c.elemName = en := hen (by simp [hst]) (by simp [hst])
    obtain ⟨hdn, hsp, hrc⟩ := intag_facts c t _ hr (by simp [hst, InTagState])
      (fun h => hlt (hce ▸ h) (by simp [InTagState]))
    subst hdl
    have e : v ++ quoteOf c.delim :: rest = (v ++ [quoteOf c.delim]) ++ rest := by simp
    have e' : v ++ quoteOf c.delim :: out = (v ++ [quoteOf c.delim]) ++ out := by simp
    have hsne : v ++ [quoteOf c.delim] ≠ [] := by simp
    have hrc' := or_sub (s' := v ++ [quoteOf c.delim]) hrc (by mem_tac)
    have hlt' : memKey specialElements en = true → ∀ x ∈ rest, x ≠ 60 :=
      fun h x hx => hlt h (by simp [InTagState]) x (by revert x; mem_tac)
    rw [e] at hf hjs ⊢
    rw [e']
    obtain ⟨p1, p2, p3⟩ := attrCloseCtx_proj c v
    refine chunk0 pre (v ++ [quoteOf c.delim]) rest c (attrCloseCtx c v) t f .tag w b out
      (append_ne_nil_left _ _ hsne) ?_ ?_ (by simp [hst]) (by simp [p1]) (Or.inl hsne)
      (need_step _ _ _ _ _ hsne hf) hinv.1 ?_
    · rw [← e]
      exact cat_attr_close c v rest hd hv
    · exact rewriteStep_intag pre _ rest c _ w b (by simp [hst]) (by simp [hst]) hrc'
    · intro f' hf'
      exact ih _ _ _ f' w b p1 p2 (rel_closeQ c t v hst hr hv) hf' (Inv_next pre _ c _ w b hinv (by simp [p1]))
        (fun _ _ => p3.trans hce) (fun h _ => hlt' h) (hjs_next hjs)
  | bareEnd en en' w' rest out hw hee hrest ih =>
    intro c t pre f w b hst hdl hr hf hinv hen hlt hjs
    have hce : c.elemName = en := hen (by simp [hst]) (by simp [hst])
    obtain ⟨hdn, hsp, hrc⟩ := intag_facts c t _ hr (by simp [hst, InTagState])
      (fun h => hlt (hce ▸ h) (by simp [InTagState]))
    have hdn := hdn (by simp [hst])
    have e : w' ++ 62 :: rest = w' ++ ([62] ++ rest) := by simp
    have e' : w' ++ 62 :: out = w' ++ ([62] ++ out) := by simp
    have hlen : (w' ++ 62 :: rest).length = w'.length + rest.length + 1 := by simp; omega
    have hf0 : 2 * rest.length + 2 + 1 ≤ f := by
      simp only [need, hlen] at hf; simp at hf; omega
    have hrc1 := or_sub (s' := w') hrc (by mem_tac)
    have hrc2 := or_sub (s' := [62]) hrc (by mem_tac)
    have hsp2 := or_sub (s' := [62] ++ rest) hsp (by mem_tac)
    rw [e] at hjs hsp ⊢
    rw [e']
    refine chunk0M pre w' ([62] ++ rest) c { c with state := .tag } t f (2 * rest.length + 2) w b ([62] ++ out)
      (by simp) ?_ ?_ (by simp [hst]) (by simp) (Or.inr (by simp [hst])) hf0 hinv.1 ?_
    · rw [cat_plain' c _ hdn hsp (by simp)]
      simp only [transition, hst]
      exact tAfterName_tag c w' 62 rest hw (by decide) (by decide)
    · exact rewriteStep_intag pre _ _ c _ w b (by simp [hst]) (by simp [hst]) hrc1
    · intro f1 hf1
      refine chunk0 (pre ++ w') [62] rest { c with state := .tag } (tagEndCtx { c with state := .tag }) (run t w')
        f1 (afterTag en) w b out (by simp) ?_ ?_ (by simp) (tagEndCtx_state _).1 (Or.inl (by simp))
        (by rw [need_afterTag]; omega) (by have := hinv.1; simp; omega) ?_
      · rw [cat_plain' ({ c with state := .tag } : Ctx) _ hdn hsp2 (by simp)]
        simp only [transition]
        exact tTag_gt { c with state := .tag } [] rest rfl
      · exact rewriteStep_intag (pre ++ w') _ _ ({ c with state := .tag } : Ctx) _ w b (by simp) (by simp) hrc2
      · intro f2 hf2
        refine ih (tagEndCtx ({ c with state := .tag } : Ctx)) _ _ f2 w b (by rw [tagEndCtx_afterTag]; exact congrArg afterTag hce) (tagEndCtx_state _).2 ?_ hf2
              ⟨by have := hinv.1; simp; omega, hinv.2.1, fun h0 => absurd h0 (tagEndCtx_state _).1⟩
              (after_elem _ en en' hce hee)
              (fun _ h => absurd h (afterTag_not_inTag en)) (hjs_next (hjs_next hjs))
        rw [← run_append]
        exact rel_bareEnd c t w' hst hr hw
  | bareNext en w' nm rest out hw hwn hn hne hrne hrest ih =>
    intro c t pre f w b hst hdl hr hf hinv hen hlt hjs
    have hce : c.elemName = en := hen (by simp [hst]) (by simp [hst])
    obtain ⟨hdn, hsp, hrc⟩ := intag_facts c t _ hr (by simp [hst, InTagState])
      (fun h => hlt (hce ▸ h) (by simp [InTagState]))
    have hdn := hdn (by simp [hst])
    obtain ⟨x, nm', rfl⟩ := List.exists_cons_of_ne_nil hne
    have hx : attrNameByte x = true := by simp only [List.all_cons, Bool.and_eq_true] at hn; exact hn.1
    obtain ⟨hxw, h61, _, _⟩ := nb_facts hx
    have hie : rest.isEmpty = false := by cases rest with
      | nil => exact absurd rfl hrne
      | cons y l => rfl
    have hlen : (w' ++ x :: nm' ++ rest).length = w'.length + nm'.length + rest.length + 1 := by simp; omega
    have hw1 : 1 ≤ w'.length := by cases w' with
      | nil => exact absurd rfl hwn
      | cons y l => simp
    have hf0 : 2 * rest.length + 3 + 1 ≤ f := by
      simp only [need, hlen] at hf; simp at hf; omega
    have hrc1 := or_sub (s' := w') hrc (by mem_tac)
    have hrc2 := or_sub (s' := x :: nm') hrc (by mem_tac)
    have hsp2 := or_sub (s' := x :: nm' ++ rest) hsp (by mem_tac)
    have hlt' : memKey specialElements en = true → ∀ y ∈ rest, y ≠ 60 :=
      fun h y hy => hlt h (by simp [InTagState]) y (by revert y; mem_tac)
    rw [List.append_assoc] at hjs hsp ⊢
    rw [List.append_assoc]
    refine chunk0M pre w' (x :: nm' ++ rest) c { c with state := .tag } t f (2 * rest.length + 3) w b (x :: nm' ++ out)
      (by simp) ?_ ?_ (by simp [hst]) (by simp) (Or.inl hwn) hf0 hinv.1 ?_
    · rw [cat_plain' c _ hdn hsp (by simp)]
      simp only [transition, hst]
      exact tAfterName_tag c w' x (nm' ++ rest) hw hxw (by simpa using h61)
    · exact rewriteStep_intag pre _ _ c _ w b (by simp [hst]) (by simp [hst]) hrc1
    · intro f1 hf1
      refine chunk0 (pre ++ w') (x :: nm') rest { c with state := .tag } (attrNameCtx c (x :: nm') false) (run t w')
        f1 .afterName w b out (by simp) ?_ ?_ (by simp) (by simp [attrNameCtx]) (Or.inl (by simp))
        (by simp only [need]; simp; omega) (by have := hinv.1; simp; omega) ?_
      · rw [cat_plain' ({ c with state := .tag } : Ctx) _ hdn hsp2 (by simp)]
        simp only [transition]
        have := tTag_name { c with state := .tag } [] (x :: nm') rest rfl hn (by simp) (simple_afterName_head hrest)
        have e2 : ∀ l, attrNameCtx ({ c with state := .tag } : Ctx) (x :: nm') l = attrNameCtx c (x :: nm') l :=
          fun _ => rfl
        rw [hie, e2] at this
        simpa using this
      · exact rewriteStep_intag (pre ++ w') _ _ ({ c with state := .tag } : Ctx) _ w b (by simp) (by simp) hrc2
      · intro f2 hf2
        refine ih _ _ _ f2 w b (by simp [attrNameCtx]) rfl ?_ hf2
          ⟨by have := hinv.1; simp; omega, hinv.2.1, fun h0 => by simp [attrNameCtx] at h0⟩
          (fun _ _ => hce) (fun h _ => hlt' h) (hjs_next (hjs_next hjs))
        rw [← run_append]
        exact rel_bareNext c t w' (x :: nm') false hst hr hw hwn hn (by simp)
  | bareNextEnd en w' nm hw hwn hn hne =>
    intro c t pre f w b hst hdl hr hf hinv hen hlt hjs
    have hce : c.elemName = en := hen (by simp [hst]) (by simp [hst])
    obtain ⟨hdn, hsp, hrc⟩ := intag_facts c t _ hr (by simp [hst, InTagState])
      (fun h => hlt (hce ▸ h) (by simp [InTagState]))
    have hdn := hdn (by simp [hst])
    obtain ⟨x, nm', rfl⟩ := List.exists_cons_of_ne_nil hne
    have hx : attrNameByte x = true := by simp only [List.all_cons, Bool.and_eq_true] at hn; exact hn.1
    obtain ⟨hxw, h61, _, _⟩ := nb_facts hx
    have hlen : (w' ++ x :: nm' ++ []).length = w'.length + nm'.length + 1 := by simp; omega
    have hw1 : 1 ≤ w'.length := by cases w' with
      | nil => exact absurd rfl hwn
      | cons y l => simp
    have hf0 : 3 + 1 ≤ f := by
      simp only [need, hlen] at hf; simp at hf; omega
    have hrc1 := or_sub (s' := w') hrc (by mem_tac)
    have hrc2 := or_sub (s' := x :: nm') hrc (by mem_tac)
    have hsp2 := or_sub (s' := x :: nm' ++ []) hsp (by mem_tac)
    rw [List.append_assoc] at hsp ⊢
    refine chunk0M pre w' (x :: nm' ++ []) c { c with state := .tag } t f 3 w b (x :: nm' ++ [])
      (by simp) ?_ ?_ (by simp [hst]) (by simp) (Or.inl hwn) hf0 hinv.1 ?_
    · rw [cat_plain' c _ hdn hsp (by simp)]
      simp only [transition, hst]
      exact tAfterName_tag c w' x (nm' ++ []) hw hxw (by simpa using h61)
    · exact rewriteStep_intag pre _ _ c _ w b (by simp [hst]) (by simp [hst]) hrc1
    · intro f1 hf1
      refine chunk0 (pre ++ w') (x :: nm') [] { c with state := .tag } (attrNameCtx c (x :: nm') true) (run t w')
        f1 .attrName w b [] (by simp) ?_ ?_ (by simp) (by simp [attrNameCtx]) (Or.inl (by simp))
        (by simp only [need]; simp; omega) (by have := hinv.1; simp; omega) ?_
      · rw [cat_plain' ({ c with state := .tag } : Ctx) _ hdn hsp2 (by simp)]
        simp only [transition]
        have := tTag_name { c with state := .tag } [] (x :: nm') [] rfl hn (by simp) rfl
        have e2 : ∀ l, attrNameCtx ({ c with state := .tag } : Ctx) (x :: nm') l = attrNameCtx c (x :: nm') l :=
          fun _ => rfl
        rw [e2] at this
        simpa using this
      · exact rewriteStep_intag (pre ++ w') _ _ ({ c with state := .tag } : Ctx) _ w b (by simp) (by simp) hrc2
      · intro f2 hf2
        refine good_nil' _ _ _ f2 w b ?_ (need_pos _ _ _ hf2)
          ⟨by have := hinv.1; simp; omega, hinv.2.1, fun h0 => by simp [attrNameCtx] at h0⟩ (by simp [attrNameCtx])
        rw [← run_append]
        exact rel_bareNext c t w' (x :: nm') true hst hr hw hwn hn (by simp)
  | selfClose en en' w' rest out hw hee hrest ih =>
    intro c t pre f w b hst hdl hr hf hinv hen hlt hjs
    have hce : c.elemName = en := hen (by simp [hst]) (by simp [hst])
    obtain ⟨hdn, hsp, hrc⟩ := intag_facts c t _ hr (by simp [hst, InTagState])
      (fun h => hlt (hce ▸ h) (by simp [InTagState]))
    have hdn := hdn (by simp [hst])
    have e : w' ++ 47 :: 62 :: rest = (w' ++ [47]) ++ ([] ++ ([62] ++ rest)) := by simp
    have e' : w' ++ 47 :: 62 :: out = (w' ++ [47]) ++ ([] ++ ([62] ++ out)) := by simp
    have hlen : (w' ++ 47 :: 62 :: rest).length = w'.length + rest.length + 2 := by simp; omega
    have hf0 : 2 * rest.length + 4 + 1 ≤ f := by
      simp only [need, hlen] at hf; simp at hf; omega
    have hrc1 := or_sub (s' := w' ++ [47]) hrc (by mem_tac)
    have hrc2 := or_sub (s' := [62]) hrc (by mem_tac)
    have hsp2 := or_sub (s' := [62] ++ rest) hsp (by mem_tac)
    rw [e] at hjs hsp ⊢
    rw [e']
    refine chunk0M pre (w' ++ [47]) ([] ++ ([62] ++ rest)) c (attrNameCtx c [47] false) t f (2 * rest.length + 4) w b
      ([] ++ ([62] ++ out)) (by simp) ?_ ?_ (by simp [hst]) (by simp [attrNameCtx]) (Or.inl (by simp)) hf0 hinv.1 ?_
    · rw [cat_plain' c _ hdn hsp (by simp)]
      simp only [transition, hst]
      have := tTag_slash c w' rest hw
      simpa using this
    · exact rewriteStep_intag pre _ _ c _ w b (by simp [hst]) (by simp [hst]) hrc1
    · intro f1 hf1
      refine chunk0M (pre ++ (w' ++ [47])) [] ([62] ++ rest) (attrNameCtx c [47] false)
        { (attrNameCtx c [47] false) with state := .tag } (run t (w' ++ [47])) f1 (2 * rest.length + 3) w b
        ([62] ++ out) (by simp) ?_ ?_ (by simp [attrNameCtx]) (by simp) (Or.inr (by simp [attrNameCtx]))
        (by omega) (by have := hinv.1; simp; omega) ?_
      · rw [List.nil_append, cat_plain' (attrNameCtx c [47] false) _ rfl hsp2 (by simp)]
        simp only [transition, attrNameCtx]
        exact tAfterName_tag _ [] 62 rest rfl (by decide) (by decide)
      · exact rewriteStep_intag (pre ++ (w' ++ [47])) [] _ (attrNameCtx c [47] false) _ w b (by simp [attrNameCtx])
          (by simp [attrNameCtx]) (Or.inr (by simp))
      · intro f2 hf2
        refine chunk0 (pre ++ (w' ++ [47]) ++ []) [62] rest { (attrNameCtx c [47] false) with state := .tag }
          (tagEndCtx { (attrNameCtx c [47] false) with state := .tag }) (run (run t (w' ++ [47])) []) f2 (afterTag en) w b out
          (by simp) ?_ ?_ (by simp) (tagEndCtx_state _).1 (Or.inl (by simp))
          (by rw [need_afterTag]; omega)
          (by have := hinv.1; simp; omega) ?_
        · rw [cat_plain' ({ (attrNameCtx c [47] false) with state := .tag } : Ctx) _ rfl hsp2 (by simp)]
          simp only [transition]
          exact tTag_gt _ [] rest rfl
        · exact rewriteStep_intag (pre ++ (w' ++ [47]) ++ []) _ _ ({ (attrNameCtx c [47] false) with state := .tag } : Ctx) _ w b (by simp) (by simp) hrc2
        · intro f3 hf3
          refine ih (tagEndCtx ({ (attrNameCtx c [47] false) with state := .tag } : Ctx)) _ _ f3 w b (by rw [tagEndCtx_afterTag]; exact congrArg afterTag hce) (tagEndCtx_state _).2 ?_ hf3
              ⟨by have := hinv.1; simp; omega, hinv.2.1, fun h0 => absurd h0 (tagEndCtx_state _).1⟩
              (after_elem _ en en' hce hee)
              (fun _ h => absurd h (afterTag_not_inTag en)) (hjs_next (hjs_next (hjs_next hjs)))
          rw [run_nil, ← run_append]
          have := rel_selfClose c { (attrNameCtx c [47] false) with state := .tag } t w' hst hr hw rfl
          simpa using this
  | bodyText en body hb hne hsj =>
    intro c t pre f w b hst hdl hr hf hinv hen hlt hjs
    have hr' := hr
    simp only [Rel, hst] at hr'
    have hce : c.elemName = en := hen (by simp [hst]) (by simp [hst])
    rw [← List.append_nil body] at hf hjs
    have := chunk0J (se := .specialBody) pre body [] c c t f (need .specialBody []) w b [] (by simpa using hne) ?_ ?_
      (hjs_body c _ js (fun h => hsj (hce ▸ h)) hjs) (by simp [hst]) (Or.inl hne) (need_step _ _ _ _ _ hne hf) hinv.1 ?_
    · simpa using this
    · rw [List.append_nil]; exact cat_body c body hst hr'.1 hb hne
    · exact rewriteStep_intag pre body [] c c w b (by simp [hst]) (by simp [hst]) (Or.inr hb)
    · intro f' hf'
      exact good_nil' _ c _ f' w b (rel_body c t body hst hr hb) (need_pos _ _ _ hf')
        (Inv_next pre body c c w b hinv (by simp [hst])) hst
  | bodyThen en body c0 nm x rest out hb hne hnm hx hsj hrest ih =>
    intro c t pre f w b hst hdl hr hf hinv hen hlt hjs
    have hr' := hr
    simp only [Rel, hst] at hr'
    have hce : c.elemName = en := hen (by simp [hst]) (by simp [hst])
    have e : body ++ 60 :: 47 :: c0 :: nm ++ x :: rest = body ++ (60 :: 47 :: c0 :: nm ++ x :: rest) := by simp
    rw [e] at hf hjs ⊢
    refine chunk0J pre body (60 :: 47 :: c0 :: nm ++ x :: rest) c c t f (need .specialBody _) w b out
      (append_ne_nil_left _ _ hne) ?_ ?_ (hjs_body c _ js (fun h => hsj (hce ▸ h)) hjs) (by simp [hst]) (Or.inl hne)
      (need_step _ _ _ _ _ hne hf) hinv.1 ?_
    · have := cat_body_then c body (c0 :: nm) x rest hst hr'.1 hr'.2.1 (hnm.trans hce.symm) hb hne hx
      simpa using this
    · exact rewriteStep_intag pre body _ c c w b (by simp [hst]) (by simp [hst]) (Or.inr hb)
    · intro f' hf'
      exact ih _ _ _ f' w b hst hdl (rel_body c t body hst hr hb) hf' (Inv_next pre body c c w b hinv (by simp [hst]))
        hen (fun _ h => absurd h (by simp [InTagState])) (hjs_next hjs)
  | @bodyClose se en c0 nm x rest out hc hn hnm hsp hx hsj hrest ih =>
    intro c t pre f w b hst hdl hr hf hinv hen hlt hjs
    have hr' := hr
    simp only [Rel, hst] at hr'
    have hce : c.elemName = en := hen (by simp [hst]) (by simp [hst])
    have e : 60 :: 47 :: c0 :: nm ++ x :: rest = [] ++ ((60 :: 47 :: c0 :: nm) ++ (x :: rest)) := by simp
    have e' : 60 :: 47 :: c0 :: nm ++ out = [] ++ ((60 :: 47 :: c0 :: nm) ++ out) := by simp
    have hlen : (60 :: 47 :: c0 :: nm ++ x :: rest).length = nm.length + rest.length + 4 := by simp; omega
    have hf0 : 2 * rest.length + 4 + 1 ≤ f := by
      simp only [need, hlen] at hf; simp at hf; omega
    rw [e] at hjs ⊢
    rw [e']
    refine chunk0J pre [] ((60 :: 47 :: c0 :: nm) ++ (x :: rest)) c {} t f (2 * rest.length + 4) w b _
      (by simp) ?_ ?_ (hjs_body c _ js (fun h => hsj (hce ▸ h)) hjs) (by simp) (Or.inr (by simp [hst])) hf0 hinv.1 ?_
    · have := cat_body_close c (c0 :: nm) x rest hr'.1 hr'.2.1 (hnm.trans hce.symm) hx
      simpa using this
    · exact rewriteStep_intag pre [] _ c _ w b (by simp [hst]) (by simp [hst]) (Or.inr (by simp))
    · intro f1 hf1
      have hsne : ([] : Bytes) ++ 60 :: 47 :: c0 :: nm ≠ [] := by simp
      have := chunk0 (se := se) (pre ++ []) ([] ++ 60 :: 47 :: c0 :: nm) (x :: rest) {} { state := .tag, elemName := [] }
        (run t []) f1 .tag w b out (by simp) ?_ ?_ (by simp) (by simp) (Or.inl hsne)
        (by simp only [need]; simp; omega) (by have := hinv.1; simp; omega) ?_
      · simpa using this
      · rw [cat_plain ({} : Ctx) _ rfl (by decide) (by simp)]
        simp only [transition]
        exact tText_close {} [] c0 nm (x :: rest) (by simp) hc (alpha_alnum nm hn) (by simp [headNot, sep_not_cont hx])
      · exact rewriteStep_text_lt (pre ++ []) [] (47 :: c0 :: nm) (x :: rest) {} _ w b rfl (by simp) (by simp)
          (fun b hb => by
            rcases List.mem_cons.1 hb with rfl | hb
            · decide
            · rcases List.mem_cons.1 hb with rfl | hb
              · exact alpha_ne60 hc
              · exact alnum_ne60 nm (alpha_alnum nm hn) b hb)
      · intro f2 hf2
        refine ih _ _ _ f2 w b rfl rfl ?_ hf2
          ⟨by have := hinv.1; simp; omega, hinv.2.1, fun h0 => by simp at h0⟩
          (fun _ _ => rfl) (fun h => absurd h (by decide)) (hjs_next (hjs_next hjs))
        have := rel_bodyClose c t c0 nm hst hr hc hn (hnm.trans hce.symm)
        simpa [run_nil] using this

/-! ### the result -/

/-- the engine's scan of one static text node (`escaper.escapeText`, CSP check off): the context after the node
    and the text that is emitted in its place; `none` = the Go code would panic / loop -/
def scan (c : Ctx) (s : Bytes) : Option (Ctx × Bytes) :=
  match escapeText false c s with
  | .done c' none => some (c', s)
  | .done c' (some b) => some (c', b)
  | .panic => none

/-- total version: a panic counts as an error context (which is related to no tokenizer state) -/
def scanD (c : Ctx) (s : Bytes) : Ctx × Bytes := (scan c s).getD (Ctx.errorCtx .badHTML, s)

theorem rel_not_error {c : Ctx} {t : T} (h : Rel c t) : c.state ≠ .error := by
  intro he; simp [Rel, he] at h

/-- from the loop to `scan` -/
theorem good_scan (c : Ctx) (t : T) (s out : Bytes) (se : State)
    (h : Good [] s c t (2 * s.length + 2) 0 [] out se) :
    ∃ c', scan c s = some (c', out) ∧ c'.state = se ∧ Rel c' (run t out) := by
  obtain ⟨c', w', b', h1, h2, h3, h4, h5⟩ := h
  refine ⟨c', ?_, h5, h4⟩
  simp only [List.nil_append, List.length_nil, List.drop_nil, List.append_nil] at h1 h2 h3
  have hne := rel_not_error h4
  by_cases hw : w' = 0
  · have hb := h2.2.1 hw
    subst hw
    rw [hb] at h3
    simp only [List.drop_zero, List.nil_append] at h3
    subst h3
    simp [scan, escapeText, h1]
  · by_cases hcm : c'.state = .htmlCmt ∧ c'.delim = .none
    · have := h2.2.2 hcm.1
      rw [this, List.drop_length, List.append_nil] at h3
      simp [scan, escapeText, h1, hw, isComment, hcm.1, hcm.2, h3]
    · have hb : (!isComment c'.state || c'.delim != .none) = true := by
        simp only [isComment]
        by_cases h5 : c'.state = .htmlCmt
        · have : c'.delim ≠ .none := fun h6 => hcm ⟨h5, h6⟩
          simp [h5, this]
        · simp [h5]
      simp [scan, escapeText, h1, hw, hne, hb, h3]

/-- **Layer 3, partial** (with the emitted text made explicit): on a simple static text `s` the engine's scan ends
    normally, emits `out` and ends in engine state `se` (both as specified by the grammar), and the context it infers
    is `Rel`-related to the state
    of the HTML tokenizer after `out`. Side conditions: inside the start tag of a special element the text node has
    no `<`; if a script body is traversed (`js = true`) the text node passes the JS template balance check. -/
theorem layer3_simple (js : Bool) (c : Ctx) (t : T) (s out : Bytes) (se : State) (hr : Rel c t)
    (hs : Simple js c.elemName c.state c.delim s out se)
    (hlt : memKey specialElements c.elemName = true → InTagState c.state → ∀ x ∈ s, x ≠ 60)
    (hjs : js = true → isJsTemplateBalanced s = true) :
    ∃ c', scan c s = some (c', out) ∧ c'.state = se ∧ Rel c' (run t out) :=
  good_scan c t s out se (loop_simple hs c t [] (2 * s.length + 2) 0 [] rfl rfl hr (need_le _ _)
    ⟨Nat.le_refl _, fun _ => rfl, fun _ => rfl⟩ (fun _ _ => rfl) hlt (by simpa using hjs))

/-- **Layer 3, partial**: `Rel c t → Simple s → let (c', out) := scan of s from c; Rel c' (run t out)` -/
theorem layer3_partial (js : Bool) (c : Ctx) (t : T) (s out : Bytes) (se : State) (hr : Rel c t)
    (hs : Simple js c.elemName c.state c.delim s out se)
    (hlt : memKey specialElements c.elemName = true → InTagState c.state → ∀ x ∈ s, x ≠ 60)
    (hjs : js = true → isJsTemplateBalanced s = true) :
    let (c', out') := scanD c s
    out' = out ∧ c'.state = se ∧ Rel c' (run t out') := by
  obtain ⟨c', h1, h2, h3⟩ := layer3_simple js c t s out se hr hs hlt hjs
  simp only [scanD, h1, Option.getD_some]
  exact ⟨trivial, h2, h3⟩

/-! ### the preservation lemmas (a)–(d), stated on their own -/

theorem strayOK_no60 (s : Bytes) (h : ∀ b ∈ s, b ≠ 60) : strayOK s = true := by
  have := strayOK_skip s [] h
  simpa [strayOK] using this

theorem scan_nil (c : Ctx) (t : T) (hr : Rel c t) :
    ∃ c', scan c [] = some (c', []) ∧ c'.state = c.state ∧ Rel c' (run t []) :=
  layer3_simple false c t [] [] _ hr (Simple.nil _ _ _) (fun _ _ x hx => by simp at hx) (fun h => by simp at h)

/-- (a) element content: a static text without `<` keeps the correspondence, and is emitted unchanged -/
theorem layer3_a_text (c : Ctx) (t : T) (txt : Bytes) (hr : Rel c t) (hs : c.state = .text)
    (h : ∀ b ∈ txt, b ≠ 60) : ∃ c', scan c txt = some (c', txt) ∧ c'.state = .text ∧ Rel c' (run t txt) := by
  by_cases hne : txt = []
  · subst hne; simpa [hs] using scan_nil c t hr
  · have hd : c.delim = .none := by simp only [Rel, hs] at hr; exact hr.1
    have := layer3_simple false c t txt (escLt txt) .text hr
      (by rw [hs, hd]; exact Simple.text _ txt (strayOK_no60 txt h) hne)
      (fun _ hi => by simp [InTagState, hs] at hi) (fun h => by simp at h)
    rwa [escLt_no60 txt h] at this

/-- (a′) element content with stray `<` (each followed by a byte that is not a letter, `/`, `!`): the engine
    emits `&lt;` for them, and the correspondence holds for the emitted text -/
theorem layer3_a_text_stray (c : Ctx) (t : T) (txt : Bytes) (hr : Rel c t) (hs : c.state = .text)
    (h : strayOK txt = true) :
    ∃ c', scan c txt = some (c', escLt txt) ∧ c'.state = .text ∧ Rel c' (run t (escLt txt)) := by
  by_cases hne : txt = []
  · subst hne; simpa [hs, escLt] using scan_nil c t hr
  · have hd : c.delim = .none := by simp only [Rel, hs] at hr; exact hr.1
    exact layer3_simple false c t txt (escLt txt) .text hr
      (by rw [hs, hd]; exact Simple.text _ txt h hne)
      (fun _ hi => by simp [InTagState, hs] at hi) (fun h => by simp at h)

/-- (a) inside a quoted attribute value: a static text without the quote keeps the correspondence
    (inside the start tag of script/style/textarea/title the text must not contain `<`) -/
theorem layer3_a_attr (c : Ctx) (t : T) (v : Bytes) (hr : Rel c t) (hs : c.state = .attr)
    (hd : c.delim = .dq ∨ c.delim = .sq) (h : ∀ b ∈ v, b ≠ quoteOf c.delim)
    (hlt : memKey specialElements c.elemName = true → ∀ b ∈ v, b ≠ 60) :
    ∃ c', scan c v = some (c', v) ∧ c'.state = .attr ∧ Rel c' (run t v) := by
  by_cases hne : v = []
  · subst hne; simpa [hs] using scan_nil c t hr
  · exact layer3_simple false c t v v .attr hr (by rw [hs]; exact Simple.val _ _ v hd h hne)
      (fun h1 _ => hlt h1) (fun h => by simp at h)

/-- reading `Rel` backwards: a tokenizer inside a quoted attribute value of a start tag determines the engine's
    state, delimiter, element name and attribute name -/
theorem rel_inv_attr (c : Ctx) (t : T) (h : Rel c t) (hst : t.st = .attrValueDq ∨ t.st = .attrValueSq)
    (hend : t.isEnd = false) :
    c.state = .attr ∧ (t.st = .attrValueDq → c.delim = .dq) ∧ (t.st = .attrValueSq → c.delim = .sq) ∧
    c.elemName = t.name.reverse ∧ c.attrName = t.an.reverse := by
  have hne : ∀ s : St, t.st = s → s ≠ .attrValueDq → s ≠ .attrValueSq → False := by
    intro s h1 h2 h3; rcases hst with h | h <;> rw [h1] at h
    · exact h2 h
    · exact h3 h
  cases hc : c.state <;> simp only [Rel, hc] at h
  · exact (hne _ h.2.2 (by simp) (by simp)).elim
  · have := nextSt_special h.2.1
    rcases this with h' | h' | h' <;> exact (hne _ (h.2.2.2.trans h') (by simp) (by simp)).elim
  · rcases h.2.2 with (h' | h' | h') | ⟨k, h', _⟩ | h' <;> exact (hne _ h' (by simp) (by simp)).elim
  · exact (hne _ h.2.2.1 (by simp) (by simp)).elim
  · rcases h.2.2.1 with h' | h' <;> exact (hne _ h' (by simp) (by simp)).elim
  · exact (hne _ h.2.2.1 (by simp) (by simp)).elim
  · exact (hne _ h.2.2 (by simp) (by simp)).elim
  · obtain ⟨⟨_, hn⟩, han, hd⟩ := h
    refine ⟨rfl, ?_, ?_, ?_, han.symm⟩
    · intro h1; rcases hd with ⟨hd, _⟩ | ⟨_, h2⟩
      · exact hd
      · rw [h1] at h2; cases h2
    · intro h1; rcases hd with ⟨_, h2⟩ | ⟨hd, _⟩
      · rw [h1] at h2; cases h2
      · exact hd
    · by_cases he : c.elemName = []
      · rw [if_pos he, hend] at hn; cases hn
      · rw [if_neg he] at hn; exact hn.2.symm

/-- (b) closing the quote: `v ++ [q]` moves both sides to "after the attribute value, in the tag" -/
theorem layer3_b_quote (c : Ctx) (t : T) (v : Bytes) (hr : Rel c t) (hs : c.state = .attr)
    (hd : c.delim = .dq ∨ c.delim = .sq) (h : ∀ b ∈ v, b ≠ quoteOf c.delim)
    (hlt : memKey specialElements c.elemName = true → ∀ b ∈ v, b ≠ 60) :
    ∃ c', scan c (v ++ [quoteOf c.delim]) = some (c', v ++ [quoteOf c.delim]) ∧ c'.state = .tag ∧
      Rel c' (run t (v ++ [quoteOf c.delim])) ∧ (run t (v ++ [quoteOf c.delim])).st = .afterAttrValueQ := by
  have hq60 : quoteOf c.delim ≠ 60 := by rcases hd with h | h <;> simp [h, quoteOf]
  obtain ⟨c', h1, h2, h3⟩ := layer3_simple false c t _ _ .tag hr
    (by rw [hs]; exact Simple.closeQ _ _ v [] [] hd h (Simple.nil _ _ _))
    (fun h1 _ x hx => by
      rcases List.mem_append.1 hx with hx | hx
      · exact hlt h1 x hx
      · simp at hx; rw [hx]; exact hq60) (fun h => by simp at h)
  refine ⟨c', h1, h2, h3, ?_⟩
  simp only [Rel, hs] at hr
  obtain ⟨_, _, hst⟩ := hr
  have hv1 := run_val t c.delim v hst h
  rw [run_append, run_cons, run_nil]
  have h1 : (run t v).st = t.st := view_st hv1
  rcases hst with ⟨hd', h'⟩ | ⟨hd', h'⟩
  · rw [hd']; exact view_st (step_attrValueDq_q _ (h1.trans h'))
  · rw [hd']; exact view_st (step_attrValueSq_q _ (h1.trans h'))

/-- (c) a complete simple start tag `<name>` (a letter, then letters/digits; `plainName`: not script, style,
    textarea, title, xmp, iframe, noembed, noframes, noscript, plaintext), from element content to element content -/
theorem layer3_c_tag (c : Ctx) (t : T) (c0 : Nat) (nm : Bytes) (hr : Rel c t) (hs : c.state = .text)
    (hc : isAlpha c0 = true) (hn : nm.all asciiAlphaNum = true) (hp : plainName ((c0 :: nm).map lower) = true) :
    ∃ c', scan c (60 :: c0 :: nm ++ [62]) = some (c', 60 :: c0 :: nm ++ [62]) ∧ c'.state = .text ∧
      Rel c' (run t (60 :: c0 :: nm ++ [62])) ∧ (run t (60 :: c0 :: nm ++ [62])).st = .data := by
  have hd : c.delim = .none := by simp only [Rel, hs] at hr; exact hr.1
  have hsp := (plainName_spec hp).1
  have hat : afterTag ((c0 :: nm).map lower) = .text := by unfold afterTag; rw [hsp]; rfl
  obtain ⟨c', h1, h2, h3⟩ := layer3_simple false c t _ _ .text hr
    (by rw [hs, hd]
        exact Simple.openTag _ [] c0 nm [62] [62] (by decide) hc hn (by unfold okName; rw [hp]; rfl)
          (fun h => by rw [hsp] at h; cases h)
          (Simple.tagEnd _ [] [] [] [] (by decide) (fun h => by rw [hsp] at h; cases h)
            (by rw [hat]; exact Simple.nil _ _ _)))
    (fun _ hi => by simp [InTagState, hs] at hi) (fun h => by simp at h)
  refine ⟨c', h1, h2, h3, ?_⟩
  simp only [Rel, h2] at h3
  exact h3.2.2

/-- (d) `<name attr="` or `<name attr='`: tag name, white space, attribute name, `=`, quote: from element content
    into the quoted value; both sides agree on the (lower-cased) element and attribute names -/
theorem layer3_d_attr (c : Ctx) (t : T) (c0 : Nat) (nm w an : Bytes) (d : Delim) (hr : Rel c t) (hs : c.state = .text)
    (hc : isAlpha c0 = true) (hn : nm.all asciiAlphaNum = true) (hp : plainName ((c0 :: nm).map lower) = true)
    (hw : allWs w = true) (hwn : w ≠ []) (ha : an.all attrNameByte = true) (hane : an ≠ [])
    (hd : d = .dq ∨ d = .sq) :
    let s := 60 :: c0 :: nm ++ (w ++ an ++ (61 :: [quoteOf d]))
    ∃ c', scan c s = some (c', s) ∧ c'.state = .attr ∧ c'.delim = d ∧ c'.elemName = (c0 :: nm).map lower ∧
      c'.attrName = an.map lower ∧ Rel c' (run t s) ∧
      (run t s).st = (if d = .dq then .attrValueDq else .attrValueSq) := by
  intro s
  have hdl : c.delim = .none := by simp only [Rel, hs] at hr; exact hr.1
  have hsp := (plainName_spec hp).1
  obtain ⟨c', h1, h2, h3⟩ := layer3_simple false c t s s .attr hr
    (by rw [hs, hdl]
        exact Simple.openTag _ [] c0 nm _ _ (by decide) hc hn (by unfold okName; rw [hp]; rfl)
          (fun h => by rw [hsp] at h; cases h)
          (Simple.attrNm _ w an _ _ hw hwn ha hane (by simp)
            (Simple.eq _ [] _ _ (by decide) (Simple.quote _ d [] [] [] hd (by decide) (Simple.nil _ _ _)))))
    (fun _ hi => by simp [InTagState, hs] at hi) (fun h => by simp at h)
  -- the tokenizer side, computed independently
  have hdata : t.st = .data := by simp only [Rel, hs] at hr; exact hr.2.2
  have e : s = (([] : Bytes) ++ 60 :: c0 :: nm) ++ ((w ++ an) ++ ([61] ++ [quoteOf d])) := by simp [s]
  have v1 := view_open t [] c0 nm hdata (by simp) hc hn
  have v2 := view_attrNm (run t ([] ++ 60 :: c0 :: nm)) w an (Or.inl (Or.inl (view_st v1))) hw hwn ha hane
  have v3 := step_attrName_eq (run (run t ([] ++ 60 :: c0 :: nm)) (w ++ an)) (view_st v2)
  have v4 : view (run t s) = ⟨if d = .dq then .attrValueDq else .attrValueSq, false, (c0 :: nm).map lower,
      an.map lower, t.lastStart⟩ := by
    rw [e, run_append, run_append, run_append, run_cons, run_nil, run_cons, run_nil]
    rcases hd with rfl | rfl
    · show view (step 4 _ 34) = _
      rw [step_beforeAttrValue_dq _ (view_st v3), v3, v2, v1]; simp
    · show view (step 4 _ 39) = _
      rw [step_beforeAttrValue_sq _ (view_st v3), v3, v2, v1]; simp
  have hst : (run t s).st = (if d = .dq then .attrValueDq else .attrValueSq) := view_st v4
  have hinv := rel_inv_attr c' (run t s) h3
    (by rw [hst]; rcases hd with rfl | rfl <;> simp) (view_isEnd v4 :)
  refine ⟨c', h1, h2, ?_, ?_, ?_, h3, hst⟩
  · rcases hd with rfl | rfl
    · exact hinv.2.1 (by rw [hst]; simp)
    · exact hinv.2.2.1 (by rw [hst]; simp)
  · rw [hinv.2.2.2.1]; exact (view_name v4 :)
  · rw [hinv.2.2.2.2]; exact (view_an v4 :)

/-! ### a text node that starts with an attribute name -/

/-- (e) inside a tag, when the tokenizer is known to be between attributes (`beforeAttrName` / `afterAttrName`, e.g.
    the previous text node ended with white space: `<a ` + `href="`), a text node may start with the attribute name
    itself. (The grammar `Simple` asks for white space first because it only sees the engine context, and the
    engine's `tag` state also covers the position right after a tag name, where this would be a split name.) -/
theorem layer3_tag_attr (js : Bool) (c : Ctx) (t : T) (nm rest out : Bytes) (se : State) (hr : Rel c t)
    (hst : c.state = .tag) (ht : t.st = .beforeAttrName ∨ t.st = .afterAttrName)
    (hn : nm.all attrNameByte = true) (hne : nm ≠ []) (hrne : rest ≠ [])
    (hs : Simple js c.elemName .afterName .none rest out se)
    (hlt : memKey specialElements c.elemName = true → ∀ x ∈ nm ++ rest, x ≠ 60)
    (hjs : js = true → isJsTemplateBalanced (nm ++ rest) = true) :
    ∃ c', scan c (nm ++ rest) = some (c', nm ++ out) ∧ c'.state = se ∧ Rel c' (run t (nm ++ out)) := by
  apply good_scan
  obtain ⟨hdn, hsp, hrc⟩ := intag_facts c t (nm ++ rest) hr (by simp [hst, InTagState]) hlt
  have hdn := hdn (by simp [hst])
  have hie : rest.isEmpty = false := by cases rest with
    | nil => exact absurd rfl hrne
    | cons x l => rfl
  have hrel : Rel (attrNameCtx c nm false) (run t nm) := by
    have hr' := hr
    simp only [Rel, hst] at hr'
    obtain ⟨_, hin, _⟩ := hr'
    obtain ⟨x, nm', rfl⟩ := List.exists_cons_of_ne_nil hne
    simp only [List.all_cons, Bool.and_eq_true] at hn
    have h1 : view (step 4 t x) = { view t with st := .attrName, an := [lower x] } := by
      rcases ht with h | h
      · exact step_beforeAttrName_nb t x h hn.1
      · exact step_afterAttrName_nb t x h hn.1
    have hv : view (run t (x :: nm')) = { view t with st := .attrName, an := (x :: nm').map lower } := by
      rw [run_cons, run_attrName_nb nm' _ (view_st h1) hn.2, h1]; simp
    simp only [Rel, attrNameCtx, Bool.false_eq_true, if_false]
    exact ⟨trivial, InTag_view c _ t _ rfl (view_isEnd hv :) (view_name hv :) hin, Or.inl (view_st hv), (view_an hv :)⟩
  refine chunk0 [] nm rest c (attrNameCtx c nm false) t _ .afterName 0 [] out
    (append_ne_nil_left _ _ hne) ?_ ?_ (by simp [hst]) (by simp [attrNameCtx]) (Or.inl hne)
    (need_step .tag _ _ _ _ hne (need_le _ _)) (Nat.le_refl _) ?_
  · rw [cat_plain' c _ hdn hsp (append_ne_nil_left _ _ hne)]
    simp only [transition, hst]
    have := tTag_name c [] nm rest rfl hn hne (simple_afterName_head hs)
    rw [hie] at this
    simpa using this
  · exact rewriteStep_intag [] nm rest c _ 0 [] (by simp [hst]) (by simp [hst]) (or_sub hrc (by mem_tac))
  · intro f' hf'
    exact loop_simple hs (attrNameCtx c nm false) (run t nm) ([] ++ nm) f' 0 [] (by simp [attrNameCtx]) rfl hrel hf'
      ⟨Nat.zero_le _, fun _ => rfl, fun h0 => by simp [attrNameCtx] at h0⟩ (fun _ _ => rfl)
      (fun h _ x hx => hlt h x (by simp [hx])) (by simpa using hjs)

/-! ### non-vacuity: derivations for concrete texts -/

theorem rel_init : Rel {} {} := by simp [Rel]; decide

/-- `<a href="` (from element content into a double-quoted value) -/
def exHref : Bytes := [60, 97, 32, 104, 114, 101, 102, 61, 34]
example : B "<a href=\"" = exHref := by decide +kernel

theorem ex_a_href (js : Bool) : Simple js [] .text .none exHref exHref .attr :=
  Simple.openTag [] [] 97 [] _ _ (by decide) (by decide) (by decide) (by decide) (by decide)
    (Simple.attrNm _ [32] [104, 114, 101, 102] _ _ (by decide) (by decide) (by decide) (by decide) (by decide)
      (Simple.eq _ [] _ _ (by decide) (Simple.quote _ .dq [] [] [] (Or.inl rfl) (by decide) (Simple.nil _ _ _))))

/-- hence the engine's context after `<a href="` is related to the tokenizer state after it -/
theorem ex_a_href_rel : ∃ c', scan {} exHref = some (c', exHref) ∧ c'.state = .attr ∧ Rel c' (run {} exHref) :=
  layer3_simple false {} {} _ _ _ rel_init (ex_a_href _) (fun h => absurd h (by decide)) (fun h => absurd h (by decide))

/-- `x">link</a>` (the text node after an action inside `<a href="…`) -/
def exClose : Bytes := [120, 34, 62, 108, 105, 110, 107, 60, 47, 97, 62]
example : B "x\">link</a>" = exClose := by decide +kernel

theorem ex_close (js : Bool) : Simple js [97] .attr .dq exClose exClose .text :=
  Simple.closeQ _ .dq [120] _ _ (Or.inl rfl) (by decide)
    (Simple.tagEnd _ [] [] _ _ (by decide) (fun h => absurd h (by decide))
      (Simple.closeTag _ [108, 105, 110, 107] 97 [] _ _ (by decide) (by decide) (by decide)
        (Simple.tagEnd _ [] [] _ _ (by decide) (fun h => absurd h (by decide)) (Simple.nil _ _ _))))

/-- `<input disabled>` and `<br/>` -/
def exInput : Bytes := [60, 105, 110, 112, 117, 116, 32, 100, 105, 115, 97, 98, 108, 101, 100, 62, 60, 98, 114, 47, 62]
example : B "<input disabled><br/>" = exInput := by decide +kernel

theorem ex_input (js : Bool) : Simple js [] .text .none exInput exInput .text :=
  Simple.openTag [] [] 105 [110, 112, 117, 116] _ _ (by decide) (by decide) (by decide) (by decide) (by decide)
    (Simple.attrNm _ [32] [100, 105, 115, 97, 98, 108, 101, 100] _ _ (by decide) (by decide) (by decide) (by decide)
      (by decide)
      (Simple.bareEnd _ [] [] _ _ (by decide) (fun h => absurd h (by decide))
        (Simple.openTag [] [] 98 [114] _ _ (by decide) (by decide) (by decide) (by decide) (by decide)
          (Simple.selfClose _ [] [] _ _ (by decide) (fun h => absurd h (by decide)) (Simple.nil _ _ _)))))

/-- `a < b <!-- c --> d`: the stray `<` is emitted as `&lt;`, the comment is dropped -/
def exCmt : Bytes := [97, 32, 60, 32, 98, 32, 60, 33, 45, 45, 32, 99, 32, 45, 45, 62, 32, 100]
def exCmtOut : Bytes := [97, 32, 38, 108, 116, 59, 32, 98, 32, 32, 100]
example : B "a < b <!-- c --> d" = exCmt := by decide +kernel
example : B "a &lt; b  d" = exCmtOut := by decide +kernel

theorem ex_cmt (js : Bool) : Simple js [] .text .none exCmt exCmtOut .text :=
  Simple.cmtOpen [] [97, 32, 60, 32, 98, 32] _ _ (by decide)
    (Simple.cmtClose _ [32, 99, 32] _ _ (by decide) (Simple.text _ [32, 100] (by decide) (by decide)))

theorem ex_cmt_rel : ∃ c', scan {} exCmt = some (c', exCmtOut) ∧ c'.state = .text ∧ Rel c' (run {} exCmtOut) :=
  layer3_simple false {} {} _ _ _ rel_init (ex_cmt _) (fun h => absurd h (by decide)) (fun h => absurd h (by decide))

/-- `<title>` and, in the next text node, `x</title>` -/
def exTitle : Bytes := [60, 116, 105, 116, 108, 101, 62]
def exTitleEnd : Bytes := [120, 60, 47, 116, 105, 116, 108, 101, 62]
example : B "<title>" = exTitle := by decide +kernel
example : B "x</title>" = exTitleEnd := by decide +kernel

theorem ex_title (js : Bool) : Simple js [] .text .none exTitle exTitle .specialBody :=
  Simple.openTag [] [] 116 [105, 116, 108, 101] _ _ (by decide) (by decide) (by decide) (by decide) (by decide)
    (Simple.tagEnd _ [116, 105, 116, 108, 101] [] [] _ (by decide) (fun _ => rfl) (Simple.nil _ _ _))

theorem ex_title_end (js : Bool) :
    Simple js [116, 105, 116, 108, 101] .specialBody .none exTitleEnd exTitleEnd .text :=
  Simple.bodyThen _ [120] 116 [105, 116, 108, 101] 62 [] _ (by decide) (by decide) (by decide) (by decide)
    (fun h => absurd h (by decide))
    (Simple.bodyClose _ 116 [105, 116, 108, 101] 62 [] _ (by decide) (by decide) (by decide) (by decide) (by decide)
      (fun h => absurd h (by decide))
      (Simple.tagEnd _ [] [] [] _ (by decide) (fun h => absurd h (by decide)) (Simple.nil _ _ _)))

/-- `<script>var x = ` (needs `js = true`) -/
def exScript : Bytes := [60, 115, 99, 114, 105, 112, 116, 62, 118, 97, 114, 32, 120, 32, 61, 32]
example : B "<script>var x = " = exScript := by decide +kernel

theorem ex_script : Simple true [] .text .none exScript exScript .specialBody :=
  Simple.openTag [] [] 115 [99, 114, 105, 112, 116] _ _ (by decide) (by decide) (by decide) (by decide) (by decide)
    (Simple.tagEnd _ [115, 99, 114, 105, 112, 116] [] _ _ (by decide) (fun _ => rfl)
      (Simple.bodyText _ [118, 97, 114, 32, 120, 32, 61, 32] (by decide) (by decide) (fun _ => rfl)))

theorem ex_script_rel :
    ∃ c', scan {} exScript = some (c', exScript) ∧ c'.state = .specialBody ∧ Rel c' (run {} exScript) :=
  layer3_simple true {} {} _ _ _ rel_init ex_script (fun h => absurd h (by decide)) (fun _ => by decide +kernel)


theorem ex_tag_rel : Rel { state := .tag, elemName := [97] } (run {} [60, 97, 32]) := by
  simp only [Rel, InTag]
  refine ⟨trivial, ⟨by decide, ?_⟩, Or.inl (Or.inr (Or.inl (by decide +kernel)))⟩
  rw [if_neg (by decide)]
  exact ⟨by decide +kernel, by decide +kernel⟩

/-- `href="` in the text node after `<a ` (the tokenizer is in `beforeAttrName`) -/
theorem ex_tag_attr : ∃ c', scan { state := .tag, elemName := [97] } [104, 114, 101, 102, 61, 34] =
      some (c', [104, 114, 101, 102, 61, 34]) ∧ c'.state = .attr ∧
      Rel c' (run (run {} [60, 97, 32]) [104, 114, 101, 102, 61, 34]) :=
  layer3_tag_attr false { state := .tag, elemName := [97] } (run {} [60, 97, 32]) [104, 114, 101, 102] [61, 34]
    [61, 34] .attr ex_tag_rel rfl (Or.inl (by decide +kernel)) (by decide) (by decide)
    (by decide)
    (Simple.eq _ [] _ _ (by decide) (Simple.quote _ .dq [] [] [] (Or.inl rfl) (by decide) (Simple.nil _ _ _)))
    (fun h => absurd h (by decide)) (fun h => by simp at h)

/-- `a</script\r>b` in the text node after `<script>`: CR after the end tag name. (Before library fix 3cb107b
    `tagEndSeparators` had no CR and the engine stayed in the script body while the tokenizer left it.) -/
def exScriptOpen : Bytes := [60, 115, 99, 114, 105, 112, 116, 62]
def exScriptCR : Bytes := [97, 60, 47, 115, 99, 114, 105, 112, 116, 13, 62, 98]
example : B "<script>" = exScriptOpen := by decide +kernel
example : B "a</script\r>b" = exScriptCR := by decide +kernel

theorem ex_script_cr : Simple true scriptName .specialBody .none exScriptCR exScriptCR .text :=
  Simple.bodyThen _ [97] 115 [99, 114, 105, 112, 116] 13 [62, 98] _ (by decide) (by decide) (by decide) (by decide)
    (fun _ => rfl)
    (Simple.bodyClose _ 115 [99, 114, 105, 112, 116] 13 [62, 98] _ (by decide) (by decide) (by decide) (by decide)
      (by decide) (fun _ => rfl)
      (Simple.tagEnd _ [] [13] [98] [98] (by decide) (fun h => absurd h (by decide))
        (Simple.text _ [98] (by decide) (by decide))))

theorem ex_script_body_rel : Rel { state := .specialBody, elemName := scriptName } (run {} exScriptOpen) := by
  simp only [Rel]
  exact ⟨trivial, by decide, by decide +kernel, by decide +kernel⟩

/-- the engine is back in the text context and the tokenizer back in the data state after `</script\r>b` -/
theorem ex_script_cr_rel :
    ∃ c', scan { state := .specialBody, elemName := scriptName } exScriptCR = some (c', exScriptCR) ∧
      c'.state = .text ∧ Rel c' (run (run {} exScriptOpen) exScriptCR) :=
  layer3_simple true { state := .specialBody, elemName := scriptName } (run {} exScriptOpen) _ _ _
    ex_script_body_rel ex_script_cr (fun _ hi => by simp [InTagState] at hi) (fun _ => by decide +kernel)

/-- the same text in one node, evaluated in the kernel on both definitions (outside the grammar: the node contains
    `<` after a special start tag) -/
example : ((scanD {} (exScriptOpen ++ exScriptCR)).1.state, (run {} (exScriptOpen ++ exScriptCR)).st) =
    (State.text, St.data) := by decide +kernel


/-- `<td colspan=2>x`: an unquoted attribute value in static text -/
def exUnq : Bytes := [60, 116, 100, 32, 99, 111, 108, 115, 112, 97, 110, 61, 50, 62, 120]
example : B "<td colspan=2>x" = exUnq := by decide +kernel

theorem ex_unq (js : Bool) : Simple js [] .text .none exUnq exUnq .text :=
  Simple.openTag [] [] 116 [100] _ _ (by decide) (by decide) (by decide) (by decide) (by decide)
    (Simple.attrNm _ [32] [99, 111, 108, 115, 112, 97, 110] _ _ (by decide) (by decide) (by decide) (by decide)
      (by decide)
      (Simple.eq _ [] _ _ (by decide)
        (Simple.unq _ [] [50] [62, 120] _ (by decide) (by decide) (by decide) (by decide)
          (Simple.tagEnd _ [] [] [120] _ (by decide) (fun h => absurd h (by decide))
            (Simple.text _ [120] (by decide) (by decide))))))

theorem ex_unq_rel : ∃ c', scan {} exUnq = some (c', exUnq) ∧ c'.state = .text ∧ Rel c' (run {} exUnq) :=
  layer3_simple false {} {} _ _ _ rel_init (ex_unq _) (fun h => absurd h (by decide)) (fun h => absurd h (by decide))

/-! ### what is not covered, and why

Excluded because the correspondence is FALSE there (each checked with `#eval` on the two definitions):

* tag name continued by a byte that is not a letter/digit, white space, `/` or `>`: `<a_b>`: engine element `a` with
  attribute `_b`, tokenizer element `a_b`; `<script_x>a`: the engine is in the script body, the tokenizer in data.
  (`openTag` requires what follows the name to be simple for the in-tag state.)
* `/` inside an attribute name: `<a x/y="`: engine attribute `x/y`, tokenizer attributes `x` and `y` (`attrNameByte`).
* non-ASCII attribute names: the engine lower-cases with `strings.ToLower` (U+212A KELVIN SIGN becomes `k`), the
  tokenizer lower-cases ASCII only (`attrNameByte` requires `< 128`).
* a name split over two text nodes: the engine does not extend the tag/attribute name (`<s` + `cript>`, `<a hr` + `ef=`):
  from `tag` a text must start with white space, `>` or `/>`; from `attrName` with white space, `=` or `>` (`nameEnd`).
* raw-text elements the engine does not know (xmp, iframe, noembed, noframes, noscript, plaintext), excluded by
  `plainName`; script "escaped"/"double escaped" states (`<!--<script>` inside a script body): body text in the
  fragment has no `<`.

Repaired in the library after this analysis (fix 3cb107b): CR was missing from `tagEndSeparators`, so after
`<script>a</script\r>b` the engine stayed in the script body while the tokenizer (CR is white space) closed the
element. `sepByte` now is `>`, HTML white space or `/`, the same bytes on both sides (`tagEndSeparators_spec`), and
`ex_script_cr_rel` is the example.

Not covered although probably true (not needed / not attempted): a text node that ends inside an unquoted attribute
value (unquoted values are covered only when they are complete static text, constructor `unq`; the engine refuses
actions in them); inside the grammar, a text
node starting with an attribute name (`<a ` + `href=`: the grammar depends only on the engine context, and the engine's
`tag` state also covers the position right after a tag name; `layer3_tag_attr` covers this case with the extra
hypothesis that the tokenizer is between attributes);
`<` inside a special element's start tag or body (the engine then searches the rest of the text node for the end tag);
`<!DOCTYPE`, `<?`, `</` + non-letter (bogus comments); the CSP checks (`csp = false`).
-/

end SafeHtml.Proofs.Layer3
