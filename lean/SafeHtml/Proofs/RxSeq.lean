/-
Byte-level matching lemmas for the shapes that occur in the repo's patterns: a concatenation of
single classes (literals, case-insensitive literals), and `C+D` with `D` disjoint from `C`.
-/
import SafeHtml.Proofs.RxAscii
import SafeHtml.Spec.TruUrl
namespace SafeHtml
namespace Rx

/-- a regex that is a concatenation of single classes: the classes, left to right -/
def clsSeq : Re → Option (List (List (Nat × Nat)))
  | .cls rs => some [rs]
  | .eps => some []
  | .cat a b =>
    match clsSeq a, clsSeq b with
    | some x, some y => some (x ++ y)
    | _, _ => none
  | _ => none

def matchSeq : List (List (Nat × Nat)) → Bytes → Bool
  | [], _ => true
  | _ :: _, [] => false
  | rs :: cs, b :: t => inCls rs b && matchSeq cs t

theorem matchSeq_length_le (x : List (List (Nat × Nat))) (s : Bytes) (h : matchSeq x s = true) :
    x.length ≤ s.length := by
  induction x generalizing s with
  | nil => simp
  | cons r x ih =>
    cases s with
    | nil => simp [matchSeq] at h
    | cons b t =>
      simp only [matchSeq, Bool.and_eq_true] at h
      have := ih t h.2
      simp only [List.length_cons]; omega

theorem matchSeq_append (x y : List (List (Nat × Nat))) (s : Bytes) :
    matchSeq (x ++ y) s = (matchSeq x s && matchSeq y (s.drop x.length)) := by
  induction x generalizing s with
  | nil => simp [matchSeq]
  | cons r x ih =>
    cases s with
    | nil => simp [matchSeq]
    | cons b t =>
      simp only [List.cons_append, matchSeq, List.length_cons, List.drop_succ_cons, ih, Bool.and_assoc]

theorem lensB_clsSeq (r : Re) (cs : List (List (Nat × Nat))) (h : clsSeq r = some cs) (s : Bytes) :
    lensB r s = if matchSeq cs s then [cs.length] else [] := by
  induction r generalizing cs s with
  | eps =>
    simp only [clsSeq, Option.some.injEq] at h; subst h
    simp [lensB, matchSeq]
  | cls rs =>
    simp only [clsSeq, Option.some.injEq] at h; subst h
    cases s with
    | nil => simp [lensB, matchSeq]
    | cons c t => simp [lensB, matchSeq]
  | cat a b iha ihb =>
    simp only [clsSeq] at h
    cases ha : clsSeq a with
    | none => simp [ha] at h
    | some x =>
      cases hb : clsSeq b with
      | none => simp [ha, hb] at h
      | some y =>
        simp only [ha, hb, Option.some.injEq] at h; subst h
        simp only [lensB]
        rw [iha x ha s, matchSeq_append]
        by_cases h1 : matchSeq x s = true
        · simp only [h1, if_true, List.flatMap_cons, List.flatMap_nil, List.append_nil, Bool.true_and]
          rw [ihb y hb]
          split <;> simp
        · simp [h1]
  | alt a b _ _ => simp [clsSeq] at h
  | star a g _ => simp [clsSeq] at h
  | bot => simp [clsSeq] at h
  | eot => simp [clsSeq] at h
  | cap _ _ _ => simp [clsSeq] at h

/-- the class the translator prints for a literal byte under ASCII case-insensitivity -/
def ciCls (l : Nat) : List (Nat × Nat) := if isLowerAlpha l then [(l - 32, l - 32), (l, l)] else [(l, l)]

theorem inCls_ciCls (l c : Nat) (hl : isUpperAlpha l = false) :
    inCls (ciCls l) c = (asciiLower c == l) := by
  unfold ciCls asciiLower isLowerAlpha
  simp only [isUpperAlpha] at hl ⊢
  rw [Bool.eq_iff_iff]
  by_cases h1 : (decide (97 ≤ l) && decide (l ≤ 122)) = true <;>
    by_cases h2 : (decide (65 ≤ c) && decide (c ≤ 90)) = true <;>
    simp only [h1, h2, if_true] <;> simp [inCls] at * <;> omega

theorem matchSeq_ciCls (lit : Bytes) (hl : ∀ l ∈ lit, isUpperAlpha l = false) (s : Bytes) :
    matchSeq (lit.map ciCls) s = Spec.TruUrl.ciPrefix lit s := by
  induction lit generalizing s with
  | nil => simp [matchSeq, Spec.TruUrl.ciPrefix]
  | cons l ls ih =>
    cases s with
    | nil => simp [matchSeq, Spec.TruUrl.ciPrefix]
    | cons c t =>
      simp only [List.map_cons, matchSeq, Spec.TruUrl.ciPrefix]
      rw [inCls_ciCls l c (hl l (by simp)), ih (fun x hx => hl x (by simp [hx]))]

theorem inCls_single (l c : Nat) : inCls [(l, l)] c = (l == c) := by
  rw [Bool.eq_iff_iff]
  simp [inCls]; omega

theorem matchSeq_exact (lit : Bytes) (s : Bytes) :
    matchSeq (lit.map fun l => [(l, l)]) s = lit.isPrefixOf s := by
  induction lit generalizing s with
  | nil => simp [matchSeq]
  | cons l ls ih =>
    cases s with
    | nil => simp [matchSeq]
    | cons c t =>
      simp only [List.map_cons, matchSeq, List.isPrefixOf]
      rw [inCls_single, ih]

def headIn (rs : List (Nat × Nat)) : Bytes → Bool
  | [] => false
  | b :: _ => inCls rs b

theorem lensB_cls_eq (D : List (Nat × Nat)) (u : Bytes) :
    lensB (.cls D) u = if headIn D u then [1] else [] := by
  cases u with
  | nil => simp [lensB, headIn]
  | cons b u => by_cases h : inCls D b = true <;> simp [lensB, headIn, h]

theorem headIn_drop_of_lt_spanB (C : List (Nat × Nat)) (t : Bytes) (m : Nat) (h : m < spanB C t) :
    headIn C (t.drop m) = true := by
  induction t generalizing m with
  | nil => simp [spanB] at h
  | cons c t ih =>
    simp only [spanB] at h
    split at h
    · rename_i hc
      cases m with
      | zero => simpa [headIn] using hc
      | succ m => simp only [List.drop_succ_cons]; exact ih m (by omega)
    · omega

theorem headIn_disjoint (C D : List (Nat × Nat)) (hd : ∀ b, inCls D b = true → inCls C b = false)
    (u : Bytes) (h : headIn C u = true) : headIn D u = false := by
  cases u with
  | nil => rfl
  | cons b u =>
    simp only [headIn] at h ⊢
    cases hD : inCls D b with
    | false => rfl
    | true => rw [hd b hD] at h; exact absurd h (by simp)

/-- `C+D` with `D` disjoint from `C`: the only possible match is the whole run of `C` followed by one `D` -/
theorem lensB_plus_then (C D : List (Nat × Nat)) (hd : ∀ b, inCls D b = true → inCls C b = false) (t : Bytes) :
    lensB (.cat (Re.plus (.cls C) true) (.cls D)) t =
      if 1 ≤ spanB C t && headIn D (t.drop (spanB C t)) then [spanB C t + 1] else [] := by
  cases t with
  | nil => simp [Re.plus, lensB, spanB]
  | cons c t' =>
    simp only [Re.plus, lensB, spanB]
    by_cases hc : inCls C c = true
    · simp only [hc, if_true, List.flatMap_cons, List.flatMap_nil, List.append_nil,
        List.drop_succ_cons, List.drop_zero]
      rw [List.range_succ, List.reverse_append]
      simp only [List.reverse_cons, List.reverse_nil, List.nil_append, List.singleton_append,
        List.map_cons, List.flatMap_cons, lensB_cls_eq]
      have h2 : List.flatMap (fun n => List.map (fun x => n + x)
            (if headIn D (List.drop n (c :: t')) = true then [1] else []))
          (List.map (fun x => 1 + x) (List.range (spanB C t')).reverse) = [] := by
        rw [List.flatMap_eq_nil_iff]
        intro n hn
        simp only [List.mem_map, List.mem_reverse, List.mem_range] at hn
        obtain ⟨m, hm, rfl⟩ := hn
        rw [Nat.add_comm 1 m, List.drop_succ_cons,
          headIn_disjoint C D hd _ (headIn_drop_of_lt_spanB C t' m hm)]
        simp
      rw [h2, Nat.add_comm 1 (spanB C t'), List.drop_succ_cons]
      by_cases h3 : headIn D (List.drop (spanB C t') t') = true <;> simp [h3]
    · simp [hc]

theorem spanB_eq_takeWhile (rs : List (Nat × Nat)) (t : Bytes) :
    spanB rs t = (t.takeWhile (inCls rs)).length := by
  induction t with
  | nil => simp [spanB]
  | cons c t ih =>
    simp only [spanB, List.takeWhile_cons]
    split <;> simp [ih]

/-- concatenation after a pattern with at most one match length -/
theorem lensB_cat_single (a b : Re) (s : Bytes) (c : Bool) (n : Nat)
    (h : lensB a s = if c then [n] else []) :
    lensB (.cat a b) s = if c then (lensB b (s.drop n)).map (n + ·) else [] := by
  simp only [lensB]
  rw [h]
  cases c <;> simp

end Rx
end SafeHtml
