/-
A verified check that one list of inclusive ranges is contained in the union of another
(`covers a b = true → every x in a range of b is in a range of a`). Used with `decide` on the
regenerated Go tables, in both directions. Core Lean only.
-/
import SafeHtml.Basic.Bytes
namespace SafeHtml.RangeCover

def inRanges (rs : List (Nat × Nat)) (c : Nat) : Bool := rs.any fun r => r.1 ≤ c && c ≤ r.2

/-- is `[lo, hi]` contained in the union of the ranges of `a` (walks `a` at most `fuel` times) -/
def covered (a : List (Nat × Nat)) : Nat → Nat → Nat → Bool
  | 0, _, _ => false
  | f+1, lo, hi =>
    match a.find? (fun r => r.1 ≤ lo && lo ≤ r.2) with
    | none => false
    | some r => if hi ≤ r.2 then true else covered a f (r.2 + 1) hi

def covers (a b : List (Nat × Nat)) : Bool :=
  b.all fun r => decide (r.2 < r.1) || covered a (a.length + 1) r.1 r.2

/-- first point of `b` not covered by `a` (the witness when `covers` fails) -/
def firstUncoveredIn (a : List (Nat × Nat)) : Nat → Nat → Nat → Option Nat
  | 0, lo, _ => some lo
  | f+1, lo, hi =>
    match a.find? (fun r => r.1 ≤ lo && lo ≤ r.2) with
    | none => some lo
    | some r => if hi ≤ r.2 then none else firstUncoveredIn a f (r.2 + 1) hi

def firstUncovered (a b : List (Nat × Nat)) : Option Nat :=
  b.findSome? fun r => if r.2 < r.1 then none else firstUncoveredIn a (a.length + 1) r.1 r.2

theorem covered_sound (a : List (Nat × Nat)) : ∀ (f lo hi : Nat), covered a f lo hi = true →
    ∀ x, lo ≤ x → x ≤ hi → inRanges a x = true := by
  intro f
  induction f with
  | zero => intro lo hi h; simp [covered] at h
  | succ f ih =>
    intro lo hi h x hlo hhi
    simp only [covered] at h
    cases hfind : a.find? (fun r => r.1 ≤ lo && lo ≤ r.2) with
    | none => rw [hfind] at h; simp at h
    | some r =>
      rw [hfind] at h
      have hmem := List.mem_of_find?_eq_some hfind
      have hp := List.find?_some hfind
      simp only [Bool.and_eq_true, decide_eq_true_eq] at hp
      by_cases hx : x ≤ r.2
      · simp only [inRanges, List.any_eq_true, Bool.and_eq_true, decide_eq_true_eq]
        exact ⟨r, hmem, by omega, hx⟩
      · have hhi' : ¬ hi ≤ r.2 := by omega
        simp only [hhi', if_false] at h
        exact ih _ _ h x (by omega) hhi

theorem covers_sound (a b : List (Nat × Nat)) (h : covers a b = true) :
    ∀ x, inRanges b x = true → inRanges a x = true := by
  intro x hx
  simp only [inRanges, List.any_eq_true, Bool.and_eq_true, decide_eq_true_eq] at hx
  obtain ⟨r, hr, h1, h2⟩ := hx
  have := List.all_eq_true.1 h r hr
  simp only [Bool.or_eq_true, decide_eq_true_eq] at this
  rcases this with h3 | h3
  · omega
  · exact covered_sound a _ _ _ h3 x h1 h2

theorem inRanges_append (a b : List (Nat × Nat)) (x : Nat) :
    inRanges (a ++ b) x = (inRanges a x || inRanges b x) := by
  simp [inRanges, List.any_append]

end SafeHtml.RangeCover
