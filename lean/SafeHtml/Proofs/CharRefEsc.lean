/-
On escaper output (`Spec.Esc`) the full WHATWG character-reference decoder (`Spec.CharRef.decodeAttr` /
`decodeText`, over the whole named-entity table) and the five-reference decoder `Spec.unescape5` agree.
Corollary: the URL-start theorem of C02 restated with the full decoder.
Core Lean only.
-/
import SafeHtml.Spec.Esc
import SafeHtml.Spec.CharRef
import SafeHtml.Props.C02
import SafeHtml.Props.C10
namespace SafeHtml.Proofs.CharRefEsc
open SafeHtml SafeHtml.Spec SafeHtml.Spec.CharRef

/-! ### table lookups on the concrete keys

`EntityTable.lookup` is a binary search over the `Array` `table = chunk0 ++ … ++ chunk17`; the kernel evaluates
`Array.append` by repeated `push` (quadratic), so the search is first transported to the list
`chunk0.toList ++ … ++ chunk17.toList`, where `decide +kernel` takes a few seconds. -/

open SafeHtml.Generated.Entities SafeHtml.EntityTable in
def tableList : List (Nat × Nat × Nat) :=
  chunk0.toList ++ chunk1.toList ++ chunk2.toList ++ chunk3.toList ++ chunk4.toList ++ chunk5.toList ++
  chunk6.toList ++ chunk7.toList ++ chunk8.toList ++ chunk9.toList ++ chunk10.toList ++ chunk11.toList ++
  chunk12.toList ++ chunk13.toList ++ chunk14.toList ++ chunk15.toList ++ chunk16.toList ++ chunk17.toList

theorem table_toList : Generated.Entities.table.toList = tableList := by
  simp only [Generated.Entities.table, Array.toList_append, tableList]

/-- `EntityTable.bsearch` over a list -/
def bsearchL (l : List (Nat × Nat × Nat)) (k : Nat) : Nat → Nat → Nat → Option (Nat × Nat)
  | 0, _, _ => none
  | f+1, lo, hi =>
    if lo < hi then
      let mid := (lo + hi) / 2
      let e := (l[mid]?).getD default
      if e.1 == k then some e.2
      else if e.1 < k then bsearchL l k f (mid + 1) hi
      else bsearchL l k f lo mid
    else none

theorem table_get (i : Nat) :
    Generated.Entities.table[i]! = (Generated.Entities.table.toList[i]?).getD default := by
  rw [getElem!_def, Array.getElem?_toList]
  cases Generated.Entities.table[i]? <;> rfl

theorem bsearch_eq (k : Nat) : ∀ f lo hi,
    EntityTable.bsearch k f lo hi = bsearchL Generated.Entities.table.toList k f lo hi
  | 0, _, _ => rfl
  | f+1, lo, hi => by
    unfold EntityTable.bsearch bsearchL
    simp only [table_get, bsearch_eq k f]

theorem lookup_eq (name : Bytes) :
    EntityTable.lookup name = bsearchL tableList (nameKey name) 40 0 tableList.length := by
  unfold EntityTable.lookup
  rw [bsearch_eq, ← Array.length_toList, table_toList]

theorem lookup_amp_semi : EntityTable.lookup [97, 109, 112, 59] = some (38, 0) := by
  rw [lookup_eq]; decide +kernel
theorem lookup_lt_semi : EntityTable.lookup [108, 116, 59] = some (60, 0) := by
  rw [lookup_eq]; decide +kernel
theorem lookup_gt_semi : EntityTable.lookup [103, 116, 59] = some (62, 0) := by
  rw [lookup_eq]; decide +kernel

theorem encodeEntity_ascii1 : encodeEntity (38, 0) = [38] := by decide
theorem encodeEntity_ascii2 : encodeEntity (60, 0) = [60] := by decide
theorem encodeEntity_ascii3 : encodeEntity (62, 0) = [62] := by decide

/-! ### `consume` on the five reference bodies, for EVERY continuation -/

/-- the named-reference branch with a `;`-terminated table entry; table lookup kept abstract -/
theorem consume_named (attr : Bool) (c : Nat) (t : Bytes) (k : Nat) (e : Nat × Nat) (u : Bytes)
    (hc : c ≠ 35) (hk : alnumRun (c :: t) = k + 1)
    (hd : (c :: t).drop (k + 1) = 59 :: u)
    (key : Bytes) (hkey : (c :: t).take (k + 1) ++ [59] = key) (hl : EntityTable.lookup key = some e) :
    consume attr (c :: t) = (encodeEntity e, k + 2) := by
  unfold consume
  split
  · next heq => cases heq
  · next heq => cases heq; exact absurd rfl hc
  · subst hkey
    simp only [hk, hd, hl]
    simp

theorem consume_amp (attr : Bool) (rest : Bytes) :
    consume attr (97 :: 109 :: 112 :: 59 :: rest) = ([38], 4) := by
  rw [consume_named attr 97 _ 2 (38, 0) rest (by decide) rfl rfl [97, 109, 112, 59] rfl lookup_amp_semi, encodeEntity_ascii1]

theorem consume_lt (attr : Bool) (rest : Bytes) :
    consume attr (108 :: 116 :: 59 :: rest) = ([60], 3) := by
  rw [consume_named attr 108 _ 1 (60, 0) rest (by decide) rfl rfl [108, 116, 59] rfl lookup_lt_semi, encodeEntity_ascii2]

theorem consume_gt (attr : Bool) (rest : Bytes) :
    consume attr (103 :: 116 :: 59 :: rest) = ([62], 3) := by
  rw [consume_named attr 103 _ 1 (62, 0) rest (by decide) rfl rfl [103, 116, 59] rfl lookup_gt_semi, encodeEntity_ascii3]

theorem digits_34 (rest : Bytes) : digits decVal 10 (51 :: 52 :: 59 :: rest) 0 0 = (34, 2) := rfl
theorem digits_39 (rest : Bytes) : digits decVal 10 (51 :: 57 :: 59 :: rest) 0 0 = (39, 2) := rfl

theorem enc_34 : Utf8.encodeRune (numericCodePoint 34) = [34] := by decide
theorem enc_39 : Utf8.encodeRune (numericCodePoint 39) = [39] := by decide

theorem consume_34 (attr : Bool) (rest : Bytes) :
    consume attr (35 :: 51 :: 52 :: 59 :: rest) = ([34], 4) := by
  unfold consume
  simp [digits_34, enc_34]

theorem consume_39 (attr : Bool) (rest : Bytes) :
    consume attr (35 :: 51 :: 57 :: 59 :: rest) = ([39], 4) := by
  unfold consume
  simp [digits_39, enc_39]

/-! ### `refAt` determines `consume` -/

theorem prefix_split (p t : Bytes) (h : p.isPrefixOf t = true) : ∃ rest, t = p ++ rest := by
  obtain ⟨r, hr⟩ := List.isPrefixOf_iff_prefix.1 h
  exact ⟨r, hr.symm⟩

theorem consume_of_refAt (attr : Bool) (t : Bytes) (b n : Nat) (h : refAt t = some (b, n)) :
    consume attr t = ([b], n) := by
  unfold refAt fiveRefs at h
  simp only [List.find?_cons] at h
  split at h
  · next r hr =>
    split at hr
    · next hp =>
      obtain ⟨rest, rfl⟩ := prefix_split _ _ hp
      cases hr; cases h; exact consume_amp attr rest
    · split at hr
      · next hp =>
        obtain ⟨rest, rfl⟩ := prefix_split _ _ hp
        cases hr; cases h; exact consume_lt attr rest
      · split at hr
        · next hp =>
          obtain ⟨rest, rfl⟩ := prefix_split _ _ hp
          cases hr; cases h; exact consume_gt attr rest
        · split at hr
          · next hp =>
            obtain ⟨rest, rfl⟩ := prefix_split _ _ hp
            cases hr; cases h; exact consume_34 attr rest
          · split at hr
            · next hp =>
              obtain ⟨rest, rfl⟩ := prefix_split _ _ hp
              cases hr; cases h; exact consume_39 attr rest
            · simp at hr
  · cases h

/-! ### skip counter vs. `drop`; `Esc` is suffix-closed -/

theorem unescape5Go_skip : ∀ (n : Nat) (t : Bytes), unescape5Go n t = unescape5Go 0 (t.drop n)
  | 0, t => by simp
  | n+1, [] => by simp [unescape5Go]
  | n+1, _ :: t => by
    simp only [unescape5Go, List.drop_succ_cons]
    exact unescape5Go_skip n t

theorem Esc_tail (c : Nat) (t : Bytes) (h : Esc (c :: t) = true) : Esc t = true := by
  unfold Esc at h
  simp only [Bool.and_eq_true] at h
  exact h.2

theorem Esc_drop : ∀ (n : Nat) (t : Bytes), Esc t = true → Esc (t.drop n) = true
  | 0, t, h => by simpa using h
  | n+1, [], h => by simpa using h
  | n+1, c :: t, h => by
    simp only [List.drop_succ_cons]
    exact Esc_drop n t (Esc_tail c t h)

/-! ### the two decoders agree on `Esc` -/

theorem decodeAux_eq (attr : Bool) : ∀ (f : Nat) (s : Bytes), Esc s = true → s.length ≤ f →
    decodeAux attr f s = unescape5Go 0 s
  | 0, s, _, hl => by
    have : s = [] := List.eq_nil_of_length_eq_zero (Nat.le_zero.1 hl)
    subst this
    simp [decodeAux, unescape5Go]
  | f+1, [], _, _ => by simp [decodeAux, unescape5Go]
  | f+1, c :: t, he, hl => by
    have het := Esc_tail c t he
    have hlt : t.length ≤ f := by simp only [List.length_cons] at hl; omega
    unfold decodeAux unescape5Go
    by_cases hc : (c == 38) = true
    · simp only [hc, if_true]
      unfold Esc at he
      simp only [hc, if_true, Bool.and_eq_true] at he
      cases hr : refAt t with
      | none => rw [hr] at he; simp at he
      | some p =>
        obtain ⟨b, n⟩ := p
        rw [consume_of_refAt attr t b n hr]
        simp only [List.cons_append, List.nil_append]
        rw [unescape5Go_skip n t]
        rw [decodeAux_eq attr f (t.drop n) (Esc_drop n t het) (by rw [List.length_drop]; omega)]
    · simp only [hc, if_false, Bool.false_eq_true]
      rw [decodeAux_eq attr f t het hlt]

/-- on escaper output the WHATWG attribute-value character-reference decoder is the five-reference decoder -/
theorem decodeAttr_eq_unescape5 (o : Bytes) (h : Spec.Esc o = true) :
    Spec.CharRef.decodeAttr o = Spec.unescape5 o :=
  decodeAux_eq true o.length o h (Nat.le_refl _)

/-- the same in the data state (text) -/
theorem decodeText_eq_unescape5 (o : Bytes) (h : Spec.Esc o = true) :
    Spec.CharRef.decodeText o = Spec.unescape5 o :=
  decodeAux_eq false o.length o h (Nat.le_refl _)

/-- on `Esc` the "consumed as part of an attribute" rule makes no difference -/
theorem decodeAttr_eq_decodeText (o : Bytes) (h : Spec.Esc o = true) :
    Spec.CharRef.decodeAttr o = Spec.CharRef.decodeText o := by
  rw [decodeAttr_eq_unescape5 o h, decodeText_eq_unescape5 o h]

/-! ### C02 URL start with the full decoder -/

open SafeHtml.Model SafeHtml.Model.Tmpl SafeHtml.Spec.UrlScheme in
/-- **URL start, full decoder.** The attribute value obtained by the WHATWG character-reference decoder (whole
    named-entity table, numeric references, attribute rule) from the output of the URL-start chain never has the
    `javascript` scheme. -/
theorem C02_url_start_full (s : Bytes) :
    ∃ out, runChain ["_sanitizeURL", fnNormalizeURL, fnHTML] (.str s) = .ok (.str out) ∧
      whatwgScheme (Spec.CharRef.decodeAttr out) ≠ some javascript := by
  obtain ⟨out, hrun, _, hjs⟩ := SafeHtml.Props.C02.C02_url_start s
  refine ⟨out, hrun, ?_⟩
  have heq := SafeHtml.Props.C02.url_chain_eq s
  rw [hrun] at heq
  have hout : out = htmlEscaped (normalizeURL (urlSanitized s)) := by
    injection heq with h1; injection h1
  have hesc : Spec.Esc out = true := by rw [hout]; exact SafeHtml.Props.C10.C10_inert _
  rw [decodeAttr_eq_unescape5 out hesc]
  exact hjs

end SafeHtml.Proofs.CharRefEsc
