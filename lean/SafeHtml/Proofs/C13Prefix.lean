/-
C13 helper lemmas: the regenerated prefix regex means the four documented forms (ASCII reading),
and what a safe prefix implies.
-/
import SafeHtml.Model.Tru
import SafeHtml.Spec.TruUrl
import SafeHtml.Proofs.RxSeq
namespace SafeHtml.Proofs.C13
open SafeHtml SafeHtml.Rx SafeHtml.Model SafeHtml.Spec.Rfc3986 SafeHtml.Spec.TruUrl
open SafeHtml.Generated.Regexes

theorem originSlash_cons47 (c : Nat) (u : Bytes) : originSlash (c :: 47 :: u) = isOriginByte c := by
  simp [originSlash]

theorem originSlash_cons_ne (c d : Nat) (u : Bytes) (h : d ≠ 47) :
    originSlash (c :: d :: u) = (isOriginByte c && originSlash (d :: u)) := by
  rw [originSlash]
  intro tail heq; simp at heq; omega

theorem originSlash_single (c : Nat) : originSlash [c] = false := by
  simp [originSlash]

theorem originSlashLen_cons47 (c : Nat) (u : Bytes) :
    originSlashLen (c :: 47 :: u) = if isOriginByte c then some 2 else none := by
  simp [originSlashLen]

theorem originSlashLen_cons_ne (c d : Nat) (u : Bytes) (h : d ≠ 47) :
    originSlashLen (c :: d :: u) = if isOriginByte c then (originSlashLen (d :: u)).map (· + 1) else none := by
  rw [originSlashLen]
  intro tail heq; simp at heq; omega

theorem originSlashLen_single (c : Nat) : originSlashLen [c] = none := by
  simp [originSlashLen]

theorem originSlashLen_isSome (t : Bytes) : (originSlashLen t).isSome = originSlash t := by
  induction t with
  | nil => rfl
  | cons c t ih =>
    cases t with
    | nil => simp [originSlashLen_single, originSlash_single]
    | cons d u =>
      by_cases h : d = 47
      · subst h; rw [originSlashLen_cons47, originSlash_cons47]; cases isOriginByte c <;> rfl
      · rw [originSlashLen_cons_ne _ _ _ h, originSlash_cons_ne _ _ _ h, ← ih]
        cases isOriginByte c <;> simp

/-- the `<origin>/` part: within the string, made of origin bytes and one final slash (so no `%`) -/
theorem originSlashLen_spec (t : Bytes) (n : Nat) (h : originSlashLen t = some n) :
    2 ≤ n ∧ n ≤ t.length ∧ (∀ b ∈ t.take (n - 1), isOriginByte b = true) ∧ (t.drop (n - 1)).head? = some 47 := by
  induction t generalizing n with
  | nil => simp [originSlashLen] at h
  | cons c t ih =>
    cases t with
    | nil => simp [originSlashLen_single] at h
    | cons d u =>
      by_cases hd : d = 47
      · subst hd
        rw [originSlashLen_cons47] at h
        cases hc : isOriginByte c with
        | false => simp [hc] at h
        | true =>
          simp [hc] at h; subst h
          simp [hc]
      · rw [originSlashLen_cons_ne _ _ _ hd] at h
        cases hc : isOriginByte c with
        | false => simp [hc] at h
        | true =>
          simp only [hc, if_true, Option.map_eq_some_iff] at h
          obtain ⟨m, hm, rfl⟩ := h
          obtain ⟨h1, h2, h3, h4⟩ := ih m hm
          obtain ⟨k, rfl⟩ : ∃ k, m = k + 1 := ⟨m - 1, by omega⟩
          simp only [Nat.add_sub_cancel] at h3 h4 ⊢
          refine ⟨by omega, by simp only [List.length_cons] at h2 ⊢; omega, ?_, ?_⟩
          · intro b hb
            simp only [List.take_succ_cons, List.mem_cons] at hb
            rcases hb with rfl | hb
            · exact hc
            · exact h3 b hb
          · simpa using h4

theorem originSlashLen_take (t x : Bytes) (n : Nat) (h : originSlashLen t = some n) :
    originSlashLen (t.take n ++ x) = some n := by
  induction t generalizing n with
  | nil => simp [originSlashLen] at h
  | cons c t ih =>
    cases t with
    | nil => simp [originSlashLen_single] at h
    | cons d u =>
      by_cases hd : d = 47
      · subst hd
        rw [originSlashLen_cons47] at h
        cases hc : isOriginByte c with
        | false => simp [hc] at h
        | true =>
          simp [hc] at h; subst h
          simp [originSlashLen_cons47, hc]
      · rw [originSlashLen_cons_ne _ _ _ hd] at h
        cases hc : isOriginByte c with
        | false => simp [hc] at h
        | true =>
          simp only [hc, if_true, Option.map_eq_some_iff] at h
          obtain ⟨m, hm, rfl⟩ := h
          have h1 := (originSlashLen_spec _ m hm).1
          obtain ⟨k, rfl⟩ : ∃ k, m = k + 1 := ⟨m - 1, by omega⟩
          have := ih (k+1) hm
          simp only [List.take_succ_cons, List.cons_append] at this ⊢
          rw [originSlashLen_cons_ne _ _ _ hd, this]; simp [hc]

theorem netPathLen_isSome (u : Bytes) : (netPathLen u).isSome = netPath u := by
  unfold netPathLen netPath
  split <;> simp [originSlashLen_isSome]

theorem netPathLen_some (u : Bytes) (m : Nat) (h : netPathLen u = some m) :
    ∃ t k, u = 47 :: 47 :: t ∧ originSlashLen t = some k ∧ m = k + 2 := by
  unfold netPathLen at h
  split at h
  · rename_i t
    simp only [Option.map_eq_some_iff] at h
    obtain ⟨k, hk, rfl⟩ := h
    exact ⟨t, k, rfl, hk, rfl⟩
  · simp at h

theorem isOriginByte_ne37 (b : Nat) (h : isOriginByte b = true) : b ≠ 37 := by
  intro hb; subst hb; revert h; decide

theorem netPathLen_spec (u : Bytes) (m : Nat) (h : netPathLen u = some m) :
    4 ≤ m ∧ m ≤ u.length ∧ ∀ b ∈ u.take m, b ≠ 37 := by
  obtain ⟨t, k, rfl, hk, rfl⟩ := netPathLen_some u m h
  obtain ⟨h1, h2, h3, h4⟩ := originSlashLen_spec t k hk
  refine ⟨by omega, by simp; omega, ?_⟩
  intro b hb
  simp only [List.take_succ_cons, List.mem_cons] at hb
  rcases hb with rfl | rfl | hb
  · omega
  · omega
  · obtain ⟨j, rfl⟩ : ∃ j, k = j + 1 := ⟨k - 1, by omega⟩
    simp only [Nat.add_sub_cancel] at h3 h4
    rw [List.take_add, List.mem_append] at hb
    rcases hb with hb | hb
    · exact isOriginByte_ne37 b (h3 b hb)
    · cases hdr : t.drop j with
      | nil => simp [hdr] at hb
      | cons y ys =>
        simp only [hdr, List.head?_cons, Option.some.injEq] at h4 hb
        subst h4
        simp at hb; omega

theorem netPathLen_take (u x : Bytes) (m : Nat) (h : netPathLen u = some m) :
    netPathLen (u.take m ++ x) = some m := by
  obtain ⟨t, k, rfl, hk, rfl⟩ := netPathLen_some u m h
  have := originSlashLen_take t x k hk
  simp [netPathLen, this]

theorem ciPrefix_len (lit s : Bytes) (h : ciPrefix lit s = true) : lit.length ≤ s.length := by
  induction lit generalizing s with
  | nil => simp
  | cons l ls ih =>
    cases s with
    | nil => simp [ciPrefix] at h
    | cons c cs =>
      simp only [ciPrefix, Bool.and_eq_true] at h
      have := ih cs h.2
      simp; omega

theorem ciPrefix_take (lit s x : Bytes) (n : Nat) (h : ciPrefix lit s = true) (hn : lit.length ≤ n) :
    ciPrefix lit (s.take n ++ x) = true := by
  induction lit generalizing s n with
  | nil => simp [ciPrefix]
  | cons l ls ih =>
    cases s with
    | nil => simp [ciPrefix] at h
    | cons c cs =>
      simp only [ciPrefix, Bool.and_eq_true] at h
      obtain ⟨k, rfl⟩ : ∃ k, n = k + 1 := ⟨n - 1, by simp at hn; omega⟩
      simp only [List.take_succ_cons, List.cons_append, ciPrefix, Bool.and_eq_true]
      exact ⟨h.1, ih cs k h.2 (by simp at hn; omega)⟩

theorem ciPrefix_ne37 (lit s : Bytes) (h : ciPrefix lit s = true) (hl : ∀ l ∈ lit, l ≠ 37) :
    ∀ b ∈ s.take lit.length, b ≠ 37 := by
  induction lit generalizing s with
  | nil => simp
  | cons l ls ih =>
    cases s with
    | nil => simp
    | cons c cs =>
      simp only [ciPrefix, Bool.and_eq_true, beq_iff_eq] at h
      intro b hb
      simp only [List.length_cons, List.take_succ_cons, List.mem_cons] at hb
      rcases hb with rfl | hb
      · intro hb; subst hb
        have : asciiLower 37 = 37 := by decide
        rw [this] at h
        exact hl 37 (by simp [← h.1]) rfl
      · exact ih cs h.2 (fun l hl' => hl l (by simp [hl'])) b hb

/-- the three shapes of a safe prefix -/
theorem safePrefix_forms (s : Bytes) (h : safePrefix s = true) :
    (originPrefixLen s).isSome = true ∨ pathAbsolute s = true ∨ ciPrefix litAboutBlank s = true := by
  unfold safePrefix at h
  simp only [Bool.or_eq_true] at h
  rcases h with ((h | h) | h) | h
  · left; unfold originPrefixLen; rw [if_pos h]
    simp only [Bool.and_eq_true] at h
    simp [netPathLen_isSome, h.2]
  · left; unfold originPrefixLen
    split
    · rename_i h'
      simp only [Bool.and_eq_true] at h'
      simp [netPathLen_isSome, h'.2]
    · simp [netPathLen_isSome, h]
  · right; left; exact h
  · right; right; exact h

/-- the scheme-and-authority prefix lies within the string and contains no `%` (so no marker can
    start inside it) -/
theorem originPrefixLen_spec (s : Bytes) (n : Nat) (h : originPrefixLen s = some n) :
    n ≤ s.length ∧ ∀ b ∈ s.take n, b ≠ 37 := by
  unfold originPrefixLen at h
  split at h
  · rename_i hc
    simp only [Bool.and_eq_true] at hc
    simp only [Option.map_eq_some_iff] at h
    obtain ⟨m, hm, rfl⟩ := h
    obtain ⟨h1, h2, h3⟩ := netPathLen_spec _ m hm
    have hl := ciPrefix_len _ _ hc.1
    have h37 := ciPrefix_ne37 _ _ hc.1 (by decide)
    simp only [List.length_drop] at h2
    have hl6 : litHttps.length = 6 := rfl
    rw [hl6] at hl h37
    refine ⟨by omega, ?_⟩
    intro b hb
    rw [Nat.add_comm, List.take_add, List.mem_append] at hb
    rcases hb with hb | hb
    · exact h37 b hb
    · exact h3 b hb
  · obtain ⟨h1, h2, h3⟩ := netPathLen_spec _ n h
    exact ⟨h2, h3⟩

/-- `originPrefixLen` only looks at the first `n` bytes -/
theorem originPrefixLen_prefix (s x : Bytes) (n : Nat) (h : originPrefixLen s = some n) :
    originPrefixLen (s.take n ++ x) = some n := by
  unfold originPrefixLen at h
  split at h
  · rename_i hc
    simp only [Bool.and_eq_true] at hc
    simp only [Option.map_eq_some_iff] at h
    obtain ⟨m, hm, rfl⟩ := h
    have hl := ciPrefix_len _ _ hc.1
    have hl6 : litHttps.length = 6 := rfl
    rw [hl6] at hl
    have hci := ciPrefix_take litHttps s x (m + 6) hc.1 (by rw [hl6]; omega)
    have hdrop : (s.take (m + 6) ++ x).drop 6 = (s.drop 6).take m ++ x := by
      rw [List.drop_append_of_le_length (by simp; omega), List.drop_take]
      simp
    have hnp := netPathLen_take _ x m hm
    unfold originPrefixLen
    rw [hdrop, hci, ← netPathLen_isSome, hnp]
    simp
  · obtain ⟨t, k, rfl, hk, rfl⟩ := netPathLen_some s n h
    have hnp := netPathLen_take _ x _ h
    unfold originPrefixLen
    have : ciPrefix litHttps (List.take (k + 2) (47 :: 47 :: t) ++ x) = false := by
      simp only [List.take_succ_cons, List.cons_append, litHttps, ciPrefix]
      have : asciiLower 47 = 47 := by decide
      rw [this]; rfl
    rw [this]; simpa using hnp

/-! ### the regex -/

theorem inCls_slash (b : Nat) : inCls [(47, 47)] b = (b == 47) := by
  rw [Bool.eq_iff_iff]; simp [inCls]; omega

theorem inCls_origin (b : Nat) :
    inCls [(45, 46), (48, 58), (65, 91), (93, 93), (97, 122)] b = isOriginByte b := by
  rw [Bool.eq_iff_iff]
  simp [inCls, isOriginByte, isAlnum, isAlpha, isLowerAlpha, isUpperAlpha, isDigit]; omega

theorem inCls_pathStart (c : Nat) (h : c ≤ 1114111) :
    inCls [(0, 46), (48, 91), (93, 1114111)] c = (c != 47 && c != 92) := by
  rw [Bool.eq_iff_iff]; simp [inCls]; omega

theorem spanB_origin_slash (u : Bytes) :
    spanB [(45, 46), (48, 58), (65, 91), (93, 93), (97, 122)] (47 :: u) = 0 := by
  simp [spanB, inCls]

theorem originSlash_span (t : Bytes) :
    (decide (1 ≤ spanB [(45, 46), (48, 58), (65, 91), (93, 93), (97, 122)] t) &&
      headIn [(47, 47)] (t.drop (spanB [(45, 46), (48, 58), (65, 91), (93, 93), (97, 122)] t)))
      = originSlash t := by
  induction t with
  | nil => simp [spanB, originSlash, headIn]
  | cons c t ih =>
    cases t with
    | nil =>
      rw [originSlash_single]
      simp only [spanB]
      split <;> simp [headIn]
    | cons d u =>
      by_cases hd : d = 47
      · subst hd
        rw [originSlash_cons47, spanB, spanB_origin_slash, inCls_origin]
        cases isOriginByte c <;> simp [headIn, inCls]
      · rw [originSlash_cons_ne _ _ _ hd, ← ih, spanB, inCls_origin]
        cases hc : isOriginByte c with
        | false => simp
        | true =>
          simp only [if_true, List.drop_succ_cons, Bool.true_and]
          rw [spanB, inCls_origin]
          cases hdo : isOriginByte d with
          | true => simp
          | false => simp [headIn, inCls_slash, hd]

theorem netPath_eq (x : Bytes) :
    netPath x = (matchSeq [[(47, 47)], [(47, 47)]] x && originSlash (x.drop 2)) := by
  match x with
  | [] => simp [netPath, matchSeq]
  | [a] => simp [netPath, matchSeq]
  | a :: b :: t =>
    simp only [matchSeq, inCls_slash, List.drop_succ_cons, List.drop_zero, Bool.and_true]
    by_cases ha : a = 47
    · by_cases hb : b = 47
      · subst ha hb; simp [netPath]
      · have : netPath (a :: b :: t) = false := by
          unfold netPath; split
          · rename_i heq; simp at heq; omega
          · rfl
        simp [this, hb]
    · have : netPath (a :: b :: t) = false := by
        unfold netPath; split
        · rename_i heq; simp at heq; omega
        · rfl
      simp [this, ha]

theorem lensB_rest (x : Bytes) :
    (lensB (.cat (.cat (.cls [(47, 47)]) (.cls [(47, 47)]))
      (.cat (Rx.Re.plus (.cls [(45, 46), (48, 58), (65, 91), (93, 93), (97, 122)]) true) (.cls [(47, 47)]))) x).isEmpty
      = !netPath x := by
  have h1 := lensB_clsSeq (.cat (.cls [(47, 47)]) (.cls [(47, 47)])) [[(47, 47)], [(47, 47)]] rfl x
  rw [lensB_cat_single _ _ x _ _ h1]
  rw [lensB_plus_then _ _ (by
    intro b hb
    rw [inCls_slash] at hb
    simp at hb; subst hb; decide)]
  rw [originSlash_span, netPath_eq]
  simp only [List.length_cons, List.length_nil]
  cases matchSeq [[(47, 47)], [(47, 47)]] x <;> cases originSlash (List.drop 2 x) <;> simp

theorem isEmpty_append_aux {α} (l m : List α) : (l ++ m).isEmpty = (l.isEmpty && m.isEmpty) := by
  cases l <;> simp

theorem isEmpty_map_aux {α β} (f : α → β) (l : List α) : (l.map f).isEmpty = l.isEmpty := by
  cases l <;> simp

theorem lens_alt (a b : Re) (s : List Sym) : lens (.alt a b) s = lens a s ++ lens b s := by
  rw [lens]

theorem lensB_quest_cat (H REST : Re) (cs : List (List (Nat × Nat))) (hH : clsSeq H = some cs) (s : Bytes) :
    (lensB (.cat (Rx.Re.quest H true) REST) s).isEmpty =
      !((matchSeq cs s && !(lensB REST (s.drop cs.length)).isEmpty) || !(lensB REST s).isEmpty) := by
  have h1 := lensB_clsSeq H cs hH s
  simp only [Rx.Re.quest, if_true, lensB, h1]
  cases matchSeq cs s <;> simp [isEmpty_append_aux]

theorem pathAbsolute_ne (b : Nat) (t : Bytes) (h : b ≠ 47) : pathAbsolute (b :: t) = false := by
  unfold pathAbsolute; split
  · rename_i heq; simp at heq; omega
  · rfl

theorem lens_cls_cat_cons (A B : List (Nat × Nat)) (x : Sym) (rest : List Sym) :
    lens (.cat (.cls A) (.cls B)) (x :: rest) =
      if inCls A x.rune then (lens (.cls B) rest).map (1 + ·) else [] := by
  simp only [lens]
  split <;> simp

theorem lens_slashNot (s : Bytes) :
    (lens (.cat (.cls [(47, 47)]) (.cls [(0, 46), (48, 91), (93, 1114111)])) (Utf8.decodeSyms s)).isEmpty
      = !pathAbsolute s := by
  cases s with
  | nil => simp [Utf8.decodeSyms_nil, lens, pathAbsolute]
  | cons b t =>
    by_cases hb : b < 128
    · rw [Utf8.decodeSyms_cons_ascii b t hb, lens_cls_cat_cons, inCls_slash]
      by_cases h47 : b = 47
      · subst h47
        simp only [beq_self_eq_true, if_true, isEmpty_map_aux]
        cases t with
        | nil => simp [Utf8.decodeSyms_nil, lens, pathAbsolute]
        | cons c u =>
          have hpa : pathAbsolute (47 :: c :: u) = (c != 47 && c != 92) := rfl
          rw [hpa]
          by_cases hc : c < 128
          · rw [Utf8.decodeSyms_cons_ascii c u hc]
            simp only [lens]
            rw [inCls_pathStart c (by omega)]
            cases (c != 47 && c != 92) <;> simp
          · obtain ⟨r, w, hdec, hr1, hr2, _⟩ := decodeSyms_cons_nonascii c u (by omega)
            rw [hdec]
            simp only [lens]
            rw [inCls_pathStart r hr2]
            have h1 : (r != 47 && r != 92) = true := by simp; omega
            have h2 : (c != 47 && c != 92) = true := by simp; omega
            simp [h1, h2]
      · rw [pathAbsolute_ne b t h47]
        simp [h47]
    · obtain ⟨r, w, hdec, hr1, hr2, _⟩ := decodeSyms_cons_nonascii b t (by omega)
      rw [hdec, lens_cls_cat_cons, inCls_slash, pathAbsolute_ne b t (by omega)]
      have : (r == 47) = false := by simp; omega
      simp [this]

/-- Rx obligation: the regenerated `safeTrustedResourceURLPrefixPattern` (with fix-C13-fold) accepts
    exactly the four documented prefix forms in their ASCII reading, for every byte string -/
theorem rx_prefix (s : Bytes) : isSafeTrustedResourceURLPrefix s = safePrefix s := by
  unfold isSafeTrustedResourceURLPrefix safehtmlutil_safeTrustedResourceURLPrefixPattern
  rw [matchString_bot_simple _ (by decide)]
  rw [lens_alt, lens_alt, isEmpty_append_aux, isEmpty_append_aux, lens_slashNot]
  rw [lens_decodeSyms_ascii _ (by decide) (by decide), lens_decodeSyms_ascii _ (by decide) (by decide)]
  rw [lensB_quest_cat _ _ (litHttps.map ciCls) (by decide), lensB_rest, lensB_rest]
  rw [lensB_clsSeq _ (litAboutBlank.map ciCls) (by decide)]
  rw [matchSeq_ciCls _ (by decide), matchSeq_ciCls _ (by decide)]
  have h6 : (List.map ciCls litHttps).length = 6 := rfl
  rw [h6]
  unfold safePrefix
  cases ciPrefix litHttps s <;> cases netPath (List.drop 6 s) <;> cases netPath s <;>
    cases pathAbsolute s <;> cases ciPrefix litAboutBlank s <;> rfl

end SafeHtml.Proofs.C13
