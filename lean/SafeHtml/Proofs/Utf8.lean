/- Lemmas about Go's UTF-8 decoding model. -/
import SafeHtml.Basic.Utf8
namespace SafeHtml
namespace Utf8

theorem decode1_width_pos (b : Nat) (t : Bytes) : 1 ≤ (decode1 b t).2 := by
  unfold decode1
  repeat' split
  all_goals (try simp)
  all_goals (repeat' split)
  all_goals simp

theorem decode1_width_le (b : Nat) (t : Bytes) : (decode1 b t).2 ≤ (b :: t).length := by
  unfold decode1
  repeat' split
  all_goals (try simp)
  all_goals (repeat' split)
  all_goals (simp <;> omega)

theorem decode1_ascii (b : Nat) (t : Bytes) (h : b < 128) : decode1 b t = (b, 1) := by
  simp [decode1, h]

theorem decode1_nonascii (b : Nat) (t : Bytes) (h : 128 ≤ b) : 128 ≤ (decode1 b t).1 := by
  unfold decode1
  have : ¬ b < 128 := by omega
  simp only [this, if_false]
  repeat' split
  all_goals (try simp [runeError])
  all_goals (repeat' split)
  all_goals (first | omega | (simp [runeError]; done) | (simp [isCont] at *; omega))

/-- more fuel than needed changes nothing -/
theorem decodeAux_fuel (f : Nat) : ∀ (s : Bytes), s.length ≤ f → decodeAux f s = decodeAux s.length s := by
  induction f using Nat.strongRecOn with
  | _ f ih =>
    intro s hs
    cases s with
    | nil => cases f <;> simp [decodeAux]
    | cons b t =>
      cases f with
      | zero => simp at hs
      | succ f =>
        simp only [decodeAux, List.length_cons]
        have hw := decode1_width_pos b t
        have hl : ((b :: t).drop (decode1 b t).2).length ≤ t.length := by
          simp only [List.length_drop, List.length_cons]; omega
        congr 1
        rw [ih f (by omega) _ (by simp at hs; omega), ih t.length (by simp at hs; omega) _ hl]

theorem decodeSyms_nil : decodeSyms [] = [] := by simp [decodeSyms, decodeAux]

theorem decodeSyms_cons (b : Nat) (t : Bytes) :
    decodeSyms (b :: t) =
      ⟨(decode1 b t).1, (b :: t).take (decode1 b t).2⟩ :: decodeSyms ((b :: t).drop (decode1 b t).2) := by
  simp only [decodeSyms, List.length_cons, decodeAux]
  congr 1
  apply decodeAux_fuel
  have hw := decode1_width_pos b t
  simp only [List.length_drop, List.length_cons]; omega

theorem decodeSyms_cons_ascii (b : Nat) (t : Bytes) (h : b < 128) :
    decodeSyms (b :: t) = ⟨b, [b]⟩ :: decodeSyms t := by
  rw [decodeSyms_cons, decode1_ascii b t h]; simp

/-- strong induction principle following the decoder -/
theorem decode_induction {P : Bytes → Prop} (hnil : P [])
    (hcons : ∀ b t, P ((b :: t).drop (decode1 b t).2) → P (b :: t)) : ∀ s, P s := by
  intro s
  generalize hn : s.length = n
  induction n using Nat.strongRecOn generalizing s with
  | _ n ih =>
    cases s with
    | nil => exact hnil
    | cons b t =>
      apply hcons
      have hw := decode1_width_pos b t
      apply ih ((b :: t).drop (decode1 b t).2).length _ _ rfl
      simp only [List.length_drop, List.length_cons] at *; omega

theorem symsBytes_decodeSyms (s : Bytes) : symsBytes (decodeSyms s) = s := by
  induction s using decode_induction with
  | hnil => simp [decodeSyms_nil, symsBytes]
  | hcons b t ih =>
    rw [decodeSyms_cons]
    simp only [symsBytes, List.flatMap_cons] at *
    rw [ih]; exact List.take_append_drop _ _

/-- every symbol's rune is ASCII iff every byte is, and then runes = bytes -/
theorem all_ascii_iff (p : Nat → Bool) (hp : ∀ c, p c = true → c < 128) (s : Bytes) :
    (decodeSyms s).all (fun x => p x.rune) = s.all p := by
  induction s using decode_induction with
  | hnil => simp [decodeSyms_nil]
  | hcons b t ih =>
    by_cases hb : b < 128
    · rw [decodeSyms_cons_ascii b t hb]
      rw [decode1_ascii b t hb] at ih
      simp only [List.drop_succ_cons, List.drop_zero] at ih
      simp [ih]
    · have hr := decode1_nonascii b t (by omega)
      rw [decodeSyms_cons]
      have h1 : p (decode1 b t).1 = false := by
        cases h : p (decode1 b t).1 with
        | false => rfl
        | true => have := hp _ h; omega
      have h2 : p b = false := by
        cases h : p b with
        | false => rfl
        | true => have := hp _ h; omega
      simp [h1, h2]

theorem head_rune (b : Nat) (t : Bytes) : ((decodeSyms (b :: t)).head?.map (·.rune)) = some (decode1 b t).1 := by
  rw [decodeSyms_cons]; simp

end Utf8
end SafeHtml
