/-
C14, last gap: conjunct 4 of `C14_prefix_sound_statement` on the BROWSER's reading of the prefix, without assuming
that Go's `html.UnescapeString` and the WHATWG decoder agree: whenever the browser-decoded accepted prefix contains
`?` or `#`, the engine's test `inQueryOrFragment` fires (raw `?`/`#` in the prefix, or in Go's decoding of it), hence
the data is fully percent-encoded. Then `C14_prefix_sound : C14_prefix_sound_statement`.

Argument: (1) per reference — a numeric reference contains a literal `#`; a `;`-terminated name found in the table is
read identically by both decoders (`go_named_semi`); a legacy name without `;` never denotes `?`/`#` (table scan
`table_facts`); (2) Go's decoder visits every `&` of the prefix, because the bytes `unescapeEntity` consumes never
contain `&` (`go_region`).
Core Lean only.
-/
import SafeHtml.Proofs.C14Sound
namespace SafeHtml.Proofs.C14Sound2
open SafeHtml SafeHtml.Rx SafeHtml.Spec SafeHtml.Spec.CharRef SafeHtml.Generated.Regexes
open SafeHtml.Proofs.CharRefAppend SafeHtml.Proofs.CharRefEsc SafeHtml.Proofs.C14Sound
open SafeHtml.Model SafeHtml.Model.TmplUrl SafeHtml.Props.C14 SafeHtml.Spec.UrlComp

/-! ### the bytes Go's `unescapeEntity` consumes contain no `&` -/

/-- the shape of the named branch of `unescapeEntity` (stated with the matchers of the model itself, all table
    lookups abstracted): the number of consumed bytes is at most the end `i` of the looked-up name -/
theorem named_shape_le (i : Nat) (c1 : Bool) (o2 o3 : Option (Nat × Nat)) (E1 E4 : Bytes) (E2 : Nat → Nat → Bytes)
    (E3 : Nat → Bytes) (h3 : ∀ x j, o3 = some (x, j) → j ≤ i) :
    @Prod.snd Bytes Nat
      (@ite (Bytes × Nat) ((i == 0) = true) (instDecidableEqBool (i == 0) true) (@Prod.mk Bytes Nat [38] 0)
        (@ite (Bytes × Nat) (c1 = true) (instDecidableEqBool c1 true) (@Prod.mk Bytes Nat E1 i)
          (GoHtml.entity2.match_1 (fun _ => Bytes × Nat) o2 (fun a b => @Prod.mk Bytes Nat (E2 a b) i) (fun _ =>
            GoHtml.entity2.match_1 (fun _ => Bytes × Nat) o3 (fun x j => @Prod.mk Bytes Nat (E3 x) j)
              (fun _ => @Prod.mk Bytes Nat E4 i))))) ≤ i := by
  split
  · exact Nat.zero_le _
  · split
    · exact Nat.le_refl _
    · rcases o2 with _ | ⟨a, b⟩
      · rcases o3 with _ | ⟨x, j⟩
        · exact Nat.le_refl _
        · exact h3 x j rfl
      · exact Nat.le_refl _

/-- end of the name Go looks up: the alphanumeric run plus a directly following `;` (the model's own expression) -/
def goEnd (rest : Bytes) : Nat :=
  GoHtml.unescapeEntity.match_5 (fun _ => Nat) (rest.drop (GoHtml.alnumRun rest))
    (fun _ => GoHtml.alnumRun rest + 1) (fun _ => GoHtml.alnumRun rest)

theorem goEnd_region (rest : Bytes) : goEnd rest ≤ rest.length ∧ ∀ b ∈ rest.take (goEnd rest), b ≠ 38 := by
  have hk := alnumRun_le rest
  have hall : ∀ b ∈ rest.take (CharRef.alnumRun rest), b ≠ 38 := by
    intro b hb
    have := alnumRun_take_all rest _ (Nat.le_refl _) b hb
    rintro rfl; revert this; decide
  unfold goEnd
  rw [goAlnumRun_eq]
  split
  · next w hd =>
    have hlen : CharRef.alnumRun rest + 1 ≤ rest.length := by
      have := congrArg List.length hd
      simp only [List.length_drop, List.length_cons] at this; omega
    refine ⟨hlen, ?_⟩
    rw [take_succ_of_drop _ _ _ _ hd]
    intro b hb
    rcases List.mem_append.1 hb with hb | hb
    · exact hall b hb
    · simp at hb; omega
  · exact ⟨hk, hall⟩

attribute [local irreducible] EntityTable.lookup GoHtml.entity1 GoHtml.entity2 GoHtml.prefixLoop in
theorem go_named_snd (c : Nat) (u : Bytes) (hc : c ≠ 35) :
    (GoHtml.unescapeEntity (c :: u)).2 ≤ goEnd (c :: u) := by
  obtain ⟨i, hi⟩ : ∃ i, i = goEnd (c :: u) := ⟨_, rfl⟩
  obtain ⟨x1, hx1⟩ : ∃ x, x = GoHtml.entity1 (List.take i (c :: u)) := ⟨_, rfl⟩
  obtain ⟨o2, ho2⟩ : ∃ o, o = GoHtml.entity2 (List.take i (c :: u)) := ⟨_, rfl⟩
  obtain ⟨o3, ho3⟩ : ∃ o, o = GoHtml.prefixLoop (List.take i (c :: u))
      (min (i - 1) Generated.Entities.longestEntityWithoutSemicolon) := ⟨_, rfl⟩
  have h3 : ∀ x j, o3 = some (x, j) → j ≤ i := by
    intro x j h
    rw [ho3] at h
    have h1 := prefixLoop_le _ _ _ _ h
    have h2 := Nat.min_le_left (i - 1) Generated.Entities.longestEntityWithoutSemicolon
    omega
  rw [← hi]
  unfold goEnd at hi
  unfold GoHtml.unescapeEntity
  split
  · next heq => cases heq
  · next heq => cases heq; exact absurd rfl hc
  · simp only []
    simp only [← hi, ← hx1, ← ho2, ← ho3]
    exact named_shape_le i (x1 != 0) o2 o3 _ _ _ _ h3

theorem go_nil : GoHtml.unescapeEntity [] = ([38], 0) := by
  unfold GoHtml.unescapeEntity; rfl

/-- the numeric branch: nothing, or `#`, an optional `x`/`X`, and what the digit loop read (digits, `;`) -/
theorem go_numeric_region (t : Bytes) :
    (GoHtml.unescapeEntity (35 :: t)).2 ≤ (35 :: t).length ∧
    ∀ b ∈ (35 :: t).take (GoHtml.unescapeEntity (35 :: t)).2, b ≠ 38 := by
  cases t with
  | nil =>
    have : GoHtml.unescapeEntity [35] = ([38], 0) := by unfold GoHtml.unescapeEntity; rfl
    rw [this]; simp
  | cons c t' =>
    unfold GoHtml.unescapeEntity
    simp only []
    split
    · simp
    · by_cases hh : (c == 120 || c == 88) = true
      · simp only [hh, if_true]
        have hdrop : List.drop 2 (35 :: c :: t') = t' := rfl
        rw [hdrop]
        obtain ⟨_, h2, h3⟩ := numLoop_region true t' 0 0
        generalize (GoHtml.numLoop true t' 0 0).2 = n at h2 h3 ⊢
        simp only [Nat.sub_zero] at h2 h3
        split
        · simp
        · simp only [List.length_cons]
          refine ⟨by omega, ?_⟩
          have e : 2 + n = n + 1 + 1 := by omega
          rw [e, List.take_succ_cons, List.take_succ_cons]
          intro b hb
          simp only [List.mem_cons] at hb
          rcases hb with rfl | rfl | hb
          · decide
          · simp only [Bool.or_eq_true, beq_iff_eq] at hh; omega
          · exact h3 b hb
      · have hh' : (c == 120 || c == 88) = false := by simpa using hh
        simp only [hh', Bool.false_eq_true, if_false]
        have hdrop : List.drop 1 (35 :: c :: t') = c :: t' := rfl
        rw [hdrop]
        obtain ⟨_, h2, h3⟩ := numLoop_region false (c :: t') 0 0
        generalize (GoHtml.numLoop false (c :: t') 0 0).2 = n at h2 h3 ⊢
        simp only [Nat.sub_zero] at h2 h3
        split
        · simp
        · simp only [List.length_cons] at h2 ⊢
          refine ⟨by omega, ?_⟩
          have e : 1 + n = n + 1 := by omega
          rw [e, List.take_succ_cons]
          intro b hb
          simp only [List.mem_cons] at hb
          rcases hb with rfl | hb
          · decide
          · exact h3 b hb

/-- **Go's consumed region.** The bytes `unescapeEntity` consumes after an `&` lie within the string and never
    contain another `&`. -/
theorem go_region (rest : Bytes) :
    (GoHtml.unescapeEntity rest).2 ≤ rest.length ∧ ∀ b ∈ rest.take (GoHtml.unescapeEntity rest).2, b ≠ 38 := by
  cases rest with
  | nil => rw [go_nil]; simp
  | cons c u =>
    by_cases hc : c = 35
    · subst hc; exact go_numeric_region u
    · have h1 := go_named_snd c u hc
      obtain ⟨h2, h3⟩ := goEnd_region (c :: u)
      refine ⟨by omega, ?_⟩
      intro b hb
      exact h3 b (Rx.mem_take_of_le h1 hb)

/-! ### Go's decoder visits every `&` -/

theorem amp_mem_take (pre t : Bytes) (n : Nat) (h : pre.length < n) : 38 ∈ (pre ++ 38 :: t).take n := by
  induction pre generalizing n with
  | nil =>
    cases n with
    | zero => simp at h
    | succ n => simp
  | cons a pre ih =>
    cases n with
    | zero => simp at h
    | succ n =>
      simp only [List.cons_append, List.take_succ_cons, List.mem_cons]
      right
      exact ih n (by simp only [List.length_cons] at h; omega)

theorem go_visits : ∀ (f : Nat) (p pre t : Bytes), p.length ≤ f → p = pre ++ 38 :: t →
    ∀ b ∈ (GoHtml.unescapeEntity t).1, b ∈ GoHtml.unescapeAux f p
  | 0, p, pre, t, hf, hp => by
    subst hp; simp at hf
  | f+1, p, [], t, hf, hp => by
    subst hp
    intro b hb
    rw [List.nil_append, unescapeAux_amp]
    exact List.mem_append.2 (Or.inl hb)
  | f+1, p, c :: pre, t, hf, hp => by
    subst hp
    simp only [List.cons_append, List.length_cons] at hf ⊢
    intro b hb
    by_cases hc : c = 38
    · subst hc
      rw [unescapeAux_amp]
      obtain ⟨hle, hreg⟩ := go_region (pre ++ 38 :: t)
      have hn : (GoHtml.unescapeEntity (pre ++ 38 :: t)).2 ≤ pre.length := by
        apply Nat.le_of_not_lt
        intro hlt
        exact hreg 38 (amp_mem_take pre t _ hlt) rfl
      rw [List.drop_append_of_le_length hn]
      apply List.mem_append.2
      right
      have hf' := hf
      simp only [List.length_append, List.length_cons] at hf'
      exact go_visits f _ (pre.drop _) t (by simp only [List.length_append, List.length_drop, List.length_cons]; omega)
        rfl b hb
    · rw [unescapeAux_other _ _ _ hc]
      exact List.mem_cons_of_mem _ (go_visits f _ pre t (by omega) rfl b hb)

/-! ### one reference: what the browser substitutes contains `?`/`#` only if the reference is numeric (literal `#`)
or Go substitutes the same -/

theorem hasQH_amp : hasQH [38] = false := by decide

theorem named_qh (c : Nat) (u : Bytes) (hc : c ≠ 35) :
    hasQH (namedBody true (c :: u)).1 = false ∨ GoHtml.unescapeEntity (c :: u) = namedBody true (c :: u) := by
  by_cases hk : CharRef.alnumRun (c :: u) = 0
  · left; unfold namedBody; rw [hk]; exact hasQH_amp
  · cases hsl : semiLookup ((c :: u).take (CharRef.alnumRun (c :: u))) ((c :: u).drop (CharRef.alnumRun (c :: u))) with
    | some e =>
      right
      obtain ⟨w, hd, hl⟩ := semiLookup_some _ _ _ hsl
      have he := (lookup_facts _ e hl).1
      rw [go_named_semi c u w e hc hk hd hl he]
      unfold namedBody
      rw [hsl, if_neg (by simpa using hk)]
    | none =>
      left
      unfold namedBody
      rw [hsl, if_neg (by simpa using hk)]
      simp only []
      cases hlp : longestPrefix ((c :: u).take (CharRef.alnumRun (c :: u))) (CharRef.alnumRun (c :: u)) with
      | none => exact hasQH_amp
      | some ej =>
        obtain ⟨e, j⟩ := ej
        simp only []
        split
        · exact hasQH_amp
        · rw [longestPrefix_eq_G] at hlp
          obtain ⟨h1, hj, hl⟩ := longestPrefixG_spec _ _ _ _ _ hlp
          exact (legacy_stop (c :: u) j e h1 hj hl).2

theorem ref_qh (rest : Bytes) (h : hasQH (consume true rest).1 = true) :
    (∃ u, rest = 35 :: u) ∨ GoHtml.unescapeEntity rest = consume true rest := by
  cases rest with
  | nil => rw [consume_nil, hasQH_amp] at h; cases h
  | cons c u =>
    by_cases hc : c = 35
    · left; exact ⟨u, by rw [hc]⟩
    · right
      rw [consume_named_eq true c u hc] at h ⊢
      rcases named_qh c u hc with h0 | h1
      · rw [h0] at h; cases h
      · exact h1

/-! ### whenever the browser sees `?`/`#`, so does the engine -/

theorem hasQH_iff (l : Bytes) : hasQH l = true ↔ (63 ∈ l ∨ 35 ∈ l) := by
  simp [hasQH]

theorem qh_aux (p : Bytes) : ∀ (f : Nat) (q pre : Bytes), p = pre ++ q →
    hasQH (decodeAux true f q) = true →
    hasQH q = true ∨ ∃ pre' t, p = pre' ++ 38 :: t ∧ hasQH (GoHtml.unescapeEntity t).1 = true
  | 0, q, _, _, h => by left; simpa [decodeAux] using h
  | f+1, [], _, _, h => by rw [decodeAux_nil] at h; cases h
  | f+1, c :: t, pre, hp, h => by
    by_cases hc : c = 38
    · subst hc
      rw [decodeAux_amp, hasQH_iff] at h
      simp only [List.mem_append] at h
      have h' : hasQH (consume true t).1 = true ∨
          hasQH (decodeAux true f (t.drop (consume true t).2)) = true := by
        rw [hasQH_iff, hasQH_iff]
        rcases h with (h | h) | (h | h)
        · exact Or.inl (Or.inl h)
        · exact Or.inr (Or.inl h)
        · exact Or.inl (Or.inr h)
        · exact Or.inr (Or.inr h)
      rcases h' with h1 | h2
      · rcases ref_qh t h1 with ⟨u, rfl⟩ | he
        · left; rw [hasQH_iff]; right; simp
        · right; exact ⟨pre, t, hp, by rw [he]; exact h1⟩
      · have hp' : p = (pre ++ 38 :: t.take (consume true t).2) ++ t.drop (consume true t).2 := by
          rw [hp, List.append_assoc, List.cons_append, List.take_append_drop]
        rcases qh_aux p f _ _ hp' h2 with hl | hr
        · left
          rw [hasQH_iff] at hl ⊢
          rcases hl with hl | hl
          · exact Or.inl (List.mem_cons_of_mem _ (List.mem_of_mem_drop hl))
          · exact Or.inr (List.mem_cons_of_mem _ (List.mem_of_mem_drop hl))
        · exact Or.inr hr
    · rw [decodeAux_other _ _ _ _ hc, hasQH_iff] at h
      simp only [List.mem_cons] at h
      have h' : (63 = c ∨ 35 = c) ∨ hasQH (decodeAux true f t) = true := by
        rw [hasQH_iff]
        rcases h with (h | h) | (h | h)
        · exact Or.inl (Or.inl h)
        · exact Or.inr (Or.inl h)
        · exact Or.inl (Or.inr h)
        · exact Or.inr (Or.inr h)
      rcases h' with h1 | h2
      · left; rw [hasQH_iff]; simp only [List.mem_cons]
        rcases h1 with h1 | h1
        · exact Or.inl (Or.inl h1)
        · exact Or.inr (Or.inl h1)
      · have hp' : p = (pre ++ [c]) ++ t := by rw [hp]; simp
        rcases qh_aux p f t _ hp' h2 with hl | hr
        · left
          rw [hasQH_iff] at hl ⊢
          rcases hl with hl | hl
          · exact Or.inl (List.mem_cons_of_mem _ hl)
          · exact Or.inr (List.mem_cons_of_mem _ hl)
        · exact Or.inr hr

/-- **Browser sees `?`/`#` ⇒ the engine's test fires** — for every byte string, no hypothesis: if the WHATWG
    attribute-value decoding of `p` contains `?` or `#`, then `p` contains one literally or Go's
    `html.UnescapeString p` contains one. -/
theorem browser_qh_engine (p : Bytes) (h : hasQH (CharRef.decodeAttr p) = true) :
    hasQH p = true ∨ hasQH (GoHtml.unescapeString p) = true := by
  rcases qh_aux p p.length p [] rfl h with hl | ⟨pre', t, hp, ht⟩
  · exact Or.inl hl
  · right
    rw [hasQH_iff] at ht ⊢
    rcases ht with ht | ht
    · exact Or.inl (go_visits p.length p pre' t (Nat.le_refl _) hp _ ht)
    · exact Or.inr (go_visits p.length p pre' t (Nat.le_refl _) hp _ ht)

theorem browser_qh_inQueryOrFragment (p : Bytes) (h : hasQH (CharRef.decodeAttr p) = true) :
    inQueryOrFragment p = true := by
  unfold inQueryOrFragment containsAny
  simp only [Bool.or_eq_true, List.any_eq_true]
  rcases browser_qh_engine p h with h1 | h1
  · left
    rw [hasQH_iff] at h1
    rcases h1 with h1 | h1
    · exact ⟨63, h1, by decide⟩
    · exact ⟨35, h1, by decide⟩
  · right
    rw [hasQH_iff] at h1
    rcases h1 with h1 | h1
    · exact ⟨63, h1, by decide⟩
    · exact ⟨35, h1, by decide⟩

/-! ### the full statement -/

/-- conjunct 4 on the browser's reading, no hypothesis -/
theorem C14_prefix_sound_component (sc : SC) (p w v : Bytes) (ch : Chain) (hsc : sc ≠ .other)
    (hc : chooseChain sc p = some ch) (hr : runChain ch w = some v)
    (hq : ((CharRef.decodeAttr p).contains 63 || (CharRef.decodeAttr p).contains 35) = true) :
    unreservedOrPct v = true :=
  (C14_choice_query sc p w v ch hsc (Or.inl (browser_qh_inQueryOrFragment p hq)) hc hr).1

/-- **C14, soundness of an accepted prefix: the FULL statement of Props/C14.lean**, for the library after commit
    213930e. -/
theorem C14_prefix_sound : C14_prefix_sound_statement := by
  intro sc p w v ch hsc _ hc hr
  have h := C14_prefix_sound_scheme_of sc p w v ch hsc hc hr
  exact ⟨h.1, h.2.1, h.2.2, fun hq => C14_prefix_sound_component sc p w v ch hsc hc hr hq⟩

end SafeHtml.Proofs.C14Sound2

#print axioms SafeHtml.Proofs.C14Sound2.go_region
#print axioms SafeHtml.Proofs.C14Sound2.go_visits
#print axioms SafeHtml.Proofs.C14Sound2.browser_qh_engine
#print axioms SafeHtml.Proofs.C14Sound2.C14_prefix_sound_component
#print axioms SafeHtml.Proofs.C14Sound2.C14_prefix_sound
