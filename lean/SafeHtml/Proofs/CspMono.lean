/-
CSP monotonicity: a CSP-compatible set (`(*Template).CSPCompatible()`, the flag `csp` of `NS` / `Env`) only ever
REFUSES more. The flag is read in exactly one place of the model, `escapeTextNode` (`escapeText env.csp c b`, i.e.
the two tests of `EscapeText.lean`: `javascript:` in a text, a text inside an `on*` attribute); `escapeAction`,
`Esc.template`, `commit` and the executor never look at it.

1. text level: `escapeTextLoop_mono`, `escapeText_mono`, `escapeText_csp_success`.
2. analysis level: `envOff`; `analysis_wf` (every context the six mutually recursive functions compute is `ErrWF`, the
   error state is absorbing, the memo stays well formed — for every `env`); `analysis_mono` (for each function, from a
   well-formed memo and context: the run under `envOff env` returns EXACTLY what the run under `env` returns, unless
   the latter panics / runs out of fuel / ends in an error context); corollaries `escape*_csp_success`,
   `computeOutCtx_csp_success`, `escapeTemplateBody_csp_success`; `IllFormed`: the well-formedness hypothesis cannot
   be dropped. `escapeTemplateTop_wOff`: the entry used by the API.
3. API level: `wOff` (all flags cleared), `apiExecute_wOff`, `apiExecuteTemplate_wOff`, `step_exec_wOff`,
   `step_execT_wOff` (+ `ToHTML` variants) for every world with well-formed memo tables (`WorldWF`), in particular for
   every reachable world (`step_exec_wOff_reachable`, `step_execT_wOff_reachable`).
4. transfer: `C01_api_single_template_csp` (+ `_execT`), `C01_api_branch_template_csp`,
   `C01_api_main_plus_helper_csp` for `New; Parse; CSPCompatible; Execute`.
Core Lean only; axioms: propext, Classical.choice, Quot.sound.
-/
import SafeHtml.Proofs.Layer3Helpers
import SafeHtml.Proofs.Independence
set_option linter.unusedSimpArgs false
set_option linter.unusedVariables false
namespace SafeHtml.Proofs.CspMono
open SafeHtml SafeHtml.Model SafeHtml.Model.Tmpl SafeHtml.Proofs.Frozen

/-! ## 1. text level -/

/-- the context of a CSP refusal -/
abbrev cspErr : Ctx := Ctx.errorCtx .cspCompatibility

theorem escapeTextLoop_mono (s : Bytes) : ∀ (f : Nat) (st : ETState) (r : Option ETState ⊕ ETResult),
    escapeTextLoop true s f st = r →
    r = .inr (.done (Ctx.errorCtx .cspCompatibility) none) ∨ escapeTextLoop false s f st = r := by
  intro f
  induction f with
  | zero => intro st r h; right; rw [← h]; rfl
  | succ f ih =>
    intro st r h
    subst h
    simp only [escapeTextLoop, Bool.true_and, Bool.false_and, Bool.false_eq_true, if_false]
    split
    · right; rfl
    · split
      · left; rfl
      · split
        · right; rfl
        · split
          · right; rfl
          · exact ih _ _ rfl

theorem escapeText_mono (c : Ctx) (s : Bytes) (r : ETResult) (h : escapeText true c s = r) :
    r = .done (Ctx.errorCtx .cspCompatibility) none ∨ escapeText false c s = r := by
  subst h
  unfold escapeText
  simp only [Bool.true_and, Bool.false_and, Bool.false_eq_true, if_false]
  split
  · left; rfl
  · rcases escapeTextLoop_mono s (2 * s.length + 2) { c := c, i := 0, written := 0, b := [] } _ rfl with h | h
    · left; rw [h]
    · right; rw [h]

/-- general form: for any value of the flag -/
theorem escapeText_mono' (csp : Bool) (c : Ctx) (s : Bytes) :
    escapeText csp c s = .done (Ctx.errorCtx .cspCompatibility) none ∨ escapeText false c s = escapeText csp c s := by
  cases csp with
  | false => right; rfl
  | true => exact escapeText_mono c s _ rfl

/-- a text accepted in CSP mode is analysed in exactly the same way without CSP mode -/
theorem escapeText_csp_success (c : Ctx) (s : Bytes) (c' : Ctx) (nt : Option Bytes)
    (h : escapeText true c s = .done c' nt) (hne : c'.state ≠ .error) : escapeText false c s = .done c' nt := by
  rcases escapeText_mono c s _ h with h1 | h1
  · cases h1; exact absurd rfl hne
  · exact h1

/-! non-vacuity at the text level -/

/-- decidable form of `r = .done c nt` (`ETResult` has no `DecidableEq`) -/
def resIs (r : ETResult) (c : Ctx) (nt : Option Bytes) : Bool :=
  match r with
  | .done c' nt' => decide (c' = c) && decide (nt' = nt)
  | .panic => false

theorem resIs_eq {r : ETResult} {c : Ctx} {nt : Option Bytes} (h : resIs r c nt = true) : r = .done c nt := by
  cases r with
  | panic => cases h
  | done c' nt' =>
    simp only [resIs, Bool.and_eq_true, decide_eq_true_eq] at h
    rw [h.1, h.2]

/-- `<b>` in the text state: accepted with the flag -/
example : escapeText true {} [60, 98, 62] = .done { elemName := [98] } none := resIs_eq (by decide +kernel)
/-- `javascript:` anywhere in a text: refused with the flag, accepted without -/
example : escapeText true {} jsUri = .done (Ctx.errorCtx .cspCompatibility) none ∧
    escapeText false {} jsUri = .done {} none := ⟨resIs_eq (by decide +kernel), resIs_eq (by decide +kernel)⟩
/-- a text inside an `onclick` attribute value: refused with the flag, accepted without -/
example : escapeText true { state := .attr, delim := .dq, attrName := [111, 110, 99, 108, 105, 99, 107] } [120] =
      .done (Ctx.errorCtx .cspCompatibility) none ∧
    escapeText false { state := .attr, delim := .dq, attrName := [111, 110, 99, 108, 105, 99, 107] } [120] =
      .done { state := .attr, delim := .dq, attrName := [111, 110, 99, 108, 105, 99, 107], attrValue := [120] } none :=
  ⟨resIs_eq (by decide +kernel), resIs_eq (by decide +kernel)⟩

/-! ## 2. analysis level

### 2a. error contexts are well formed and sticky

`ErrWF c` (from `Frozen`): a context in the error state is literally `Ctx.errorCtx code`. Every context the engine
computes has this property; it is what makes the error state absorbing (an ill-formed "error" context with a
delimiter could be left again by a text node). The memo table `e.output` must have it, too. -/

def envOff (env : Env) : Env := { env with csp := false }

/-- all memoized output contexts are well formed -/
def MemoWF (e : Esc) : Prop := ∀ p ∈ e.output, ErrWF p.2

theorem memoWF_empty : MemoWF {} := fun _ h => nomatch h

theorem memoWF_core {e e' : Esc} (h : CoreEq e e') (hm : MemoWF e) : MemoWF e' := by
  intro p hp; rw [h.1] at hp; exact hm p hp

theorem memoWF_aset {l : List (String × Ctx)} {k : String} {v : Ctx} (hl : ∀ p ∈ l, ErrWF p.2) (hv : ErrWF v) :
    ∀ p ∈ aset l k v, ErrWF p.2 := by
  intro p hp
  rcases mem_aset l k v p hp with h | h
  · exact hl p h
  · rw [h]; exact hv

theorem memoWF_of_base {text : TextSet} {e : Esc} (hb : Base text e) : MemoWF e := by
  intro p hp
  obtain ⟨b1, _, _, b4, _⟩ := hb
  exact b4 p.1 p.2 (alookup_of_mem e.output b1 p hp)

/-- postcondition: memo and result context well formed, error state absorbing -/
def Post (c : Ctx) (e' : Esc) (c' : Ctx) : Prop :=
  MemoWF e' ∧ ErrWF c' ∧ (c.state = .error → c'.state = .error)

def NodeWF (env : Env) (f : Nat) : Prop :=
  ∀ tn e c n r, MemoWF e → ErrWF c → escapeNode env f tn e c n = .ok r → Post c r.1 r.2
def ListWF (env : Env) (f : Nat) : Prop :=
  ∀ tn e c l r, MemoWF e → ErrWF c → escapeList env f tn e c l = .ok r → Post c r.1 r.2
def BranchWF (env : Env) (f : Nat) : Prop :=
  ∀ tn e c t el b r, MemoWF e → ErrWF c → escapeBranch env f tn e c t el b = .ok r → Post c r.1 r.2
def TreeWF (env : Env) (f : Nat) : Prop :=
  ∀ e c name r, MemoWF e → ErrWF c → escapeTree env f e c name = .ok r → Post c r.1 r.2.1
def OutWF (env : Env) (f : Nat) : Prop :=
  ∀ e c tname t r, MemoWF e → ErrWF c → computeOutCtx env f e c tname t = .ok r → Post c r.1 r.2
def BodyWF (env : Env) (f : Nat) : Prop :=
  ∀ e c tname t r, MemoWF e → ErrWF c → escapeTemplateBody env f e c tname t = .ok r →
    Post c r.1 r.2.1 ∧ (r.2.2 = true → r.2.1.state ≠ .error)

theorem join_state_err (a b : Ctx) (h : a.state = .error ∨ b.state = .error) : (join a b).state = .error := by
  by_cases hj : (join a b).state = .error
  · exact hj
  · obtain ⟨h1, h2⟩ := join_ne a b hj
    rcases h with h | h
    · exact absurd h h1
    · exact absurd h h2

theorem node_wf_succ {env f} (hb : BranchWF env f) (ht : TreeWF env f) : NodeWF env (f + 1) := by
  intro tn e c n r hm hc h
  cases n with
  | action id p =>
    simp only [escapeNode] at h
    obtain ⟨h1, h2, h3⟩ := escapeAction_core env tn e c id p r h hc
    exact ⟨memoWF_core h1 hm, h2, h3⟩
  | text id b =>
    simp only [escapeNode] at h
    obtain ⟨h1, h2, h3⟩ := escapeTextNode_core env tn e c id b r h hc
    exact ⟨memoWF_core h1 hm, h2, h3⟩
  | ifN id p t el => simp only [escapeNode] at h; exact hb _ _ _ _ _ _ _ hm hc h
  | withN id p t el => simp only [escapeNode] at h; exact hb _ _ _ _ _ _ _ hm hc h
  | rangeN id p t el => simp only [escapeNode] at h; exact hb _ _ _ _ _ _ _ hm hc h
  | tmpl id name p =>
    simp only [escapeNode] at h
    obtain ⟨⟨e1, c1, dname⟩, h1, h2⟩ := bind_ok h
    have s1 := ht _ _ _ _ hm hc h1
    simp only [] at h2 s1
    split at h2
    · obtain ⟨e2, h3, h4⟩ := bind_ok h2
      cases h4
      unfold Esc.editTmpl at h3
      split at h3
      · cases h3
      · cases h3; exact s1
    · cases h2; exact s1
  | brk id => simp only [escapeNode] at h; cases h; exact ⟨hm, errwf_errorCtx _, fun _ => rfl⟩
  | cont id => simp only [escapeNode] at h; cases h; exact ⟨hm, errwf_errorCtx _, fun _ => rfl⟩
  | comment id => simp only [escapeNode] at h; cases h; exact ⟨hm, errwf_errorCtx _, fun _ => rfl⟩

theorem list_wf_succ {env f} (hn : NodeWF env f) (hl : ListWF env f) : ListWF env (f + 1) := by
  intro tn e c l r hm hc h
  cases l with
  | nil => simp only [escapeList] at h; cases h; exact ⟨hm, hc, fun h => h⟩
  | cons n ns =>
    simp only [escapeList] at h
    obtain ⟨⟨e1, c1⟩, h1, h2⟩ := bind_ok h
    have s1 := hn _ _ _ _ _ hm hc h1
    have s2 := hl _ _ _ _ _ s1.1 s1.2.1 h2
    exact ⟨s2.1, s2.2.1, fun he => s2.2.2 (s1.2.2 he)⟩

theorem branch_wf_succ {env f} (hl : ListWF env f) : BranchWF env (f + 1) := by
  intro tn e c t el b r hm hc h
  simp only [escapeBranch] at h
  obtain ⟨⟨e1, c0⟩, h1, h2⟩ := bind_ok h
  have s1 := hl _ _ _ _ _ hm hc h1
  simp only [] at h2 s1
  obtain ⟨j, h3, h4⟩ := bind_ok h2
  have hj : ∀ jc, j = some jc → ErrWF jc := by
    intro jc hjc
    subst hjc
    split at h3
    · obtain ⟨⟨e', c1⟩, h5, h6⟩ := bind_ok h3
      cases h6
      have s2 := hl _ { output := e1.output, pristine := e1.pristine, memoPrefix := e1.memoPrefix } _ _ _
        s1.1 s1.2.1 h5
      exact join_errwf c0 c1 s1.2.1 s2.2.1
    · cases h3
  split at h4
  · rename_i jc
    have hjc := hj jc rfl
    split at h4
    · rename_i hje
      cases h4
      exact ⟨s1.1, hjc, fun _ => by simpa using hje⟩
    · obtain ⟨⟨e2, c2⟩, h5, h6⟩ := bind_ok h4
      cases h6
      have s3 := hl _ _ _ _ _ s1.1 hc h5
      exact ⟨s3.1, join_errwf _ _ hjc s3.2.1, fun he => join_state_err _ _ (.inr (s3.2.2 he))⟩
  · obtain ⟨⟨e2, c2⟩, h5, h6⟩ := bind_ok h4
    cases h6
    have s3 := hl _ _ _ _ _ s1.1 hc h5
    exact ⟨s3.1, join_errwf _ _ s1.2.1 s3.2.1, fun he => join_state_err _ _ (.inr (s3.2.2 he))⟩

theorem body_wf_succ {env f} (hl : ListWF env f) : BodyWF env (f + 1) := by
  intro e c tname t r hm hc h
  simp only [escapeTemplateBody] at h
  have hm0 : ∀ p ∈ aset e.output tname c, ErrWF p.2 := memoWF_aset hm hc
  split at h
  · cases h
  · rename_i tr
    obtain ⟨⟨e1, c1⟩, h1, h2⟩ := bind_ok h
    have s1 := hl _ _ _ _ _ (fun p hp => hm0 p hp) hc h1
    simp only [] at h2 s1
    split at h2
    · rename_i hok
      obtain ⟨ae, ha, h3⟩ := bind_ok h2
      obtain ⟨te, ht, h4⟩ := bind_ok h3
      obtain ⟨xe, hx, h5⟩ := bind_ok h4
      cases h5
      refine ⟨⟨?_, s1.2.1, s1.2.2⟩, fun _ => ?_⟩
      · intro p hp
        rcases mem_foldl_aset _ _ p hp with h6 | h6
        · exact hm0 p h6
        · exact s1.1 p h6
      · simp only [Bool.and_eq_true, bne_iff_ne, ne_eq] at hok
        exact hok.1
    · cases h2
      exact ⟨⟨fun p hp => hm0 p hp, s1.2.1, s1.2.2⟩, fun h => by cases h⟩

theorem out_wf_succ {env f} (hb : BodyWF env f) : OutWF env (f + 1) := by
  intro e c tname t r hm hc h
  simp only [computeOutCtx] at h
  obtain ⟨⟨e1, c1, ok⟩, h1, h2⟩ := bind_ok h
  have s1 := hb _ _ _ _ _ hm hc h1
  simp only [] at h2 s1
  split at h2
  · cases h2
    exact ⟨memoWF_aset s1.1.1 s1.1.2.1, s1.1.2.1, s1.1.2.2⟩
  · obtain ⟨⟨e2, c2, ok2⟩, h3, h4⟩ := bind_ok h2
    have s2 := hb _ _ _ _ _ s1.1.1 s1.1.2.1 h3
    simp only [] at h4 s2
    split at h4
    · cases h4
      exact ⟨memoWF_aset s2.1.1 s2.1.2.1, s2.1.2.1, fun he => s2.1.2.2 (s1.1.2.2 he)⟩
    · split at h4
      · cases h4
        exact ⟨memoWF_aset s2.1.1 (errwf_errorCtx _), errwf_errorCtx _, fun _ => rfl⟩
      · cases h4
        exact ⟨memoWF_aset s2.1.1 s1.1.2.1, s1.1.2.1, s1.1.2.2⟩

theorem tree_wf_succ {env f} (ho : OutWF env f) : TreeWF env (f + 1) := by
  intro e c name r hm hc h
  simp only [escapeTree] at h
  split at h
  · cases h; exact ⟨hm, hc, fun h => h⟩
  · rename_i hne
    have hne' : c.state ≠ .error := by simpa using hne
    split at h
    · rename_i out hout
      cases h
      exact ⟨hm, hm _ (mem_of_alookup _ _ _ hout), fun he => absurd he hne'⟩
    · split at h
      · cases h; exact ⟨hm, errwf_errorCtx _, fun _ => rfl⟩
      · cases h; exact ⟨hm, errwf_errorCtx _, fun _ => rfl⟩
      · split at h
        · split at h
          · obtain ⟨⟨e1, c1⟩, h1, h2⟩ := bind_ok h
            cases h2
            refine ho _ _ _ _ (e1, c1) ?_ hc h1
            exact hm
          · obtain ⟨⟨e1, c1⟩, h1, h2⟩ := bind_ok h
            cases h2
            refine ho _ _ _ _ (e1, c1) ?_ hc h1
            exact hm
        · obtain ⟨⟨e1, c1⟩, h1, h2⟩ := bind_ok h
          cases h2
          refine ho _ _ _ _ (e1, c1) ?_ hc h1
          exact hm

/-- **Well-formedness invariant** of the six mutually recursive analysis functions, for every `env` -/
theorem analysis_wf (env : Env) : ∀ f,
    NodeWF env f ∧ ListWF env f ∧ BranchWF env f ∧ TreeWF env f ∧ OutWF env f ∧ BodyWF env f := by
  intro f
  induction f with
  | zero =>
    refine ⟨?_, ?_, ?_, ?_, ?_, ?_⟩
    · intro tn e c n r _ _ h; simp only [escapeNode] at h; cases h
    · intro tn e c l r _ _ h; simp only [escapeList] at h; cases h
    · intro tn e c t el b r _ _ h; simp only [escapeBranch] at h; cases h
    · intro e c name r _ _ h; simp only [escapeTree] at h; cases h
    · intro e c tname t r _ _ h; simp only [computeOutCtx] at h; cases h
    · intro e c tname t r _ _ h; simp only [escapeTemplateBody] at h; cases h
  | succ f ih =>
    obtain ⟨hn, hl, hb, ht, ho, hbd⟩ := ih
    exact ⟨node_wf_succ hb ht, list_wf_succ hn hl, branch_wf_succ hl, tree_wf_succ ho, out_wf_succ hbd,
      body_wf_succ hl⟩

/-! ### 2b. monotonicity: the run without the flag gives the same result, or the run with the flag fails -/

/-- a run that did not succeed: panic, out of fuel, or an error context -/
def Bad {α} (ctx : α → Ctx) : Out α → Prop
  | .ok a => (ctx a).state = .error
  | .panic _ => True
  | .fuel => True

/-- `x` = run under `env`, `x'` = run under `envOff env` -/
def Mono {α} (ctx : α → Ctx) (x x' : Out α) : Prop := x' = x ∨ Bad ctx x

theorem Mono.refl {α} (ctx : α → Ctx) (x : Out α) : Mono ctx x x := .inl rfl

theorem bad_of_ok {α} {ctx : α → Ctx} {x : Out α} (h : ∀ a, x = .ok a → (ctx a).state = .error) : Bad ctx x := by
  cases x with
  | ok a => exact h a rfl
  | panic m => trivial
  | fuel => trivial

theorem bad_bind {α β} {cb : β → Ctx} {x : Out α} {g : α → Out β} (h : ∀ a, x = .ok a → Bad cb (g a)) :
    Bad cb (x >>= g) := by
  cases x with
  | ok a => exact h a rfl
  | panic m => trivial
  | fuel => trivial

theorem mono_bind {α β} {ca : α → Ctx} {cb : β → Ctx} {x x' : Out α} {g g' : α → Out β} (h : Mono ca x x')
    (hg : ∀ a, x = .ok a → (ca a).state ≠ .error → Mono cb (g a) (g' a))
    (hbad : ∀ a, x = .ok a → (ca a).state = .error → Bad cb (g a)) : Mono cb (x >>= g) (x' >>= g') := by
  cases x with
  | ok a =>
    by_cases he : (ca a).state = .error
    · exact .inr (hbad a rfl he)
    · rcases h with h | h
      · rw [h]; exact hg a rfl he
      · exact absurd h he
  | panic m => exact .inr trivial
  | fuel => exact .inr trivial

/-- the continuation does not depend on the environment -/
theorem mono_bind_same {α β} {ca : α → Ctx} {cb : β → Ctx} {x x' : Out α} {g : α → Out β} (h : Mono ca x x')
    (hbad : ∀ a, (ca a).state = .error → Bad cb (g a)) : Mono cb (x >>= g) (x' >>= g) :=
  mono_bind h (fun a _ _ => Mono.refl cb (g a)) (fun a _ he => hbad a he)

abbrev c2 : Esc × Ctx → Ctx := fun r => r.2
abbrev c3 {γ : Type} : Esc × Ctx × γ → Ctx := fun r => r.2.1

def NodeMono (env : Env) (f : Nat) : Prop :=
  ∀ tn e c n, MemoWF e → ErrWF c → Mono c2 (escapeNode env f tn e c n) (escapeNode (envOff env) f tn e c n)
def ListMono (env : Env) (f : Nat) : Prop :=
  ∀ tn e c l, MemoWF e → ErrWF c → Mono c2 (escapeList env f tn e c l) (escapeList (envOff env) f tn e c l)
def BranchMono (env : Env) (f : Nat) : Prop :=
  ∀ tn e c t el b, MemoWF e → ErrWF c →
    Mono c2 (escapeBranch env f tn e c t el b) (escapeBranch (envOff env) f tn e c t el b)
def TreeMono (env : Env) (f : Nat) : Prop :=
  ∀ e c name, MemoWF e → ErrWF c → Mono c3 (escapeTree env f e c name) (escapeTree (envOff env) f e c name)
def OutMono (env : Env) (f : Nat) : Prop :=
  ∀ e c tname t, MemoWF e → ErrWF c →
    Mono c2 (computeOutCtx env f e c tname t) (computeOutCtx (envOff env) f e c tname t)
def BodyMono (env : Env) (f : Nat) : Prop :=
  ∀ e c tname t, MemoWF e → ErrWF c →
    Mono c3 (escapeTemplateBody env f e c tname t) (escapeTemplateBody (envOff env) f e c tname t)

theorem escapeAction_envOff (env : Env) (tn : String) (e : Esc) (c : Ctx) (id : Nat) (p : Pipe) :
    escapeAction (envOff env) tn e c id p = escapeAction env tn e c id p := rfl

theorem escapeTextNode_mono (env : Env) (tn : String) (e : Esc) (c : Ctx) (id : Nat) (b : Bytes) :
    Mono c2 (escapeTextNode env tn e c id b) (escapeTextNode (envOff env) tn e c id b) := by
  unfold escapeTextNode
  simp only [envOff]
  rcases escapeText_mono' env.csp c b with h | h
  · rw [h]; exact .inr rfl
  · rw [h]; exact .inl rfl

theorem node_mono_succ {env f} (hb : BranchMono env f) (ht : TreeMono env f) : NodeMono env (f + 1) := by
  intro tn e c n hm hc
  cases n with
  | action id p => simp only [escapeNode]; exact .inl rfl
  | text id b => simp only [escapeNode]; exact escapeTextNode_mono env tn e c id b
  | ifN id p t el => simp only [escapeNode]; exact hb _ _ _ _ _ _ hm hc
  | withN id p t el => simp only [escapeNode]; exact hb _ _ _ _ _ _ hm hc
  | rangeN id p t el => simp only [escapeNode]; exact hb _ _ _ _ _ _ hm hc
  | tmpl id name p =>
    simp only [escapeNode]
    apply mono_bind_same (ht e c name hm hc)
    intro ⟨e1, c1, dname⟩ he
    simp only [] at he ⊢
    split
    · apply bad_bind
      intro e2 _
      exact he
    · exact he
  | brk id => simp only [escapeNode]; exact .inl rfl
  | cont id => simp only [escapeNode]; exact .inl rfl
  | comment id => simp only [escapeNode]; exact .inl rfl

theorem list_mono_succ {env f} (hn : NodeMono env f) (hl : ListMono env f) : ListMono env (f + 1) := by
  intro tn e c l hm hc
  obtain ⟨wn, wl, _⟩ := analysis_wf env f
  cases l with
  | nil => simp only [escapeList]; exact .inl rfl
  | cons n ns =>
    simp only [escapeList]
    apply mono_bind (hn tn e c n hm hc)
    · intro ⟨e1, c1⟩ hx _
      have s1 := wn _ _ _ _ _ hm hc hx
      exact hl tn e1 c1 ns s1.1 s1.2.1
    · intro ⟨e1, c1⟩ hx he
      have s1 := wn _ _ _ _ _ hm hc hx
      exact bad_of_ok (fun a ha => (wl _ _ _ _ _ s1.1 s1.2.1 ha).2.2 he)

/-- context of the optional result of the range re-entry check -/
abbrev oc : Option Ctx → Ctx := fun o => o.getD {}

theorem branch_mono_succ {env f} (hl : ListMono env f) : BranchMono env (f + 1) := by
  intro tn e c t el b hm hc
  obtain ⟨_, wl, _⟩ := analysis_wf env f
  simp only [escapeBranch]
  apply mono_bind (hl tn e c t hm hc)
  · intro ⟨e1, c0⟩ hx hne
    have s1 := wl _ _ _ _ _ hm hc hx
    simp only [] at hne s1 ⊢
    apply mono_bind (ca := oc)
    · split
      · apply mono_bind_same
          (hl tn { output := e1.output, pristine := e1.pristine, memoPrefix := e1.memoPrefix } c0 t s1.1 s1.2.1)
        intro ⟨e', c1⟩ he1
        exact join_state_err _ _ (.inr he1)
      · exact .inl rfl
    · intro j _ _
      cases j with
      | some jc =>
        simp only []
        split
        · exact .inl rfl
        · apply mono_bind_same (hl tn e1 c el s1.1 hc)
          intro ⟨e2, c1⟩ he2
          exact join_state_err _ _ (.inr he2)
      | none =>
        simp only []
        apply mono_bind_same (hl tn e1 c el s1.1 hc)
        intro ⟨e2, c1⟩ he2
        exact join_state_err _ _ (.inr he2)
    · intro j _ hj
      cases j with
      | none => exact absurd hj (by decide)
      | some jc =>
        have hjc : jc.state = .error := hj
        have : (jc.state == State.error) = true := by rw [hjc]; rfl
        simp only [this, if_true]
        exact hjc
  · intro ⟨e1, c0⟩ hx he
    have s1 := wl _ _ _ _ _ hm hc hx
    have he' : c0.state = .error := he
    have hcond : (b && c0.state != State.error) = false := by rw [he']; cases b <;> rfl
    simp only [hcond, Bool.false_eq_true, if_false]
    show Bad c2 (escapeList env f tn e1 c el >>= fun x => pure (x.fst, join c0 x.snd))
    apply bad_bind
    intro a _
    exact join_state_err _ _ (.inl he')

theorem body_mono_succ {env f} (hl : ListMono env f) : BodyMono env (f + 1) := by
  intro e c tname t hm hc
  simp only [escapeTemplateBody]
  have hm0 : ∀ p ∈ aset e.output tname c, ErrWF p.2 := memoWF_aset hm hc
  cases t with
  | none => exact .inl rfl
  | some tr =>
    simp only []
    apply mono_bind_same
      (hl tname { output := aset e.output tname c, pristine := e.pristine, memoPrefix := e.memoPrefix } c tr.root hm0 hc)
    intro ⟨e1, c1⟩ he1
    have he1' : c1.state = .error := he1
    simp only [he1', bne_self_eq_false, Bool.false_and, Bool.false_eq_true, if_false]
    exact he1'

theorem out_mono_succ {env f} (hb : BodyMono env f) : OutMono env (f + 1) := by
  intro e c tname t hm hc
  obtain ⟨_, _, _, _, _, wb⟩ := analysis_wf env f
  simp only [computeOutCtx]
  -- whatever the second body run returns from an error context is bad
  have tail : ∀ (c1 : Ctx) (a : Esc × Ctx × Bool), a.2.1.state = .error →
      Bad c2 (if a.2.2 = true then (pure ({ a.1 with output := aset a.1.output tname a.2.1 }, a.2.1) : Out (Esc × Ctx))
        else if (c1.state != State.error) = true then
          pure ({ a.1 with output := aset a.1.output tname (Ctx.errorCtx .outputContext) }, Ctx.errorCtx .outputContext)
        else pure ({ a.1 with output := aset a.1.output tname c1 }, c1)) := by
    intro c1 a ha
    split
    · exact ha
    · split
      · rfl
      · rename_i h
        show c1.state = .error
        simpa using h
  apply mono_bind (hb e c tname t hm hc)
  · intro ⟨e1, c1, ok⟩ hx hne
    have s1 := wb _ _ _ _ _ hm hc hx
    simp only [] at hne s1 ⊢
    split
    · exact .inl rfl
    · apply mono_bind_same (hb e1 c1 tname t s1.1.1 s1.1.2.1)
      intro a ha
      exact tail c1 a ha
  · intro ⟨e1, c1, ok⟩ hx he
    have s1 := wb _ _ _ _ _ hm hc hx
    simp only [] at he s1 ⊢
    split
    · exact he
    · apply bad_bind
      intro a ha
      exact tail c1 a ((wb _ _ _ _ _ s1.1.1 s1.1.2.1 ha).1.2.2 he)

theorem template_envOff (env : Env) (e : Esc) (n : String) : Esc.template (envOff env) e n = Esc.template env e n := rfl

theorem tree_mono_succ {env f} (ho : OutMono env f) : TreeMono env (f + 1) := by
  intro e c name hm hc
  simp only [escapeTree, template_envOff]
  split
  · exact .inl rfl
  · split
    · exact .inl rfl
    · split
      · exact .inl rfl
      · exact .inl rfl
      · split
        · split
          · refine mono_bind_same (ho _ c _ _ ?_ hc) ?_
            · exact hm
            · intro ⟨e1, c1⟩ he
              exact he
          · refine mono_bind_same (ho _ c _ _ ?_ hc) ?_
            · exact hm
            · intro ⟨e1, c1⟩ he
              exact he
        · refine mono_bind_same (ho _ c _ _ ?_ hc) ?_
          · exact hm
          · intro ⟨e1, c1⟩ he
            exact he

/-- **CSP monotonicity of the analysis**: for all six mutually recursive functions, from a well-formed memo and
    context, the run under `envOff env` returns exactly what the run under `env` returns, unless the latter panics,
    runs out of fuel or ends in an error context. -/
theorem analysis_mono (env : Env) : ∀ f,
    NodeMono env f ∧ ListMono env f ∧ BranchMono env f ∧ TreeMono env f ∧ OutMono env f ∧ BodyMono env f := by
  intro f
  induction f with
  | zero =>
    refine ⟨?_, ?_, ?_, ?_, ?_, ?_⟩
    · intro tn e c n _ _; simp only [escapeNode]; exact .inl rfl
    · intro tn e c l _ _; simp only [escapeList]; exact .inl rfl
    · intro tn e c t el b _ _; simp only [escapeBranch]; exact .inl rfl
    · intro e c name _ _; simp only [escapeTree]; exact .inl rfl
    · intro e c tname t _ _; simp only [computeOutCtx]; exact .inl rfl
    · intro e c tname t _ _; simp only [escapeTemplateBody]; exact .inl rfl
  | succ f ih =>
    obtain ⟨hn, hl, hb, ht, ho, hbd⟩ := ih
    exact ⟨node_mono_succ hb ht, list_mono_succ hn hl, branch_mono_succ hl, tree_mono_succ ho, out_mono_succ hbd,
      body_mono_succ hl⟩

theorem Mono.success {α} {ctx : α → Ctx} {x x' : Out α} (h : Mono ctx x x') {a : α} (hx : x = .ok a)
    (hne : (ctx a).state ≠ .error) : x' = .ok a := by
  rcases h with h | h
  · rw [h, hx]
  · rw [hx] at h; exact absurd h hne

/-! ### 2c. success in CSP mode is the identical success without CSP mode

(`env` is arbitrary; for `env.csp = false` the statements are trivial.) -/

theorem escapeNode_csp_success (env : Env) (f : Nat) (tn : String) (e : Esc) (c : Ctx) (n : Node) (e' : Esc) (c' : Ctx)
    (hm : MemoWF e) (hc : ErrWF c) (h : escapeNode env f tn e c n = .ok (e', c')) (hne : c'.state ≠ .error) :
    escapeNode (envOff env) f tn e c n = .ok (e', c') :=
  ((analysis_mono env f).1 tn e c n hm hc).success h hne

theorem escapeList_csp_success (env : Env) (f : Nat) (tn : String) (e : Esc) (c : Ctx) (l : NodeList) (e' : Esc)
    (c' : Ctx) (hm : MemoWF e) (hc : ErrWF c) (h : escapeList env f tn e c l = .ok (e', c'))
    (hne : c'.state ≠ .error) : escapeList (envOff env) f tn e c l = .ok (e', c') :=
  ((analysis_mono env f).2.1 tn e c l hm hc).success h hne

theorem escapeBranch_csp_success (env : Env) (f : Nat) (tn : String) (e : Esc) (c : Ctx) (t el : NodeList) (b : Bool)
    (e' : Esc) (c' : Ctx) (hm : MemoWF e) (hc : ErrWF c) (h : escapeBranch env f tn e c t el b = .ok (e', c'))
    (hne : c'.state ≠ .error) : escapeBranch (envOff env) f tn e c t el b = .ok (e', c') :=
  ((analysis_mono env f).2.2.1 tn e c t el b hm hc).success h hne

theorem escapeTree_csp_success (env : Env) (f : Nat) (e : Esc) (c : Ctx) (name : String) (e' : Esc) (c' : Ctx)
    (d : String) (hm : MemoWF e) (hc : ErrWF c) (h : escapeTree env f e c name = .ok (e', c', d))
    (hne : c'.state ≠ .error) : escapeTree (envOff env) f e c name = .ok (e', c', d) :=
  ((analysis_mono env f).2.2.2.1 e c name hm hc).success h hne

theorem computeOutCtx_csp_success (env : Env) (f : Nat) (e : Esc) (c : Ctx) (tname : String) (t : Option Tree)
    (e' : Esc) (c' : Ctx) (hm : MemoWF e) (hc : ErrWF c) (h : computeOutCtx env f e c tname t = .ok (e', c'))
    (hne : c'.state ≠ .error) : computeOutCtx (envOff env) f e c tname t = .ok (e', c') :=
  ((analysis_mono env f).2.2.2.2.1 e c tname t hm hc).success h hne

theorem escapeTemplateBody_csp_success (env : Env) (f : Nat) (e : Esc) (c : Ctx) (tname : String) (t : Option Tree)
    (e' : Esc) (c' : Ctx) (ok : Bool) (hm : MemoWF e) (hc : ErrWF c)
    (h : escapeTemplateBody env f e c tname t = .ok (e', c', ok)) (hne : c'.state ≠ .error) :
    escapeTemplateBody (envOff env) f e c tname t = .ok (e', c', ok) :=
  ((analysis_mono env f).2.2.2.2.2 e c tname t hm hc).success h hne

/-! ### 2d. the well-formedness hypothesis cannot be dropped

From an ill-formed "error" context (state `error` but with a delimiter and an RCDATA element name — never produced by
the engine) a text can leave the error state again. Then a CSP refusal inside one arm of an `{{if}}` is swallowed by
`join` (which returns the error context of the other arm), the run with the flag succeeds, and the run without the flag
succeeds with a DIFFERENT escaper state (one more text edit). -/

namespace IllFormed
def cBad : Ctx := { state := .error, delim := .dq, elemName := [116, 101, 120, 116, 97, 114, 101, 97] }
/-- `<<javascript:" ` -/
def elText : Bytes := [60, 60, 106, 97, 118, 97, 115, 99, 114, 105, 112, 116, 58, 34, 32]
/-- `{{if .}}{{else}}<<javascript:" {{end}}" ` -/
def lst : NodeList :=
  NodeList.ofList [.ifN 0 { cmds := [{ args := [.dot] }] } .nil (NodeList.ofList [.text 1 elText]), .text 2 [34, 32]]
def envT : Env := { text := [], nsHas := fun _ => false, csp := true, v := ⟨fun _ => true, fun _ => true, fun _ => false⟩ }
def view (r : Out (Esc × Ctx)) : Option (Nat × State) :=
  match r with
  | .ok (e, c) => some (e.textEdits.length, c.state)
  | _ => none

example : ¬ ErrWF cBad := fun h => by
  obtain ⟨code, hc⟩ := h rfl
  have := congrArg Ctx.delim hc
  cases this

example : view (escapeList envT 10 "t" {} cBad lst) = some (0, .tag) ∧
    view (escapeList (envOff envT) 10 "t" {} cBad lst) = some (1, .tag) := by decide +kernel
end IllFormed

/-! ## 3. API level -/

/-- a name space / a world with the CSP flag(s) cleared -/
def nsOff (n : NS) : NS := { n with csp := false }
def wOff (w : World) : World := { w with nss := w.nss.map (fun p => (p.1, nsOff p.2)) }

theorem nlookup_map {β} (g : β → β) (l : List (Nat × β)) (k : Nat) :
    nlookup (l.map (fun p => (p.1, g p.2))) k = (nlookup l k).map g := by
  induction l with
  | nil => rfl
  | cons q t ih =>
    unfold nlookup at ih ⊢
    simp only [List.map_cons, List.find?_cons]
    split
    · rfl
    · exact ih

theorem ns_wOff (w : World) (k : Nat) : (wOff w).ns k = nsOff (w.ns k) := by
  unfold World.ns wOff
  simp only [nlookup_map]
  cases nlookup w.nss k <;> rfl

theorem nset_map {β} (g : β → β) (l : List (Nat × β)) (k : Nat) (v : β) :
    (nset l k v).map (fun p => (p.1, g p.2)) = nset (l.map (fun p => (p.1, g p.2))) k (g v) := by
  unfold nset
  simp only [List.map_cons, List.filter_map]
  rfl

theorem setNs_wOff (w : World) (k : Nat) (n : NS) : wOff (w.setNs k n) = (wOff w).setNs k (nsOff n) := by
  unfold wOff World.setNs
  simp only [nset_map]

theorem setObj_wOff (w : World) (k : Nat) (o : TObj) : wOff (w.setObj k o) = (wOff w).setObj k o := rfl
theorem obj_wOff (w : World) (h : Nat) : (wOff w).obj h = w.obj h := rfl
theorem objs_wOff (w : World) : (wOff w).objs = w.objs := rfl

theorem markOk_wOff (w : World) (k : Nat) (name : String) (t : TextSet) (e : Esc) :
    wOff (markOk w k name t e) = markOk (wOff w) k name t e := by
  unfold markOk
  simp only [ns_wOff]
  have h1 : (wOff w).setNs k { nsOff (w.ns k) with esc := e, text := t } =
      wOff (w.setNs k { w.ns k with esc := e, text := t }) := (setNs_wOff w k { w.ns k with esc := e, text := t }).symm
  rw [h1]
  have h2 : (nsOff (w.ns k)).set = (w.ns k).set := rfl
  rw [h2]
  cases alookup (w.ns k).set name with
  | none => rfl
  | some oid =>
    simp only [objs_wOff]
    cases nlookup (w.setNs k { w.ns k with esc := e, text := t }).objs oid with
    | none => rfl
    | some o => rfl

theorem textExecute_wOff (w : World) (o : TObj) (d : Value) : textExecute (wOff w) o d = textExecute w o d := by
  unfold textExecute
  simp only [ns_wOff]
  rfl

/-- the analysis environment of name space `k` -/
def envOf (w : World) (k : Nat) : Env :=
  { text := (w.ns k).text, nsHas := fun n => (alookup (w.ns k).set n).isSome, csp := (w.ns k).csp, v := w.v }

theorem envOf_wOff (w : World) (k : Nat) : envOf (wOff w) k = envOff (envOf w k) := by
  unfold envOf envOff
  simp only [ns_wOff]
  rfl

/-- **escapeTemplateTop**: an analysis that succeeds (and commits) in a CSP-compatible set succeeds in the same way,
    with the same committed trees and escaper state, in the same set without the flag. -/
theorem escapeTemplateTop_wOff (w : World) (k : Nat) (name : String) (w' : World)
    (hwf : MemoWF (w.ns k).esc) (h : escapeTemplateTop w k name = .inr (w', none)) :
    escapeTemplateTop (wOff w) k name = .inr (wOff w', none) := by
  unfold escapeTemplateTop at h ⊢
  simp only [ns_wOff] at h ⊢
  have hfu : (wOff w).fuel = w.fuel := rfl
  have hes : (nsOff (w.ns k)).esc = (w.ns k).esc := rfl
  have ht : (nsOff (w.ns k)).text = (w.ns k).text := rfl
  have henv : ({ text := (w.ns k).text, nsHas := fun n => (alookup (nsOff (w.ns k)).set n).isSome,
                 csp := (nsOff (w.ns k)).csp, v := (wOff w).v } : Env) = envOff (envOf w k) := rfl
  rw [hfu, hes, ht, henv]
  cases hr : escapeTree (envOf w k) w.fuel (w.ns k).esc {} name with
  | panic m => unfold envOf at hr; rw [hr] at h; cases h
  | fuel => unfold envOf at hr; rw [hr] at h; cases h
  | ok r =>
    obtain ⟨e, c, d⟩ := r
    unfold envOf at hr
    rw [hr] at h
    simp only [] at h
    cases hf : finalError c with
    | some code => rw [hf] at h; cases h
    | none =>
      rw [hf] at h
      simp only [] at h
      have hoff := escapeTree_csp_success _ _ _ _ _ _ _ _ hwf (errwf_of_ne (by decide)) hr
        (by rw [finalError_text c hf]; decide)
      have hoff' : escapeTree (envOff (envOf w k)) w.fuel (w.ns k).esc {} name = .ok (e, c, d) := hoff
      rw [hoff']
      simp only [hf]
      cases hcm : commit (w.ns k).text e with
      | panic m => rw [hcm] at h; cases h
      | fuel => rw [hcm] at h; cases h
      | ok r2 =>
        obtain ⟨t2, e2⟩ := r2
        rw [hcm] at h
        simp only [] at h
        cases h
        simp only [markOk_wOff]

/-- every memo table of the world is well formed (true in every world the API can reach; trivially true for
    fresh sets) -/
def WorldWF (w : World) : Prop := ∀ k, MemoWF (w.ns k).esc

theorem setEscaped_wOff (w : World) (k : Nat) :
    (wOff w).setNs k { nsOff (w.ns k) with escaped := true } = wOff (w.setNs k { w.ns k with escaped := true }) :=
  (setNs_wOff w k { w.ns k with escaped := true }).symm

theorem memoWF_setEscaped (w : World) (k : Nat) (hwf : WorldWF w) (j : Nat) :
    MemoWF ((w.setNs k { w.ns k with escaped := true }).ns j).esc := by
  by_cases hj : j = k
  · subst hj; rw [ns_setNs_same]; exact hwf j
  · rw [ns_setNs_other _ _ _ _ hj]; exact hwf j

/-- **Execute**: a successful execution in a CSP-compatible set is the same successful execution (same output,
    same resulting world up to the flags) in the set without the flag. -/
theorem apiExecute_wOff (w : World) (h : Nat) (d : Value) (w1 : World) (o : Bytes) (hwf : WorldWF w)
    (hx : apiExecute w h d = (w1, .ok o)) : apiExecute (wOff w) h d = (wOff w1, .ok o) := by
  unfold apiExecute at hx ⊢
  rw [obj_wOff]
  cases hobj : w.obj h with
  | none => rw [hobj] at hx; cases hx
  | some p =>
    obtain ⟨oid, ob⟩ := p
    rw [hobj] at hx
    simp only [ns_wOff, setEscaped_wOff] at hx ⊢
    cases hst : ob.status with
    | failed code => rw [hst] at hx; cases hx
    | ok =>
      rw [hst] at hx
      simp only [] at hx ⊢
      obtain ⟨hw, hr⟩ := Prod.mk.inj hx
      subst hw
      rw [textExecute_wOff, hr]
    | unset =>
      rw [hst] at hx
      simp only [] at hx ⊢
      split
      · rename_i htn; rw [if_pos htn] at hx; cases hx
      · rename_i htn
        rw [if_neg htn] at hx
        cases htop : escapeTemplateTop (w.setNs ob.ns { w.ns ob.ns with escaped := true }) ob.ns ob.name with
        | inl r =>
          rw [htop] at hx
          rcases Independence.top_shape _ _ _ _ htop with rfl | ⟨m, rfl⟩ <;> cases hx
        | inr q =>
          obtain ⟨w', oc⟩ := q
          rw [htop] at hx
          cases oc with
          | some code => cases hx
          | none =>
            simp only [] at hx
            rw [escapeTemplateTop_wOff _ _ _ w' (memoWF_setEscaped w ob.ns hwf ob.ns) htop]
            simp only [objs_wOff]
            cases hl : nlookup w'.objs oid with
            | none => rw [hl] at hx; cases hx
            | some o' =>
              rw [hl] at hx
              simp only [] at hx ⊢
              obtain ⟨hw, hr⟩ := Prod.mk.inj hx
              subst hw
              rw [textExecute_wOff, hr]

theorem apiExecuteTemplate_wOff (w : World) (h : Nat) (name : String) (d : Value) (w1 : World) (o : Bytes)
    (hwf : WorldWF w) (hx : apiExecuteTemplate w h name d = (w1, .ok o)) :
    apiExecuteTemplate (wOff w) h name d = (wOff w1, .ok o) := by
  unfold apiExecuteTemplate at hx ⊢
  rw [obj_wOff]
  cases hobj : w.obj h with
  | none => rw [hobj] at hx; cases hx
  | some p =>
    obtain ⟨oid, ob⟩ := p
    rw [hobj] at hx
    simp only [ns_wOff, setEscaped_wOff] at hx ⊢
    simp only [nsOff, objs_wOff] at hx ⊢
    have hWwf := memoWF_setEscaped w ob.ns hwf ob.ns
    simp only [] at hWwf
    generalize w.setNs ob.ns { set := (w.ns ob.ns).set, escaped := true, csp := (w.ns ob.ns).csp,
                               esc := (w.ns ob.ns).esc, text := (w.ns ob.ns).text } = W at hx hWwf ⊢
    cases hal : alookup (w.ns ob.ns).set name with
    | none => rw [hal] at hx; cases hx
    | some tid =>
      rw [hal] at hx
      simp only [] at hx ⊢
      cases hl : nlookup W.objs tid with
      | none => rw [hl] at hx; cases hx
      | some t =>
        rw [hl] at hx
        simp only [] at hx ⊢
        have key : ∀ (A B : Bool) (st : Status),
            (if A = true then (W, Res.err "incomplete" [])
              else if B = true then (W, Res.panic "template escaping out of sync")
              else if (st == Status.unset) = true then
                match escapeTemplateTop W ob.ns name with
                | Sum.inl r => (W, r)
                | Sum.inr (w', some code) => (w', Res.err (analysisCls code) [])
                | Sum.inr (w', none) =>
                  match nlookup w'.objs tid with
                  | some t' => (w', textExecute w' t' d)
                  | none => (w', Res.unsupported)
              else (W, textExecute W t d)) = (w1, Res.ok o) →
            (if A = true then (wOff W, Res.err "incomplete" [])
              else if B = true then (wOff W, Res.panic "template escaping out of sync")
              else if (st == Status.unset) = true then
                match escapeTemplateTop (wOff W) ob.ns name with
                | Sum.inl r => (wOff W, r)
                | Sum.inr (w', some code) => (w', Res.err (analysisCls code) [])
                | Sum.inr (w', none) =>
                  match nlookup w'.objs tid with
                  | some t' => (w', textExecute w' t' d)
                  | none => (w', Res.unsupported)
              else (wOff W, textExecute (wOff W) t d)) = (wOff w1, Res.ok o) := by
          intro A B st hx
          split
          · rename_i h1; rw [if_pos h1] at hx; cases hx
          · rename_i h1
            rw [if_neg h1] at hx
            split
            · rename_i h2; rw [if_pos h2] at hx; cases hx
            · rename_i h2
              rw [if_neg h2] at hx
              split
              · rename_i h3
                rw [if_pos h3] at hx
                cases htop : escapeTemplateTop W ob.ns name with
                | inl r =>
                  rw [htop] at hx
                  rcases Independence.top_shape _ _ _ _ htop with rfl | ⟨m, rfl⟩ <;> cases hx
                | inr q =>
                  obtain ⟨w', oc⟩ := q
                  rw [htop] at hx
                  cases oc with
                  | some code => cases hx
                  | none =>
                    simp only [] at hx
                    rw [escapeTemplateTop_wOff _ _ _ w' hWwf htop]
                    simp only [objs_wOff]
                    cases hl' : nlookup w'.objs tid with
                    | none => rw [hl'] at hx; cases hx
                    | some t' =>
                      rw [hl'] at hx
                      simp only [] at hx ⊢
                      obtain ⟨hw, hr⟩ := Prod.mk.inj hx
                      subst hw
                      rw [textExecute_wOff, hr]
              · rename_i h3
                rw [if_neg h3] at hx
                obtain ⟨hw, hr⟩ := Prod.mk.inj hx
                subst hw
                rw [textExecute_wOff, hr]
        cases hst : t.status with
        | failed code => rw [hst] at hx; cases hx
        | ok => rw [hst] at hx; exact key _ _ _ hx
        | unset => rw [hst] at hx; exact key _ _ _ hx

/-- **`Api.step`, `Execute`**: a successful execution in a CSP-compatible set is also a successful execution, with
    the same output bytes and the same resulting world (up to the flags), in the same set without the flag. -/
theorem step_exec_wOff (w : World) (h : Nat) (d : Value) (w1 : World) (o : Bytes) (hwf : WorldWF w)
    (hx : Api.step w (.exec h d) = (w1, .exec (.ok o))) :
    Api.step (wOff w) (.exec h d) = (wOff w1, .exec (.ok o)) := by
  simp only [Api.step] at hx ⊢
  cases hq : apiExecute w h d with
  | mk w' r =>
    rw [hq] at hx
    simp only [Prod.mk.injEq, Ret.exec.injEq] at hx
    obtain ⟨rfl, rfl⟩ := hx
    rw [apiExecute_wOff w h d w' o hwf hq]

/-- **`Api.step`, `ExecuteTemplate`** -/
theorem step_execT_wOff (w : World) (h : Nat) (name : String) (d : Value) (w1 : World) (o : Bytes) (hwf : WorldWF w)
    (hx : Api.step w (.execT h name d) = (w1, .exec (.ok o))) :
    Api.step (wOff w) (.execT h name d) = (wOff w1, .exec (.ok o)) := by
  simp only [Api.step] at hx ⊢
  cases hq : apiExecuteTemplate w h name d with
  | mk w' r =>
    rw [hq] at hx
    simp only [Prod.mk.injEq, Ret.exec.injEq] at hx
    obtain ⟨rfl, rfl⟩ := hx
    rw [apiExecuteTemplate_wOff w h name d w' o hwf hq]

theorem zeroOnError_ok {r : Res} {o : Bytes} (h : zeroOnError r = .ok o) : r = .ok o := by
  cases r <;> first | exact h | cases h

/-- **`Api.step`, `ExecuteToHTML`** -/
theorem step_execHTML_wOff (w : World) (h : Nat) (d : Value) (w1 : World) (o : Bytes) (hwf : WorldWF w)
    (hx : Api.step w (.execHTML h d) = (w1, .html (.ok o))) :
    Api.step (wOff w) (.execHTML h d) = (wOff w1, .html (.ok o)) := by
  simp only [Api.step] at hx ⊢
  cases hq : apiExecute w h d with
  | mk w' r =>
    rw [hq] at hx
    simp only [Prod.mk.injEq, Ret.html.injEq] at hx
    obtain ⟨rfl, hr⟩ := hx
    have := zeroOnError_ok hr
    subst this
    rw [apiExecute_wOff w h d w' o hwf hq]
    rfl

/-- **`Api.step`, `ExecuteTemplateToHTML`** -/
theorem step_execTHTML_wOff (w : World) (h : Nat) (name : String) (d : Value) (w1 : World) (o : Bytes)
    (hwf : WorldWF w) (hx : Api.step w (.execTHTML h name d) = (w1, .html (.ok o))) :
    Api.step (wOff w) (.execTHTML h name d) = (wOff w1, .html (.ok o)) := by
  simp only [Api.step] at hx ⊢
  cases hq : apiExecuteTemplate w h name d with
  | mk w' r =>
    rw [hq] at hx
    simp only [Prod.mk.injEq, Ret.html.injEq] at hx
    obtain ⟨rfl, hr⟩ := hx
    have := zeroOnError_ok hr
    subst this
    rw [apiExecuteTemplate_wOff w h name d w' o hwf hq]
    rfl

/-! the hypothesis `WorldWF` holds in every world a program can build -/

theorem worldWF_of_good (w : World) (h : ∀ k, GoodNs (w.ns k)) : WorldWF w :=
  fun k => memoWF_of_base (h k).1

theorem worldWF_reachable (w : World) (h : ConcReach.Reachable w) : WorldWF w :=
  worldWF_of_good w (ConcReach.invR_reachable w h).1.1

/-- `step_exec_wOff` for reachable worlds: no hypothesis other than reachability -/
theorem step_exec_wOff_reachable (w : World) (hr : ConcReach.Reachable w) (h : Nat) (d : Value) (w1 : World)
    (o : Bytes) (hx : Api.step w (.exec h d) = (w1, .exec (.ok o))) :
    Api.step (wOff w) (.exec h d) = (wOff w1, .exec (.ok o)) :=
  step_exec_wOff w h d w1 o (worldWF_reachable w hr) hx

theorem step_execT_wOff_reachable (w : World) (hr : ConcReach.Reachable w) (h : Nat) (name : String) (d : Value)
    (w1 : World) (o : Bytes) (hx : Api.step w (.execT h name d) = (w1, .exec (.ok o))) :
    Api.step (wOff w) (.execT h name d) = (wOff w1, .exec (.ok o)) :=
  step_execT_wOff w h name d w1 o (worldWF_reachable w hr) hx

/-! ## 4. transfer of the end-to-end theorems to CSP-compatible sets -/

section Transfer
open SafeHtml.Spec SafeHtml.Spec.HtmlTok SafeHtml.Proofs.HtmlTokSim
open SafeHtml.Proofs.Layer3 SafeHtml.Proofs.Layer3E2E SafeHtml.Proofs.Layer3Branch
open SafeHtml.Proofs.Layer3Calls SafeHtml.Proofs.Layer3Helpers
open SafeHtml.Props.C02 (Untrusted)

/-- `t := New(name); t.Parse(text); t.CSPCompatible()` -/
def setupCsp (v : Validators) (fuel : Nat) (name : String) (tr : Tree) : World :=
  Api.run (world0 v fuel) [.new 0 name, .parse 0 [tr], .csp 0]

theorem world0_reachable (v : Validators) (fuel : Nat) : ConcReach.Reachable (world0 v fuel) :=
  .init _ ⟨rfl, rfl⟩

theorem setupCsp_wf (v : Validators) (fuel : Nat) (name : String) (tr : Tree) : WorldWF (setupCsp v fuel name tr) :=
  worldWF_reachable _ (ConcReach.reachable_run _ _ (world0_reachable v fuel))

/-- the flag really is set -/
theorem setupCsp_flag (v : Validators) (fuel : Nat) (name : String) (tr : Tree) (hn : tr.name = name) :
    ((setupCsp v fuel name tr).ns 0).csp = true := by
  have h : setupCsp v fuel name tr = (Api.step (setup v fuel name tr) (.csp 0)).1 := rfl
  rw [h, setup_eq v fuel name tr hn]
  simp [Api.step, setupW, World.obj, nlookup, World.ns, World.setNs, nset, bind, Option.bind]

/-- clearing the flag gives back the set of `Layer3Calls.setup` -/
theorem setupCsp_off (v : Validators) (fuel : Nat) (name : String) (tr : Tree) (hn : tr.name = name) :
    wOff (setupCsp v fuel name tr) = setup v fuel name tr := by
  have h : setupCsp v fuel name tr = (Api.step (setup v fuel name tr) (.csp 0)).1 := rfl
  rw [h, setup_eq v fuel name tr hn]
  simp [Api.step, setupW, World.obj, nlookup, World.ns, World.setNs, nset, bind, Option.bind, wOff, nsOff]

/-- **C01 for a single straight-line template in a CSP-compatible set** (`New`, `Parse`, `CSPCompatible`, then
    `Execute`): two successful executions with untrusted data give the same markup skeleton and end in the data state.
    Corollary of `step_exec_wOff` and `Layer3Calls.C01_api_single_template`. -/
theorem C01_api_single_template_csp (v : Validators) (fuel : Nat) (name : String) (tr : Tree) (ps : List Piece)
    (as : List Arg) (has : ∀ a ∈ as, ActArg a) (cf : Ctx) (es : List EPiece) (hn : tr.name = name)
    (hroot : tr.root = NodeList.ofList (toNodesA 0 ps as)) (hs : SimpleAll v {} ps)
    (ha : analyse v {} ps = some (cf, es)) (hfin : finalError cf = none) (hf : ps.length + 4 ≤ fuel)
    (d1 d2 : Value) (hu1 : LeavesUntrusted d1 as) (hu2 : LeavesUntrusted d2 as) (o1 o2 : Bytes) (w1 w2 : World)
    (h1 : Api.step (setupCsp v fuel name tr) (.exec 0 d1) = (w1, .exec (.ok o1)))
    (h2 : Api.step (setupCsp v fuel name tr) (.exec 0 d2) = (w2, .exec (.ok o2))) :
    skeleton (HtmlTok.tokenize o1).tokens = skeleton (HtmlTok.tokenize o2).tokens ∧
    (HtmlTok.tokenize o1).final = .data ∧ (HtmlTok.tokenize o2).final = .data := by
  have k1 := step_exec_wOff _ _ _ _ _ (setupCsp_wf v fuel name tr) h1
  have k2 := step_exec_wOff _ _ _ _ _ (setupCsp_wf v fuel name tr) h2
  rw [setupCsp_off v fuel name tr hn] at k1 k2
  exact C01_api_single_template v fuel name tr ps as has cf es hn hroot hs ha hfin hf d1 d2 hu1 hu2 o1 o2 _ _ k1 k2

/-- the same for `t.ExecuteTemplate(name, d)` -/
theorem C01_api_single_template_execT_csp (v : Validators) (fuel : Nat) (name : String) (tr : Tree) (ps : List Piece)
    (as : List Arg) (has : ∀ a ∈ as, ActArg a) (cf : Ctx) (es : List EPiece) (hn : tr.name = name)
    (hroot : tr.root = NodeList.ofList (toNodesA 0 ps as)) (hs : SimpleAll v {} ps)
    (ha : analyse v {} ps = some (cf, es)) (hfin : finalError cf = none) (hf : ps.length + 4 ≤ fuel)
    (d1 d2 : Value) (hu1 : LeavesUntrusted d1 as) (hu2 : LeavesUntrusted d2 as) (o1 o2 : Bytes) (w1 w2 : World)
    (h1 : Api.step (setupCsp v fuel name tr) (.execT 0 name d1) = (w1, .exec (.ok o1)))
    (h2 : Api.step (setupCsp v fuel name tr) (.execT 0 name d2) = (w2, .exec (.ok o2))) :
    skeleton (HtmlTok.tokenize o1).tokens = skeleton (HtmlTok.tokenize o2).tokens ∧
    (HtmlTok.tokenize o1).final = .data ∧ (HtmlTok.tokenize o2).final = .data := by
  have k1 := step_execT_wOff _ _ _ _ _ _ (setupCsp_wf v fuel name tr) h1
  have k2 := step_execT_wOff _ _ _ _ _ _ (setupCsp_wf v fuel name tr) h2
  rw [setupCsp_off v fuel name tr hn] at k1 k2
  exact C01_api_single_template_execT v fuel name tr ps as has cf es hn hroot hs ha hfin hf d1 d2 hu1 hu2 o1 o2 _ _
    k1 k2

/-- **C01 for a template with `if` / `with` / `range` in a CSP-compatible set** -/
theorem C01_api_branch_template_csp (v : Validators) (fuel : Nat) (name : String) (tr : Tree) (tps : TPs) (cf : Ctx)
    (es : ERs) (hn : tr.name = name) (hroot : tr.root = nodesTL 0 tps) (hok : ArgsOKL tps)
    (hs : SimpleRL v {} (eraseL tps)) (ha : analyseRL v {} (eraseL tps) = some (cf, es))
    (hfin : finalError cf = none) (hf : fuelRL (eraseL tps) + 3 ≤ fuel) (d1 d2 : Value)
    (hpath : pathL tps d1 d1 = pathL tps d2 d2)
    (hu1 : ∀ x ∈ valsL tps d1 d1, Untrusted x) (hu2 : ∀ x ∈ valsL tps d2 d2, Untrusted x)
    (o1 o2 : Bytes) (w1 w2 : World)
    (h1 : Api.step (setupCsp v fuel name tr) (.exec 0 d1) = (w1, .exec (.ok o1)))
    (h2 : Api.step (setupCsp v fuel name tr) (.exec 0 d2) = (w2, .exec (.ok o2))) :
    skeleton (HtmlTok.tokenize o1).tokens = skeleton (HtmlTok.tokenize o2).tokens ∧
    (HtmlTok.tokenize o1).final = .data ∧ (HtmlTok.tokenize o2).final = .data := by
  have k1 := step_exec_wOff _ _ _ _ _ (setupCsp_wf v fuel name tr) h1
  have k2 := step_exec_wOff _ _ _ _ _ (setupCsp_wf v fuel name tr) h2
  rw [setupCsp_off v fuel name tr hn] at k1 k2
  exact C01_api_branch_template v fuel name tr tps cf es hn hroot hok hs ha hfin hf d1 d2 hpath hu1 hu2 o1 o2 _ _ k1 k2

/-- `t := New(m); t.Parse(text)` (main template `m` and `{{define "h"}}…{{end}}`); `t.CSPCompatible()` -/
def setupCsp2 (v : Validators) (fuel : Nat) (m : String) (trm trh : Tree) : World :=
  Api.run (world0 v fuel) [.new 0 m, .parse 0 [trm, trh], .csp 0]

theorem setupCsp2_wf (v : Validators) (fuel : Nat) (m : String) (trm trh : Tree) :
    WorldWF (setupCsp2 v fuel m trm trh) :=
  worldWF_reachable _ (ConcReach.reachable_run _ _ (world0_reachable v fuel))

theorem setupCsp2_off (v : Validators) (fuel : Nat) (m h : String) (hmh : m ≠ h) (trm trh : Tree)
    (hnm : trm.name = m) (hnh : trh.name = h) : wOff (setupCsp2 v fuel m trm trh) = setup2 v fuel m trm trh := by
  have hh : setupCsp2 v fuel m trm trh = (Api.step (setup2 v fuel m trm trh) (.csp 0)).1 := rfl
  rw [hh, setup2_eq v fuel m h hmh trm trh hnm hnh]
  simp [Api.step, setupW2, World.obj, nlookup, World.ns, World.setNs, nset, bind, Option.bind, wOff, nsOff]

/-- **C01 for a main template calling a helper, in a CSP-compatible set** -/
theorem C01_api_main_plus_helper_csp (v : Validators) (fuel : Nat) (m h : String) (hmh : m ≠ h) (trm trh : Tree)
    (ms : List MP) (hps : List Piece) (asH : List Arg) (cf : Ctx) (es : List EM) (esH : List EPiece)
    (hnm : trm.name = m) (hnh : trh.name = h)
    (hrootM : trm.root = NodeList.ofList (nodesM h 0 ms))
    (hrootH : trh.root = NodeList.ofList (toNodesA 0 hps asH))
    (hokM : ArgsOKM ms) (hasH : ∀ a ∈ asH, ActArg a) (hcall : MP.call ∈ ms)
    (hH : analyse v {} hps = some ({}, esH)) (hM : analyseM v {} ms = some (cf, es))
    (hs : SimpleAll v {} (inlineP hps ms))
    (hfin : finalError cf = none) (hf : ms.length + hps.length + 9 ≤ fuel) (d1 d2 : Value)
    (hu1 : ∀ vs, valsM d1 esH asH es = some vs → ∀ x ∈ vs, Untrusted x)
    (hu2 : ∀ vs, valsM d2 esH asH es = some vs → ∀ x ∈ vs, Untrusted x)
    (o1 o2 : Bytes) (w1 w2 : World)
    (h1 : Api.step (setupCsp2 v fuel m trm trh) (.exec 0 d1) = (w1, .exec (.ok o1)))
    (h2 : Api.step (setupCsp2 v fuel m trm trh) (.exec 0 d2) = (w2, .exec (.ok o2))) :
    skeleton (HtmlTok.tokenize o1).tokens = skeleton (HtmlTok.tokenize o2).tokens ∧
    (HtmlTok.tokenize o1).final = .data ∧ (HtmlTok.tokenize o2).final = .data := by
  have k1 := step_exec_wOff _ _ _ _ _ (setupCsp2_wf v fuel m trm trh) h1
  have k2 := step_exec_wOff _ _ _ _ _ (setupCsp2_wf v fuel m trm trh) h2
  rw [setupCsp2_off v fuel m h hmh trm trh hnm hnh] at k1 k2
  exact C01_api_main_plus_helper v fuel m h hmh trm trh ms hps asH cf es esH hnm hnh hrootM hrootH hokM hasH hcall hH hM
    hs hfin hf d1 d2 hu1 hu2 o1 o2 _ _ k1 k2

/-! ### non-vacuity through the whole state machine (kernel evaluation) -/

/-- `<p title="{{.T}}">{{.T}}</p>` in a CSP-compatible set: `Execute` returns `ok` -/
example : retOk (Api.step (setupCsp v0 100 "t" exTree) (.exec 0 (exData [34, 62, 60]))).2 = true := by
  decide +kernel

/-- … and the transferred theorem applies to it -/
theorem ex_api_csp (b1 b2 o1 o2 : Bytes) (w1 w2 : World)
    (h1 : Api.step (setupCsp v0 100 "t" exTree) (.exec 0 (exData b1)) = (w1, .exec (.ok o1)))
    (h2 : Api.step (setupCsp v0 100 "t" exTree) (.exec 0 (exData b2)) = (w2, .exec (.ok o2))) :
    skeleton (HtmlTok.tokenize o1).tokens = skeleton (HtmlTok.tokenize o2).tokens ∧
    (HtmlTok.tokenize o1).final = .data ∧ (HtmlTok.tokenize o2).final = .data :=
  C01_api_single_template_csp v0 100 "t" exTree exTemplate exArgs
    (by intro a ha; simp [exArgs] at ha; subst ha; exact Or.inr ⟨_, rfl⟩) {} exOut rfl rfl ex_simpleAll ex_analyse
    (by decide) (by decide) _ _ (exData_untrusted b1) (exData_untrusted b2) o1 o2 w1 w2 h1 h2

/-- the static template `<a onclick="x">` -/
def onTree : Tree :=
  { name := "t", root := NodeList.ofList [.text 0 [60, 97, 32, 111, 110, 99, 108, 105, 99, 107, 61, 34, 120, 34, 62]] }

/-- refused (`ErrCSPCompatibility`) in the CSP-compatible set, executed in the plain set: the converse of
    `step_exec_wOff` does not hold -/
example : (Api.step (setupCsp v0 100 "t" onTree) (.exec 0 .noValue)).2.str = "err:analysis:ErrCSPCompatibility -" ∧
    (Api.step (setup v0 100 "t" onTree) (.exec 0 .noValue)).2.str = "ok 3c61206f6e636c69636b3d2278223e" := by
  decide +kernel

end Transfer

end SafeHtml.Proofs.CspMono
