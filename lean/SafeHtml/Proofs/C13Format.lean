/-
C13 helper lemmas: `ReplaceAllStringFunc` with the regenerated marker regex is the spec's
left-to-right marker scanner (`Spec.TruUrl.pieces`), and what `trustedResourceURLFormat` returns.
-/
import SafeHtml.Model.Tru
import SafeHtml.Spec.TruUrl
import SafeHtml.Proofs.RxSeq
import SafeHtml.Proofs.C13Escape
namespace SafeHtml.Proofs.C13
open SafeHtml SafeHtml.Rx SafeHtml.Model SafeHtml.Spec.Rfc3986 SafeHtml.Spec.TruUrl
open SafeHtml.Generated.Regexes

def wordCls : List (Nat × Nat) := [(48, 57), (65, 90), (95, 95), (97, 122)]

theorem inCls_word : inCls wordCls = isWord := by
  funext b
  simp only [inCls, wordCls, List.any, isWord, isAlnum, isDigit, isAlpha, isLowerAlpha, isUpperAlpha, Bool.or_false]
  rw [Bool.eq_iff_iff]; simp; omega

/-- byte-level match lengths of the regenerated marker regex -/
theorem lensB_marker (s : Bytes) :
    lensB markerRe s =
      if matchSeq [[(37, 37)], [(123, 123)]] s then
        (if 1 ≤ spanB wordCls (s.drop 2) && headIn [(125, 125)] ((s.drop 2).drop (spanB wordCls (s.drop 2)))
          then [2 + (spanB wordCls (s.drop 2) + 1)] else [])
      else [] := by
  -- obligation: this `rfl` breaks when the marker regex in trustedresourceurl.go is edited
  have hre : markerRe = .cat (.cat (.cls [(37, 37)]) (.cls [(123, 123)]))
      (.cat (Re.plus (.cls wordCls) true) (.cls [(125, 125)])) := rfl
  rw [hre]
  have h1 := lensB_clsSeq (.cat (.cls [(37, 37)]) (.cls [(123, 123)])) [[(37, 37)], [(123, 123)]] rfl s
  rw [lensB_cat_single _ _ s _ 2 h1]
  have hd : ∀ b, inCls [(125, 125)] b = true → inCls wordCls b = false := by
    intro b hb
    simp only [inCls, List.any, Bool.or_false, Bool.and_eq_true, decide_eq_true_eq] at hb
    simp only [inCls, wordCls, List.any, Bool.or_false]
    rw [Bool.eq_false_iff]; simp; omega
  rw [lensB_plus_then _ _ hd]
  by_cases c1 : matchSeq [[(37, 37)], [(123, 123)]] s = true
  · rw [if_pos c1, if_pos c1]
    split <;> rfl
  · rw [if_neg c1, if_neg c1]

theorem markerAt_lens (s : Bytes) :
    (lensB markerRe s).head? = (markerAt s).map (fun p => p.1.length + 3) := by
  rw [lensB_marker]
  match s with
  | [] => simp [matchSeq, markerAt]
  | [a] => simp [matchSeq, markerAt]
  | a :: b :: t =>
    simp only [matchSeq, inCls, List.any, Bool.or_false, Bool.and_true, List.drop_succ_cons, List.drop_zero]
    by_cases ha : a = 37
    · by_cases hb : b = 123
      · subst ha; subst hb
        simp only [Nat.le_refl, Bool.and_self, decide_true, if_true, markerAt]
        rw [spanB_eq_takeWhile, inCls_word]
        generalize hw : List.takeWhile isWord t = w
        cases hd : t.drop w.length with
        | nil => simp [headIn]
        | cons c rest =>
          by_cases hc : c = 125
          · subst hc
            cases w with
            | nil => simp [headIn, inCls]
            | cons x xs => simp [headIn, inCls]; omega
          · have : headIn [(125, 125)] (c :: rest) = false := by
              simp [headIn, inCls]; omega
            simp only [this, Bool.and_false]
            simp
            split <;> simp_all
      · subst ha
        have hm : markerAt (37 :: b :: t) = none := by
          unfold markerAt; split
          · rename_i heq; simp only [List.cons.injEq, true_and] at heq; omega
          · rfl
        have hc : (decide (123 ≤ b) && decide (b ≤ 123)) = false := by
          rw [Bool.eq_false_iff]; simp; omega
        simp [hm, hc]
    · have hm : markerAt (a :: b :: t) = none := by
        unfold markerAt; split
        · rename_i heq; simp only [List.cons.injEq] at heq; omega
        · rfl
      have hc : (decide (37 ≤ a) && decide (a ≤ 37)) = false := by
        rw [Bool.eq_false_iff]; simp; omega
      simp [hm, hc]

theorem drop_takeWhile_length (p : Nat → Bool) (l : List Nat) :
    l = l.takeWhile p ++ l.drop (l.takeWhile p).length := by
  induction l with
  | nil => simp
  | cons c t ih =>
    simp only [List.takeWhile_cons]
    split
    · simp only [List.length_cons, List.drop_succ_cons, List.cons_append]; rw [← ih]
    · simp

theorem take_len_succ (w r : List Nat) (c : Nat) : (w ++ c :: r).take (w.length + 1) = w ++ [c] := by
  induction w with
  | nil => simp
  | cons x xs ih => simp only [List.cons_append, List.length_cons, List.take_succ_cons, ih]

theorem drop_len_succ (w r : List Nat) (c : Nat) : (w ++ c :: r).drop (w.length + 1) = r := by
  induction w with
  | nil => simp
  | cons x xs ih => simp only [List.cons_append, List.length_cons, List.drop_succ_cons, ih]

theorem markerAt_shape (s lab rest : Bytes) (h : markerAt s = some (lab, rest)) :
    s = 37 :: 123 :: (lab ++ 125 :: rest) ∧ s.take (lab.length + 3) = 37 :: 123 :: (lab ++ [125]) ∧
      s.drop (lab.length + 3) = rest := by
  unfold markerAt at h
  split at h
  · rename_i t
    simp only at h
    have ht := drop_takeWhile_length isWord t
    generalize List.takeWhile isWord t = w at h ht
    split at h
    · rename_i r hd
      rw [hd] at ht
      split at h
      · simp at h
      · simp only [Option.some.injEq, Prod.mk.injEq] at h
        obtain ⟨h1, h2⟩ := h
        subst h1; subst h2
        subst ht
        refine ⟨rfl, ?_, ?_⟩
        · show List.take (w.length + 1 + 2) _ = _
          simp only [List.take_succ_cons, take_len_succ]
        · show List.drop (w.length + 1 + 2) _ = _
          simp only [List.drop_succ_cons, drop_len_succ]
    · simp at h
  · simp at h

/-- what the model's closure returns for a label -/
def argRepl (args : Args) (l : Bytes) : Bytes :=
  match args.lookup l with
  | none => []
  | some v => if urlContainsDoubleDotSegment v then [] else queryEscapeURL v

/-- does the closure set `err` for this label? -/
def labelBad (args : Args) (l : Bytes) : Bool :=
  match args.lookup l with
  | none => true
  | some v => urlContainsDoubleDotSegment v

/-- the text of a marker -/
def markerBytes (l : Bytes) : Bytes := 37 :: 123 :: (l ++ [125])

theorem markerLabel_markerBytes (l : Bytes) : markerLabel (markerBytes l) = l := by
  simp [markerLabel, markerBytes]

def pieceOut (f : Bytes → Bytes) : Piece → Bytes
  | .lit b => [b]
  | .marker l => f l

theorem subst_eq (f : Bytes → Bytes) (fmt : Bytes) : subst f fmt = (pieces fmt).flatMap (pieceOut f) := by
  unfold subst
  congr 1

theorem labels_eq (fmt : Bytes) :
    labels fmt = (pieces fmt).filterMap (fun p => match p with | .marker l => some l | .lit _ => none) := by
  unfold labels
  congr 1

/-- `ReplaceAllStringFunc` with the marker regex, byte level = the spec's scanner -/
theorem replBytes_pieces (repl : Bytes → Bytes) : ∀ (n : Nat) (s : Bytes), s.length ≤ n →
    replBytes markerRe repl n s = (piecesAux n s).flatMap (pieceOut (fun l => repl (markerBytes l))) := by
  intro n
  induction n with
  | zero =>
    intro s hs
    have : s = [] := List.eq_nil_of_length_eq_zero (by omega)
    subst this
    simp [replBytes, piecesAux]
  | succ n ih =>
    intro s hs
    cases s with
    | nil => simp [replBytes, piecesAux]
    | cons c t =>
      simp only [replBytes, piecesAux]
      rw [markerAt_lens]
      cases hm : markerAt (c :: t) with
      | none =>
        simp only [Option.map_none, List.flatMap_cons, pieceOut]
        rw [ih t (by simp at hs; omega)]
        rfl
      | some p =>
        obtain ⟨lab, rest⟩ := p
        obtain ⟨h1, h2, h3⟩ := markerAt_shape _ _ _ hm
        simp only [Option.map_some, List.flatMap_cons, pieceOut]
        have hlen : rest.length ≤ n := by
          have : (c :: t).length = (37 :: 123 :: (lab ++ 125 :: rest)).length := by rw [← h1]
          simp at this hs ⊢; omega
        rw [h2, h3, ih rest hlen]
        rfl

theorem replaceAllFunc_marker (fmt : Bytes) (repl : Bytes → Bytes) :
    Rx.replaceAllFunc markerRe fmt repl = subst (fun l => repl (markerBytes l)) fmt := by
  rw [replaceAllFunc_ascii markerRe (by decide) (by decide) (by decide), replBytes_pieces repl _ _ (Nat.le_refl _),
    subst_eq]
  rfl

def pieceLabel : Piece → Option Bytes
  | .marker l => some l
  | .lit _ => none

theorem flag_length (bad : Bytes → Bool) (ps : List Piece) :
    (ps.flatMap (pieceOut (fun l => if bad l then [33] else []))).length =
      (ps.flatMap (pieceOut (fun _ => []))).length + ((ps.filterMap pieceLabel).filter bad).length := by
  induction ps with
  | nil => simp
  | cons p ps ih =>
    cases p with
    | lit b => simp only [List.flatMap_cons, pieceOut, List.length_append, ih, List.filterMap_cons, pieceLabel]; omega
    | marker l =>
      simp only [List.flatMap_cons, pieceOut, List.length_append, ih, List.filterMap_cons, pieceLabel, List.filter_cons]
      cases bad l <;> simp <;> omega

theorem flag_same (bad : Bytes → Bool) (ps : List Piece) (h : (ps.filterMap pieceLabel).any bad = false) :
    ps.flatMap (pieceOut (fun l => if bad l then [33] else [])) = ps.flatMap (pieceOut (fun _ => [])) := by
  induction ps with
  | nil => simp
  | cons p ps ih =>
    cases p with
    | lit b =>
      simp only [List.filterMap_cons, pieceLabel] at h
      simp only [List.flatMap_cons, pieceOut, ih h]
    | marker l =>
      simp only [List.filterMap_cons, pieceLabel, List.any_cons, Bool.or_eq_false_iff] at h
      simp only [List.flatMap_cons, pieceOut, ih h.2, h.1]
      rfl

theorem labels_eq_aux (fmt : Bytes) : labels fmt = (pieces fmt).filterMap pieceLabel := by
  rw [labels_eq]; congr 1

theorem formatErr_eq (fmt : Bytes) (args : Args) :
    formatErr fmt args = (labels fmt).any (labelBad args) := by
  unfold formatErr
  rw [replaceAllFunc_marker, replaceAllFunc_marker, subst_eq, subst_eq, labels_eq_aux]
  have hb : (fun l => if argBad args (markerBytes l) = true then [33] else ([] : Bytes)) =
      (fun l => if labelBad args l = true then [33] else []) := by
    funext l
    have : argBad args (markerBytes l) = labelBad args l := by
      simp only [argBad, labelBad, markerLabel_markerBytes]
      cases List.lookup l args <;> rfl
    rw [this]
  rw [hb]
  cases hany : ((pieces fmt).filterMap pieceLabel).any (labelBad args) with
  | false =>
    rw [flag_same _ _ hany]
    simp
  | true =>
    have hl := flag_length (labelBad args) (pieces fmt)
    have hpos : 1 ≤ (((pieces fmt).filterMap pieceLabel).filter (labelBad args)).length := by
      rw [List.any_eq_true] at hany
      obtain ⟨x, hx, hbx⟩ := hany
      have : x ∈ ((pieces fmt).filterMap pieceLabel).filter (labelBad args) := List.mem_filter.mpr ⟨hx, hbx⟩
      exact List.length_pos_of_mem this
    rw [bne_iff_ne]
    intro heq
    rw [heq] at hl
    omega

theorem subst_congr (f g : Bytes → Bytes) (fmt : Bytes) (h : ∀ l ∈ labels fmt, f l = g l) :
    subst f fmt = subst g fmt := by
  rw [subst_eq, subst_eq]
  rw [labels_eq_aux] at h
  generalize pieces fmt = ps at h
  induction ps with
  | nil => rfl
  | cons p ps ih =>
    cases p with
    | lit b =>
      simp only [List.filterMap_cons, pieceLabel] at h
      simp only [List.flatMap_cons, pieceOut, ih h]
    | marker l =>
      simp only [List.filterMap_cons, pieceLabel, List.mem_cons] at h
      simp only [List.flatMap_cons, pieceOut]
      rw [h l (Or.inl rfl), ih (fun x hx => h x (Or.inr hx))]

/-- what a successful `trustedResourceURLFormat` means, in model terms -/
theorem format_some (fmt : Bytes) (args : Args) (r : Bytes) (h : trustedResourceURLFormat fmt args = some r) :
    isSafeTrustedResourceURLPrefix fmt = true ∧
    (∀ l ∈ labels fmt, ∃ v, args.lookup l = some v ∧ urlContainsDoubleDotSegment v = false) ∧
    r = subst (fun l => pctEncodeAll ((args.lookup l).getD [])) fmt ∧
    urlContainsDoubleDotSegment r = false ∧
    (([47, 47] : Bytes).isPrefixOf fmt = false →
      ([47, 47] : Bytes).isPrefixOf r = false ∧ ([47, 92] : Bytes).isPrefixOf r = false) := by
  unfold trustedResourceURLFormat at h
  rw [formatErr_eq, replaceAllFunc_marker] at h
  cases hp : isSafeTrustedResourceURLPrefix fmt
  · simp [hp] at h
  cases he : (labels fmt).any (labelBad args)
  case true => simp [hp, he] at h
  simp only [hp, he, Bool.not_true, Bool.false_eq_true, if_false] at h
  have hlab : ∀ l ∈ labels fmt, ∃ v, args.lookup l = some v ∧ urlContainsDoubleDotSegment v = false := by
    intro l hl
    have : labelBad args l = false := by
      cases hb : labelBad args l with
      | false => rfl
      | true =>
        have : (labels fmt).any (labelBad args) = true := List.any_eq_true.mpr ⟨l, hl, hb⟩
        rw [he] at this; cases this
    unfold labelBad at this
    cases hlk : args.lookup l with
    | none => simp [hlk] at this
    | some v => exact ⟨v, rfl, by simpa [hlk] using this⟩
  have hsub : subst (fun l => markerRepl args (markerBytes l)) fmt =
      subst (fun l => pctEncodeAll ((args.lookup l).getD [])) fmt := by
    apply subst_congr
    intro l hl
    obtain ⟨v, hv, hd⟩ := hlab l hl
    simp only [markerRepl, markerLabel_markerBytes, hv, hd, Bool.false_eq_true, if_false, Option.getD_some,
      queryEscapeURL_eq]
  rw [hsub] at h
  generalize subst (fun l => pctEncodeAll ((args.lookup l).getD [])) fmt = ret at h
  cases hdd : urlContainsDoubleDotSegment ret
  case true => simp [hdd] at h
  simp only [hdd, Bool.false_eq_true, if_false] at h
  split at h
  · cases h
  · rename_i hnp
    simp only [Option.some.injEq] at h
    subst h
    refine ⟨rfl, hlab, rfl, hdd, ?_⟩
    intro hf
    simp only [hf, Bool.not_false, Bool.true_and, Bool.or_eq_true, not_or, Bool.not_eq_true] at hnp
    exact hnp

theorem markerAt_none_of_ne (c : Nat) (t : Bytes) (h : c ≠ 37) : markerAt (c :: t) = none := by
  unfold markerAt
  split
  · rename_i heq; simp only [List.cons.injEq] at heq; omega
  · rfl

theorem piecesAux_lit_prefix (p rest : Bytes) (k : Nat) (hp : ∀ b ∈ p, b ≠ 37) :
    piecesAux (p.length + k) (p ++ rest) = p.map Piece.lit ++ piecesAux k rest := by
  induction p with
  | nil => simp
  | cons c t ih =>
    have hc : c ≠ 37 := hp c (by simp)
    have : (c :: t).length + k = (t.length + k) + 1 := by simp; omega
    rw [this]
    simp only [List.cons_append, piecesAux, markerAt_none_of_ne c _ hc, List.map_cons]
    rw [ih (fun b hb => hp b (by simp [hb]))]

/-- literal text without `%` in front of a format is copied unchanged -/
theorem subst_lit_prefix (f : Bytes → Bytes) (p rest : Bytes) (hp : ∀ b ∈ p, b ≠ 37) :
    subst f (p ++ rest) = p ++ subst f rest := by
  rw [subst_eq, subst_eq]
  unfold pieces
  rw [List.length_append, piecesAux_lit_prefix p rest _ hp, List.flatMap_append]
  congr 1
  induction p with
  | nil => rfl
  | cons c t ih =>
    simp only [List.map_cons, List.flatMap_cons, pieceOut]
    rw [ih (fun b hb => hp b (by simp [hb]))]
    rfl

/-- substitution by delimiter-free text leaves the sequence of structural delimiters unchanged -/
theorem skeleton_subst (f : Bytes → Bytes) (fmt : Bytes) (h : ∀ l, skeleton (f l) = []) :
    skeleton (subst f fmt) = skeleton (subst (fun _ => []) fmt) := by
  rw [subst_eq, subst_eq]
  generalize pieces fmt = ps
  induction ps with
  | nil => rfl
  | cons p ps ih =>
    cases p with
    | lit b =>
      simp only [List.flatMap_cons, pieceOut, skeleton, List.filter_append] at ih ⊢
      rw [ih]
    | marker l =>
      simp only [List.flatMap_cons, pieceOut, skeleton, List.filter_append, List.filter_nil, List.nil_append] at ih ⊢
      have := h l
      simp only [skeleton] at this
      rw [this, ih]
      rfl

end SafeHtml.Proofs.C13
