/-
C09, last hypothesis: the invariant `Inv` of `Proofs/ConcApi.lean` holds in every world REACHABLE through the API model
(every `Op` of `Api.step`, from an empty world). (summary at the end of the file)
-/
import SafeHtml.Proofs.ConcApi
namespace SafeHtml.Proofs.ConcReach
open SafeHtml SafeHtml.Model.Tmpl SafeHtml.Model.Conc SafeHtml.Proofs.Frozen SafeHtml.Proofs.ConcApi

/-! ### 1. the reachability invariant -/

/-- every entry of every set names an existing object of that set with that name (except possibly the entry `x`,
    while `assocNew` is replacing it) -/
def SetWFx (x : Option (Nat × String)) (w : World) : Prop :=
  ∀ ns name oid, alookup (w.ns ns).set name = some oid → x ≠ some (ns, name) →
    ∃ o, nlookup w.objs oid = some o ∧ o.ns = ns ∧ o.name = name

/-- object ids and the name spaces of objects are below the allocation counter -/
def FreshIds (w : World) : Prop := ∀ id o, nlookup w.objs id = some o → id < w.next ∧ o.ns < w.next

/-- a set that has not been executed has an empty escaper -/
def EscGate (w : World) : Prop :=
  ∀ k, (w.ns k).escaped = false →
    (w.ns k).esc.output = [] ∧ (w.ns k).esc.derived = [] ∧ (w.ns k).esc.tmplEdits = []

/-- an analysed object lives in an executed set -/
def OkEscaped (w : World) : Prop :=
  ∀ id o, nlookup w.objs id = some o → o.status = .ok → (w.ns o.ns).escaped = true

def AInv (w : World) : Prop := (∀ k, GoodNs (w.ns k)) ∧ EscGate w ∧ OkSettled w ∧ OkEscaped w

def InvRx (x : Option (Nat × String)) (w : World) : Prop := AInv w ∧ SetWFx x w ∧ FreshIds w

/-- the invariant of reachable worlds -/
def InvR (w : World) : Prop := InvRx none w

theorem InvR.inv {w : World} (h : InvR w) : Inv w := by
  obtain ⟨⟨hg, _, hok, _⟩, hs, _⟩ := h
  refine ⟨hg, ?_, hok⟩
  intro ns name oid o h1 h2
  obtain ⟨o', h3, h4, h5⟩ := hs ns name oid h1 (fun hx => nomatch hx)
  rw [h2] at h3; cases h3
  exact ⟨h4, h5⟩

theorem ns_upd (w : World) (k : Nat) (n : NS) (j : Nat) : (w.setNs k n).ns j = if j = k then n else w.ns j := by
  by_cases h : j = k
  · subst h; rw [ns_setNs_same, if_pos rfl]
  · rw [ns_setNs_other _ _ _ _ h, if_neg h]

theorem obj_upd (w : World) (k : Nat) (o : TObj) (j : Nat) :
    nlookup (w.setObj k o).objs j = if j = k then some o else nlookup w.objs j := by
  unfold World.setObj
  by_cases h : j = k
  · subst h; rw [nlookup_nset_same, if_pos rfl]
  · rw [nlookup_nset_other _ _ _ _ h, if_neg h]

/-- a name space is untouched in what the analysis sees (it may become `escaped`) … -/
def NsSame (w w' : World) (k : Nat) : Prop :=
  (w'.ns k).text = (w.ns k).text ∧ (w'.ns k).esc = (w.ns k).esc ∧
  ((w.ns k).escaped = true → (w'.ns k).escaped = true)
/-- … or it is (re)initialised with an empty escaper and no analysed object lives in it -/
def NsNew (w w' : World) (k : Nat) : Prop :=
  (w'.ns k).esc.output = [] ∧ (w'.ns k).esc.derived = [] ∧ (w'.ns k).esc.tmplEdits = [] ∧
  ∀ id o, nlookup w.objs id = some o → o.status = .ok → o.ns ≠ k

/-- **Frame lemma** for the part of the invariant that talks about escapers and analysed objects -/
theorem ainv_frame (w w' : World) (ha : AInv w)
    (hobj : ∀ id o', nlookup w'.objs id = some o' → o'.status = .ok →
      ∃ o, nlookup w.objs id = some o ∧ o.status = .ok ∧ o'.ns = o.ns ∧ o'.name = o.name)
    (hns : ∀ k, NsSame w w' k ∨ NsNew w w' k) : AInv w' := by
  obtain ⟨hg, he, hok, hoe⟩ := ha
  refine ⟨?_, ?_, ?_, ?_⟩
  · intro k
    rcases hns k with ⟨h1, h2, _⟩ | ⟨h1, h2, h3, _⟩
    · unfold GoodNs; rw [h1, h2]; exact hg k
    · exact goodNs_fresh _ h1 h2 h3
  · intro k hk
    rcases hns k with ⟨_, h2, h3⟩ | ⟨h1, h2, h3, _⟩
    · rw [h2]
      apply he k
      cases hb : (w.ns k).escaped with
      | false => rfl
      | true => rw [h3 hb] at hk; cases hk
    · exact ⟨h1, h2, h3⟩
  · intro id o' h1 h2
    obtain ⟨o, h3, h4, h5, h6⟩ := hobj id o' h1 h2
    obtain ⟨F, hF⟩ := hok id o h3 h4
    refine ⟨F, ?_⟩
    rcases hns o.ns with ⟨k1, k2, _⟩ | ⟨_, _, _, k4⟩
    · unfold Settled NsInv at hF ⊢
      rw [h5, h6, k1, k2]; exact hF
    · exact absurd rfl (k4 id o h3 h4)
  · intro id o' h1 h2
    obtain ⟨o, h3, h4, h5, _⟩ := hobj id o' h1 h2
    rw [h5]
    rcases hns o.ns with ⟨_, _, k3⟩ | ⟨_, _, _, k4⟩
    · exact k3 (hoe id o h3 h4)
    · exact absurd rfl (k4 id o h3 h4)


/-! ### 2. construction primitives -/

theorem ns_next (w : World) (n : Nat) (k : Nat) : ({ w with next := n } : World).ns k = w.ns k := rfl

/-- the world `newSet` builds, spelled out -/
theorem newSet_eq (w : World) (name : String) :
    w.newSet name = ((({ w with next := w.next + 2 } : World).setNs w.next { set := [(name, w.next + 1)] }).setObj
      (w.next + 1) { ns := w.next, name := name }, w.next + 1) := rfl

theorem newSet_ns (w : World) (name : String) (k : Nat) :
    (w.newSet name).1.ns k = if k = w.next then { set := [(name, w.next + 1)] } else w.ns k := by
  rw [newSet_eq]; simp only [ns_setObj, ns_upd]; rfl

theorem newSet_objs (w : World) (name : String) (id : Nat) :
    nlookup (w.newSet name).1.objs id =
      if id = w.next + 1 then some { ns := w.next, name := name } else nlookup w.objs id := by
  rw [newSet_eq]; simp only [obj_upd]; rfl

theorem newSet_next (w : World) (name : String) : (w.newSet name).1.next = w.next + 2 := rfl

theorem newSet_inv (x : Option (Nat × String)) (w : World) (name : String) (h : InvRx x w) :
    InvRx x (w.newSet name).1 := by
  obtain ⟨ha, hs, hf⟩ := h
  refine ⟨?_, ?_, ?_⟩
  · apply ainv_frame w _ ha
    · intro id o' h1 h2
      rw [newSet_objs] at h1
      split at h1
      · cases h1; cases h2
      · exact ⟨o', h1, h2, rfl, rfl⟩
    · intro k
      rw [NsSame, NsNew, newSet_ns]
      by_cases hk : k = w.next
      · rw [if_pos hk]
        refine .inr ⟨rfl, rfl, rfl, fun id o h1 _ hn => ?_⟩
        have := (hf id o h1).2
        omega
      · rw [if_neg hk]; exact .inl ⟨rfl, rfl, fun h => h⟩
  · intro ns nm oid h1 hx
    rw [newSet_ns] at h1
    rw [newSet_objs]
    by_cases hk : ns = w.next
    · rw [if_pos hk] at h1
      have : nm = name ∧ oid = w.next + 1 := by
        rw [alookup_cons] at h1
        split at h1
        · rename_i hn; cases h1; exact ⟨hn.symm, rfl⟩
        · cases h1
      obtain ⟨rfl, rfl⟩ := this
      rw [if_pos rfl]
      exact ⟨_, rfl, hk.symm, rfl⟩
    · rw [if_neg hk] at h1
      obtain ⟨o, h2, h3, h4⟩ := hs ns nm oid h1 hx
      have := (hf oid o h2).1
      rw [if_neg (by omega)]
      exact ⟨o, h2, h3, h4⟩
  · intro id o h1
    rw [newSet_objs] at h1
    rw [newSet_next]
    split at h1
    · rename_i hid; cases h1; simp only []; omega
    · have := hf id o h1; omega


theorem InvRx.weaken {w : World} (x : Option (Nat × String)) (h : InvRx none w) : InvRx x w :=
  ⟨h.1, fun ns nm oid h1 _ => h.2.1 ns nm oid h1 (fun hx => nomatch hx), h.2.2⟩

/-- allocate a new object and register it under `name` in set `k` (tail of `assocNew`, body of the loop of `Clone`) -/
def bindNew (w : World) (k : Nat) (name : String) (obj : TObj) : World × Nat :=
  let oid := w.next
  let w := { w with next := w.next + 1 }
  let ns := w.ns k
  let w := w.setNs k { ns with set := aset ns.set name oid }
  (w.setObj oid obj, oid)

theorem bindNew_ns (w : World) (k : Nat) (name : String) (obj : TObj) (j : Nat) :
    (bindNew w k name obj).1.ns j =
      if j = k then { w.ns k with set := aset (w.ns k).set name w.next } else w.ns j := by
  unfold bindNew; simp only [ns_setObj, ns_upd]; rfl

theorem bindNew_objs (w : World) (k : Nat) (name : String) (obj : TObj) (id : Nat) :
    nlookup (bindNew w k name obj).1.objs id = if id = w.next then some obj else nlookup w.objs id := by
  unfold bindNew; simp only [obj_upd]; rfl

theorem bindNew_next (w : World) (k : Nat) (name : String) (obj : TObj) :
    (bindNew w k name obj).1.next = w.next + 1 := rfl

theorem bindNew_inv (w : World) (k : Nat) (name : String) (obj : TObj) (h : InvRx (some (k, name)) w)
    (hk : k < w.next) (h1 : obj.ns = k) (h2 : obj.name = name) (h3 : obj.status = .unset) :
    InvR (bindNew w k name obj).1 := by
  obtain ⟨ha, hs, hf⟩ := h
  refine ⟨?_, ?_, ?_⟩
  · apply ainv_frame w _ ha
    · intro id o' ho hok
      rw [bindNew_objs] at ho
      split at ho
      · cases ho; rw [h3] at hok; cases hok
      · exact ⟨o', ho, hok, rfl, rfl⟩
    · intro j
      refine .inl ?_
      rw [NsSame, bindNew_ns]
      by_cases hj : j = k
      · subst hj; rw [if_pos rfl]; exact ⟨rfl, rfl, fun h => h⟩
      · rw [if_neg hj]; exact ⟨rfl, rfl, fun h => h⟩
  · intro ns nm oid hl _
    rw [bindNew_ns] at hl
    rw [bindNew_objs]
    by_cases hn : ns = k
    · subst hn
      rw [if_pos rfl] at hl
      simp only [] at hl
      rw [alookup_aset] at hl
      by_cases hm : nm = name
      · subst hm
        rw [if_pos rfl] at hl; cases hl
        rw [if_pos rfl]
        exact ⟨obj, rfl, h1, h2⟩
      · rw [if_neg hm] at hl
        obtain ⟨o, g1, g2, g3⟩ := hs ns nm oid hl (by
          intro hx; simp only [Option.some.injEq, Prod.mk.injEq] at hx; exact hm hx.2.symm)
        have := (hf oid o g1).1
        rw [if_neg (by omega)]
        exact ⟨o, g1, g2, g3⟩
    · rw [if_neg hn] at hl
      obtain ⟨o, g1, g2, g3⟩ := hs ns nm oid hl (by
        intro hx; simp only [Option.some.injEq, Prod.mk.injEq] at hx; exact hn hx.1.symm)
      have := (hf oid o g1).1
      rw [if_neg (by omega)]
      exact ⟨o, g1, g2, g3⟩
  · intro id o ho
    rw [bindNew_objs] at ho
    rw [bindNew_next]
    split at ho
    · rename_i hid; cases ho; rw [h1]; omega
    · have := hf id o ho; omega

/-- overwrite the object registered under `(k, name)` by a fresh unanalysed object (`*existing = *emptyTmpl`) -/
theorem overwrite_inv (w : World) (k : Nat) (name : String) (ex : Nat) (ho : TObj) (h : InvR w)
    (hex : alookup (w.ns k).set name = some ex) (h1 : ho.status = .unset) (h2 : ho.ns < w.next) :
    InvRx (some (k, name)) (w.setObj ex ho) := by
  obtain ⟨ha, hs, hf⟩ := h
  obtain ⟨oex, e1, e2, e3⟩ := hs k name ex hex (fun hx => nomatch hx)
  refine ⟨?_, ?_, ?_⟩
  · apply ainv_frame w _ ha
    · intro id o' hl hok
      rw [obj_upd] at hl
      split at hl
      · cases hl; rw [h1] at hok; cases hok
      · exact ⟨o', hl, hok, rfl, rfl⟩
    · intro j; exact .inl ⟨rfl, rfl, fun h => h⟩
  · intro ns nm oid hl hx
    have hl' : alookup (w.ns ns).set nm = some oid := hl
    obtain ⟨o, g1, g2, g3⟩ := hs ns nm oid hl' (fun hx => nomatch hx)
    rw [obj_upd]
    by_cases hid : oid = ex
    · subst hid
      rw [e1] at g1; cases g1
      exact absurd (by rw [← g2, ← g3, e2, e3]) hx
    · rw [if_neg hid]; exact ⟨o, g1, g2, g3⟩
  · intro id o hl
    rw [obj_upd] at hl
    split at hl
    · rename_i hid; cases hl
      exact ⟨hid ▸ (hf ex oex e1).1, h2⟩
    · exact hf id o hl

theorem assocNew_eq (w : World) (nsId : Nat) (name : String) :
    w.assocNew nsId name =
      bindNew (match alookup (w.ns nsId).set name with
        | some ex =>
          (match nlookup (w.newSet name).1.objs (w.newSet name).2 with
           | some ho => (w.newSet name).1.setObj ex ho
           | none => (w.newSet name).1)
        | none => w) nsId name { ns := nsId, name := name } := by
  unfold World.assocNew bindNew
  rfl

theorem assocNew_inv (w : World) (nsId : Nat) (name : String) (h : InvR w) (hk : nsId < w.next) :
    InvR (w.assocNew nsId name).1 := by
  rw [assocNew_eq]
  cases hex : alookup (w.ns nsId).set name with
  | none => exact bindNew_inv w nsId name _ (h.weaken _) hk rfl rfl rfl
  | some ex =>
    simp only []
    have hobj : nlookup (w.newSet name).1.objs (w.newSet name).2 = some { ns := w.next, name := name } := by
      rw [newSet_objs]; exact if_pos rfl
    rw [hobj]
    simp only []
    have h1 : InvR (w.newSet name).1 := newSet_inv none w name h
    have hex1 : alookup ((w.newSet name).1.ns nsId).set name = some ex := by
      rw [newSet_ns, if_neg (by omega)]; exact hex
    have h2 := overwrite_inv (w.newSet name).1 nsId name ex { ns := w.next, name := name } h1 hex1 rfl
      (by rw [newSet_next]; simp only []; omega)
    exact bindNew_inv _ nsId name _ h2 (by show nsId < (w.newSet name).1.next; rw [newSet_next]; omega) rfl rfl rfl


/-- change `registered` / `treeNil` (or anything but name space, name and status) of an existing object -/
theorem modObj_inv (w : World) (tid : Nat) (t t' : TObj) (h : InvR w) (ht : nlookup w.objs tid = some t)
    (h1 : t'.ns = t.ns) (h2 : t'.name = t.name) (h3 : t'.status = t.status) : InvR (w.setObj tid t') := by
  obtain ⟨ha, hs, hf⟩ := h
  refine ⟨?_, ?_, ?_⟩
  · apply ainv_frame w _ ha
    · intro id o' hl hok
      rw [obj_upd] at hl
      split at hl
      · rename_i hid; cases hl
        exact ⟨t, hid ▸ ht, h3 ▸ hok, h1, h2⟩
      · exact ⟨o', hl, hok, rfl, rfl⟩
    · intro j; exact .inl ⟨rfl, rfl, fun h => h⟩
  · intro ns nm oid hl hx
    have hl' : alookup (w.ns ns).set nm = some oid := hl
    obtain ⟨o, g1, g2, g3⟩ := hs ns nm oid hl' hx
    rw [obj_upd]
    by_cases hid : oid = tid
    · subst hid
      rw [ht] at g1; cases g1
      rw [if_pos rfl]
      exact ⟨t', rfl, h1.trans g2, h2.trans g3⟩
    · rw [if_neg hid]; exact ⟨o, g1, g2, g3⟩
  · intro id o hl
    rw [obj_upd] at hl
    split at hl
    · rename_i hid; cases hl
      have := hf tid t ht
      exact ⟨hid ▸ this.1, h1 ▸ this.2⟩
    · exact hf id o hl

/-- replace the text set of a set that has not been executed (Parse before the first Execute) -/
theorem setText_inv (w : World) (k : Nat) (n : NS) (h : InvR w) (hesc : (w.ns k).escaped = false)
    (hn1 : n.set = (w.ns k).set) (hn2 : n.esc = (w.ns k).esc) : InvR (w.setNs k n) := by
  obtain ⟨ha, hs, hf⟩ := h
  refine ⟨?_, ?_, hf⟩
  · apply ainv_frame w _ ha
    · intro id o' hl hok; exact ⟨o', hl, hok, rfl, rfl⟩
    · intro j
      rw [NsSame, NsNew, ns_upd]
      by_cases hj : j = k
      · subst hj
        rw [if_pos rfl]
        obtain ⟨e1, e2, e3⟩ := ha.2.1 j hesc
        refine .inr ⟨by rw [hn2]; exact e1, by rw [hn2]; exact e2, by rw [hn2]; exact e3, fun id o g1 g2 g3 => ?_⟩
        have := ha.2.2.2 id o g1 g2
        rw [g3, hesc] at this; cases this
      · rw [if_neg hj]; exact .inl ⟨rfl, rfl, fun h => h⟩
  · intro ns nm oid hl hx
    rw [ns_upd] at hl
    have hl' : alookup (w.ns ns).set nm = some oid := by
      by_cases hj : ns = k
      · subst hj; rw [if_pos rfl, hn1] at hl; exact hl
      · rw [if_neg hj] at hl; exact hl
    exact hs ns nm oid hl' hx

/-- set a flag (`escaped`, `csp`) of a name space -/
theorem setFlags_inv (w : World) (k : Nat) (n : NS) (h : InvR w) (h1 : n.text = (w.ns k).text)
    (h2 : n.esc = (w.ns k).esc) (h3 : n.set = (w.ns k).set) (h4 : (w.ns k).escaped = true → n.escaped = true) :
    InvR (w.setNs k n) := by
  obtain ⟨ha, hs, hf⟩ := h
  refine ⟨?_, ?_, hf⟩
  · apply ainv_frame w _ ha
    · intro id o' hl hok; exact ⟨o', hl, hok, rfl, rfl⟩
    · intro j
      refine .inl ?_
      rw [NsSame, ns_upd]
      by_cases hj : j = k
      · subst hj; rw [if_pos rfl]; exact ⟨h1, h2, h4⟩
      · rw [if_neg hj]; exact ⟨rfl, rfl, fun h => h⟩
  · intro ns nm oid hl hx
    rw [ns_upd] at hl
    have hl' : alookup (w.ns ns).set nm = some oid := by
      by_cases hj : ns = k
      · subst hj; rw [if_pos rfl, h3] at hl; exact hl
      · rw [if_neg hj] at hl; exact hl
    exact hs ns nm oid hl' hx

/-- the harness' handle table is not part of the invariant -/
theorem bind_inv (w : World) (h id : Nat) (hi : InvR w) : InvR (w.bind h id) := hi

theorem assocNew_next (w : World) (nsId : Nat) (name : String) : w.next ≤ (w.assocNew nsId name).1.next := by
  rw [assocNew_eq, bindNew_next]
  split
  · split
    · show w.next ≤ (w.newSet name).1.next + 1; rw [newSet_next]; omega
    · rw [newSet_next]; omega
  · omega


/-! ### 3. Parse -/

/-- one round of the loop of `apiParse` that binds every template of the common set to an object -/
def parseStep (k : Nat) (w : World) (p : String × Option Tree) : World :=
  let ns := w.ns k
  let (w, tid) := match alookup ns.set p.1 with
    | some tid => (w, tid)
    | none => w.assocNew k p.1
  match nlookup w.objs tid with
  | some t => w.setObj tid { t with registered := true, treeNil := p.2.isNone }
  | none => w

theorem parseStep_inv (k : Nat) (w : World) (p : String × Option Tree) (h : InvR w) (hk : k < w.next) :
    InvR (parseStep k w p) ∧ k < (parseStep k w p).next := by
  unfold parseStep
  simp only []
  cases hl : alookup (w.ns k).set p.1 with
  | some tid =>
    simp only []
    cases ht : nlookup w.objs tid with
    | none => exact ⟨h, hk⟩
    | some t => exact ⟨modObj_inv w tid t _ h ht rfl rfl rfl, hk⟩
  | none =>
    simp only []
    have h1 := assocNew_inv w k p.1 h hk
    have h2 := assocNew_next w k p.1
    cases ht : nlookup (w.assocNew k p.1).1.objs (w.assocNew k p.1).2 with
    | none => exact ⟨h1, by show k < (w.assocNew k p.1).1.next; omega⟩
    | some t => exact ⟨modObj_inv _ _ t _ h1 ht rfl rfl rfl, by show k < (w.assocNew k p.1).1.next; omega⟩

theorem parseFold_inv (k : Nat) (l : List (String × Option Tree)) : ∀ w, InvR w → k < w.next →
    InvR (l.foldl (parseStep k) w) := by
  induction l with
  | nil => intro w h _; exact h
  | cons p t ih =>
    intro w h hk
    obtain ⟨h1, h2⟩ := parseStep_inv k w p h hk
    exact ih _ h1 h2

theorem apiParse_inv (w : World) (h : Nat) (defs : List Tree) (hi : InvR w) : InvR (apiParse w h defs).1 := by
  unfold apiParse
  cases hobj : w.obj h with
  | none => exact hi
  | some q =>
    obtain ⟨oid, o⟩ := q
    simp only []
    have hlk := obj_lookup w h oid o hobj
    have hns : o.ns < w.next := (hi.2.2 oid o hlk).2
    cases hesc : (w.ns o.ns).escaped with
    | true => simp only [if_true]; exact hi
    | false =>
      simp only [Bool.false_eq_true, if_false]
      generalize defs.foldl _ ((w.ns o.ns).text, o.registered) = tr
      obtain ⟨text, reg⟩ := tr
      simp only []
      have h1 : InvR (w.setObj oid { o with registered := reg }) := modObj_inv w oid o _ hi hlk rfl rfl rfl
      exact parseFold_inv o.ns text _ (setText_inv _ o.ns _ h1 hesc rfl rfl) hns


/-! ### 4. Clone -/

/-- a brand-new name space `w.next` with one member object `w.next + 1` (what `newSet` and the head of `Clone` build) -/
theorem freshSet_inv (w w' : World) (root : TObj) (n1 : NS) (nm : String) (h : InvR w)
    (hnext : w'.next = w.next + 2)
    (hns : ∀ k, w'.ns k = if k = w.next then n1 else w.ns k)
    (hobjs : ∀ id, nlookup w'.objs id = if id = w.next + 1 then some root else nlookup w.objs id)
    (r1 : root.ns = w.next) (r2 : root.name = nm) (r3 : root.status = .unset)
    (n2 : n1.set = [(nm, w.next + 1)])
    (n3 : n1.esc.output = [] ∧ n1.esc.derived = [] ∧ n1.esc.tmplEdits = []) : InvR w' := by
  obtain ⟨ha, hs, hf⟩ := h
  refine ⟨?_, ?_, ?_⟩
  · apply ainv_frame w _ ha
    · intro id o' h1 h2
      rw [hobjs] at h1
      split at h1
      · cases h1; rw [r3] at h2; cases h2
      · exact ⟨o', h1, h2, rfl, rfl⟩
    · intro k
      rw [NsSame, NsNew, hns]
      by_cases hk : k = w.next
      · rw [if_pos hk]
        refine .inr ⟨n3.1, n3.2.1, n3.2.2, fun id o h1 _ hn => ?_⟩
        have := (hf id o h1).2
        omega
      · rw [if_neg hk]; exact .inl ⟨rfl, rfl, fun h => h⟩
  · intro ns name oid h1 hx
    rw [hns] at h1
    rw [hobjs]
    by_cases hk : ns = w.next
    · rw [if_pos hk, n2] at h1
      have : name = nm ∧ oid = w.next + 1 := by
        rw [alookup_cons] at h1
        split at h1
        · rename_i hn; cases h1; exact ⟨hn.symm, rfl⟩
        · cases h1
      obtain ⟨rfl, rfl⟩ := this
      rw [if_pos rfl]
      exact ⟨root, rfl, r1.trans hk.symm, r2⟩
    · rw [if_neg hk] at h1
      obtain ⟨o, h2, h3, h4⟩ := hs ns name oid h1 hx
      have := (hf oid o h2).1
      rw [if_neg (by omega)]
      exact ⟨o, h2, h3, h4⟩
  · intro id o h1
    rw [hobjs] at h1
    rw [hnext]
    split at h1
    · rename_i hid; cases h1; rw [r1]; omega
    · have := hf id o h1; omega

/-- one round of the loop of `Clone` that creates the objects of the new set -/
def cloneStep (nsId : Nat) (w : World) (p : String × Option Tree) : World :=
  (bindNew w nsId p.1 { ns := nsId, name := p.1, registered := true, treeNil := p.2.isNone }).1

theorem cloneFold_inv (nsId : Nat) (l : List (String × Option Tree)) : ∀ w, InvR w → nsId < w.next →
    InvR (l.foldl (cloneStep nsId) w) := by
  induction l with
  | nil => intro w h _; exact h
  | cons p t ih =>
    intro w h hk
    apply ih
    · exact bindNew_inv w nsId p.1 _ (h.weaken _) hk rfl rfl rfl
    · show nsId < (bindNew w nsId p.1 _).1.next
      rw [bindNew_next]; omega

theorem apiClone_inv (w : World) (h h' : Nat) (hi : InvR w) : InvR (apiClone w h h').1 := by
  unfold apiClone
  cases hobj : w.obj h with
  | none => exact hi
  | some q =>
    obtain ⟨oid, o⟩ := q
    simp only []
    split
    · exact hi
    · split
      · exact hi
      · -- the new name space and its root object
        generalize hct : (if o.registered = true then (w.ns o.ns).text
          else List.map (fun p => if (p.1 == o.name) = true then (p.1, none) else p) (w.ns o.ns).text) = ctext
        have h0 : InvR (((({ w with next := w.next + 2 } : World).setObj (w.next + 1)
            { ns := w.next, name := o.name, registered := (ctext.lookup o.name).isSome,
              treeNil := !(match ctext.lookup o.name with | some (some _) => true | _ => false) }).setNs w.next
            { set := [(o.name, w.next + 1)], text := ctext })) := by
          refine freshSet_inv w _
            { ns := w.next, name := o.name, registered := (ctext.lookup o.name).isSome,
              treeNil := !(match ctext.lookup o.name with | some (some _) => true | _ => false) }
            { set := [(o.name, w.next + 1)], text := ctext } o.name hi rfl ?_ ?_ rfl rfl rfl rfl
            ⟨rfl, rfl, rfl⟩
          · intro k; rw [ns_upd]; rfl
          · intro id; show nlookup (World.setObj _ _ _).objs id = _; rw [obj_upd]
        have h1 := cloneFold_inv w.next ctext _ h0 (by show w.next < w.next + 2; omega)
        split
        · exact h1
        · exact h1


/-! ### 5. Execute / ExecuteTemplate -/

theorem markFailed_next (w : World) (n : Nat) (name : String) (e : Esc) (c : ErrCode) :
    (markFailed w n name e c).next = w.next := by
  unfold markFailed
  simp only []
  split
  · split <;> rfl
  · rfl

theorem markOk_next (w : World) (n : Nat) (name : String) (t : TextSet) (e : Esc) :
    (markOk w n name t e).next = w.next := by
  unfold markOk
  simp only []
  split
  · split <;> rfl
  · rfl

theorem markFailed_objs_fwd (w : World) (n : Nat) (name : String) (e : Esc) (c : ErrCode) (id : Nat) (o : TObj)
    (h : nlookup w.objs id = some o) :
    ∃ o', nlookup (markFailed w n name e c).objs id = some o' ∧ o'.ns = o.ns ∧ o'.name = o.name := by
  unfold markFailed
  simp only []
  split
  · rename_i oid _
    split
    · rename_i t ht
      simp only [World.setObj, World.setNs] at ht ⊢
      by_cases hid : id = oid
      · subst hid
        rw [nlookup_nset_same]
        rw [h] at ht; cases ht
        exact ⟨_, rfl, rfl, rfl⟩
      · rw [nlookup_nset_other _ _ _ _ hid]; exact ⟨o, h, rfl, rfl⟩
    · exact ⟨o, h, rfl, rfl⟩
  · exact ⟨o, h, rfl, rfl⟩

theorem markOk_objs_fwd (w : World) (n : Nat) (name : String) (t : TextSet) (e : Esc) (id : Nat) (o : TObj)
    (h : nlookup w.objs id = some o) :
    ∃ o', nlookup (markOk w n name t e).objs id = some o' ∧ o'.ns = o.ns ∧ o'.name = o.name := by
  unfold markOk
  simp only []
  split
  · rename_i oid _
    split
    · rename_i t0 ht
      simp only [World.setObj, World.setNs] at ht ⊢
      by_cases hid : id = oid
      · subst hid
        rw [nlookup_nset_same]
        rw [h] at ht; cases ht
        exact ⟨_, rfl, rfl, rfl⟩
      · rw [nlookup_nset_other _ _ _ _ hid]; exact ⟨o, h, rfl, rfl⟩
    · exact ⟨o, h, rfl, rfl⟩
  · exact ⟨o, h, rfl, rfl⟩

/-- one analysis in an executed set keeps the reachability invariant -/
theorem top_invR (w w' : World) (ns : Nat) (name : String) (r : Option ErrCode) (hi : InvR w)
    (hesc : (w.ns ns).escaped = true) (h : escapeTemplateTop w ns name = .inr (w', r)) : InvR w' := by
  have hinv := inv_top w w' ns name r hi.inv h
  obtain ⟨⟨_, he, _, hoe⟩, hs, hf⟩ := hi
  obtain ⟨hset, hobjs⟩ := top_objs w w' ns name r h
  obtain ⟨_, _, _, _, _, _, hoth, _⟩ := escapeTemplateTop_spec w ns name w' r h
  have hesc' : (w'.ns ns).escaped = true := by rw [escapeTemplateTop_escaped w ns name w' r h]; exact hesc
  have hfwd : ∀ id o, nlookup w.objs id = some o →
      ∃ o', nlookup w'.objs id = some o' ∧ o'.ns = o.ns ∧ o'.name = o.name := by
    intro id o ho
    rcases top_form w w' ns name r h with ⟨e, code, _, rfl⟩ | ⟨t, e, _, rfl⟩
    · exact markFailed_objs_fwd w ns name e code id o ho
    · exact markOk_objs_fwd w ns name t e id o ho
  have hnext : w'.next = w.next := by
    rcases top_form w w' ns name r h with ⟨e, code, _, rfl⟩ | ⟨t, e, _, rfl⟩
    · exact markFailed_next ..
    · exact markOk_next ..
  refine ⟨⟨hinv.1, ?_, hinv.2.2, ?_⟩, ?_, ?_⟩
  · intro k hk
    by_cases hkn : k = ns
    · subst hkn; rw [hesc'] at hk; cases hk
    · rw [hoth k hkn] at hk ⊢; exact he k hk
  · intro id o' h1 h2
    have key : ∀ o : TObj, o'.ns = o.ns → (w.ns o.ns).escaped = true → (w'.ns o'.ns).escaped = true := by
      intro o hns hb
      rw [hns]
      by_cases hkn : o.ns = ns
      · rw [hkn]; exact hesc'
      · rw [hoth _ hkn]; exact hb
    rcases hobjs id o' h1 with h3 | ⟨o, h3, hso, hst⟩
    · exact key o' rfl (hoe id o' h3 h2)
    · obtain ⟨_, hset'⟩ := hst h2
      obtain ⟨o2, g1, g2, _⟩ := hs ns name id hset' (fun hx => nomatch hx)
      rw [h3] at g1; cases g1
      rw [hso.1, g2]; exact hesc'
  · intro k nm oid h1 hx
    rw [hset k] at h1
    obtain ⟨o, g1, g2, g3⟩ := hs k nm oid h1 hx
    obtain ⟨o', f1, f2, f3⟩ := hfwd oid o g1
    exact ⟨o', f1, f2.trans g2, f3.trans g3⟩
  · intro id o' h1
    rw [hnext]
    rcases hobjs id o' h1 with h3 | ⟨o, h3, hso, _⟩
    · exact hf id o' h3
    · have := hf id o h3
      exact ⟨this.1, hso.1 ▸ this.2⟩

theorem setEscaped_invR (w : World) (k : Nat) (hi : InvR w) : InvR (w.setNs k { w.ns k with escaped := true }) :=
  setFlags_inv w k _ hi rfl rfl rfl (fun _ => rfl)

theorem critExecute_invR (w : World) (h : Nat) (hi : InvR w) : InvR (critExecute w h).1 := by
  unfold critExecute
  cases hobj : w.obj h with
  | none => exact hi
  | some p =>
    obtain ⟨oid, o⟩ := p
    have hi1 := setEscaped_invR w o.ns hi
    simp only []
    cases hs : o.status with
    | failed code => exact hi1
    | ok => exact hi1
    | unset =>
      simp only []
      cases ht : o.treeNil with
      | true => exact hi1
      | false =>
        simp only [Bool.false_eq_true, if_false]
        cases he : escapeTemplateTop (w.setNs o.ns { w.ns o.ns with escaped := true }) o.ns o.name with
        | inl r => exact hi1
        | inr q =>
          obtain ⟨w', oc⟩ := q
          have hi2 := top_invR _ w' o.ns o.name oc hi1 (by rw [ns_setNs_same]) he
          cases oc with
          | some code => exact hi2
          | none =>
            simp only []
            cases nlookup w'.objs oid <;> exact hi2

theorem critExecuteTemplate_invR (w : World) (h : Nat) (name : String) (hi : InvR w) :
    InvR (critExecuteTemplate w h name).1 := by
  unfold critExecuteTemplate
  cases hobj : w.obj h with
  | none => exact hi
  | some p =>
    obtain ⟨oid, o⟩ := p
    have hi1 := setEscaped_invR w o.ns hi
    simp only []
    cases hl : alookup (w.ns o.ns).set name with
    | none => exact hi1
    | some tid =>
      simp only []
      cases hn : nlookup (w.setNs o.ns { w.ns o.ns with escaped := true }).objs tid with
      | none => exact hi1
      | some t =>
        simp only []
        cases hs : t.status with
        | failed code => exact hi1
        | ok =>
          simp only []
          generalize (if t.registered = true then _ else true) = b1
          generalize ((w.ns o.ns).text.lookup name).isNone = b2
          cases b1
          · cases b2
            · simp only [show (Status.ok == Status.unset) = false from rfl, Bool.false_eq_true, if_false]
              exact hi1
            · exact hi1
          · exact hi1
        | unset =>
          simp only []
          generalize (if t.registered = true then _ else true) = b1
          generalize ((w.ns o.ns).text.lookup name).isNone = b2
          cases b1
          · cases b2
            · simp only [show (Status.unset == Status.unset) = true from rfl, Bool.false_eq_true, if_false, if_true]
              cases he : escapeTemplateTop (w.setNs o.ns { w.ns o.ns with escaped := true }) o.ns name with
              | inl r => exact hi1
              | inr q =>
                obtain ⟨w', oc⟩ := q
                have hi2 := top_invR _ w' o.ns name oc hi1 (by rw [ns_setNs_same]) he
                cases oc with
                | some code => exact hi2
                | none =>
                  simp only []
                  cases nlookup w'.objs tid <;> exact hi2
            · exact hi1
          · exact hi1


/-! ### 6. every operation of the API state machine keeps the invariant -/

theorem invR_congr {w w' : World} (hns : ∀ k, w'.ns k = w.ns k) (hobjs : w'.objs = w.objs) (hnext : w'.next = w.next)
    (hi : InvR w) : InvR w' := by
  obtain ⟨ha, hs, hf⟩ := hi
  refine ⟨?_, ?_, ?_⟩
  · apply ainv_frame w _ ha
    · intro id o' h1 h2; rw [hobjs] at h1; exact ⟨o', h1, h2, rfl, rfl⟩
    · intro k; exact .inl (by rw [NsSame, hns]; exact ⟨rfl, rfl, fun h => h⟩)
  · intro ns nm oid h1 hx
    rw [hns] at h1; rw [hobjs]
    exact hs ns nm oid h1 hx
  · intro id o h1
    rw [hobjs] at h1; rw [hnext]; exact hf id o h1

theorem apiLookup_next (w : World) (h : Nat) (name : String) (h' : Nat) : (apiLookup w h name h').1.next = w.next := by
  unfold apiLookup
  split
  · rfl
  · split
    · rfl
    · split <;> rfl

/-- **`inv_step`**: every `Op` — New, AssocNew (`t.New`, also on an executed set), Parse, Clone, Lookup, Templates,
    CSP, Execute, ExecuteTemplate, ExecuteToHTML, ExecuteTemplateToHTML — keeps the reachability invariant. -/
theorem invR_step (w : World) (op : Op) (hi : InvR w) : InvR (Api.step w op).1 := by
  cases op with
  | new h name => exact newSet_inv none w name hi
  | assocNew h name h' =>
    simp only [Api.step]
    cases hobj : w.obj h with
    | none => exact hi
    | some p =>
      obtain ⟨oid, o⟩ := p
      have := (hi.2.2 oid o (obj_lookup w h oid o hobj)).2
      exact assocNew_inv w o.ns name hi this
  | parse h defs => exact apiParse_inv w h defs hi
  | clone h h' => exact apiClone_inv w h h' hi
  | lookup h name h' =>
    obtain ⟨a, b, _⟩ := apiLookup_world w h name h'
    exact invR_congr a b (apiLookup_next w h name h') hi
  | templates h => exact hi
  | csp h =>
    simp only [Api.step]
    cases hobj : w.obj h with
    | none => exact hi
    | some p => exact setFlags_inv w _ _ hi rfl rfl rfl (fun h => h)
  | exec h d => show InvR (apiExecute w h d).1; rw [apiExecute_split]; exact critExecute_invR w h hi
  | execHTML h d => show InvR (apiExecute w h d).1; rw [apiExecute_split]; exact critExecute_invR w h hi
  | execT h n d =>
    show InvR (apiExecuteTemplate w h n d).1; rw [apiExecuteTemplate_split]; exact critExecuteTemplate_invR w h n hi
  | execTHTML h n d =>
    show InvR (apiExecuteTemplate w h n d).1; rw [apiExecuteTemplate_split]; exact critExecuteTemplate_invR w h n hi

/-! ### 7. reachable worlds -/

/-- the empty world the harness starts from (any validators, fuel, counter and handle table) -/
def Initial (w : World) : Prop := w.objs = [] ∧ w.nss = []

/-- closure of the initial worlds under EVERY operation of `Api.step` -/
inductive Reachable : World → Prop where
  | init (w : World) (h : Initial w) : Reachable w
  | step (w : World) (op : Op) (h : Reachable w) : Reachable (Api.step w op).1

theorem invR_initial (w : World) (h : Initial w) : InvR w := by
  obtain ⟨ho, hn⟩ := h
  have hns : ∀ k, w.ns k = {} := by intro k; unfold World.ns; rw [hn]; rfl
  have hobj : ∀ id, nlookup w.objs id = none := by intro id; rw [ho]; rfl
  refine ⟨⟨?_, ?_, ?_, ?_⟩, ?_, ?_⟩
  · intro k; rw [hns]; exact goodNs_fresh _ rfl rfl rfl
  · intro k _; rw [hns]; exact ⟨rfl, rfl, rfl⟩
  · intro id o h1; rw [hobj] at h1; cases h1
  · intro id o h1; rw [hobj] at h1; cases h1
  · intro ns nm oid h1; rw [hns] at h1; cases h1
  · intro id o h1; rw [hobj] at h1; cases h1

theorem invR_reachable (w : World) (h : Reachable w) : InvR w := by
  induction h with
  | init w h => exact invR_initial w h
  | step w op _ ih => exact invR_step w op ih

theorem reachable_run (w : World) (ops : List Op) (h : Reachable w) : Reachable (Api.run w ops) := by
  induction ops generalizing w with
  | nil => exact h
  | cons op t ih => exact ih _ (Reachable.step w op h)

/-- **C09 for every world a program can build.** For every reachable world `w`, all threads of calls of the
    concurrent API started in `w` and every schedule, the concurrent run and the serial run (`Api.step` at the moment
    of each critical section) agree: same shared state, every thread gets the serial results. No hypothesis on `w`
    other than reachability. -/
theorem C09_api_serializable_reachable (w : World) (hr : Reachable w) (thr : List (Thr World Pend Ret))
    (hfresh : ∀ t ∈ thr, t.pending = none ∧ t.done = [] ∧ ∀ c ∈ t.todo, U c) (evs : List Ev) :
    Rel U Inv Done (run { s := w, thr := thr } evs) (runSerial { s := w, thr := thr } evs) :=
  C09_api_serializable _ (invR_reachable w hr).inv hfresh evs

theorem C09_api_results_reachable (w : World) (hr : Reachable w) (thr : List (Thr World Pend Ret))
    (hfresh : ∀ t ∈ thr, t.pending = none ∧ t.done = [] ∧ ∀ c ∈ t.todo, U c) (evs : List Ev)
    (i : Nat) (ta tb : Thr World Pend Ret) (ha : (run { s := w, thr := thr } evs).thr[i]? = some ta)
    (hb : (runSerial { s := w, thr := thr } evs).thr[i]? = some tb) (hidle : ta.pending = none) :
    ta.done = tb.done ∧ (run { s := w, thr := thr } evs).s = (runSerial { s := w, thr := thr } evs).s :=
  C09_api_results _ (invR_reachable w hr).inv hfresh evs i ta tb ha hb hidle


/-! ### 8. a kernel-checked example

The set of `Frozen.Demo` (`h`, `A`, `B`, `bad`) is parsed, cloned, `bad` and `A` are executed (the first fails and
leaves pending edits), `t.New("late")` is called on the EXECUTED set (finding new-after-exec), `B` is executed on
the clone, `h` is executed and then replaced by `t.New("h")` (`*existing = *emptyTmpl`: the analysed object moves
to a brand-new set). The resulting world is reachable; it has analysed objects, non-empty escapers and three name spaces. -/
namespace Example

def data : Value := .map (.cons "X" (.str [97, 60, 98]) .nil)

def ops : List Op :=
  [ .new 0 "root", .parse 0 SafeHtml.Proofs.Frozen.Demo.defs, .clone 0 1,
    .execT 0 "bad" data, .execT 0 "A" data, .assocNew 0 "late" 2, .execT 1 "B" data, .execT 0 "h" data, .assocNew 0 "h" 4 ]

def w : World := Api.run { v := liteValidators, fuel := 60 } ops

theorem w_reachable : Reachable w := reachable_run _ ops (Reachable.init _ ⟨rfl, rfl⟩)

/-- the example is not degenerate -/
theorem w_nontrivial :
    (w.objs.any (fun p => p.2.status == .ok) && w.nss.any (fun p => !p.2.esc.output.isEmpty) &&
      w.nss.any (fun p => p.2.escaped && p.2.set.any (fun q => q.1 == "late")) && decide (3 ≤ w.nss.length)) = true := by
  decide +kernel

/-- three threads: Execute-family calls on both sets and a Lookup -/
def threads : List (Thr World Pend Ret) :=
  [ { todo := [execTemplateCall 0 "B" data false, execTemplateCall 0 "A" data true] },
    { todo := [execTemplateCall 1 "A" data false, lookupCall 1 "h" 3] },
    { todo := [execTemplateCall 0 "h" data false, templatesCall 1] } ]

theorem threads_ok : ∀ t ∈ threads, t.pending = none ∧ t.done = [] ∧ ∀ c ∈ t.todo, U c := by
  intro t ht
  simp only [threads, List.mem_cons, List.mem_nil_iff, or_false] at ht
  rcases ht with rfl | rfl | rfl
  · refine ⟨rfl, rfl, fun c hc => ?_⟩
    simp only [List.mem_cons, List.mem_nil_iff, or_false] at hc
    rcases hc with rfl | rfl
    · exact ⟨.execT 0 "B" data, rfl⟩
    · exact ⟨.execTHTML 0 "A" data, rfl⟩
  · refine ⟨rfl, rfl, fun c hc => ?_⟩
    simp only [List.mem_cons, List.mem_nil_iff, or_false] at hc
    rcases hc with rfl | rfl
    · exact ⟨.execT 1 "A" data, rfl⟩
    · exact ⟨.lookup 1 "h" 3, rfl⟩
  · refine ⟨rfl, rfl, fun c hc => ?_⟩
    simp only [List.mem_cons, List.mem_nil_iff, or_false] at hc
    rcases hc with rfl | rfl
    · exact ⟨.execT 0 "h" data, rfl⟩
    · exact ⟨.templates 1, rfl⟩

/-- every schedule of these threads on the reachable world is serializable -/
theorem serializable (evs : List Ev) :
    Rel U Inv Done (run { s := w, thr := threads } evs) (runSerial { s := w, thr := threads } evs) :=
  C09_api_serializable_reachable w w_reachable threads threads_ok evs

/-- … and for one schedule in which every unlocked phase is delayed past all critical sections, the kernel evaluates
    both runs: the results coincide (as the theorem says) -/
def sched : List Ev :=
  [.crit 0, .crit 1, .crit 2, .post 2, .crit 2, .post 1, .crit 1, .post 0, .crit 0, .post 1, .post 2, .post 0]

theorem sched_same :
    ((run { s := w, thr := threads } sched).thr.map (fun t => t.done.map Ret.str)) =
    ((runSerial { s := w, thr := threads } sched).thr.map (fun t => t.done.map Ret.str)) := by
  decide +kernel

end Example

/-! ### Summary

* `InvR w` (reachability invariant) = `AInv w` (every name space `GoodNs`; `EscGate`: a set that is not `escaped` has
  an empty escaper; `OkSettled`; `OkEscaped`: an object with status `.ok` lives in an `escaped` set) ∧ `SetWFx none w`
  (every set entry names an EXISTING object of that set with that name) ∧ `FreshIds w` (object ids and the name spaces
  of objects are below `w.next`). `InvR.inv : InvR w → Inv w` (the invariant of `ConcApi`).
* Frame lemma `ainv_frame`; construction primitives `newSet_inv`, `bindNew_inv`, `overwrite_inv`, `assocNew_inv`
  (also `*existing = *emptyTmpl`, also on an executed set), `modObj_inv`, `setText_inv`, `setFlags_inv`,
  `freshSet_inv`; `apiParse_inv` (gate, `addParseTree` fold, the loop binding every template, through `parseStep`),
  `apiClone_inv` (`cloneStep`), `top_invR`, `critExecute_invR`, `critExecuteTemplate_invR`.
* **`invR_step`**: `InvR w → InvR (Api.step w op).1` for EVERY `Op`. Nothing had to be excluded: `t.New` on an executed
  set (new-after-exec) only adds an `.unset` object and a set entry, which `GoodNs`/`Settled` do not see; `Clone` of an
  executed template is refused by the model and a successful `Clone` creates an empty escaper; `Parse` on an executed
  set is refused, and on a non-executed set the escaper is empty (`EscGate`) and no object is `.ok` (`OkEscaped`).
* `Reachable` (closure of `Initial` — no objects, no name spaces; any validators, fuel, counter, handles — under
  `Api.step` for every op), `invR_initial`, `invR_reachable`, `reachable_run`.
* **`C09_api_serializable_reachable`**, `C09_api_results_reachable`: serializability for every reachable world, no
  other hypothesis. `Example`: kernel-checked reachable world (`w_reachable`, `w_nontrivial`), `Example.serializable`,
  and one fully evaluated schedule `Example.sched_same`.
* What remains outside: the calls `Name` / `DefinedTemplates` (not operations of `Api.step`), and construction
  operations running CONCURRENTLY with executions (`U` contains only the concurrent API: Execute*, Lookup, Templates —
  New/Parse/Clone are sequential set-up operations in the property text); the correspondence model ↔ real package is
  checked by the harness, not proved.
-/

end SafeHtml.Proofs.ConcReach
