/-
Later executions, third part (follow-up to `Layer3Repeat`, `Layer3Repeat2`):

* `C01_api_main_plus_derived_helper_repeat`: the `_repeat` generalisation of
  `Layer3Derived.C01_api_main_plus_derived_helper` (helper called inside an element or a quoted attribute value);
* `C06_result_history_independent_*`: the result of `Execute(d)` (successful or failed) does not depend on the earlier
  `Execute` calls, for the four shapes for which a `step_execs…` lemma exists.
NOT done here: the `_repeat` generalisations of the CSP transfer theorems of `CspMono` (`step_exec_wOff` transfers only
SUCCESSFUL executions, so earlier executions that fail under CSP are not covered by the existing transfer lemmas; a
direct fixed-point argument on the CSP world, by cases on the outcome of the first analysis, is needed).
Core Lean only; axioms: propext, Classical.choice, Quot.sound.
-/
import SafeHtml.Proofs.Layer3Derived
import SafeHtml.Proofs.Layer3Repeat2
import SafeHtml.Proofs.CspMono
set_option linter.unusedSimpArgs false
set_option linter.unusedVariables false
namespace SafeHtml.Proofs.Layer3Repeat3
open SafeHtml SafeHtml.Model SafeHtml.Model.Tmpl SafeHtml.Spec SafeHtml.Spec.HtmlTok SafeHtml.Generated.Policy
open SafeHtml.Props.C01 (InertPos run_nil run_cons run_append)
open SafeHtml.Props.C02 (Untrusted)
open SafeHtml.Proofs.HtmlTokSim
open SafeHtml.Proofs.Layer3 SafeHtml.Proofs.Layer3E2E SafeHtml.Proofs.Layer3Branch SafeHtml.Proofs.Layer3Calls
open SafeHtml.Proofs.Layer3Helpers SafeHtml.Proofs.Layer3Repeat SafeHtml.Proofs.Layer3Repeat2
open SafeHtml.Proofs.Layer3Derived

/-! ### main template plus derived helper -/

/-- the first `Execute` of the main template with an arbitrary committed text set whose first entry is the main
    template (`Layer3Derived.apiExecute2_any` with the world) -/
theorem apiExecute2_any_full (v : Validators) (fuel : Nat) (m h : String) (hmh : m ≠ h) (trm trh trm' : Tree) (cf : Ctx)
    (E E' : Esc) (TS : TextSet) (d : Value)
    (het : escapeTree ⟨[(m, some trm), (h, some trh)], fun n => (alookup [(m, 1), (h, 2)] n).isSome, false, v⟩ fuel {} {}
      m = .ok (E, cf, m))
    (hfin : finalError cf = none)
    (hc : commit [(m, some trm), (h, some trh)] E = .ok ((m, some trm') :: TS, E')) :
    apiExecute (setupW2 v fuel m h trm trh) 0 d =
      (worldF2 v fuel m h ((m, some trm') :: TS) E',
       resOf (walkList false ((m, some trm') :: TS) 0 fuel d d [] trm'.root)) := by
  have hmh' : (m == h) = false := by simpa using hmh
  have hhm' : (h == m) = false := by simpa using (Ne.symm hmh)
  have ht : escapeTemplateTop (worldE2 v fuel m h trm trh) 0 m =
      .inr (markOk (worldE2 v fuel m h trm trh) 0 m ((m, some trm') :: TS) E', none) := by
    unfold escapeTemplateTop
    simp only [worldE2_ns]
    have hfu : (worldE2 v fuel m h trm trh).fuel = fuel := rfl
    have hv : (worldE2 v fuel m h trm trh).v = v := rfl
    have hesc : (nsE2 m h trm trh).esc = {} := rfl
    have hset : (nsE2 m h trm trh).set = [(m, 1), (h, 2)] := rfl
    have hcsp : (nsE2 m h trm trh).csp = false := rfl
    have htx : (nsE2 m h trm trh).text = [(m, some trm), (h, some trh)] := rfl
    rw [hfu, hv, hesc, hset, hcsp, htx, het]
    simp only [hfin, hc]
  have hobj : (setupW2 v fuel m h trm trh).obj 0 =
      some (1, { ns := 0, name := m, registered := true, treeNil := false }) := by
    simp [setupW2, World.obj, nlookup, bind, Option.bind]
  unfold apiExecute
  simp only [hobj, setNs_escaped2, Bool.false_eq_true, if_false, ht]
  simp [markOk, worldE2_ns, nsE2, alookup, worldE2, World.setNs, World.setObj, nset, nlookup, textExecute, World.ns,
    TextSet.lookup, resOf, hmh', hhm', hmh, Ne.symm hmh, worldF2]
  exact ⟨rfl, rfl⟩

/-- `Execute(d)` of the main template after any earlier executions of it, for any committed text set whose first entry
    is the main template -/
theorem step_execs2_any (v : Validators) (fuel : Nat) (m h : String) (hmh : m ≠ h) (trm trh trm' : Tree) (cf : Ctx)
    (E E' : Esc) (TS : TextSet)
    (het : escapeTree ⟨[(m, some trm), (h, some trh)], fun n => (alookup [(m, 1), (h, 2)] n).isSome, false, v⟩ fuel {} {}
      m = .ok (E, cf, m))
    (hfin : finalError cf = none)
    (hc : commit [(m, some trm), (h, some trh)] E = .ok ((m, some trm') :: TS, E'))
    (pre : List Value) (d : Value) :
    (Api.step (execs (setupW2 v fuel m h trm trh) pre) (.exec 0 d)).2 =
      .exec (resOf (walkList false ((m, some trm') :: TS) 0 fuel d d [] trm'.root)) := by
  have hE := fun d => apiExecute2_any_full v fuel m h hmh trm trh trm' cf E E' TS d het hfin hc
  cases pre with
  | nil => simp only [execs, Api.step, hE]
  | cons d0 ds => simp only [execs, Api.step, hE, execs_worldF2, apiExecute2_again]

/-- the analysis and commit of the first `Execute` for the main + derived helper shape: the facts from which both the
    C01 theorem and the history-independence corollary follow -/
theorem derived_first (v : Validators) (f' : Nat) (m h : String) (hmh : m ≠ h) (trm trh : Tree)
    (ms : List MP) (hps : List Piece) (asH : List Arg) (cc cc' cf : Ctx) (es : List EM) (esH : List EPiece)
    (hrootM : trm.root = NodeList.ofList (nodesM h 0 ms))
    (hrootH : trh.root = NodeList.ofList (toNodesA 0 hps asH))
    (hokM : ArgsOKM ms) (hasH : ∀ a ∈ asH, ActArg a) (hcall : MP.call ∈ ms)
    (htop : TopCtx cc = false) (hcoll : mangle cc h ≠ m) (hcc : cc.state ≠ .error) (hcc' : cc'.state ≠ .error)
    (hH : analyse v cc hps = some (cc', esH)) (hM : analyseD v cc cc' {} ms = some (cf, es))
    (hfin : finalError cf = none) (hf : ms.length + hps.length + 9 ≤ f' + 3) :
    ∃ (E E' : Esc),
      escapeTree ⟨[(m, some trm), (h, some trh)], fun n => (alookup [(m, 1), (h, 2)] n).isSome, false, v⟩ (f' + 3) {} {}
        m = .ok (E, cf, m) ∧
      commit [(m, some trm), (h, some trh)] E =
        .ok ([(m, some { trm with root := NodeList.ofList (outM (mangle cc h) 0 es) }), (h, some trh),
          (mangle cc h, some { ({ trh with name := mangle cc h } : Tree) with
            root := NodeList.ofList (outNodes 0 esH asH) })], E') := by
  have hdh : mangle cc h ≠ h := mangle_ne_self cc h htop
  generalize hdn : mangle cc h = dn at hcoll hdh ⊢
  have hdm : dn ≠ m := hcoll
  have hmh' : (m == h) = false := by simpa using hmh
  have hhm' : (h == m) = false := by simpa using (Ne.symm hmh)
  have hmd' : (m == dn) = false := by simpa using (Ne.symm hdm)
  have hhd' : (h == dn) = false := by simpa using (Ne.symm hdh)
  have hst : cf.state = .text := by
    by_cases hc : cf.state = .text
    · exact hc
    · exfalso
      unfold finalError at hfin
      split at hfin
      · next h => cases he : cf.err <;> simp_all
      · simp [hc] at hfin
  have hne : cf.state ≠ .error := by rw [hst]; decide
  -- the derived copy's analysis
  obtain ⟨hoe, hk⟩ := helper_keepD v m dn cc hps
  generalize hs1 : editsOf v dn 0 cc hps (scratchD m dn cc) = s1 at hoe hk
  have hfreshH : Fresh dn 0 (scratchD m dn cc) := fun k _ => ⟨rfl, rfl⟩
  let env : Env := ⟨[(m, some trm), (h, some trh)], fun n => (alookup [(m, 1), (h, 2)] n).isSome, false, v⟩
  have hlH : ∀ f, hps.length + 1 ≤ f → escapeList env f dn (scratchD m dn cc) cc trh.root = .ok (s1, cc') := by
    intro f hf
    rw [hrootH, ← hs1]
    exact escapeList_refinesA env rfl dn hps 0 cc cc' (scratchD m dn cc) esH asH f hH hfreshH hasH hf
  have hlookH : env.text.lookup h = some (some trh) := by
    simp [env, TextSet.lookup, alookup, hhm', hmh, Ne.symm hmh]
  have hlookM : env.text.lookup m = some (some trm) := by
    simp [env, TextSet.lookup, alookup]
  have hlookd : env.text.lookup dn = none := by
    simp [env, TextSet.lookup, alookup, hmd', hhd', hdm, hdh, Ne.symm hdm, Ne.symm hdh]
  -- the main template's analysis
  have hinv0 : MInvD m 0 ⟨false, [], [], []⟩ := ⟨fun k _ => ⟨rfl, rfl, rfl⟩, fun _ => ⟨by simp, by simp⟩⟩
  have hl := refD env rfl m h dn cc cc' hdn hdm hdh hcc hcc' trh (hps.length + 1) s1 hlookH hlookd hlH hoe hk ms 0 {} cf
    ⟨false, [], [], []⟩ es f' hM hinv0 hokM (by omega)
  obtain ⟨kA, kT, kX, hflag⟩ := runD_keys v m dn hdm cc cc' s1.actionEdits s1.textEdits hk.1 hk.2.1 hk.2.2.1 hk.2.2.2 ms
    0 {} cf ⟨false, [], [], []⟩ es hM hinv0 ⟨by simp, by simp⟩ ⟨by simp, by simp⟩ ⟨by simp, by simp⟩
  have hflag := hflag (Or.inr hcall)
  generalize hstF : runD v m dn cc' s1.actionEdits s1.textEdits 0 {} ms ⟨false, [], [], []⟩ = stF at hl kA kT kX hflag
  obtain ⟨fl, A, T, X⟩ := stF
  simp only at hflag kA kT kX
  subst hflag
  have e0 : escOfD m dn cc cc' { trh with name := dn } ⟨false, [], [], []⟩ = escD0 m [] [] [] := by simp [escOfD]
  have e1' : escOfD m dn cc cc' { trh with name := dn } ⟨true, A, T, X⟩ =
      escD1 m dn cc cc' { trh with name := dn } A T X := by simp [escOfD]
  rw [e0, e1', ← hrootM] at hl
  have het := escapeTree_mainD env m dn hdm cc cc' _ trm cf A T X hlookM f' hl kA.2 kT.2 kX.2 hne
  -- commit
  have happm := applyD v m h dn hdm cc cc' s1.actionEdits s1.textEdits hk.1 hk.2.2.1
    { escAfterD m dn cc cc' { trh with name := dn } cf A T X with pristine := [(m, trm), (dn, { trh with name := dn })] }
    ms 0 {} cf ⟨false, [], [], []⟩ es hM hinv0 hokM (by intro k _; rw [hstF]; exact ⟨rfl, rfl, rfl⟩)
  have hagree : Agree dn (0 + hps.length)
      { escAfterD m dn cc cc' { trh with name := dn } cf A T X with
        pristine := [(m, trm), (dn, { trh with name := dn })] }
      (editsOf v dn 0 cc hps (scratchD m dn cc)) := by
    intro k _
    obtain ⟨g1, g2⟩ := find_d_false v m dn hdm cc cc' s1.actionEdits s1.textEdits ms 0 {} cf ⟨false, [], [], []⟩ es k
      hM rfl (by simp) (by simp) hcall
    rw [hstF] at g1 g2
    rw [hs1]
    exact ⟨g1, g2⟩
  have happd := applyEdits_outA v dn
    { escAfterD m dn cc cc' { trh with name := dn } cf A T X with pristine := [(m, trm), (dn, { trh with name := dn })] }
    hps 0 cc cc' (scratchD m dn cc) esH asH hH hfreshH hasH hagree
  rw [← hrootM] at happm
  rw [← hrootH] at happd
  obtain ⟨E', hc⟩ := commit_derived m h dn hmh hdm hdh cc cc' trm trh { trh with name := dn } cf A T X _ _ kA.1 kT.1 kX.1
    happm happd
  exact ⟨_, E', het, hc⟩

/-- `Execute(d)` of the main template after any earlier executions of it, main + derived helper shape -/
theorem step_execsD (v : Validators) (fuel : Nat) (m h : String) (hmh : m ≠ h) (trm trh : Tree)
    (ms : List MP) (hps : List Piece) (asH : List Arg) (cc cc' cf : Ctx) (es : List EM) (esH : List EPiece)
    (hrootM : trm.root = NodeList.ofList (nodesM h 0 ms))
    (hrootH : trh.root = NodeList.ofList (toNodesA 0 hps asH))
    (hokM : ArgsOKM ms) (hasH : ∀ a ∈ asH, ActArg a) (hcall : MP.call ∈ ms)
    (htop : TopCtx cc = false) (hcoll : mangle cc h ≠ m) (hcc : cc.state ≠ .error) (hcc' : cc'.state ≠ .error)
    (hH : analyse v cc hps = some (cc', esH)) (hM : analyseD v cc cc' {} ms = some (cf, es))
    (hfin : finalError cf = none) (hf : ms.length + hps.length + 9 ≤ fuel) (pre : List Value) (d : Value) :
    (Api.step (execs (setupW2 v fuel m h trm trh) pre) (.exec 0 d)).2 =
      .exec (resOf (walkList false
        [(m, some { trm with root := NodeList.ofList (outM (mangle cc h) 0 es) }), (h, some trh),
          (mangle cc h, some { ({ trh with name := mangle cc h } : Tree) with
            root := NodeList.ofList (outNodes 0 esH asH) })] 0 fuel d d []
        (NodeList.ofList (outM (mangle cc h) 0 es)))) := by
  obtain ⟨f', rfl⟩ : ∃ f', fuel = f' + 3 := ⟨fuel - 3, by omega⟩
  obtain ⟨E, E', het, hc⟩ := derived_first v f' m h hmh trm trh ms hps asH cc cc' cf es esH hrootM hrootH hokM hasH hcall
    htop hcoll hcc hcc' hH hM hfin hf
  exact step_execs2_any v (f' + 3) m h hmh trm trh _ cf E E' _ het hfin hc pre d

/-- **C01 for a main template plus a helper called in a non-default context, later executions.** As
    `Layer3Derived.C01_api_main_plus_derived_helper`, but each of the two executions compared comes after an arbitrary
    list of earlier `Execute` calls on the main template object (`pre1`, `pre2`: any data, no hypothesis). -/
theorem C01_api_main_plus_derived_helper_repeat (v : Validators) (fuel : Nat) (m h : String) (hmh : m ≠ h)
    (trm trh : Tree)
    (ms : List MP) (hps : List Piece) (asH : List Arg) (cc cc' cf : Ctx) (es : List EM) (esH : List EPiece)
    (hnm : trm.name = m) (hnh : trh.name = h)
    (hrootM : trm.root = NodeList.ofList (nodesM h 0 ms))
    (hrootH : trh.root = NodeList.ofList (toNodesA 0 hps asH))
    (hokM : ArgsOKM ms) (hasH : ∀ a ∈ asH, ActArg a) (hcall : MP.call ∈ ms)
    (htop : TopCtx cc = false) (hcoll : mangle cc h ≠ m) (hcc : cc.state ≠ .error) (hcc' : cc'.state ≠ .error)
    (hH : analyse v cc hps = some (cc', esH)) (hM : analyseD v cc cc' {} ms = some (cf, es))
    (hs : SimpleAll v {} (inlineP hps ms))
    (hfin : finalError cf = none) (hf : ms.length + hps.length + 9 ≤ fuel) (pre1 pre2 : List Value) (d1 d2 : Value)
    (hu1 : ∀ vs, valsM d1 esH asH es = some vs → ∀ x ∈ vs, Untrusted x)
    (hu2 : ∀ vs, valsM d2 esH asH es = some vs → ∀ x ∈ vs, Untrusted x)
    (o1 o2 : Bytes) (w1 w2 : World)
    (h1 : Api.step (execs (setup2 v fuel m trm trh) pre1) (.exec 0 d1) = (w1, .exec (.ok o1)))
    (h2 : Api.step (execs (setup2 v fuel m trm trh) pre2) (.exec 0 d2) = (w2, .exec (.ok o2))) :
    skeleton (HtmlTok.tokenize o1).tokens = skeleton (HtmlTok.tokenize o2).tokens ∧
    (HtmlTok.tokenize o1).final = .data ∧ (HtmlTok.tokenize o2).final = .data := by
  have hdh : mangle cc h ≠ h := mangle_ne_self cc h htop
  have hst : cf.state = .text := by
    by_cases hc : cf.state = .text
    · exact hc
    · exfalso
      unfold finalError at hfin
      split at hfin
      · next h => cases he : cf.err <;> simp_all
      · simp [hc] at hfin
  rw [setup2_eq v fuel m h hmh trm trh hnm hnh] at h1 h2
  have r1 := step_execsD v fuel m h hmh trm trh ms hps asH cc cc' cf es esH hrootM hrootH hokM hasH hcall htop hcoll hcc
    hcc' hH hM hfin hf pre1 d1
  have r2 := step_execsD v fuel m h hmh trm trh ms hps asH cc cc' cf es esH hrootM hrootH hokM hasH hcall htop hcoll hcc
    hcc' hH hM hfin hf pre2 d2
  rw [h1] at r1
  rw [h2] at r2
  simp only [Ret.exec.injEq] at r1 r2
  have x1 := r1.symm
  have x2 := r2.symm
  generalize hdn : mangle cc h = dn at hcoll hdh x1 x2
  have hdm : dn ≠ m := hcoll
  have hmd' : (m == dn) = false := by simpa using (Ne.symm hdm)
  have hhd' : (h == dn) = false := by simpa using (Ne.symm hdh)
  obtain ⟨n1, rfl⟩ := resOf_ok x1
  obtain ⟨n2, rfl⟩ := resOf_ok x2
  have hlk : TextSet.lookup [(m, some { trm with root := NodeList.ofList (outM dn 0 es) }), (h, some trh),
      (dn, some { ({ trh with name := dn } : Tree) with root := NodeList.ofList (outNodes 0 esH asH) })] dn =
      some (some { ({ trh with name := dn } : Tree) with root := NodeList.ofList (outNodes 0 esH asH) }) := by
    simp [TextSet.lookup, hmd', hhd', hdm, hdh, Ne.symm hdm, Ne.symm hdh]
  have hE := analyseD_args v cc cc' ms {} cf es hM hokM
  obtain ⟨vs, p1, hv1, hx1, ho1⟩ := walkM_exec _ 0 (by decide) dn _ esH asH hasH hlk rfl d1 d1 es 0 [] fuel hE n1
  obtain ⟨ws, p2, hv2, hx2, ho2⟩ := walkM_exec _ 0 (by decide) dn _ esH asH hasH hlk rfl d2 d2 es 0 [] fuel hE n2
  rw [ho1, ho2]
  simp only [List.nil_append]
  have := C01_straight_line v (inlineP hps ms) cf (inlineE esH es) vs ws p1 p2 hs
    (analyseD_inline v cc cc' hps esH hH ms {} cf es hM) (hu1 vs hv1) (hu2 ws hv2) hx1 hx2
  exact ⟨this.1, this.2.2 hst⟩

/-! ### C06: the result of an execution does not depend on the earlier executions -/

/-- single straight-line template -/
theorem C06_result_history_independent_single (v : Validators) (fuel : Nat) (name : String) (tr : Tree)
    (ps : List Piece) (as : List Arg) (has : ∀ a ∈ as, ActArg a) (cf : Ctx) (es : List EPiece)
    (hroot : tr.root = NodeList.ofList (toNodesA 0 ps as)) (ha : analyse v {} ps = some (cf, es))
    (hfin : finalError cf = none) (hf : ps.length + 4 ≤ fuel) (pre1 pre2 : List Value) (d : Value) :
    (Api.step (execs (setupW v fuel name tr) pre1) (.exec 0 d)).2 =
      (Api.step (execs (setupW v fuel name tr) pre2) (.exec 0 d)).2 := by
  rw [step_execs v fuel name tr ps as has cf es hroot ha hfin hf pre1 d,
    step_execs v fuel name tr ps as has cf es hroot ha hfin hf pre2 d]

/-- main template plus helper called in a non-default context (derived copy) -/
theorem C06_result_history_independent_main_plus_derived_helper (v : Validators) (fuel : Nat) (m h : String)
    (hmh : m ≠ h) (trm trh : Tree)
    (ms : List MP) (hps : List Piece) (asH : List Arg) (cc cc' cf : Ctx) (es : List EM) (esH : List EPiece)
    (hrootM : trm.root = NodeList.ofList (nodesM h 0 ms))
    (hrootH : trh.root = NodeList.ofList (toNodesA 0 hps asH))
    (hokM : ArgsOKM ms) (hasH : ∀ a ∈ asH, ActArg a) (hcall : MP.call ∈ ms)
    (htop : TopCtx cc = false) (hcoll : mangle cc h ≠ m) (hcc : cc.state ≠ .error) (hcc' : cc'.state ≠ .error)
    (hH : analyse v cc hps = some (cc', esH)) (hM : analyseD v cc cc' {} ms = some (cf, es))
    (hfin : finalError cf = none) (hf : ms.length + hps.length + 9 ≤ fuel) (pre1 pre2 : List Value) (d : Value) :
    (Api.step (execs (setupW2 v fuel m h trm trh) pre1) (.exec 0 d)).2 =
      (Api.step (execs (setupW2 v fuel m h trm trh) pre2) (.exec 0 d)).2 := by
  rw [step_execsD v fuel m h hmh trm trh ms hps asH cc cc' cf es esH hrootM hrootH hokM hasH hcall htop hcoll hcc
      hcc' hH hM hfin hf pre1 d,
    step_execsD v fuel m h hmh trm trh ms hps asH cc cc' cf es esH hrootM hrootH hokM hasH hcall htop hcoll hcc
      hcc' hH hM hfin hf pre2 d]

/-- one template with `if` / `with` / `range` -/
theorem C06_result_history_independent_branch (v : Validators) (fuel : Nat) (name : String) (tr : Tree) (tps : TPs)
    (cf : Ctx) (es : ERs) (hroot : tr.root = nodesTL 0 tps) (hok : ArgsOKL tps)
    (ha : analyseRL v {} (eraseL tps) = some (cf, es))
    (hfin : finalError cf = none) (hf : fuelRL (eraseL tps) + 3 ≤ fuel) (pre1 pre2 : List Value) (d : Value) :
    (Api.step (execs (setupW v fuel name tr) pre1) (.exec 0 d)).2 =
      (Api.step (execs (setupW v fuel name tr) pre2) (.exec 0 d)).2 := by
  obtain ⟨f', rfl⟩ : ∃ f', fuel = f' + 3 := ⟨fuel - 3, by omega⟩
  have hst : cf.state = .text := by
    by_cases hc : cf.state = .text
    · exact hc
    · exfalso
      unfold finalError at hfin
      split at hfin
      · next h => cases he : cf.err <;> simp_all
      · simp [hc] at hfin
  have hne : cf.state ≠ .error := by rw [hst]; decide
  have hfresh : Fresh name 0 (escScratch name) := fun k _ => ⟨rfl, rfl⟩
  have hk0 : KeysOK name (escScratch name) := ⟨by simp [escScratch], by simp [escScratch], by simp [escScratch],
    by simp [escScratch]⟩
  have hl := refTL ⟨[(name, some tr)], fun n => (alookup [(name, 1)] n).isSome, false, v⟩ rfl name tps 0 {} cf
    (escScratch name) es f' ha hfresh (by omega) (by decide) hok
  obtain ⟨hoe, hk⟩ := keepL v name (eraseL tps) 0 {} (escScratch name) hfresh hk0
  rw [← hroot] at hl
  have het := escapeTree_gen ⟨[(name, some tr)], fun n => (alookup [(name, 1)] n).isSome, false, v⟩ name tr cf _
    (by simp [TextSet.lookup]) f' hl hoe hk hne
  have happ := applyL v name
    { escAfterG name cf (editsRL v name 0 {} (eraseL tps) (escScratch name)).actionEdits
        (editsRL v name 0 {} (eraseL tps) (escScratch name)).textEdits with pristine := [(name, tr)] }
    tps 0 {} cf (escScratch name) es ha hfresh hok (fun k _ => ⟨rfl, rfl⟩)
  rw [← hroot] at happ
  obtain ⟨E', hc⟩ := commit_gen name tr cf _ _ (outTL 0 tps es) hk.1 hk.2.2.1 happ
  rw [step_execs_gen v (f' + 3) name tr _ cf _ E' het hfin hc pre1 d,
    step_execs_gen v (f' + 3) name tr _ cf _ E' het hfin hc pre2 d]

/-- main template plus one helper called from text context -/
theorem C06_result_history_independent_main_plus_helper (v : Validators) (fuel : Nat) (m h : String) (hmh : m ≠ h)
    (trm trh : Tree)
    (ms : List MP) (hps : List Piece) (asH : List Arg) (cf : Ctx) (es : List EM) (esH : List EPiece)
    (hrootM : trm.root = NodeList.ofList (nodesM h 0 ms))
    (hrootH : trh.root = NodeList.ofList (toNodesA 0 hps asH))
    (hokM : ArgsOKM ms) (hasH : ∀ a ∈ asH, ActArg a) (hcall : MP.call ∈ ms)
    (hH : analyse v {} hps = some ({}, esH)) (hM : analyseM v {} ms = some (cf, es))
    (hfin : finalError cf = none) (hf : ms.length + hps.length + 9 ≤ fuel) (pre1 pre2 : List Value) (d : Value) :
    (Api.step (execs (setupW2 v fuel m h trm trh) pre1) (.exec 0 d)).2 =
      (Api.step (execs (setupW2 v fuel m h trm trh) pre2) (.exec 0 d)).2 := by
  obtain ⟨f', rfl⟩ : ∃ f', fuel = f' + 3 := ⟨fuel - 3, by omega⟩
  have hmh' : (m == h) = false := by simpa using hmh
  have hhm' : (h == m) = false := by simpa using (Ne.symm hmh)
  have hst : cf.state = .text := by
    by_cases hc : cf.state = .text
    · exact hc
    · exfalso
      unfold finalError at hfin
      split at hfin
      · next h => cases he : cf.err <;> simp_all
      · simp [hc] at hfin
  have hne : cf.state ≠ .error := by rw [hst]; decide
  -- the helper's analysis
  obtain ⟨hoe, hk, hAeq, hXeq⟩ := helper_keep v m h hps
  generalize hs1 : editsOf v h 0 {} hps (scratchH m h) = s1 at hoe hk hAeq hXeq
  have hfreshH : Fresh h 0 (scratchH m h) := fun k _ => ⟨rfl, rfl⟩
  let env : Env := ⟨[(m, some trm), (h, some trh)], fun n => (alookup [(m, 1), (h, 2)] n).isSome, false, v⟩
  have hlH : ∀ f, hps.length + 1 ≤ f → escapeList env f h (scratchH m h) {} trh.root = .ok (s1, {}) := by
    intro f hf
    rw [hrootH, ← hs1]
    exact escapeList_refinesA env rfl h hps 0 {} {} (scratchH m h) esH asH f hH hfreshH hasH hf
  have hlookH : env.text.lookup h = some (some trh) := by
    simp [env, TextSet.lookup, alookup, hhm', hmh, Ne.symm hmh]
  have hlookM : env.text.lookup m = some (some trm) := by
    simp [env, TextSet.lookup, alookup]
  -- the main template's analysis
  have hinv0 : MInv m 0 (false, [], []) := ⟨fun k _ => ⟨rfl, rfl⟩, fun _ => ⟨by simp, by simp⟩⟩
  have hl := refMain env rfl m h hmh trh (hps.length + 1) s1 hlookH hlH hoe hk ms 0 {} cf (false, [], []) es f' hM
    hinv0 hokM (by omega)
  obtain ⟨kA, kX, hflag⟩ := runMain_keys v m h hmh s1.actionEdits s1.textEdits hk.1 hk.2.1 hk.2.2.1 hk.2.2.2 ms 0 {}
    cf (false, [], []) es hM hinv0 ⟨by simp, by simp⟩ ⟨by simp, by simp⟩
  have hflag := hflag (Or.inr hcall)
  generalize hstF : runMain v m s1.actionEdits s1.textEdits 0 {} ms (false, [], []) = stF at hl kA kX hflag
  obtain ⟨fl, A, X⟩ := stF
  simp only at hflag kA kX
  subst hflag
  have e0 : escOf m h (false, [], []) = escM0 m [] [] := by simp [escOf]
  have e1' : escOf m h (true, A, X) = escM1 m h A X := by simp [escOf]
  rw [e0, e1', ← hrootM] at hl
  have het := escapeTree_main env m h hmh trm cf A X hlookM f' hl kA.2 kX.2 hne
  -- commit
  have happm := applyM v m h hmh s1.actionEdits s1.textEdits hk.1 hk.2.2.1
    { escAfter2 m h cf A X with pristine := [(m, trm), (h, trh)] } rfl ms 0 {} cf (false, [], []) es hM hinv0 hokM
    (by intro k _; rw [hstF]; exact ⟨rfl, rfl⟩)
  have hagree : Agree h (0 + hps.length) { escAfter2 m h cf A X with pristine := [(m, trm), (h, trh)] }
      (editsOf v h 0 {} hps (scratchH m h)) := by
    intro k _
    obtain ⟨g1, g2⟩ := find_h_false v m h hmh s1.actionEdits s1.textEdits ms 0 {} cf (false, [], []) es k hM rfl
      (by simp) (by simp) hcall
    rw [hstF] at g1 g2
    rw [hs1]
    exact ⟨g1, g2⟩
  have happh := applyEdits_outA v h { escAfter2 m h cf A X with pristine := [(m, trm), (h, trh)] } hps 0 {} {}
    (scratchH m h) esH asH hH hfreshH hasH hagree
  rw [← hrootM] at happm
  rw [← hrootH] at happh
  obtain ⟨E', hc⟩ := commit2 m h hmh trm trh cf A X _ _ kA.1 kX.1 happm happh
  rw [step_execs2 v (f' + 3) m h hmh trm trh _ _ cf _ E' het hfin hc pre1 d,
    step_execs2 v (f' + 3) m h hmh trm trh _ _ cf _ E' het hfin hc pre2 d]

/-- the low-level forms: from the analysis and commit facts of the first execution -/
theorem C06_result_history_independent_gen (v : Validators) (fuel : Nat) (name : String) (tr tr' : Tree) (cf : Ctx)
    (E E' : Esc)
    (het : escapeTree ⟨[(name, some tr)], fun n => (alookup [(name, 1)] n).isSome, false, v⟩ fuel {} {} name =
      .ok (E, cf, name))
    (hfin : finalError cf = none) (hc : commit [(name, some tr)] E = .ok ([(name, some tr')], E'))
    (pre1 pre2 : List Value) (d : Value) :
    (Api.step (execs (setupW v fuel name tr) pre1) (.exec 0 d)).2 =
      (Api.step (execs (setupW v fuel name tr) pre2) (.exec 0 d)).2 := by
  rw [step_execs_gen v fuel name tr tr' cf E E' het hfin hc pre1 d,
    step_execs_gen v fuel name tr tr' cf E E' het hfin hc pre2 d]

#print axioms C01_api_main_plus_derived_helper_repeat
#print axioms step_execsD
#print axioms C06_result_history_independent_single
#print axioms C06_result_history_independent_branch
#print axioms C06_result_history_independent_main_plus_helper
#print axioms C06_result_history_independent_main_plus_derived_helper
#print axioms C06_result_history_independent_gen

end SafeHtml.Proofs.Layer3Repeat3
