/-
C14 soundness of an accepted prefix (after library commit 213930e: numeric character references without `;` are
refused in URL prefixes).
* `rx_endsWithCharRefPrefix`, `rx_unterminatedNumericCharRef`: the two Rx obligations, proved as equalities with
  byte-level recognisers (`Spec.CharRef.endsWithCharRefPrefix`, `hasUnterm`);
* `C14_prefix_sound_decode`: conjunct 1 of `C14_prefix_sound_statement`, no hypothesis;
* `decoders_dichotomy`: on a string without unterminated numeric reference, Go's `html.UnescapeString` and the WHATWG
  attribute-value decoder agree, or they agree up to a point where the browser's reading continues with a byte that
  ends the URL scheme state (`&`, `<`, `>`, `"`, a non-ASCII byte);
* `C14_prefix_sound_scheme_of`: conjuncts 1–3 (decoding, scheme unchanged by the data, scheme ≠ javascript) for EVERY
  accepted prefix, in the browser's reading, no hypothesis;
* `C14_prefix_sound_final`: all four conjuncts; conjunct 4 (after `?`/`#` the data is fully percent-encoded, `?`/`#`
  read by the browser) still assumes `GoHtml.unescapeString p = CharRef.decodeAttr p`;
  `C14_prefix_sound_go` has it for Go's reading without hypothesis, `C14_prefix_sound_plain` for prefixes without `&`;
* `pJs_rejected`: the former counterexample `java&#9script:` is refused now.
Core Lean only (plus `Lean.Elab.Command` for two small metaprograms that state `D = <definition value>` /
abstract a constant out of a definition body, so that the kernel never evaluates the entity table).
-/
import Lean.Elab.Command
import SafeHtml.Proofs.CharRefAppend
import SafeHtml.Proofs.Utf8More
import SafeHtml.Proofs.RxAscii
import SafeHtml.Proofs.Tactics
import SafeHtml.Props.C14
import SafeHtml.Props.C11
import SafeHtml.Proofs.C13Prefix
namespace SafeHtml.Proofs.C14Sound
open SafeHtml SafeHtml.Rx SafeHtml.Spec SafeHtml.Spec.CharRef SafeHtml.Generated.Regexes
open SafeHtml.Proofs.CharRefAppend SafeHtml.Proofs.CharRefEsc
open SafeHtml.Model SafeHtml.Model.TmplUrl SafeHtml.Props.C14 SafeHtml.Spec.UrlComp

/-! ### byte-level reading of `X$` for simple ASCII `X` -/

/-- some match length of `X` at the front of `t` reaches the end of `t` -/
def hasEnd (X : Re) (t : Bytes) : Bool := (lensB X t).any fun n => decide (t.length ≤ n)

theorem lensB_cat_eot_isSome (X : Re) (t : Bytes) :
    (lensB (.cat X .eot) t).head?.isSome = hasEnd X t := by
  unfold hasEnd
  simp only [lensB]
  induction lensB X t with
  | nil => rfl
  | cons n l ih =>
    simp only [List.flatMap_cons, List.any_cons]
    by_cases hn : t.length ≤ n
    · have : (t.drop n).isEmpty = true := by simp [List.drop_eq_nil_of_le hn]
      simp [this, hn]
    · have : (t.drop n).isEmpty = false := by
        cases hd : t.drop n with
        | nil => have := congrArg List.length hd; simp at this; omega
        | cons => rfl
      simp only [this, Bool.false_eq_true, if_false, List.map_nil, List.nil_append, hn, decide_false, Bool.false_or]
      exact ih

theorem hasEnd_alt (X Y : Re) (t : Bytes) : hasEnd (.alt X Y) t = (hasEnd X t || hasEnd Y t) := by
  simp only [hasEnd, lensB, List.any_append]

theorem hasEnd_eps (t : Bytes) : hasEnd .eps t = t.isEmpty := by
  cases t <;> simp [hasEnd, lensB]

theorem lensB_cat_cls_nil (rs) (Y : Re) : lensB (.cat (.cls rs) Y) [] = [] := by
  simp [lensB]

theorem lensB_cat_cls_cons (rs) (Y : Re) (c : Nat) (u : Bytes) :
    lensB (.cat (.cls rs) Y) (c :: u) = if inCls rs c then (lensB Y u).map (1 + ·) else [] := by
  simp only [lensB]
  split <;> simp

theorem hasEnd_cat_cls_nil (rs) (Y : Re) : hasEnd (.cat (.cls rs) Y) [] = false := by
  simp [hasEnd, lensB_cat_cls_nil]

theorem hasEnd_cat_cls_cons (rs) (Y : Re) (c : Nat) (u : Bytes) :
    hasEnd (.cat (.cls rs) Y) (c :: u) = (inCls rs c && hasEnd Y u) := by
  unfold hasEnd
  rw [lensB_cat_cls_cons]
  split
  · next h =>
    simp only [h, Bool.true_and, List.any_map, List.length_cons]
    congr 1; funext n; simp only [Function.comp]
    rw [Bool.eq_iff_iff]; simp; omega
  · next h => simp [h]

theorem spanB_ge_length_iff (rs) : ∀ t : Bytes, decide (t.length ≤ spanB rs t) = t.all (inCls rs)
  | [] => by simp [spanB]
  | c :: t => by
    simp only [spanB, List.all_cons, List.length_cons]
    by_cases h : inCls rs c = true
    · simp only [h, if_true, Bool.true_and, ← spanB_ge_length_iff rs t]
      rw [Bool.eq_iff_iff]; simp
    · have h' : inCls rs c = false := by simpa using h
      simp [h']

theorem hasEnd_star (rs) (t : Bytes) : hasEnd (.star (.cls rs) true) t = t.all (inCls rs) := by
  rw [← spanB_ge_length_iff]
  unfold hasEnd
  simp only [lensB]
  rw [Bool.eq_iff_iff]
  simp only [List.any_eq_true, List.mem_reverse, List.mem_range, decide_eq_true_eq]
  constructor
  · rintro ⟨n, hn, hl⟩; omega
  · intro h; exact ⟨spanB rs t, by omega, h⟩

/-! ### the classes of `endsWithCharRefPrefixPattern` -/

theorem cls_amp (c : Nat) : inCls [(38, 38)] c = (c == 38) := by
  simp only [inCls, List.any, Bool.or_false]; cls_arith
theorem cls_hash (c : Nat) : inCls [(35, 35)] c = (c == 35) := by
  simp only [inCls, List.any, Bool.or_false]; cls_arith
theorem cls_x (c : Nat) : inCls [(88, 88), (120, 120)] c = (c == 120 || c == 88) := by
  simp only [inCls, List.any, Bool.or_false]; cls_arith
theorem cls_alpha : inCls [(65, 90), (97, 122)] = isAlpha := by
  funext c; simp only [inCls, List.any, Bool.or_false, isAlpha, isLowerAlpha, isUpperAlpha]; cls_arith
theorem cls_alnum : inCls [(48, 57), (65, 90), (97, 122)] = isAlnum := by
  funext c
  simp only [inCls, List.any, Bool.or_false, isAlnum, isAlpha, isLowerAlpha, isUpperAlpha, isDigit]; cls_arith
theorem cls_digit : inCls [(48, 57)] = isDigit := by
  funext c; simp only [inCls, List.any, Bool.or_false, isDigit]
theorem cls_hex : inCls [(48, 57), (65, 70), (97, 102)] = fun c => (Spec.CharRef.hexVal c).isSome := by
  funext c
  simp only [inCls, List.any, Bool.or_false, Spec.CharRef.hexVal, isDigit]
  by_cases h1 : (48 ≤ c && c ≤ 57) = true
  · simp [h1]
  · by_cases h2 : (97 ≤ c && c ≤ 102) = true
    · simp [h1, h2]
    · by_cases h3 : (65 ≤ c && c ≤ 70) = true
      · simp [h1, h2, h3]
      · simp [h1, h2, h3]

/-! ### the pattern -/

def reA : Re := .cat (.cls [(65, 90), (97, 122)]) (.star (.cls [(48, 57), (65, 90), (97, 122)]) true)
def reX : Re := .cat (.cls [(88, 88), (120, 120)]) (.star (.cls [(48, 57), (65, 70), (97, 102)]) true)
def reB : Re := .cat (.cls [(35, 35)]) (.alt reX (.star (.cls [(48, 57)]) true))
def reQ : Re := .alt (.alt reA reB) .eps

theorem pattern_eq : template_endsWithCharRefPrefixPattern = .cat (.cls [(38, 38)]) (.cat reQ .eot) := rfl

theorem hasEnd_reQ (t : Bytes) : hasEnd reQ t = refPrefixTail t := by
  unfold reQ
  rw [hasEnd_alt, hasEnd_alt, hasEnd_eps]
  cases t with
  | nil => simp [reA, reB, hasEnd_cat_cls_nil, refPrefixTail]
  | cons c u =>
    unfold reA reB
    rw [hasEnd_cat_cls_cons, hasEnd_cat_cls_cons, hasEnd_star, hasEnd_alt, hasEnd_star, cls_alpha, cls_alnum,
      cls_hash, cls_digit]
    simp only [List.isEmpty_cons, Bool.or_false]
    by_cases hc : c = 35
    · subst hc
      rw [refPrefixTail_hash]
      have : isAlpha 35 = false := by decide
      simp only [this, Bool.false_and, Bool.false_or, beq_self_eq_true, Bool.true_and]
      congr 1
      unfold reX
      cases u with
      | nil => simp [hasEnd_cat_cls_nil]
      | cons d w =>
        rw [hasEnd_cat_cls_cons, hasEnd_star, cls_x, cls_hex]
        by_cases h1 : d = 120
        · subst h1; simp
        · by_cases h2 : d = 88
          · subst h2; simp
          · have : (d == 120 || d == 88) = false := by simp [h1, h2]
            rw [this, Bool.false_and]
            split
            · next heq => cases heq; exact absurd rfl h1
            · next heq => cases heq; exact absurd rfl h2
            · rfl
    · rw [refPrefixTail_other c u hc]
      have : (c == 35) = false := by simp [hc]
      simp [this]

theorem firstMatchB_pattern : ∀ s : Bytes,
    (firstMatchB template_endsWithCharRefPrefixPattern s).isSome = endsWithCharRefPrefix s
  | [] => by
    rw [pattern_eq]
    simp [firstMatchB, lensB_cat_cls_nil, endsWithCharRefPrefix]
  | c :: t => by
    have ih := firstMatchB_pattern t
    rw [ewcrp_cons, ← ih, ← hasEnd_reQ, ← lensB_cat_eot_isSome]
    rw [pattern_eq] at ih ⊢
    simp only [firstMatchB, lensB_cat_cls_cons, cls_amp]
    by_cases hc : c = 38
    · subst hc
      simp only [beq_self_eq_true, if_true, Bool.true_and, List.head?_map]
      cases (lensB (.cat reQ .eot) t).head? with
      | none => simp
      | some l => simp
    · have : (c == 38) = false := by simp [hc]
      simp [this]

/-- **Rx obligation (no gap).** Go's `endsWithCharRefPrefixPattern`
    `&(?:[[:alpha:]][[:alnum:]]*|#(?:[xX][[:xdigit:]]*|[[:digit:]]*))?$` is exactly the WHATWG-side notion
    "ends with something that could still become (or be changed as) a character reference". -/
theorem rx_endsWithCharRefPrefix (p : Bytes) :
    Rx.matchString template_endsWithCharRefPrefixPattern p = Spec.CharRef.endsWithCharRefPrefix p := by
  rw [matchString_ascii _ (by decide) (by decide) (by decide), firstMatchB_pattern]

/-! ### WHATWG scheme: the two transcriptions agree; append lemmas -/

theorem schemeState_eq (t : Bytes) : ∀ acc : Bytes,
    UrlComp.schemeState t acc = UrlScheme.schemeState acc t := by
  induction t with
  | nil => intro acc; rfl
  | cons c t ih =>
    intro acc
    simp only [UrlComp.schemeState, UrlScheme.schemeState]
    rw [ih]
    rfl

theorem whatwgScheme_eq (s : Bytes) : UrlComp.whatwgScheme s = UrlScheme.whatwgScheme s := by
  unfold UrlComp.whatwgScheme UrlScheme.whatwgScheme UrlScheme.schemeStart
  have : UrlComp.preprocess s = UrlScheme.preprocess s := rfl
  rw [this]
  cases UrlScheme.preprocess s with
  | nil => rfl
  | cons c t => simp only [schemeState_eq]

theorem dropWhile_none {α} (p : α → Bool) : ∀ l : List α, (∀ b ∈ l, p b = false) → l.dropWhile p = l
  | [], _ => rfl
  | c :: t, h => by simp [List.dropWhile, h c (by simp)]

theorem preprocess_id (s : Bytes) (h : ∀ b ∈ s, 32 < b) : preprocess s = s := by
  unfold preprocess stripLeading
  have hc : ∀ b ∈ s, isC0OrSpace b = false := by
    intro b hb; have := h b hb; simp [isC0OrSpace]; omega
  rw [dropWhile_none _ s hc, dropWhile_none _ s.reverse (fun b hb => hc b (List.mem_reverse.1 hb)),
    List.reverse_reverse]
  apply List.filter_eq_self.2
  intro b hb
  have := h b hb
  simp [isTabOrNewline]; omega

theorem schemeState_append (b : Bytes) : ∀ (a acc : Bytes), (∃ c ∈ a, isSchemeChar c = false) →
    schemeState (a ++ b) acc = schemeState a acc
  | [], _, h => by obtain ⟨c, hc, _⟩ := h; simp at hc
  | x :: a, acc, h => by
    simp only [List.cons_append, schemeState]
    by_cases hx : isSchemeChar x = true
    · simp only [hx, if_true]
      apply schemeState_append b a
      obtain ⟨c, hc, hcs⟩ := h
      simp only [List.mem_cons] at hc
      rcases hc with rfl | hc
      · rw [hx] at hcs; cases hcs
      · exact ⟨c, hc, hcs⟩
    · simp only [hx, Bool.false_eq_true, if_false]

theorem isAlpha_schemeChar (c : Nat) (h : isAlpha c = true) : isSchemeChar c = true := by
  simp [isSchemeChar, isAlnum, h]

theorem whatwgScheme_append (d v : Bytes) (hd : ∀ b ∈ d, 32 < b) (hv : ∀ b ∈ v, 32 < b)
    (hstop : ∃ c ∈ d, isSchemeChar c = false) : whatwgScheme (d ++ v) = whatwgScheme d := by
  unfold whatwgScheme
  rw [preprocess_id d hd, preprocess_id (d ++ v) (by
    intro b hb; rcases List.mem_append.1 hb with hb | hb
    · exact hd b hb
    · exact hv b hb)]
  cases d with
  | nil => obtain ⟨c, hc, _⟩ := hstop; simp at hc
  | cons c t =>
    simp only [List.cons_append]
    by_cases ha : isAlpha c = true
    · simp only [ha, if_true]
      apply schemeState_append
      obtain ⟨x, hx, hxs⟩ := hstop
      simp only [List.mem_cons] at hx
      rcases hx with rfl | hx
      · rw [isAlpha_schemeChar _ ha] at hxs; cases hxs
      · exact ⟨x, hx, hxs⟩
    · simp only [ha, Bool.false_eq_true, if_false]

theorem schemeState_prefix : ∀ (t acc r : Bytes), schemeState t acc = some r → ∃ x, r = acc.reverse ++ x
  | [], _, _, h => by simp [schemeState] at h
  | c :: t, acc, r, h => by
    simp only [schemeState] at h
    split at h
    · obtain ⟨x, hx⟩ := schemeState_prefix t _ r h
      exact ⟨asciiLower c :: x, by simp [hx]⟩
    · split at h
      · cases h; exact ⟨[], by simp⟩
      · cases h

/-- a string read with scheme `javascript` starts with `j` or `J` -/
theorem js_head (d : Bytes) (hd : ∀ b ∈ d, 32 < b) (h : whatwgScheme d = some javascript) :
    ∃ c t, d = c :: t ∧ asciiLower c = 106 := by
  unfold whatwgScheme at h
  rw [preprocess_id d hd] at h
  cases d with
  | nil => cases h
  | cons c t =>
    refine ⟨c, t, rfl, ?_⟩
    simp only [] at h
    split at h
    · obtain ⟨x, hx⟩ := schemeState_prefix _ _ _ h
      simp only [javascript, List.reverse_cons, List.reverse_nil, List.nil_append, List.singleton_append,
        List.cons.injEq] at hx
      exact hx.1.symm
    · cases h

/-- a scheme is found: alpha, scheme characters, then `:` -/
theorem schemeState_some_split : ∀ (t acc r : Bytes), schemeState t acc = some r →
    ∃ run rest, t = run ++ 58 :: rest ∧ ∀ b ∈ run, isSchemeChar b = true
  | [], _, _, h => by simp [schemeState] at h
  | c :: t, acc, r, h => by
    simp only [schemeState] at h
    split at h
    · next hc =>
      obtain ⟨run, rest, ht, hrun⟩ := schemeState_some_split t _ r h
      refine ⟨c :: run, rest, by simp [ht], ?_⟩
      intro b hb
      simp only [List.mem_cons] at hb
      rcases hb with rfl | hb
      · exact hc
      · exact hrun b hb
    · split at h
      · next hc => exact ⟨[], t, by simp [eq_of_beq hc], by simp⟩
      · cases h

/-! ### `startsWithFullySpecifiedSchemePattern` read on bytes -/

def reSch : Re :=
  .cat (.cls [(65, 90), (97, 122)])
    (.cat (.star (.cls [(43, 43), (45, 46), (48, 57), (65, 90), (97, 122)]) true) (.cls [(58, 58)]))

theorem schemePat_eq : template_startsWithFullySpecifiedSchemePattern = .cat .bot reSch := rfl

theorem rx_scheme (d : Bytes) :
    matchString template_startsWithFullySpecifiedSchemePattern d = !(lensB reSch d).isEmpty := by
  rw [schemePat_eq, matchString_bot_ascii _ (by decide) (by decide)]

theorem cls_sch : inCls [(43, 43), (45, 46), (48, 57), (65, 90), (97, 122)] = isSchemeChar := by
  funext c
  simp only [inCls, List.any, Bool.or_false, isSchemeChar, isAlnum, isAlpha, isLowerAlpha, isUpperAlpha, isDigit]
  cls_arith

theorem cls_colon (c : Nat) : inCls [(58, 58)] c = (c == 58) := by
  simp only [inCls, List.any, Bool.or_false]; cls_arith

/-- a match of the scheme pattern contains a `:` -/
theorem scheme_match_colon (d : Bytes)
    (h : matchString template_startsWithFullySpecifiedSchemePattern d = true) : 58 ∈ d := by
  rw [rx_scheme] at h
  unfold reSch at h
  cases d with
  | nil => rw [lensB_cat_cls_nil] at h; simp at h
  | cons c t =>
    rw [lensB_cat_cls_cons] at h
    split at h
    · cases hl : lensB (.cat (.star (.cls [(43, 43), (45, 46), (48, 57), (65, 90), (97, 122)]) true) (.cls [(58, 58)])) t with
      | nil => rw [hl] at h; simp at h
      | cons l ls =>
        have hmem : l ∈ lensB (.cat (.star (.cls [(43, 43), (45, 46), (48, 57), (65, 90), (97, 122)]) true) (.cls [(58, 58)])) t := by
          rw [hl]; simp
        simp only [lensB, List.mem_flatMap, List.mem_map] at hmem
        obtain ⟨n, _, m, hm, _⟩ := hmem
        cases hd : t.drop n with
        | nil => rw [hd] at hm; simp [lensB] at hm
        | cons x r =>
          rw [hd] at hm
          simp only [lensB] at hm
          split at hm
          · next hx =>
            rw [cls_colon] at hx
            have hx' : x = 58 := eq_of_beq hx
            have : x ∈ t := List.mem_of_mem_drop (by rw [hd]; simp)
            rw [hx'] at this
            simp [this]
          · simp at hm
    · simp at h

theorem spanB_ge_run (rs) : ∀ (run rest : Bytes), (∀ b ∈ run, inCls rs b = true) →
    run.length ≤ spanB rs (run ++ rest)
  | [], _, _ => by simp
  | c :: run, rest, h => by
    simp only [List.cons_append, spanB, h c (by simp), if_true, List.length_cons]
    have := spanB_ge_run rs run rest (fun b hb => h b (by simp [hb]))
    omega

/-- whenever the WHATWG parser finds a scheme (in a string without C0/space), the pattern matches -/
theorem scheme_found_match (d r : Bytes) (hd : ∀ b ∈ d, 32 < b) (h : whatwgScheme d = some r) :
    matchString template_startsWithFullySpecifiedSchemePattern d = true := by
  unfold whatwgScheme at h
  rw [preprocess_id d hd] at h
  cases d with
  | nil => cases h
  | cons c t =>
    simp only [] at h
    split at h
    · next ha =>
      obtain ⟨run, rest, ht, hrun⟩ := schemeState_some_split _ _ _ h
      rw [rx_scheme]
      unfold reSch
      rw [lensB_cat_cls_cons, cls_alpha, ha, if_pos rfl]
      have hmem : run.length + 1 ∈
          lensB (.cat (.star (.cls [(43, 43), (45, 46), (48, 57), (65, 90), (97, 122)]) true) (.cls [(58, 58)])) t := by
        simp only [lensB, List.mem_flatMap, List.mem_map, List.mem_reverse, List.mem_range]
        refine ⟨run.length, ?_, 1, ?_, rfl⟩
        · have := spanB_ge_run [(43, 43), (45, 46), (48, 57), (65, 90), (97, 122)] run (58 :: rest)
            (fun b hb => by rw [cls_sch]; exact hrun b hb)
          rw [← ht] at this; omega
        · rw [ht, List.drop_left]; simp [lensB, cls_colon]
      cases hl : lensB (.cat (.star (.cls [(43, 43), (45, 46), (48, 57), (65, 90), (97, 122)]) true) (.cls [(58, 58)])) t with
      | nil => rw [hl] at hmem; simp at hmem
      | cons l ls => simp
    · cases h

/-! ### what an accepted prefix guarantees about Go's decoding `d` of it -/

theorem decodeURLPrefix_some (p d : Bytes) (h : decodeURLPrefix p = some d) :
    d = GoHtml.unescapeString p ∧ ∀ b ∈ d, 32 < b := by
  unfold decodeURLPrefix at h
  simp only [rx_containsWhitespaceOrControl] at h
  split at h
  · cases h
  · split at h
    · cases h
    · split at h
      · cases h
      · next hws =>
        split at h
        · cases h
        · split at h
          · cases h
          · simp only [Option.some.injEq] at h
            subst h
            refine ⟨rfl, ?_⟩
            intro b hb
            have hws' : (GoHtml.unescapeString p).any isWsOrCtl = false := by simpa using hws
            have := (List.any_eq_false.1 hws') b hb
            simp only [isWsOrCtl, Bool.or_eq_true, decide_eq_true_eq, beq_iff_eq, not_or] at this
            omega

theorem validateURLPrefix_cases (p : Bytes) (h : validateURLPrefix p = true) :
    ∃ d, decodeURLPrefix p = some d ∧
      ((matchString template_startsWithFullySpecifiedSchemePattern d = true ∧ urlSanitized d = d) ∨
       (matchString template_startsWithFullySpecifiedSchemePattern d = false ∧ containsAny d [47, 63, 35] = true)) := by
  unfold validateURLPrefix at h
  cases hd : decodeURLPrefix p with
  | none => simp [hd] at h
  | some d =>
    refine ⟨d, rfl, ?_⟩
    simp only [hd] at h
    cases hs : matchString template_startsWithFullySpecifiedSchemePattern d <;> simp [hs] at h
    · exact Or.inr ⟨rfl, h⟩
    · exact Or.inl ⟨rfl, h⟩

theorem ciPrefix_cons (l : Nat) (ls s : Bytes) (h : Spec.TruUrl.ciPrefix (l :: ls) s = true) :
    ∃ c cs, s = c :: cs ∧ asciiLower c = l ∧ Spec.TruUrl.ciPrefix ls cs = true := by
  cases s with
  | nil => simp [Spec.TruUrl.ciPrefix] at h
  | cons c cs =>
    simp only [Spec.TruUrl.ciPrefix, Bool.and_eq_true, beq_iff_eq] at h
    exact ⟨c, cs, rfl, h.1, h.2⟩

theorem asciiLower_58 (c : Nat) (h : asciiLower c = 58) : c = 58 := by
  unfold asciiLower at h
  split at h
  · next hu => simp only [isUpperAlpha, Bool.and_eq_true, decide_eq_true_eq] at hu; omega
  · exact h

/-- a safe TrustedResourceURL prefix does not start with `j`/`J` and contains `/` or `:` -/
theorem safePrefix_first_stop (d : Bytes) (h : Spec.TruUrl.safePrefix d = true) :
    (∃ c t, d = c :: t ∧ asciiLower c ≠ 106) ∧ ∃ x ∈ d, isSchemeChar x = false := by
  unfold Spec.TruUrl.safePrefix at h
  simp only [Bool.or_eq_true, Bool.and_eq_true] at h
  rcases h with ((h | h) | h) | h
  · obtain ⟨c0, s0, rfl, h0, h⟩ := ciPrefix_cons _ _ _ h.1
    obtain ⟨c1, s1, rfl, _, h⟩ := ciPrefix_cons _ _ _ h
    obtain ⟨c2, s2, rfl, _, h⟩ := ciPrefix_cons _ _ _ h
    obtain ⟨c3, s3, rfl, _, h⟩ := ciPrefix_cons _ _ _ h
    obtain ⟨c4, s4, rfl, _, h⟩ := ciPrefix_cons _ _ _ h
    obtain ⟨c5, s5, rfl, h5, _⟩ := ciPrefix_cons _ _ _ h
    refine ⟨⟨c0, _, rfl, by omega⟩, c5, by simp, ?_⟩
    rw [asciiLower_58 c5 h5]; decide
  · unfold Spec.TruUrl.netPath at h
    split at h
    · exact ⟨⟨47, _, rfl, by decide⟩, 47, by simp, by decide⟩
    · cases h
  · unfold Spec.TruUrl.pathAbsolute at h
    split at h
    · exact ⟨⟨47, _, rfl, by decide⟩, 47, by simp, by decide⟩
    · cases h
  · obtain ⟨c0, s0, rfl, h0, h⟩ := ciPrefix_cons _ _ _ h
    obtain ⟨c1, s1, rfl, _, h⟩ := ciPrefix_cons _ _ _ h
    obtain ⟨c2, s2, rfl, _, h⟩ := ciPrefix_cons _ _ _ h
    obtain ⟨c3, s3, rfl, _, h⟩ := ciPrefix_cons _ _ _ h
    obtain ⟨c4, s4, rfl, _, h⟩ := ciPrefix_cons _ _ _ h
    obtain ⟨c5, s5, rfl, h5, _⟩ := ciPrefix_cons _ _ _ h
    refine ⟨⟨c0, _, rfl, by omega⟩, c5, by simp, ?_⟩
    rw [asciiLower_58 c5 h5]; decide

/-- **What validation guarantees** (all three URL contexts), about Go's decoding `d` of the prefix: no C0/space,
    some byte that ends the scheme state (`:` `/` `?` `#`), and the WHATWG scheme of `d` is not `javascript`. -/
theorem prefix_facts (sc : SC) (p : Bytes) (hsc : sc ≠ .other) (hvalid : prefixValid sc p = true) :
    (∀ b ∈ GoHtml.unescapeString p, 32 < b) ∧ (∃ c ∈ GoHtml.unescapeString p, isSchemeChar c = false) ∧
    whatwgScheme (GoHtml.unescapeString p) ≠ some javascript := by
  have url_case : validateURLPrefix p = true →
      (∀ b ∈ GoHtml.unescapeString p, 32 < b) ∧ (∃ c ∈ GoHtml.unescapeString p, isSchemeChar c = false) ∧
      whatwgScheme (GoHtml.unescapeString p) ≠ some javascript := by
    intro hv
    obtain ⟨d, hd, hcases⟩ := validateURLPrefix_cases p hv
    obtain ⟨hdeq, hgt⟩ := decodeURLPrefix_some p d hd
    rw [← hdeq]
    refine ⟨hgt, ?_, ?_⟩
    · rcases hcases with ⟨hm, _⟩ | ⟨_, hc⟩
      · exact ⟨58, scheme_match_colon d hm, by decide⟩
      · unfold containsAny at hc
        obtain ⟨b, hb, hbc⟩ := List.any_eq_true.1 hc
        refine ⟨b, hb, ?_⟩
        simp only [List.contains_cons, List.contains_nil, Bool.or_false, Bool.or_eq_true, beq_iff_eq] at hbc
        rcases hbc with rfl | rfl | rfl <;> decide
    · rcases hcases with ⟨_, hsan⟩ | ⟨hm, _⟩
      · have := (SafeHtml.Props.C11.C11_safe id ⟨rfl, fun _ _ _ => rfl⟩ d hsan).1
        rw [← whatwgScheme_eq] at this
        exact this
      · intro hjs
        rw [scheme_found_match d _ hgt hjs] at hm
        cases hm
  cases sc with
  | other => exact absurd rfl hsc
  | url => exact url_case hvalid
  | truOrUrl => exact url_case hvalid
  | tru =>
    simp only [prefixValid, validateTrustedResourceURLPrefix] at hvalid
    cases hd : decodeURLPrefix p with
    | none => rw [hd] at hvalid; cases hvalid
    | some d =>
      rw [hd] at hvalid
      simp only [Bool.and_eq_true] at hvalid
      obtain ⟨hdeq, hgt⟩ := decodeURLPrefix_some p d hd
      rw [← hdeq]
      have hsp : Spec.TruUrl.safePrefix d = true := by
        rw [← SafeHtml.Proofs.C13.rx_prefix]; exact hvalid.1
      obtain ⟨⟨c, t, hct, hne⟩, hstop⟩ := safePrefix_first_stop d hsp
      refine ⟨hgt, hstop, ?_⟩
      intro hjs
      obtain ⟨c', t', hct', hj⟩ := js_head d hgt hjs
      rw [hct] at hct'
      cases hct'
      exact hne hj

/-! ### the chain output -/

theorem isUnreserved_gt32 (b : Nat) (h : isUnreserved b = true ∨ b = 37) : 32 < b := by
  rcases h with h | h
  · simp only [isUnreserved, isAlnum, isAlpha, isLowerAlpha, isUpperAlpha, isDigit, Bool.or_eq_true,
      Bool.and_eq_true, decide_eq_true_eq, beq_iff_eq] at h
    omega
  · omega

theorem prefixValid_of_choose (sc : SC) (p : Bytes) (ch : Chain) (hc : chooseChain sc p = some ch) :
    prefixValid sc p = true := by
  rw [C14_choice] at hc
  cases hv : prefixValid sc p with
  | true => rfl
  | false => rw [hv] at hc; simp at hc

/-- in a URL context the chain output has no C0 control, space (or NUL) -/
theorem chain_output_gt32 (sc : SC) (p w v : Bytes) (ch : Chain) (hsc : sc ≠ .other)
    (hc : chooseChain sc p = some ch) (hr : runChain ch w = some v) : ∀ b ∈ v, 32 < b := by
  intro b hb
  cases ch with
  | htmlOnly =>
    rw [C14_choice] at hc
    cases sc with
    | other => exact absurd rfl hsc
    | url => simp only [] at hc; repeat (split at hc <;> try cases hc)
    | truOrUrl => simp only [] at hc; repeat (split at hc <;> try cases hc)
    | tru => simp only [] at hc; repeat (split at hc <;> try cases hc)
  | norm =>
    simp only [runChain, Option.some.injEq] at hr; subst hr
    exact (C14_norm_alphabet w b hb).1
  | query =>
    simp only [runChain, Option.some.injEq] at hr; subst hr
    exact isUnreserved_gt32 b (C14_query w b hb)
  | queryNoDotDot =>
    simp only [runChain, Option.map_eq_some_iff] at hr
    obtain ⟨u, _, rfl⟩ := hr
    exact isUnreserved_gt32 b (C14_query u b hb)

/-! ### soundness of an accepted prefix -/

/-- **Conjunct 1, no hypothesis**: the browser sees the decoded prefix followed by exactly the chain output. -/
theorem C14_prefix_sound_decode (sc : SC) (p w v : Bytes) (ch : Chain) (hsc : sc ≠ .other)
    (hc : chooseChain sc p = some ch) (hr : runChain ch w = some v) :
    CharRef.decodeAttr (p ++ htmlEscapeString v) = CharRef.decodeAttr p ++ v :=
  CharRefAppend.C14_prefix_sound_decode sc p w v ch hsc hc hr (rx_endsWithCharRefPrefix p)

/-- **Engine-side reading, no hypothesis**: with `d` = Go's `html.UnescapeString` of the prefix (the string the
    validators look at) in place of the browser's reading of the prefix, the data cannot change the scheme, the
    scheme is not `javascript`, and after `?`/`#` the data is fully percent-encoded. -/
theorem C14_prefix_sound_go (sc : SC) (p w v : Bytes) (ch : Chain) (hsc : sc ≠ .other)
    (hc : chooseChain sc p = some ch) (hr : runChain ch w = some v) :
    let d := GoHtml.unescapeString p
    whatwgScheme (d ++ v) = whatwgScheme d ∧ whatwgScheme (d ++ v) ≠ some javascript ∧
    ((d.contains 63 || d.contains 35) = true → unreservedOrPct v = true) := by
  intro d
  obtain ⟨hgt, hstop, hjs⟩ := prefix_facts sc p hsc (prefixValid_of_choose sc p ch hc)
  have hv := chain_output_gt32 sc p w v ch hsc hc hr
  have h2 : whatwgScheme (d ++ v) = whatwgScheme d := whatwgScheme_append d v hgt hv hstop
  refine ⟨h2, by rw [h2]; exact hjs, ?_⟩
  intro hq
  by_cases htru : sc = .tru
  · exact (C14_choice_query sc p w v ch hsc (Or.inr htru) hc hr).1
  · refine (C14_choice_query sc p w v ch hsc (Or.inl ?_) hc hr).1
    unfold inQueryOrFragment containsAny
    simp only [Bool.or_eq_true, List.any_eq_true]
    right
    simp only [Bool.or_eq_true, List.contains_iff_mem] at hq
    rcases hq with hq | hq
    · exact ⟨63, hq, by decide⟩
    · exact ⟨35, hq, by decide⟩

/-- **C14 prefix soundness, all four conjuncts of `C14_prefix_sound_statement`**, under ONE hypothesis: Go's
    `html.UnescapeString` and the WHATWG attribute-value decoder read the static prefix the same way. (`p ≠ []` is not
    needed. Conjunct 1 needs no hypothesis: `C14_prefix_sound_decode`.) Without `hgo` conjunct 3 is false:
    `C14_false_scheme_javascript`. -/
theorem C14_prefix_sound_full (sc : SC) (p w v : Bytes) (ch : Chain) (hsc : sc ≠ .other)
    (hc : chooseChain sc p = some ch) (hr : runChain ch w = some v)
    (hgo : GoHtml.unescapeString p = CharRef.decodeAttr p) :
    let bp := CharRef.decodeAttr p
    let bd := CharRef.decodeAttr (p ++ htmlEscapeString v)
    bd = bp ++ v ∧ whatwgScheme bd = whatwgScheme bp ∧ whatwgScheme bd ≠ some javascript ∧
    ((bp.contains 63 || bp.contains 35) = true → unreservedOrPct v = true) := by
  intro bp bd
  have h1 : bd = bp ++ v := C14_prefix_sound_decode sc p w v ch hsc hc hr
  have hg := C14_prefix_sound_go sc p w v ch hsc hc hr
  simp only [hgo] at hg
  rw [h1]
  exact hg |>.elim fun a b => ⟨rfl, a, b⟩

/-! ### corollary: a prefix without `&` (no character reference at all) -/

theorem decodeAux_noamp (attr : Bool) : ∀ (f : Nat) (s : Bytes), 38 ∉ s → CharRef.decodeAux attr f s = s
  | 0, _, _ => rfl
  | _+1, [], _ => rfl
  | f+1, c :: t, h => by
    have hc : c ≠ 38 := fun e => h (by simp [e])
    rw [decodeAux_other attr f c t hc, decodeAux_noamp attr f t (fun hm => h (by simp [hm]))]

theorem unescapeAux_noamp : ∀ (f : Nat) (s : Bytes), 38 ∉ s → GoHtml.unescapeAux f s = s
  | 0, _, _ => rfl
  | _+1, [], _ => rfl
  | f+1, c :: t, h => by
    have hc : (c == 38) = false := by
      simp only [beq_eq_false_iff_ne]; exact fun e => h (by simp [e])
    simp only [GoHtml.unescapeAux, hc, Bool.false_eq_true, if_false]
    rw [unescapeAux_noamp f t (fun hm => h (by simp [hm]))]

/-- for a static prefix without `&` the hypothesis of `C14_prefix_sound_full` holds: all four conjuncts -/
theorem C14_prefix_sound_plain (sc : SC) (p w v : Bytes) (ch : Chain) (hsc : sc ≠ .other)
    (hc : chooseChain sc p = some ch) (hr : runChain ch w = some v) (hamp : 38 ∉ p) :
    let bp := CharRef.decodeAttr p
    let bd := CharRef.decodeAttr (p ++ htmlEscapeString v)
    bd = bp ++ v ∧ whatwgScheme bd = whatwgScheme bp ∧ whatwgScheme bd ≠ some javascript ∧
    ((bp.contains 63 || bp.contains 35) = true → unreservedOrPct v = true) :=
  C14_prefix_sound_full sc p w v ch hsc hc hr (by
    unfold GoHtml.unescapeString CharRef.decodeAttr
    rw [unescapeAux_noamp _ p hamp, decodeAux_noamp true _ p hamp])

/-! ### entity table facts -/

theorem bsearchL_some' (l : List (Nat × Nat × Nat)) (k : Nat) : ∀ (f lo hi : Nat) (v : Nat × Nat),
    bsearchL l k f lo hi = some v → k = 0 ∨ ∃ e ∈ l, e.1 = k ∧ e.2 = v
  | 0, _, _, _, h => by simp [bsearchL] at h
  | f+1, lo, hi, v, h => by
    unfold bsearchL at h
    split at h
    · simp only [] at h
      split at h
      · next heq =>
        have heq' := eq_of_beq heq
        cases hm : l[(lo + hi) / 2]? with
        | none =>
          rw [hm] at heq'
          left; rw [← heq']; rfl
        | some e =>
          rw [hm] at heq' h
          right
          refine ⟨e, List.mem_of_getElem? hm, heq', ?_⟩
          simpa using h
      · split at h
        · exact bsearchL_some' l k f _ _ v h
        · exact bsearchL_some' l k f _ _ v h
    · cases h

theorem foldl_pos : ∀ (l : Bytes) (a : Nat), 1 ≤ a → 1 ≤ l.foldl (fun a b => a * 256 + b) a
  | [], _, h => h
  | b :: l, a, h => by
    simp only [List.foldl_cons]
    exact foldl_pos l _ (by omega)

theorem lookup_some_entry (name : Bytes) (e : Nat × Nat) (h : EntityTable.lookup name = some e) :
    ∃ ent ∈ tableList, ent.1 = nameKey name ∧ ent.2 = e := by
  rw [lookup_eq] at h
  rcases bsearchL_some' _ _ _ _ _ _ h with h0 | h1
  · have := foldl_pos name 1 (Nat.le_refl _)
    unfold nameKey at h0; omega
  · exact h1

theorem nameKey_snoc (l : Bytes) (b : Nat) (hb : b < 256) : nameKey (l ++ [b]) % 256 = b := by
  unfold nameKey
  rw [List.foldl_append]
  simp only [List.foldl_cons, List.foldl_nil]
  omega

/-- ends the scheme state without producing a scheme, and is not stripped by URL preprocessing -/
def isStop (s : Nat) : Bool := !isSchemeChar s && decide (32 < s) && s != 58

def stopHead (l : Bytes) : Bool :=
  match l with
  | s :: _ => isStop s
  | [] => false

def hasQH (l : Bytes) : Bool := l.contains 63 || l.contains 35

/-- every entity denotes a non-NUL first rune; a name WITHOUT the final `;` denotes `& < > "` or a non-ASCII
    character (so: starts with a byte that stops the scheme state), never `?` or `#` -/
theorem table_facts : (tableList.all fun ent =>
    ent.2.1 != 0 && (ent.1 % 256 == 59 || (stopHead (encodeEntity ent.2) && !hasQH (encodeEntity ent.2)))) = true := by
  decide +kernel

theorem lookup_facts (name : Bytes) (e : Nat × Nat) (h : EntityTable.lookup name = some e) :
    e.1 ≠ 0 ∧ (nameKey name % 256 = 59 ∨ (stopHead (encodeEntity e) = true ∧ hasQH (encodeEntity e) = false)) := by
  obtain ⟨ent, hmem, hk, he⟩ := lookup_some_entry name e h
  have := List.all_eq_true.1 table_facts ent hmem
  rw [hk, he] at this
  simp only [Bool.and_eq_true, bne_iff_ne, ne_eq, Bool.or_eq_true, beq_iff_eq, Bool.not_eq_true'] at this
  exact this

/-! ### Go's `unescapeEntity` on a `;`-terminated named reference -/

theorem goAlnumRun_eq : ∀ r : Bytes, GoHtml.alnumRun r = CharRef.alnumRun r
  | [] => rfl
  | c :: t => by simp only [GoHtml.alnumRun, CharRef.alnumRun, goAlnumRun_eq t]

theorem take_succ_of_drop {α} : ∀ (k : Nat) (l : List α) (x : α) (u : List α), l.drop k = x :: u →
    l.take (k + 1) = l.take k ++ [x]
  | 0, l, x, u, h => by simp at h; subst h; simp
  | k+1, [], x, u, h => by simp at h
  | k+1, a :: l, x, u, h => by
    simp only [List.drop_succ_cons] at h
    simp only [List.take_succ_cons, List.cons_append, take_succ_of_drop k l x u h]

/- `D_def : @D = <definition value of D>` for definitions whose body is a `match` on `EntityTable.lookup …`:
   the kernel cannot unfold such a body next to anything else (it would evaluate the table), but it can check
   `D = value` (it unfolds the constant and finds the identical lambda). -/
open Lean Elab Command Meta in
run_cmd liftTermElabM do
  for (c, thm) in [(``SafeHtml.Model.GoHtml.entity1, `SafeHtml.Proofs.C14Sound.entity1_def),
                   (``SafeHtml.Model.GoHtml.entity2, `SafeHtml.Proofs.C14Sound.entity2_def)] do
    let ci ← getConstInfo c
    let lhs := mkConst c
    let ty ← mkEq lhs ci.value!
    let pf ← mkEqRefl lhs
    addDecl (.thmDecl { name := thm, levelParams := [], type := ty, value := pf })

theorem entity1_of_lookup (name : Bytes) (a b : Nat) (h : EntityTable.lookup name = some (a, b)) :
    GoHtml.entity1 name = if b = 0 then a else 0 := by
  rw [congrFun entity1_def name, h]
  cases b <;> rfl

theorem entity2_of_lookup (name : Bytes) (a b : Nat) (h : EntityTable.lookup name = some (a, b)) :
    GoHtml.entity2 name = if b = 0 then none else some (a, b) := by
  rw [congrFun entity2_def name, h]
  cases b <;> rfl

theorem encodeEntity_eq (a b : Nat) :
    encodeEntity (a, b) = if b = 0 then Utf8.encodeRune a else Utf8.encodeRune a ++ Utf8.encodeRune b := by
  unfold encodeEntity
  cases b <;> rfl

/-- Go on a `;`-terminated named reference found in the table -/
theorem go_named_semi (c : Nat) (u w : Bytes) (e : Nat × Nat) (hc : c ≠ 35)
    (hk : CharRef.alnumRun (c :: u) ≠ 0)
    (hd : (c :: u).drop (CharRef.alnumRun (c :: u)) = 59 :: w)
    (hl : EntityTable.lookup ((c :: u).take (CharRef.alnumRun (c :: u)) ++ [59]) = some e) (he : e.1 ≠ 0) :
    GoHtml.unescapeEntity (c :: u) = (encodeEntity e, CharRef.alnumRun (c :: u) + 1) := by
  have hname := take_succ_of_drop _ _ _ _ hd
  obtain ⟨a, b⟩ := e
  have h1 := entity1_of_lookup _ a b hl
  have h2 := entity2_of_lookup _ a b hl
  have hk1 : (CharRef.alnumRun (c :: u) + 1 == 0) = false := by simp
  unfold GoHtml.unescapeEntity
  split
  · next heq => cases heq
  · next heq => cases heq; exact absurd rfl hc
  · simp only []
    rw [goAlnumRun_eq, hd]
    simp only []
    simp only [hname, h1, h2, hk1, encodeEntity_eq, Bool.false_eq_true, if_false]
    by_cases hb : b = 0
    · subst hb
      have ha : (a != 0) = true := by simpa using he
      simp only [if_true, ha]
    · have h0 : ((0 : Nat) != 0) = false := rfl
      simp only [if_neg hb, h0, Bool.false_eq_true, if_false]

/-! ### Go's `unescapeEntity` on a `;`-terminated numeric reference with an ASCII value -/

def M32 : Nat := 4294967296

theorem digitVal_eq (hex : Bool) (c : Nat) :
    GoHtml.digitVal hex c = if hex then Spec.CharRef.hexVal c else decVal c := by
  cases hex <;> simp [GoHtml.digitVal, Spec.CharRef.hexVal, decVal]

theorem numLoop_digits (hex : Bool) (w : Bytes) : ∀ (ds : Bytes) (x0 n0 x n : Nat),
    digits (fun c => if hex then Spec.CharRef.hexVal c else decVal c) (if hex then 16 else 10) ds x0 n0 = (x, n) →
    ds.drop (n - n0) = 59 :: w →
    GoHtml.numLoop hex ds (x0 % 4294967296) n0 = (x % 4294967296, n + 1)
  | [], x0, n0, x, n, hd, hs => by
    simp only [digits, Prod.mk.injEq] at hd
    simp at hs
  | c :: t, x0, n0, x, n, hd, hs => by
    simp only [digits] at hd
    simp only [GoHtml.numLoop, digitVal_eq]
    cases hv : (if hex then Spec.CharRef.hexVal c else decVal c) with
    | none =>
      rw [hv] at hd
      simp only [Prod.mk.injEq] at hd
      obtain ⟨rfl, rfl⟩ := hd
      simp only [Nat.sub_self, List.drop_zero, List.cons.injEq] at hs
      simp [hs.1]
    | some d =>
      rw [hv] at hd
      simp only [] at hd ⊢
      have hge := digits_ge (fun c => if hex then Spec.CharRef.hexVal c else decVal c) (if hex then 16 else 10) t
        ((if hex then 16 else 10) * x0 + d) (n0 + 1)
      rw [hd] at hge
      simp only [] at hge
      have hsub : n - n0 = (n - (n0 + 1)) + 1 := by omega
      rw [hsub, List.drop_succ_cons] at hs
      have ih := numLoop_digits hex w t _ _ x n hd hs
      rw [← ih]
      congr 1
      cases hex <;> simp only [if_true, if_false, Bool.false_eq_true] <;> omega

theorem digitsOf_eq (isHex : Bool) (ds : Bytes) :
    digitsOf isHex ds =
      digits (fun c => if isHex then Spec.CharRef.hexVal c else decVal c) (if isHex then 16 else 10) ds 0 0 := by
  cases isHex <;> rfl

theorem c1_values_ge : ∀ e ∈ c1Table, 128 ≤ e.2 := by decide

theorem numericCodePoint_ascii (x : Nat) (h : numericCodePoint x < 128) : x < 128 ∧ x ≠ 0 ∧ numericCodePoint x = x := by
  unfold numericCodePoint at h ⊢
  split at h
  · omega
  · split at h
    · omega
    · split at h
      · omega
      · next h0 h1 h2 =>
        have h0' : x ≠ 0 := by simpa using h0
        simp only [h0, h1, h2, if_false, Bool.false_eq_true]
        split at h
        · next e he =>
          have := c1_values_ge e (List.mem_of_find?_eq_some he)
          omega
        · exact ⟨h, h0', rfl⟩

theorem numRune_ascii (x : Nat) (h : x < 128) (h0 : x ≠ 0) : GoHtml.numRune x = x := by
  unfold GoHtml.numRune
  have h1 : (0x80 ≤ x && x ≤ 0x9F) = false := by simp; omega
  have h2 : (x == 0 || (0xD800 ≤ x && x ≤ 0xDFFF) || x > 0x10FFFF) = false := by simp [h0]; omega
  simp only [h1, h2, Bool.false_eq_true, if_false]

/-- the common shape of the numeric branch of Go's decoder: `rest = "#" ++ pre ++ ds`, `pre` = "" / "x" / "X" -/
theorem go_numeric (hex : Bool) (pre ds w : Bytes) (x n : Nat)
    (hpre : (hex = true ∧ (pre = [120] ∨ pre = [88])) ∨
            (hex = false ∧ pre = [] ∧ ∃ c u, ds = c :: u ∧ c ≠ 120 ∧ c ≠ 88))
    (hd : digitsOf hex ds = (x, n)) (hn : n ≠ 0) (hs : ds.drop n = 59 :: w) (hx : numericCodePoint x < 128) :
    GoHtml.unescapeEntity (35 :: (pre ++ ds)) =
      (Utf8.encodeRune (numericCodePoint x), 1 + (if hex then 1 else 0) + n + 1) := by
  obtain ⟨hx1, hx0, hxe⟩ := numericCodePoint_ascii x hx
  rw [digitsOf_eq] at hd
  have hl := numLoop_digits hex w ds 0 0 x n hd (by simpa using hs)
  have hmod : x % 4294967296 = x := Nat.mod_eq_of_lt (by omega)
  rw [Nat.zero_mod, hmod] at hl
  have hlen : n + 1 ≤ ds.length := by
    have := congrArg List.length hs
    simp only [List.length_drop, List.length_cons] at this
    omega
  rcases hpre with ⟨rfl, hp⟩ | ⟨rfl, rfl, c, u, rfl, hc1, hc2⟩
  · rcases hp with rfl | rfl
    · have hlen2 : ¬ (35 :: 120 :: ds).length ≤ 2 := by simp only [List.length_cons]; omega
      show GoHtml.unescapeEntity (35 :: 120 :: ds) = _
      unfold GoHtml.unescapeEntity
      simp only []
      rw [if_neg hlen2]
      have hdrop : List.drop 2 (35 :: 120 :: ds) = ds := rfl
      simp only [beq_self_eq_true, Bool.true_or, if_true, hdrop, hl]
      rw [if_neg (by omega), numRune_ascii x hx1 hx0, hxe]
      congr 1
    · have hlen2 : ¬ (35 :: 88 :: ds).length ≤ 2 := by simp only [List.length_cons]; omega
      show GoHtml.unescapeEntity (35 :: 88 :: ds) = _
      unfold GoHtml.unescapeEntity
      simp only []
      rw [if_neg hlen2]
      have hdrop : List.drop 2 (35 :: 88 :: ds) = ds := rfl
      simp only [beq_self_eq_true, Bool.or_true, if_true, hdrop, hl]
      rw [if_neg (by omega), numRune_ascii x hx1 hx0, hxe]
      congr 1
  · have hlen2 : ¬ (35 :: c :: u).length ≤ 2 := by
      simp only [List.length_cons] at hlen ⊢; omega
    have hh : (c == 120 || c == 88) = false := by simp [hc1, hc2]
    show GoHtml.unescapeEntity (35 :: c :: u) = _
    unfold GoHtml.unescapeEntity
    simp only []
    rw [if_neg hlen2]
    have hdrop : List.drop 1 (35 :: c :: u) = c :: u := rfl
    simp only [hh, Bool.false_eq_true, if_false, hdrop, hl]
    rw [if_neg (by omega), numRune_ascii x hx1 hx0, hxe]
    congr 1

/-! ### unterminated numeric references, byte level -/

/-- `ds` (the bytes after `&#` / `&#x`) starts with at least one digit and the digits are not followed by `;` -/
def untermBody (isHex : Bool) (ds : Bytes) : Bool :=
  (digitsOf isHex ds).2 != 0 && semiOf (ds.drop (digitsOf isHex ds).2) == 0

/-- the bytes after an `&` are a numeric character reference without the terminating `;` -/
def untermAt : Bytes → Bool
  | 35 :: t =>
    (match t with
     | 120 :: u => untermBody true u
     | 88 :: u => untermBody true u
     | _ => untermBody false t)
  | _ => false

/-- byte-level reading of `unterminatedNumericCharRefPattern` -/
def hasUnterm : Bytes → Bool
  | [] => false
  | c :: t => (c == 38 && untermAt t) || hasUnterm t

theorem hasUnterm_cons (c : Nat) (t : Bytes) :
    hasUnterm (c :: t) = ((c == 38 && untermAt t) || hasUnterm t) := rfl

theorem hasUnterm_drop : ∀ (n : Nat) (p : Bytes), hasUnterm p = false → hasUnterm (p.drop n) = false
  | 0, p, h => by simpa using h
  | _+1, [], h => by simpa using h
  | n+1, c :: p, h => by
    rw [hasUnterm_cons, Bool.or_eq_false_iff] at h
    simp only [List.drop_succ_cons]
    exact hasUnterm_drop n p h.2

theorem untermAt_dec (c : Nat) (u : Bytes) (h1 : c ≠ 120) (h2 : c ≠ 88) :
    untermAt (35 :: c :: u) = untermBody false (c :: u) := by
  unfold untermAt
  simp only []
  split
  · next heq => cases heq; exact absurd rfl h1
  · next heq => cases heq; exact absurd rfl h2
  · rfl

theorem semiOf_ne_zero (d : Bytes) (h : semiOf d ≠ 0) : ∃ w, d = 59 :: w ∧ semiOf d = 1 := by
  cases d with
  | nil => exact absurd rfl h
  | cons c r =>
    by_cases hc : c = 59
    · subst hc; exact ⟨r, rfl, rfl⟩
    · exfalso; apply h; simp [semiOf, hc]

/-! ### one reference: the browser's output starts with a stopper, or Go produces the same -/

theorem isStop_of_ge128 (b : Nat) (h : 128 ≤ b) : isStop b = true := by
  simp only [isStop, isSchemeChar, isAlnum, isAlpha, isLowerAlpha, isUpperAlpha, isDigit, Bool.and_eq_true,
    Bool.not_eq_true', Bool.or_eq_false_iff, Bool.and_eq_false_iff, decide_eq_false_iff_not, decide_eq_true_eq,
    beq_eq_false_iff_ne, bne_iff_ne]
  omega

theorem encodeRune_ne_nil (r : Nat) : Utf8.encodeRune r ≠ [] := by
  unfold Utf8.encodeRune
  repeat' split
  all_goals simp

theorem stopHead_encodeRune (r : Nat) (h : 128 ≤ r) : stopHead (Utf8.encodeRune r) = true := by
  cases he : Utf8.encodeRune r with
  | nil => exact absurd he (encodeRune_ne_nil r)
  | cons b t =>
    have := Utf8.encodeRune_nonascii r h b (by rw [he]; simp)
    exact isStop_of_ge128 b this

theorem stopHead_amp : stopHead [38] = true := by decide

theorem step_num (isHex : Bool) (pre ds : Bytes)
    (hpre : (isHex = true ∧ (pre = [120] ∨ pre = [88])) ∨
            (isHex = false ∧ pre = [] ∧ ∃ c u, ds = c :: u ∧ c ≠ 120 ∧ c ≠ 88))
    (hu : untermBody isHex ds = false) :
    stopHead (numBody isHex ds).1 = true ∨ GoHtml.unescapeEntity (35 :: (pre ++ ds)) = numBody isHex ds := by
  rw [numBody_eq]
  cases hd : digitsOf isHex ds with
  | mk x n =>
    unfold untermBody at hu
    rw [hd] at hu
    simp only [] at hu ⊢
    by_cases hn : n = 0
    · subst hn; left; exact stopHead_amp
    · have hn' : (n == 0) = false := by simp [hn]
      have hn'' : (n != 0) = true := by simp [hn]
      rw [hn'', Bool.true_and] at hu
      have hs : semiOf (ds.drop n) ≠ 0 := by simpa using hu
      obtain ⟨w, hw, hs1⟩ := semiOf_ne_zero _ hs
      simp only [hn', Bool.false_eq_true, if_false, hs1]
      by_cases hx : numericCodePoint x < 128
      · right; exact go_numeric isHex pre ds w x n hpre hd hn hw hx
      · left; exact stopHead_encodeRune _ (by omega)

theorem exists_snoc {α} : ∀ l : List α, l ≠ [] → ∃ i x, l = i ++ [x]
  | [], h => absurd rfl h
  | [a], _ => ⟨[], a, rfl⟩
  | a :: b :: t, _ => by
    obtain ⟨i, x, h⟩ := exists_snoc (b :: t) (by simp)
    exact ⟨a :: i, x, by rw [h]; rfl⟩

theorem longestPrefixG_spec (lk : Bytes → Option (Nat × Nat)) (run : Bytes) : ∀ (k : Nat) (e : Nat × Nat) (j : Nat),
    longestPrefixG lk run k = some (e, j) → 1 ≤ j ∧ j ≤ k ∧ lk (run.take j) = some e
  | 0, _, _, h => by simp [longestPrefixG] at h
  | k+1, e, j, h => by
    rw [longestPrefixG] at h
    split at h
    · next e' he' =>
      simp only [Option.some.injEq, Prod.mk.injEq] at h
      obtain ⟨rfl, rfl⟩ := h
      exact ⟨by omega, Nat.le_refl _, he'⟩
    · have := longestPrefixG_spec lk run k e j h
      exact ⟨this.1, by omega, this.2.2⟩

theorem semiLookup_some (run d : Bytes) (e : Nat × Nat) (h : semiLookup run d = some e) :
    ∃ w, d = 59 :: w ∧ EntityTable.lookup (run ++ [59]) = some e := by
  unfold semiLookup at h
  split at h
  · exact ⟨_, rfl, h⟩
  · cases h

/-- a legacy name (no `;`) found by the browser denotes something that starts with a stopper -/
theorem legacy_stop (rest : Bytes) (j : Nat) (e : Nat × Nat) (h1 : 1 ≤ j) (hj : j ≤ CharRef.alnumRun rest)
    (hl : EntityTable.lookup ((rest.take (CharRef.alnumRun rest)).take j) = some e) :
    stopHead (encodeEntity e) = true ∧ hasQH (encodeEntity e) = false := by
  have hk := alnumRun_le rest
  rw [List.take_take, Nat.min_eq_left hj] at hl
  have hne : rest.take j ≠ [] := by
    intro h0
    have := congrArg List.length h0
    simp only [List.length_take, List.length_nil] at this
    omega
  obtain ⟨i, x, hix⟩ := exists_snoc _ hne
  have hx : isAlnum x = true := alnumRun_take_all rest j hj x (by rw [hix]; simp)
  have hx256 := alnum_lt x hx
  have hx59 : x ≠ 59 := by rintro rfl; revert hx; decide
  rcases (lookup_facts _ e hl).2 with h | h
  · rw [hix, nameKey_snoc i x hx256] at h; exact absurd h hx59
  · exact h

theorem step_named (c : Nat) (u : Bytes) (hc : c ≠ 35) :
    stopHead (namedBody true (c :: u)).1 = true ∨ GoHtml.unescapeEntity (c :: u) = namedBody true (c :: u) := by
  by_cases hk : CharRef.alnumRun (c :: u) = 0
  · left; unfold namedBody; rw [hk]; exact stopHead_amp
  · cases hsl : semiLookup ((c :: u).take (CharRef.alnumRun (c :: u))) ((c :: u).drop (CharRef.alnumRun (c :: u))) with
    | some e =>
      right
      obtain ⟨w, hd, hl⟩ := semiLookup_some _ _ _ hsl
      have he := (lookup_facts _ e hl).1
      rw [go_named_semi c u w e hc hk hd hl he]
      unfold namedBody
      rw [hsl, if_neg (by simpa using hk)]
    | none =>
      left
      unfold namedBody
      rw [hsl, if_neg (by simpa using hk)]
      simp only []
      cases hlp : longestPrefix ((c :: u).take (CharRef.alnumRun (c :: u))) (CharRef.alnumRun (c :: u)) with
      | none => exact stopHead_amp
      | some ej =>
        obtain ⟨e, j⟩ := ej
        simp only []
        split
        · exact stopHead_amp
        · rw [longestPrefix_eq_G] at hlp
          obtain ⟨h1, hj, hl⟩ := longestPrefixG_spec _ _ _ _ _ hlp
          exact (legacy_stop (c :: u) j e h1 hj hl).1

/-- **One reference.** For the bytes after an `&` that are not an unterminated numeric reference: what the browser
    substitutes starts with a byte that ends the scheme state (`&` itself when nothing is decoded, a non-ASCII
    byte, one of `< > "` …), or Go's decoder substitutes exactly the same and consumes the same bytes. -/
theorem step (rest : Bytes) (hu : untermAt rest = false) :
    stopHead (consume true rest).1 = true ∨ GoHtml.unescapeEntity rest = consume true rest := by
  cases rest with
  | nil => left; rw [consume_nil]; exact stopHead_amp
  | cons c u =>
    by_cases hc : c = 35
    · subst hc
      cases u with
      | nil => left; rw [consume_dec_nil]; exact stopHead_amp
      | cons d w =>
        by_cases h1 : d = 120
        · subst h1
          rw [consume_hex_x]
          exact step_num true [120] w (Or.inl ⟨rfl, Or.inl rfl⟩) hu
        · by_cases h2 : d = 88
          · subst h2
            rw [consume_hex_X]
            exact step_num true [88] w (Or.inl ⟨rfl, Or.inr rfl⟩) hu
          · rw [consume_dec true d w h1 h2]
            rw [untermAt_dec d w h1 h2] at hu
            exact step_num false [] (d :: w) (Or.inr ⟨rfl, rfl, d, w, rfl, h1, h2⟩) hu
    · rw [consume_named_eq true c u hc]
      exact step_named c u hc

/-! ### the two decoders in lockstep -/

theorem unescapeAux_amp (f : Nat) (t : Bytes) :
    GoHtml.unescapeAux (f + 1) (38 :: t) =
      (GoHtml.unescapeEntity t).1 ++ GoHtml.unescapeAux f (t.drop (GoHtml.unescapeEntity t).2) := by
  simp [GoHtml.unescapeAux]

theorem unescapeAux_other (f : Nat) (c : Nat) (t : Bytes) (h : c ≠ 38) :
    GoHtml.unescapeAux (f + 1) (c :: t) = c :: GoHtml.unescapeAux f t := by
  simp [GoHtml.unescapeAux, h]

theorem unescapeAux_nil (f : Nat) : GoHtml.unescapeAux f [] = [] := by
  cases f <;> simp [GoHtml.unescapeAux]

/-- **Lockstep.** On a string without unterminated numeric reference the browser's attribute-value decoding and
    Go's `html.UnescapeString` are equal, or they have a common part `c` after which the browser's reading continues
    with a stopper `s` (a byte > 0x20 that is no scheme character and not `:`). -/
theorem lockstep : ∀ (f : Nat) (p : Bytes), p.length ≤ f → hasUnterm p = false →
    decodeAux true f p = GoHtml.unescapeAux f p ∨
    ∃ c s X Y, decodeAux true f p = c ++ s :: X ∧ GoHtml.unescapeAux f p = c ++ Y ∧ isStop s = true
  | f, [], _, _ => by left; rw [decodeAux_nil, unescapeAux_nil]
  | 0, _ :: _, hf, _ => by simp at hf
  | f+1, c :: t, hf, hu => by
    simp only [List.length_cons] at hf
    rw [hasUnterm_cons, Bool.or_eq_false_iff] at hu
    by_cases hc : c = 38
    · subst hc
      have hut : untermAt t = false := by simpa using hu.1
      rw [decodeAux_amp, unescapeAux_amp]
      rcases step t hut with hs | he
      · right
        cases ho : (consume true t).1 with
        | nil => rw [ho] at hs; cases hs
        | cons s o =>
          rw [ho] at hs
          exact ⟨[], s, o ++ decodeAux true f (t.drop (consume true t).2),
            (GoHtml.unescapeEntity t).1 ++ GoHtml.unescapeAux f (t.drop (GoHtml.unescapeEntity t).2), by simp, by simp, hs⟩
      · rw [he]
        have hle := consume_le true t
        rcases lockstep f (t.drop (consume true t).2) (by rw [List.length_drop]; omega)
            (hasUnterm_drop _ _ hu.2) with h | ⟨c', s, X, Y, h1, h2, h3⟩
        · left; rw [h]
        · right
          exact ⟨(consume true t).1 ++ c', s, X, Y, by rw [h1, List.append_assoc], by rw [h2, List.append_assoc], h3⟩
    · rw [decodeAux_other _ _ _ _ hc, unescapeAux_other _ _ _ hc]
      rcases lockstep f t (by omega) hu.2 with h | ⟨c', s, X, Y, h1, h2, h3⟩
      · left; rw [h]
      · right; exact ⟨c :: c', s, X, Y, by rw [h1]; rfl, by rw [h2]; rfl, h3⟩

theorem decoders_dichotomy (p : Bytes) (hu : hasUnterm p = false) :
    CharRef.decodeAttr p = GoHtml.unescapeString p ∨
    ∃ c s X Y, CharRef.decodeAttr p = c ++ s :: X ∧ GoHtml.unescapeString p = c ++ Y ∧ isStop s = true :=
  lockstep p.length p (Nat.le_refl _) hu

/-! ### scheme of a string with a stopper inside a part without C0/space -/

theorem dropWhile_append_stop {α} (q : α → Bool) : ∀ (l1 l2 : List α), (∀ x, l2.head? = some x → q x = false) →
    l2 ≠ [] → (l1 ++ l2).dropWhile q = l1.dropWhile q ++ l2
  | [], l2, h, hne => by
    cases l2 with
    | nil => exact absurd rfl hne
    | cons x t => simp [List.dropWhile, h x rfl]
  | a :: l1, l2, h, hne => by
    simp only [List.cons_append, List.dropWhile_cons]
    split
    · exact dropWhile_append_stop q l1 l2 h hne
    · rfl

theorem preprocess_prefix (a X : Bytes) (ha : ∀ b ∈ a, 32 < b) (hne : a ≠ []) :
    ∃ X', preprocess (a ++ X) = a ++ X' := by
  have hc : ∀ b ∈ a, isC0OrSpace b = false := by
    intro b hb; have := ha b hb; simp [isC0OrSpace]; omega
  unfold preprocess stripLeading
  cases a with
  | nil => exact absurd rfl hne
  | cons x t =>
    have h1 : ((x :: t) ++ X).dropWhile isC0OrSpace = (x :: t) ++ X := by
      simp [List.dropWhile, hc x (by simp)]
    rw [h1, List.reverse_append]
    rw [dropWhile_append_stop isC0OrSpace X.reverse (x :: t).reverse (by
        intro y hy
        have : y ∈ (x :: t).reverse := List.mem_of_mem_head? hy
        exact hc y (List.mem_reverse.1 this)) (by simp)]
    rw [List.reverse_append, List.reverse_reverse, List.filter_append]
    refine ⟨((X.reverse.dropWhile isC0OrSpace).reverse).filter (fun c => !isTabOrNewline c), ?_⟩
    congr 1
    apply List.filter_eq_self.2
    intro b hb
    have := ha b hb
    simp [isTabOrNewline]; omega

theorem whatwgScheme_stop (a X : Bytes) (ha : ∀ b ∈ a, 32 < b) (hstop : ∃ x ∈ a, isSchemeChar x = false) :
    whatwgScheme (a ++ X) = whatwgScheme a := by
  have hne : a ≠ [] := by rintro rfl; obtain ⟨x, hx, _⟩ := hstop; simp at hx
  obtain ⟨X', hX'⟩ := preprocess_prefix a X ha hne
  unfold whatwgScheme
  rw [hX', preprocess_id a ha]
  cases a with
  | nil => exact absurd rfl hne
  | cons c t =>
    simp only [List.cons_append]
    by_cases hal : isAlpha c = true
    · simp only [hal, if_true]
      apply schemeState_append
      obtain ⟨x, hx, hxs⟩ := hstop
      simp only [List.mem_cons] at hx
      rcases hx with rfl | hx
      · rw [isAlpha_schemeChar _ hal] at hxs; cases hxs
      · exact ⟨x, hx, hxs⟩
    · simp only [hal, Bool.false_eq_true, if_false]

theorem schemeState_all_stop (s : Nat) (X : Bytes) (hs : isSchemeChar s = false) (h58 : s ≠ 58) :
    ∀ (c acc : Bytes), (∀ b ∈ c, isSchemeChar b = true) → schemeState (c ++ s :: X) acc = none
  | [], acc, _ => by
    have : (s == 58) = false := by simp [h58]
    simp [schemeState, hs, this]
  | x :: c, acc, h => by
    simp only [List.cons_append, schemeState, h x (by simp), if_true]
    exact schemeState_all_stop s X hs h58 c _ (fun b hb => h b (by simp [hb]))

theorem isStop_spec (s : Nat) (h : isStop s = true) : isSchemeChar s = false ∧ 32 < s ∧ s ≠ 58 := by
  simp only [isStop, Bool.and_eq_true, Bool.not_eq_true', decide_eq_true_eq, bne_iff_ne] at h
  exact ⟨h.1.1, h.1.2, h.2⟩

/-- the divergent case: the browser's reading `c ++ s :: X`, Go's reading `c ++ Y` -/
theorem divergent_scheme (c X Y v : Bytes) (s : Nat) (hs : isStop s = true)
    (hd : ∀ b ∈ c ++ Y, 32 < b) (hjs : whatwgScheme (c ++ Y) ≠ some javascript) :
    whatwgScheme ((c ++ s :: X) ++ v) = whatwgScheme (c ++ s :: X) ∧
    whatwgScheme (c ++ s :: X) ≠ some javascript := by
  obtain ⟨hs1, hs2, hs3⟩ := isStop_spec s hs
  have hc : ∀ b ∈ c, 32 < b := fun b hb => hd b (List.mem_append.2 (Or.inl hb))
  have ha : ∀ b ∈ c ++ [s], 32 < b := by
    intro b hb
    rcases List.mem_append.1 hb with hb | hb
    · exact hc b hb
    · simp at hb; omega
  have hstop : ∃ x ∈ c ++ [s], isSchemeChar x = false := ⟨s, by simp, hs1⟩
  have e1 : c ++ s :: X = (c ++ [s]) ++ X := by simp
  have e2 : (c ++ s :: X) ++ v = (c ++ [s]) ++ (X ++ v) := by simp
  constructor
  · rw [e2, e1, whatwgScheme_stop _ _ ha hstop, whatwgScheme_stop _ _ ha hstop]
  · rw [e1, whatwgScheme_stop _ _ ha hstop]
    by_cases hcs : ∃ x ∈ c, isSchemeChar x = false
    · rw [whatwgScheme_stop c [s] hc hcs, ← whatwgScheme_stop c Y hc hcs]
      exact hjs
    · have hall : ∀ b ∈ c, isSchemeChar b = true := by
        intro b hb
        cases hb' : isSchemeChar b with
        | true => rfl
        | false => exact absurd ⟨b, hb, hb'⟩ hcs
      unfold whatwgScheme
      rw [preprocess_id _ ha]
      cases c with
      | nil =>
        simp only [List.nil_append]
        have : isAlpha s = false := by
          cases hh : isAlpha s with
          | false => rfl
          | true => rw [isAlpha_schemeChar s hh] at hs1; cases hs1
        simp [this]
      | cons x c' =>
        simp only [List.cons_append]
        split
        · rw [schemeState_all_stop s [] hs1 hs3 c' _ (fun b hb => hall b (by simp [hb]))]
          simp
        · simp

/-! ### Rx obligation: `unterminatedNumericCharRefPattern` = `hasUnterm` -/

section RxUnterm
open SafeHtml.Utf8

def neL (l : List Nat) : Bool := !l.isEmpty

theorem neL_append (a b : List Nat) : neL (a ++ b) = (neL a || neL b) := by
  cases a <;> simp [neL]

theorem neL_map (f : Nat → Nat) (l : List Nat) : neL (l.map f) = neL l := by
  cases l <;> simp [neL]

theorem neL_flatMap (l : List Nat) (f : Nat → List Nat) : neL (l.flatMap f) = l.any fun n => neL (f n) := by
  induction l with
  | nil => rfl
  | cons a l ih => simp only [List.flatMap_cons, neL_append, List.any_cons, ih]

theorem lens_cat_ascii (a b : Re) (hs : simple a = true) (ha : asciiRe a = true) (x : Bytes) :
    lens (.cat a b) (decodeSyms x) =
      (lensB a x).flatMap fun n => (lens b (decodeSyms (x.drop n))).map (n + ·) := by
  simp only [lens]
  rw [lens_decodeSyms_ascii a hs ha]
  apply flatMap_congr_aux
  intro n hn
  obtain ⟨h1, h2⟩ := lensB_take_ascii a hs ha x n hn
  rw [decodeSyms_drop_ascii x n h1 h2]

theorem neL_lens_cat_ascii (a b : Re) (hs : simple a = true) (ha : asciiRe a = true) (x : Bytes) :
    neL (lens (.cat a b) (decodeSyms x)) = (lensB a x).any fun n => neL (lens b (decodeSyms (x.drop n))) := by
  rw [lens_cat_ascii a b hs ha, neL_flatMap]
  congr 1; funext n; rw [neL_map]

/-- the byte after the digits: end of string, or a byte that is not `bad` -/
def tailOk (bad : Nat → Bool) (x : Bytes) : Bool :=
  match x with
  | [] => true
  | b :: _ => !bad b

theorem neL_tail (rs : List (Nat × Nat)) (bad : Nat → Bool)
    (h1 : ∀ c, c < 128 → inCls rs c = !bad c) (h2 : ∀ r, 128 ≤ r → r ≤ 1114111 → inCls rs r = true)
    (h3 : ∀ c, bad c = true → c < 128) (x : Bytes) :
    neL (lens (.alt (.cls rs) .eot) (decodeSyms x)) = tailOk bad x := by
  cases x with
  | nil => rw [decodeSyms_nil]; simp [lens, neL, tailOk]
  | cons b t =>
    by_cases hb : b < 128
    · rw [decodeSyms_cons_ascii b t hb]
      simp only [lens, h1 b hb, tailOk]
      cases bad b <;> simp [neL]
    · rw [decodeSyms_cons]
      have hr1 := decode1_nonascii b t (by omega)
      have hr2 := Rx.decode1_rune_le b t (by omega)
      have hbad : bad b = false := by
        cases hh : bad b with
        | false => rfl
        | true => have := h3 b hh; omega
      simp [lens, h2 _ hr1 hr2, tailOk, hbad, neL]

theorem spanB_drop_lt (rs) : ∀ (u : Bytes) (m : Nat), m < spanB rs u →
    ∃ h tl, u.drop m = h :: tl ∧ inCls rs h = true
  | [], m, h => by simp [spanB] at h
  | c :: u, m, h => by
    simp only [spanB] at h
    split at h
    · next hc =>
      cases m with
      | zero => exact ⟨c, u, rfl, hc⟩
      | succ m => exact spanB_drop_lt rs u m (by omega)
    · omega

theorem spanB_drop_head (rs) : ∀ (u : Bytes) (h : Nat) (tl : Bytes), u.drop (spanB rs u) = h :: tl → inCls rs h = false
  | [], h, tl, he => by simp [spanB] at he
  | c :: u, h, tl, he => by
    simp only [spanB] at he
    split at he
    · exact spanB_drop_head rs u h tl (by simpa using he)
    · next hc => simp at he; rw [← he.1]; simpa using hc

/-- `[rs]+` followed by a tail test: only the maximal run can be followed by a non-`bad` byte -/
theorem plus_tail (rs) (bad : Nat → Bool) (hbad : ∀ c, inCls rs c = true → bad c = true) (u : Bytes) :
    ((lensB (Re.plus (.cls rs) true) u).any fun n => tailOk bad (u.drop n)) =
      (spanB rs u != 0 && tailOk bad (u.drop (spanB rs u))) := by
  unfold Re.plus
  cases u with
  | nil => simp [lensB_cat_cls_nil, spanB]
  | cons c u' =>
    rw [lensB_cat_cls_cons]
    simp only [spanB]
    split
    · next hc =>
      have hne : (spanB rs u' + 1 != 0) = true := by simp
      rw [hne, Bool.true_and]
      simp only [lensB, List.any_map, List.any_reverse]
      rw [Bool.eq_iff_iff]
      simp only [List.any_eq_true, List.mem_range, Function.comp]
      constructor
      · rintro ⟨m, hm, hok⟩
        have e : (c :: u').drop (1 + m) = u'.drop m := by rw [Nat.add_comm]; rfl
        rw [e] at hok
        by_cases hlt : m < spanB rs u'
        · obtain ⟨h, tl, hd, hin⟩ := spanB_drop_lt rs u' m hlt
          rw [hd] at hok
          simp [tailOk, hbad h hin] at hok
        · have : m = spanB rs u' := by omega
          subst this
          exact hok
      · intro hok
        refine ⟨spanB rs u', by omega, ?_⟩
        have e : (c :: u').drop (1 + spanB rs u') = u'.drop (spanB rs u') := by rw [Nat.add_comm]; rfl
        rw [e]; exact hok
    · simp

theorem digits_count (val : Nat → Option Nat) (base : Nat) (rs) (h : ∀ c, (val c).isSome = inCls rs c) :
    ∀ (ds : Bytes) (x n : Nat), (digits val base ds x n).2 = n + spanB rs ds
  | [], _, _ => by simp [digits, spanB]
  | c :: ds, x, n => by
    simp only [digits, spanB]
    have hc := h c
    cases hv : val c with
    | none => rw [hv] at hc; simp only [Option.isSome_none] at hc; simp [← hc]
    | some d =>
      rw [hv] at hc; simp only [Option.isSome_some] at hc
      simp only [← hc, if_true]
      rw [digits_count val base rs h ds _ _]; omega

def badD (b : Nat) : Bool := isDigit b || b == 59
def badH (b : Nat) : Bool := (Spec.CharRef.hexVal b).isSome || b == 59

theorem tailOk_semi (bad : Nat → Bool) (good : Nat → Bool) (hb : ∀ b, bad b = (good b || b == 59)) (d : Bytes)
    (hd : ∀ h tl, d = h :: tl → good h = false) : tailOk bad d = (semiOf d == 0) := by
  cases d with
  | nil => rfl
  | cons b r =>
    simp only [tailOk, hb, hd b r rfl, Bool.false_or]
    by_cases h59 : b = 59
    · subst h59; rfl
    · simp [semiOf, h59]

theorem untermBody_false_eq (u : Bytes) :
    untermBody false u = (spanB [(48, 57)] u != 0 && tailOk badD (u.drop (spanB [(48, 57)] u))) := by
  have hcount : (digitsOf false u).2 = spanB [(48, 57)] u := by
    have := digits_count decVal 10 [(48, 57)] (by intro c; rw [decVal_isSome, cls_digit]) u 0 0
    simpa [digitsOf] using this
  unfold untermBody
  rw [hcount]
  congr 1
  rw [tailOk_semi badD isDigit (fun _ => rfl)]
  intro h tl he
  have := spanB_drop_head _ u h tl he
  rwa [cls_digit] at this

theorem untermBody_true_eq (u : Bytes) :
    untermBody true u = (spanB [(48, 57), (65, 70), (97, 102)] u != 0 &&
      tailOk badH (u.drop (spanB [(48, 57), (65, 70), (97, 102)] u))) := by
  have hcount : (digitsOf true u).2 = spanB [(48, 57), (65, 70), (97, 102)] u := by
    have := digits_count Spec.CharRef.hexVal 16 [(48, 57), (65, 70), (97, 102)]
      (by intro c; rw [cls_hex]) u 0 0
    simpa [digitsOf] using this
  unfold untermBody
  rw [hcount]
  congr 1
  rw [tailOk_semi badH (fun c => (Spec.CharRef.hexVal c).isSome) (fun _ => rfl)]
  intro h tl he
  have := spanB_drop_head _ u h tl he
  rwa [cls_hex] at this

def reT1 : Re := .alt (.cls [(0, 47), (58, 58), (60, 1114111)]) .eot
def reT2 : Re := .alt (.cls [(0, 47), (58, 58), (60, 64), (71, 96), (103, 1114111)]) .eot
def reB1 : Re := .cat (Re.plus (.cls [(48, 57)]) true) reT1
def reB2 : Re := .cat (.cls [(88, 88), (120, 120)]) (.cat (Re.plus (.cls [(48, 57), (65, 70), (97, 102)]) true) reT2)
def reP0 : Re := .cat (.cls [(38, 38)]) (.cls [(35, 35)])

theorem unterm_pattern_eq : template_unterminatedNumericCharRefPattern = .cat reP0 (.alt reB1 reB2) := rfl

theorem neL_T1 (x : Bytes) : neL (lens reT1 (decodeSyms x)) = tailOk badD x := by
  unfold reT1
  apply neL_tail
  · intro c hc
    simp only [inCls, List.any, Bool.or_false, badD, isDigit]
    cls_arith
  · intro r h1 h2
    simp only [inCls, List.any, Bool.or_false]
    simp; omega
  · intro c hc
    simp only [badD, isDigit, Bool.or_eq_true, Bool.and_eq_true, decide_eq_true_eq, beq_iff_eq] at hc
    omega

theorem neL_T2 (x : Bytes) : neL (lens reT2 (decodeSyms x)) = tailOk badH x := by
  unfold reT2
  apply neL_tail
  · intro c hc
    have := congrFun cls_hex c
    simp only [badH, ← this]
    simp only [inCls, List.any, Bool.or_false]
    cls_arith
  · intro r h1 h2
    simp only [inCls, List.any, Bool.or_false]
    simp; omega
  · intro c hc
    have := congrFun cls_hex c
    simp only [badH, ← this, inCls, List.any, Bool.or_false, Bool.or_eq_true, Bool.and_eq_true, decide_eq_true_eq,
      beq_iff_eq] at hc
    omega

theorem neL_B1 (u : Bytes) : neL (lens reB1 (decodeSyms u)) = untermBody false u := by
  unfold reB1
  rw [neL_lens_cat_ascii _ _ (by decide) (by decide), untermBody_false_eq]
  simp only [neL_T1]
  exact plus_tail [(48, 57)] badD (by intro c hc; rw [cls_digit] at hc; simp [badD, hc]) u

theorem neL_B2 (u : Bytes) :
    neL (lens reB2 (decodeSyms u)) =
      (match u with
       | [] => false
       | c :: u' => (c == 120 || c == 88) && untermBody true u') := by
  unfold reB2
  rw [neL_lens_cat_ascii _ _ (by decide) (by decide)]
  cases u with
  | nil => simp [lensB]
  | cons c u' =>
    simp only [lensB, cls_x]
    by_cases hc : (c == 120 || c == 88) = true
    · simp only [hc, if_true, List.any_cons, List.any_nil, Bool.or_false, List.drop_succ_cons, List.drop_zero,
        Bool.true_and]
      rw [neL_lens_cat_ascii _ _ (by decide) (by decide), untermBody_true_eq]
      simp only [neL_T2]
      exact plus_tail _ badH (by intro c hc; rw [cls_hex] at hc; simp [badH, hc]) u'
    · have hc' : (c == 120 || c == 88) = false := by simpa using hc
      simp [hc']

theorem digit_not_x (c : Nat) (h : (c == 120 || c == 88) = true) : spanB [(48, 57)] (c :: u) = 0 := by
  simp only [Bool.or_eq_true, beq_iff_eq] at h
  rcases h with rfl | rfl <;> rfl

theorem neL_alt_B (u : Bytes) : neL (lens (.alt reB1 reB2) (decodeSyms u)) = untermAt (35 :: u) := by
  simp only [lens, neL_append, neL_B1, neL_B2]
  cases u with
  | nil => simp [untermAt]
  | cons c u' =>
    by_cases h1 : c = 120
    · subst h1
      have : untermBody false (120 :: u') = false := by
        rw [untermBody_false_eq, digit_not_x 120 (by decide)]; rfl
      simp [this, untermAt]
    · by_cases h2 : c = 88
      · subst h2
        have : untermBody false (88 :: u') = false := by
          rw [untermBody_false_eq, digit_not_x 88 (by decide)]; rfl
        simp [this, untermAt]
      · rw [untermAt_dec c u' h1 h2]
        simp [h1, h2]

theorem neL_pattern_ascii (b : Nat) (t : Bytes) :
    neL (lens template_unterminatedNumericCharRefPattern (decodeSyms (b :: t))) = (b == 38 && untermAt t) := by
  rw [unterm_pattern_eq, neL_lens_cat_ascii _ _ (by decide) (by decide)]
  unfold reP0
  rw [lensB_cat_cls_cons, cls_amp]
  by_cases hb : b = 38
  · subst hb
    simp only [beq_self_eq_true, if_true, Bool.true_and, List.any_map]
    cases t with
    | nil => simp [lensB, untermAt]
    | cons c u =>
      simp only [lensB, cls_hash]
      by_cases hc : c = 35
      · subst hc
        simp only [beq_self_eq_true, if_true, List.any_cons, List.any_nil, Bool.or_false, Function.comp]
        exact neL_alt_B u
      · have : (c == 35) = false := by simp [hc]
        have hu : untermAt (c :: u) = false := by
          unfold untermAt; split
          · next heq => cases heq; exact absurd rfl hc
          · rfl
        simp [this, hu]
  · have : (b == 38) = false := by simp [hb]
    simp [this]

theorem hasUnterm_skip : ∀ (pre rest : Bytes), (∀ y ∈ pre, 128 ≤ y) → hasUnterm (pre ++ rest) = hasUnterm rest
  | [], _, _ => rfl
  | y :: pre, rest, h => by
    have hy : (y == 38) = false := by
      have := h y (by simp); simp; omega
    simp only [List.cons_append, hasUnterm_cons, hy, Bool.false_and, Bool.false_or]
    exact hasUnterm_skip pre rest (fun z hz => h z (by simp [hz]))

theorem firstMatch_unterm (x : Bytes) :
    (firstMatch template_unterminatedNumericCharRefPattern (decodeSyms x)).isSome = hasUnterm x := by
  induction x using decode_induction with
  | hnil =>
    rw [decodeSyms_nil, unterm_pattern_eq]
    simp [firstMatch, lens, reP0, hasUnterm]
  | hcons b t ih =>
    by_cases hb : b < 128
    · rw [decode1_ascii b t hb] at ih
      simp only [List.drop_succ_cons, List.drop_zero] at ih
      have hl := neL_pattern_ascii b t
      rw [decodeSyms_cons_ascii b t hb] at hl ⊢
      simp only [firstMatch, hasUnterm_cons]
      rw [← hl, ← ih]
      cases hh : lens template_unterminatedNumericCharRefPattern (⟨b, [b]⟩ :: decodeSyms t) with
      | nil => simp [neL]
      | cons l ls => simp [neL]
    · have hb' : 128 ≤ b := by omega
      rw [decodeSyms_cons]
      have hr := decode1_nonascii b t hb'
      have hnil : lens template_unterminatedNumericCharRefPattern
          (⟨(decode1 b t).1, (b :: t).take (decode1 b t).2⟩ :: decodeSyms ((b :: t).drop (decode1 b t).2)) = [] := by
        rw [unterm_pattern_eq]
        have : inCls [(38, 38)] (decode1 b t).1 = false := by rw [cls_amp]; simp; omega
        simp [lens, reP0, this]
      simp only [firstMatch, hnil, List.head?_nil, Option.isSome_map]
      rw [ih]
      have := hasUnterm_skip _ ((b :: t).drop (decode1 b t).2) (Rx.decode1_take_nonascii b t hb')
      rw [List.take_append_drop] at this
      exact this.symm

/-- **Rx obligation for the repair.** `&#(?:[0-9]+(?:[^0-9;]|$)|[xX][[:xdigit:]]+(?:[^[:xdigit:];]|$))` (unanchored,
    on runes) = "some `&#` / `&#x` is followed by at least one digit and the maximal digit run is not followed by
    `;`" (on bytes). -/
theorem rx_unterminatedNumericCharRef (p : Bytes) :
    Rx.matchString template_unterminatedNumericCharRefPattern p = hasUnterm p := by
  rw [matchString_simple _ (by decide), firstMatch_unterm]

end RxUnterm

/-! ### soundness of an accepted prefix without the agreement hypothesis -/

theorem decodeURLPrefix_no_unterm (p d : Bytes) (h : decodeURLPrefix p = some d) :
    Rx.matchString template_unterminatedNumericCharRefPattern p = false := by
  unfold decodeURLPrefix at h
  cases hm : Rx.matchString template_unterminatedNumericCharRefPattern p with
  | false => rfl
  | true =>
    simp [hm] at h

theorem prefixValid_decodes (sc : SC) (p : Bytes) (hsc : sc ≠ .other) (h : prefixValid sc p = true) :
    ∃ d, decodeURLPrefix p = some d := by
  cases sc with
  | other => exact absurd rfl hsc
  | url =>
    simp only [prefixValid, validateURLPrefix] at h
    cases hd : decodeURLPrefix p with
    | none => rw [hd] at h; cases h
    | some d => exact ⟨d, rfl⟩
  | truOrUrl =>
    simp only [prefixValid, validateURLPrefix] at h
    cases hd : decodeURLPrefix p with
    | none => rw [hd] at h; cases h
    | some d => exact ⟨d, rfl⟩
  | tru =>
    simp only [prefixValid, validateTrustedResourceURLPrefix] at h
    cases hd : decodeURLPrefix p with
    | none => rw [hd] at h; cases h
    | some d => exact ⟨d, rfl⟩

/-- **Conjuncts 1–3 of `C14_prefix_sound_statement` for every accepted prefix** (after library commit 213930e):
    the browser sees the decoded prefix followed by exactly the chain output, the data cannot change the scheme the
    prefix fixed, and that scheme is not `javascript` — in the BROWSER's reading of the prefix, although the engine
    validates Go's reading. No hypothesis left. -/
theorem C14_prefix_sound_scheme_of (sc : SC) (p w v : Bytes) (ch : Chain) (hsc : sc ≠ .other)
    (hc : chooseChain sc p = some ch) (hr : runChain ch w = some v) :
    let bp := CharRef.decodeAttr p
    let bd := CharRef.decodeAttr (p ++ htmlEscapeString v)
    bd = bp ++ v ∧ whatwgScheme bd = whatwgScheme bp ∧ whatwgScheme bd ≠ some javascript := by
  intro bp bd
  have hvalid := prefixValid_of_choose sc p ch hc
  obtain ⟨d, hd⟩ := prefixValid_decodes sc p hsc hvalid
  have hu : hasUnterm p = false := by
    rw [← rx_unterminatedNumericCharRef]; exact decodeURLPrefix_no_unterm p d hd
  rcases decoders_dichotomy p hu with heq | ⟨c, s, X, Y, h1, h2, hs⟩
  · have := C14_prefix_sound_full sc p w v ch hsc hc hr heq.symm
    exact ⟨this.1, this.2.1, this.2.2.1⟩
  · have hdec : bd = bp ++ v := C14_prefix_sound_decode sc p w v ch hsc hc hr
    obtain ⟨hgt, _, hjs⟩ := prefix_facts sc p hsc hvalid
    rw [h2] at hgt hjs
    have := divergent_scheme c X Y v s hs hgt hjs
    show bd = bp ++ v ∧ whatwgScheme bd = whatwgScheme bp ∧ whatwgScheme bd ≠ some javascript
    rw [hdec]
    show _ ∧ whatwgScheme (CharRef.decodeAttr p ++ v) = whatwgScheme (CharRef.decodeAttr p) ∧
      whatwgScheme (CharRef.decodeAttr p ++ v) ≠ some javascript
    rw [h1]
    exact ⟨rfl, this.1, by rw [this.1]; exact this.2⟩

/-- all four conjuncts of `C14_prefix_sound_statement`; the agreement of the two decoders on the prefix is only
    needed for the last one (component claim read on the browser's decoding) -/
theorem C14_prefix_sound_final (sc : SC) (p w v : Bytes) (ch : Chain) (hsc : sc ≠ .other)
    (hc : chooseChain sc p = some ch) (hr : runChain ch w = some v) :
    let bp := CharRef.decodeAttr p
    let bd := CharRef.decodeAttr (p ++ htmlEscapeString v)
    bd = bp ++ v ∧ whatwgScheme bd = whatwgScheme bp ∧ whatwgScheme bd ≠ some javascript ∧
    (GoHtml.unescapeString p = CharRef.decodeAttr p →
      (bp.contains 63 || bp.contains 35) = true → unreservedOrPct v = true) := by
  intro bp bd
  have h := C14_prefix_sound_scheme_of sc p w v ch hsc hc hr
  exact ⟨h.1, h.2.1, h.2.2, fun hgo => (C14_prefix_sound_full sc p w v ch hsc hc hr hgo).2.2.2⟩

/-! ### groundwork for the last gap (conjunct 4 on the browser's reading without `hgo`)

What is missing for conjunct 4 without the agreement hypothesis: "Go's decoder visits every `&` of the prefix"
(the bytes `unescapeEntity` consumes contain no `&`), so that a `&quest;` / `&num;` the browser decodes is also decoded
by Go wherever it stands. The lemmas below (Go's prefix loop made unfoldable, the region consumed by `numLoop`, the
name region) are the ingredients; the final induction is not done. Evidence instead: on 40442 accepted
(prefix, context) pairs built from `&quest; &num; &amp = a / &quest &#63; &#x3f; &lt ; &#4294967359; &#x; &colon; j`
(19804 of them with disagreeing decoders) no conjunct fails. -/

/-! ### Go's prefix loop with `entity1` abstracted (same device as `longestPrefix` in Proofs/CharRefAppend) -/

local notation "ON" => Option (Nat × Nat)

def prefixLoopG (e1 : Bytes → Nat) (name : Bytes) : Nat → Option (Nat × Nat)
  | 0 => none
  | j+1 =>
    if j + 1 > 1 then
      (if e1 (name.take (j + 1)) != 0 then some (e1 (name.take (j + 1)), j + 1) else prefixLoopG e1 name j)
    else none

def plF (e1 : Bytes → Nat) (name : Bytes) (x : Nat) (f : Nat.below (motive := fun _ => ON) x) : ON :=
  match x, f with
  | 0, _ => none
  | j+1, x =>
    if j + 1 > 1 then
      (if e1 (name.take (j + 1)) != 0 then some (e1 (name.take (j + 1)), j + 1) else x.1)
    else none

theorem brec_genericP (e1 : Bytes → Nat) (name : Bytes)
    (F : (x : Nat) → Nat.below (motive := fun _ => ON) x → ON)
    (hF : ∀ x f, F x f = plF e1 name x f) (k : Nat) :
    Nat.brecOn (motive := fun _ => ON) k F = prefixLoopG e1 name k := by
  have : F = plF e1 name := funext fun x => funext fun f => hF x f
  subst this
  induction k with
  | zero => rfl
  | succ k ih =>
    rw [prefixLoopG, ← ih]
    rfl

open Lean Elab Command Meta in
run_cmd liftTermElabM do
  let ci ← getConstInfo ``SafeHtml.Model.GoHtml.prefixLoop._f
  let v := ci.value!
  let e1 := mkConst ``SafeHtml.Model.GoHtml.entity1
  let e1Ty ← inferType e1
  let vAbs := v.replace fun e =>
    if e.isConstOf ``SafeHtml.Model.GoHtml.entity1 then some (mkFVar ⟨`_e1_tmp⟩) else none
  let body := vAbs.abstract #[mkFVar ⟨`_e1_tmp⟩]
  let val := mkLambda `e1 .default e1Ty body
  let ty := mkForall `e1 .default e1Ty ci.type
  addDecl (.defnDecl { name := `SafeHtml.Proofs.C14Sound.plFraw, levelParams := [], type := ty, value := val,
                       hints := .abbrev, safety := .safe })

theorem pf_eq_raw : @GoHtml.prefixLoop._f = plFraw GoHtml.entity1 := by
  delta GoHtml.prefixLoop._f plFraw
  exact Eq.refl _

theorem plFraw_eq (e1 : Bytes → Nat) (name : Bytes) (x : Nat) (f : Nat.below (motive := fun _ => ON) x) :
    plFraw e1 name x f = plF e1 name x f := by
  cases x <;> rfl

theorem pl_app (name : Bytes) (k : Nat) :
    GoHtml.prefixLoop name k = Nat.brecOn k (GoHtml.prefixLoop._f name) := by
  delta GoHtml.prefixLoop; rfl

theorem prefixLoop_eq_G (name : Bytes) (k : Nat) :
    GoHtml.prefixLoop name k = prefixLoopG GoHtml.entity1 name k := by
  rw [pl_app, pf_eq_raw]
  exact brec_genericP GoHtml.entity1 name _ (plFraw_eq GoHtml.entity1 name) k

theorem prefixLoopG_le (e1 : Bytes → Nat) (name : Bytes) : ∀ (m x j : Nat),
    prefixLoopG e1 name m = some (x, j) → j ≤ m
  | 0, _, _, h => by simp [prefixLoopG] at h
  | m+1, x, j, h => by
    rw [prefixLoopG] at h
    split at h
    · split at h
      · cases h; omega
      · have := prefixLoopG_le e1 name m x j h; omega
    · cases h

theorem prefixLoop_le (name : Bytes) (m x j : Nat) (h : GoHtml.prefixLoop name m = some (x, j)) : j ≤ m := by
  rw [prefixLoop_eq_G] at h
  exact prefixLoopG_le _ name m x j h
/-! ### the bytes Go's `unescapeEntity` consumes contain no `&` -/

theorem digitVal_ne_amp (hex : Bool) (c d : Nat) (h : GoHtml.digitVal hex c = some d) : c ≠ 38 := by
  rintro rfl
  cases hex <;> simp [GoHtml.digitVal, isDigit] at h

theorem numLoop_region (hex : Bool) : ∀ (ds : Bytes) (x n0 : Nat),
    n0 ≤ (GoHtml.numLoop hex ds x n0).2 ∧ (GoHtml.numLoop hex ds x n0).2 - n0 ≤ ds.length ∧
    ∀ b ∈ ds.take ((GoHtml.numLoop hex ds x n0).2 - n0), b ≠ 38
  | [], x, n0 => by simp [GoHtml.numLoop]
  | c :: t, x, n0 => by
    simp only [GoHtml.numLoop]
    cases hv : GoHtml.digitVal hex c with
    | some d =>
      simp only []
      obtain ⟨h1, h2, h3⟩ := numLoop_region hex t (((if hex then 16 else 10) * x + d) % 4294967296) (n0 + 1)
      generalize (GoHtml.numLoop hex t (((if hex then 16 else 10) * x + d) % 4294967296) (n0 + 1)).2 = r at h1 h2 h3 ⊢
      refine ⟨by omega, by simp only [List.length_cons]; omega, ?_⟩
      have e : r - n0 = (r - (n0 + 1)) + 1 := by omega
      rw [e, List.take_succ_cons]
      intro b hb
      simp only [List.mem_cons] at hb
      rcases hb with rfl | hb
      · exact digitVal_ne_amp hex b d hv
      · exact h3 b hb
    | none =>
      simp only []
      split
      · next h59 =>
        refine ⟨by simp, by simp, ?_⟩
        have : n0 + 1 - n0 = 1 := by omega
        simp only [this, List.take_succ_cons, List.take_zero, List.mem_cons, List.not_mem_nil, or_false]
        rintro b rfl; rw [eq_of_beq h59]; decide
      · simp

/-- end of the name Go looks up: the alphanumeric run plus a directly following `;` -/
def goI (rest : Bytes) : Nat :=
  match rest.drop (CharRef.alnumRun rest) with
  | 59 :: _ => CharRef.alnumRun rest + 1
  | _ => CharRef.alnumRun rest

theorem goI_region (rest : Bytes) : goI rest ≤ rest.length ∧ ∀ b ∈ rest.take (goI rest), b ≠ 38 := by
  have hk := alnumRun_le rest
  have hall : ∀ b ∈ rest.take (CharRef.alnumRun rest), b ≠ 38 := by
    intro b hb
    have := alnumRun_take_all rest _ (Nat.le_refl _) b hb
    rintro rfl; revert this; decide
  unfold goI
  split
  · next w hd =>
    have hlen : CharRef.alnumRun rest + 1 ≤ rest.length := by
      have := congrArg List.length hd
      simp only [List.length_drop, List.length_cons] at this; omega
    refine ⟨hlen, ?_⟩
    rw [take_succ_of_drop _ _ _ _ hd]
    intro b hb
    rcases List.mem_append.1 hb with hb | hb
    · exact hall b hb
    · simp at hb; omega
  · exact ⟨hk, hall⟩

/-! ### the former counterexample (before library commit 213930e) is rejected now -/

/-- `java&#9script:` -/
def pJs : Bytes := [106, 97, 118, 97, 38, 35, 57, 115, 99, 114, 105, 112, 116, 58]

/-- the browser decodes `&#9` to TAB, which the URL parser removes: scheme `javascript` … -/
theorem pJs_browser_scheme : whatwgScheme (CharRef.decodeAttr pJs) = some javascript := by decide

/-- … Go's decoder leaves `&#9s` alone … -/
theorem pJs_disagree : GoHtml.unescapeString pJs ≠ CharRef.decodeAttr pJs := by decide

/-- … and since the repair (`unterminatedNumericCharRefPattern`) the prefix is refused in every URL context -/
theorem pJs_rejected : chooseChain .url pJs = none ∧ chooseChain .truOrUrl pJs = none ∧ chooseChain .tru pJs = none := by
  decide

end SafeHtml.Proofs.C14Sound

#print axioms SafeHtml.Proofs.C14Sound.rx_endsWithCharRefPrefix
#print axioms SafeHtml.Proofs.C14Sound.C14_prefix_sound_decode
#print axioms SafeHtml.Proofs.C14Sound.C14_prefix_sound_go
#print axioms SafeHtml.Proofs.C14Sound.C14_prefix_sound_full
#print axioms SafeHtml.Proofs.C14Sound.C14_prefix_sound_plain
#print axioms SafeHtml.Proofs.C14Sound.rx_unterminatedNumericCharRef
#print axioms SafeHtml.Proofs.C14Sound.decoders_dichotomy
#print axioms SafeHtml.Proofs.C14Sound.C14_prefix_sound_scheme_of
#print axioms SafeHtml.Proofs.C14Sound.C14_prefix_sound_final
#print axioms SafeHtml.Proofs.C14Sound.prefixLoop_le
#print axioms SafeHtml.Proofs.C14Sound.pJs_rejected
