/-
The WHATWG character-reference decoder (`Spec.CharRef.decodeAttr` / `decodeText`) distributes over `++` at a
position where no character reference is open: if `p` does not end with a character-reference prefix
(`Spec.CharRef.endsWithCharRefPrefix p = false`) then for EVERY `t`
`decodeAttr (p ++ t) = decodeAttr p ++ decodeAttr t`.
No side condition on `t` is needed: every `&` of `p` is followed inside `p` by a byte that already settles how the
reference is read (a non-digit after `&#…`, a non-alphanumeric after `&name`), or by a digit (no name of the entity
table starts with a digit — a table fact checked by the kernel below).
Core Lean only.
-/
import Lean.Elab.Command
import SafeHtml.Spec.Esc
import SafeHtml.Spec.CharRef
import SafeHtml.Proofs.CharRefEsc
import SafeHtml.Proofs.Html
import SafeHtml.Props.C14
namespace SafeHtml.Proofs.CharRefAppend
open SafeHtml SafeHtml.Spec SafeHtml.Spec.CharRef SafeHtml.Proofs.CharRefEsc

/-! ### fuel of `decodeAux` -/

theorem decodeAux_amp (attr : Bool) (f : Nat) (t : Bytes) :
    decodeAux attr (f + 1) (38 :: t) = (consume attr t).1 ++ decodeAux attr f (t.drop (consume attr t).2) := by
  simp [decodeAux]

theorem decodeAux_other (attr : Bool) (f : Nat) (c : Nat) (t : Bytes) (h : c ≠ 38) :
    decodeAux attr (f + 1) (c :: t) = c :: decodeAux attr f t := by
  simp [decodeAux, h]

theorem decodeAux_nil (attr : Bool) (f : Nat) : decodeAux attr f [] = [] := by
  cases f <;> simp [decodeAux]

/-- any fuel ≥ the length gives the same result -/
theorem decodeAux_fuel (attr : Bool) : ∀ (f g : Nat) (s : Bytes), s.length ≤ f → s.length ≤ g →
    decodeAux attr f s = decodeAux attr g s
  | _, _, [], _, _ => by rw [decodeAux_nil, decodeAux_nil]
  | 0, _, _ :: _, hf, _ => by simp at hf
  | _+1, 0, _ :: _, _, hg => by simp at hg
  | f+1, g+1, c :: t, hf, hg => by
    simp only [List.length_cons] at hf hg
    by_cases hc : c = 38
    · subst hc
      rw [decodeAux_amp, decodeAux_amp]
      rw [decodeAux_fuel attr f g (t.drop (consume attr t).2) (by rw [List.length_drop]; omega)
        (by rw [List.length_drop]; omega)]
    · rw [decodeAux_other _ _ _ _ hc, decodeAux_other _ _ _ _ hc, decodeAux_fuel attr f g t (by omega) (by omega)]

/-! ### `digits` -/

theorem digits_append (val : Nat → Option Nat) (base : Nat) (t : Bytes) : ∀ (ds : Bytes) (x n : Nat),
    (ds.all fun c => (val c).isSome) = false → digits val base (ds ++ t) x n = digits val base ds x n
  | [], _, _, h => by simp at h
  | c :: ds, x, n, h => by
    simp only [List.cons_append, digits]
    cases hv : val c with
    | none => rfl
    | some d =>
      simp only []
      apply digits_append
      simpa [hv] using h

theorem digits_ge (val : Nat → Option Nat) (base : Nat) : ∀ (ds : Bytes) (x n : Nat),
    n ≤ (digits val base ds x n).2
  | [], _, _ => by simp [digits]
  | c :: ds, x, n => by
    simp only [digits]
    cases hv : val c with
    | none => simp
    | some d =>
      simp only []
      have := digits_ge val base ds (base * x + d) (n + 1)
      omega

theorem digits_le (val : Nat → Option Nat) (base : Nat) : ∀ (ds : Bytes) (x n : Nat),
    (digits val base ds x n).2 ≤ n + ds.length
  | [], _, _ => by simp [digits]
  | c :: ds, x, n => by
    simp only [digits, List.length_cons]
    cases hv : val c with
    | none => simp
    | some d =>
      simp only []
      have := digits_le val base ds (base * x + d) (n + 1)
      omega

theorem digits_lt (val : Nat → Option Nat) (base : Nat) : ∀ (ds : Bytes) (x n : Nat),
    (ds.all fun c => (val c).isSome) = false → (digits val base ds x n).2 < n + ds.length
  | [], _, _, h => by simp at h
  | c :: ds, x, n, h => by
    simp only [digits, List.length_cons]
    cases hv : val c with
    | none => simp only []; omega
    | some d =>
      simp only []
      have := digits_lt val base ds (base * x + d) (n + 1) (by simpa [hv] using h)
      omega

/-! ### the numeric branch of `consume` -/

def semiOf (d : Bytes) : Nat :=
  match d with
  | 59 :: _ => 1
  | _ => 0

theorem semiOf_append (d t : Bytes) (h : d ≠ []) : semiOf (d ++ t) = semiOf d := by
  cases d with
  | nil => exact absurd rfl h
  | cons c r =>
    by_cases hc : c = 59
    · subst hc; rfl
    · simp [semiOf, hc]

theorem semiOf_le (d : Bytes) : semiOf d ≤ d.length := by
  unfold semiOf
  split <;> simp

def numBody (isHex : Bool) (ds : Bytes) : Bytes × Nat :=
  let xn := if isHex then digits Spec.CharRef.hexVal 16 ds 0 0 else digits decVal 10 ds 0 0
  if xn.2 == 0 then ([38], 0)
  else (Utf8.encodeRune (numericCodePoint xn.1), 1 + (if isHex then 1 else 0) + xn.2 + semiOf (ds.drop xn.2))

theorem consume_hex_x (attr : Bool) (u : Bytes) : consume attr (35 :: 120 :: u) = numBody true u := by
  unfold consume
  simp only [numBody, semiOf, if_true]
  rfl
theorem consume_hex_X (attr : Bool) (u : Bytes) : consume attr (35 :: 88 :: u) = numBody true u := by
  unfold consume
  simp only [numBody, semiOf, if_true]
  rfl
theorem consume_dec_nil (attr : Bool) : consume attr [35] = numBody false [] := by
  unfold consume
  simp only [numBody, semiOf]
  rfl
theorem consume_dec (attr : Bool) (c : Nat) (u : Bytes) (h1 : c ≠ 120) (h2 : c ≠ 88) :
    consume attr (35 :: c :: u) = numBody false (c :: u) := by
  unfold consume
  simp only [numBody, semiOf]
  split
  · next heq => cases heq; exact absurd rfl h1
  · next heq => cases heq; exact absurd rfl h2
  · rfl

/-- digits of the chosen base -/
def digitsOf (isHex : Bool) (ds : Bytes) : Nat × Nat :=
  if isHex then digits Spec.CharRef.hexVal 16 ds 0 0 else digits decVal 10 ds 0 0

def validOf (isHex : Bool) (c : Nat) : Bool :=
  if isHex then (Spec.CharRef.hexVal c).isSome else (decVal c).isSome

theorem digitsOf_append (isHex : Bool) (ds t : Bytes) (h : ds.all (validOf isHex) = false) :
    digitsOf isHex (ds ++ t) = digitsOf isHex ds := by
  cases isHex
  · exact digits_append decVal 10 t ds 0 0 h
  · exact digits_append Spec.CharRef.hexVal 16 t ds 0 0 h

theorem digitsOf_le (isHex : Bool) (ds : Bytes) : (digitsOf isHex ds).2 ≤ ds.length := by
  cases isHex
  · have := digits_le decVal 10 ds 0 0; simpa [digitsOf] using this
  · have := digits_le Spec.CharRef.hexVal 16 ds 0 0; simpa [digitsOf] using this

theorem digitsOf_lt (isHex : Bool) (ds : Bytes) (h : ds.all (validOf isHex) = false) :
    (digitsOf isHex ds).2 < ds.length := by
  cases isHex
  · have := digits_lt decVal 10 ds 0 0 h; simpa [digitsOf] using this
  · have := digits_lt Spec.CharRef.hexVal 16 ds 0 0 h; simpa [digitsOf] using this

theorem numBody_eq (isHex : Bool) (ds : Bytes) :
    numBody isHex ds =
      if (digitsOf isHex ds).2 == 0 then ([38], 0)
      else (Utf8.encodeRune (numericCodePoint (digitsOf isHex ds).1),
        1 + (if isHex then 1 else 0) + (digitsOf isHex ds).2 + semiOf (ds.drop (digitsOf isHex ds).2)) := rfl

theorem numBody_append (isHex : Bool) (ds t : Bytes) (h : ds.all (validOf isHex) = false) :
    numBody isHex (ds ++ t) = numBody isHex ds := by
  rw [numBody_eq, numBody_eq, digitsOf_append isHex ds t h]
  have hlt := digitsOf_lt isHex ds h
  rw [List.drop_append_of_le_length (Nat.le_of_lt hlt), semiOf_append]
  intro h0
  have := congrArg List.length h0
  simp only [List.length_drop, List.length_nil] at this
  omega

theorem numBody_le (isHex : Bool) (ds : Bytes) :
    (numBody isHex ds).2 ≤ 1 + (if isHex then 1 else 0) + ds.length := by
  rw [numBody_eq]
  split
  · simp
  · have h1 := digitsOf_le isHex ds
    have h2 := semiOf_le (ds.drop (digitsOf isHex ds).2)
    simp only [List.length_drop] at h2
    simp only []
    omega

/-! ### `longestPrefix` with the table lookup abstracted

`longestPrefix` is defined by structural recursion with `EntityTable.lookup` inside a `match`; whenever the kernel
unfolds one step of it on `k+1` it tries to evaluate `lookup …` (a binary search over the 2231-row table, which
overflows its stack). So the definition body is abstracted over the constant `EntityTable.lookup` (metaprogram
below: no axiom, an ordinary definition `lpFraw` checked by the kernel), all unfolding is done for a VARIABLE lookup
function, and the result is instantiated. -/

local notation "OT" => Option ((Nat × Nat) × Nat)

def longestPrefixG (lk : Bytes → Option (Nat × Nat)) (run : Bytes) : Nat → Option ((Nat × Nat) × Nat)
  | 0 => none
  | j+1 =>
    match lk (run.take (j + 1)) with
    | some e => some (e, j + 1)
    | none => longestPrefixG lk run j

def lpF (lk : Bytes → Option (Nat × Nat)) (run : Bytes) (x : Nat) (f : Nat.below (motive := fun _ => OT) x) : OT :=
  match x, f with
  | 0, _ => none
  | j+1, x =>
    match lk (List.take (j + 1) run) with
    | some e => some (e, j + 1)
    | none => x.1

theorem brec_generic (lk : Bytes → Option (Nat × Nat)) (run : Bytes)
    (F : (x : Nat) → Nat.below (motive := fun _ => OT) x → OT)
    (hF : ∀ x f, F x f = lpF lk run x f) (k : Nat) :
    Nat.brecOn (motive := fun _ => OT) k F = longestPrefixG lk run k := by
  have : F = lpF lk run := funext fun x => funext fun f => hF x f
  subst this
  induction k with
  | zero => rfl
  | succ k ih =>
    rw [longestPrefixG, ← ih]
    rfl

/- `lpFraw` := the definition body of `longestPrefix._f` with the constant `EntityTable.lookup` abstracted -/
open Lean Elab Command Meta in
run_cmd liftTermElabM do
  let ci ← getConstInfo ``SafeHtml.Spec.CharRef.longestPrefix._f
  let v := ci.value!
  let lk := mkConst ``SafeHtml.EntityTable.lookup
  let lkTy ← inferType lk
  let vAbs := v.replace fun e =>
    if e.isConstOf ``SafeHtml.EntityTable.lookup then some (mkFVar ⟨`_lk_tmp⟩) else none
  let body := vAbs.abstract #[mkFVar ⟨`_lk_tmp⟩]
  let val := mkLambda `lk .default lkTy body
  let ty := mkForall `lk .default lkTy ci.type
  addDecl (.defnDecl { name := `SafeHtml.Proofs.CharRefAppend.lpFraw, levelParams := [], type := ty, value := val,
                       hints := .abbrev, safety := .safe })

theorem f_eq_raw : @longestPrefix._f = lpFraw EntityTable.lookup := by
  delta longestPrefix._f lpFraw
  exact Eq.refl _

theorem lpFraw_eq (lk : Bytes → Option (Nat × Nat)) (run : Bytes) (x : Nat)
    (f : Nat.below (motive := fun _ => OT) x) : lpFraw lk run x f = lpF lk run x f := by
  cases x <;> rfl

theorem lp_app (run : Bytes) (k : Nat) : longestPrefix run k = Nat.brecOn k (longestPrefix._f run) := by
  delta longestPrefix; rfl

theorem longestPrefix_eq_G (run : Bytes) (k : Nat) :
    longestPrefix run k = longestPrefixG EntityTable.lookup run k := by
  rw [lp_app, f_eq_raw]
  exact brec_generic EntityTable.lookup run _ (lpFraw_eq EntityTable.lookup run) k

theorem longestPrefixG_le (lk : Bytes → Option (Nat × Nat)) (run : Bytes) : ∀ (k : Nat) (e : Nat × Nat) (j : Nat),
    longestPrefixG lk run k = some (e, j) → j ≤ k
  | 0, _, _, h => by simp [longestPrefixG] at h
  | k+1, e, j, h => by
    rw [longestPrefixG] at h
    split at h
    · cases h; omega
    · have := longestPrefixG_le lk run k e j h; omega

theorem longestPrefixG_none (lk : Bytes → Option (Nat × Nat)) (run : Bytes) : ∀ (k : Nat),
    (∀ j, j < k → lk (run.take (j + 1)) = none) → longestPrefixG lk run k = none
  | 0, _ => rfl
  | k+1, h => by
    rw [longestPrefixG, h k (by omega)]
    exact longestPrefixG_none lk run k (fun j hj => h j (by omega))

theorem longestPrefix_le (run : Bytes) (k : Nat) (e : Nat × Nat) (j : Nat)
    (h : longestPrefix run k = some (e, j)) : j ≤ k := by
  rw [longestPrefix_eq_G] at h
  exact longestPrefixG_le _ run k e j h

theorem longestPrefix_none (run : Bytes) (k : Nat)
    (h : ∀ j, j < k → EntityTable.lookup (run.take (j + 1)) = none) : longestPrefix run k = none := by
  rw [longestPrefix_eq_G]
  exact longestPrefixG_none _ run k h

/-! ### the named branch of `consume` -/

def semiLookup (run d : Bytes) : Option (Nat × Nat) :=
  match d with
  | 59 :: _ => EntityTable.lookup (run ++ [59])
  | _ => none

def blockedBy (attr : Bool) (next : Bytes) : Bool :=
  attr && (match next with
    | c :: _ => c == 61 || isAlnum c
    | [] => false)

def namedBody (attr : Bool) (rest : Bytes) : Bytes × Nat :=
  if alnumRun rest == 0 then ([38], 0) else
  match semiLookup (rest.take (alnumRun rest)) (rest.drop (alnumRun rest)) with
  | some e => (encodeEntity e, alnumRun rest + 1)
  | none =>
    match longestPrefix (rest.take (alnumRun rest)) (alnumRun rest) with
    | none => ([38], 0)
    | some (e, j) => if blockedBy attr (rest.drop j) then ([38], 0) else (encodeEntity e, j)

theorem consume_named_eq (attr : Bool) (c : Nat) (u : Bytes) (hc : c ≠ 35) :
    consume attr (c :: u) = namedBody attr (c :: u) := by
  unfold consume
  split
  · next heq => cases heq
  · next heq => cases heq; exact absurd rfl hc
  · rfl

theorem semiLookup_ne (run : Bytes) (c : Nat) (r : Bytes) (hc : c ≠ 59) : semiLookup run (c :: r) = none := by
  unfold semiLookup
  split
  · next heq => cases heq; exact absurd rfl hc
  · rfl

theorem semiLookup_append (run d t : Bytes) (h : d ≠ []) : semiLookup run (d ++ t) = semiLookup run d := by
  cases d with
  | nil => exact absurd rfl h
  | cons c r =>
    by_cases hc : c = 59
    · subst hc; rfl
    · rw [List.cons_append, semiLookup_ne run c _ hc, semiLookup_ne run c _ hc]

theorem semiLookup_nil (run : Bytes) : semiLookup run [] = none := rfl

theorem blockedBy_append (attr : Bool) (d t : Bytes) (h : d ≠ []) : blockedBy attr (d ++ t) = blockedBy attr d := by
  cases d with
  | nil => exact absurd rfl h
  | cons c r => rfl

theorem alnumRun_le : ∀ (r : Bytes), alnumRun r ≤ r.length
  | [] => by simp [alnumRun]
  | c :: r => by
    simp only [alnumRun, List.length_cons]
    split
    · have := alnumRun_le r; omega
    · omega

theorem alnumRun_lt : ∀ (r : Bytes), r.all isAlnum = false → alnumRun r < r.length
  | [], h => by simp at h
  | c :: r, h => by
    simp only [alnumRun, List.length_cons]
    split
    · next hc =>
      have := alnumRun_lt r (by simpa [hc] using h); omega
    · omega

theorem alnumRun_append (t : Bytes) : ∀ (r : Bytes), r.all isAlnum = false → alnumRun (r ++ t) = alnumRun r
  | [], h => by simp at h
  | c :: r, h => by
    simp only [List.cons_append, alnumRun]
    split
    · next hc => rw [alnumRun_append t r (by simpa [hc] using h)]
    · rfl

theorem ne_nil_of_length_pos {α} (l : List α) (h : 0 < l.length) : l ≠ [] := by
  intro h0; subst h0; simp at h

theorem namedBody_append (attr : Bool) (r t : Bytes) (h : r.all isAlnum = false) :
    namedBody attr (r ++ t) = namedBody attr r := by
  have hk := alnumRun_lt r h
  unfold namedBody
  rw [alnumRun_append t r h]
  rw [List.take_append_of_le_length (Nat.le_of_lt hk), List.drop_append_of_le_length (Nat.le_of_lt hk)]
  rw [semiLookup_append _ _ _ (ne_nil_of_length_pos _ (by rw [List.length_drop]; omega))]
  split
  · rfl
  · split
    · rfl
    · split
      · rfl
      · next e j hj =>
        have hjk := longestPrefix_le _ _ _ _ hj
        rw [List.drop_append_of_le_length (by omega)]
        rw [blockedBy_append _ _ _ (ne_nil_of_length_pos _ (by rw [List.length_drop]; omega))]

theorem namedBody_le (attr : Bool) (r : Bytes) : (namedBody attr r).2 ≤ r.length := by
  unfold namedBody
  split
  · simp
  · split
    · next e he =>
      -- a `;` was seen after the run
      simp only []
      have : r.drop (alnumRun r) ≠ [] := by
        intro h0; rw [h0, semiLookup_nil] at he; cases he
      have h1 : 0 < (r.drop (alnumRun r)).length := by
        cases hd : r.drop (alnumRun r) with
        | nil => exact absurd hd this
        | cons => simp
      rw [List.length_drop] at h1
      omega
    · split
      · simp
      · next e j hj =>
        have hjk := longestPrefix_le _ _ _ _ hj
        have := alnumRun_le r
        split
        · simp
        · simp only []; omega

/-! ### no name of the entity table starts with a digit -/

theorem bsearchL_some (l : List (Nat × Nat × Nat)) (k : Nat) : ∀ (f lo hi : Nat) (v : Nat × Nat),
    bsearchL l k f lo hi = some v → k = 0 ∨ ∃ e ∈ l, e.1 = k
  | 0, _, _, _, h => by simp [bsearchL] at h
  | f+1, lo, hi, v, h => by
    unfold bsearchL at h
    split at h
    · simp only [] at h
      split at h
      · next heq =>
        have heq' := eq_of_beq heq
        cases hm : l[(lo + hi) / 2]? with
        | none =>
          rw [hm] at heq'
          left; rw [← heq']; rfl
        | some e =>
          rw [hm] at heq'
          right
          exact ⟨e, List.mem_of_getElem? hm, heq'⟩
      · split at h
        · exact bsearchL_some l k f _ _ v h
        · exact bsearchL_some l k f _ _ v h
    · cases h

/-- `k` is the key of a name whose first byte is a digit and which has `n` more bytes (< 256) -/
def digitLedAt (k n : Nat) : Bool := 304 * 256 ^ n ≤ k && k < 314 * 256 ^ n

def noDigitLead (k : Nat) : Bool := k < 304 * 256 ^ 41 && (List.range 41).all fun n => !digitLedAt k n

theorem table_noDigitLead : (tableList.all fun e => noDigitLead e.1) = true := by decide +kernel

theorem foldl_bounds : ∀ (l : Bytes) (a : Nat), (∀ b ∈ l, b < 256) →
    a * 256 ^ l.length ≤ l.foldl (fun a b => a * 256 + b) a ∧
    l.foldl (fun a b => a * 256 + b) a < (a + 1) * 256 ^ l.length
  | [], a, _ => by simp
  | b :: l, a, h => by
    have hb : b < 256 := h b (by simp)
    have ih := foldl_bounds l (a * 256 + b) (fun x hx => h x (by simp [hx]))
    simp only [List.foldl_cons, List.length_cons, Nat.pow_succ]
    generalize 256 ^ l.length = P at ih ⊢
    have h1 : a * 256 * P ≤ (a * 256 + b) * P := Nat.mul_le_mul_right P (by omega)
    have h2 : (a * 256 + b + 1) * P ≤ ((a + 1) * 256) * P := Nat.mul_le_mul_right P (by omega)
    have e1 : a * (P * 256) = a * 256 * P := by rw [Nat.mul_comm P 256, Nat.mul_assoc]
    have e2 : (a + 1) * (P * 256) = (a + 1) * 256 * P := by rw [Nat.mul_comm P 256, Nat.mul_assoc]
    rw [e1, e2]
    exact ⟨Nat.le_trans h1 ih.1, Nat.lt_of_lt_of_le ih.2 h2⟩

theorem lookup_digit_none (c : Nat) (l : Bytes) (hc : isDigit c = true) (hl : ∀ b ∈ l, b < 256) :
    EntityTable.lookup (c :: l) = none := by
  cases hlk : EntityTable.lookup (c :: l) with
  | none => rfl
  | some v =>
    exfalso
    rw [lookup_eq] at hlk
    have hb := foldl_bounds l (1 * 256 + c) hl
    have hkey : nameKey (c :: l) = l.foldl (fun a b => a * 256 + b) (1 * 256 + c) := rfl
    rw [← hkey] at hb
    simp only [isDigit, Bool.and_eq_true, decide_eq_true_eq] at hc
    have hpos : 0 < 256 ^ l.length := Nat.pow_pos (by omega)
    have hlo : 304 * 256 ^ l.length ≤ nameKey (c :: l) :=
      Nat.le_trans (Nat.mul_le_mul_right _ (by omega)) hb.1
    have hhi : nameKey (c :: l) < 314 * 256 ^ l.length :=
      Nat.lt_of_lt_of_le hb.2 (Nat.mul_le_mul_right _ (by omega))
    rcases bsearchL_some _ _ _ _ _ _ hlk with h0 | ⟨e, he, hek⟩
    · have : 0 < 304 * 256 ^ l.length := Nat.mul_pos (by omega) hpos
      omega
    · have ht := List.all_eq_true.1 table_noDigitLead e he
      rw [hek] at ht
      simp only [noDigitLead, Bool.and_eq_true, decide_eq_true_eq, List.all_eq_true, List.mem_range] at ht
      by_cases hn : l.length < 41
      · have := ht.2 l.length hn
        simp [digitLedAt, hlo, hhi] at this
      · have : 256 ^ 41 ≤ 256 ^ l.length := Nat.pow_le_pow_right (by omega) (by omega)
        have : 304 * 256 ^ 41 ≤ 304 * 256 ^ l.length := Nat.mul_le_mul_left _ this
        omega

/-! ### a run starting with a digit is never a reference -/

theorem alnum_lt (c : Nat) (h : isAlnum c = true) : c < 256 := by
  simp only [isAlnum, isAlpha, isLowerAlpha, isUpperAlpha, isDigit, Bool.or_eq_true, Bool.and_eq_true,
    decide_eq_true_eq] at h
  omega

theorem alnumRun_take_all : ∀ (r : Bytes) (j : Nat), j ≤ alnumRun r → ∀ b ∈ r.take j, isAlnum b = true
  | _, 0, _, b, hb => by simp at hb
  | [], j+1, _, b, hb => by simp at hb
  | c :: r, j+1, h, b, hb => by
    simp only [alnumRun] at h
    split at h
    · next hc =>
      simp only [List.take_succ_cons, List.mem_cons] at hb
      rcases hb with rfl | hb
      · exact hc
      · exact alnumRun_take_all r j (by omega) b hb
    · omega

theorem semiLookup_digit (c : Nat) (w d : Bytes) (hc : isDigit c = true) (hw : ∀ b ∈ w, b < 256) :
    semiLookup (c :: w) d = none := by
  unfold semiLookup
  split
  · rw [List.cons_append]
    refine lookup_digit_none c (w ++ [59]) hc ?_
    intro b hb
    rcases List.mem_append.1 hb with hb | hb
    · exact hw b hb
    · simp at hb; omega
  · rfl

theorem namedBody_digit (attr : Bool) (c : Nat) (u : Bytes) (hc : isDigit c = true) :
    namedBody attr (c :: u) = ([38], 0) := by
  by_cases hk0 : alnumRun (c :: u) = 0
  · unfold namedBody
    rw [hk0]
    rfl
  · obtain ⟨k, hk⟩ : ∃ k, alnumRun (c :: u) = k + 1 := ⟨alnumRun (c :: u) - 1, by omega⟩
    have hall : ∀ b ∈ u.take k, b < 256 := fun b hb =>
      alnum_lt b (alnumRun_take_all (c :: u) (k + 1) (by omega) b (by simp [hb]))
    have hsl : semiLookup ((c :: u).take (alnumRun (c :: u))) ((c :: u).drop (alnumRun (c :: u))) = none := by
      rw [hk, List.take_succ_cons]
      exact semiLookup_digit c _ _ hc hall
    have hlp : longestPrefix ((c :: u).take (alnumRun (c :: u))) (alnumRun (c :: u)) = none := by
      apply longestPrefix_none
      intro j _
      rw [hk, List.take_succ_cons, List.take_succ_cons]
      exact lookup_digit_none c _ hc (fun b hb => hall b (List.mem_of_mem_take hb))
    unfold namedBody
    rw [hsl, hlp]
    split <;> rfl

/-! ### `consume` does not look beyond a closed reference -/

theorem consume_nil (attr : Bool) : consume attr [] = ([38], 0) := by
  unfold consume; rfl

theorem consume_le (attr : Bool) (r : Bytes) : (consume attr r).2 ≤ r.length := by
  cases r with
  | nil => rw [consume_nil]; simp
  | cons c u =>
    by_cases hc : c = 35
    · subst hc
      cases u with
      | nil => rw [consume_dec_nil]; exact numBody_le false []
      | cons d w =>
        by_cases h1 : d = 120
        · subst h1; rw [consume_hex_x]; have := numBody_le true w; simp only [List.length_cons]; simp at this; omega
        · by_cases h2 : d = 88
          · subst h2; rw [consume_hex_X]; have := numBody_le true w; simp only [List.length_cons]; simp at this; omega
          · rw [consume_dec attr d w h1 h2]; have := numBody_le false (d :: w)
            simp only [List.length_cons] at this ⊢; simp at this; omega
    · rw [consume_named_eq attr c u hc]; exact namedBody_le attr (c :: u)

theorem decVal_isSome (c : Nat) : (decVal c).isSome = isDigit c := by
  unfold decVal; split <;> simp [*]

theorem validOf_true : validOf true = fun c => (Spec.CharRef.hexVal c).isSome := rfl
theorem validOf_false : validOf false = isDigit := by
  funext c; simp [validOf, decVal_isSome]

theorem refPrefixTail_other (c : Nat) (u : Bytes) (hc : c ≠ 35) :
    refPrefixTail (c :: u) = (isAlpha c && u.all isAlnum) := by
  unfold refPrefixTail
  split
  · next heq => cases heq
  · next heq => cases heq; exact absurd rfl hc
  · next heq => cases heq; rfl

theorem refPrefixTail_hash (t : Bytes) :
    refPrefixTail (35 :: t) =
      ((match t with
        | 120 :: u => u.all fun c => (Spec.CharRef.hexVal c).isSome
        | 88 :: u => u.all fun c => (Spec.CharRef.hexVal c).isSome
        | _ => false) || t.all isDigit) := by
  unfold refPrefixTail; rfl

theorem consume_append (attr : Bool) (r t : Bytes) (h : refPrefixTail r = false) :
    consume attr (r ++ t) = consume attr r := by
  cases r with
  | nil => simp [refPrefixTail] at h
  | cons c u =>
    by_cases hc : c = 35
    · subst hc
      rw [refPrefixTail_hash] at h
      cases u with
      | nil => simp at h
      | cons d w =>
        simp only [List.cons_append]
        by_cases h1 : d = 120
        · subst h1
          simp only [Bool.or_eq_false_iff] at h
          rw [consume_hex_x, consume_hex_x, numBody_append true w t (by rw [validOf_true]; exact h.1)]
        · by_cases h2 : d = 88
          · subst h2
            simp only [Bool.or_eq_false_iff] at h
            rw [consume_hex_X, consume_hex_X, numBody_append true w t (by rw [validOf_true]; exact h.1)]
          · simp only [Bool.or_eq_false_iff] at h
            rw [consume_dec attr d _ h1 h2, consume_dec attr d _ h1 h2]
            exact numBody_append false (d :: w) t (by rw [validOf_false]; exact h.2)
    · rw [refPrefixTail_other c u hc] at h
      simp only [List.cons_append]
      rw [consume_named_eq attr c _ hc, consume_named_eq attr c _ hc]
      by_cases hall : (c :: u).all isAlnum = false
      · exact namedBody_append attr (c :: u) t hall
      · have hall' : (c :: u).all isAlnum = true := by simpa using hall
        simp only [List.all_cons, Bool.and_eq_true] at hall'
        have ha : isAlpha c = false := by
          cases hx : isAlpha c
          · rfl
          · rw [hx, hall'.2] at h; simp at h
        have hd : isDigit c = true := by
          have := hall'.1; simp only [isAlnum, ha, Bool.false_or] at this; exact this
        rw [namedBody_digit attr c _ hd, namedBody_digit attr c _ hd]

/-! ### `endsWithCharRefPrefix` -/

theorem ewcrp_cons (c : Nat) (t : Bytes) :
    endsWithCharRefPrefix (c :: t) = ((c == 38 && refPrefixTail t) || endsWithCharRefPrefix t) := rfl

theorem ewcrp_drop : ∀ (n : Nat) (p : Bytes), endsWithCharRefPrefix p = false →
    endsWithCharRefPrefix (p.drop n) = false
  | 0, p, h => by simpa using h
  | _+1, [], h => by simpa using h
  | n+1, c :: p, h => by
    rw [ewcrp_cons, Bool.or_eq_false_iff] at h
    simp only [List.drop_succ_cons]
    exact ewcrp_drop n p h.2

/-! ### the decoder distributes over `++` where no reference is open -/

theorem decodeAux_append (attr : Bool) (t : Bytes) : ∀ (f : Nat) (p : Bytes) (F : Nat),
    p.length ≤ f → (p ++ t).length ≤ F → endsWithCharRefPrefix p = false →
    decodeAux attr F (p ++ t) = decodeAux attr f p ++ decodeAux attr t.length t
  | f, [], F, _, hF, _ => by
    rw [decodeAux_nil]
    simp only [List.nil_append] at hF ⊢
    exact decodeAux_fuel attr F t.length t hF (Nat.le_refl _)
  | 0, _ :: _, _, hf, _, _ => by simp at hf
  | _+1, _ :: _, 0, _, hF, _ => by simp at hF
  | f+1, c :: r, F+1, hf, hF, hp => by
    rw [ewcrp_cons, Bool.or_eq_false_iff] at hp
    simp only [List.length_cons, List.cons_append, List.length_append] at hf hF
    by_cases hc : c = 38
    · subst hc
      have hrt : refPrefixTail r = false := by simpa using hp.1
      have hle := consume_le attr r
      rw [List.cons_append, decodeAux_amp, decodeAux_amp, consume_append attr r t hrt,
        List.drop_append_of_le_length hle, List.append_assoc]
      congr 1
      exact decodeAux_append attr t f (r.drop (consume attr r).2) F
        (by rw [List.length_drop]; omega) (by rw [List.length_append, List.length_drop]; omega)
        (ewcrp_drop _ _ hp.2)
    · rw [List.cons_append, decodeAux_other _ _ _ _ hc, decodeAux_other _ _ _ _ hc, List.cons_append]
      congr 1
      exact decodeAux_append attr t f r F (by omega) (by rw [List.length_append]; omega) hp.2

/-- **Append.** If `p` does not end with a character-reference prefix, the browser reads `p ++ t` (attribute value)
    as what it reads for `p` followed by what it reads for `t` — for EVERY `t`, no side condition. -/
theorem decodeAttr_append (p t : Bytes) (hp : endsWithCharRefPrefix p = false) :
    decodeAttr (p ++ t) = decodeAttr p ++ decodeAttr t :=
  decodeAux_append true t p.length p (p ++ t).length (Nat.le_refl _) (Nat.le_refl _) hp

/-- the same in the data state -/
theorem decodeText_append (p t : Bytes) (hp : endsWithCharRefPrefix p = false) :
    decodeText (p ++ t) = decodeText p ++ decodeText t :=
  decodeAux_append false t p.length p (p ++ t).length (Nat.le_refl _) (Nat.le_refl _) hp

/-- the case needed by C14: escaper output after a closed prefix -/
theorem decodeAttr_append_esc (p v : Bytes) (hp : endsWithCharRefPrefix p = false) (hv : Spec.Esc v = true) :
    decodeAttr (p ++ v) = decodeAttr p ++ unescape5 v := by
  rw [decodeAttr_append p v hp, decodeAttr_eq_unescape5 v hv]


/-! ### C14: the browser sees the decoded prefix followed by exactly the chain output -/

section C14
open SafeHtml.Model SafeHtml.Model.TmplUrl SafeHtml.Generated.Regexes SafeHtml.Props.C14 SafeHtml.Spec.UrlComp

theorem decodeURLPrefix_some_no_charref (p d : Bytes) (h : decodeURLPrefix p = some d) :
    Rx.matchString template_endsWithCharRefPrefixPattern p = false := by
  unfold decodeURLPrefix validateDoesNotEndsWithCharRefPrefix at h
  cases hm : Rx.matchString template_endsWithCharRefPrefixPattern p with
  | false => rfl
  | true =>
    rw [hm] at h
    split at h
    · cases h
    · simp at h

theorem prefixValid_no_charref (sc : SC) (p : Bytes) (hsc : sc ≠ .other) (h : prefixValid sc p = true) :
    Rx.matchString template_endsWithCharRefPrefixPattern p = false := by
  have key : ∀ b : Bool, (match decodeURLPrefix p with | none => false | some _ => b) = true →
      ∃ d, decodeURLPrefix p = some d := by
    intro b hb
    cases hd : decodeURLPrefix p with
    | none => rw [hd] at hb; cases hb
    | some d => exact ⟨d, rfl⟩
  have hd : ∃ d, decodeURLPrefix p = some d := by
    cases sc with
    | other => exact absurd rfl hsc
    | url =>
      simp only [prefixValid, validateURLPrefix] at h
      cases hd : decodeURLPrefix p with
      | none => rw [hd] at h; cases h
      | some d => exact ⟨d, rfl⟩
    | truOrUrl =>
      simp only [prefixValid, validateURLPrefix] at h
      cases hd : decodeURLPrefix p with
      | none => rw [hd] at h; cases h
      | some d => exact ⟨d, rfl⟩
    | tru =>
      simp only [prefixValid, validateTrustedResourceURLPrefix] at h
      cases hd : decodeURLPrefix p with
      | none => rw [hd] at h; cases h
      | some d => exact ⟨d, rfl⟩
  obtain ⟨d, hd⟩ := hd
  exact decodeURLPrefix_some_no_charref p d hd

theorem isUnreserved_ne_zero (b : Nat) (h : isUnreserved b = true ∨ b = 37) : b ≠ 0 := by
  rintro rfl
  rcases h with h | h
  · revert h; decide
  · cases h

/-- the chain output of a URL context contains no NUL byte -/
theorem chain_output_no_nul (sc : SC) (p w v : Bytes) (ch : Chain) (hsc : sc ≠ .other)
    (hc : chooseChain sc p = some ch) (hr : runChain ch w = some v) : 0 ∉ v := by
  intro h0
  have hpart := C14_prefix_sound_partial sc p w v ch hc hr
  cases ch with
  | htmlOnly =>
    rw [C14_choice] at hc
    cases sc with
    | other => exact absurd rfl hsc
    | url => simp only [] at hc; repeat (split at hc <;> try cases hc)
    | truOrUrl => simp only [] at hc; repeat (split at hc <;> try cases hc)
    | tru => simp only [] at hc; repeat (split at hc <;> try cases hc)
  | norm =>
    simp only [runChain, Option.some.injEq] at hr; subst hr
    have := (C14_norm_alphabet w 0 h0).1
    omega
  | query =>
    simp only [runChain, Option.some.injEq] at hr; subst hr
    exact isUnreserved_ne_zero 0 (C14_query w 0 h0) rfl
  | queryNoDotDot =>
    simp only [runChain, Option.map_eq_some_iff] at hr
    obtain ⟨u, _, rfl⟩ := hr
    exact isUnreserved_ne_zero 0 (C14_query u 0 h0) rfl

/-- **First conjunct of `C14_prefix_sound_statement`** (`bd = bp ++ v`), under the Rx obligation that the
    regenerated pattern `endsWithCharRefPrefixPattern` means `Spec.CharRef.endsWithCharRefPrefix` on `p`. -/
theorem C14_prefix_sound_decode (sc : SC) (p w v : Bytes) (ch : Chain) (hsc : sc ≠ .other)
    (hc : chooseChain sc p = some ch) (hr : runChain ch w = some v)
    (hrx : Rx.matchString template_endsWithCharRefPrefixPattern p = endsWithCharRefPrefix p) :
    decodeAttr (p ++ htmlEscapeString v) = decodeAttr p ++ v := by
  have hvalid : prefixValid sc p = true := by
    rw [C14_choice] at hc
    cases hv : prefixValid sc p with
    | true => rfl
    | false => rw [hv] at hc; simp at hc
  have hp : endsWithCharRefPrefix p = false := by
    rw [← hrx]; exact prefixValid_no_charref sc p hsc hvalid
  have h0 := chain_output_no_nul sc p w v ch hsc hc hr
  rw [decodeAttr_append_esc p _ hp (HtmlFacts.Esc_htmlEscapeString v h0), HtmlFacts.unescape5_htmlEscapeString]

end C14

/-! ### non-vacuity / necessity of the hypothesis (by `#eval`):
`decodeAttr "&am" ++ decodeAttr "p;" = "&amp;"` but `decodeAttr "&amp;" = "&"`; `decodeAttr "&#3" ++ decodeAttr "4;x"`
= `"\x03" ++ "4;x"` but `decodeAttr "&#34;x" = "\"x"`; `decodeAttr "&not" = "¬"` but `decodeAttr "&notin;" = "∉"`. -/

end SafeHtml.Proofs.CharRefAppend

#print axioms SafeHtml.Proofs.CharRefAppend.decodeAttr_append
#print axioms SafeHtml.Proofs.CharRefAppend.decodeText_append
#print axioms SafeHtml.Proofs.CharRefAppend.decodeAttr_append_esc
#print axioms SafeHtml.Proofs.CharRefAppend.C14_prefix_sound_decode
