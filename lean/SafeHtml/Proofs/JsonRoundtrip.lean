/-
The RFC 8259 decoder of Spec/Json reads back what the model of encoding/json writes:
strings (escape by escape), numbers, literals, arrays and objects.
-/
import SafeHtml.Proofs.GoJson
import SafeHtml.Oracle.C17
set_option linter.unusedSimpArgs false
set_option linter.unusedVariables false
namespace SafeHtml.Model.GoJson
open SafeHtml SafeHtml.Spec.Json

/-! ### strings -/

theorem hexv_hexDigitLower (n : Nat) (h : n < 16) : hexv (hexDigitLower n) = some n := by
  unfold hexv hexDigitLower
  by_cases h10 : n < 10
  · have a : (decide (48 ≤ 48 + n) && decide (48 + n ≤ 57)) = true := by simp; omega
    simp only [h10, if_true, a]; congr 1; omega
  · have a : (decide (48 ≤ 87 + n) && decide (87 + n ≤ 57)) = false := by simp; omega
    have b : (decide (97 ≤ 87 + n) && decide (87 + n ≤ 102)) = true := by simp; omega
    simp only [h10, if_false, a, b, if_true, Bool.false_eq_true]; congr 1; omega

theorem parseEscape_u00 (b : Nat) (hb : b < 256) (Y : Bytes) :
    parseEscape (117 :: 48 :: 48 :: hexDigitLower (b / 16 % 16) :: hexDigitLower (b % 16) :: Y) = some (b, Y) := by
  have h0 : hexv 48 = some 0 := by decide
  simp only [parseEscape, hex4, h0, hexv_hexDigitLower _ (Nat.mod_lt _ (by decide : 0 < 16))]
  have : 0 * 4096 + 0 * 256 + b / 16 % 16 * 16 + b % 16 = b := by omega
  simp only [this, surrogate]
  have : isHighSurr b = false := by simp [isHighSurr]; omega
  simp [this]

theorem parseEscape_fffd (Y : Bytes) : parseEscape (117 :: 102 :: 102 :: 102 :: 100 :: Y) = some (65533, Y) := by
  simp [parseEscape, hex4, hexv, surrogate, isHighSurr]

theorem parseEscape_2028 (Y : Bytes) : parseEscape (117 :: 50 :: 48 :: 50 :: 56 :: Y) = some (8232, Y) := by
  simp [parseEscape, hex4, hexv, surrogate, isHighSurr]

theorem parseEscape_2029 (Y : Bytes) : parseEscape (117 :: 50 :: 48 :: 50 :: 57 :: Y) = some (8233, Y) := by
  simp [parseEscape, hex4, hexv, surrogate, isHighSurr]

theorem strBody_esc (f : Nat) (e cp : Nat) (Y X : Bytes) (h : parseEscape (e :: X) = some (cp, Y)) :
    strBody false (f + 1) (92 :: e :: X) = consCp cp (strBody false f Y) := by
  simp [strBody, h]

theorem strBody_plain (f : Nat) (b : Nat) (Y : Bytes) (h1 : 32 ≤ b) (h2 : b < 128) (h3 : b ≠ 34) (h4 : b ≠ 92) :
    strBody false (f + 1) (b :: Y) = consCp b (strBody false f Y) := by
  have : ¬ b < 32 := by omega
  simp [strBody, h3, h4, this, h2]

theorem escByte_step (f b : Nat) (hb : b < 128) (Y : Bytes) :
    strBody false (f + 1) (escByte b ++ Y) = consCp b (strBody false f Y) := by
  unfold escByte
  split
  · rename_i h
    simp only [Bool.or_eq_true, beq_iff_eq] at h
    rcases h with rfl | rfl <;> exact strBody_esc _ _ _ _ _ (by simp [parseEscape])
  split
  · rename_i h; simp only [beq_iff_eq] at h; subst h; exact strBody_esc _ _ _ _ _ (by simp [parseEscape])
  split
  · rename_i h; simp only [beq_iff_eq] at h; subst h; exact strBody_esc _ _ _ _ _ (by simp [parseEscape])
  split
  · rename_i h; simp only [beq_iff_eq] at h; subst h; exact strBody_esc _ _ _ _ _ (by simp [parseEscape])
  split
  · rename_i h; simp only [beq_iff_eq] at h; subst h; exact strBody_esc _ _ _ _ _ (by simp [parseEscape])
  split
  · rename_i h; simp only [beq_iff_eq] at h; subst h; exact strBody_esc _ _ _ _ _ (by simp [parseEscape])
  split
  · exact strBody_esc _ _ _ _ _ (parseEscape_u00 b (by omega) Y)
  · rename_i n1 n2 n3 n4 n5 n6 n7
    simp only [Bool.or_eq_true, beq_iff_eq, decide_eq_true_eq, not_or] at n1 n7
    exact strBody_plain f b Y (by omega) hb n1.2 n1.1

/-- a successful multi-byte decode only looks at the bytes it consumes -/
theorem decode1_local (b0 : Nat) (t Y : Bytes) (hb : 128 ≤ b0)
    (h1 : ¬ ((Utf8.decode1 b0 t).1 = Utf8.runeError ∧ (Utf8.decode1 b0 t).2 = 1)) :
    Utf8.decode1 b0 (t.take ((Utf8.decode1 b0 t).2 - 1) ++ Y) = Utf8.decode1 b0 t := by
  have hn : ¬ b0 < 128 := by omega
  have bad : ∀ {P : Prop}, Utf8.decode1 b0 t = (Utf8.runeError, 1) → P := by
    intro P hd; rw [hd] at h1; exact absurd ⟨rfl, rfl⟩ h1
  by_cases c1 : b0 < 194
  · exact bad (by simp [Utf8.decode1, hn, c1])
  by_cases c2 : b0 ≤ 223
  · match t with
    | [] => exact bad (by simp [Utf8.decode1, hn, c1, c2])
    | b1 :: t' =>
      by_cases hc : Utf8.isCont b1 = true
      · have hd : Utf8.decode1 b0 (b1 :: t') = (b0 % 32 * 64 + b1 % 64, 2) := by
          simp [Utf8.decode1, hn, c1, c2, hc]
        rw [hd]
        simp [Utf8.decode1, hn, c1, c2, hc]
      · exact bad (by simp [Utf8.decode1, hn, c1, c2, hc])
  by_cases c3 : b0 ≤ 239
  · match t with
    | [] => exact bad (by simp [Utf8.decode1, hn, c1, c2, c3])
    | [_] => exact bad (by simp [Utf8.decode1, hn, c1, c2, c3])
    | b1 :: b2 :: t' =>
      by_cases hc : (decide ((if b0 = 224 then 160 else 128) ≤ b1) && decide (b1 ≤ if b0 = 237 then 159 else 191) &&
                            Utf8.isCont b2) = true
      · have hd : Utf8.decode1 b0 (b1 :: b2 :: t') = (b0 % 16 * 4096 + b1 % 64 * 64 + b2 % 64, 3) := by
          simp only [Utf8.decode1, hn, c1, c2, c3, if_false, if_true]
          rw [if_pos hc]
        rw [hd]
        simp only [Nat.add_one_sub_one, List.take_succ_cons, List.take_zero, List.cons_append, List.nil_append,
          Utf8.decode1, hn, c1, c2, c3, if_false, if_true]
        rw [if_pos hc]
      · exact bad (by
          simp only [Utf8.decode1, hn, c1, c2, c3, if_false, if_true]
          rw [if_neg hc])
  by_cases c4 : b0 ≤ 244
  · match t with
    | [] => exact bad (by simp [Utf8.decode1, hn, c1, c2, c3, c4])
    | [_] => exact bad (by simp [Utf8.decode1, hn, c1, c2, c3, c4])
    | [_, _] => exact bad (by simp [Utf8.decode1, hn, c1, c2, c3, c4])
    | b1 :: b2 :: b3 :: t' =>
      by_cases hc : (decide ((if b0 = 240 then 144 else 128) ≤ b1) && decide (b1 ≤ if b0 = 244 then 143 else 191) &&
                            Utf8.isCont b2 && Utf8.isCont b3) = true
      · have hd : Utf8.decode1 b0 (b1 :: b2 :: b3 :: t') =
            (b0 % 8 * 262144 + b1 % 64 * 4096 + b2 % 64 * 64 + b3 % 64, 4) := by
          simp only [Utf8.decode1, hn, c1, c2, c3, c4, if_false, if_true]
          rw [if_pos hc]
        rw [hd]
        simp only [Nat.add_one_sub_one, List.take_succ_cons, List.take_zero, List.cons_append, List.nil_append,
          Utf8.decode1, hn, c1, c2, c3, c4, if_false, if_true]
        rw [if_pos hc]
      · exact bad (by
          simp only [Utf8.decode1, hn, c1, c2, c3, c4, if_false, if_true]
          rw [if_neg hc])
  · exact bad (by simp [Utf8.decode1, hn, c1, c2, c3, c4])

/-- one symbol of the Go string, as written by `appendString`, reads back as its rune -/
theorem encSym_step (f b : Nat) (t Y : Bytes) :
    strBody false (f + 1) (encSym ⟨(Utf8.decode1 b t).1, (b :: t).take (Utf8.decode1 b t).2⟩ ++ Y) =
      consCp (Utf8.decode1 b t).1 (strBody false f Y) := by
  by_cases hb : b < 128
  · rw [Utf8.decode1_ascii b t hb]
    simp only [encSym, hb, if_true]
    exact escByte_step f b hb Y
  · have hr := Utf8.decode1_nonascii b t (by omega)
    have hnr : ¬ (Utf8.decode1 b t).1 < 128 := by omega
    have hwle := Utf8.decode1_width_le b t
    have hwpos := Utf8.decode1_width_pos b t
    simp only [encSym, hnr, if_false]
    split
    · rename_i h1
      simp only [Bool.and_eq_true, beq_iff_eq] at h1
      rw [h1.1]
      exact strBody_esc _ _ _ _ _ (parseEscape_fffd Y)
    · rename_i h1
      split
      · rename_i h2
        simp only [Bool.or_eq_true, beq_iff_eq] at h2
        rcases h2 with h2 | h2 <;> rw [h2]
        · exact strBody_esc _ _ _ _ _ (parseEscape_2028 Y)
        · exact strBody_esc _ _ _ _ _ (parseEscape_2029 Y)
      · rename_i h2
        have hne : ¬ ((Utf8.decode1 b t).1 = Utf8.runeError ∧ (Utf8.decode1 b t).2 = 1) := by
          intro hh
          apply h1
          have hl : ((b :: t).take (Utf8.decode1 b t).2).length = 1 := by
            rw [List.length_take]; omega
          simp [hh.1, hl]
        have hloc := decode1_local b t Y (by omega) hne
        obtain ⟨w, hw⟩ : ∃ w, (Utf8.decode1 b t).2 = w + 1 := ⟨(Utf8.decode1 b t).2 - 1, by omega⟩
        rw [hw] at hloc ⊢
        simp only [Nat.add_one_sub_one] at hloc
        simp only [List.take_succ_cons, List.cons_append]
        have n1 : b ≠ 34 := by omega
        have n2 : b ≠ 92 := by omega
        have n3 : ¬ b < 32 := by omega
        simp only [strBody, beq_iff_eq, n1, n2, n3, hb, if_false, decide_false, Bool.false_eq_true, hloc]
        have hne' : ¬ ((Utf8.decode1 b t).1 = Utf8.runeError ∧ w + 1 = 1) := by rw [← hw]; exact hne
        have : ((Utf8.decode1 b t).1 == Utf8.runeError && w + 1 == 1) = false := by
          cases hx : ((Utf8.decode1 b t).1 == Utf8.runeError && w + 1 == 1) with
          | false => rfl
          | true => simp only [Bool.and_eq_true, beq_iff_eq] at hx; exact absurd hx hne'
        simp only [this, Bool.false_eq_true, if_false, hw]
        congr 2
        simp only [List.drop_succ_cons]
        have hl : (t.take w).length = w := by
          rw [List.length_take]; simp only [List.length_cons] at hwle; omega
        rw [List.drop_append_of_le_length (by omega)]
        rw [List.drop_of_length_le (by omega)]
        simp only [this, Bool.false_eq_true, if_false, List.nil_append]

theorem strBody_encSyms (s : Bytes) : ∀ (rest : Bytes) (f : Nat), (Utf8.decodeSyms s).length < f →
    strBody false f ((Utf8.decodeSyms s).flatMap encSym ++ 34 :: rest) =
      some ((Utf8.decodeSyms s).map (·.rune), rest) := by
  induction s using Utf8.decode_induction with
  | hnil =>
    intro rest f hf
    cases f with
    | zero => omega
    | succ f => simp [Utf8.decodeSyms_nil, strBody]
  | hcons b t ih =>
    intro rest f hf
    rw [Utf8.decodeSyms_cons] at hf ⊢
    cases f with
    | zero => omega
    | succ f =>
      simp only [List.flatMap_cons, List.append_assoc, List.map_cons]
      rw [encSym_step, ih rest f (by simp only [List.length_cons] at hf; omega)]
      rfl

theorem escByte_len (b : Nat) : 1 ≤ (escByte b).length := by
  unfold escByte
  repeat' split
  all_goals simp [u00]

theorem encSym_len (b : Nat) (t : Bytes) :
    1 ≤ (encSym ⟨(Utf8.decode1 b t).1, (b :: t).take (Utf8.decode1 b t).2⟩).length := by
  have hwpos := Utf8.decode1_width_pos b t
  unfold encSym
  split
  · exact escByte_len _
  · split
    · simp [uFFFD]
    · split
      · simp [u202]
      · simp only [List.length_take, List.length_cons]; omega

theorem encSyms_len (s : Bytes) : (Utf8.decodeSyms s).length ≤ ((Utf8.decodeSyms s).flatMap encSym).length := by
  induction s using Utf8.decode_induction with
  | hnil => simp [Utf8.decodeSyms_nil]
  | hcons b t ih =>
    rw [Utf8.decodeSyms_cons]
    simp only [List.flatMap_cons, List.length_append, List.length_cons]
    have := encSym_len b t
    omega

/-- `encodeString s ++ rest` = quote, then a body that reads back as the runes of `s` -/
theorem parseString_encodeString (s rest : Bytes) :
    ∃ body, encodeString s ++ rest = 34 :: body ∧
      parseString false body = some (Utf8.decodeRunes s, rest) := by
  refine ⟨(Utf8.decodeSyms s).flatMap encSym ++ 34 :: rest, by simp [encodeString], ?_⟩
  unfold parseString
  rw [strBody_encSyms s rest _ ?_]
  · rfl
  · have := encSyms_len s
    simp only [List.length_append, List.length_cons]; omega

/-! ### values -/

/-- what may follow a value inside the encoder's output: nothing, `,`, `]`, `}` -/
def follow : Bytes → Bool
  | [] => true
  | c :: _ => c == 44 || c == 93 || c == 125

def valueStart (c : Nat) : Bool :=
  c == 110 || c == 116 || c == 102 || c == 34 || c == 91 || c == 123 || c == 45 || isDigit c

/-- the text `J` (followed by anything that may follow a value) parses as `e` -/
def Reads (J : Bytes) (e : JsonValue) : Prop :=
  (∀ f rest, J.length < f → follow rest = true → parseValue false f (J ++ rest) = some (e, rest)) ∧
  (∃ c t, J = c :: t ∧ valueStart c = true)

theorem valueStart_notWs (c : Nat) (h : valueStart c = true) : isWs c = false ∧ c ≠ 93 ∧ c ≠ 125 := by
  simp only [valueStart, isDigit, Bool.or_eq_true, beq_iff_eq, Bool.and_eq_true, decide_eq_true_eq] at h
  simp only [isWs, Bool.or_eq_false_iff, beq_eq_false_iff_ne, ne_eq]
  omega

theorem skipWs_valueStart (c : Nat) (t : Bytes) (h : valueStart c = true) : skipWs (c :: t) = c :: t := by
  simp [skipWs, (valueStart_notWs c h).1]

theorem skipWs_sep (c : Nat) (t : Bytes) (h : c = 44 ∨ c = 93 ∨ c = 125 ∨ c = 58) : skipWs (c :: t) = c :: t := by
  have : isWs c = false := by
    simp only [isWs, Bool.or_eq_false_iff, beq_eq_false_iff_ne, ne_eq]; omega
  simp [skipWs, this]

theorem joinComma_cons_append (a : Bytes) (es : List Bytes) (X : Bytes) :
    ∃ Y, joinComma (a :: es) ++ X = a ++ Y := by
  cases es with
  | nil => exact ⟨X, rfl⟩
  | cons b t => exact ⟨44 :: (joinComma (b :: t) ++ X), by simp [joinComma]⟩

theorem joinComma_mem_len (es : List Bytes) (e : Bytes) (h : e ∈ es) : e.length ≤ (joinComma es).length := by
  match es with
  | [] => simp at h
  | [a] => simp at h; subst h; simp [joinComma]
  | a :: b :: t =>
    simp only [joinComma, List.length_append, List.length_cons, List.length_nil]
    simp only [List.mem_cons] at h
    rcases h with rfl | h
    · omega
    · have := joinComma_mem_len (b :: t) e (by simpa using h); omega

theorem joinComma_len (es : List Bytes) (h : ∀ e ∈ es, 1 ≤ e.length) : es.length ≤ (joinComma es).length := by
  match es with
  | [] => simp
  | [a] => have := h a (by simp); simp [joinComma]; omega
  | a :: b :: t =>
    have := joinComma_len (b :: t) (fun e he => h e (by simp [he]))
    simp only [joinComma, List.length_append, List.length_cons, List.length_nil] at this ⊢
    omega

theorem parseElems_last (pv : Bytes → Option (JsonValue × Bytes)) (f : Nat) (a rest : Bytes) (v : JsonValue)
    (hp : pv (a ++ 93 :: rest) = some (v, 93 :: rest)) :
    parseElems pv (f + 1) (a ++ 93 :: rest) = some ([v], rest) := by
  simp only [parseElems, hp, skipWs_sep 93 rest (by omega)]
  simp

theorem parseElems_more (pv : Bytes → Option (JsonValue × Bytes)) (f : Nat) (a X : Bytes) (v : JsonValue)
    (hp : pv (a ++ 44 :: X) = some (v, 44 :: X)) (hX : skipWs X = X) :
    parseElems pv (f + 1) (a ++ 44 :: X) = (parseElems pv f X).map fun p => (v :: p.1, p.2) := by
  simp only [parseElems, hp, skipWs_sep 44 X (by omega), hX]
  simp

theorem parseElems_join (pv : Bytes → Option (JsonValue × Bytes)) (rest : Bytes) :
    ∀ (zs : List (Bytes × JsonValue)), zs ≠ [] →
      (∀ z ∈ zs, ∀ r, follow r = true → pv (z.1 ++ r) = some (z.2, r)) →
      (∀ z ∈ zs, ∃ c t, z.1 = c :: t ∧ valueStart c = true) →
      ∀ f, zs.length ≤ f →
        parseElems pv f (joinComma (zs.map (·.1)) ++ 93 :: rest) = some (zs.map (·.2), rest) := by
  intro zs
  induction zs with
  | nil => intro h; exact absurd rfl h
  | cons z t ih =>
    intro _ hpv hvs f hf
    cases f with
    | zero => simp at hf
    | succ f =>
      cases t with
      | nil =>
        have e : joinComma (List.map (·.1) [z]) ++ 93 :: rest = z.1 ++ 93 :: rest := by simp [joinComma]
        rw [e, parseElems_last pv f _ _ _ (hpv z (by simp) (93 :: rest) (by rfl))]
        rfl
      | cons z2 t2 =>
        have hrec := ih (by simp) (fun z' hz' => hpv z' (by simp [hz'])) (fun z' hz' => hvs z' (by simp [hz'])) f
          (by simp only [List.length_cons] at hf ⊢; omega)
        have e : joinComma (List.map (·.1) (z :: z2 :: t2)) ++ 93 :: rest =
            z.1 ++ 44 :: (joinComma (List.map (·.1) (z2 :: t2)) ++ 93 :: rest) := by simp [joinComma]
        obtain ⟨c2, t2', h2, hv2⟩ := hvs z2 (by simp)
        obtain ⟨Y, hY⟩ := joinComma_cons_append z2.1 (t2.map (·.1)) (93 :: rest)
        have hX : skipWs (joinComma (List.map (·.1) (z2 :: t2)) ++ 93 :: rest) =
            joinComma (List.map (·.1) (z2 :: t2)) ++ 93 :: rest := by
          rw [List.map_cons, hY, h2]; exact skipWs_valueStart c2 _ hv2
        rw [e, parseElems_more pv f _ _ _ (hpv z (by simp) _ (by rfl)) hX, hrec]
        rfl

theorem parseMembers_last (pv : Bytes → Option (JsonValue × Bytes)) (f : Nat) (k a rest : Bytes) (v : JsonValue)
    (hp : pv (a ++ 125 :: rest) = some (v, 125 :: rest)) (ha : skipWs (a ++ 125 :: rest) = a ++ 125 :: rest) :
    parseMembers false pv (f + 1) (encodeString k ++ 58 :: (a ++ 125 :: rest)) =
      some ([(Utf8.decodeRunes k, v)], rest) := by
  obtain ⟨body, hb, hps⟩ := parseString_encodeString k (58 :: (a ++ 125 :: rest))
  rw [hb]
  simp only [parseMembers, bne_self_eq_false, Bool.false_eq_true, if_false, hps,
    skipWs_sep 58 _ (Or.inr (Or.inr (Or.inr rfl))), ha, hp, skipWs_sep 125 rest (by omega)]
  simp

theorem parseMembers_more (pv : Bytes → Option (JsonValue × Bytes)) (f : Nat) (k a X : Bytes) (v : JsonValue)
    (hp : pv (a ++ 44 :: X) = some (v, 44 :: X)) (ha : skipWs (a ++ 44 :: X) = a ++ 44 :: X)
    (hX : skipWs X = X) :
    parseMembers false pv (f + 1) (encodeString k ++ 58 :: (a ++ 44 :: X)) =
      (parseMembers false pv f X).map fun p => ((Utf8.decodeRunes k, v) :: p.1, p.2) := by
  obtain ⟨body, hb, hps⟩ := parseString_encodeString k (58 :: (a ++ 44 :: X))
  rw [hb]
  simp only [parseMembers, bne_self_eq_false, Bool.false_eq_true, if_false, hps,
    skipWs_sep 58 _ (Or.inr (Or.inr (Or.inr rfl))), ha, hp, skipWs_sep 44 X (by omega), hX]
  simp

theorem skipWs_append_valueStart (a X : Bytes) (h : ∃ c t, a = c :: t ∧ valueStart c = true) :
    skipWs (a ++ X) = a ++ X := by
  obtain ⟨c, t, rfl, hv⟩ := h
  exact skipWs_valueStart c _ hv

theorem parseMembers_join (pv : Bytes → Option (JsonValue × Bytes)) (rest : Bytes) :
    ∀ (zs : List (Bytes × Bytes × JsonValue)), zs ≠ [] →
      (∀ z ∈ zs, ∀ r, follow r = true → pv (z.2.1 ++ r) = some (z.2.2, r)) →
      (∀ z ∈ zs, ∃ c t, z.2.1 = c :: t ∧ valueStart c = true) →
      ∀ f, zs.length ≤ f →
        parseMembers false pv f (joinComma (zs.map fun z => member (z.1, z.2.1)) ++ 125 :: rest) =
          some (zs.map (fun z => (Utf8.decodeRunes z.1, z.2.2)), rest) := by
  intro zs
  induction zs with
  | nil => intro h; exact absurd rfl h
  | cons z t ih =>
    intro _ hpv hvs f hf
    cases f with
    | zero => simp at hf
    | succ f =>
      cases t with
      | nil =>
        have e : joinComma (List.map (fun z => member (z.1, z.2.1)) [z]) ++ 125 :: rest =
            encodeString z.1 ++ 58 :: (z.2.1 ++ 125 :: rest) := by simp [joinComma, member]
        rw [e, parseMembers_last pv f _ _ _ _ (hpv z (by simp) (125 :: rest) (by rfl))
          (skipWs_append_valueStart _ _ (hvs z (by simp)))]
        rfl
      | cons z2 t2 =>
        have hrec := ih (by simp) (fun z' hz' => hpv z' (by simp [hz'])) (fun z' hz' => hvs z' (by simp [hz'])) f
          (by simp only [List.length_cons] at hf ⊢; omega)
        have e : joinComma (List.map (fun z => member (z.1, z.2.1)) (z :: z2 :: t2)) ++ 125 :: rest =
            encodeString z.1 ++ 58 :: (z.2.1 ++ 44 ::
              (joinComma (List.map (fun z => member (z.1, z.2.1)) (z2 :: t2)) ++ 125 :: rest)) := by
          simp [joinComma, member]
        obtain ⟨Y, hY⟩ := joinComma_cons_append (member (z2.1, z2.2.1))
          (t2.map fun z => member (z.1, z.2.1)) (125 :: rest)
        have hX : skipWs (joinComma (List.map (fun z => member (z.1, z.2.1)) (z2 :: t2)) ++ 125 :: rest) =
            joinComma (List.map (fun z => member (z.1, z.2.1)) (z2 :: t2)) ++ 125 :: rest := by
          rw [List.map_cons, hY]
          simp only [member, encodeString, List.append_assoc, List.singleton_append, List.cons_append]
          exact skipWs_valueStart 34 _ (by decide)
        rw [e, parseMembers_more pv f _ _ _ _ (hpv z (by simp) _ (by rfl))
          (skipWs_append_valueStart _ _ (hvs z (by simp))) hX, hrec]
        rfl

/-! ### sorting: the oracle's own sort is the model's sort; sorting commutes with mapping the values -/

theorem ltB_eq : ∀ a b : Bytes, Oracle.C17.ltB a b = ltBytes a b
  | [], [] => rfl
  | [], _ :: _ => rfl
  | _ :: _, [] => rfl
  | a :: s, b :: t => by simp only [Oracle.C17.ltB, ltBytes, ltB_eq s t]

theorem ins_eq {α} (kv : Bytes × α) (l : List (Bytes × α)) : Oracle.C17.ins kv l = insertKV kv l := by
  induction l with
  | nil => rfl
  | cons x t ih => simp only [Oracle.C17.ins, insertKV, ltB_eq, ih]

theorem sortByKey_eq {α} (l : List (Bytes × α)) : Oracle.C17.sortByKey l = sortKV l := by
  induction l with
  | nil => rfl
  | cons x t ih =>
    show Oracle.C17.ins x (Oracle.C17.sortByKey t) = insertKV x (sortKV t)
    rw [ih, ins_eq]

theorem insertKV_map {α β} (g : α → β) (kv : Bytes × α) (l : List (Bytes × α)) :
    insertKV (kv.1, g kv.2) (l.map fun z => (z.1, g z.2)) = (insertKV kv l).map fun z => (z.1, g z.2) := by
  induction l with
  | nil => rfl
  | cons x t ih =>
    simp only [List.map_cons, insertKV]
    split
    · rfl
    · simp only [List.map_cons, ih]

theorem sortKV_map {α β} (g : α → β) (l : List (Bytes × α)) :
    sortKV (l.map fun z => (z.1, g z.2)) = (sortKV l).map fun z => (z.1, g z.2) := by
  induction l with
  | nil => rfl
  | cons x t ih =>
    show insertKV (x.1, g x.2) (sortKV (t.map fun z => (z.1, g z.2))) = (insertKV x (sortKV t)).map _
    rw [ih, insertKV_map]

/-! ### the tree -/

mutual
/-- no json.Marshaler / json.RawMessage node -/
def noRaw : JVal → Bool
  | .raw _ => false
  | .arr xs => noRawL xs
  | .obj _ kvs => noRawM kvs
  | _ => true
def noRawL : List JVal → Bool
  | [] => true
  | x :: t => noRaw x && noRawL t
def noRawM : List (Bytes × JVal) → Bool
  | [] => true
  | (_, x) :: t => noRaw x && noRawM t
end

theorem reads_lit (lit tail : Bytes) (c : Nat) (e : JsonValue) (hv : valueStart c = true)
    (hp : ∀ f rest, parseValue false (f + 1) (c :: tail ++ rest) = some (e, rest)) : Reads (c :: tail) e := by
  refine ⟨?_, c, tail, rfl, hv⟩
  intro f rest hf _
  cases f with
  | zero => omega
  | succ f => exact hp f rest

theorem spanNum_append (lit rest : Bytes) (h1 : lit.all isNumCh = true) (h2 : follow rest = true) :
    spanNum (lit ++ rest) = (lit, rest) := by
  induction lit with
  | nil =>
    cases rest with
    | nil => rfl
    | cons c t =>
      simp only [follow, Bool.or_eq_true, beq_iff_eq] at h2
      have : isNumCh c = false := by
        simp only [isNumCh, isDigit, Bool.or_eq_false_iff, Bool.and_eq_false_iff, decide_eq_false_iff_not,
          beq_eq_false_iff_ne, ne_eq]
        omega
      simp [spanNum, this]
  | cons c t ih =>
    simp only [List.all_cons, Bool.and_eq_true] at h1
    simp only [List.cons_append, spanNum, h1.1, if_true, ih h1.2]

theorem reads_num (lit : Bytes) (h : isNumber lit = true) : Reads lit (.num lit) := by
  obtain ⟨hall, c, t, rfl, hc⟩ := isNumber_numch lit h
  have hv : valueStart c = true := by
    rcases hc with rfl | hc
    · decide
    · simp [valueStart, hc]
  refine ⟨?_, c, t, rfl, hv⟩
  intro f rest hf hfo
  cases f with
  | zero => omega
  | succ f =>
    have hsp := spanNum_append (c :: t) rest hall hfo
    simp only [List.cons_append] at hsp
    have n1 : c ≠ 110 ∧ c ≠ 116 ∧ c ≠ 102 ∧ c ≠ 34 ∧ c ≠ 91 ∧ c ≠ 123 := by
      rcases hc with rfl | hc
      · decide
      · simp only [isDigit, Bool.and_eq_true, decide_eq_true_eq] at hc; omega
    have n2 : (c == 45 || isDigit c) = true := by
      rcases hc with rfl | hc
      · decide
      · simp [hc]
    simp only [List.cons_append, parseValue, beq_iff_eq, n1.1, n1.2.1, n1.2.2.1, n1.2.2.2.1, n1.2.2.2.2.1,
      n1.2.2.2.2.2, if_false, n2, if_true, hsp, h]

theorem reads_str (s : Bytes) : Reads (encodeString s) (.str (Utf8.decodeRunes s)) := by
  refine ⟨?_, 34, (Utf8.decodeSyms s).flatMap encSym ++ [34], by simp [encodeString], by decide⟩
  intro f rest hf _
  cases f with
  | zero => omega
  | succ f =>
    obtain ⟨body, hb, hps⟩ := parseString_encodeString s rest
    rw [hb]
    simp [parseValue, hps]

theorem parseValue_arr (f : Nat) (t : Bytes) :
    parseValue false (f + 1) (91 :: t) =
      match skipWs t with
      | [] => none
      | d :: t' =>
        if d == 93 then some (.arr [], t')
        else (parseElems (parseValue false f) (t.length + 1) (d :: t')).map fun p => (.arr p.1, p.2) := by
  simp only [parseValue]
  simp only [show (91 == 110) = false by decide, show (91 == 116) = false by decide,
    show (91 == 102) = false by decide, show (91 == 34) = false by decide, beq_self_eq_true,
    Bool.false_eq_true, if_false, if_true]
  cases skipWs t <;> rfl

theorem parseValue_obj (f : Nat) (t : Bytes) :
    parseValue false (f + 1) (123 :: t) =
      match skipWs t with
      | [] => none
      | d :: t' =>
        if d == 125 then some (.obj [], t')
        else (parseMembers false (parseValue false f) (t.length + 1) (d :: t')).map fun p => (.obj p.1, p.2) := by
  simp only [parseValue]
  simp only [show (123 == 110) = false by decide, show (123 == 116) = false by decide,
    show (123 == 102) = false by decide, show (123 == 34) = false by decide, show (123 == 91) = false by decide,
    beq_self_eq_true, Bool.false_eq_true, if_false, if_true]
  cases skipWs t <;> rfl

theorem reads_arr (zs : List (Bytes × JsonValue)) (h : ∀ z ∈ zs, Reads z.1 z.2) :
    Reads ([91] ++ joinComma (zs.map (·.1)) ++ [93]) (.arr (zs.map (·.2))) := by
  refine ⟨?_, 91, joinComma (zs.map (·.1)) ++ [93], by simp, by decide⟩
  intro f rest hf hfo
  cases f with
  | zero => omega
  | succ f =>
    have e : [91] ++ joinComma (zs.map (·.1)) ++ [93] ++ rest = 91 :: (joinComma (zs.map (·.1)) ++ 93 :: rest) := by
      simp
    rw [e, parseValue_arr]
    cases zs with
    | nil => simp [joinComma, skipWs_sep 93 rest (by omega)]
    | cons z t =>
      obtain ⟨c, t', hc, hv⟩ := (h z (by simp)).2
      obtain ⟨Y, hY⟩ := joinComma_cons_append z.1 (t.map (·.1)) (93 :: rest)
      have hsk : skipWs (joinComma (List.map (·.1) (z :: t)) ++ 93 :: rest) = c :: (t' ++ Y) := by
        rw [List.map_cons, hY, hc]; exact skipWs_valueStart c _ hv
      have hne : (c == 93) = false := by
        have := (valueStart_notWs c hv).2.1; simpa using this
      have hback : c :: (t' ++ Y) = joinComma (List.map (·.1) (z :: t)) ++ 93 :: rest := by
        rw [List.map_cons, hY, hc]; rfl
      rw [hsk]
      simp only [hne, Bool.false_eq_true, if_false]
      rw [hback, parseElems_join (parseValue false f) rest (z :: t) (by simp) ?_ (fun z' hz' => (h z' hz').2)
        _ ?_]
      · rfl
      · intro z' hz' r hr
        apply (h z' hz').1 f r _ hr
        have h1 := joinComma_mem_len ((z :: t).map (·.1)) z'.1 (List.mem_map_of_mem hz')
        simp only [List.length_append, List.length_cons, List.length_nil] at hf
        omega
      · have h1 := joinComma_len ((z :: t).map (·.1)) (by
          intro e' he'
          simp only [List.mem_map] at he'
          obtain ⟨z', hz', rfl⟩ := he'
          obtain ⟨c', t'', hc', _⟩ := (h z' hz').2
          rw [hc']; simp)
        simp only [List.length_map, List.length_cons] at h1
        simp only [List.length_append, List.length_cons]
        omega

theorem member_len (p : Bytes × Bytes) : p.2.length + 2 ≤ (member p).length := by
  simp [member, encodeString]; omega

theorem reads_obj (zs : List (Bytes × Bytes × JsonValue)) (h : ∀ z ∈ zs, Reads z.2.1 z.2.2) :
    Reads ([123] ++ joinComma (zs.map fun z => member (z.1, z.2.1)) ++ [125])
      (.obj (zs.map fun z => (Utf8.decodeRunes z.1, z.2.2))) := by
  refine ⟨?_, 123, joinComma (zs.map fun z => member (z.1, z.2.1)) ++ [125], by simp, by decide⟩
  intro f rest hf hfo
  cases f with
  | zero => omega
  | succ f =>
    have e : [123] ++ joinComma (zs.map fun z => member (z.1, z.2.1)) ++ [125] ++ rest =
        123 :: (joinComma (zs.map fun z => member (z.1, z.2.1)) ++ 125 :: rest) := by simp
    rw [e, parseValue_obj]
    cases zs with
    | nil => simp [joinComma, skipWs_sep 125 rest (by omega)]
    | cons z t =>
      obtain ⟨Y, hY⟩ := joinComma_cons_append (member (z.1, z.2.1)) (t.map fun z => member (z.1, z.2.1)) (125 :: rest)
      have hm : ∃ Z, member (z.1, z.2.1) ++ Y = 34 :: Z := ⟨_, by simp [member, encodeString]; rfl⟩
      obtain ⟨Z, hZ⟩ := hm
      have hsk : skipWs (joinComma (List.map (fun z => member (z.1, z.2.1)) (z :: t)) ++ 125 :: rest) = 34 :: Z := by
        rw [List.map_cons, hY, hZ]; exact skipWs_valueStart 34 _ (by decide)
      have hback : 34 :: Z = joinComma (List.map (fun z => member (z.1, z.2.1)) (z :: t)) ++ 125 :: rest := by
        rw [List.map_cons, hY, hZ]
      rw [hsk]
      simp only [show (34 == 125) = false by decide, Bool.false_eq_true, if_false]
      rw [hback, parseMembers_join (parseValue false f) rest (z :: t) (by simp) ?_ (fun z' hz' => (h z' hz').2)
        _ ?_]
      · rfl
      · intro z' hz' r hr
        apply (h z' hz').1 f r _ hr
        have h1 := joinComma_mem_len ((z :: t).map fun z => member (z.1, z.2.1)) (member (z'.1, z'.2.1))
          (List.mem_map_of_mem (f := fun z => member (z.1, z.2.1)) hz')
        have h2 := member_len (z'.1, z'.2.1)
        simp only [List.length_append, List.length_cons, List.length_nil] at hf
        simp only at h2
        omega
      · have h1 := joinComma_len ((z :: t).map fun z => member (z.1, z.2.1)) (by
          intro e' he'
          simp only [List.mem_map] at he'
          obtain ⟨z', hz', rfl⟩ := he'
          have := member_len (z'.1, z'.2.1); omega)
        simp only [List.length_map, List.length_cons] at h1
        simp only [List.length_append, List.length_cons]
        omega

/-- **roundtrip**: whatever the model of `json.Marshal` writes for a tree without Marshaler/RawMessage
    nodes, the RFC 8259 decoder reads back as the JSON value of the data -/
theorem enc_reads : ∀ (v : JVal) (J : Bytes) (e : JsonValue), noRaw v = true → enc v = some J →
    Oracle.C17.expected v = some e → Reads J e := by
  apply JVal.induct
    (P := fun v => ∀ J e, noRaw v = true → enc v = some J → Oracle.C17.expected v = some e → Reads J e)
    (PL := fun xs => ∀ es es', noRawL xs = true → encL xs = some es → Oracle.C17.expectedL xs = some es' →
      ∃ zs : List (Bytes × JsonValue), es = zs.map (·.1) ∧ es' = zs.map (·.2) ∧ ∀ z ∈ zs, Reads z.1 z.2)
    (PM := fun kvs => ∀ ps ps', noRawM kvs = true → encM kvs = some ps → Oracle.C17.expectedM kvs = some ps' →
      ∃ zs : List (Bytes × Bytes × JsonValue), ps = zs.map (fun z => (z.1, z.2.1)) ∧
        ps' = zs.map (fun z => (z.1, z.2.2)) ∧ ∀ z ∈ zs, Reads z.2.1 z.2.2)
  · intro J e _ h he
    simp only [enc, Option.some.injEq] at h; simp only [Oracle.C17.expected, Option.some.injEq] at he
    subst h he
    exact reads_lit litNull _ 110 _ (by decide) (fun f rest => by simp [parseValue, litRest, List.isPrefixOf])
  · intro b J e _ h he
    simp only [enc, Option.some.injEq] at h; simp only [Oracle.C17.expected, Option.some.injEq] at he
    subst h he
    cases b
    · exact reads_lit litFalse _ 102 _ (by decide) (fun f rest => by simp [parseValue, litRest, List.isPrefixOf])
    · exact reads_lit litTrue _ 116 _ (by decide) (fun f rest => by simp [parseValue, litRest, List.isPrefixOf])
  · intro l J e _ h he
    simp only [enc, Option.some.injEq] at h
    simp only [Oracle.C17.expected] at he
    split at he
    · rename_i hn
      simp only [Option.some.injEq] at he
      subst h he
      exact reads_num _ hn
    · simp at he
  · intro s J e _ h he
    simp only [enc, Option.some.injEq] at h; simp only [Oracle.C17.expected, Option.some.injEq] at he
    subst h he
    exact reads_str s
  · intro xs ih J e hn h he
    simp only [enc, Option.map_eq_some_iff] at h
    simp only [Oracle.C17.expected, Option.map_eq_some_iff] at he
    obtain ⟨es, hes, rfl⟩ := h
    obtain ⟨es', hes', rfl⟩ := he
    obtain ⟨zs, rfl, rfl, hz⟩ := ih es es' (by simpa [noRaw] using hn) hes hes'
    exact reads_arr zs hz
  · intro m kvs ih J e hn h he
    simp only [enc, Option.map_eq_some_iff] at h
    simp only [Oracle.C17.expected, Option.map_eq_some_iff] at he
    obtain ⟨ps, hps, rfl⟩ := h
    obtain ⟨ps', hps', rfl⟩ := he
    obtain ⟨zs, rfl, rfl, hz⟩ := ih ps ps' (by simpa [noRaw] using hn) hps hps'
    cases m
    · simp only [Bool.false_eq_true, if_false, List.map_map]
      exact reads_obj zs hz
    · simp only [if_true, sortByKey_eq]
      rw [sortKV_map (fun q : Bytes × JsonValue => q.1) zs, sortKV_map (fun q : Bytes × JsonValue => q.2) zs]
      simp only [List.map_map]
      exact reads_obj (sortKV zs) (fun z hz' => hz z ((mem_sortKV z zs).1 hz'))
  · intro b J e hn; simp [noRaw] at hn
  · intro s J e _ h he
    simp only [enc, Option.some.injEq] at h; simp only [Oracle.C17.expected, Option.some.injEq] at he
    subst h he
    exact reads_str s
  · intro J e _ h; simp [enc] at h
  · intro es es' _ h he
    simp only [encL, Option.some.injEq] at h; simp only [Oracle.C17.expectedL, Option.some.injEq] at he
    subst h he
    exact ⟨[], rfl, rfl, by simp⟩
  · intro x t ihx iht es es' hn h he
    simp only [noRawL, Bool.and_eq_true] at hn
    simp only [encL] at h
    simp only [Oracle.C17.expectedL] at he
    split at h
    · rename_i a b ha hb
      split at he
      · rename_i a' b' ha' hb'
        simp only [Option.some.injEq] at h he
        subst h he
        obtain ⟨zs, rfl, rfl, hz⟩ := iht _ _ hn.2 hb hb'
        refine ⟨(a, a') :: zs, rfl, rfl, ?_⟩
        intro z hz'
        simp only [List.mem_cons] at hz'
        rcases hz' with rfl | hz'
        · exact ihx _ _ hn.1 ha ha'
        · exact hz z hz'
      · simp at he
    · simp at h
  · intro ps ps' _ h he
    simp only [encM, Option.some.injEq] at h; simp only [Oracle.C17.expectedM, Option.some.injEq] at he
    subst h he
    exact ⟨[], rfl, rfl, by simp⟩
  · intro k x t ihx iht ps ps' hn h he
    simp only [noRawM, Bool.and_eq_true] at hn
    simp only [encM] at h
    simp only [Oracle.C17.expectedM] at he
    split at h
    · rename_i a b ha hb
      split at he
      · rename_i a' b' ha' hb'
        simp only [Option.some.injEq] at h he
        subst h he
        obtain ⟨zs, rfl, rfl, hz⟩ := iht _ _ hn.2 hb hb'
        refine ⟨(k, a, a') :: zs, rfl, rfl, ?_⟩
        intro z hz'
        simp only [List.mem_cons] at hz'
        rcases hz' with rfl | hz'
        · exact ihx _ _ hn.1 ha ha'
        · exact hz z hz'
      · simp at he
    · simp at h

theorem decode_of_reads (J : Bytes) (e : JsonValue) (h : Reads J e) : decode J = some e := by
  obtain ⟨hp, c, t, rfl, hv⟩ := h
  unfold decode decodeWith
  rw [skipWs_valueStart c t hv]
  have := hp ((c :: t).length + 1) [] (by omega) rfl
  simp only [List.append_nil] at this
  rw [this]
  rfl

end SafeHtml.Model.GoJson
