/-
Further follow-ups to `Layer3E2E` / `Layer3Branch` (C01).

(1) The API state machine on a single straight-line template. `setup` = `New(name)`, `Parse(text)` on a fresh world
    (`setup_eq`: the resulting world, computed); `escapeTree_single`: `escapeTree` on the template in the empty
    escaper (mangle is the identity, memo miss, `computeOutCtx` / `escapeTemplateBody` with the scratch escaper,
    `mergeEdits` of edits with distinct keys `keys_edits`); `commit_single`: `commit` replaces the tree by the
    rewritten tree `outNodes` (via `applyEdits_out`; without any edit the tree is left as it is, `applyEdits_list_nil`);
    `escapeTemplateTop_single`, `apiExecute_single`, `apiExecuteTemplate_single`: the first `Execute` /
    `ExecuteTemplate` returns the walk of the committed tree; `C01_api_single_template` (+ `_execT`): the C01 conclusion
    for `Api.step`, with no hypothesis about the executed tree.
(2) `{{range}}` with `{{else}}`: `RP`/`RPs`, `analyseRP`/`analyseRL` (body analysed from the context before the loop
    and again from the context after one iteration, as `escapeBranch` does), `execRP`/`execRL` along a path of
    iteration counts, `simRP`/`simRL`, `C01_loops`; refinement `refRP`/`refRL` to the model's `escapeList` on
    `ifN` / `withN` / `rangeN` nodes, `C01_loops_model`.
Core Lean only; axioms: propext, Classical.choice, Quot.sound.
-/
import SafeHtml.Proofs.Layer3Branch
import SafeHtml.Model.Tmpl.Step
set_option linter.unusedSimpArgs false
set_option linter.unusedVariables false
namespace SafeHtml.Proofs.Layer3Calls
open SafeHtml SafeHtml.Model SafeHtml.Model.Tmpl SafeHtml.Spec SafeHtml.Spec.HtmlTok SafeHtml.Generated.Policy
open SafeHtml.Props.C01 (InertPos run_nil run_cons run_append)
open SafeHtml.Props.C02 (Untrusted)
open SafeHtml.Proofs.HtmlTokSim
open SafeHtml.Proofs.Layer3 SafeHtml.Proofs.Layer3E2E SafeHtml.Proofs.Layer3Branch

/-! ### the edits of a straight-line analysis: frame and distinct keys -/

/-- the action / text edits the analysis of `ps` records (started in an escaper without edits) -/
def actEdits (v : Validators) (tn : String) (i : Nat) (c : Ctx) (ps : List Piece) : List (EditKey × List String) :=
  (editsOf v tn i c ps {}).actionEdits
def txtEdits (v : Validators) (tn : String) (i : Nat) (c : Ctx) (ps : List Piece) : List (EditKey × Bytes) :=
  (editsOf v tn i c ps {}).textEdits

/-- `editsOf` only appends to the two edit lists -/
theorem editsOf_frame (v : Validators) (tn : String) : ∀ (ps : List Piece) (i : Nat) (c : Ctx) (e : Esc),
    editsOf v tn i c ps e = { e with actionEdits := e.actionEdits ++ actEdits v tn i c ps,
                                     textEdits := e.textEdits ++ txtEdits v tn i c ps }
  | [], i, c, e => by simp [editsOf, actEdits, txtEdits]
  | .text s :: ps, i, c, e => by
    simp only [editsOf, actEdits, txtEdits]
    rw [editsOf_frame v tn ps (i + 1) _ { e with textEdits := addText tn i c s e.textEdits },
      editsOf_frame v tn ps (i + 1) _ { ({} : Esc) with textEdits := addText tn i c s ({} : Esc).textEdits }]
    simp only [addText]
    split <;> simp [List.append_assoc]
  | .action :: ps, i, c, e => by
    simp only [editsOf, actEdits, txtEdits]
    split
    · next c' ch _ =>
      rw [editsOf_frame v tn ps (i + 1) c' { e with actionEdits := e.actionEdits ++ [((tn, i), ch)] },
        editsOf_frame v tn ps (i + 1) c' { ({} : Esc) with actionEdits := ({} : Esc).actionEdits ++ [((tn, i), ch)] }]
      simp [List.append_assoc]
    · simp

theorem actEdits_text (v : Validators) (tn : String) (i : Nat) (c : Ctx) (s : Bytes) (ps : List Piece) :
    actEdits v tn i c (.text s :: ps) = actEdits v tn (i + 1) (scanD c s).1 ps := by
  simp only [actEdits, editsOf]
  rw [editsOf_frame]; simp [actEdits]

theorem txtEdits_text (v : Validators) (tn : String) (i : Nat) (c : Ctx) (s : Bytes) (ps : List Piece) :
    txtEdits v tn i c (.text s :: ps) = addText tn i c s [] ++ txtEdits v tn (i + 1) (scanD c s).1 ps := by
  simp only [txtEdits, editsOf]
  rw [editsOf_frame]; simp [txtEdits]

theorem actEdits_action (v : Validators) (tn : String) (i : Nat) (c : Ctx) (ps : List Piece) :
    actEdits v tn i c (.action :: ps) =
      match actionStep v c with
      | some (c', ch) => ((tn, i), ch) :: actEdits v tn (i + 1) c' ps
      | none => [] := by
  simp only [actEdits, editsOf]
  cases h : actionStep v c with
  | none => rfl
  | some r => obtain ⟨c', ch⟩ := r; simp only []; rw [editsOf_frame]; simp [actEdits]

theorem txtEdits_action (v : Validators) (tn : String) (i : Nat) (c : Ctx) (ps : List Piece) :
    txtEdits v tn i c (.action :: ps) =
      match actionStep v c with
      | some (c', _) => txtEdits v tn (i + 1) c' ps
      | none => [] := by
  simp only [txtEdits, editsOf]
  cases h : actionStep v c with
  | none => rfl
  | some r => obtain ⟨c', ch⟩ := r; simp only []; rw [editsOf_frame]; simp [txtEdits]

/-- keys of the recorded edits: template `tn`, node ids `≥ i`, pairwise distinct -/
def GoodKeys {β} (tn : String) (i : Nat) (l : List (EditKey × β)) : Prop :=
  (∀ p ∈ l, p.1.1 = tn ∧ i ≤ p.1.2) ∧ (l.map (·.1)).Nodup

theorem GoodKeys_nil {β} (tn : String) (i : Nat) : GoodKeys tn i ([] : List (EditKey × β)) := ⟨by simp, by simp⟩

theorem GoodKeys_mono {β} {tn : String} {i j : Nat} {l : List (EditKey × β)} (h : GoodKeys tn j l) (hij : i ≤ j) :
    GoodKeys tn i l := ⟨fun p hp => ⟨(h.1 p hp).1, by have := (h.1 p hp).2; omega⟩, h.2⟩

theorem GoodKeys_cons {β} {tn : String} {i : Nat} {l : List (EditKey × β)} (x : β) (h : GoodKeys tn (i + 1) l) :
    GoodKeys tn i (((tn, i), x) :: l) := by
  refine ⟨fun p hp => ?_, ?_⟩
  · rcases List.mem_cons.1 hp with rfl | hp
    · exact ⟨rfl, Nat.le_refl _⟩
    · exact ⟨(h.1 p hp).1, by have := (h.1 p hp).2; omega⟩
  · simp only [List.map_cons, List.nodup_cons]
    refine ⟨?_, h.2⟩
    intro hm
    obtain ⟨p, hp, he⟩ := List.mem_map.1 hm
    have := (h.1 p hp).2
    rw [he] at this; simp at this; omega

theorem keys_edits (v : Validators) (tn : String) : ∀ (ps : List Piece) (i : Nat) (c : Ctx),
    GoodKeys tn i (actEdits v tn i c ps) ∧ GoodKeys tn i (txtEdits v tn i c ps)
  | [], i, c => ⟨by simpa [actEdits, editsOf] using GoodKeys_nil tn i, by simpa [txtEdits, editsOf] using GoodKeys_nil tn i⟩
  | .text s :: ps, i, c => by
    obtain ⟨h1, h2⟩ := keys_edits v tn ps (i + 1) (scanD c s).1
    rw [actEdits_text, txtEdits_text]
    refine ⟨GoodKeys_mono h1 (by omega), ?_⟩
    simp only [addText]
    split
    · simpa using GoodKeys_cons _ h2
    · simpa using GoodKeys_mono h2 (by omega)
  | .action :: ps, i, c => by
    rw [actEdits_action, txtEdits_action]
    split
    · next c' ch _ =>
      obtain ⟨h1, h2⟩ := keys_edits v tn ps (i + 1) c'
      exact ⟨GoodKeys_cons _ h1, GoodKeys_mono h2 (by omega)⟩
    · exact ⟨GoodKeys_nil tn i, GoodKeys_nil tn i⟩

theorem mergeEdits_ok {β} : ∀ (l acc : List (EditKey × β)),
    (∀ p ∈ l, acc.any (fun q => q.1 == p.1) = false) → (l.map (·.1)).Nodup → mergeEdits acc l = .ok (acc ++ l)
  | [], acc, _, _ => by simp [mergeEdits, List.foldlM, pure]
  | p :: l, acc, h1, h2 => by
    have hp := h1 p (by simp)
    simp only [List.map_cons, List.nodup_cons] at h2
    have ih := mergeEdits_ok l (acc ++ [p]) (fun q hq => by
      simp only [List.any_append, h1 q (by simp [hq]), List.any_cons, List.any_nil, Bool.or_false, Bool.false_or]
      have : p.1 ≠ q.1 := fun he => h2.1 (by rw [he]; exact List.mem_map.2 ⟨q, hq, rfl⟩)
      simpa using this) h2.2
    simp only [mergeEdits, List.foldlM, hp, Bool.false_eq_true, if_false, bind, Out.bind] at ih ⊢
    rw [ih]; simp

/-! ### `escapeTree` on a single top-level template -/

/-- the escaper after the analysis of the single template `name` with final context `cf` -/
def escAfter (v : Validators) (name : String) (ps : List Piece) (cf : Ctx) : Esc :=
  { output := [(name, cf)], called := [name], memoPrefix := [(name, ([], false))],
    actionEdits := actEdits v name 0 {} ps, textEdits := txtEdits v name 0 {} ps }

theorem mangle_empty (name : String) : mangle {} name = name := by simp [mangle]

theorem escapeTree_single (env : Env) (hcsp : env.csp = false) (name : String) (tr : Tree) (ps : List Piece)
    (as : List Arg) (has : ∀ a ∈ as, ActArg a) (cf : Ctx) (es : List EPiece)
    (hlook : env.text.lookup name = some (some tr)) (hroot : tr.root = NodeList.ofList (toNodesA 0 ps as))
    (ha : analyse env.v {} ps = some (cf, es)) (hne : cf.state ≠ .error) (f : Nat) (hf : ps.length + 4 ≤ f) :
    escapeTree env f {} {} name = .ok (escAfter env.v name ps cf, cf, name) := by
  obtain ⟨f', rfl⟩ : ∃ f', f = f' + 3 := ⟨f - 3, by omega⟩
  have hl := escapeList_refinesA env hcsp name ps 0 {} cf
    { output := [(name, {})], pristine := [], memoPrefix := [(name, ([], false))] } es as f' ha
    (fun k _ => ⟨rfl, rfl⟩) has (by omega)
  rw [editsOf_frame] at hl
  have hk := keys_edits env.v name ps 0 {}
  have hm1 := mergeEdits_ok (actEdits env.v name 0 {} ps) [] (by simp) hk.1.2
  have hm2 := mergeEdits_ok (txtEdits env.v name 0 {} ps) [] (by simp) hk.2.2
  have hm3 : mergeEdits ([] : List (EditKey × String)) [] = .ok [] := by simp [mergeEdits, List.foldlM, pure]
  have hne' : (cf.state != State.error) = true := by simpa using hne
  simp only [List.nil_append] at hm1 hm2 hl
  rw [← hroot] at hl
  simp only [escapeTree, mangle_empty]
  simp [Esc.template, hlook, alookup, aset, computeOutCtx, escapeTemplateBody, hl, bind, Out.bind, hne',
    hm1, hm2, hm3, pure, escAfter]

/-! ### `commit` for a single template -/

theorem eraseDups_const (a : String) : ∀ (l : List String), (∀ x ∈ l, x = a) → l.eraseDups = [] ∨ l.eraseDups = [a]
  | [], _ => Or.inl (by simp)
  | x :: l, h => by
    right
    have hx : x = a := h x (by simp)
    subst hx
    rw [List.eraseDups_cons]
    have : l.filter (fun b => !b == x) = [] := by
      rw [List.filter_eq_nil_iff]
      intro y hy
      simp [h y (by simp [hy])]
    rw [this]; simp

mutual
/-- without pending edits `applyEdits` is the identity -/
theorem applyEdits_node_nil (tn : String) (E : Esc) (h1 : E.actionEdits = []) (h2 : E.textEdits = [])
    (h3 : E.tmplEdits = []) : ∀ n : Node, Node.applyEdits tn E n = some n
  | .text id b => by simp [Node.applyEdits, h2]
  | .action id p => by simp [Node.applyEdits, h1]
  | .tmpl id name p => by simp [Node.applyEdits, h3]
  | .ifN id p t el => by
    simp [Node.applyEdits, applyEdits_list_nil tn E h1 h2 h3 t, applyEdits_list_nil tn E h1 h2 h3 el, bind, Option.bind]
  | .rangeN id p t el => by
    simp [Node.applyEdits, applyEdits_list_nil tn E h1 h2 h3 t, applyEdits_list_nil tn E h1 h2 h3 el, bind, Option.bind]
  | .withN id p t el => by
    simp [Node.applyEdits, applyEdits_list_nil tn E h1 h2 h3 t, applyEdits_list_nil tn E h1 h2 h3 el, bind, Option.bind]
  | .brk id => by simp [Node.applyEdits]
  | .cont id => by simp [Node.applyEdits]
  | .comment id => by simp [Node.applyEdits]
theorem applyEdits_list_nil (tn : String) (E : Esc) (h1 : E.actionEdits = []) (h2 : E.textEdits = [])
    (h3 : E.tmplEdits = []) : ∀ l : NodeList, NodeList.applyEdits tn E l = some l
  | .nil => by simp [NodeList.applyEdits]
  | .cons n ns => by
    simp [NodeList.applyEdits, applyEdits_node_nil tn E h1 h2 h3 n, applyEdits_list_nil tn E h1 h2 h3 ns, bind,
      Option.bind]
end


theorem lookup_single (name : String) (x : Option Tree) : TextSet.lookup [(name, x)] name = some x := by
  simp [TextSet.lookup]

theorem set_single (name : String) (x y : Option Tree) : TextSet.set [(name, x)] name y = [(name, y)] := by
  simp [TextSet.set]

/-- `commit` of the analysis of the single template `name`: the template's tree is replaced by the rewritten tree -/
theorem commit_single (v : Validators) (name : String) (tr : Tree) (ps : List Piece) (as : List Arg)
    (has : ∀ a ∈ as, ActArg a) (cf : Ctx) (es : List EPiece)
    (hroot : tr.root = NodeList.ofList (toNodesA 0 ps as)) (ha : analyse v {} ps = some (cf, es)) :
    ∃ E', commit [(name, some tr)] (escAfter v name ps cf) =
      .ok ([(name, some { tr with root := NodeList.ofList (outNodes 0 es as) })], E') := by
  -- the escaper whose edits `commit` applies
  let E1 : Esc := { escAfter v name ps cf with pristine := [(name, tr)] }
  have hE1 : E1 = editsOf v name 0 {} ps { E1 with actionEdits := [], textEdits := [] } := by
    rw [editsOf_frame]; simp [E1, escAfter]
  have happ : NodeList.applyEdits name E1 tr.root = some (NodeList.ofList (outNodes 0 es as)) := by
    rw [hroot]
    exact applyEdits_out v name E1 ps 0 {} cf _ es as ha (fun k _ => ⟨rfl, rfl⟩) hE1 has
  have hk := keys_edits v name ps 0 {}
  have hnames : ∀ x ∈ (actEdits v name 0 {} ps).map (·.1.1) ++ ([] : List (EditKey × String)).map (·.1.1) ++
      (txtEdits v name 0 {} ps).map (·.1.1), x = name := by
    intro x hx
    simp only [List.map_nil, List.append_nil, List.mem_append, List.mem_map] at hx
    rcases hx with ⟨p, hp, rfl⟩ | ⟨p, hp, rfl⟩
    · exact (hk.1.1 p hp).1
    · exact (hk.2.1 p hp).1
  unfold commit
  simp only [escAfter, List.all_cons, List.all_nil, lookup_single, Option.isSome_some, Bool.true_or, Bool.and_true,
    Bool.not_true, Bool.false_eq_true, if_false, List.foldl_cons, List.foldl_nil, alookup, List.find?_nil,
    Option.isSome_none, List.nil_append, bind, Out.bind]
  rcases eraseDups_const name _ hnames with h0 | h1
  · -- no edits at all: the tree is left as it is, and it is its own rewriting
    rw [h0]
    have hA : actEdits v name 0 {} ps = [] := by
      cases hh : actEdits v name 0 {} ps with
      | nil => rfl
      | cons p l => rw [hh] at h0; simp [List.eraseDups_cons] at h0
    have hX : txtEdits v name 0 {} ps = [] := by
      cases hh : txtEdits v name 0 {} ps with
      | nil => rfl
      | cons p l => rw [hA, hh] at h0; simp [List.eraseDups_cons] at h0
    have hid := applyEdits_list_nil name E1 (by simp [E1, escAfter, hA]) (by simp [E1, escAfter, hX])
      (by simp [E1, escAfter]) tr.root
    rw [happ] at hid
    simp only [Option.some.injEq] at hid
    simp only [List.foldlM, pure, hid]
    exact ⟨_, rfl⟩
  · rw [h1]
    have happ' := happ
    simp only [E1, escAfter] at happ'
    simp only [List.foldlM, lookup_single, bind, Out.bind, pure, happ', set_single]
    exact ⟨_, rfl⟩

/-! ### the API state machine on one template -/

/-- a fresh harness world -/
def world0 (v : Validators) (fuel : Nat) : World := { v := v, fuel := fuel }

/-- `t := New(name); t.Parse(text)` where `tr` is the parse tree of the text (a single definition, named `name`) -/
def setup (v : Validators) (fuel : Nat) (name : String) (tr : Tree) : World :=
  Api.run (world0 v fuel) [.new 0 name, .parse 0 [tr]]

/-- the world after `New` and `Parse`, computed -/
def setupW (v : Validators) (fuel : Nat) (name : String) (tr : Tree) : World :=
  { objs := [(1, { ns := 0, name := name, registered := true, treeNil := false })],
    nss := [(0, { set := [(name, 1)], text := [(name, some tr)] })],
    handles := [(0, 1)], next := 2, fuel := fuel, v := v }

theorem setup_eq (v : Validators) (fuel : Nat) (name : String) (tr : Tree) (hn : tr.name = name) :
    setup v fuel name tr = setupW v fuel name tr := by
  simp [setup, setupW, Api.run, Api.step, world0, World.newSet, World.setNs, World.setObj, World.bind, nset, apiParse,
    World.obj, nlookup, World.ns, addParseTree, hn, TextSet.lookup, TextSet.set, alookup, bind, Option.bind]


/-- `textExecute`'s translation of a walk result -/
def resOf (r : ExecRes) : Res :=
  match r.err with
  | none => .ok r.out
  | some .nilTree => .panic "nil pointer dereference: execution of a called template whose Tree is nil"
  | some .exec => .err "exec" r.out
  | some .depth => .err "exec-depth" []
  | some .unsupported => .unsupported
  | some .fuel => .fuel

/-- the name space after `Parse`, marked as escaped by the first `Execute` -/
def nsE (name : String) (tr : Tree) : NS := { set := [(name, 1)], text := [(name, some tr)], escaped := true }

def worldE (v : Validators) (fuel : Nat) (name : String) (tr : Tree) : World :=
  { objs := [(1, { ns := 0, name := name, registered := true, treeNil := false })],
    nss := [(0, nsE name tr)], handles := [(0, 1)], next := 2, fuel := fuel, v := v }

theorem worldE_ns (v : Validators) (fuel : Nat) (name : String) (tr : Tree) : (worldE v fuel name tr).ns 0 = nsE name tr := by
  simp [worldE, World.ns, nlookup]

/-- the first `Execute` analyses the template, commits the rewritten tree and marks the object as escaped -/
theorem escapeTemplateTop_single (v : Validators) (fuel : Nat) (name : String) (tr : Tree) (ps : List Piece)
    (as : List Arg) (has : ∀ a ∈ as, ActArg a) (cf : Ctx) (es : List EPiece)
    (hroot : tr.root = NodeList.ofList (toNodesA 0 ps as)) (ha : analyse v {} ps = some (cf, es))
    (hfin : finalError cf = none) (hf : ps.length + 4 ≤ fuel) :
    ∃ E', escapeTemplateTop (worldE v fuel name tr) 0 name =
      .inr (markOk (worldE v fuel name tr) 0 name
        [(name, some { tr with root := NodeList.ofList (outNodes 0 es as) })] E', none) := by
  have hne : cf.state ≠ .error := by
    intro h; simp [finalError, h] at hfin; split at hfin <;> simp_all
  obtain ⟨E', hc⟩ := commit_single v name tr ps as has cf es hroot ha
  have he := escapeTree_single
    { text := (nsE name tr).text, nsHas := fun n => (alookup (nsE name tr).set n).isSome, csp := (nsE name tr).csp, v := v }
    rfl name tr ps as has cf es (by simp [nsE, TextSet.lookup]) hroot ha hne fuel hf
  refine ⟨E', ?_⟩
  unfold escapeTemplateTop
  simp only [worldE_ns]
  have hfu : (worldE v fuel name tr).fuel = fuel := rfl
  have hv : (worldE v fuel name tr).v = v := rfl
  have hesc : (nsE name tr).esc = {} := rfl
  rw [hfu, hv, hesc, he]
  simp only [hfin]
  have ht : (nsE name tr).text = [(name, some tr)] := rfl
  rw [ht, hc]


/-- the committed tree -/
def treeOut (tr : Tree) (es : List EPiece) (as : List Arg) : Tree :=
  { tr with root := NodeList.ofList (outNodes 0 es as) }

theorem setNs_escaped (v : Validators) (fuel : Nat) (name : String) (tr : Tree) :
    (setupW v fuel name tr).setNs 0 { (setupW v fuel name tr).ns 0 with escaped := true } = worldE v fuel name tr := by
  simp [setupW, worldE, World.setNs, World.ns, nset, nlookup, nsE]

/-- **the first `Execute`** of the template object: the result is the model's walk of the committed tree -/
theorem apiExecute_single (v : Validators) (fuel : Nat) (name : String) (tr : Tree) (ps : List Piece)
    (as : List Arg) (has : ∀ a ∈ as, ActArg a) (cf : Ctx) (es : List EPiece)
    (hroot : tr.root = NodeList.ofList (toNodesA 0 ps as)) (ha : analyse v {} ps = some (cf, es))
    (hfin : finalError cf = none) (hf : ps.length + 4 ≤ fuel) (d : Value) :
    (apiExecute (setupW v fuel name tr) 0 d).2 =
      resOf (walkList false [(name, some (treeOut tr es as))] 0 fuel d d [] (treeOut tr es as).root) := by
  obtain ⟨E', ht⟩ := escapeTemplateTop_single v fuel name tr ps as has cf es hroot ha hfin hf
  have hobj : (setupW v fuel name tr).obj 0 =
      some (1, { ns := 0, name := name, registered := true, treeNil := false }) := by
    simp [setupW, World.obj, nlookup, bind, Option.bind]
  unfold apiExecute
  simp only [hobj, setNs_escaped, Bool.false_eq_true, if_false, ht]
  simp [markOk, worldE_ns, nsE, alookup, worldE, World.setNs, World.setObj, nset, nlookup, textExecute, World.ns,
    TextSet.lookup, resOf, treeOut]
  rfl


/-- **the first `ExecuteTemplate(name)`**: same result -/
theorem apiExecuteTemplate_single (v : Validators) (fuel : Nat) (name : String) (tr : Tree) (ps : List Piece)
    (as : List Arg) (has : ∀ a ∈ as, ActArg a) (cf : Ctx) (es : List EPiece)
    (hroot : tr.root = NodeList.ofList (toNodesA 0 ps as)) (ha : analyse v {} ps = some (cf, es))
    (hfin : finalError cf = none) (hf : ps.length + 4 ≤ fuel) (d : Value) :
    (apiExecuteTemplate (setupW v fuel name tr) 0 name d).2 =
      resOf (walkList false [(name, some (treeOut tr es as))] 0 fuel d d [] (treeOut tr es as).root) := by
  obtain ⟨E', ht⟩ := escapeTemplateTop_single v fuel name tr ps as has cf es hroot ha hfin hf
  have hobj : (setupW v fuel name tr).obj 0 =
      some (1, { ns := 0, name := name, registered := true, treeNil := false }) := by
    simp [setupW, World.obj, nlookup, bind, Option.bind]
  have hns : (setupW v fuel name tr).ns 0 = { set := [(name, 1)], text := [(name, some tr)] } := by
    simp [setupW, World.ns, nlookup]
  have hw := setNs_escaped v fuel name tr
  rw [hns] at hw
  have ho : (worldE v fuel name tr).objs = [(1, { ns := 0, name := name, registered := true, treeNil := false })] :=
    rfl
  unfold apiExecuteTemplate
  simp only [hobj, hns, hw]
  simp only [alookup, List.find?_cons, beq_self_eq_true, ho, nlookup, Option.map_some, TextSet.lookup,
    Bool.false_eq_true, if_false, if_true, Option.isNone_some, ht]
  simp [markOk, worldE_ns, nsE, alookup, worldE, World.setNs, World.setObj, nset, nlookup, textExecute, World.ns,
    TextSet.lookup, resOf, treeOut]
  rfl

theorem resOf_ok {r : ExecRes} {o : Bytes} (h : resOf r = .ok o) : r.err = none ∧ r.out = o := by
  unfold resOf at h
  cases he : r.err with
  | none => simp only [he] at h; cases h; exact ⟨rfl, rfl⟩
  | some e => cases e <;> simp [he] at h

/-- the C01 conclusion from two successful walks of the committed tree -/
theorem C01_of_walks (v : Validators) (ps : List Piece) (as : List Arg) (has : ∀ a ∈ as, ActArg a) (cf : Ctx)
    (es : List EPiece) (hs : SimpleAll v {} ps) (ha : analyse v {} ps = some (cf, es))
    (text : TextSet) (fuel : Nat) (d1 d2 : Value) (hu1 : LeavesUntrusted d1 as) (hu2 : LeavesUntrusted d2 as)
    (o1 o2 : Bytes)
    (h1 : resOf (walkList false text 0 fuel d1 d1 [] (NodeList.ofList (outNodes 0 es as))) = .ok o1)
    (h2 : resOf (walkList false text 0 fuel d2 d2 [] (NodeList.ofList (outNodes 0 es as))) = .ok o2) :
    skeleton (HtmlTok.tokenize o1).tokens = skeleton (HtmlTok.tokenize o2).tokens ∧
    (HtmlTok.tokenize o1).final = (HtmlTok.tokenize o2).final ∧
    (cf.state = .text → (HtmlTok.tokenize o1).final = .data ∧ (HtmlTok.tokenize o2).final = .data) := by
  obtain ⟨e1, rfl⟩ := resOf_ok h1
  obtain ⟨e2, rfl⟩ := resOf_ok h2
  obtain ⟨vs, p1, hv1, he1, ho1⟩ := walk_exec text 0 d1 d1 es 0 as [] fuel has e1
  obtain ⟨ws, p2, hv2, he2, ho2⟩ := walk_exec text 0 d2 d2 es 0 as [] fuel has e2
  rw [ho1, ho2]
  simp only [List.nil_append]
  exact C01_straight_line v ps cf es vs ws p1 p2 hs ha (argVals_untrusted d1 es as vs hu1 hv1)
    (argVals_untrusted d2 es as ws hu2 hv2) he1 he2

/-- **C01 for a single template through the API state machine.** `t := New(name); t.Parse(text)` where the text is
    a straight-line template (`tr` = its parse tree, actions `{{.}}` / `{{.A.B}}`), then `t.Execute(d)`: the model
    analyses the template, commits the rewritten tree and executes it. If the analysis of the pieces accepts with a
    final context without error in the text state (`finalError cf = none`, the API's acceptance condition), every
    static text is `Simple`, and the executions for two data values whose printed leaves are untrusted both return
    `ok`, the two outputs have the same markup skeleton and end in the data state. No hypothesis about the executed
    tree is left. -/
theorem C01_api_single_template (v : Validators) (fuel : Nat) (name : String) (tr : Tree) (ps : List Piece)
    (as : List Arg) (has : ∀ a ∈ as, ActArg a) (cf : Ctx) (es : List EPiece) (hn : tr.name = name)
    (hroot : tr.root = NodeList.ofList (toNodesA 0 ps as)) (hs : SimpleAll v {} ps)
    (ha : analyse v {} ps = some (cf, es)) (hfin : finalError cf = none) (hf : ps.length + 4 ≤ fuel)
    (d1 d2 : Value) (hu1 : LeavesUntrusted d1 as) (hu2 : LeavesUntrusted d2 as) (o1 o2 : Bytes) (w1 w2 : World)
    (h1 : Api.step (setup v fuel name tr) (.exec 0 d1) = (w1, .exec (.ok o1)))
    (h2 : Api.step (setup v fuel name tr) (.exec 0 d2) = (w2, .exec (.ok o2))) :
    skeleton (HtmlTok.tokenize o1).tokens = skeleton (HtmlTok.tokenize o2).tokens ∧
    (HtmlTok.tokenize o1).final = .data ∧ (HtmlTok.tokenize o2).final = .data := by
  rw [setup_eq v fuel name tr hn] at h1 h2
  have r1 := apiExecute_single v fuel name tr ps as has cf es hroot ha hfin hf d1
  have r2 := apiExecute_single v fuel name tr ps as has cf es hroot ha hfin hf d2
  simp only [Api.step] at h1 h2
  have e1 : (apiExecute (setupW v fuel name tr) 0 d1).2 = .ok o1 := by
    have := congrArg Prod.snd h1; simpa using this
  have e2 : (apiExecute (setupW v fuel name tr) 0 d2).2 = .ok o2 := by
    have := congrArg Prod.snd h2; simpa using this
  rw [r1] at e1
  rw [r2] at e2
  have hst : cf.state = .text := by
    by_cases hc : cf.state = .text
    · exact hc
    · exfalso
      unfold finalError at hfin
      split at hfin
      · next h => cases he : cf.err <;> simp_all
      · simp [hc] at hfin
  have := C01_of_walks v ps as has cf es hs ha _ fuel d1 d2 hu1 hu2 o1 o2 e1 e2
  exact ⟨this.1, this.2.2 hst⟩


/-- the same for `t.ExecuteTemplate(name, d)` -/
theorem C01_api_single_template_execT (v : Validators) (fuel : Nat) (name : String) (tr : Tree) (ps : List Piece)
    (as : List Arg) (has : ∀ a ∈ as, ActArg a) (cf : Ctx) (es : List EPiece) (hn : tr.name = name)
    (hroot : tr.root = NodeList.ofList (toNodesA 0 ps as)) (hs : SimpleAll v {} ps)
    (ha : analyse v {} ps = some (cf, es)) (hfin : finalError cf = none) (hf : ps.length + 4 ≤ fuel)
    (d1 d2 : Value) (hu1 : LeavesUntrusted d1 as) (hu2 : LeavesUntrusted d2 as) (o1 o2 : Bytes) (w1 w2 : World)
    (h1 : Api.step (setup v fuel name tr) (.execT 0 name d1) = (w1, .exec (.ok o1)))
    (h2 : Api.step (setup v fuel name tr) (.execT 0 name d2) = (w2, .exec (.ok o2))) :
    skeleton (HtmlTok.tokenize o1).tokens = skeleton (HtmlTok.tokenize o2).tokens ∧
    (HtmlTok.tokenize o1).final = .data ∧ (HtmlTok.tokenize o2).final = .data := by
  rw [setup_eq v fuel name tr hn] at h1 h2
  have r1 := apiExecuteTemplate_single v fuel name tr ps as has cf es hroot ha hfin hf d1
  have r2 := apiExecuteTemplate_single v fuel name tr ps as has cf es hroot ha hfin hf d2
  simp only [Api.step] at h1 h2
  have e1 : (apiExecuteTemplate (setupW v fuel name tr) 0 name d1).2 = .ok o1 := by
    have := congrArg Prod.snd h1; simpa using this
  have e2 : (apiExecuteTemplate (setupW v fuel name tr) 0 name d2).2 = .ok o2 := by
    have := congrArg Prod.snd h2; simpa using this
  rw [r1] at e1
  rw [r2] at e2
  have hst : cf.state = .text := by
    by_cases hc : cf.state = .text
    · exact hc
    · exfalso
      unfold finalError at hfin
      split at hfin
      · next h => cases he : cf.err <;> simp_all
      · simp [hc] at hfin
  have := C01_of_walks v ps as has cf es hs ha _ fuel d1 d2 hu1 hu2 o1 o2 e1 e2
  exact ⟨this.1, this.2.2 hst⟩

/-! ### non-vacuity: `<p title="{{.T}}">{{.T}}</p>` through `New`, `Parse`, `Execute` -/

def exTree : Tree := { name := "t", root := NodeList.ofList (toNodesA 0 exTemplate exArgs) }

/-- the model's API run on the example really returns `ok` (kernel evaluation of the whole state machine) -/
def retOk : Ret → Bool
  | .exec (.ok _) => true
  | _ => false

example : retOk (Api.step (setup v0 100 "t" exTree) (.exec 0 (exData [34, 62, 60]))).2 = true := by
  decide +kernel

theorem ex_api (b1 b2 o1 o2 : Bytes) (w1 w2 : World)
    (h1 : Api.step (setup v0 100 "t" exTree) (.exec 0 (exData b1)) = (w1, .exec (.ok o1)))
    (h2 : Api.step (setup v0 100 "t" exTree) (.exec 0 (exData b2)) = (w2, .exec (.ok o2))) :
    skeleton (HtmlTok.tokenize o1).tokens = skeleton (HtmlTok.tokenize o2).tokens ∧
    (HtmlTok.tokenize o1).final = .data ∧ (HtmlTok.tokenize o2).final = .data :=
  C01_api_single_template v0 100 "t" exTree exTemplate exArgs
    (by intro a ha; simp [exArgs] at ha; subst ha; exact Or.inr ⟨_, rfl⟩) {} exOut rfl rfl ex_simpleAll ex_analyse
    (by decide) (by decide) _ _ (exData_untrusted b1) (exData_untrusted b2) o1 o2 w1 w2 h1 h2

/-! ## (2) `{{range}}` with `{{else}}` -/

mutual
/-- templates with branches and loops (no template calls) -/
inductive RP where
  | text (s : Bytes)
  | action
  | ifElse (t e : RPs)
  | range (t e : RPs)
inductive RPs where
  | nil
  | cons (p : RP) (ps : RPs)
end

mutual
inductive ER where
  | text (out : Bytes)
  | action (chain : List String)
  | ifElse (t e : ERs)
  | range (t e : ERs)
inductive ERs where
  | nil
  | cons (p : ER) (ps : ERs)
end

mutual
/-- analysis. `ifElse` as in `Layer3Branch`. `range body else` follows `escapeBranch` with `isRange`: the body is
    analysed from the context before the loop (ending in `c0`) and once more from `c0` (re-entry check, ending in
    `c1`); it is accepted when `c0.eq c1`, the else arm (analysed from the context before the loop) ends in a
    context `Ctx.eq`-equal to `join c0 c1`, and the analysis continues in the join of the two. -/
def analyseRP (v : Validators) : Ctx → RP → Option (Ctx × ER)
  | c, .text s =>
    match scan c s with
    | none => none
    | some (c', out) => if c'.state == .error then none else some (c', .text out)
  | c, .action =>
    match actionStep v c with
    | none => none
    | some (c', ch) => some (c', .action ch)
  | c, .ifElse t e =>
    match analyseRL v c t, analyseRL v c e with
    | some (ct, et), some (ce, ee) => if ct.eq ce then some (join ct ce, .ifElse et ee) else none
    | _, _ => none
  | c, .range t e =>
    match analyseRL v c t with
    | none => none
    | some (c0, et) =>
      match analyseRL v c0 t, analyseRL v c e with
      | some (c1, _), some (ce, ee) =>
        if c0.eq c1 && (join c0 c1).eq ce then some (join (join c0 c1) ce, .range et ee) else none
      | _, _ => none
def analyseRL (v : Validators) : Ctx → RPs → Option (Ctx × ERs)
  | c, .nil => some (c, .nil)
  | c, .cons p ps =>
    match analyseRP v c p with
    | none => none
    | some (c', ep) =>
      match analyseRL v c' ps with
      | none => none
      | some (cf, es) => some (cf, .cons ep es)
end

/-- `n` iterations of a loop body -/
def iterN : Nat → (List Nat → List Value → Option (Bytes × List Nat × List Value)) → List Nat → List Value →
    Option (Bytes × List Nat × List Value)
  | 0, _, path, vs => some ([], path, vs)
  | n + 1, f, path, vs =>
    match f path vs with
    | none => none
    | some (o, p', v') =>
      match iterN n f p' v' with
      | none => none
      | some (o', p'', v'') => some (o ++ o', p'', v'')

mutual
/-- execution along a control path of numbers: an `ifElse` consumes one (`0` = else arm), a `range` one (the number
    of iterations, `0` = else arm); each executed action consumes one value -/
def execRP : ER → List Nat → List Value → Option (Bytes × List Nat × List Value)
  | .text o, path, vs => some (o, path, vs)
  | .action ch, path, v :: vs =>
    match runChain ch v with
    | .ok (.str s) => some (s, path, vs)
    | _ => none
  | .action _, _, [] => none
  | .ifElse t e, n :: path, vs => if n = 0 then execRL e path vs else execRL t path vs
  | .ifElse _ _, [], _ => none
  | .range t e, n :: path, vs => if n = 0 then execRL e path vs else iterN n (execRL t) path vs
  | .range _ _, [], _ => none
def execRL : ERs → List Nat → List Value → Option (Bytes × List Nat × List Value)
  | .nil, path, vs => some ([], path, vs)
  | .cons p ps, path, vs =>
    match execRP p path vs with
    | none => none
    | some (o, path', vs') =>
      match execRL ps path' vs' with
      | none => none
      | some (o', path'', vs'') => some (o ++ o', path'', vs'')
end

mutual
/-- static texts are simple for the contexts they are scanned in; a loop body is simple both from the context before
    the loop and from the context after one iteration, and the analysis emits the same pieces in both cases (the
    engine keeps only the edits of the first analysis) -/
def SimpleRP (v : Validators) : Ctx → RP → Prop
  | c, .text s =>
    ∃ js out se, Simple js c.elemName c.state c.delim s out se ∧
      (memKey specialElements c.elemName = true → InTagState c.state → ∀ x ∈ s, x ≠ 60) ∧
      (js = true → isJsTemplateBalanced s = true)
  | c, .action => c.state = .beforeValue → c.attrName ≠ []
  | c, .ifElse t e => SimpleRL v c t ∧ SimpleRL v c e
  | c, .range t e =>
    SimpleRL v c t ∧ SimpleRL v c e ∧
    match analyseRL v c t with
    | some (c0, et) => SimpleRL v c0 t ∧ ∃ c1, analyseRL v c0 t = some (c1, et)
    | none => True
def SimpleRL (v : Validators) : Ctx → RPs → Prop
  | _, .nil => True
  | c, .cons p ps =>
    SimpleRP v c p ∧
    match analyseRP v c p with
    | some (c', _) => SimpleRL v c' ps
    | none => True
end

/-- what is carried through, for two executions along the same control path -/
def CarriedN (c' : Ctx) (a b : T) (o1 o2 : Bytes) (path1 path2 : List Nat) (vs' ws' : List Value) : Prop :=
  path1 = path2 ∧ (∀ x ∈ vs', Untrusted x) ∧ (∀ x ∈ ws', Untrusted x) ∧
  Rel c' (run a o1) ∧ Rel c' (run b o2) ∧ Sim (run a o1) (run b o2)

mutual
theorem simRP (v : Validators) : ∀ (p : RP) (c c' : Ctx) (a b : T) (ep : ER) (path path1 path2 : List Nat)
    (vs vs' ws ws' : List Value) (o1 o2 : Bytes), Rel c a → Rel c b → Sim a b → SimpleRP v c p →
    analyseRP v c p = some (c', ep) → (∀ x ∈ vs, Untrusted x) → (∀ x ∈ ws, Untrusted x) →
    execRP ep path vs = some (o1, path1, vs') → execRP ep path ws = some (o2, path2, ws') →
    CarriedN c' a b o1 o2 path1 path2 vs' ws'
  | .text s, c, c', a, b, ep, path, path1, path2, vs, vs', ws, ws', o1, o2, ha, hb, hsim, hsp, han, hu, hw, h1, h2 => by
    obtain ⟨js, out, se, hsimple, hlt, hjs⟩ := hsp
    obtain ⟨c1, hsc, _, hra⟩ := layer3_simple js c a s out se ha hsimple hlt hjs
    obtain ⟨c2, hsc2, _, hrb⟩ := layer3_simple js c b s out se hb hsimple hlt hjs
    rw [hsc] at hsc2
    simp only [Option.some.injEq, Prod.mk.injEq, and_true] at hsc2
    subst hsc2
    simp only [analyseRP, hsc] at han
    split at han
    · cases han
    · simp only [Option.some.injEq, Prod.mk.injEq] at han
      obtain ⟨rfl, rfl⟩ := han
      simp only [execRP, Option.some.injEq, Prod.mk.injEq] at h1 h2
      obtain ⟨rfl, rfl, rfl⟩ := h1
      obtain ⟨rfl, rfl, rfl⟩ := h2
      exact ⟨rfl, hu, hw, hra, hrb, run_sim _ a b hsim⟩
  | .action, c, c', a, b, ep, path, path1, path2, vs, vs', ws, ws', o1, o2, ha, hb, hsim, hsp, han, hu, hw, h1, h2 => by
    simp only [analyseRP] at han
    cases hact : actionStep v c with
    | none => simp [hact] at han
    | some r =>
      obtain ⟨c1, ch⟩ := r
      simp only [hact, Option.some.injEq, Prod.mk.injEq] at han
      obtain ⟨rfl, rfl⟩ := han
      obtain ⟨rfl, hst, hch⟩ := action_ok v c c1 a ch ha hsp hact
      cases vs with
      | nil => simp [execRP] at h1
      | cons x vs =>
      cases ws with
      | nil => simp [execRP] at h2
      | cons y ws =>
      simp only [execRP] at h1 h2
      cases hx : runChain ch x with
      | error e => simp [hx] at h1
      | ok ox =>
      cases hy : runChain ch y with
      | error e => simp [hy] at h2
      | ok oy =>
      obtain ⟨dx, rfl, hex⟩ := ctx_chain_esc v c1 ch x ox hch (hu x (by simp)) hx
      obtain ⟨dy, rfl, hey⟩ := ctx_chain_esc v c1 ch y oy hch (hw y (by simp)) hy
      simp only [hx, hy, Option.some.injEq, Prod.mk.injEq] at h1 h2
      obtain ⟨rfl, rfl, rfl⟩ := h1
      obtain ⟨rfl, rfl, rfl⟩ := h2
      exact ⟨rfl, fun z hz => hu z (by simp [hz]), fun z hz => hw z (by simp [hz]),
        rel_esc c1 a _ ha hst hex, rel_esc c1 b _ hb hst hey,
        inert_sim2' a b hsim _ _ hex hey (rel_inert_pos c1 a ha hst)⟩
  | .ifElse t e, c, c', a, b, ep, path, path1, path2, vs, vs', ws, ws', o1, o2, ha, hb, hsim, hsp, han, hu, hw, h1,
      h2 => by
    simp only [analyseRP] at han
    cases ht : analyseRL v c t with
    | none => simp [ht] at han
    | some rt =>
    cases he : analyseRL v c e with
    | none => simp [ht, he] at han
    | some re =>
    obtain ⟨ct, et⟩ := rt
    obtain ⟨ce, ee⟩ := re
    simp only [ht, he] at han
    split at han
    · next heq =>
      simp only [Option.some.injEq, Prod.mk.injEq] at han
      obtain ⟨rfl, rfl⟩ := han
      cases path with
      | nil => simp [execRP] at h1
      | cons bch path =>
        simp only [execRP] at h1 h2
        by_cases hb0 : bch = 0
        · simp only [hb0, if_true] at h1 h2
          obtain ⟨hp, hu', hw', hra, hrb, hs'⟩ := simRL v e c ce a b ee path path1 path2 vs vs' ws ws' o1 o2 ha hb hsim
            hsp.2 he hu hw h1 h2
          exact ⟨hp, hu', hw', rel_join_right ct ce _ heq hra, rel_join_right ct ce _ heq hrb, hs'⟩
        · simp only [hb0, if_false] at h1 h2
          obtain ⟨hp, hu', hw', hra, hrb, hs'⟩ := simRL v t c ct a b et path path1 path2 vs vs' ws ws' o1 o2 ha hb hsim
            hsp.1 ht hu hw h1 h2
          have hce : ce.state ≠ .error := by
            rw [(ctx_eq_fields ct ce heq).1]; exact rel_not_error hra
          exact ⟨hp, hu', hw', rel_join_left ct ce _ heq hce hra, rel_join_left ct ce _ heq hce hrb, hs'⟩
    · cases han
  | .range t e, c, c', a, b, ep, path, path1, path2, vs, vs', ws, ws', o1, o2, ha, hb, hsim, hsp, han, hu, hw, h1,
      h2 => by
    simp only [analyseRP] at han
    cases ht : analyseRL v c t with
    | none => simp [ht] at han
    | some rt =>
    obtain ⟨c0, et⟩ := rt
    simp only [ht] at han
    cases ht2 : analyseRL v c0 t with
    | none => simp [ht2] at han
    | some rt2 =>
    cases he : analyseRL v c e with
    | none => simp [ht2, he] at han
    | some re =>
    obtain ⟨c1, et'⟩ := rt2
    obtain ⟨ce, ee⟩ := re
    simp only [ht2, he] at han
    split at han
    · next hcond =>
      simp only [Bool.and_eq_true] at hcond
      obtain ⟨heq1, heq2⟩ := hcond
      simp only [Option.some.injEq, Prod.mk.injEq] at han
      obtain ⟨rfl, rfl⟩ := han
      obtain ⟨hst, hse, hs0⟩ := hsp
      simp only [ht] at hs0
      obtain ⟨hs0, c1', ht2'⟩ := hs0
      rw [ht2] at ht2'
      simp only [Option.some.injEq, Prod.mk.injEq] at ht2'
      obtain ⟨_, rfl⟩ := ht2'
      have hf01 := ctx_eq_fields c0 c1 heq1
      -- later iterations: from the context after the body back to the context after the body
      have key : ∀ (m : Nat) (a b : T) (path pa pb : List Nat) (vs vs' ws ws' : List Value) (o1 o2 : Bytes),
          Rel c0 a → Rel c0 b → Sim a b → (∀ x ∈ vs, Untrusted x) → (∀ x ∈ ws, Untrusted x) →
          iterN m (execRL et') path vs = some (o1, pa, vs') → iterN m (execRL et') path ws = some (o2, pb, ws') →
          CarriedN c0 a b o1 o2 pa pb vs' ws' := by
        intro m
        induction m with
        | zero =>
          intro a b path pa pb vs vs' ws ws' o1 o2 ha hb hs hu hw h1 h2
          simp only [iterN, Option.some.injEq, Prod.mk.injEq] at h1 h2
          obtain ⟨rfl, rfl, rfl⟩ := h1
          obtain ⟨rfl, rfl, rfl⟩ := h2
          exact ⟨rfl, hu, hw, ha, hb, hs⟩
        | succ m ih =>
          intro a b path pa pb vs vs' ws ws' o1 o2 ha hb hs hu hw h1 h2
          simp only [iterN] at h1 h2
          cases hx1 : execRL et' path vs with
          | none => simp [hx1] at h1
          | some r1 =>
          cases hx2 : execRL et' path ws with
          | none => simp [hx2] at h2
          | some r2 =>
          obtain ⟨q1, pa1, va1⟩ := r1
          obtain ⟨q2, pa2, va2⟩ := r2
          simp only [hx1, hx2] at h1 h2
          obtain ⟨hpe, hu1, hw1, hra, hrb, hs1⟩ := simRL v t c0 c1 a b et' path pa1 pa2 vs va1 ws va2 q1 q2 ha hb hs hs0
            ht2 hu hw hx1 hx2
          subst hpe
          have hra' : Rel c0 (run a q1) := Rel_congr c1 c0 _ hf01.1.symm hf01.2.1.symm hf01.2.2.1.symm hf01.2.2.2.symm hra
          have hrb' : Rel c0 (run b q2) := Rel_congr c1 c0 _ hf01.1.symm hf01.2.1.symm hf01.2.2.1.symm hf01.2.2.2.symm hrb
          cases hy1 : iterN m (execRL et') pa1 va1 with
          | none => simp [hy1] at h1
          | some s1 =>
          cases hy2 : iterN m (execRL et') pa1 va2 with
          | none => simp [hy2] at h2
          | some s2 =>
          obtain ⟨r1, pb1, vb1⟩ := s1
          obtain ⟨r2, pb2, vb2⟩ := s2
          simp only [hy1, hy2, Option.some.injEq, Prod.mk.injEq] at h1 h2
          obtain ⟨rfl, rfl, rfl⟩ := h1
          obtain ⟨rfl, rfl, rfl⟩ := h2
          have := ih (run a q1) (run b q2) pa1 pb1 pb2 va1 vb1 va2 vb2 r1 r2 hra' hrb' hs1 hu1 hw1 hy1 hy2
          simpa [CarriedN, run_append] using this
      cases path with
      | nil => simp [execRP] at h1
      | cons n path =>
        simp only [execRP] at h1 h2
        by_cases hn0 : n = 0
        · simp only [hn0, if_true] at h1 h2
          obtain ⟨hp, hu', hw', hra, hrb, hs'⟩ := simRL v e c ce a b ee path path1 path2 vs vs' ws ws' o1 o2 ha hb hsim
            hse he hu hw h1 h2
          exact ⟨hp, hu', hw', rel_join_right _ ce _ heq2 hra, rel_join_right _ ce _ heq2 hrb, hs'⟩
        · simp only [hn0, if_false] at h1 h2
          obtain ⟨m, rfl⟩ : ∃ m, n = m + 1 := ⟨n - 1, by omega⟩
          -- first iteration, from the context before the loop
          simp only [iterN] at h1 h2
          cases hx1 : execRL et' path vs with
          | none => simp [hx1] at h1
          | some r1 =>
          cases hx2 : execRL et' path ws with
          | none => simp [hx2] at h2
          | some r2 =>
          obtain ⟨q1, pa1, va1⟩ := r1
          obtain ⟨q2, pa2, va2⟩ := r2
          simp only [hx1, hx2] at h1 h2
          obtain ⟨hpe, hu1, hw1, hra, hrb, hs1⟩ := simRL v t c c0 a b et' path pa1 pa2 vs va1 ws va2 q1 q2 ha hb hsim hst
            ht hu hw hx1 hx2
          subst hpe
          cases hy1 : iterN m (execRL et') pa1 va1 with
          | none => simp [hy1] at h1
          | some s1 =>
          cases hy2 : iterN m (execRL et') pa1 va2 with
          | none => simp [hy2] at h2
          | some s2 =>
          obtain ⟨r1, pb1, vb1⟩ := s1
          obtain ⟨r2, pb2, vb2⟩ := s2
          simp only [hy1, hy2, Option.some.injEq, Prod.mk.injEq] at h1 h2
          obtain ⟨rfl, rfl, rfl⟩ := h1
          obtain ⟨rfl, rfl, rfl⟩ := h2
          obtain ⟨hp, hu', hw', hra2, hrb2, hs2⟩ := key m (run a q1) (run b q2) pa1 pb1 pb2 va1 vb1 va2 vb2 r1 r2 hra hrb
            hs1 hu1 hw1 hy1 hy2
          have hc1 : c1.state ≠ .error := by rw [hf01.1]; exact rel_not_error hra
          have hj := join_eq c0 c1 (rel_not_error hra) hc1 heq1
          have hcee : ce.state ≠ .error := by
            rw [(ctx_eq_fields _ ce heq2).1, hj.1]; exact rel_not_error hra
          refine ⟨hp, hu', hw', ?_, ?_, by simpa [run_append] using hs2⟩
          · have := rel_join_left _ ce _ heq2 hcee (rel_join_left c0 c1 _ heq1 hc1 hra2)
            simpa [run_append] using this
          · have := rel_join_left _ ce _ heq2 hcee (rel_join_left c0 c1 _ heq1 hc1 hrb2)
            simpa [run_append] using this
    · cases han
theorem simRL (v : Validators) : ∀ (ps : RPs) (c cf : Ctx) (a b : T) (es : ERs) (path path1 path2 : List Nat)
    (vs vs' ws ws' : List Value) (o1 o2 : Bytes), Rel c a → Rel c b → Sim a b → SimpleRL v c ps →
    analyseRL v c ps = some (cf, es) → (∀ x ∈ vs, Untrusted x) → (∀ x ∈ ws, Untrusted x) →
    execRL es path vs = some (o1, path1, vs') → execRL es path ws = some (o2, path2, ws') →
    CarriedN cf a b o1 o2 path1 path2 vs' ws'
  | .nil, c, cf, a, b, es, path, path1, path2, vs, vs', ws, ws', o1, o2, ha, hb, hsim, _, han, hu, hw, h1, h2 => by
    simp only [analyseRL, Option.some.injEq, Prod.mk.injEq] at han
    obtain ⟨rfl, rfl⟩ := han
    simp only [execRL, Option.some.injEq, Prod.mk.injEq] at h1 h2
    obtain ⟨rfl, rfl, rfl⟩ := h1
    obtain ⟨rfl, rfl, rfl⟩ := h2
    exact ⟨rfl, hu, hw, ha, hb, hsim⟩
  | .cons p ps, c, cf, a, b, es, path, path1, path2, vs, vs', ws, ws', o1, o2, ha, hb, hsim, hsl, han, hu, hw, h1,
      h2 => by
    simp only [analyseRL] at han
    cases hp : analyseRP v c p with
    | none => simp [hp] at han
    | some r =>
      obtain ⟨c1, ep⟩ := r
      simp only [hp] at han
      cases hrec : analyseRL v c1 ps with
      | none => simp [hrec] at han
      | some r2 =>
        obtain ⟨cf', es'⟩ := r2
        simp only [hrec, Option.some.injEq, Prod.mk.injEq] at han
        obtain ⟨rfl, rfl⟩ := han
        obtain ⟨hsp, hsrest⟩ := hsl
        simp only [hp] at hsrest
        simp only [execRL] at h1 h2
        cases hx1 : execRP ep path vs with
        | none => simp [hx1] at h1
        | some r1 =>
        cases hx2 : execRP ep path ws with
        | none => simp [hx2] at h2
        | some r2 =>
        obtain ⟨p1, pa1, va1⟩ := r1
        obtain ⟨p2, pa2, va2⟩ := r2
        simp only [hx1, hx2] at h1 h2
        obtain ⟨hpe, hu1, hw1, hra, hrb, hs1⟩ := simRP v p c c1 a b ep path pa1 pa2 vs va1 ws va2 p1 p2 ha hb hsim hsp hp
          hu hw hx1 hx2
        subst hpe
        cases hy1 : execRL es' pa1 va1 with
        | none => simp [hy1] at h1
        | some q1 =>
        cases hy2 : execRL es' pa1 va2 with
        | none => simp [hy2] at h2
        | some q2 =>
        obtain ⟨r1, pb1, vb1⟩ := q1
        obtain ⟨r2, pb2, vb2⟩ := q2
        simp only [hy1, hy2, Option.some.injEq, Prod.mk.injEq] at h1 h2
        obtain ⟨rfl, rfl, rfl⟩ := h1
        obtain ⟨rfl, rfl, rfl⟩ := h2
        have := simRL v ps c1 cf' (run a p1) (run b p2) es' pa1 pb1 pb2 va1 vb1 va2 vb2 r1 r2 hra hrb hs1 hsrest hrec
          hu1 hw1 hy1 hy2
        simpa [CarriedN, run_append] using this
end

/-- **C01 for templates with branches and loops, for the control path taken** (same branch choices and the same
    iteration counts in both executions) -/
theorem C01_loops (v : Validators) (ps : RPs) (cf : Ctx) (es : ERs) (path p1 p2 : List Nat)
    (vs vs' ws ws' : List Value) (o1 o2 : Bytes)
    (hs : SimpleRL v {} ps) (ha : analyseRL v {} ps = some (cf, es))
    (hu : ∀ x ∈ vs, Untrusted x) (hw : ∀ x ∈ ws, Untrusted x)
    (h1 : execRL es path vs = some (o1, p1, vs')) (h2 : execRL es path ws = some (o2, p2, ws')) :
    skeleton (HtmlTok.tokenize o1).tokens = skeleton (HtmlTok.tokenize o2).tokens ∧
    (HtmlTok.tokenize o1).final = (HtmlTok.tokenize o2).final ∧
    (cf.state = .text → (HtmlTok.tokenize o1).final = .data ∧ (HtmlTok.tokenize o2).final = .data) := by
  obtain ⟨_, _, _, hr1, hr2, hsim⟩ := simRL v ps {} cf {} {} es path p1 p2 vs vs' ws ws' o1 o2 Layer3.rel_init
    Layer3.rel_init (Sim.refl _) hs ha hu hw h1 h2
  have hres := result_sim _ _ (finish_sim _ _ hsim)
  simp only [tokenize_tokens, tokenize_final]
  refine ⟨hres.1, hres.2, fun hcf => ?_⟩
  simp only [Rel, hcf] at hr1 hr2
  constructor
  · simp only [finish, hr1.2.2, flush_st]
  · simp only [finish, hr2.2.2, flush_st]

/-! ### non-vacuity of (2): `{{range .}}<b>{{.}}</b>{{else}}-{{end}}` -/

def rT0 : Bytes := [60, 98, 62]          -- `<b>`
def rT1 : Bytes := [60, 47, 98, 62]      -- `</b>`
def rT2 : Bytes := [45]                  -- `-`
def rCb : Ctx := { state := .text, elemName := [98] }

def rBody : RPs := .cons (.text rT0) (.cons .action (.cons (.text rT1) .nil))
def rElse : RPs := .cons (.text rT2) .nil
def exLoop : RPs := .cons (.range rBody rElse) .nil

def rBodyOut : ERs := .cons (.text rT0) (.cons (.action ["_sanitizeHTML"]) (.cons (.text rT1) .nil))
def exLoopOut : ERs := .cons (.range rBodyOut (.cons (.text rT2) .nil)) .nil

theorem r_scan0 : scan {} rT0 = some (rCb, rT0) := by decide +kernel
theorem r_act : actionStep v0 rCb = some (rCb, ["_sanitizeHTML"]) := by decide +kernel
theorem r_scan1 : scan rCb rT1 = some ({}, rT1) := by decide +kernel
theorem r_scan2 : scan {} rT2 = some ({}, rT2) := by decide +kernel
theorem r_join : join (join {} {}) {} = ({} : Ctx) := by decide +kernel
theorem r_cond : ((({} : Ctx).eq {}) && (join {} {}).eq ({} : Ctx)) = true := by decide +kernel
theorem r_errb : (rCb.state == State.error) = false := by decide
theorem r_err0 : ((({} : Ctx)).state == State.error) = false := by decide

theorem r_p0 : analyseRP v0 {} (.text rT0) = some (rCb, .text rT0) := by
  simp only [analyseRP, r_scan0, r_errb, Bool.false_eq_true, if_false]
theorem r_p1 : analyseRP v0 rCb .action = some (rCb, .action ["_sanitizeHTML"]) := by
  simp only [analyseRP, r_act]
theorem r_p2 : analyseRP v0 rCb (.text rT1) = some ({}, .text rT1) := by
  simp only [analyseRP, r_scan1]; rfl
theorem r_p3 : analyseRP v0 {} (.text rT2) = some ({}, .text rT2) := by
  simp only [analyseRP, r_scan2]; rfl

theorem r_body : analyseRL v0 {} rBody = some ({}, rBodyOut) := by
  simp only [rBody, analyseRL, r_p0, r_p1, r_p2, rBodyOut]
theorem r_else : analyseRL v0 {} rElse = some ({}, .cons (.text rT2) .nil) := by
  simp only [rElse, analyseRL, r_p3]

theorem r_range : analyseRP v0 {} (.range rBody rElse) = some ({}, .range rBodyOut (.cons (.text rT2) .nil)) := by
  rw [analyseRP, r_body]
  simp only [r_body, r_else, r_cond, if_true, r_join]

theorem r_analyse : analyseRL v0 {} exLoop = some ({}, exLoopOut) := by
  simp only [exLoop, analyseRL, r_range, exLoopOut]

theorem r_simple_body : SimpleRL v0 {} rBody := by
  simp only [rBody, SimpleRL, SimpleRP, r_p0, r_p1, r_p2]
  refine ⟨⟨false, rT0, .text, ?_, fun h => absurd h (by decide), fun h => by simp at h⟩, (fun h => by cases h),
    ⟨false, rT1, .text, ?_, fun h => absurd h (by decide), fun h => by simp at h⟩, trivial⟩
  · exact Simple.openTag [] [] 98 [] [62] [62] (by decide) (by decide) (by decide) (by decide) (by decide)
      (Simple.tagEnd _ [] [] [] [] (by decide) (fun h => absurd h (by decide)) (Simple.nil _ _ _))
  · exact Simple.closeTag _ [] 98 [] [62] [62] (by decide) (by decide) (by decide)
      (Simple.tagEnd _ [] [] [] [] (by decide) (fun h => absurd h (by decide)) (Simple.nil _ _ _))

theorem r_simple : SimpleRL v0 {} exLoop := by
  simp only [exLoop, SimpleRL, SimpleRP, r_range, r_body]
  refine ⟨⟨r_simple_body, ?_, r_simple_body, {}, rfl⟩, trivial⟩
  simp only [rElse, SimpleRL, SimpleRP, r_p3]
  exact ⟨⟨false, rT2, .text, Simple.text _ rT2 (by decide) (by decide), fun h => absurd h (by decide),
    fun h => by simp at h⟩, trivial⟩

/-- two renderings with three iterations each have the same skeleton, whatever the untrusted items -/
theorem r_C01 (x1 x2 x3 y1 y2 y3 : Value) (hx : ∀ z ∈ [x1, x2, x3], Untrusted z) (hy : ∀ z ∈ [y1, y2, y3], Untrusted z)
    (o1 o2 : Bytes) (p1 p2 : List Nat) (r1 r2 : List Value)
    (h1 : execRL exLoopOut [3] [x1, x2, x3] = some (o1, p1, r1))
    (h2 : execRL exLoopOut [3] [y1, y2, y3] = some (o2, p2, r2)) :
    skeleton (HtmlTok.tokenize o1).tokens = skeleton (HtmlTok.tokenize o2).tokens ∧
    (HtmlTok.tokenize o1).final = .data ∧ (HtmlTok.tokenize o2).final = .data := by
  have := C01_loops v0 exLoop _ exLoopOut [3] p1 p2 _ r1 _ r2 o1 o2 r_simple r_analyse hx hy h1 h2
  exact ⟨this.1, this.2.2 rfl⟩

example : (execRL exLoopOut [3] [.str [60], .str [97], .str [38]]).isSome = true := by decide +kernel

/-! ### refinement of (2): the model's `escapeList` on `{{if}}`, `{{with}}` and `{{range}}` nodes -/
mutual
/-- number of parse-tree nodes (= node ids) of a piece -/
def cntRP : RP → Nat
  | .text _ => 1
  | .action => 1
  | .ifElse t e => 1 + cntRL t + cntRL e
  | .range t e => 1 + cntRL t + cntRL e
def cntRL : RPs → Nat
  | .nil => 0
  | .cons p ps => cntRP p + cntRL ps
end

mutual
/-- the parse tree of a template with branches; every branch is `{{if cond}}` (`isWith = false`) or
    `{{with cond}}` (`isWith = true`): the analysis ignores the pipeline and treats both alike -/
def nodeRP (cond : Pipe) (isWith : Bool) : Nat → RP → Node
  | i, .text s => .text i s
  | i, .action => .action i dotPipe
  | i, .ifElse t e =>
    if isWith then .withN i cond (nodesRL cond isWith (i + 1) t) (nodesRL cond isWith (i + 1 + cntRL t) e)
    else .ifN i cond (nodesRL cond isWith (i + 1) t) (nodesRL cond isWith (i + 1 + cntRL t) e)
  | i, .range t e => .rangeN i cond (nodesRL cond isWith (i + 1) t) (nodesRL cond isWith (i + 1 + cntRL t) e)
def nodesRL (cond : Pipe) (isWith : Bool) : Nat → RPs → NodeList
  | _, .nil => .nil
  | i, .cons p ps => .cons (nodeRP cond isWith i p) (nodesRL cond isWith (i + cntRP p) ps)
end

mutual
/-- the edits the analysis records -/
def editsRP (v : Validators) (tn : String) : Nat → Ctx → RP → Esc → Esc
  | i, c, .text s, e => { e with textEdits := addText tn i c s e.textEdits }
  | i, c, .action, e =>
    match actionStep v c with
    | some (_, ch) => { e with actionEdits := e.actionEdits ++ [((tn, i), ch)] }
    | none => e
  | i, c, .ifElse t el, e => editsRL v tn (i + 1 + cntRL t) c el (editsRL v tn (i + 1) c t e)
  | i, c, .range t el, e => editsRL v tn (i + 1 + cntRL t) c el (editsRL v tn (i + 1) c t e)
def editsRL (v : Validators) (tn : String) : Nat → Ctx → RPs → Esc → Esc
  | _, _, .nil, e => e
  | i, c, .cons p ps, e =>
    match analyseRP v c p with
    | some (c', _) => editsRL v tn (i + cntRP p) c' ps (editsRP v tn i c p e)
    | none => e
end

mutual
/-- fuel the model needs -/
def fuelRP : RP → Nat
  | .text _ => 1
  | .action => 1
  | .ifElse t e => max (fuelRL t) (fuelRL e) + 2
  | .range t e => max (fuelRL t) (fuelRL e) + 2
def fuelRL : RPs → Nat
  | .nil => 1
  | .cons p ps => max (fuelRP p) (fuelRL ps) + 1
end

mutual
theorem FreshRP (v : Validators) (tn : String) : ∀ (p : RP) (i : Nat) (c : Ctx) (e : Esc), Fresh tn i e →
    Fresh tn (i + cntRP p) (editsRP v tn i c p e)
  | .text s, i, c, e, h => by simpa [editsRP, cntRP] using Fresh_addText tn i c s e h
  | .action, i, c, e, h => by
    simp only [editsRP, cntRP]
    split
    · exact Fresh_addAction tn i _ e h
    · exact Fresh_mono h (by omega)
  | .ifElse t el, i, c, e, h => by
    simp only [editsRP, cntRP]
    have h1 := FreshRL v tn t (i + 1) c e (Fresh_mono h (by omega))
    have h2 := FreshRL v tn el (i + 1 + cntRL t) c _ h1
    exact Fresh_mono h2 (by omega)
  | .range t el, i, c, e, h => by
    simp only [editsRP, cntRP]
    have h1 := FreshRL v tn t (i + 1) c e (Fresh_mono h (by omega))
    have h2 := FreshRL v tn el (i + 1 + cntRL t) c _ h1
    exact Fresh_mono h2 (by omega)
theorem FreshRL (v : Validators) (tn : String) : ∀ (ps : RPs) (i : Nat) (c : Ctx) (e : Esc), Fresh tn i e →
    Fresh tn (i + cntRL ps) (editsRL v tn i c ps e)
  | .nil, i, c, e, h => by simpa [editsRL, cntRL] using h
  | .cons p ps, i, c, e, h => by
    simp only [editsRL, cntRL]
    split
    · next c' _ _ =>
      have h1 := FreshRP v tn p i c e h
      have h2 := FreshRL v tn ps (i + cntRP p) c' _ h1
      exact Fresh_mono h2 (by omega)
    · exact Fresh_mono h (by omega)
end



theorem actionStep_noerr (v : Validators) (c c' : Ctx) (ch : List String) (h : actionStep v c = some (c', ch)) :
    c'.state ≠ .error := by
  unfold actionStep at h
  simp only [] at h
  split at h
  · cases h
  · next hne =>
    split at h
    · cases h
    · simp only [Option.some.injEq, Prod.mk.injEq] at h
      obtain ⟨rfl, _⟩ := h
      split
      · simp
      · simpa using hne

mutual
/-- the analysis never ends in the error context -/
theorem noerrP (v : Validators) : ∀ (p : RP) (c c' : Ctx) (ep : ER), analyseRP v c p = some (c', ep) →
    c.state ≠ .error → c'.state ≠ .error
  | .text s, c, c', ep, h, _ => by
    simp only [analyseRP] at h
    split at h
    · cases h
    · split at h
      · cases h
      · next hne => simp only [Option.some.injEq, Prod.mk.injEq] at h; obtain ⟨rfl, _⟩ := h; simpa using hne
  | .action, c, c', ep, h, _ => by
    simp only [analyseRP] at h
    split at h
    · cases h
    · next c1 ch hact =>
      simp only [Option.some.injEq, Prod.mk.injEq] at h
      obtain ⟨rfl, _⟩ := h
      exact actionStep_noerr v c c1 ch hact
  | .ifElse t e, c, c', ep, h, hc => by
    simp only [analyseRP] at h
    split at h
    · next ct et ce ee ht he =>
      split at h
      · next heq =>
        simp only [Option.some.injEq, Prod.mk.injEq] at h
        obtain ⟨rfl, _⟩ := h
        have h1 := noerrL v t c ct et ht hc
        have h2 : ce.state ≠ .error := by rw [(ctx_eq_fields ct ce heq).1]; exact h1
        rw [(join_eq ct ce h1 h2 heq).1]; exact h1
      · cases h
    · cases h
  | .range t e, c, c', ep, h, hc => by
    simp only [analyseRP] at h
    split at h
    · cases h
    · next c0 et ht =>
      split at h
      · next c1 et' ce ee ht2 he =>
        split at h
        · next hcond =>
          simp only [Bool.and_eq_true] at hcond
          simp only [Option.some.injEq, Prod.mk.injEq] at h
          obtain ⟨rfl, _⟩ := h
          have h0 := noerrL v t c c0 et ht hc
          have h1 : c1.state ≠ .error := by rw [(ctx_eq_fields c0 c1 hcond.1).1]; exact h0
          have hj := join_eq c0 c1 h0 h1 hcond.1
          have hje : (join c0 c1).state ≠ .error := by rw [hj.1]; exact h0
          have h2 : ce.state ≠ .error := by rw [(ctx_eq_fields _ ce hcond.2).1]; exact hje
          rw [(join_eq _ ce hje h2 hcond.2).1]; exact hje
        · cases h
      · cases h
theorem noerrL (v : Validators) : ∀ (ps : RPs) (c cf : Ctx) (es : ERs), analyseRL v c ps = some (cf, es) →
    c.state ≠ .error → cf.state ≠ .error
  | .nil, c, cf, es, h, hc => by
    simp only [analyseRL, Option.some.injEq, Prod.mk.injEq] at h
    obtain ⟨rfl, _⟩ := h; exact hc
  | .cons p ps, c, cf, es, h, hc => by
    simp only [analyseRL] at h
    split at h
    · cases h
    · next c1 ep hp =>
      split at h
      · cases h
      · next cf' es' hrec =>
        simp only [Option.some.injEq, Prod.mk.injEq] at h
        obtain ⟨rfl, _⟩ := h
        exact noerrL v ps c1 cf' es' hrec (noerrP v p c c1 ep hp hc)
end

mutual
theorem refRP (env : Env) (hcsp : env.csp = false) (tn : String) (cond : Pipe) (isWith : Bool) :
    ∀ (p : RP) (i : Nat) (c c' : Ctx) (e : Esc) (ep : ER) (f : Nat),
      analyseRP env.v c p = some (c', ep) → Fresh tn i e → fuelRP p ≤ f → c.state ≠ .error →
      escapeNode env f tn e c (nodeRP cond isWith i p) = .ok (editsRP env.v tn i c p e, c')
  | .text s, i, c, c', e, ep, f, ha, hfr, hf, hcne => by
    obtain ⟨f', rfl⟩ : ∃ f', f = f' + 1 := ⟨f - 1, by simp [fuelRP] at hf; omega⟩
    simp only [analyseRP] at ha
    cases hsc : scan c s with
    | none => simp [hsc] at ha
    | some r =>
      obtain ⟨c1, out⟩ := r
      simp only [hsc] at ha
      split at ha
      · cases ha
      · simp only [Option.some.injEq, Prod.mk.injEq] at ha
        obtain ⟨rfl, _⟩ := ha
        simp only [nodeRP, escapeNode, editsRP]
        exact escapeTextNode_scan env hcsp tn e c c1 i s out hsc (hfr i (Nat.le_refl _)).2
  | .action, i, c, c', e, ep, f, ha, hfr, hf, hcne => by
    obtain ⟨f', rfl⟩ : ∃ f', f = f' + 1 := ⟨f - 1, by simp [fuelRP] at hf; omega⟩
    simp only [analyseRP] at ha
    cases hact : actionStep env.v c with
    | none => simp [hact] at ha
    | some r =>
      obtain ⟨c1, ch⟩ := r
      simp only [hact, Option.some.injEq, Prod.mk.injEq] at ha
      obtain ⟨rfl, _⟩ := ha
      simp only [nodeRP, escapeNode, editsRP, hact]
      exact escapeAction_arg env tn e c c1 ch i .dot actArg_dot hact (hfr i (Nat.le_refl _)).1
  | .ifElse t el, i, c, c', e, ep, f, ha, hfr, hf, hcne => by
    obtain ⟨f', rfl⟩ : ∃ f', f = f' + 2 := ⟨f - 2, by simp [fuelRP] at hf; omega⟩
    simp only [fuelRP] at hf
    simp only [analyseRP] at ha
    cases ht : analyseRL env.v c t with
    | none => simp [ht] at ha
    | some rt =>
    cases he : analyseRL env.v c el with
    | none => simp [ht, he] at ha
    | some re =>
    obtain ⟨ct, et⟩ := rt
    obtain ⟨ce, ee⟩ := re
    simp only [ht, he] at ha
    split at ha
    · simp only [Option.some.injEq, Prod.mk.injEq] at ha
      obtain ⟨rfl, _⟩ := ha
      have h1 := refRL env hcsp tn cond isWith t (i + 1) c ct e et f' ht (Fresh_mono hfr (by omega)) (by omega) hcne
      have h2 := refRL env hcsp tn cond isWith el (i + 1 + cntRL t) c ce _ ee f' he
        (FreshRL env.v tn t (i + 1) c e (Fresh_mono hfr (by omega))) (by omega) hcne
      have hb := escapeBranch_if env f' tn e _ _ c ct ce _ _ h1 h2
      cases isWith <;> simp only [nodeRP, escapeNode, editsRP, Bool.false_eq_true, if_false, if_true] <;> exact hb
    · cases ha
  | .range t el, i, c, c', e, ep, f, ha, hfr, hf, hcne => by
    obtain ⟨f', rfl⟩ : ∃ f', f = f' + 2 := ⟨f - 2, by simp [fuelRP] at hf; omega⟩
    simp only [fuelRP] at hf
    simp only [analyseRP] at ha
    cases ht : analyseRL env.v c t with
    | none => simp [ht] at ha
    | some rt =>
    obtain ⟨c0, et⟩ := rt
    simp only [ht] at ha
    cases ht2 : analyseRL env.v c0 t with
    | none => simp [ht2] at ha
    | some rt2 =>
    cases he : analyseRL env.v c el with
    | none => simp [ht2, he] at ha
    | some re =>
    obtain ⟨c1, et'⟩ := rt2
    obtain ⟨ce, ee⟩ := re
    simp only [ht2, he] at ha
    split at ha
    · next hcond =>
      simp only [Bool.and_eq_true] at hcond
      obtain ⟨heq1, heq2⟩ := hcond
      simp only [Option.some.injEq, Prod.mk.injEq] at ha
      obtain ⟨rfl, _⟩ := ha
      have hc0 : c0.state ≠ .error := noerrL env.v t c c0 et ht hcne
      have hc1 : c1.state ≠ .error := by rw [(ctx_eq_fields c0 c1 heq1).1]; exact hc0
      have hj := join_eq c0 c1 hc0 hc1 heq1
      have h1 := refRL env hcsp tn cond isWith t (i + 1) c c0 e et f' ht (Fresh_mono hfr (by omega)) (by omega) hcne
      have hs := refRL env hcsp tn cond isWith t (i + 1) c0 c1
        { output := (editsRL env.v tn (i + 1) c t e).output, pristine := (editsRL env.v tn (i + 1) c t e).pristine,
          memoPrefix := (editsRL env.v tn (i + 1) c t e).memoPrefix } et' f' ht2 (fun k _ => ⟨rfl, rfl⟩) (by omega) hc0
      have h2 := refRL env hcsp tn cond isWith el (i + 1 + cntRL t) c ce _ ee f' he
        (FreshRL env.v tn t (i + 1) c e (Fresh_mono hfr (by omega))) (by omega) hcne
      have hc0' : (c0.state != State.error) = true := by simpa using hc0
      have hje : ((join c0 c1).state == State.error) = false := by rw [hj.1]; simpa using hc0
      simp only [nodeRP, escapeNode, editsRP, escapeBranch, h1, hs, h2, bind, Out.bind, pure, hc0', Bool.true_and,
        if_true, hje, Bool.false_eq_true, if_false]
    · cases ha
theorem refRL (env : Env) (hcsp : env.csp = false) (tn : String) (cond : Pipe) (isWith : Bool) :
    ∀ (ps : RPs) (i : Nat) (c cf : Ctx) (e : Esc) (es : ERs) (f : Nat),
      analyseRL env.v c ps = some (cf, es) → Fresh tn i e → fuelRL ps ≤ f → c.state ≠ .error →
      escapeList env f tn e c (nodesRL cond isWith i ps) = .ok (editsRL env.v tn i c ps e, cf)
  | .nil, i, c, cf, e, es, f, ha, _, hf, _ => by
    obtain ⟨f', rfl⟩ : ∃ f', f = f' + 1 := ⟨f - 1, by simp [fuelRL] at hf; omega⟩
    simp only [analyseRL, Option.some.injEq, Prod.mk.injEq] at ha
    simp [nodesRL, escapeList, editsRL, ha.1]
  | .cons p ps, i, c, cf, e, es, f, ha, hfr, hf, hcne => by
    obtain ⟨f', rfl⟩ : ∃ f', f = f' + 1 := ⟨f - 1, by simp [fuelRL] at hf; omega⟩
    simp only [fuelRL] at hf
    simp only [analyseRL] at ha
    cases hp : analyseRP env.v c p with
    | none => simp [hp] at ha
    | some r =>
      obtain ⟨c1, ep⟩ := r
      simp only [hp] at ha
      cases hrec : analyseRL env.v c1 ps with
      | none => simp [hrec] at ha
      | some r2 =>
        obtain ⟨cf', es'⟩ := r2
        simp only [hrec, Option.some.injEq, Prod.mk.injEq] at ha
        obtain ⟨rfl, _⟩ := ha
        have h1 := refRP env hcsp tn cond isWith p i c c1 e ep f' hp hfr (by omega) hcne
        have h2 := refRL env hcsp tn cond isWith ps (i + cntRP p) c1 cf' _ es' f' hrec (FreshRP env.v tn p i c e hfr)
          (by omega) (noerrP env.v p c c1 ep hp hcne)
        simp only [nodesRL, escapeList, h1, bind, Out.bind, editsRL, hp]
        exact h2
end



/-- `C01_loops` together with the model's analysis of the parse tree (`{{range}}` nodes with the re-entry check on
    a scratch escaper, `{{if}}` / `{{with}}` nodes) -/
theorem C01_loops_model (env : Env) (hcsp : env.csp = false) (tn : String) (cond : Pipe) (isWith : Bool)
    (ps : RPs) (cf : Ctx) (es : ERs) (path p1 p2 : List Nat) (vs vs' ws ws' : List Value) (o1 o2 : Bytes)
    (hs : SimpleRL env.v {} ps) (ha : analyseRL env.v {} ps = some (cf, es))
    (hu : ∀ x ∈ vs, Untrusted x) (hw : ∀ x ∈ ws, Untrusted x)
    (h1 : execRL es path vs = some (o1, p1, vs')) (h2 : execRL es path ws = some (o2, p2, ws')) :
    escapeList env (fuelRL ps) tn {} {} (nodesRL cond isWith 0 ps) = .ok (editsRL env.v tn 0 {} ps {}, cf) ∧
    skeleton (HtmlTok.tokenize o1).tokens = skeleton (HtmlTok.tokenize o2).tokens ∧
    (HtmlTok.tokenize o1).final = (HtmlTok.tokenize o2).final ∧
    (cf.state = .text → (HtmlTok.tokenize o1).final = .data ∧ (HtmlTok.tokenize o2).final = .data) :=
  ⟨refRL env hcsp tn cond isWith ps 0 {} cf {} es _ ha (fun k _ => ⟨rfl, rfl⟩) (Nat.le_refl _) (by decide),
   C01_loops env.v ps cf es path p1 p2 vs vs' ws ws' o1 o2 hs ha hu hw h1 h2⟩

end SafeHtml.Proofs.Layer3Calls
