/- Small tactic macros shared by the proof files. -/
import SafeHtml.Rx.Thm
namespace SafeHtml

/-- closes `inCls <ranges> b = <boolean recogniser> b`-style goals after unfolding -/
macro "cls_arith" : tactic =>
  `(tactic| (rw [Bool.eq_iff_iff]; simp; try omega))

end SafeHtml
