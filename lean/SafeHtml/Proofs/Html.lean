/-
Lemmas for C10: decode ∘ encode round trip, html.EscapeString on encoded runes, the escaper lands in
`Spec.Esc` and is inverted by `Spec.unescape5`, the regenerated range tables equal the spec's bad set.
-/
import SafeHtml.Model.Html
import SafeHtml.Spec.Esc
import SafeHtml.Spec.Interchange
import SafeHtml.Proofs.Utf8More
import SafeHtml.Proofs.RangeCover
namespace SafeHtml.HtmlFacts
open SafeHtml SafeHtml.Utf8 SafeHtml.Model SafeHtml.Spec

/-! ### UTF-8 round trip -/

theorem decodeSyms_encodeRune (r : Nat) (hs : isScalar r = true) (rest : Bytes) :
    decodeSyms (encodeRune r ++ rest) = ⟨r, encodeRune r⟩ :: decodeSyms rest := by
  simp only [isScalar, Bool.and_eq_true, decide_eq_true_eq, Bool.not_eq_true', Bool.and_eq_false_iff, decide_eq_false_iff_not] at hs
  unfold encodeRune
  by_cases h1 : r < 0x80
  · simp only [h1, if_true]
    exact decodeSyms_cons_ascii r rest (by omega)
  by_cases h2 : r < 0x800
  · simp only [h1, h2, if_true, if_false, List.cons_append, List.nil_append]
    rw [decodeSyms_cons]
    have : decode1 (0xC0 + r / 64) ((0x80 + r % 64) :: rest) = (r, 2) := by
      unfold decode1
      have a1 : ¬ (0xC0 + r / 64 < 128) := by omega
      have a2 : ¬ (0xC0 + r / 64 < 0xC2) := by omega
      have a3 : 0xC0 + r / 64 ≤ 0xDF := by omega
      have a4 : isCont (0x80 + r % 64) = true := by simp [isCont]; omega
      simp only [a1, a2, a3, a4, if_true, if_false]
      congr 1; omega
    rw [this]; rfl
  have h3 : ((0xD800 ≤ r && r ≤ 0xDFFF) || decide (r > 0x10FFFF)) = false := by
    simp only [Bool.or_eq_false_iff, Bool.and_eq_false_iff, decide_eq_false_iff_not]; omega
  by_cases h4 : r < 0x10000
  · simp only [h1, h2, h3, h4, if_true, if_false, List.cons_append, List.nil_append, Bool.false_eq_true]
    rw [decodeSyms_cons]
    have : decode1 (0xE0 + r / 4096) ((0x80 + (r / 64) % 64) :: (0x80 + r % 64) :: rest) = (r, 3) := by
      unfold decode1
      have a1 : ¬ (0xE0 + r / 4096 < 128) := by omega
      have a2 : ¬ (0xE0 + r / 4096 < 0xC2) := by omega
      have a3 : ¬ (0xE0 + r / 4096 ≤ 0xDF) := by omega
      have a3' : 0xE0 + r / 4096 ≤ 0xEF := by omega
      have a4 : isCont (0x80 + r % 64) = true := by simp [isCont]; omega
      simp only [a1, a2, a3, a3', a4, if_true, if_false]
      have a5 : (decide ((if 0xE0 + r / 4096 = 0xE0 then 0xA0 else 0x80) ≤ 0x80 + (r / 64) % 64) &&
          decide (0x80 + (r / 64) % 64 ≤ (if 0xE0 + r / 4096 = 0xED then 0x9F else 0xBF)) && true) = true := by
        simp only [Bool.and_true, Bool.and_eq_true, decide_eq_true_eq]
        constructor
        · split <;> omega
        · split <;> omega
      simp only [a5, if_true]
      congr 1; omega
    rw [this]; rfl
  · simp only [h1, h2, h3, h4, if_false, List.cons_append, List.nil_append, Bool.false_eq_true]
    rw [decodeSyms_cons]
    have : decode1 (0xF0 + r / 262144) ((0x80 + (r / 4096) % 64) :: (0x80 + (r / 64) % 64) :: (0x80 + r % 64) :: rest) = (r, 4) := by
      unfold decode1
      have a1 : ¬ (0xF0 + r / 262144 < 128) := by omega
      have a2 : ¬ (0xF0 + r / 262144 < 0xC2) := by omega
      have a3 : ¬ (0xF0 + r / 262144 ≤ 0xDF) := by omega
      have a3' : ¬ (0xF0 + r / 262144 ≤ 0xEF) := by omega
      have a3'' : 0xF0 + r / 262144 ≤ 0xF4 := by omega
      have a4 : isCont (0x80 + r % 64) = true := by simp [isCont]; omega
      have a4' : isCont (0x80 + (r / 64) % 64) = true := by simp [isCont]; omega
      simp only [a1, a2, a3, a3', a3'', a4, a4', if_true, if_false]
      have a5 : (decide ((if 0xF0 + r / 262144 = 0xF0 then 0x90 else 0x80) ≤ 0x80 + (r / 4096) % 64) &&
          decide (0x80 + (r / 4096) % 64 ≤ (if 0xF0 + r / 262144 = 0xF4 then 0x8F else 0xBF)) && true && true) = true := by
        simp only [Bool.and_true, Bool.and_eq_true, decide_eq_true_eq]
        constructor
        · split <;> omega
        · split <;> omega
      simp only [a5, if_true]
      congr 1; omega
    rw [this]; rfl

theorem decodeSyms_encodeRunes (rs : List Nat) (h : ∀ r ∈ rs, isScalar r = true) :
    decodeSyms (encodeRunes rs) = rs.map fun r => ⟨r, encodeRune r⟩ := by
  induction rs with
  | nil => simp [encodeRunes, decodeSyms_nil]
  | cons r t ih =>
    have := decodeSyms_encodeRune r (h r (by simp)) (encodeRunes t)
    simp only [encodeRunes, List.flatMap_cons, List.map_cons] at this ih ⊢
    rw [this, ih (fun x hx => h x (by simp [hx]))]

theorem decodeRunes_encodeRunes (rs : List Nat) (h : ∀ r ∈ rs, isScalar r = true) :
    decodeRunes (encodeRunes rs) = rs := by
  unfold decodeRunes
  rw [decodeSyms_encodeRunes rs h, List.map_map]
  clear h
  induction rs with
  | nil => rfl
  | cons r t ih => simp only [List.map_cons, Function.comp]; rw [← ih]; simp [Function.comp_def]

theorem decode1_scalar (b : Nat) (t : Bytes) : isScalar (decode1 b t).1 = true := by
  have hle := decode1_le b t
  simp only [isScalar, Bool.and_eq_true, decide_eq_true_eq, Bool.not_eq_true', Bool.and_eq_false_iff, decide_eq_false_iff_not]
  refine ⟨hle, ?_⟩
  clear hle
  unfold decode1
  repeat' split
  all_goals (simp only [runeError])
  all_goals (try omega)
  all_goals (simp_all [isCont]; try omega)
  all_goals (split <;> simp <;> omega)

theorem decodeRunes_scalar (s : Bytes) : ∀ r ∈ decodeRunes s, isScalar r = true := by
  induction s using decode_induction with
  | hnil => simp [decodeRunes, decodeSyms_nil]
  | hcons b t ih =>
    unfold decodeRunes at ih ⊢
    rw [decodeSyms_cons]
    intro r hr
    simp only [List.map_cons, List.mem_cons] at hr
    rcases hr with rfl | hr
    · exact decode1_scalar b t
    · exact ih r hr

theorem validUtf8_encodeRunes (rs : List Nat) (h : ∀ r ∈ rs, isScalar r = true) :
    validUtf8 (encodeRunes rs) = true := by
  unfold validUtf8
  rw [decodeSyms_encodeRunes rs h, List.all_map, List.all_eq_true]
  intro r _
  simp only [Function.comp, Bool.not_eq_true', Bool.and_eq_false_iff, beq_eq_false_iff_ne]
  by_cases hr : r = 0xFFFD
  · right; subst hr; decide
  · left; exact hr

/-! ### html.EscapeString -/

/-- the escaper on code points -/
def escRune (r : Nat) : List Nat :=
  if r = 38 then [38, 97, 109, 112, 59]
  else if r = 39 then [38, 35, 51, 57, 59]
  else if r = 60 then [38, 108, 116, 59]
  else if r = 62 then [38, 103, 116, 59]
  else if r = 34 then [38, 35, 51, 52, 59]
  else [r]

theorem escapeByte_nonascii (b : Nat) (h : 128 ≤ b) : escapeByte b = [b] := by
  unfold escapeByte
  have h1 : ¬ b = 38 := by omega
  have h2 : ¬ b = 39 := by omega
  have h3 : ¬ b = 60 := by omega
  have h4 : ¬ b = 62 := by omega
  have h5 : ¬ b = 34 := by omega
  simp [h1, h2, h3, h4, h5]

theorem flatMap_escapeByte_nonascii (l : Bytes) (h : ∀ b ∈ l, 128 ≤ b) : l.flatMap escapeByte = l := by
  induction l with
  | nil => rfl
  | cons b t ih =>
    simp only [List.flatMap_cons, escapeByte_nonascii b (h b (by simp)), ih (fun x hx => h x (by simp [hx]))]
    rfl

theorem escape_encodeRune (r : Nat) : (encodeRune r).flatMap escapeByte = encodeRunes (escRune r) := by
  by_cases hr : r < 128
  · rw [encodeRune_ascii r hr]
    simp only [List.flatMap_cons, List.flatMap_nil, List.append_nil]
    unfold escapeByte escRune
    by_cases h1 : r = 38
    · subst h1; decide
    by_cases h2 : r = 39
    · subst h2; decide
    by_cases h3 : r = 60
    · subst h3; decide
    by_cases h4 : r = 62
    · subst h4; decide
    by_cases h5 : r = 34
    · subst h5; decide
    simp [h1, h2, h3, h4, h5, encodeRunes, encodeRune_ascii r hr]
  · rw [flatMap_escapeByte_nonascii _ (encodeRune_nonascii r (by omega))]
    have h1 : ¬ r = 38 := by omega
    have h2 : ¬ r = 39 := by omega
    have h3 : ¬ r = 60 := by omega
    have h4 : ¬ r = 62 := by omega
    have h5 : ¬ r = 34 := by omega
    simp [escRune, h1, h2, h3, h4, h5, encodeRunes]

theorem htmlEscapeString_encodeRunes (rs : List Nat) :
    htmlEscapeString (encodeRunes rs) = encodeRunes (rs.flatMap escRune) := by
  unfold htmlEscapeString
  induction rs with
  | nil => rfl
  | cons r t ih =>
    simp only [encodeRunes, List.flatMap_cons, List.flatMap_append] at ih ⊢
    rw [ih, escape_encodeRune]; rfl

/-! ### `Esc` and `unescape5` -/

theorem Esc_escapeByte (b : Nat) (rest : Bytes) (hb : b ≠ 0) : Esc (escapeByte b ++ rest) = Esc rest := by
  unfold escapeByte
  by_cases h1 : b = 38
  · subst h1; simp [Esc, isSpecial, refAt, fiveRefs, List.find?, List.isPrefixOf]
  by_cases h2 : b = 39
  · subst h2; simp [Esc, isSpecial, refAt, fiveRefs, List.find?, List.isPrefixOf]
  by_cases h3 : b = 60
  · subst h3; simp [Esc, isSpecial, refAt, fiveRefs, List.find?, List.isPrefixOf]
  by_cases h4 : b = 62
  · subst h4; simp [Esc, isSpecial, refAt, fiveRefs, List.find?, List.isPrefixOf]
  by_cases h5 : b = 34
  · subst h5; simp [Esc, isSpecial, refAt, fiveRefs, List.find?, List.isPrefixOf]
  simp [h1, h2, h3, h4, h5, Esc, isSpecial, hb]

theorem Esc_htmlEscapeString (w : Bytes) (h0 : 0 ∉ w) : Esc (htmlEscapeString w) = true := by
  unfold htmlEscapeString
  induction w with
  | nil => rfl
  | cons b t ih =>
    simp only [List.flatMap_cons]
    rw [Esc_escapeByte b _ (by intro h; exact h0 (by simp [h]))]
    exact ih (fun hm => h0 (by simp [hm]))

theorem unescape5Go_escapeByte (b : Nat) (rest : Bytes) :
    unescape5Go 0 (escapeByte b ++ rest) = b :: unescape5Go 0 rest := by
  unfold escapeByte
  by_cases h1 : b = 38
  · subst h1; simp [unescape5Go, refAt, fiveRefs, List.find?, List.isPrefixOf]
  by_cases h2 : b = 39
  · subst h2; simp [unescape5Go, refAt, fiveRefs, List.find?, List.isPrefixOf]
  by_cases h3 : b = 60
  · subst h3; simp [unescape5Go, refAt, fiveRefs, List.find?, List.isPrefixOf]
  by_cases h4 : b = 62
  · subst h4; simp [unescape5Go, refAt, fiveRefs, List.find?, List.isPrefixOf]
  by_cases h5 : b = 34
  · subst h5; simp [unescape5Go, refAt, fiveRefs, List.find?, List.isPrefixOf]
  simp [h1, h2, h3, h4, h5, unescape5Go]

theorem unescape5_htmlEscapeString (w : Bytes) : unescape5 (htmlEscapeString w) = w := by
  unfold unescape5 htmlEscapeString
  induction w with
  | nil => rfl
  | cons b t ih =>
    simp only [List.flatMap_cons]
    rw [unescape5Go_escapeByte, ih]

theorem refAt_append (t u : Bytes) (h : (refAt t).isSome = true) : (refAt (t ++ u)).isSome = true := by
  unfold refAt at h ⊢
  cases hf : fiveRefs.find? (fun r => r.1.isPrefixOf t) with
  | none => rw [hf] at h; simp at h
  | some r =>
    have hp := List.find?_some hf
    have hm := List.mem_of_find?_eq_some hf
    have hp' : r.1.isPrefixOf (t ++ u) = true := by
      rw [List.isPrefixOf_iff_prefix] at hp ⊢
      exact List.IsPrefix.trans hp (List.prefix_append t u)
    cases hf2 : fiveRefs.find? (fun r => r.1.isPrefixOf (t ++ u)) with
    | none =>
      have := List.find?_eq_none.1 hf2 r hm
      simp [hp'] at this
    | some r2 => simp

/-- `Esc` is closed under concatenation (HTMLConcat keeps inert text inert) -/
theorem Esc_append (a b : Bytes) (ha : Esc a = true) (hb : Esc b = true) : Esc (a ++ b) = true := by
  induction a with
  | nil => simpa using hb
  | cons c t ih =>
    simp only [Esc, Bool.and_eq_true] at ha
    simp only [List.cons_append, Esc, Bool.and_eq_true]
    refine ⟨?_, ih ha.2⟩
    by_cases hc : (c == 38) = true
    · simp only [hc, if_true] at ha ⊢
      exact refAt_append t b ha.1
    · simp only [hc] at ha ⊢
      exact ha.1

theorem Esc_flatten (hs : List Bytes) (h : ∀ x ∈ hs, Esc x = true) : Esc hs.flatten = true := by
  induction hs with
  | nil => rfl
  | cons x t ih =>
    simp only [List.flatten_cons]
    exact Esc_append _ _ (h x (by simp)) (ih (fun y hy => h y (by simp [hy])))

/-- what membership in `Esc` says about single bytes -/
theorem Esc_mem (o : Bytes) (h : Esc o = true) : ∀ b ∈ o, b ≠ 60 ∧ b ≠ 62 ∧ b ≠ 34 ∧ b ≠ 39 ∧ b ≠ 0 := by
  induction o with
  | nil => simp
  | cons c t ih =>
    simp only [Esc, Bool.and_eq_true] at h
    intro b hb
    rcases List.mem_cons.1 hb with rfl | hb
    · by_cases hc : (b == 38) = true
      · have : b = 38 := by simpa using hc
        subst this; decide
      · simp only [hc] at h
        have := h.1
        simp [isSpecial] at this
        omega
    · exact ih h.2 b hb

/-- every '&' of a text in `Esc` starts one of the five references -/
theorem Esc_amp (pre post : Bytes) (h : Esc (pre ++ 38 :: post) = true) : (refAt post).isSome = true := by
  induction pre with
  | nil => simp only [List.nil_append, Esc, Bool.and_eq_true] at h; simpa using h.1
  | cons c t ih =>
    simp only [List.cons_append, Esc, Bool.and_eq_true] at h
    exact ih h.2

/-! ### the regenerated tables are the spec's bad set -/

theorem isBadRune_ranges (r : Nat) : isBadRune r = RangeCover.inRanges badRanges r := by
  simp only [isBadRune, badRanges, RangeCover.inRanges, List.any, Bool.or_false]
  rw [Bool.eq_iff_iff]
  simp only [Bool.or_eq_true, Bool.and_eq_true, decide_eq_true_eq, beq_iff_eq]
  omega

theorem model_inRanges (rs : List (Nat × Nat)) (c : Nat) : Model.inRanges rs c = RangeCover.inRanges rs c := rfl

theorem zero_notin_encodeRunes (rs : List Nat) (h : 0 ∉ rs) : 0 ∉ encodeRunes rs := by
  intro hm
  simp only [encodeRunes, List.mem_flatMap] at hm
  obtain ⟨r, hr, hb⟩ := hm
  by_cases h128 : r < 128
  · rw [encodeRune_ascii r h128] at hb
    simp at hb; subst hb; exact h hr
  · have := encodeRune_nonascii r (by omega) 0 hb
    omega

end SafeHtml.HtmlFacts
