/-
C13 helper lemmas: the regenerated `urlDoubleDotSegmentPattern` is "two adjacent dots, each
literal or %2e/%2E", and a string without that has no double-dot path segment anywhere.
-/
import SafeHtml.Model.Tru
import SafeHtml.Spec.TruUrl
import SafeHtml.Proofs.RxSeq
namespace SafeHtml.Proofs.C13
open SafeHtml SafeHtml.Rx SafeHtml.Model SafeHtml.Spec.Rfc3986 SafeHtml.Spec.TruUrl
open SafeHtml.Generated.Regexes

/-- one dot, literal or `%2e`/`%2E` -/
def dotRe : Re :=
  .alt (.cls [(46, 46)]) (.cat (.cls [(37, 37)]) (.cat (.cls [(50, 50)]) (.cls [(69, 69), (101, 101)])))

theorem dotAt_cons_46 (t : Bytes) : dotAt (46 :: t) = some t := by simp [dotAt]

theorem lensB_dotRe (s : Bytes) :
    (∃ n r, dotAt s = some r ∧ lensB dotRe s = [n] ∧ s.drop n = r) ∨
      (dotAt s = none ∧ lensB dotRe s = []) := by
  unfold dotRe
  rcases s with _ | ⟨a, t⟩
  · right; simp [dotAt, lensB]
  · by_cases ha : a = 46
    · subst ha
      left
      refine ⟨1, t, by simp [dotAt], ?_, by simp⟩
      simp [lensB, inCls]
    · by_cases ha' : a = 37
      · subst ha'
        rcases t with _ | ⟨b, t⟩
        · right; simp [dotAt, lensB, inCls]
        · by_cases hb : b = 50
          · subst hb
            rcases t with _ | ⟨c, t⟩
            · right; simp [dotAt, lensB, inCls]
            · by_cases hc : c = 101 ∨ c = 69
              · left
                refine ⟨3, t, ?_, ?_, by simp⟩
                · rcases hc with rfl | rfl <;> simp [dotAt]
                · rcases hc with rfl | rfl <;> simp [lensB, inCls]
              · right
                constructor
                · simp [dotAt]; omega
                · simp [lensB, inCls]; omega
          · right
            constructor
            · simp [dotAt, hb]
            · simp [lensB, inCls]; omega
      · right
        constructor
        · simp [dotAt, ha, ha']
        · simp [lensB, inCls]
          exact ⟨by omega, fun _ h1 h2 => absurd (Nat.le_antisymm h2 h1) ha'⟩

theorem lensB_dotdot_head (s : Bytes) :
    ((lensB (.cat dotRe dotRe) s).head?).isSome =
      (match dotAt s with | some r => (dotAt r).isSome | none => false) := by
  rw [lensB]
  rcases lensB_dotRe s with ⟨n, r, h1, h2, h3⟩ | ⟨h1, h2⟩
  · rw [h1, h2, List.flatMap_singleton, h3]
    rcases lensB_dotRe r with ⟨m, r', g1, g2, _⟩ | ⟨g1, g2⟩
    · simp [g1, g2]
    · simp [g1, g2]
  · simp [h1, h2]

theorem firstMatchB_dotdot (s : Bytes) :
    (firstMatchB (.cat dotRe dotRe) s).isSome = hasDoubleDot s := by
  induction s with
  | nil =>
    have : lensB (.cat dotRe dotRe) [] = [] := lensB_nil_of_nil _ (by decide) (by decide) (by decide)
    simp [firstMatchB, this, hasDoubleDot]
  | cons c t ih =>
    have h := lensB_dotdot_head (c :: t)
    rw [hasDoubleDot, ← ih, firstMatchB]
    cases hd : dotAt (c :: t) <;> rw [hd] at h <;> simp only [] at h ⊢ <;>
      cases hl : (lensB (.cat dotRe dotRe) (c :: t)).head? <;> rw [hl] at h <;> simp_all

/-- Rx obligation -/
theorem rx_dotdot (s : Bytes) : urlContainsDoubleDotSegment s = hasDoubleDot s := by
  unfold urlContainsDoubleDotSegment safehtmlutil_urlDoubleDotSegmentPattern
  rw [matchString_ascii _ (by decide) (by decide) (by decide)]
  exact firstMatchB_dotdot s

theorem hasDoubleDot_append_left (a b : Bytes) (h : hasDoubleDot b = true) : hasDoubleDot (a ++ b) = true := by
  induction a with
  | nil => simpa using h
  | cons c a ih => rw [List.cons_append, hasDoubleDot, ih]; simp

theorem dotAt_append (x r b : Bytes) (h : dotAt x = some r) : dotAt (x ++ b) = some (r ++ b) := by
  rcases x with _ | ⟨a, t⟩
  · simp [dotAt] at h
  · by_cases ha : a = 46
    · subst ha
      simp [dotAt] at h ⊢; exact h
    · by_cases ha' : a = 37
      · subst ha'
        rcases t with _ | ⟨b1, _ | ⟨c, t⟩⟩
        · simp [dotAt] at h
        · simp [dotAt] at h
        · by_cases hb : b1 = 50
          · subst hb
            simp [dotAt] at h ⊢
            refine ⟨h.1, ?_⟩; rw [h.2]
          · simp [dotAt, hb] at h
      · simp [dotAt, ha, ha'] at h

theorem hasDoubleDot_append_right (a b : Bytes) (h : hasDoubleDot a = true) : hasDoubleDot (a ++ b) = true := by
  induction a with
  | nil => simp [hasDoubleDot] at h
  | cons c a ih =>
    rw [hasDoubleDot, Bool.or_eq_true] at h
    rw [List.cons_append, hasDoubleDot, Bool.or_eq_true]
    rcases h with h | h
    · left
      rw [← List.cons_append]
      cases h1 : dotAt (c :: a) with
      | none => rw [h1] at h; simp at h
      | some r =>
        rw [h1] at h
        simp only [] at h
        cases h2 : dotAt r with
        | none => rw [h2] at h; simp at h
        | some r' =>
          rw [dotAt_append _ _ b h1]
          simp only []
          rw [dotAt_append _ _ b h2]; rfl
    · right; exact ih h

theorem isDotDotSeg_hasDoubleDot (seg : Bytes) (h : isDotDotSeg seg = true) : hasDoubleDot seg = true := by
  cases seg with
  | nil => simp [isDotDotSeg, dotAt] at h
  | cons c t =>
    rw [hasDoubleDot, Bool.or_eq_true]; left
    unfold isDotDotSeg at h
    cases h1 : dotAt (c :: t) with
    | none => rw [h1] at h; simp at h
    | some r =>
      rw [h1] at h
      simp only [] at h ⊢
      cases h2 : dotAt r with
      | none => rw [h2] at h; simp at h
      | some r' => rfl

theorem segments_struct (p : Bytes) :
    ∃ s ss, segments p = s :: ss ∧ (∃ r, p = s ++ r) ∧ ∀ seg ∈ ss, ∃ a b, p = a ++ seg ++ b := by
  induction p with
  | nil => exact ⟨[], [], rfl, ⟨[], rfl⟩, by simp⟩
  | cons b t ih =>
    obtain ⟨s, ss, h1, ⟨r, h2⟩, h3⟩ := ih
    by_cases hb : b = 47
    · subst hb
      refine ⟨[], segments t, by simp [segments], ⟨_, rfl⟩, ?_⟩
      intro seg hseg
      rw [h1] at hseg
      rcases List.mem_cons.1 hseg with rfl | hseg
      · exact ⟨[47], r, by simp [← h2]⟩
      · obtain ⟨a, b', h⟩ := h3 seg hseg
        exact ⟨47 :: a, b', by simp [h]⟩
    · refine ⟨b :: s, ss, by simp [segments, hb, h1], ⟨r, by simp [← h2]⟩, ?_⟩
      intro seg hseg
      obtain ⟨a, b', h⟩ := h3 seg hseg
      exact ⟨b :: a, b', by simp [h]⟩

/-- every segment is a contiguous part of the path -/
theorem segments_infix (p : Bytes) : ∀ seg ∈ segments p, ∃ a b, p = a ++ seg ++ b := by
  obtain ⟨s, ss, h1, ⟨r, h2⟩, h3⟩ := segments_struct p
  intro seg hseg
  rw [h1] at hseg
  rcases List.mem_cons.1 hseg with rfl | hseg
  · exact ⟨[], r, by simpa using h2⟩
  · exact h3 seg hseg

theorem cut_prefix (c : Nat) (s : Bytes) : ∃ r, s = (cut c s).1 ++ r := by
  induction s with
  | nil => exact ⟨[], rfl⟩
  | cons b t ih =>
    by_cases hb : b = c
    · exact ⟨b :: t, by simp [cut, hb]⟩
    · obtain ⟨r, hr⟩ := ih
      exact ⟨r, by simp [cut, hb, ← hr]⟩

theorem splitScheme_suffix (s : Bytes) : ∃ a, s = a ++ (splitScheme s).2 := by
  unfold splitScheme
  simp only []
  split
  · rename_i rest heq
    split
    · exact ⟨[], rfl⟩
    · refine ⟨s.take (s.takeWhile fun b => !(b == 58 || b == 47 || b == 63 || b == 35)).length ++ [58], ?_⟩
      simp only [List.append_assoc, List.singleton_append]
      rw [← heq, List.take_append_drop]
  · exact ⟨[], rfl⟩

theorem splitAuthority_suffix (s : Bytes) : ∃ a, s = a ++ (splitAuthority s).2 := by
  unfold splitAuthority
  split
  · rename_i t
    simp only []
    refine ⟨47 :: 47 :: t.take (t.takeWhile fun b => !(b == 47 || b == 63 || b == 35)).length, ?_⟩
    simp only [List.cons_append, List.take_append_drop]
  · exact ⟨[], rfl⟩

/-- the path component is a contiguous part of the URL -/
theorem split_path_infix (s : Bytes) : ∃ a b, s = a ++ (split s).path ++ b := by
  unfold split
  simp only []
  obtain ⟨r1, h1⟩ := cut_prefix 35 s
  obtain ⟨r2, h2⟩ := cut_prefix 63 (cut 35 s).1
  obtain ⟨a3, h3⟩ := splitScheme_suffix (cut 63 (cut 35 s).1).1
  obtain ⟨a4, h4⟩ := splitAuthority_suffix (splitScheme (cut 63 (cut 35 s).1).1).2
  refine ⟨a3 ++ a4, r2 ++ r1, ?_⟩
  generalize (splitAuthority (splitScheme (cut 63 (cut 35 s).1).1).2).2 = p at *
  generalize (splitScheme (cut 63 (cut 35 s).1).1).2 = q at *
  generalize (cut 63 (cut 35 s).1).1 = u at *
  generalize (cut 35 s).1 = v at *
  subst h4 h3 h2
  rw [h1]; simp

/-- no two adjacent dots anywhere ⇒ no path segment is a double-dot segment, in any encoding -/
theorem no_dotdot_segment (s : Bytes) (h : hasDoubleDot s = false) :
    ∀ seg ∈ segments (split s).path, isDotDotSeg seg = false := by
  intro seg hseg
  cases hd : isDotDotSeg seg with
  | false => rfl
  | true =>
    exfalso
    obtain ⟨a, b, hp⟩ := segments_infix _ seg hseg
    obtain ⟨a', b', hs⟩ := split_path_infix s
    have h1 := isDotDotSeg_hasDoubleDot seg hd
    have h2 : hasDoubleDot (a' ++ (a ++ seg ++ b) ++ b') = true :=
      hasDoubleDot_append_right _ _ (hasDoubleDot_append_left _ _
        (hasDoubleDot_append_right _ _ (hasDoubleDot_append_left _ _ h1)))
    rw [← hp, ← hs, h] at h2
    exact Bool.noConfusion h2
end SafeHtml.Proofs.C13
