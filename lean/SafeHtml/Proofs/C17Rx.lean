/- Byte-level reading of `^C₁C₂+$` for ASCII classes (used by the jsIdentifierPattern obligation of C17). -/
import SafeHtml.Rx.Thm
namespace SafeHtml
namespace Rx

theorem inCls_ascii_false (rs) (h : asciiCls rs = true) (c : Nat) (hc : 128 ≤ c) : inCls rs c = false := by
  cases hh : inCls rs c with
  | false => rfl
  | true => have := inCls_ascii rs h _ hh; omega

/-- byte-level reading of `^C₁C₂+$` for ASCII classes -/
theorem match_bot_cls_plus_eot_bytes (r1 r2) (h1 : asciiCls r1 = true) (h2 : asciiCls r2 = true) (s : Bytes) :
    matchString (.cat .bot (.cat (.cls r1) (.cat (Re.plus (.cls r2) true) .eot))) s =
      match s with
      | c :: d :: t => inCls r1 c && inCls r2 d && t.all (inCls r2)
      | _ => false := by
  rw [match_bot_cls_plus_eot]
  match s with
  | [] => simp [Utf8.decodeSyms_nil]
  | c :: t =>
    by_cases hc : c < 128
    · rw [Utf8.decodeSyms_cons_ascii c t hc]
      match t with
      | [] => simp [Utf8.decodeSyms_nil]
      | d :: t' =>
        by_cases hd : d < 128
        · rw [Utf8.decodeSyms_cons_ascii d t' hd]
          simp only []
          rw [Utf8.all_ascii_iff (inCls r2) (inCls_ascii r2 h2)]
        · rw [Utf8.decodeSyms_cons d t']
          have hr := Utf8.decode1_nonascii d t' (by omega)
          simp only [inCls_ascii_false r2 h2 _ hr, inCls_ascii_false r2 h2 d (by omega)]
          simp
    · rw [Utf8.decodeSyms_cons c t]
      have hr := Utf8.decode1_nonascii c t (by omega)
      have e1 := inCls_ascii_false r1 h1 _ hr
      have e2 := inCls_ascii_false r1 h1 c (by omega)
      cases hrest : Utf8.decodeSyms (List.drop (Utf8.decode1 c t).2 (c :: t)) with
      | nil => cases t <;> simp [e2]
      | cons d' t'' => cases t <;> simp [e1, e2]

end Rx
end SafeHtml
