/-
C13 helper lemmas: the model's QueryEscapeURL (driven by the regenerated urlProc* tables) is the
spec's "percent-encode everything but unreserved"; consequences for delimiters and dots.
-/
import SafeHtml.Model.Tru
import SafeHtml.Spec.TruUrl
namespace SafeHtml.Proofs.C13
open SafeHtml SafeHtml.Model SafeHtml.Spec.Rfc3986 SafeHtml.Spec.TruUrl

/-- table obligation: with norm = false, urlProcessor keeps exactly the RFC 3986 unreserved bytes
    (breaks when the `case` lists of urlProcessor are edited) -/
theorem urlKeeps_false_eq (c : Nat) (rest : Bytes) : urlKeeps false c rest = isUnreserved c := by
  unfold urlKeeps SafeHtml.Generated.Tables.urlProcNormOnly SafeHtml.Generated.Tables.urlProcAlways
    SafeHtml.Generated.Tables.urlProcPercent SafeHtml.Generated.Tables.urlProcDefaultRanges
  rw [Bool.eq_iff_iff]
  simp only [List.contains_cons, List.contains_nil, List.any_cons, List.any_nil, Bool.false_and,
    isUnreserved, isAlnum, isAlpha, isDigit, isLowerAlpha, isUpperAlpha, Bool.or_false,
    Bool.or_eq_true, Bool.and_eq_true, beq_iff_eq, decide_eq_true_eq]
  split
  · simp; omega
  · split
    · simp; omega
    · split
      · simp; omega
      · simp; omega

theorem queryEscapeURL_eq (s : Bytes) : queryEscapeURL s = pctEncodeAll s := by
  unfold queryEscapeURL
  induction s with
  | nil => rfl
  | cons c t ih =>
    simp only [urlProcessor, pctEncodeAll, urlKeeps_false_eq, pctEncode, ih]

theorem pctEncodeAll_append (a b : Bytes) : pctEncodeAll (a ++ b) = pctEncodeAll a ++ pctEncodeAll b := by
  induction a with
  | nil => rfl
  | cons c t ih => simp only [List.cons_append, pctEncodeAll, ih, List.append_assoc]

theorem hexDigitLower_lt16 (n : Nat) (h : n < 16) :
    (48 ≤ hexDigitLower n ∧ hexDigitLower n ≤ 57) ∨ (97 ≤ hexDigitLower n ∧ hexDigitLower n ≤ 102) := by
  unfold hexDigitLower
  split <;> omega

theorem isHexDigit_hexDigitLower (n : Nat) (h : n < 16) : isHexDigit (hexDigitLower n) = true := by
  have := hexDigitLower_lt16 n h
  simp [isHexDigit, isDigit]
  omega

theorem isUnreserved_hexDigitLower (n : Nat) (h : n < 16) : isUnreserved (hexDigitLower n) = true := by
  have := hexDigitLower_lt16 n h
  simp [isUnreserved, isAlnum, isAlpha, isDigit, isLowerAlpha, isUpperAlpha]
  omega

theorem isUnreserved_ne37 (c : Nat) (h : isUnreserved c = true) : c ≠ 37 := by
  intro hc
  subst hc
  revert h
  decide

theorem hexValB_hexDigitLower (n : Nat) (h : n < 16) : hexValB (hexDigitLower n) = n := by
  unfold hexValB hexDigitLower isDigit
  by_cases h10 : n < 10
  · have h1 : 48 ≤ 48 + n := by omega
    have h2 : 48 + n ≤ 57 := by omega
    simp only [h10, if_true, h1, h2, decide_true, Bool.and_self]
    omega
  · have h1 : ¬ (87 + n ≤ 57) := by omega
    have h2 : 97 ≤ 87 + n := by omega
    have h3 : 87 + n ≤ 102 := by omega
    simp only [h10, if_false, h1, h2, h3, decide_true, decide_false, Bool.and_false, Bool.and_self,
      Bool.false_eq_true, if_true]
    omega

theorem isUnreservedOrPct_unres (c : Nat) (t : Bytes) (h : isUnreserved c = true) :
    isUnreservedOrPct (c :: t) = isUnreservedOrPct t := by
  have hc := isUnreserved_ne37 c h
  rw [isUnreservedOrPct.eq_3 c t (fun _ _ _ h37 _ => hc h37), h, Bool.true_and]

theorem pctEncodeAll_unreservedOrPct (s : Bytes) : isUnreservedOrPct (pctEncodeAll s) = true := by
  induction s with
  | nil => rfl
  | cons c t ih =>
    simp only [pctEncodeAll]
    split
    · rename_i h
      simp only [List.singleton_append]
      rw [isUnreservedOrPct_unres c _ h]
      exact ih
    · simp only [List.cons_append, List.nil_append, isUnreservedOrPct]
      rw [isHexDigit_hexDigitLower _ (Nat.mod_lt _ (by decide)),
        isHexDigit_hexDigitLower _ (Nat.mod_lt _ (by decide)), ih]
      rfl

/-- every output byte is unreserved, `%`, or a hex digit — in particular no delimiter -/
theorem pctEncodeAll_bytes (s : Bytes) : ∀ b ∈ pctEncodeAll s, isUnreserved b = true ∨ b = 37 := by
  induction s with
  | nil => intro b hb; cases hb
  | cons c t ih =>
    intro b hb
    simp only [pctEncodeAll, List.mem_append] at hb
    rcases hb with hb | hb
    · split at hb
      · rename_i h
        simp only [List.mem_singleton] at hb
        subst hb
        exact Or.inl h
      · simp only [List.mem_cons, List.not_mem_nil, or_false] at hb
        rcases hb with hb | hb | hb
        · exact Or.inr hb
        · subst hb
          exact Or.inl (isUnreserved_hexDigitLower _ (Nat.mod_lt _ (by decide)))
        · subst hb
          exact Or.inl (isUnreserved_hexDigitLower _ (Nat.mod_lt _ (by decide)))
    · exact ih b hb

theorem isDelim_of_unres_or_pct (b : Nat) (h : isUnreserved b = true ∨ b = 37) :
    isDelim b = false := by
  rcases h with h | h
  · simp [isUnreserved, isAlnum, isAlpha, isDigit, isLowerAlpha, isUpperAlpha] at h
    simp [isDelim]
    omega
  · subst h
    decide

theorem pctEncodeAll_no_delim (s : Bytes) : ∀ b ∈ pctEncodeAll s, isDelim b = false := by
  intro b hb
  exact isDelim_of_unres_or_pct b (pctEncodeAll_bytes s b hb)

theorem skeleton_pctEncodeAll (s : Bytes) : skeleton (pctEncodeAll s) = [] := by
  unfold skeleton
  rw [List.filter_eq_nil_iff]
  intro b hb
  simp [pctEncodeAll_no_delim s b hb]

theorem pctDecode_unres (c : Nat) (t : Bytes) (h : isUnreserved c = true) :
    pctDecode (c :: t) = c :: pctDecode t :=
  pctDecode.eq_3 c t (fun _ _ _ h37 _ => isUnreserved_ne37 c h h37)

/-- the encoding is lossless on byte strings -/
theorem pctDecode_pctEncodeAll (s : Bytes) (h : Bytes.wf s) : pctDecode (pctEncodeAll s) = s := by
  induction s with
  | nil => rfl
  | cons c t ih =>
    have hc : c < 256 := h c (List.mem_cons_self ..)
    have ht : Bytes.wf t := fun b hb => h b (List.mem_cons_of_mem _ hb)
    simp only [pctEncodeAll]
    split
    · rename_i hu
      simp only [List.singleton_append]
      rw [pctDecode_unres c _ hu, ih ht]
    · simp only [List.cons_append, List.nil_append, pctDecode]
      rw [isHexDigit_hexDigitLower _ (Nat.mod_lt _ (by decide)),
        isHexDigit_hexDigitLower _ (Nat.mod_lt _ (by decide)),
        hexValB_hexDigitLower _ (Nat.mod_lt _ (by decide)),
        hexValB_hexDigitLower _ (Nat.mod_lt _ (by decide)), ih ht]
      simp only [Bool.and_self, if_true]
      congr 1
      omega

/-- an encoded string never starts with `/` or `\` -/
theorem pctEncodeAll_head (s : Bytes) : ∀ b t, pctEncodeAll s = b :: t → b ≠ 47 ∧ b ≠ 92 := by
  intro b t hs
  have hb : b ∈ pctEncodeAll s := by rw [hs]; exact List.mem_cons_self ..
  have hd := pctEncodeAll_no_delim s b hb
  constructor
  · intro h; subst h; revert hd; decide
  · intro h; subst h; revert hd; decide

end SafeHtml.Proofs.C13
