/-
C01 for LATER executions of a single straight-line template through the API state machine (follow-up to
`Layer3Calls.C01_api_single_template`, which treats two FIRST executions).

The first `Execute` analyses the template, commits the rewritten tree and marks the object `ok`; the world it leaves
(`worldF`) does not depend on the data (`apiExecute_single_first`), whether or not the execution itself succeeds.
Every later `Execute` on `worldF` leaves `worldF` unchanged and returns the walk of the same committed tree
(`apiExecute_single_again`). Hence after any list of earlier executions (any data) the result of `Execute(d)` is the
same function of `d` (`step_execs`), and the C01 conclusion follows from `C01_of_walks`.
Core Lean only; axioms: propext, Classical.choice, Quot.sound.
-/
import SafeHtml.Proofs.Layer3Calls
set_option linter.unusedSimpArgs false
set_option linter.unusedVariables false
namespace SafeHtml.Proofs.Layer3Repeat
open SafeHtml SafeHtml.Model SafeHtml.Model.Tmpl SafeHtml.Spec SafeHtml.Spec.HtmlTok SafeHtml.Generated.Policy
open SafeHtml.Proofs.HtmlTokSim
open SafeHtml.Proofs.Layer3 SafeHtml.Proofs.Layer3E2E SafeHtml.Proofs.Layer3Branch SafeHtml.Proofs.Layer3Calls

/-- run a list of Execute calls on handle 0, returning the world after them -/
def execs (w : World) : List Value → World
  | [] => w
  | d :: ds => execs (Api.step w (.exec 0 d)).1 ds

/-- the world after the first `Execute`: committed tree `T`, escaper `E`, object marked `ok` -/
def worldF (v : Validators) (fuel : Nat) (name : String) (T : Tree) (E : Esc) : World :=
  { objs := [(1, { ns := 0, name := name, registered := true, treeNil := false, status := .ok })],
    nss := [(0, { set := [(name, 1)], text := [(name, some T)], escaped := true, esc := E })],
    handles := [(0, 1)], next := 2, fuel := fuel, v := v }

/-- the result of every execution, as a function of the data -/
def resultOf (fuel : Nat) (name : String) (tr : Tree) (es : List EPiece) (as : List Arg) (d : Value) : Res :=
  resOf (walkList false [(name, some (treeOut tr es as))] 0 fuel d d [] (treeOut tr es as).root)

/-- **the first `Execute`**, world and result: the world afterwards does not depend on the data -/
theorem apiExecute_single_first (v : Validators) (fuel : Nat) (name : String) (tr : Tree) (ps : List Piece)
    (as : List Arg) (has : ∀ a ∈ as, ActArg a) (cf : Ctx) (es : List EPiece)
    (hroot : tr.root = NodeList.ofList (toNodesA 0 ps as)) (ha : analyse v {} ps = some (cf, es))
    (hfin : finalError cf = none) (hf : ps.length + 4 ≤ fuel) :
    ∃ E, ∀ d : Value, apiExecute (setupW v fuel name tr) 0 d =
      (worldF v fuel name (treeOut tr es as) E, resultOf fuel name tr es as d) := by
  obtain ⟨E', ht⟩ := escapeTemplateTop_single v fuel name tr ps as has cf es hroot ha hfin hf
  refine ⟨E', fun d => ?_⟩
  have hobj : (setupW v fuel name tr).obj 0 =
      some (1, { ns := 0, name := name, registered := true, treeNil := false }) := by
    simp [setupW, World.obj, nlookup, bind, Option.bind]
  unfold apiExecute
  simp only [hobj, setNs_escaped, Bool.false_eq_true, if_false, ht]
  simp [markOk, worldE_ns, nsE, alookup, worldE, World.setNs, World.setObj, nset, nlookup, textExecute, World.ns,
    TextSet.lookup, resOf, treeOut, worldF, resultOf]
  rfl

/-- **every later `Execute`**: the world is unchanged and the result is the same function of the data -/
theorem apiExecute_single_again (v : Validators) (fuel : Nat) (name : String) (T : Tree) (E : Esc) (d : Value) :
    apiExecute (worldF v fuel name T E) 0 d =
      (worldF v fuel name T E, resOf (walkList false [(name, some T)] 0 fuel d d [] T.root)) := by
  have hobj : (worldF v fuel name T E).obj 0 =
      some (1, { ns := 0, name := name, registered := true, treeNil := false, status := .ok }) := by
    simp [worldF, World.obj, nlookup, bind, Option.bind]
  unfold apiExecute
  simp only [hobj]
  simp [worldF, World.setNs, nset, nlookup, textExecute, World.ns, TextSet.lookup, resOf]
  rfl

theorem execs_worldF (v : Validators) (fuel : Nat) (name : String) (T : Tree) (E : Esc) :
    ∀ pre : List Value, execs (worldF v fuel name T E) pre = worldF v fuel name T E
  | [] => rfl
  | d :: ds => by
    simp only [execs, Api.step, apiExecute_single_again]
    exact execs_worldF v fuel name T E ds

/-- the worlds reachable by executions from the world after `New`, `Parse`: the world itself or `worldF`
    (also when some of the earlier executions failed: the analysis does not depend on the data) -/
theorem execs_setupW (v : Validators) (fuel : Nat) (name : String) (tr : Tree) (ps : List Piece)
    (as : List Arg) (has : ∀ a ∈ as, ActArg a) (cf : Ctx) (es : List EPiece)
    (hroot : tr.root = NodeList.ofList (toNodesA 0 ps as)) (ha : analyse v {} ps = some (cf, es))
    (hfin : finalError cf = none) (hf : ps.length + 4 ≤ fuel) :
    ∃ E, ∀ pre : List Value, execs (setupW v fuel name tr) pre = setupW v fuel name tr ∨
      execs (setupW v fuel name tr) pre = worldF v fuel name (treeOut tr es as) E := by
  obtain ⟨E, hE⟩ := apiExecute_single_first v fuel name tr ps as has cf es hroot ha hfin hf
  refine ⟨E, fun pre => ?_⟩
  cases pre with
  | nil => exact .inl rfl
  | cons d ds =>
    right
    simp only [execs, Api.step, hE]
    exact execs_worldF v fuel name _ E ds

/-- **`Execute(d)` after any earlier executions**: the result is the walk of the committed tree on `d`, whatever
    the earlier executions were given and whether or not they succeeded -/
theorem step_execs (v : Validators) (fuel : Nat) (name : String) (tr : Tree) (ps : List Piece)
    (as : List Arg) (has : ∀ a ∈ as, ActArg a) (cf : Ctx) (es : List EPiece)
    (hroot : tr.root = NodeList.ofList (toNodesA 0 ps as)) (ha : analyse v {} ps = some (cf, es))
    (hfin : finalError cf = none) (hf : ps.length + 4 ≤ fuel) (pre : List Value) (d : Value) :
    (Api.step (execs (setupW v fuel name tr) pre) (.exec 0 d)).2 = .exec (resultOf fuel name tr es as d) := by
  obtain ⟨E, hE⟩ := apiExecute_single_first v fuel name tr ps as has cf es hroot ha hfin hf
  cases pre with
  | nil => simp only [execs, Api.step, hE]
  | cons d0 ds =>
    simp only [execs, Api.step, hE, execs_worldF, apiExecute_single_again]
    rfl

/-- the world after at least one execution is a fixed point of `Execute` -/
theorem execs_fixed (v : Validators) (fuel : Nat) (name : String) (tr : Tree) (ps : List Piece)
    (as : List Arg) (has : ∀ a ∈ as, ActArg a) (cf : Ctx) (es : List EPiece)
    (hroot : tr.root = NodeList.ofList (toNodesA 0 ps as)) (ha : analyse v {} ps = some (cf, es))
    (hfin : finalError cf = none) (hf : ps.length + 4 ≤ fuel) (d0 : Value) (pre : List Value) (d : Value) :
    (Api.step (execs (setupW v fuel name tr) (d0 :: pre)) (.exec 0 d)).1 = execs (setupW v fuel name tr) (d0 :: pre) := by
  obtain ⟨E, hE⟩ := apiExecute_single_first v fuel name tr ps as has cf es hroot ha hfin hf
  simp only [execs, Api.step, hE, execs_worldF, apiExecute_single_again]

/-- **C01 for a single template through the API state machine, later executions.** As
    `Layer3Calls.C01_api_single_template`, but each of the two executions compared comes after an arbitrary list of
    earlier `Execute` calls on the same template object (`pre1`, `pre2`: any data, no hypothesis — they may print
    trusted values, fail with an execution error, or be absent; the two lists need not have the same length). -/
theorem C01_api_single_template_repeat (v : Validators) (fuel : Nat) (name : String) (tr : Tree) (ps : List Piece)
    (as : List Arg) (has : ∀ a ∈ as, ActArg a) (cf : Ctx) (es : List EPiece) (hn : tr.name = name)
    (hroot : tr.root = NodeList.ofList (toNodesA 0 ps as)) (hs : SimpleAll v {} ps)
    (ha : analyse v {} ps = some (cf, es)) (hfin : finalError cf = none) (hf : ps.length + 4 ≤ fuel)
    (pre1 pre2 : List Value)
    (d1 d2 : Value) (hu1 : LeavesUntrusted d1 as) (hu2 : LeavesUntrusted d2 as) (o1 o2 : Bytes) (w1 w2 : World)
    (h1 : Api.step (execs (setup v fuel name tr) pre1) (.exec 0 d1) = (w1, .exec (.ok o1)))
    (h2 : Api.step (execs (setup v fuel name tr) pre2) (.exec 0 d2) = (w2, .exec (.ok o2))) :
    skeleton (HtmlTok.tokenize o1).tokens = skeleton (HtmlTok.tokenize o2).tokens ∧
    (HtmlTok.tokenize o1).final = .data ∧ (HtmlTok.tokenize o2).final = .data := by
  rw [setup_eq v fuel name tr hn] at h1 h2
  have r1 := step_execs v fuel name tr ps as has cf es hroot ha hfin hf pre1 d1
  have r2 := step_execs v fuel name tr ps as has cf es hroot ha hfin hf pre2 d2
  rw [h1] at r1
  rw [h2] at r2
  have e1 : resultOf fuel name tr es as d1 = .ok o1 := by
    simp only [Ret.exec.injEq] at r1; exact r1.symm
  have e2 : resultOf fuel name tr es as d2 = .ok o2 := by
    simp only [Ret.exec.injEq] at r2; exact r2.symm
  have hst : cf.state = .text := by
    by_cases hc : cf.state = .text
    · exact hc
    · exfalso
      unfold finalError at hfin
      split at hfin
      · next h => cases he : cf.err <;> simp_all
      · simp [hc] at hfin
  have := C01_of_walks v ps as has cf es hs ha _ fuel d1 d2 hu1 hu2 o1 o2 e1 e2
  exact ⟨this.1, this.2.2 hst⟩

/-! ### non-vacuity: `<p title="{{.T}}">{{.T}}</p>`, third execution after a successful one and a FAILED one
(`Value.str` has no field `T`) -/

example : retOk (Api.step (execs (setup v0 100 "t" exTree) [exData [34, 62, 60], .str [1]])
    (.exec 0 (exData [60, 38]))).2 = true := by
  decide +kernel

/-- the second of the earlier executions really fails -/
example : retOk (Api.step (execs (setup v0 100 "t" exTree) [exData [34, 62, 60]]) (.exec 0 (.str [1]))).2 = false := by
  decide +kernel

theorem ex_api_repeat (pre1 pre2 : List Value) (b1 b2 o1 o2 : Bytes) (w1 w2 : World)
    (h1 : Api.step (execs (setup v0 100 "t" exTree) pre1) (.exec 0 (exData b1)) = (w1, .exec (.ok o1)))
    (h2 : Api.step (execs (setup v0 100 "t" exTree) pre2) (.exec 0 (exData b2)) = (w2, .exec (.ok o2))) :
    skeleton (HtmlTok.tokenize o1).tokens = skeleton (HtmlTok.tokenize o2).tokens ∧
    (HtmlTok.tokenize o1).final = .data ∧ (HtmlTok.tokenize o2).final = .data :=
  C01_api_single_template_repeat v0 100 "t" exTree exTemplate exArgs
    (by intro a ha; simp [exArgs] at ha; subst ha; exact Or.inr ⟨_, rfl⟩) {} exOut rfl rfl ex_simpleAll ex_analyse
    (by decide) (by decide) pre1 pre2 _ _ (exData_untrusted b1) (exData_untrusted b2) o1 o2 w1 w2 h1 h2

#print axioms C01_api_single_template_repeat
#print axioms step_execs
#print axioms ex_api_repeat

end SafeHtml.Proofs.Layer3Repeat
