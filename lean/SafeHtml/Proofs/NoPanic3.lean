/-
C08, reachable-world closure of the analysis invariants, and the remaining panic results of Execute / ExecuteTemplate.
(summary at the end of the file)
-/
import SafeHtml.Proofs.NoPanic2
namespace SafeHtml.Proofs.NoPanic3
open SafeHtml SafeHtml.Model.Tmpl SafeHtml.Proofs.Frozen SafeHtml.Proofs.ConcApi SafeHtml.Proofs.ConcReach
  SafeHtml.Proofs.ApiFrames SafeHtml.Proofs.NoPanic SafeHtml.Proofs.NoPanic2

/-! ### 1. the invariants of one name space (without `NoNil`) -/

/-- a set that has not been executed has a completely empty escaper -/
def QE (n : NS) : Prop :=
  n.escaped = false → n.esc.output = [] ∧ n.esc.derived = [] ∧ n.esc.pristine = [] ∧ n.esc.actionEdits = [] ∧
    n.esc.tmplEdits = [] ∧ n.esc.textEdits = []

/-- `HasT`, `TW`, `EW`, `SI` (= `TD`, `ND`, `KM`, `ED`) and `NT` -/
def AI (n : NS) : Prop := HasT n.text n.esc ∧ TW n.text ∧ EW n.esc ∧ SI n.text n.esc ∧ NT n.text n.esc

/-- the trees of a text set have commands with arguments and distinct node ids -/
def TextOK (text : TextSet) : Prop := TW text ∧ TD text

theorem ai_fresh (n : NS) (h : n.escaped = false) (hq : QE n) (ht : TextOK n.text) : AI n := by
  obtain ⟨ho, hd, hp, ha, htm, hx⟩ := hq h
  refine ⟨hasT_fresh _ _ ho, ht.1, ⟨?_, ?_⟩, ⟨ht.2, ⟨?_, ?_, ?_⟩, ?_, ⟨?_, ?_⟩⟩, nt_fresh _ _ ho⟩
  · intro p h; rw [hd] at h; cases h
  · intro p h; rw [hp] at h; cases h
  · unfold kA; rw [ha]; exact List.nodup_nil
  · unfold kT; rw [htm]; exact List.nodup_nil
  · unfold kX; rw [hx]; exact List.nodup_nil
  · intro k hk
    unfold Keys kA kT kX at hk
    rw [ha, htm, hx] at hk
    rcases hk with h | h | h <;> cases h
  · intro p h; rw [hd] at h; cases h
  · intro p h; rw [hp] at h; cases h

theorem hasT_commit (text : TextSet) (e : Esc) (text2 : TextSet) (e2 : Esc)
    (hT : HasT text e) (h : commit text e = .ok (text2, e2)) : HasT text2 e2 := by
  have hpost := commit_post text e text2 e2 h
  obtain ⟨pr, h1, rfl⟩ := commit_spec text e text2 e2 h
  obtain ⟨k1, _⟩ := edits_isSome_noNil _ _ _ _ h1
  intro n hm
  rcases hT n hm with h2 | h2
  · exact .inl (k1 n (install_isSome _ _ n h2))
  · left
    cases hv : alookup e.derived n with
    | none => rw [hv] at h2; cases h2
    | some d =>
      have hmem := mem_of_alookup _ _ _ hv
      have : relink text2 (n, d) ∈ (e.derived.map (relink text2)) := List.mem_map.mpr ⟨_, hmem, rfl⟩
      have := hpost.2.2.2.2.2 _ this
      rw [relink_fst] at this
      rw [this]; rfl

theorem top_keeps_hasT (w w' : World) (ns : Nat) (name : String) (r : Option ErrCode)
    (hT : HasT (w.ns ns).text (w.ns ns).esc) (h : escapeTemplateTop w ns name = .inr (w', r)) :
    HasT (w'.ns ns).text (w'.ns ns).esc := by
  obtain ⟨env, e1, c, d, henv, hesc, hr⟩ := escapeTemplateTop_spec_env w ns name w' r h
  have hT1 : HasT (w.ns ns).text e1 := by
    have := hasT_analysis (env := env) (by rw [henv]; exact hT) _ _ _ _ hesc
    rw [henv] at this; exact this
  rcases hr with ⟨code, _, hns⟩ | ⟨text2, e2, _, _, hc, hns⟩
  · rw [hns]; exact hT1
  · rw [hns]; exact hasT_commit _ _ _ _ hT1 hc

/-- every critical section keeps `AI` of the analysed name space -/
theorem ai_top (w w' : World) (ns : Nat) (name : String) (r : Option ErrCode) (h : AI (w.ns ns))
    (ht : escapeTemplateTop w ns name = .inr (w', r)) : AI (w'.ns ns) := by
  obtain ⟨h1, h2, h3, h4, h5⟩ := h
  obtain ⟨b1, b2⟩ := (top_args w ns name h2 h3).2 w' r ht
  exact ⟨top_keeps_hasT w w' ns name r h1 ht, b1, b2, (top_shared w ns name h4).2 w' r ht,
    top_keeps_NT w w' ns name r h5 ht⟩

/-! ### 2. name spaces under the construction operations -/

/-- text set, escaper and `escaped` flag are the same -/
def CoreSame (n n' : NS) : Prop := n'.text = n.text ∧ n'.esc = n.esc ∧ n'.escaped = n.escaped
/-- a brand-new, empty name space -/
def IsNew (n : NS) : Prop := n.text = [] ∧ n.esc = {} ∧ n.escaped = false
/-- every name space of `w'` is one of `w` (as far as analysis is concerned) or brand new -/
def CoreRel (w w' : World) : Prop := ∀ k, CoreSame (w.ns k) (w'.ns k) ∨ IsNew (w'.ns k)

theorem CoreRel.refl (w : World) : CoreRel w w := fun _ => .inl ⟨rfl, rfl, rfl⟩

theorem CoreRel.trans {w w1 w2 : World} (h1 : CoreRel w w1) (h2 : CoreRel w1 w2) : CoreRel w w2 := by
  intro k
  rcases h2 k with ⟨a, b, c⟩ | h
  · rcases h1 k with ⟨a1, b1, c1⟩ | ⟨a1, b1, c1⟩
    · exact .inl ⟨a.trans a1, b.trans b1, c.trans c1⟩
    · exact .inr ⟨a.trans a1, b.trans b1, c.trans c1⟩
  · exact .inr h

theorem QE_AI_of_core {n n' : NS} (h : CoreSame n n') (hq : QE n) (ha : AI n) : QE n' ∧ AI n' := by
  obtain ⟨a, b, c⟩ := h
  unfold QE AI
  rw [a, b, c]
  exact ⟨hq, ha⟩

theorem QE_AI_of_new {n : NS} (h : IsNew n) : QE n ∧ AI n := by
  obtain ⟨a, b, c⟩ := h
  have hq : QE n := by intro _; rw [b]; exact ⟨rfl, rfl, rfl, rfl, rfl, rfl⟩
  refine ⟨hq, ai_fresh n c hq ⟨?_, ?_⟩⟩
  · intro m tr hl; rw [a] at hl; cases hl
  · intro m tr hl; rw [a] at hl; cases hl

def WInv (w : World) : Prop := ∀ k, QE (w.ns k) ∧ AI (w.ns k)

theorem winv_core {w w' : World} (h : CoreRel w w') (hw : WInv w) : WInv w' := by
  intro k
  rcases h k with h1 | h1
  · exact QE_AI_of_core h1 (hw k).1 (hw k).2
  · exact QE_AI_of_new h1

theorem core_setObj (w : World) (id : Nat) (o : TObj) : CoreRel w (w.setObj id o) := CoreRel.refl w

theorem core_newSet (w : World) (name : String) : CoreRel w (w.newSet name).1 := by
  intro k
  rw [newSet_ns]
  by_cases hk : k = w.next
  · rw [if_pos hk]; exact .inr ⟨rfl, rfl, rfl⟩
  · rw [if_neg hk]; exact .inl ⟨rfl, rfl, rfl⟩

theorem core_bindNew (w : World) (k : Nat) (name : String) (obj : TObj) : CoreRel w (bindNew w k name obj).1 := by
  intro j
  rw [bindNew_ns]
  by_cases hj : j = k
  · rw [if_pos hj, hj]; exact .inl ⟨rfl, rfl, rfl⟩
  · rw [if_neg hj]; exact .inl ⟨rfl, rfl, rfl⟩

theorem core_assocNew (w : World) (k : Nat) (name : String) : CoreRel w (w.assocNew k name).1 := by
  rw [assocNew_eq]
  refine CoreRel.trans ?_ (core_bindNew _ k name _)
  split
  · split
    · exact (core_newSet w name).trans (core_setObj _ _ _)
    · exact core_newSet w name
  · exact CoreRel.refl w

theorem core_parseStep (k : Nat) (w : World) (p : String × Option Tree) : CoreRel w (parseStep k w p) := by
  unfold parseStep
  simp only []
  cases hl : alookup (w.ns k).set p.1 with
  | some tid =>
    simp only []
    cases nlookup w.objs tid <;> exact CoreRel.refl w
  | none =>
    simp only []
    cases nlookup (w.assocNew k p.1).1.objs (w.assocNew k p.1).2 <;> exact core_assocNew w k p.1

theorem core_parseFold (k : Nat) (l : List (String × Option Tree)) : ∀ w, CoreRel w (l.foldl (parseStep k) w) := by
  induction l with
  | nil => intro w; exact CoreRel.refl w
  | cons p t ih => intro w; exact (core_parseStep k w p).trans (ih _)


/-- the trees handed to `Parse` are parser-shaped: commands have arguments, node ids are distinct (the latter holds for
    everything decoded from the wire format, `NoPanic2.parseDefsBytes_ids`) -/
def DefsOK (defs : List Tree) : Prop := ∀ tr ∈ defs, listWF tr.root ∧ IdsDistinct tr.root

theorem textOK_set (text : TextSet) (tr : Tree) (h : TextOK text) (ht : listWF tr.root ∧ IdsDistinct tr.root) :
    TextOK (text.set tr.name (some tr)) := by
  refine ⟨?_, ?_⟩
  · intro n t hl
    rw [lookup_set] at hl
    split at hl
    · cases hl; exact ht.1
    · exact h.1 n t hl
  · intro n t hl
    rw [lookup_set] at hl
    split at hl
    · cases hl; exact ht.2
    · exact h.2 n t hl

theorem addParseTree_ok (text : TextSet) (nm : String) (reg : Bool) (tr : Tree) (h : TextOK text)
    (ht : listWF tr.root ∧ IdsDistinct tr.root) : TextOK (addParseTree text nm reg tr).1 := by
  unfold addParseTree
  simp only []
  repeat' split
  all_goals first | exact h | exact textOK_set text tr h ht

theorem parsed_ok (nm : String) (defs : List Tree) : ∀ (acc : TextSet × Bool), TextOK acc.1 → DefsOK defs →
    TextOK (defs.foldl (fun (acc : TextSet × Bool) tr => addParseTree acc.1 nm acc.2 tr) acc).1 := by
  induction defs with
  | nil => intro acc h _; exact h
  | cons tr t ih =>
    intro acc h hd
    rw [List.foldl_cons]
    exact ih _ (addParseTree_ok acc.1 nm acc.2 tr h (hd tr (List.mem_cons_self ..)))
      (fun x hx => hd x (List.mem_cons_of_mem _ hx))

theorem ai_textOK {n : NS} (h : AI n) : TextOK n.text := ⟨h.2.1, h.2.2.2.1.1⟩

/-- replace one name space by one with the same escaper (empty, as the set is not executed) and a well-formed text -/
theorem winv_setText (w : World) (k : Nat) (n : NS) (hw : WInv w) (hesc : (w.ns k).escaped = false)
    (hn1 : n.esc = (w.ns k).esc) (hn2 : n.escaped = false) (ht : TextOK n.text) : WInv (w.setNs k n) := by
  intro j
  rw [ns_upd]
  by_cases hj : j = k
  · rw [if_pos hj]
    have hq : QE n := by
      intro _
      rw [hn1]
      exact (hw k).1 hesc
    exact ⟨hq, ai_fresh n hn2 hq ht⟩
  · rw [if_neg hj]; exact hw j

theorem winv_apiParse (w : World) (h : Nat) (defs : List Tree) (hw : WInv w) (hd : DefsOK defs) :
    WInv (apiParse w h defs).1 := by
  unfold apiParse
  cases hobj : w.obj h with
  | none => exact hw
  | some q =>
    obtain ⟨oid, o⟩ := q
    simp only []
    cases hesc : (w.ns o.ns).escaped with
    | true => simp only [if_true]; exact hw
    | false =>
      simp only [Bool.false_eq_true, if_false]
      have htxt := parsed_ok o.name defs ((w.ns o.ns).text, o.registered) (ai_textOK (hw o.ns).2) hd
      revert htxt
      generalize defs.foldl _ ((w.ns o.ns).text, o.registered) = tr
      obtain ⟨text, reg⟩ := tr
      intro htxt
      simp only [] at htxt ⊢
      have h1 : WInv (w.setObj oid { o with registered := reg }) := hw
      have h2 := winv_setText (w.setObj oid { o with registered := reg }) o.ns
        { set := (w.ns o.ns).set, csp := (w.ns o.ns).csp, esc := (w.ns o.ns).esc, text := text } h1 hesc rfl rfl htxt
      exact winv_core (core_parseFold o.ns text _) h2

theorem lookup_map_none (text : TextSet) (nm : String) (n : String) (tr : Tree)
    (h : TextSet.lookup (text.map (fun p => if (p.1 == nm) = true then (p.1, none) else p)) n = some (some tr)) :
    text.lookup n = some (some tr) := by
  rw [lookup_eq_alookup] at h ⊢
  induction text with
  | nil => cases h
  | cons p t ih =>
    rw [List.map_cons, alookup_cons] at h
    rw [alookup_cons]
    by_cases hp : (p.1 == nm) = true
    · rw [if_pos hp] at h
      simp only [] at h
      split at h
      · cases h
      · rename_i hne; rw [if_neg hne]; exact ih h
    · rw [if_neg hp] at h
      split at h
      · rename_i heq; rw [if_pos heq]; exact h
      · rename_i hne; rw [if_neg hne]; exact ih h

theorem winv_cloneFold (nsId : Nat) (l : List (String × Option Tree)) : ∀ w, WInv w → WInv (l.foldl (cloneStep nsId) w) := by
  induction l with
  | nil => intro w h; exact h
  | cons p t ih => intro w h; exact ih _ (winv_core (core_bindNew w nsId p.1 _) h)

theorem winv_apiClone (w : World) (h h' : Nat) (hw : WInv w) : WInv (apiClone w h h').1 := by
  unfold apiClone
  cases hobj : w.obj h with
  | none => exact hw
  | some q =>
    obtain ⟨oid, o⟩ := q
    simp only []
    split
    · exact hw
    · split
      · exact hw
      · have hct : TextOK (if o.registered = true then (w.ns o.ns).text
            else List.map (fun p => if (p.1 == o.name) = true then (p.1, none) else p) (w.ns o.ns).text) := by
          have hok := ai_textOK (hw o.ns).2
          split
          · exact hok
          · exact ⟨fun n tr hl => hok.1 n tr (lookup_map_none _ _ n tr hl),
              fun n tr hl => hok.2 n tr (lookup_map_none _ _ n tr hl)⟩
        revert hct
        generalize (if o.registered = true then (w.ns o.ns).text
          else List.map (fun p => if (p.1 == o.name) = true then (p.1, none) else p) (w.ns o.ns).text) = ctext
        intro hct
        have h0 : WInv (((({ w with next := w.next + 2 } : World).setObj (w.next + 1)
            { ns := w.next, name := o.name, registered := (ctext.lookup o.name).isSome,
              treeNil := !(match ctext.lookup o.name with | some (some _) => true | _ => false) }).setNs w.next
            { set := [(o.name, w.next + 1)], text := ctext })) := by
          intro j
          rw [ns_upd]
          by_cases hj : j = w.next
          · rw [if_pos hj]
            have hq : QE ({ set := [(o.name, w.next + 1)], text := ctext } : NS) :=
              fun _ => ⟨rfl, rfl, rfl, rfl, rfl, rfl⟩
            exact ⟨hq, ai_fresh _ rfl hq hct⟩
          · rw [if_neg hj]; exact hw j
        have h1 := winv_cloneFold w.next ctext _ h0
        split
        · exact h1
        · exact h1


theorem winv_setEscaped (w : World) (k : Nat) (hw : WInv w) : WInv (w.setNs k { w.ns k with escaped := true }) := by
  intro j
  rw [ns_upd]
  by_cases hj : j = k
  · rw [if_pos hj]
    exact ⟨fun h => (nomatch h), (hw k).2⟩
  · rw [if_neg hj]; exact hw j

theorem winv_top (w w' : World) (ns : Nat) (name : String) (r : Option ErrCode) (hw : WInv w)
    (hesc : (w.ns ns).escaped = true) (h : escapeTemplateTop w ns name = .inr (w', r)) : WInv w' := by
  obtain ⟨_, _, _, _, _, _, hoth, _⟩ := escapeTemplateTop_spec w ns name w' r h
  intro j
  by_cases hj : j = ns
  · subst hj
    refine ⟨?_, ai_top w w' j name r (hw j).2 h⟩
    intro hf
    rw [escapeTemplateTop_escaped w j name w' r h, hesc] at hf
    cases hf
  · rw [hoth j hj]; exact hw j

theorem winv_critExecute (w : World) (h : Nat) (hw : WInv w) : WInv (critExecute w h).1 := by
  unfold critExecute
  cases hobj : w.obj h with
  | none => exact hw
  | some p =>
    obtain ⟨oid, o⟩ := p
    have h1 := winv_setEscaped w o.ns hw
    simp only []
    cases hs : o.status with
    | failed code => exact h1
    | ok => exact h1
    | unset =>
      simp only []
      cases ht : o.treeNil with
      | true => exact h1
      | false =>
        simp only [Bool.false_eq_true, if_false]
        cases he : escapeTemplateTop (w.setNs o.ns { w.ns o.ns with escaped := true }) o.ns o.name with
        | inl r => exact h1
        | inr q =>
          obtain ⟨w', oc⟩ := q
          have h2 := winv_top _ w' o.ns o.name oc h1 (by rw [ns_setNs_same]) he
          cases oc with
          | some code => exact h2
          | none =>
            simp only []
            cases nlookup w'.objs oid <;> exact h2

theorem winv_critExecuteTemplate (w : World) (h : Nat) (name : String) (hw : WInv w) :
    WInv (critExecuteTemplate w h name).1 := by
  unfold critExecuteTemplate
  cases hobj : w.obj h with
  | none => exact hw
  | some p =>
    obtain ⟨oid, o⟩ := p
    have h1 := winv_setEscaped w o.ns hw
    simp only []
    cases hl : alookup (w.ns o.ns).set name with
    | none => exact h1
    | some tid =>
      simp only []
      cases hn : nlookup (w.setNs o.ns { w.ns o.ns with escaped := true }).objs tid with
      | none => exact h1
      | some t =>
        simp only []
        cases hs : t.status with
        | failed code => exact h1
        | ok =>
          simp only []
          generalize (if t.registered = true then _ else true) = b1
          generalize ((w.ns o.ns).text.lookup name).isNone = b2
          cases b1
          · cases b2
            · simp only [show (Status.ok == Status.unset) = false from rfl, Bool.false_eq_true, if_false]
              exact h1
            · exact h1
          · exact h1
        | unset =>
          simp only []
          generalize (if t.registered = true then _ else true) = b1
          generalize ((w.ns o.ns).text.lookup name).isNone = b2
          cases b1
          · cases b2
            · simp only [show (Status.unset == Status.unset) = true from rfl, Bool.false_eq_true, if_false, if_true]
              cases he : escapeTemplateTop (w.setNs o.ns { w.ns o.ns with escaped := true }) o.ns name with
              | inl r => exact h1
              | inr q =>
                obtain ⟨w', oc⟩ := q
                have h2 := winv_top _ w' o.ns name oc h1 (by rw [ns_setNs_same]) he
                cases oc with
                | some code => exact h2
                | none =>
                  simp only []
                  cases nlookup w'.objs tid <;> exact h2
            · exact h1
          · exact h1

/-- the side condition on operations: `Parse` carries parser-shaped trees -/
def OpOK : Op → Prop
  | .parse _ defs => DefsOK defs
  | _ => True

/-- **every operation keeps the analysis invariants of every name space** -/
theorem winv_step (w : World) (op : Op) (hw : WInv w) (hop : OpOK op) : WInv (Api.step w op).1 := by
  cases op with
  | new h name => exact winv_core (core_newSet w name) hw
  | assocNew h name h' =>
    simp only [Api.step]
    cases hobj : w.obj h with
    | none => exact hw
    | some p => exact winv_core (core_assocNew w p.2.ns name) hw
  | parse h defs => exact winv_apiParse w h defs hw hop
  | clone h h' => exact winv_apiClone w h h' hw
  | lookup h name h' =>
    obtain ⟨a, _, _⟩ := apiLookup_world w h name h'
    intro k
    show QE ((apiLookup w h name h').1.ns k) ∧ AI ((apiLookup w h name h').1.ns k)
    rw [a k]; exact hw k
  | templates h => exact hw
  | csp h =>
    simp only [Api.step]
    cases hobj : w.obj h with
    | none => exact hw
    | some p =>
      intro k
      simp only []
      rw [ns_upd]
      by_cases hk : k = p.2.ns
      · rw [if_pos hk]; exact QE_AI_of_core ⟨rfl, rfl, rfl⟩ (hw p.2.ns).1 (hw p.2.ns).2
      · rw [if_neg hk]; exact hw k
  | exec h d => show WInv (apiExecute w h d).1; rw [apiExecute_split]; exact winv_critExecute w h hw
  | execHTML h d => show WInv (apiExecute w h d).1; rw [apiExecute_split]; exact winv_critExecute w h hw
  | execT h n d =>
    show WInv (apiExecuteTemplate w h n d).1; rw [apiExecuteTemplate_split]; exact winv_critExecuteTemplate w h n hw
  | execTHTML h n d =>
    show WInv (apiExecuteTemplate w h n d).1; rw [apiExecuteTemplate_split]; exact winv_critExecuteTemplate w h n hw

/-- reachable from the empty world (empty handle table) by operations whose `Parse` steps carry parser-shaped trees -/
inductive ReachableP : World → Prop where
  | init (w : World) (h : Initial w) (hh : w.handles = []) : ReachableP w
  | step (w : World) (op : Op) (h : ReachableP w) (hop : OpOK op) : ReachableP (Api.step w op).1

theorem ReachableP.reachable0 {w : World} (h : ReachableP w) : Reachable0 w := by
  induction h with
  | init w h hh => exact Reachable0.init w h hh
  | step w op _ _ ih => exact Reachable0.step w op ih

theorem winv_initial (w : World) (h : Initial w) : WInv w := by
  intro k
  have : w.ns k = {} := by unfold World.ns; rw [h.2]; rfl
  rw [this]
  exact QE_AI_of_new ⟨rfl, rfl, rfl⟩

theorem winv_reachable (w : World) (h : ReachableP w) : WInv w := by
  induction h with
  | init w h _ => exact winv_initial w h
  | step w op _ hop ih => exact winv_step w op ih hop


/-! ### 3. which panics the analysis can report at all (no hypotheses) -/

def PanicAny (m : String) : Prop := m = msgArgs ∨ m = msgShared ∨ m = msgLoop ∨ m = msgNilTree

def OutM {α} : Out α → Prop
  | .panic m => PanicAny m
  | _ => True

theorem OutM.bind {α β} {x : Out α} {f : α → Out β} (hx : OutM x) (hf : ∀ a, OutM (f a)) : OutM (x >>= f) := by
  cases x with
  | ok a => exact hf a
  | panic m => exact hx
  | fuel => trivial

theorem OutM.panic_of {α} {x : Out α} {m : String} (h : OutM x) (he : x = .panic m) : PanicAny m := by
  subst he; exact h

theorem escapeAction_M (env : Env) (tn : String) (e : Esc) (c : Ctx) (id : Nat) (p : Pipe) :
    OutM (escapeAction env tn e c id p) := by
  unfold escapeAction
  split
  · trivial
  · simp only []
    split
    · exact .inl rfl
    · trivial
    · split
      · trivial
      · split
        · trivial
        · apply OutM.bind
          · unfold Esc.editAction
            split
            · exact .inr (.inl rfl)
            · trivial
          · intro _; trivial

theorem escapeTextNode_M (env : Env) (tn : String) (e : Esc) (c : Ctx) (id : Nat) (b : Bytes) :
    OutM (escapeTextNode env tn e c id b) := by
  unfold escapeTextNode
  split
  · exact .inr (.inr (.inl rfl))
  · trivial
  · apply OutM.bind
    · unfold Esc.editText
      split
      · exact .inr (.inl rfl)
      · trivial
    · intro _; trivial

theorem mergeEdits_M {β} (from_ : List (EditKey × β)) : ∀ into, OutM (mergeEdits into from_) := by
  induction from_ with
  | nil => intro into; trivial
  | cons q t ih =>
    intro into
    unfold mergeEdits
    rw [List.foldlM_cons]
    apply OutM.bind
    · split
      · exact .inr (.inl rfl)
      · trivial
    · intro a; exact ih a

theorem analysis_M (env : Env) : ∀ f,
    (∀ tn e c n, OutM (escapeNode env f tn e c n)) ∧ (∀ tn e c l, OutM (escapeList env f tn e c l)) ∧
    (∀ tn e c t el b, OutM (escapeBranch env f tn e c t el b)) ∧ (∀ e c name, OutM (escapeTree env f e c name)) ∧
    (∀ e c tname t, OutM (computeOutCtx env f e c tname t)) ∧
    (∀ e c tname t, OutM (escapeTemplateBody env f e c tname t)) := by
  intro f
  induction f with
  | zero =>
    refine ⟨?_, ?_, ?_, ?_, ?_, ?_⟩
    · intro tn e c n; simp only [escapeNode]; trivial
    · intro tn e c l; simp only [escapeList]; trivial
    · intro tn e c t el b; simp only [escapeBranch]; trivial
    · intro e c name; simp only [escapeTree]; trivial
    · intro e c tname t; simp only [computeOutCtx]; trivial
    · intro e c tname t; simp only [escapeTemplateBody]; trivial
  | succ f ih =>
    obtain ⟨hn, hl, hb, ht, ho, hbd⟩ := ih
    refine ⟨?_, ?_, ?_, ?_, ?_, ?_⟩
    · intro tn e c n
      cases n with
      | action id p => simp only [escapeNode]; exact escapeAction_M ..
      | text id b => simp only [escapeNode]; exact escapeTextNode_M ..
      | ifN id p t el => simp only [escapeNode]; exact hb ..
      | withN id p t el => simp only [escapeNode]; exact hb ..
      | rangeN id p t el => simp only [escapeNode]; exact hb ..
      | tmpl id name p =>
        simp only [escapeNode]
        apply OutM.bind (ht e c name)
        intro r
        split
        · apply OutM.bind
          · unfold Esc.editTmpl
            split
            · exact .inr (.inl rfl)
            · trivial
          · intro _; trivial
        · trivial
      | brk id => simp only [escapeNode]; trivial
      | cont id => simp only [escapeNode]; trivial
      | comment id => simp only [escapeNode]; trivial
    · intro tn e c l
      cases l with
      | nil => simp only [escapeList]; trivial
      | cons n ns =>
        simp only [escapeList]
        exact OutM.bind (hn tn e c n) (fun r => hl tn r.1 r.2 ns)
    · intro tn e c t el b
      simp only [escapeBranch]
      apply OutM.bind (hl tn e c t)
      intro r
      apply OutM.bind
      · split
        · exact OutM.bind (hl _ _ _ _) (fun _ => trivial)
        · trivial
      · intro j
        split
        · split
          · trivial
          · exact OutM.bind (hl _ _ _ _) (fun _ => trivial)
        · exact OutM.bind (hl _ _ _ _) (fun _ => trivial)
    · intro e c name
      simp only [escapeTree]
      split
      · trivial
      · split
        · trivial
        · split
          · trivial
          · trivial
          · split
            · split
              · exact OutM.bind (ho _ _ _ _) (fun _ => trivial)
              · exact OutM.bind (ho _ _ _ _) (fun _ => trivial)
            · exact OutM.bind (ho _ _ _ _) (fun _ => trivial)
    · intro e c tname t
      simp only [computeOutCtx]
      apply OutM.bind (hbd e c tname t)
      intro r
      split
      · trivial
      · apply OutM.bind (hbd _ _ _ _)
        intro r2
        split
        · trivial
        · split <;> trivial
    · intro e c tname t
      simp only [escapeTemplateBody]
      split
      · exact .inr (.inr (.inr rfl))
      · apply OutM.bind (hl _ _ _ _)
        intro r
        split
        · apply OutM.bind (mergeEdits_M _ _)
          intro _
          apply OutM.bind (mergeEdits_M _ _)
          intro _
          apply OutM.bind (mergeEdits_M _ _)
          intro _
          trivial
        · trivial

/-- a panic of `escapeTemplateTop` is one of five messages -/
theorem top_panic_any (w : World) (ns : Nat) (name : String) (m : String)
    (h : escapeTemplateTop w ns name = .inl (.panic m)) : PanicAny m ∨ m = msgCommit := by
  unfold escapeTemplateTop at h
  simp only [] at h
  split at h
  · rename_i m' hesc
    simp only [Sum.inl.injEq, Res.panic.injEq] at h
    subst h
    exact .inl (((analysis_M _ w.fuel).2.2.2.1 _ _ _).panic_of hesc)
  · cases h
  · split at h
    · cases h
    · split at h
      · rename_i m' hc
        simp only [Sum.inl.injEq, Res.panic.injEq] at h
        subst h
        unfold commit at hc
        simp only [] at hc
        split at hc
        · cases hc; exact .inr rfl
        · rcases bind_panic hc with h1 | ⟨_, _, h2⟩
          · exact .inl (.inl (edits_panic _ _ _ _ h1))
          · cases h2
      · cases h
      · cases h


/-! ### 4. results -/

theorem top_no_commit_panic (w : World) (ns : Nat) (name : String) (m : String)
    (hT : HasT (w.ns ns).text (w.ns ns).esc) (h : escapeTemplateTop w ns name = .inl (.panic m)) : m ≠ msgCommit := by
  unfold escapeTemplateTop at h
  simp only [] at h
  split at h
  · rename_i m' hesc
    simp only [Sum.inl.injEq, Res.panic.injEq] at h
    subst h
    have := ((analysis_M _ w.fuel).2.2.2.1 _ _ _).panic_of hesc
    rcases this with h | h | h | h <;> (rw [h]; decide)
  · cases h
  · rename_i e1 c d hesc
    split at h
    · cases h
    · split at h
      · rename_i m' hc
        simp only [Sum.inl.injEq, Res.panic.injEq] at h
        subst h
        have hT1 := hasT_analysis (by exact hT) _ _ _ _ hesc
        rw [commit_no_panic _ _ hT1 _ hc]; decide
      · cases h
      · cases h

/-- **C08 for the analysis in every world satisfying the invariants** (in particular every `ReachableP` world): one
    critical section returns a result, or runs out of fuel, or reports the loop guard of `escapeText`, or — only if a
    template is registered with a nil tree under a mangled name — the nil-tree panic. -/
theorem C08_analysis_total_inv (w : World) (hw : WInv w) (ns : Nat) (name : String) :
    (∃ w' r, escapeTemplateTop w ns name = .inr (w', r)) ∨ escapeTemplateTop w ns name = .inl .fuel ∨
    escapeTemplateTop w ns name = .inl (.panic msgLoop) ∨ escapeTemplateTop w ns name = .inl (.panic msgNilTree) := by
  obtain ⟨h1, h2, h3, h4, _⟩ := (hw ns).2
  cases hres : escapeTemplateTop w ns name with
  | inr p => exact .inl ⟨p.1, p.2, rfl⟩
  | inl res =>
    have hshape : res = .fuel ∨ ∃ m, res = .panic m := by
      unfold escapeTemplateTop at hres
      simp only [] at hres
      split at hres
      · cases hres; exact .inr ⟨_, rfl⟩
      · cases hres; exact .inl rfl
      · split at hres
        · cases hres
        · split at hres
          · cases hres; exact .inr ⟨_, rfl⟩
          · cases hres; exact .inl rfl
          · cases hres
    rcases hshape with rfl | ⟨m, rfl⟩
    · exact .inr (.inl rfl)
    · rcases top_panic_any w ns name m hres with (h | h | h | h) | h
      · exact absurd h ((top_args w ns name h2 h3).1 m hres)
      · exact absurd h ((top_shared w ns name h4).1 m hres)
      · rw [h]; exact .inr (.inr (.inl rfl))
      · rw [h]; exact .inr (.inr (.inr rfl))
      · exact absurd h (top_no_commit_panic w ns name m h1 hres)

theorem C08_analysis_total_reachable (w : World) (hr : ReachableP w) (ns : Nat) (name : String) :
    (∃ w' r, escapeTemplateTop w ns name = .inr (w', r)) ∨ escapeTemplateTop w ns name = .inl .fuel ∨
    escapeTemplateTop w ns name = .inl (.panic msgLoop) ∨ escapeTemplateTop w ns name = .inl (.panic msgNilTree) :=
  C08_analysis_total_inv w (winv_reachable w hr) ns name

/-- a settled object never makes `textExecute` panic in a world satisfying the invariants -/
theorem settled_no_panic (F : String → Prop) (w : World) (hw : WInv w) (o : TObj) (hs : Settled F w o)
    (d : Value) (m : String) : textExecute w o d ≠ .panic m := by
  obtain ⟨hi, hcl, hF⟩ := hs
  have hnt := (hw o.ns).2.2.2.2.2
  exact textExecute_no_panic F w o d hcl (fun n hn => hnt n (hi.pre.out n hn)) hF m

/-- **Execute in a reachable world**: the only panics `t.Execute` can still report are the loop guard of
    `escapeText` and the nil-tree analysis panic (both come out of the analysis of the critical section). -/
theorem C08_execute_panics (w : World) (hr : ReachableP w) (h : Nat) (d : Value) (m : String)
    (hres : (apiExecute w h d).2 = .panic m) : m = msgLoop ∨ m = msgNilTree := by
  have hi := invR_reachable w hr.reachable0.reachable
  have hw := winv_reachable w hr
  rw [apiExecute_split] at hres
  simp only [] at hres
  obtain ⟨_, hdone⟩ := critExecute_spec w h hi.inv
  have hwc := winv_critExecute w h hw
  cases hc : (critExecute w h).2 with
  | inr o =>
    rw [hc] at hres
    obtain ⟨F, hF⟩ := hdone o hc
    exact absurd hres (settled_no_panic F _ hwc o hF d m)
  | inl r =>
    rw [hc] at hres
    simp only [] at hres
    subst hres
    -- a final panic result of the critical section is the result of one analysis
    have key : ∃ w1 ns name, WInv w1 ∧ escapeTemplateTop w1 ns name = .inl (.panic m) := by
      unfold critExecute at hc
      cases hobj : w.obj h with
      | none => rw [hobj] at hc; cases hc
      | some p =>
        obtain ⟨oid, o⟩ := p
        rw [hobj] at hc
        simp only [] at hc
        cases hs : o.status with
        | failed code => rw [hs] at hc; cases hc
        | ok => rw [hs] at hc; cases hc
        | unset =>
          rw [hs] at hc
          simp only [] at hc
          cases ht : o.treeNil with
          | true => rw [ht] at hc; simp at hc
          | false =>
            rw [ht] at hc
            simp only [Bool.false_eq_true, if_false] at hc
            cases he : escapeTemplateTop (w.setNs o.ns { w.ns o.ns with escaped := true }) o.ns o.name with
            | inl r =>
              rw [he] at hc
              simp only [Sum.inl.injEq] at hc
              exact ⟨_, o.ns, o.name, winv_setEscaped w o.ns hw, by rw [he, hc]⟩
            | inr q =>
              obtain ⟨w', oc⟩ := q
              rw [he] at hc
              cases oc with
              | some code => cases hc
              | none =>
                simp only [] at hc
                cases hn : nlookup w'.objs oid with
                | none => rw [hn] at hc; cases hc
                | some o2 => rw [hn] at hc; cases hc
    obtain ⟨w1, ns, name, hw1, he⟩ := key
    rcases C08_analysis_total_inv w1 hw1 ns name with ⟨_, _, h1⟩ | h1 | h1 | h1
    · rw [he] at h1; cases h1
    · rw [he] at h1; cases h1
    · rw [he] at h1; simp only [Sum.inl.injEq, Res.panic.injEq] at h1; exact .inl h1
    · rw [he] at h1; simp only [Sum.inl.injEq, Res.panic.injEq] at h1; exact .inr h1


theorem critT_final_panic (w : World) (hw : WInv w) (h : Nat) (name : String) (m : String)
    (hc : (critExecuteTemplate w h name).2 = .inl (.panic m)) :
    ∃ w1 ns nm, WInv w1 ∧ escapeTemplateTop w1 ns nm = .inl (.panic m) := by
  unfold critExecuteTemplate at hc
  cases hobj : w.obj h with
  | none => rw [hobj] at hc; cases hc
  | some p =>
    obtain ⟨rid, r⟩ := p
    rw [hobj] at hc
    simp only [] at hc
    cases hl : alookup (w.ns r.ns).set name with
    | none => rw [hl] at hc; cases hc
    | some tid =>
      rw [hl] at hc
      simp only [] at hc
      cases hn : nlookup (w.setNs r.ns { w.ns r.ns with escaped := true }).objs tid with
      | none => rw [hn] at hc; cases hc
      | some t =>
        rw [hn] at hc
        simp only [] at hc
        cases hs : t.status with
        | failed code => rw [hs] at hc; cases hc
        | ok =>
          rw [hs] at hc
          simp only [] at hc
          cases hreg : t.registered with
          | false => simp [hreg] at hc
          | true =>
            cases hlk : (w.ns r.ns).text.lookup name with
            | none => simp [hreg, hlk] at hc
            | some x =>
              cases x with
              | none => simp [hreg, hlk] at hc
              | some tr => simp [hreg, hlk, show (Status.ok == Status.unset) = false from rfl] at hc
        | unset =>
          rw [hs] at hc
          simp only [] at hc
          cases hreg : t.registered with
          | false => simp [hreg] at hc
          | true =>
            cases hlk : (w.ns r.ns).text.lookup name with
            | none => simp [hreg, hlk] at hc
            | some x =>
              cases x with
              | none => simp [hreg, hlk] at hc
              | some tr =>
                simp only [hreg, hlk, if_true, Bool.false_eq_true, if_false, Option.isNone_some,
                  show (Status.unset == Status.unset) = true from rfl] at hc
                cases he : escapeTemplateTop (w.setNs r.ns { w.ns r.ns with escaped := true }) r.ns name with
                | inl res =>
                  rw [he] at hc
                  simp only [Sum.inl.injEq] at hc
                  exact ⟨_, r.ns, name, winv_setEscaped w r.ns hw, by rw [he, hc]⟩
                | inr q =>
                  obtain ⟨w', oc⟩ := q
                  rw [he] at hc
                  cases oc with
                  | some code => cases hc
                  | none =>
                    simp only [] at hc
                    cases hn2 : nlookup w'.objs tid with
                    | none => rw [hn2] at hc; cases hc
                    | some t2 => rw [hn2] at hc; cases hc

/-- **ExecuteTemplate in a reachable world**: the same two panics only. -/
theorem C08_executeTemplate_panics (w : World) (hr : ReachableP w) (h : Nat) (name : String) (d : Value) (m : String)
    (hres : (apiExecuteTemplate w h name d).2 = .panic m) : m = msgLoop ∨ m = msgNilTree := by
  have hi := invR_reachable w hr.reachable0.reachable
  have hw := winv_reachable w hr
  rw [apiExecuteTemplate_split] at hres
  simp only [] at hres
  obtain ⟨_, hdone⟩ := critExecuteTemplate_spec w h name hi.inv
  have hwc := winv_critExecuteTemplate w h name hw
  cases hc : (critExecuteTemplate w h name).2 with
  | inr o =>
    rw [hc] at hres
    obtain ⟨F, hF⟩ := hdone o hc
    exact absurd hres (settled_no_panic F _ hwc o hF d m)
  | inl r =>
    rw [hc] at hres
    simp only [] at hres
    subst hres
    obtain ⟨w1, ns, nm, hw1, he⟩ := critT_final_panic w hw h name m hc
    rcases C08_analysis_total_inv w1 hw1 ns nm with ⟨_, _, h1⟩ | h1 | h1 | h1
    · rw [he] at h1; cases h1
    · rw [he] at h1; cases h1
    · rw [he] at h1; simp only [Sum.inl.injEq, Res.panic.injEq] at h1; exact .inl h1
    · rw [he] at h1; simp only [Sum.inl.injEq, Res.panic.injEq] at h1; exact .inr h1

/-- **every operation of the API state machine in a reachable world**: a panic result is one of the two -/
theorem C08_step_panics (w : World) (hr : ReachableP w) (op : Op) (m : String)
    (hres : (Api.step w op).2 = .exec (.panic m) ∨ (Api.step w op).2 = .html (.panic m)) :
    m = msgLoop ∨ m = msgNilTree := by
  cases op with
  | exec h d =>
    rcases hres with h1 | h1
    · simp only [Api.step, Ret.exec.injEq] at h1; exact C08_execute_panics w hr h d m h1
    · simp only [Api.step] at h1; cases h1
  | execT h n d =>
    rcases hres with h1 | h1
    · simp only [Api.step, Ret.exec.injEq] at h1; exact C08_executeTemplate_panics w hr h n d m h1
    · simp only [Api.step] at h1; cases h1
  | execHTML h d =>
    rcases hres with h1 | h1
    · simp only [Api.step] at h1; cases h1
    · simp only [Api.step, Ret.html.injEq] at h1
      apply C08_execute_panics w hr h d m
      cases hr2 : (apiExecute w h d).2 <;> rw [hr2] at h1 <;> simp [zeroOnError] at h1
      rw [h1]
  | execTHTML h n d =>
    rcases hres with h1 | h1
    · simp only [Api.step] at h1; cases h1
    · simp only [Api.step, Ret.html.injEq] at h1
      apply C08_executeTemplate_panics w hr h n d m
      cases hr2 : (apiExecuteTemplate w h n d).2 <;> rw [hr2] at h1 <;> simp [zeroOnError] at h1
      rw [h1]
  | new h name => rcases hres with h1 | h1 <;> (simp only [Api.step] at h1; cases h1)
  | assocNew h name h' =>
    rcases hres with h1 | h1 <;> (simp only [Api.step] at h1; split at h1 <;> cases h1)
  | parse h defs => rcases hres with h1 | h1 <;> (simp only [Api.step] at h1; cases h1)
  | clone h h' => rcases hres with h1 | h1 <;> (simp only [Api.step] at h1; cases h1)
  | lookup h n h' => rcases hres with h1 | h1 <;> (simp only [Api.step] at h1; cases h1)
  | templates h => rcases hres with h1 | h1 <;> (simp only [Api.step] at h1; cases h1)
  | csp h => rcases hres with h1 | h1 <;> (simp only [Api.step] at h1; split at h1 <;> cases h1)

/-! ### 5. the no-progress guard of `escapeText`: the suspicious configuration is unreachable through contexts -/

/-- a context in state `text` is not inside a special element (script, style, textarea, title, …) -/
def CI (c : Ctx) : Prop := c.state = .text → memKey Generated.Policy.specialElements c.elemName = false

theorem ci_of_ne {c : Ctx} (h : c.state ≠ .text) : CI c := fun h' => absurd h' h
theorem ci_default : CI {} := fun _ => notSpecial_nil
theorem ci_errorCtx (code : ErrCode) : CI (Ctx.errorCtx code) := ci_of_ne (by simp [Ctx.errorCtx])

theorem tTextGo_ci (c : Ctx) (hc : CI c) : ∀ f off s, CI (tTextGo c f off s).1 := by
  intro f
  induction f with
  | zero => intro off s; simp only [tTextGo]; exact hc
  | succ f ih =>
    intro off s
    simp only [tTextGo]
    repeat' split
    all_goals first
      | exact hc
      | exact ih _ _
      | exact ci_of_ne (by simp)

theorem transition_ci (c : Ctx) (s : Bytes) (hc : CI c) : CI (transition c s).1 := by
  unfold transition
  split
  · exact tTextGo_ci c hc _ _ _
  · rename_i h
    unfold tSpecialTagEnd
    repeat' split
    all_goals first
      | exact ci_default
      | exact hc
  · rename_i h
    unfold tTag
    simp only []
    split
    · exact hc
    · split
      · -- '>' : the state is `text` only for a non-special element
        split
        · intro _; exact notSpecial_nil
        · intro hst
          simp only [] at hst ⊢
          split at hst
          · cases hst
          · rename_i hsp; simpa using hsp
      · repeat' split
        all_goals first
          | exact ci_errorCtx _
          | exact ci_of_ne (by simp)
          | (apply ci_of_ne; simp; split <;> simp)
  · rename_i h
    unfold tAttrName
    repeat' split
    all_goals first
      | exact ci_errorCtx _
      | exact ci_of_ne (by rw [h]; simp)
      | exact ci_of_ne (by simp)
  · rename_i h
    unfold tAfterName
    simp only []
    repeat' split
    all_goals first
      | exact ci_of_ne (by rw [h]; simp)
      | exact ci_of_ne (by simp)
  · rename_i h
    unfold tBeforeValue
    simp only []
    repeat' split
    all_goals first
      | exact ci_of_ne (by rw [h]; simp)
      | exact ci_of_ne (by simp)
  · rename_i h
    unfold tHTMLCmt
    repeat' split
    all_goals first
      | exact ci_default
      | exact ci_of_ne (by rw [h]; simp)
  · rename_i h; exact ci_of_ne (by unfold tAttr; rw [h]; simp)
  · exact hc


theorem feedLoop_ci : ∀ f c u, CI c → CI (feedLoop f c u) := by
  intro f
  induction f with
  | zero => intro c u h; simpa only [feedLoop] using h
  | succ f ih =>
    intro c u h
    simp only [feedLoop]
    split
    · exact h
    · exact ih _ _ (transition_ci c u h)

theorem contextAfterText_ci (c : Ctx) (s : Bytes) (h : CI c) : CI (contextAfterText c s).1 := by
  unfold contextAfterText
  split
  · simp only []
    split
    · unfold tSpecialTagEnd
      repeat' split
      all_goals first
        | exact ci_default
        | exact h
    · exact transition_ci c _ h
  · simp only []
    split
    · exact ci_errorCtx _
    · split
      · apply feedLoop_ci
        intro hst; exact h hst
      · apply ci_of_ne
        repeat' split
        all_goals simp

theorem nudge_ci (c : Ctx) (h : CI c) : CI (nudge c) := by
  unfold nudge
  split
  · exact ci_of_ne (by simp)
  · exact ci_of_ne (by simp)
  · exact ci_of_ne (by simp)
  · exact h

theorem eq_state {c d : Ctx} (h : c.eq d = true) : c.state = d.state ∧ c.elemName = d.elemName := by
  unfold Ctx.eq at h
  simp only [Bool.and_eq_true, beq_iff_eq] at h
  exact ⟨h.1.1.1.1.1.1.1, h.1.1.1.1.1.2⟩

theorem ci_ite {p : Prop} [Decidable p] {x y : Ctx} (hx : p → CI x) (hy : ¬ p → CI y) : CI (if p then x else y) := by
  split
  · exact hx ‹_›
  · exact hy ‹_›

/-- the three-way choice of `join` on contexts that are both fine -/
theorem join3_ci (a b fb : Ctx) (ha : CI a) (hb : CI b) (hfb : CI fb) :
    CI (if a.eq b then a
        else if ({ a with elemName := b.elemName }).eq b then { a with elemName := b.elemName }
        else if ({ a with attrName := b.attrName }).eq b then { a with attrName := b.attrName }
        else fb) := by
  refine ci_ite (fun _ => ha) (fun _ => ci_ite (fun h2 => ?_) (fun _ => ci_ite (fun _ => ?_) (fun _ => hfb)))
  · intro hst
    have := eq_state h2
    simp only [] at this hst ⊢
    exact hb (this.1 ▸ hst)
  · intro hst; exact ha hst

theorem join_ci (a b : Ctx) (ha : CI a) (hb : CI b) : CI (join a b) := by
  unfold join joinCore
  by_cases h1 : (a.state == State.error) = true
  · rw [if_pos h1]; exact ha
  · rw [if_neg h1]
    by_cases h2 : (b.state == State.error) = true
    · rw [if_pos h2]; exact hb
    · rw [if_neg h2]
      simp only []
      refine join3_ci _ b _ ?_ hb ?_
      · exact fun hst => ha hst
      -- the nudged retry
      apply ci_ite (fun _ => ?_) (fun _ => ci_errorCtx _)
      have hna : CI (nudge { a with
          elemNames := joinNames a.elemName b.elemName a.elemNames b.elemNames,
          attrNames := joinNames a.attrName b.attrName a.attrNames b.attrNames,
          ambiguous := a.ambiguous || (a.attrValue != b.attrValue) || b.ambiguous }) :=
        nudge_ci _ (fun hst => ha hst)
      have hnb := nudge_ci b hb
      apply ci_ite (fun _ => ?_) (fun _ => ci_errorCtx _)
      apply ci_ite (fun _ => hna) (fun _ => ci_ite (fun _ => hnb) (fun _ => ?_))
      refine join3_ci _ (nudge b) _ ?_ hnb (ci_errorCtx _)
      exact fun hst => hna hst

/-- **the zero-progress return of `tSpecialTagEnd` always changes the state** for contexts satisfying `CI` -/
theorem special_zero_progress (c : Ctx) (s : Bytes) (hc : CI c) (hs : s ≠ [])
    (h0 : (tSpecialTagEnd c s).2 = 0) : (tSpecialTagEnd c s).1.state ≠ c.state := by
  unfold tSpecialTagEnd at h0 ⊢
  split
  · rename_i hsp
    split
    · -- the end tag is at offset 0: the new context is the default one (state `text`)
      intro heq
      have : c.state = .text := heq.symm
      rw [hc this] at hsp; cases hsp
    · rename_i hn
      rw [if_pos hsp, hn] at h0
      simp only [] at h0
      exact absurd (List.length_eq_zero_iff.mp h0) hs
  · rename_i hsp
    rw [if_neg hsp] at h0
    simp only [] at h0
    exact absurd (List.length_eq_zero_iff.mp h0) hs

/-! ### Summary

(1) Reachable-world closure.
* `QE n` (a set that has not been executed has a completely empty escaper), `AI n` = `HasT ∧ TW ∧ EW ∧ SI ∧ NT`
  (`AnalysisInv` without `NoNil`), `WInv w` = both for every name space.
* `ai_top` (every critical section keeps `AI`), `core_*` (New, `t.New`, the Parse loop and the Clone loop leave text set,
  escaper and `escaped` flag of every existing name space alone or create empty ones), `winv_apiParse` (with `DefsOK`:
  parsed trees have commands with arguments and distinct node ids — the latter is `NoPanic2.parseDefsBytes_ids` for the
  wire format), `winv_apiClone` (also for a clone that registers a tree-less template), `winv_critExecute`,
  `winv_critExecuteTemplate`, **`winv_step`** (every `Op`, side condition `OpOK` only on Parse), `ReachableP`,
  `winv_reachable`.
* `analysis_M`, `top_panic_any`: without any hypothesis a panic of the analysis/commit is one of five messages;
  **`C08_analysis_total_inv` / `C08_analysis_total_reachable`**: in a `ReachableP` world `escapeTemplateTop` returns `.inr _`,
  `.inl .fuel`, `.inl (.panic "infinite loop in escapeText")` or `.inl (.panic "… t.Tree.Root of a nil Tree")`.
* `settled_no_panic`, **`C08_execute_panics`**, **`C08_executeTemplate_panics`**, **`C08_step_panics`**: in a `ReachableP`
  world the only `.panic` results of Execute / ExecuteToHTML / ExecuteTemplate / ExecuteTemplateToHTML are these two
  messages (the execution-time nil dereference and "template escaping out of sync" cannot occur; no `NoNil` needed).
  The nil-tree analysis panic needs a template registered with a nil tree under a name that is a mangled name
  (`Clone` of an unparsed associated template named like `x$htmltemplate_…`); with `NoNil` it disappears
  (`NoPanic2.C08_analysis_total`).
(2) The no-progress guard of `escapeTextLoop`.
* No input reaching it was found (model and real package agree on all candidates tried: conditional element names
  `{{if .C}}<script{{else}}<textarea{{end}}>x</script>…`, `…<script{{else}}<p…`, `…<p{{else}}<script…`, a second
  `</script>` / `</title>` / `</textarea x>` after the element was closed, conditional `<script>` vs `<p>`, conditional
  attributes: results are outputs or ErrBranchEnd, never the guard; in the real package the guard is a `panic`, not a
  hang).
* Proved: `CI c` ("state text ⇒ the element name is not special") is preserved by `transition` (all nine transition
  functions), `contextAfterText`, `feedLoop`, `nudge` and `join` (`transition_ci`, `contextAfterText_ci`, `nudge_ci`,
  `join_ci`), holds for the initial and the error contexts, and **`special_zero_progress`**: under `CI` the zero-byte
  return of `tSpecialTagEnd` (the only place where `contextAfterText` deliberately reads nothing) always changes the
  state. So the configuration "state text with a special element name" is not reachable through context operations.
* NOT proved: that the guard is dead code altogether. Missing: (a) the progress / bound lemma for every other transition
  ("reads between 1 and |s| bytes, or changes the state"), with the second context invariant "delimiter set ⇒ state
  attr"; (b) propagation of `CI` through the six analysis functions (memo values, start contexts of derived templates);
  (c) the model-only fuel of `escapeTextLoop` (2·|s|+2), which shares the message and needs an amortised bound
  (at most two zero-byte steps between consumed bytes). No fuel bound for `escapeTemplateTop` is given.
-/

end SafeHtml.Proofs.NoPanic3
