/-
C08: the no-progress guard of `escapeText` is dead code, and a fuel bound for sets without template calls.
(summary at the end of the file)
-/
import SafeHtml.Proofs.NoPanic3
namespace SafeHtml.Proofs.NoPanic4
open SafeHtml SafeHtml.Model.Tmpl SafeHtml.Generated.Policy SafeHtml.Proofs.Frozen SafeHtml.Proofs.ConcApi
  SafeHtml.Proofs.ConcReach SafeHtml.Proofs.ApiFrames SafeHtml.Proofs.NoPanic SafeHtml.Proofs.NoPanic2
  SafeHtml.Proofs.NoPanic3

/-! ### 1. how many bytes the scanners consume -/

theorem indexByte_lt (b : Nat) : ∀ (s : Bytes) (n : Nat), indexByte b s = some n → n < s.length := by
  intro s
  induction s with
  | nil => intro n h; cases h
  | cons c t ih =>
    intro n h
    simp only [indexByte] at h
    split at h
    · cases h; simp
    · cases hi : indexByte b t with
      | none => rw [hi] at h; cases h
      | some k =>
        rw [hi] at h
        simp only [Option.map_some, Option.some.injEq] at h
        have := ih k hi
        simp only [List.length_cons]; omega

theorem indexAny_lt (set : List Nat) : ∀ (s : Bytes) (n : Nat), indexAny set s = some n → n < s.length := by
  intro s
  induction s with
  | nil => intro n h; cases h
  | cons c t ih =>
    intro n h
    simp only [indexAny] at h
    split at h
    · cases h; simp
    · cases hi : indexAny set t with
      | none => rw [hi] at h; cases h
      | some k =>
        rw [hi] at h
        simp only [Option.map_some, Option.some.injEq] at h
        have := ih k hi
        simp only [List.length_cons]; omega

theorem isPrefixOf_len (p s : Bytes) (h : p.isPrefixOf s = true) : p.length ≤ s.length := by
  rw [List.isPrefixOf_iff_prefix] at h
  exact h.length_le

theorem indexSub_le (needle : Bytes) : ∀ (s : Bytes) (n : Nat), indexSub needle s = some n →
    n + needle.length ≤ s.length := by
  intro s
  induction s with
  | nil =>
    intro n h
    simp only [indexSub] at h
    split at h
    · rename_i he; cases h; simp only [List.isEmpty_iff] at he; rw [he]; simp
    · cases h
  | cons c t ih =>
    intro n h
    simp only [indexSub] at h
    split at h
    · rename_i hp; cases h
      have := isPrefixOf_len _ _ hp
      omega
    · cases hi : indexSub needle t with
      | none => rw [hi] at h; cases h
      | some k =>
        rw [hi] at h
        simp only [Option.map_some, Option.some.injEq] at h
        have := ih k hi
        simp only [List.length_cons]; omega

theorem eatWhiteSpace_le : ∀ (s : Bytes), eatWhiteSpace s ≤ s.length := by
  intro s
  induction s with
  | nil => simp [eatWhiteSpace]
  | cons c t ih =>
    simp only [eatWhiteSpace]
    split
    · simp only [List.length_cons]; omega
    · omega

theorem eatAttrName_le : ∀ (s : Bytes) (n : Nat), eatAttrName s = some n → n ≤ s.length := by
  intro s
  induction s with
  | nil => intro n h; simp only [eatAttrName] at h; cases h; simp
  | cons c t ih =>
    intro n h
    simp only [eatAttrName] at h
    split at h
    · cases h; omega
    · split at h
      · cases h
      · cases hi : eatAttrName t with
        | none => rw [hi] at h; cases h
        | some k =>
          rw [hi] at h
          simp only [Option.map_some, Option.some.injEq] at h
          have := ih k hi
          simp only [List.length_cons]; omega

theorem eatTagNameRest_le : ∀ (f : Nat) (t : Bytes), eatTagNameRest f t ≤ t.length := by
  intro f
  induction f with
  | zero => intro t; simp [eatTagNameRest]
  | succ f ih =>
    intro t
    cases t with
    | nil => simp [eatTagNameRest]
    | cons x t =>
      simp only [eatTagNameRest]
      split
      · have := ih t; simp only [List.length_cons]; omega
      · split
        · split
          · rename_i y t'
            split
            · have := ih t'; simp only [List.length_cons]; omega
            · omega
          · omega
        · omega

theorem eatTagName_le (s : Bytes) : (eatTagName s).1 ≤ s.length := by
  unfold eatTagName
  split
  · simp
  · rename_i c t
    split
    · simp
    · simp only []
      have := eatTagNameRest_le t.length t
      simp only [List.length_cons]; omega


/-! ### 2. every transition reads between 1 and |s| bytes or lowers the potential -/

/-- how many zero-byte steps a state can still take before bytes must be consumed -/
def zS : State → Nat
  | .attrName => 2
  | .beforeValue => 2
  | .afterName => 1
  | .attr => 1
  | .specialBody => 1
  | _ => 0

/-- a step from context `c` on `r` remaining bytes: at most `r` bytes are read, and unless everything is read the
    potential `2·remaining + zS state` strictly decreases -/
def StepOK (c : Ctx) (r : Nat) (res : Ctx × Nat) : Prop :=
  res.2 ≤ r ∧ (res.2 = r ∨ zS res.1.state + 1 ≤ 2 * res.2 + zS c.state)

theorem tTextGo_bound (c : Ctx) : ∀ (f off : Nat) (s : Bytes),
    (tTextGo c f off s).2 ≤ off + s.length ∧
    ((tTextGo c f off s).2 = off + s.length ∨ (zS (tTextGo c f off s).1.state = 0 ∧ off + 1 ≤ (tTextGo c f off s).2)) := by
  intro f
  induction f with
  | zero => intro off s; simp [tTextGo]
  | succ f ih =>
    intro off s
    simp only [tTextGo]
    cases hn : indexByte 60 s with
    | none => exact ⟨Nat.le_refl _, .inl rfl⟩
    | some n =>
      simp only []
      have hlt := indexByte_lt 60 s n hn
      by_cases hre : (s.drop (n + 1)).isEmpty = true
      · rw [if_pos hre]; exact ⟨Nat.le_refl _, .inl rfl⟩
      · rw [if_neg hre]
        have hrlen : (s.drop (n + 1)).length = s.length - (n + 1) := List.length_drop
        have hrpos : 0 < (s.drop (n + 1)).length := by
          cases hd : s.drop (n + 1) with
          | nil => rw [hd] at hre; simp at hre
          | cons x t => simp
        by_cases hcs : commentStart.isPrefixOf (s.drop n) = true
        · rw [if_pos hcs]
          have := isPrefixOf_len _ _ hcs
          have hl : (s.drop n).length = s.length - n := List.length_drop
          have h4 : commentStart.length = 4 := rfl
          exact ⟨by simp only []; omega, .inr ⟨rfl, by simp only []; omega⟩⟩
        · rw [if_neg hcs]
          generalize hr' : (if ((s.drop (n + 1)).head? == some 47) = true then (s.drop (n + 1)).drop 1
            else s.drop (n + 1)) = r'
          generalize hsk : (if ((s.drop (n + 1)).head? == some 47) = true then 2 else 1) = skip
          have hlen' : skip + r'.length = s.length - n := by
            by_cases hE : ((s.drop (n + 1)).head? == some 47) = true
            · rw [if_pos hE] at hr' hsk
              subst hr' hsk
              rw [List.length_drop]; omega
            · rw [if_neg hE] at hr' hsk
              subst hr' hsk
              omega
          have hskpos : 1 ≤ skip := by
            by_cases hE : ((s.drop (n + 1)).head? == some 47) = true
            · rw [if_pos hE] at hsk; omega
            · rw [if_neg hE] at hsk; omega
          split
          · exact ⟨Nat.le_refl _, .inl rfl⟩
          · have hm := eatTagName_le r'
            split
            · rename_i hm0
              have hmpos : (eatTagName r').1 ≠ 0 := by simpa using hm0
              exact ⟨by simp only []; omega, .inr ⟨rfl, by simp only []; omega⟩⟩
            · obtain ⟨i1, i2⟩ := ih (off + n + skip) r'
              refine ⟨by omega, ?_⟩
              rcases i2 with h | ⟨h1, h2⟩
              · exact .inl (by omega)
              · exact .inr ⟨h1, by omega⟩


theorem indexTagEndGo_le (tag : Bytes) : ∀ (f res : Nat) (s : Bytes) (k : Nat),
    indexTagEndGo tag f res s = some k → k ≤ res + s.length := by
  intro f
  induction f with
  | zero => intro res s k h; simp only [indexTagEndGo] at h; cases h
  | succ f ih =>
    intro res s k h
    simp only [indexTagEndGo] at h
    split at h
    · cases h
    · cases hi : indexSub specialTagEndPrefix s with
      | none => rw [hi] at h; cases h
      | some i =>
        rw [hi] at h
        simp only [] at h
        have hle := indexSub_le _ s i hi
        have h2 : specialTagEndPrefix.length = 2 := rfl
        have hl1 : (s.drop (i + specialTagEndPrefix.length)).length = s.length - (i + 2) := by
          rw [List.length_drop, h2]
        split at h
        · rename_i hcond
          have htl : tag.length ≤ (s.drop (i + specialTagEndPrefix.length)).length := by
            simp only [Bool.and_eq_true, decide_eq_true_eq] at hcond; exact hcond.1
          have hl2 : ((s.drop (i + specialTagEndPrefix.length)).drop tag.length).length =
              s.length - (i + 2) - tag.length := by rw [List.length_drop, hl1]
          split at h
          · split at h
            · cases h; omega
            · have := ih _ _ _ h
              rw [hl2] at this; rw [h2] at this; omega
          · have := ih _ _ _ h
            rw [hl2] at this; rw [h2] at this; omega
        · have := ih _ _ _ h
          rw [hl1] at this; rw [h2] at this; omega

theorem indexTagEnd_le (s tag : Bytes) (k : Nat) (h : indexTagEnd s tag = some k) : k ≤ s.length := by
  have := indexTagEndGo_le tag _ 0 s k h
  omega

/-- a step: at most `r` bytes are read; either at least one byte is read or the state changes -/
def StepLite (c : Ctx) (r : Nat) (res : Ctx × Nat) : Prop :=
  res.2 ≤ r ∧ (1 ≤ res.2 ∨ res.1.state ≠ c.state)

theorem transition_step (c : Ctx) (s : Bytes) (hs : s ≠ []) : StepLite c s.length (transition c s) := by
  have hpos : 0 < s.length := by cases s with | nil => exact absurd rfl hs | cons x t => simp
  unfold transition
  split
  · -- text
    rename_i hst
    obtain ⟨h1, h2⟩ := tTextGo_bound c (s.length + 1) 0 s
    unfold tText
    refine ⟨by omega, .inl ?_⟩
    rcases h2 with h | ⟨_, h⟩ <;> omega
  · -- specialBody
    rename_i hst
    unfold tSpecialTagEnd
    split
    · split
      · rename_i i hi
        exact ⟨indexTagEnd_le _ _ _ hi, .inr (by rw [hst]; simp)⟩
      · exact ⟨Nat.le_refl _, .inl hpos⟩
    · exact ⟨Nat.le_refl _, .inl hpos⟩
  · -- tag
    rename_i hst
    unfold tTag
    simp only []
    have hws := eatWhiteSpace_le s
    split
    · exact ⟨Nat.le_refl _, .inl hpos⟩
    · rename_i hne
      have hlt : eatWhiteSpace s < s.length := by
        have : eatWhiteSpace s ≠ s.length := by simpa using hne
        omega
      have hdl : (s.drop (eatWhiteSpace s)).length = s.length - eatWhiteSpace s := List.length_drop
      split
      · exact ⟨by simp only []; omega, .inl (by simp only []; omega)⟩
      · split
        · exact ⟨Nat.le_refl _, .inl hpos⟩
        · rename_i n hn
          have := eatAttrName_le _ n hn
          split
          · exact ⟨Nat.le_refl _, .inl hpos⟩
          · rename_i hn0
            have : n ≠ 0 := by simpa using hn0
            exact ⟨by simp only []; omega, .inl (by simp only []; omega)⟩
  · -- attrName
    rename_i hst
    unfold tAttrName
    split
    · exact ⟨Nat.le_refl _, .inl hpos⟩
    · rename_i i hi
      have := eatAttrName_le _ i hi
      split
      · exact ⟨this, .inr (by rw [hst]; simp)⟩
      · rename_i he
        have : i = s.length := by simpa using he
        exact ⟨by simp only []; omega, .inl (by simp only []; omega)⟩
  · -- afterName
    rename_i hst
    unfold tAfterName
    simp only []
    have hws := eatWhiteSpace_le s
    split
    · exact ⟨Nat.le_refl _, .inl hpos⟩
    · rename_i hne
      have hlt : eatWhiteSpace s < s.length := by
        have : eatWhiteSpace s ≠ s.length := by simpa using hne
        omega
      split
      · exact ⟨hws, .inr (by rw [hst]; simp)⟩
      · exact ⟨by simp only []; omega, .inl (by simp only []; omega)⟩
  · -- beforeValue
    rename_i hst
    unfold tBeforeValue
    simp only []
    have hws := eatWhiteSpace_le s
    split
    · exact ⟨Nat.le_refl _, .inl hpos⟩
    · rename_i hne
      have hlt : eatWhiteSpace s < s.length := by
        have : eatWhiteSpace s ≠ s.length := by simpa using hne
        omega
      split
      · exact ⟨by simp only []; omega, .inl (by simp only []; omega)⟩
      · exact ⟨by simp only []; omega, .inl (by simp only []; omega)⟩
      · exact ⟨hws, .inr (by rw [hst]; simp)⟩
  · -- htmlCmt
    rename_i hst
    unfold tHTMLCmt
    split
    · rename_i i hi
      have := indexSub_le _ s i hi
      have h3 : commentEnd.length = 3 := rfl
      exact ⟨by simp only []; omega, .inl (by simp only []; omega)⟩
    · exact ⟨Nat.le_refl _, .inl hpos⟩
  · exact ⟨Nat.le_refl _, .inl hpos⟩
  · exact ⟨Nat.le_refl _, .inl hpos⟩


/-! ### 3. the second context invariant: a delimiter is only set inside an attribute value -/

def DI (c : Ctx) : Prop := c.delim ≠ .none → c.state = .attr
def CtxOK (c : Ctx) : Prop := CI c ∧ DI c

theorem di_of_none {c : Ctx} (h : c.delim = .none) : DI c := fun h' => absurd h h'
theorem di_default : DI {} := di_of_none rfl
theorem di_errorCtx (code : ErrCode) : DI (Ctx.errorCtx code) := di_of_none rfl

theorem di_none_of_state {c : Ctx} (h : DI c) (hs : c.state ≠ .attr) : c.delim = .none := by
  cases hd : c.delim with
  | none => rfl
  | dq => exact absurd (h (by rw [hd]; simp)) hs
  | sq => exact absurd (h (by rw [hd]; simp)) hs
  | spaceOrTagEnd => exact absurd (h (by rw [hd]; simp)) hs

theorem tTextGo_di (c : Ctx) (hc : DI c) : ∀ f off s, DI (tTextGo c f off s).1 := by
  intro f
  induction f with
  | zero => intro off s; simp only [tTextGo]; exact hc
  | succ f ih =>
    intro off s
    simp only [tTextGo]
    repeat' split
    all_goals first
      | exact hc
      | exact ih _ _
      | exact di_of_none rfl

theorem transition_di (c : Ctx) (s : Bytes) (hc : DI c) : DI (transition c s).1 := by
  unfold transition
  split
  · exact tTextGo_di c hc _ _ _
  · unfold tSpecialTagEnd
    repeat' split
    all_goals first
      | exact di_default
      | exact hc
  · rename_i h
    unfold tTag
    simp only []
    repeat' split
    all_goals first
      | exact hc
      | exact di_errorCtx _
      | exact di_of_none rfl
  · rename_i h
    have hn := di_none_of_state hc (by rw [h]; simp)
    unfold tAttrName
    repeat' split
    all_goals first
      | exact hc
      | exact di_errorCtx _
      | exact di_of_none hn
  · rename_i h
    have hn := di_none_of_state hc (by rw [h]; simp)
    unfold tAfterName
    simp only []
    repeat' split
    all_goals first
      | exact hc
      | exact di_of_none hn
  · rename_i h
    unfold tBeforeValue
    simp only []
    repeat' split
    all_goals first
      | exact hc
      | exact fun _ => rfl
  · unfold tHTMLCmt
    repeat' split
    all_goals first
      | exact di_default
      | exact hc
  · exact hc
  · exact hc

theorem feedLoop_di : ∀ f c u, DI c → DI (feedLoop f c u) := by
  intro f
  induction f with
  | zero => intro c u h; simpa only [feedLoop] using h
  | succ f ih =>
    intro c u h
    simp only [feedLoop]
    split
    · exact h
    · exact ih _ _ (transition_di c u h)

theorem contextAfterText_di (c : Ctx) (s : Bytes) (h : DI c) : DI (contextAfterText c s).1 := by
  unfold contextAfterText
  split
  · simp only []
    split
    · unfold tSpecialTagEnd
      repeat' split
      all_goals first
        | exact di_default
        | exact h
    · exact transition_di c _ h
  · simp only []
    split
    · exact di_errorCtx _
    · split
      · apply feedLoop_di
        exact fun hd => h hd
      · apply di_of_none
        repeat' split
        all_goals rfl

theorem contextAfterText_ok (c : Ctx) (s : Bytes) (h : CtxOK c) : CtxOK (contextAfterText c s).1 :=
  ⟨contextAfterText_ci c s h.1, contextAfterText_di c s h.2⟩

theorem tSpecialTagEnd_le (c : Ctx) (s : Bytes) : (tSpecialTagEnd c s).2 ≤ s.length := by
  unfold tSpecialTagEnd
  split
  · split
    · rename_i i hi; exact indexTagEnd_le _ _ _ hi
    · exact Nat.le_refl _
  · exact Nat.le_refl _

/-- **every call of `contextAfterText` on non-empty input makes progress** -/
theorem contextAfterText_step (c : Ctx) (s : Bytes) (hc : CtxOK c) (hs : s ≠ []) :
    StepLite c s.length (contextAfterText c s) := by
  have hpos : 0 < s.length := by cases s with | nil => exact absurd rfl hs | cons x t => simp
  unfold contextAfterText
  split
  · -- no delimiter
    simp only []
    have hle := tSpecialTagEnd_le c s
    split
    · rename_i h0
      have h0' : (tSpecialTagEnd c s).2 = 0 := by simpa using h0
      exact ⟨Nat.zero_le _, .inr (special_zero_progress c s hc.1 hs h0')⟩
    · rename_i h0
      have hne : (tSpecialTagEnd c s).2 ≠ 0 := by simpa using h0
      have htk : s.take (tSpecialTagEnd c s).2 ≠ [] := by
        intro he
        have := congrArg List.length he
        rw [List.length_take] at this
        simp only [List.length_nil] at this
        omega
      obtain ⟨a, b⟩ := transition_step c _ htk
      rw [List.length_take] at a
      exact ⟨by omega, b⟩
  · -- inside a delimited attribute value
    rename_i hdel
    have hst : c.state = .attr := hc.2 (by intro h; rw [h] at hdel; simp at hdel)
    simp only []
    have hi : (indexAny (delimEnds c.delim) s).getD s.length ≤ s.length := by
      cases h : indexAny (delimEnds c.delim) s with
      | none => simp
      | some k => have := indexAny_lt _ s k h; simp; omega
    split
    · exact ⟨Nat.le_refl _, .inl hpos⟩
    · split
      · exact ⟨Nat.le_refl _, .inl hpos⟩
      · rename_i hne
        have hlt : (indexAny (delimEnds c.delim) s).getD s.length < s.length := by
          have : (indexAny (delimEnds c.delim) s).getD s.length ≠ s.length := by simpa using hne
          omega
        refine ⟨?_, ?_⟩
        · simp only []; split <;> omega
        · right
          simp only []
          rw [hst]
          repeat' split
          all_goals simp


/-! ### 4. the no-progress guard is dead code -/

/-- `escapeTextLoop` WITHOUT the no-progress guard (everything else verbatim) -/
def escapeTextLoopNG (csp : Bool) (s : Bytes) : Nat → ETState → Option ETState ⊕ ETResult
  | 0, _ => .inr .panic
  | f+1, st =>
    if st.i == s.length then .inl (some st)
    else if csp && onPrefix.isPrefixOf st.c.attrName then .inr (.done (Ctx.errorCtx .cspCompatibility) none)
    else
      let c := st.c
      let (c1, nread) := contextAfterText c (s.drop st.i)
      let i1 := st.i + nread
      let rcdata := lookupSC elementContent c.elemName == some SC.RCDATA
      let (b, written) :=
        if c.state == .text || rcdata then
          let e := if c1.state != c.state then lastLt s st.i i1 else i1
          ltLoop s (s.length + 1) st.i e st.b st.written
        else if isComment c.state && c.delim == .none then (st.b, i1)
        else (st.b, st.written)
      if c.state == .specialBody && c.elemName == scriptName && !isJsTemplateBalanced s then
        .inr (.done (Ctx.errorCtx .unbalancedJsTemplate) none)
      else
        let (b, written) :=
          if c.state != c1.state && isComment c1.state && c1.delim == .none then
            let cs := if c1.state == .htmlCmt then i1 - 4 else i1 - 2
            (b ++ (s.take cs).drop written, i1)
          else (b, written)
        escapeTextLoopNG csp s f { c := c1, i := i1, written := written, b := b }

/-- **The guard `i == i1 && c.state == c1.state` never fires**: from a context satisfying the invariants the loop
    with the guard IS the loop without it. (What remains of the panic is the exhaustion of the model's fuel
    `2·|s|+2`, which has no counterpart in the Go code.) -/
theorem guard_dead (csp : Bool) (s : Bytes) : ∀ (f : Nat) (st : ETState), CtxOK st.c → st.i ≤ s.length →
    escapeTextLoop csp s f st = escapeTextLoopNG csp s f st := by
  intro f
  induction f with
  | zero => intro st _ _; rfl
  | succ f ih =>
    intro st hc hi
    simp only [escapeTextLoop, escapeTextLoopNG]
    split
    · rfl
    · rename_i hne
      have hlt : st.i < s.length := by
        have : st.i ≠ s.length := by simpa using hne
        omega
      have hrest : s.drop st.i ≠ [] := by
        intro he
        have := congrArg List.length he
        rw [List.length_drop] at this
        simp only [List.length_nil] at this
        omega
      obtain ⟨hle, hprog⟩ := contextAfterText_step st.c (s.drop st.i) hc hrest
      rw [List.length_drop] at hle
      have hok := contextAfterText_ok st.c (s.drop st.i) hc
      split
      · rfl
      · split
        · rfl
        · -- the guard
          have hg : (st.i == st.i + (contextAfterText st.c (s.drop st.i)).2 &&
              st.c.state == (contextAfterText st.c (s.drop st.i)).1.state) = false := by
            rcases hprog with h | h
            · have : (st.i == st.i + (contextAfterText st.c (s.drop st.i)).2) = false := by
                simp only [beq_eq_false_iff_ne]; omega
              rw [this]; rfl
            · have : (st.c.state == (contextAfterText st.c (s.drop st.i)).1.state) = false := by
                simp only [beq_eq_false_iff_ne]; exact fun h' => h h'.symm
              rw [this]; simp
          rw [hg]
          simp only [Bool.false_eq_true, if_false]
          exact ih _ hok (by simp only []; omega)


/-! ### 5. the context invariants through `escapeText`, `nudge`, `join` and the six analysis functions -/

theorem ctxOK_errorCtx (code : ErrCode) : CtxOK (Ctx.errorCtx code) := ⟨ci_errorCtx code, di_errorCtx code⟩
theorem ctxOK_default : CtxOK {} := ⟨ci_default, di_default⟩

def LoopOK : Option ETState ⊕ ETResult → Prop
  | .inl (some st') => CtxOK st'.c
  | .inl none => True
  | .inr (.done c' _) => CtxOK c'
  | .inr .panic => True

theorem escapeTextLoop_ok (csp : Bool) (s : Bytes) : ∀ f st, CtxOK st.c → LoopOK (escapeTextLoop csp s f st) := by
  intro f
  induction f with
  | zero => intro st _; simp only [escapeTextLoop, LoopOK]
  | succ f ih =>
    intro st hc
    simp only [escapeTextLoop]
    split
    · exact hc
    · split
      · exact ctxOK_errorCtx _
      · split
        · exact ctxOK_errorCtx _
        · split
          · trivial
          · exact ih _ (contextAfterText_ok st.c _ hc)

theorem escapeText_ok (csp : Bool) (c : Ctx) (s : Bytes) (c' : Ctx) (nt : Option Bytes)
    (h : escapeText csp c s = .done c' nt) (hc : CtxOK c) : CtxOK c' := by
  unfold escapeText at h
  split at h
  · cases h; exact ctxOK_errorCtx _
  · have hp := escapeTextLoop_ok csp s (2 * s.length + 2) { c := c, i := 0, written := 0, b := [] } hc
    split at h
    · rename_i r heq
      rw [heq] at hp
      subst h
      exact hp
    · cases h
    · rename_i st heq
      rw [heq] at hp
      split at h <;> (cases h; exact hp)

theorem nudge_di (c : Ctx) (h : DI c) : DI (nudge c) := by
  unfold nudge
  split
  · rename_i hs; exact di_of_none (di_none_of_state (c := c) h (by rw [hs]; simp))
  · exact fun _ => rfl
  · rename_i hs; exact di_of_none (di_none_of_state (c := c) h (by rw [hs]; simp))
  · exact h

theorem nudge_ok (c : Ctx) (h : CtxOK c) : CtxOK (nudge c) := ⟨nudge_ci c h.1, nudge_di c h.2⟩

theorem di_ite {p : Prop} [Decidable p] {x y : Ctx} (hx : DI x) (hy : DI y) : DI (if p then x else y) := by
  split
  · exact hx
  · exact hy

theorem join_di (a b : Ctx) (ha : DI a) (hb : DI b) : DI (join a b) := by
  unfold join joinCore
  by_cases h1 : (a.state == State.error) = true
  · rw [if_pos h1]; exact ha
  · rw [if_neg h1]
    by_cases h2 : (b.state == State.error) = true
    · rw [if_pos h2]; exact hb
    · rw [if_neg h2]
      simp only []
      have hna : DI (nudge { a with
          elemNames := joinNames a.elemName b.elemName a.elemNames b.elemNames,
          attrNames := joinNames a.attrName b.attrName a.attrNames b.attrNames,
          ambiguous := a.ambiguous || (a.attrValue != b.attrValue) || b.ambiguous }) :=
        nudge_di _ (fun hd => ha hd)
      have hnb := nudge_di b hb
      refine di_ite (fun hd => ha hd) (di_ite (fun hd => ha hd) (di_ite (fun hd => ha hd) ?_))
      refine di_ite ?_ (di_errorCtx _)
      refine di_ite ?_ (di_errorCtx _)
      refine di_ite hna (di_ite hnb ?_)
      exact di_ite (fun hd => hna hd) (di_ite (fun hd => hna hd) (di_ite (fun hd => hna hd) (di_errorCtx _)))

theorem join_ok (a b : Ctx) (ha : CtxOK a) (hb : CtxOK b) : CtxOK (join a b) :=
  ⟨join_ci a b ha.1 hb.1, join_di a b ha.2 hb.2⟩


/-- every memoized context satisfies the context invariants -/
def MO (e : Esc) : Prop := ∀ p ∈ e.output, CtxOK p.2

theorem MO.lookup {e : Esc} (h : MO e) {n : String} {v : Ctx} (hl : alookup e.output n = some v) : CtxOK v :=
  h (n, v) (mem_of_alookup _ _ _ hl)

theorem MO.of_out {e e' : Esc} (h : MO e) (ho : e'.output = e.output) : MO e' := by
  unfold MO; rw [ho]; exact h

theorem MO.set {e : Esc} (h : MO e) (k : String) (v : Ctx) (hv : CtxOK v) :
    MO { e with output := aset e.output k v } := by
  intro p hp
  rcases mem_aset _ _ _ p hp with h1 | h1
  · exact h p h1
  · rw [h1]; exact hv

theorem escapeAction_ctx (env : Env) (tn : String) (e : Esc) (c : Ctx) (id : Nat) (p : Pipe) (r : Esc × Ctx)
    (h : escapeAction env tn e c id p = .ok r) (hc : CtxOK c) : CtxOK r.2 := by
  unfold escapeAction at h
  split at h
  · cases h; exact hc
  · simp only [] at h
    split at h
    · cases h
    · cases h; exact ctxOK_errorCtx _
    · split at h
      · cases h; exact nudge_ok c hc
      · split at h
        · cases h; exact ctxOK_errorCtx _
        · obtain ⟨e1, h1, h2⟩ := bind_ok h
          cases h2
          simp only []
          split
          · rename_i hst
            refine ⟨ci_of_ne (by simp), ?_⟩
            apply di_of_none
            have hn := nudge_di c hc.2
            apply di_none_of_state (c := nudge c) hn
            simp only [Bool.or_eq_true, beq_iff_eq] at hst
            rcases hst with h | h <;> (rw [h]; simp)
          · exact nudge_ok c hc

theorem escapeTextNode_ctx (env : Env) (tn : String) (e : Esc) (c : Ctx) (id : Nat) (b : Bytes) (r : Esc × Ctx)
    (h : escapeTextNode env tn e c id b = .ok r) (hc : CtxOK c) : CtxOK r.2 := by
  unfold escapeTextNode at h
  split at h
  · cases h
  · rename_i c' heq; cases h; exact escapeText_ok _ _ _ _ _ heq hc
  · rename_i c' nb heq
    obtain ⟨e1, _, h4⟩ := bind_ok h
    cases h4
    exact escapeText_ok _ _ _ _ _ heq hc

def NodeC (env : Env) (f : Nat) : Prop :=
  ∀ tn e c n, CtxOK c → MO e → OutK (fun r : Esc × Ctx => CtxOK r.2 ∧ MO r.1) (escapeNode env f tn e c n)
def ListC (env : Env) (f : Nat) : Prop :=
  ∀ tn e c l, CtxOK c → MO e → OutK (fun r : Esc × Ctx => CtxOK r.2 ∧ MO r.1) (escapeList env f tn e c l)
def BranchC (env : Env) (f : Nat) : Prop :=
  ∀ tn e c t el b, CtxOK c → MO e → OutK (fun r : Esc × Ctx => CtxOK r.2 ∧ MO r.1) (escapeBranch env f tn e c t el b)
def TreeC (env : Env) (f : Nat) : Prop :=
  ∀ e c name, CtxOK c → MO e → OutK (fun r : Esc × Ctx × String => CtxOK r.2.1 ∧ MO r.1) (escapeTree env f e c name)
def OutC (env : Env) (f : Nat) : Prop :=
  ∀ e c tname t, CtxOK c → MO e → OutK (fun r : Esc × Ctx => CtxOK r.2 ∧ MO r.1) (computeOutCtx env f e c tname t)
def BodyC (env : Env) (f : Nat) : Prop :=
  ∀ e c tname t, CtxOK c → MO e →
    OutK (fun r : Esc × Ctx × Bool => CtxOK r.2.1 ∧ MO r.1) (escapeTemplateBody env f e c tname t)

theorem outK_of {α} {Q : α → Prop} {x : Out α} (h : ∀ r, x = .ok r → Q r) : OutK Q x := by
  cases x with
  | ok a => exact h a rfl
  | panic m => trivial
  | fuel => trivial

theorem analysis_ctx (env : Env) : ∀ f,
    NodeC env f ∧ ListC env f ∧ BranchC env f ∧ TreeC env f ∧ OutC env f ∧ BodyC env f := by
  intro f
  induction f with
  | zero =>
    refine ⟨?_, ?_, ?_, ?_, ?_, ?_⟩
    · intro tn e c n _ _; simp only [escapeNode]; trivial
    · intro tn e c l _ _; simp only [escapeList]; trivial
    · intro tn e c t el b _ _; simp only [escapeBranch]; trivial
    · intro e c name _ _; simp only [escapeTree]; trivial
    · intro e c tname t _ _; simp only [computeOutCtx]; trivial
    · intro e c tname t _ _; simp only [escapeTemplateBody]; trivial
  | succ f ih =>
    obtain ⟨hn, hl, hb, ht, ho, hbd⟩ := ih
    refine ⟨?_, ?_, ?_, ?_, ?_, ?_⟩
    · -- node
      intro tn e c n hc hm
      cases n with
      | action id p =>
        simp only [escapeNode]
        exact outK_of fun r hr => ⟨escapeAction_ctx env tn e c id p r hr hc, hm.of_out (escapeAction_od env tn e c id p r hr).1⟩
      | text id b =>
        simp only [escapeNode]
        exact outK_of fun r hr => ⟨escapeTextNode_ctx env tn e c id b r hr hc, hm.of_out (escapeTextNode_od env tn e c id b r hr).1⟩
      | ifN id p t el => simp only [escapeNode]; exact hb _ _ _ _ _ _ hc hm
      | withN id p t el => simp only [escapeNode]; exact hb _ _ _ _ _ _ hc hm
      | rangeN id p t el => simp only [escapeNode]; exact hb _ _ _ _ _ _ hc hm
      | tmpl id name p =>
        simp only [escapeNode]
        apply OutK.bind (ht e c name hc hm)
        intro r hr
        split
        · unfold Esc.editTmpl
          split
          · trivial
          · exact ⟨hr.1, hr.2.of_out rfl⟩
        · exact hr
      | brk id => simp only [escapeNode]; exact ⟨ctxOK_errorCtx _, hm⟩
      | cont id => simp only [escapeNode]; exact ⟨ctxOK_errorCtx _, hm⟩
      | comment id => simp only [escapeNode]; exact ⟨ctxOK_errorCtx _, hm⟩
    · -- list
      intro tn e c l hc hm
      cases l with
      | nil => simp only [escapeList]; exact ⟨hc, hm⟩
      | cons n ns =>
        simp only [escapeList]
        apply OutK.bind (hn tn e c n hc hm)
        intro r hr
        exact hl tn r.1 r.2 ns hr.1 hr.2
    · -- branch
      intro tn e c t el b hc hm
      simp only [escapeBranch]
      apply OutK.bind (hl tn e c t hc hm)
      intro r hr
      apply OutK.bind (Q := fun j : Option Ctx => ∀ x, j = some x → CtxOK x)
      · split
        · apply OutK.bind (hl tn (scr r.1 r.1.output) r.2 t hr.1 (hr.2.of_out rfl))
          intro r2 hr2
          intro x hx
          cases hx
          exact join_ok _ _ hr.1 hr2.1
        · intro x hx; cases hx
      · intro j hj
        split
        · rename_i j'
          have hj' := hj j' rfl
          split
          · exact ⟨hj', hr.2⟩
          · apply OutK.bind (hl tn r.1 c el hc hr.2)
            intro r2 hr2
            exact ⟨join_ok _ _ hj' hr2.1, hr2.2⟩
        · apply OutK.bind (hl tn r.1 c el hc hr.2)
          intro r2 hr2
          exact ⟨join_ok _ _ hr.1 hr2.1, hr2.2⟩
    · -- tree
      intro e c name hc hm
      simp only [escapeTree]
      split
      · exact ⟨hc, hm⟩
      · split
        · rename_i out hout
          exact ⟨hm.lookup hout, hm.of_out rfl⟩
        · split
          · exact ⟨ctxOK_errorCtx _, hm.of_out rfl⟩
          · exact ⟨ctxOK_errorCtx _, hm.of_out rfl⟩
          · split
            · split
              · apply OutK.bind (ho _ c _ _ hc (by exact hm.of_out rfl))
                intro r hr; exact hr
              · apply OutK.bind (ho _ c _ _ hc (by exact hm.of_out rfl))
                intro r hr; exact hr
            · apply OutK.bind (ho _ c _ _ hc (by exact hm.of_out rfl))
              intro r hr; exact hr
    · -- computeOutCtx
      intro e c tname t hc hm
      simp only [computeOutCtx]
      apply OutK.bind (hbd e c tname t hc hm)
      intro r hr
      split
      · exact ⟨hr.1, hr.2.set tname _ hr.1⟩
      · apply OutK.bind (hbd r.1 r.2.1 tname t hr.1 hr.2)
        intro r2 hr2
        split
        · exact ⟨hr2.1, hr2.2.set tname _ hr2.1⟩
        · split
          · exact ⟨ctxOK_errorCtx _, hr2.2.set tname _ (ctxOK_errorCtx _)⟩
          · exact ⟨hr.1, hr2.2.set tname _ hr.1⟩
    · -- body
      intro e c tname t hc hm
      simp only [escapeTemplateBody]
      split
      · trivial
      · have hm0 : MO { e with output := aset e.output tname c } := hm.set tname c hc
        apply OutK.bind (hl tname (scr e (aset e.output tname c)) c _ hc (hm0.of_out rfl))
        intro r hr
        split
        · apply OutK.bind (Q := fun _ => True) (by cases mergeEdits e.actionEdits r.1.actionEdits <;> trivial)
          intro _ _
          apply OutK.bind (Q := fun _ => True) (by cases mergeEdits e.tmplEdits r.1.tmplEdits <;> trivial)
          intro _ _
          apply OutK.bind (Q := fun _ => True) (by cases mergeEdits e.textEdits r.1.textEdits <;> trivial)
          intro _ _
          refine ⟨hr.1, ?_⟩
          intro p hp
          rcases mem_foldl_aset _ _ p hp with h1 | h1
          · exact hm0 p h1
          · exact hr.2 p h1
        · exact ⟨hr.1, hm0.of_out rfl⟩


/-- between critical sections: `MO` is kept (the commit does not touch the memo) and holds for an empty memo -/
theorem mo_top (w w' : World) (ns : Nat) (name : String) (r : Option ErrCode) (h : MO (w.ns ns).esc)
    (ht : escapeTemplateTop w ns name = .inr (w', r)) : MO (w'.ns ns).esc := by
  obtain ⟨env, e1, c, d, _, hesc, hr⟩ := escapeTemplateTop_spec_env w ns name w' r ht
  have h1 : MO e1 := (((analysis_ctx env w.fuel).2.2.2.1 _ _ name ctxOK_default h).ok_of hesc).2
  rcases hr with ⟨code, _, hns⟩ | ⟨text2, e2, _, _, hc, hns⟩
  · rw [hns]; exact h1
  · rw [hns]; exact h1.of_out (commit_post _ _ _ _ hc).1

theorem mo_fresh (e : Esc) (ho : e.output = []) : MO e := by
  intro p hp; rw [ho] at hp; cases hp

/-- `escapeText` with the guard removed from its loop -/
def escapeTextNG (csp : Bool) (c : Ctx) (s : Bytes) : ETResult :=
  if csp && (indexSub jsUri s).isSome then .done (Ctx.errorCtx .cspCompatibility) none
  else
    match escapeTextLoopNG csp s (2 * s.length + 2) { c := c, i := 0, written := 0, b := [] } with
    | .inr r => r
    | .inl none => .panic
    | .inl (some st) =>
      if st.written != 0 && st.c.state != .error then
        let b := if !isComment st.c.state || st.c.delim != .none then st.b ++ s.drop st.written else st.b
        .done st.c (some b)
      else .done st.c none

/-- **`escapeText_no_guard`**: from a context satisfying the invariants — and `analysis_ctx` shows that every context
    the analysis ever passes to `escapeText` does, when the memo does (`MO`, kept by `mo_top`) — `escapeText` computes
    exactly what it computes without the no-progress guard. -/
theorem escapeText_no_guard (csp : Bool) (c : Ctx) (s : Bytes) (hc : CtxOK c) :
    escapeText csp c s = escapeTextNG csp c s := by
  unfold escapeText escapeTextNG
  rw [guard_dead csp s _ _ hc (Nat.zero_le _)]
  generalize escapeTextLoopNG csp s _ _ = L
  split
  · rfl
  · cases L with
    | inr r => rfl
    | inl o => cases o <;> rfl

/-! ### 6. a fuel bound for templates without `{{template}}` calls -/

mutual
def nodeNoCalls : Node → Prop
  | .tmpl _ _ _ => False
  | .ifN _ _ t e => listNoCalls t ∧ listNoCalls e
  | .rangeN _ _ t e => listNoCalls t ∧ listNoCalls e
  | .withN _ _ t e => listNoCalls t ∧ listNoCalls e
  | _ => True
def listNoCalls : NodeList → Prop
  | .nil => True
  | .cons n ns => nodeNoCalls n ∧ listNoCalls ns
end

mutual
/-- the fuel `escapeNode` / `escapeList` need (one unit per recursive call on the longest path) -/
def nodeNeed : Node → Nat
  | .ifN _ _ t e => 2 + max (listNeed t) (listNeed e)
  | .rangeN _ _ t e => 2 + max (listNeed t) (listNeed e)
  | .withN _ _ t e => 2 + max (listNeed t) (listNeed e)
  | _ => 1
def listNeed : NodeList → Nat
  | .nil => 1
  | .cons n ns => 1 + max (nodeNeed n) (listNeed ns)
end

theorem bind_fuel {α β} {x : Out α} {g : α → Out β} (h : (x >>= g) = .fuel) :
    x = .fuel ∨ ∃ a, x = .ok a ∧ g a = .fuel := by
  cases x with
  | ok a => exact .inr ⟨a, rfl, h⟩
  | panic m => cases h
  | fuel => exact .inl rfl

theorem escapeAction_ne_fuel (env : Env) (tn : String) (e : Esc) (c : Ctx) (id : Nat) (p : Pipe) :
    escapeAction env tn e c id p ≠ .fuel := by
  unfold escapeAction
  split
  · intro h; cases h
  · simp only []
    split
    · intro h; cases h
    · intro h; cases h
    · split
      · intro h; cases h
      · split
        · intro h; cases h
        · intro h
          rcases bind_fuel h with h1 | ⟨_, _, h2⟩
          · unfold Esc.editAction at h1; split at h1 <;> cases h1
          · cases h2

theorem escapeTextNode_ne_fuel (env : Env) (tn : String) (e : Esc) (c : Ctx) (id : Nat) (b : Bytes) :
    escapeTextNode env tn e c id b ≠ .fuel := by
  unfold escapeTextNode
  split
  · intro h; cases h
  · intro h; cases h
  · intro h
    rcases bind_fuel h with h1 | ⟨_, _, h2⟩
    · unfold Esc.editText at h1; split at h1 <;> cases h1
    · cases h2


theorem branch_fuel (env : Env) (t el : NodeList)
    (ht : ∀ f, listNeed t ≤ f → ∀ tn e c, escapeList env f tn e c t ≠ .fuel)
    (hel : ∀ f, listNeed el ≤ f → ∀ tn e c, escapeList env f tn e c el ≠ .fuel) :
    ∀ g, 1 + max (listNeed t) (listNeed el) ≤ g → ∀ tn e c b, escapeBranch env g tn e c t el b ≠ .fuel := by
  intro g hg tn e c b
  cases g with
  | zero => omega
  | succ k =>
    have hk1 : listNeed t ≤ k := by have := Nat.le_max_left (listNeed t) (listNeed el); omega
    have hk2 : listNeed el ≤ k := by have := Nat.le_max_right (listNeed t) (listNeed el); omega
    simp only [escapeBranch]
    intro h
    rcases bind_fuel h with h1 | ⟨r, _, h2⟩
    · exact ht k hk1 _ _ _ h1
    · rcases bind_fuel h2 with h3 | ⟨j, _, h4⟩
      · split at h3
        · rcases bind_fuel h3 with h5 | ⟨_, _, h6⟩
          · exact ht k hk1 _ _ _ h5
          · cases h6
        · cases h3
      · split at h4
        · split at h4
          · cases h4
          · rcases bind_fuel h4 with h5 | ⟨_, _, h6⟩
            · exact hel k hk2 _ _ _ h5
            · cases h6
        · rcases bind_fuel h4 with h5 | ⟨_, _, h6⟩
          · exact hel k hk2 _ _ _ h5
          · cases h6

mutual
theorem node_fuel (env : Env) : ∀ n, nodeNoCalls n → ∀ f, nodeNeed n ≤ f → ∀ tn e c, escapeNode env f tn e c n ≠ .fuel
  | .text id b, _, f, hf, tn, e, c => by
    simp only [nodeNeed] at hf
    cases f with
    | zero => omega
    | succ g => simp only [escapeNode]; exact escapeTextNode_ne_fuel env tn e c id b
  | .action id p, _, f, hf, tn, e, c => by
    simp only [nodeNeed] at hf
    cases f with
    | zero => omega
    | succ g => simp only [escapeNode]; exact escapeAction_ne_fuel env tn e c id p
  | .tmpl id name p, h, _, _, _, _, _ => by simp only [nodeNoCalls] at h
  | .ifN id p t el, h, f, hf, tn, e, c => by
    simp only [nodeNoCalls] at h
    simp only [nodeNeed] at hf
    cases f with
    | zero => omega
    | succ g =>
      simp only [escapeNode]
      exact branch_fuel env t el (list_fuel env t h.1) (list_fuel env el h.2) g (by omega) tn e c false
  | .rangeN id p t el, h, f, hf, tn, e, c => by
    simp only [nodeNoCalls] at h
    simp only [nodeNeed] at hf
    cases f with
    | zero => omega
    | succ g =>
      simp only [escapeNode]
      exact branch_fuel env t el (list_fuel env t h.1) (list_fuel env el h.2) g (by omega) tn e c true
  | .withN id p t el, h, f, hf, tn, e, c => by
    simp only [nodeNoCalls] at h
    simp only [nodeNeed] at hf
    cases f with
    | zero => omega
    | succ g =>
      simp only [escapeNode]
      exact branch_fuel env t el (list_fuel env t h.1) (list_fuel env el h.2) g (by omega) tn e c false
  | .brk id, _, f, hf, tn, e, c => by
    simp only [nodeNeed] at hf
    cases f with
    | zero => omega
    | succ g => simp only [escapeNode]; intro h; cases h
  | .cont id, _, f, hf, tn, e, c => by
    simp only [nodeNeed] at hf
    cases f with
    | zero => omega
    | succ g => simp only [escapeNode]; intro h; cases h
  | .comment id, _, f, hf, tn, e, c => by
    simp only [nodeNeed] at hf
    cases f with
    | zero => omega
    | succ g => simp only [escapeNode]; intro h; cases h
theorem list_fuel (env : Env) : ∀ l, listNoCalls l → ∀ f, listNeed l ≤ f → ∀ tn e c, escapeList env f tn e c l ≠ .fuel
  | .nil, _, f, hf, tn, e, c => by
    simp only [listNeed] at hf
    cases f with
    | zero => omega
    | succ g => simp only [escapeList]; intro h; cases h
  | .cons n ns, h, f, hf, tn, e, c => by
    simp only [listNoCalls] at h
    simp only [listNeed] at hf
    cases f with
    | zero => omega
    | succ g =>
      have h1 : nodeNeed n ≤ g := by have := Nat.le_max_left (nodeNeed n) (listNeed ns); omega
      have h2 : listNeed ns ≤ g := by have := Nat.le_max_right (nodeNeed n) (listNeed ns); omega
      simp only [escapeList]
      intro hh
      rcases bind_fuel hh with h3 | ⟨r, _, h4⟩
      · exact node_fuel env n h.1 g h1 _ _ _ h3
      · exact list_fuel env ns h.2 g h2 _ _ _ h4
end


theorem mergeEdits_ne_fuel {β} (from_ : List (EditKey × β)) : ∀ into, mergeEdits into from_ ≠ .fuel := by
  induction from_ with
  | nil => intro into h; cases h
  | cons q t ih =>
    intro into h
    unfold mergeEdits at h
    rw [List.foldlM_cons] at h
    rcases bind_fuel h with h1 | ⟨a, _, h2⟩
    · split at h1 <;> cases h1
    · exact ih a h2

theorem body_ne_fuel (env : Env) (g : Nat) (e : Esc) (c : Ctx) (tname : String) (tr : Tree)
    (hnc : listNoCalls tr.root) (hg : 1 + listNeed tr.root ≤ g) :
    escapeTemplateBody env g e c tname (some tr) ≠ .fuel := by
  cases g with
  | zero => omega
  | succ k =>
    simp only [escapeTemplateBody]
    intro h
    rcases bind_fuel h with h1 | ⟨r, _, h2⟩
    · exact list_fuel env tr.root hnc k (by omega) _ _ _ h1
    · split at h2
      · rcases bind_fuel h2 with h3 | ⟨_, _, h4⟩
        · exact mergeEdits_ne_fuel _ _ h3
        · rcases bind_fuel h4 with h5 | ⟨_, _, h6⟩
          · exact mergeEdits_ne_fuel _ _ h5
          · rcases bind_fuel h6 with h7 | ⟨_, _, h8⟩
            · exact mergeEdits_ne_fuel _ _ h7
            · cases h8
      · cases h2

theorem out_ne_fuel (env : Env) (f : Nat) (e : Esc) (c : Ctx) (tname : String) (tr : Tree)
    (hnc : listNoCalls tr.root) (hf : 2 + listNeed tr.root ≤ f) :
    computeOutCtx env f e c tname (some tr) ≠ .fuel := by
  cases f with
  | zero => omega
  | succ g =>
    simp only [computeOutCtx]
    intro h
    rcases bind_fuel h with h1 | ⟨r, _, h2⟩
    · exact body_ne_fuel env g e c tname tr hnc (by omega) h1
    · split at h2
      · cases h2
      · rcases bind_fuel h2 with h3 | ⟨r2, _, h4⟩
        · exact body_ne_fuel env g _ _ tname tr hnc (by omega) h3
        · split at h4
          · cases h4
          · split at h4 <;> cases h4

theorem edits_ne_fuel (e' : Esc) (names : List String) : ∀ (ts : TextSet), names.foldlM (editStep e') ts ≠ .fuel := by
  induction names with
  | nil => intro ts h; cases h
  | cons n t ih =>
    intro ts h
    rw [List.foldlM_cons] at h
    rcases bind_fuel h with h3 | ⟨a, _, h4⟩
    · unfold editStep at h3
      split at h3
      · split at h3 <;> cases h3
      · cases h3
    · exact ih a h4

theorem commit_ne_fuel (text : TextSet) (e : Esc) : commit text e ≠ .fuel := by
  intro h
  unfold commit at h
  simp only [] at h
  split at h
  · cases h
  · rcases bind_fuel h with h1 | ⟨_, _, h2⟩
    · exact edits_ne_fuel _ _ _ h1
    · cases h2

/-- **Fuel bound, templates without `{{template}}` calls.** If the tree analysed for `name` contains no `{{template}}`
    node, the analysis needs `3 + listNeed root` units of fuel (`listNeed` = 1 + length of the longest path of
    list/branch recursion; at most `2 · size + 1`), so with that much fuel `escapeTemplateTop` never answers `.fuel`. -/
theorem top_no_fuel_nocalls (w : World) (ns : Nat) (name : String) (hf : 1 ≤ w.fuel)
    (htr : ∀ tr, TreeOf (w.ns ns).text (w.ns ns).esc name tr → listNoCalls tr.root ∧ 3 + listNeed tr.root ≤ w.fuel) :
    escapeTemplateTop w ns name ≠ .inl .fuel := by
  intro h
  unfold escapeTemplateTop at h
  simp only [] at h
  split at h
  · cases h
  · rename_i hesc
    -- the analysis itself
    cases hfu : w.fuel with
    | zero => omega
    | succ f =>
      rw [hfu] at hesc
      simp only [escapeTree, mangle_text, show (State.text == State.error) = false from rfl,
        Bool.false_eq_true, if_false] at hesc
      split at hesc
      · cases hesc
      · split at hesc
        · cases hesc
        · cases hesc
        · rename_i tr htmpl
          simp only [bne_self_eq_false, Bool.false_eq_true, if_false] at hesc
          rcases bind_fuel hesc with h1 | ⟨_, _, h2⟩
          · have htree : TreeOf (w.ns ns).text (w.ns ns).esc name tr := by
              unfold Esc.template at htmpl
              simp only [] at htmpl
              split at htmpl
              · rename_i t hl; cases htmpl; exact .inl hl
              · cases hd : alookup (w.ns ns).esc.derived name with
                | none => rw [hd] at htmpl; cases htmpl
                | some d =>
                  rw [hd] at htmpl
                  simp only [Option.map_some, Option.some.injEq] at htmpl
                  subst htmpl
                  exact .inr (mem_of_alookup _ _ _ hd)
            obtain ⟨a, b⟩ := htr tr htree
            exact out_ne_fuel _ f _ _ name tr a (by omega) h1
          · cases h2
  · split at h
    · cases h
    · split at h
      · cases h
      · rename_i hc; exact commit_ne_fuel _ _ hc
      · cases h

/-! ### Summary

(1) The no-progress guard of `escapeText`.
* (a) scanners: `indexByte_lt`, `indexAny_lt`, `indexSub_le`, `eatWhiteSpace_le`, `eatAttrName_le`, `eatTagName_le`,
  `indexTagEnd_le`; `tTextGo_bound`; **`transition_step`**: every transition function (`tText`, `tTag`, `tAttrName`,
  `tAfterName`, `tBeforeValue`, `tHTMLCmt`, `tSpecialTagEnd`, `tAttr`, `tError`) on non-empty input reads at most |s|
  bytes and either at least one byte or changes the state; **`contextAfterText_step`** the same for `contextAfterText`
  under `CtxOK` = `CI` (state text ⇒ element not special, from NoPanic3) ∧ `DI` (delimiter set ⇒ state attr);
  `transition_di`, `contextAfterText_ok`, `nudge_ok`, `join_ok`, `escapeText_ok`: `CtxOK` is preserved.
* **`guard_dead`**: from a `CtxOK` context with `i ≤ |s|`, `escapeTextLoop` equals `escapeTextLoopNG`, the same loop
  with the guard `i == i1 && c.state == c1.state` deleted — the guard never fires. **`escapeText_no_guard`**:
  `escapeText csp c s = escapeTextNG csp c s` for `CtxOK c`. This is the statement about the real package: its loop has
  the guard (a `panic`) and no fuel.
* (b) **`analysis_ctx`** (six functions): with `MO e` (every memoized context is `CtxOK`) and a `CtxOK` start context, all
  result contexts are `CtxOK` and `MO` is kept — so every context the analysis hands to `escapeText` (start contexts of
  derived templates, memo hits, `join`, `nudge`, actions) satisfies the invariants; `mo_top` (kept by every critical
  section), `mo_fresh`.
* (c) NOT done: the exhaustion of the MODEL's fuel `2·|s|+2` of `escapeTextLoop` (same message, no counterpart in Go).
  The natural potential `2·remaining + z(state)` (z = 2 for attrName/beforeValue, 1 for afterName/attr/specialBody, 0
  otherwise) decreases at every step EXCEPT the zero-byte return of `tSpecialTagEnd` from state `tag`/… with a special
  element name, and giving that case a bonus makes the initial potential exceed the fuel by one for start states
  attrName/beforeValue inside a special element; an exact argument needs a potential that looks at the remaining input
  (either the special end tag is at the current offset — one zero step — or the ordinary chain of at most two).
  Therefore `C08_step_panics` is NOT strengthened: "infinite loop in escapeText" stays in the list, now known to be
  reachable only through the model-only fuel of `escapeTextLoop`, never through the guard.
(2) Fuel of the analysis: `nodeNeed`/`listNeed` (one unit per nested list/branch recursion), `node_fuel`/`list_fuel`
  (mutual, for trees without `{{template}}` nodes), `body_ne_fuel`, `out_ne_fuel`, `commit_ne_fuel`,
  **`top_no_fuel_nocalls`**: if the tree analysed for `name` has no `{{template}}` node and
  `w.fuel ≥ 3 + listNeed root`, then `escapeTemplateTop w ns name ≠ .inl .fuel`.
  NOT done: trees with `{{template}}` calls (each call adds `3 + listNeed callee` along the path and the set of mangled
  names reachable must be bounded: at most (number of templates) × (number of distinct contexts), the latter being
  finite but large); calls from the text context only would need the same bookkeeping for the memo.
-/

end SafeHtml.Proofs.NoPanic4
