/-
More facts about the UTF-8 model (extends Proofs/Utf8.lean without touching it):
decoding never looks past / never swallows an ASCII byte, shape of a decoded symbol,
bytes of an encoded rune, decode ∘ encode round trip for scalar values.
-/
import SafeHtml.Proofs.Utf8
namespace SafeHtml
namespace Utf8

def asciiSym (b : Nat) : Sym := ⟨b, [b]⟩

theorem decodeSyms_ascii_prefix (a rest : Bytes) (h : ∀ b ∈ a, b < 128) :
    decodeSyms (a ++ rest) = a.map asciiSym ++ decodeSyms rest := by
  induction a with
  | nil => rfl
  | cons b t ih =>
    have hb : b < 128 := h b (by simp)
    simp only [List.cons_append, List.map_cons]
    rw [decodeSyms_cons_ascii _ _ hb, ih (fun x hx => h x (by simp [hx]))]
    rfl

/-- an ASCII byte is never taken for a continuation byte -/
theorem decode1_append_ascii (b : Nat) (t : Bytes) (c : Nat) (rest : Bytes) (hc : c < 128) :
    decode1 b (t ++ c :: rest) = decode1 b t := by
  have hcc : isCont c = false := by simp [isCont]; omega
  match t with
  | [] => 
    simp only [List.nil_append, decode1, hcc]
    repeat' split
    all_goals (first | rfl | (simp_all; done) | (simp_all; omega))
  | [b1] => 
    simp only [List.cons_append, List.nil_append, decode1, hcc]
    repeat' split
    all_goals (first | rfl | (simp_all; done) | (simp_all; omega))
  | [b1, b2] => 
    simp only [List.cons_append, List.nil_append, decode1, hcc]
    repeat' split
    all_goals (first | rfl | (simp_all; done) | (simp_all; omega))
  | b1 :: b2 :: b3 :: t3 => 
    simp only [List.cons_append, decode1]

theorem decodeSyms_append_ascii (c : Nat) (rest : Bytes) (hc : c < 128) :
    ∀ p : Bytes, decodeSyms (p ++ c :: rest) = decodeSyms p ++ decodeSyms (c :: rest) := by
  intro p
  induction p using decode_induction with
  | hnil => simp [decodeSyms_nil]
  | hcons b t ih =>
    have hw1 := decode1_width_pos b t
    have hw2 := decode1_width_le b t
    rw [List.cons_append, decodeSyms_cons, decode1_append_ascii b t c rest hc, decodeSyms_cons b t]
    rw [← List.cons_append, List.take_append_of_le_length hw2, List.drop_append_of_le_length hw2, ih]
    simp

theorem decode1_le (b : Nat) (t : Bytes) : (decode1 b t).1 ≤ 0x10FFFF := by
  unfold decode1
  repeat' split
  all_goals (simp only [runeError])
  all_goals (try omega)
  all_goals (simp_all [isCont]; try omega)
  all_goals (split <;> simp <;> omega)

/-- shape of one decoded symbol -/
def SymOK (x : Sym) : Prop :=
  (x.rune < 128 ∧ x.bytes = [x.rune]) ∨
  (128 ≤ x.rune ∧ x.rune ≤ 0x10FFFF ∧ ∀ b ∈ x.bytes, 128 ≤ b)

theorem decode1_bytes_nonascii (b : Nat) (t : Bytes) (hb : 128 ≤ b) :
    ∀ y ∈ (b :: t).take (decode1 b t).2, 128 ≤ y := by
  unfold decode1
  repeat' split
  all_goals (simp only [List.take_succ_cons, List.take_zero, List.mem_cons, List.not_mem_nil, or_false])
  all_goals (try (intro y hy; omega))
  all_goals (simp_all [isCont]; try omega)
  all_goals (split <;> simp <;> omega)

theorem decode1_symOK (b : Nat) (t : Bytes) :
    SymOK ⟨(decode1 b t).1, (b :: t).take (decode1 b t).2⟩ := by
  by_cases hb : b < 128
  · left; rw [decode1_ascii b t hb]; simp [hb]
  · right
    exact ⟨decode1_nonascii b t (by omega), decode1_le b t, decode1_bytes_nonascii b t (by omega)⟩

theorem decodeSyms_symOK (s : Bytes) : ∀ x ∈ decodeSyms s, SymOK x := by
  induction s using decode_induction with
  | hnil => simp [decodeSyms_nil]
  | hcons b t ih =>
    rw [decodeSyms_cons]
    intro x hx
    rcases List.mem_cons.1 hx with rfl | hx
    · exact decode1_symOK b t
    · exact ih x hx

theorem sym_bytes_subset (s : Bytes) (x : Sym) (hx : x ∈ decodeSyms s) : ∀ b ∈ x.bytes, b ∈ s := by
  intro b hb
  have : b ∈ symsBytes (decodeSyms s) := by
    simp only [symsBytes, List.mem_flatMap]; exact ⟨x, hx, hb⟩
  rwa [symsBytes_decodeSyms] at this

/-- every byte of an encoded non-ASCII rune is non-ASCII -/
theorem encodeRune_nonascii (r : Nat) (h : 128 ≤ r) : ∀ b ∈ encodeRune r, 128 ≤ b := by
  unfold encodeRune
  have : ¬ r < 0x80 := by omega
  simp only [this, if_false]
  split
  · simp; omega
  split
  · simp
  split
  · simp; omega
  · simp; omega

theorem encodeRune_ascii (r : Nat) (h : r < 128) : encodeRune r = [r] := by
  simp [encodeRune, h]

/-- an ASCII prefix of the decoded code points is a prefix of the bytes -/
theorem runes_ascii_prefix : ∀ (a : List Nat), (∀ b ∈ a, b < 128) → ∀ (x : Bytes) (q : List Nat),
    decodeRunes x = a ++ q → ∃ x', x = a ++ x' := by
  intro a
  induction a with
  | nil => intro _ x q _; exact ⟨x, rfl⟩
  | cons c a ih =>
    intro ha x q hx
    cases x with
    | nil => simp [decodeRunes, decodeSyms_nil] at hx
    | cons b t =>
      unfold decodeRunes at hx
      rw [decodeSyms_cons] at hx
      simp only [List.map_cons, List.cons_append, List.cons.injEq] at hx
      have hc : c < 128 := ha c (by simp)
      have hb : b < 128 := by
        by_cases hb : b < 128
        · exact hb
        · have := decode1_nonascii b t (by omega); omega
      rw [decode1_ascii b t hb] at hx
      simp only [List.drop_succ_cons, List.drop_zero] at hx
      obtain ⟨x', hx'⟩ := ih (fun y hy => ha y (by simp [hy])) t q hx.2
      exact ⟨x', by rw [hx', ← hx.1]; rfl⟩

end Utf8
end SafeHtml
