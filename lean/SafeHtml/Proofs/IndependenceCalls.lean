/-
C06, first half, continued: history independence of the FIRST analysis for templates WITH `{{template}}` calls
(calls in the plain text context, call-free callees), on top of a "memo correctness in the text context" invariant of
all reachable worlds.  (summary at the end of the file)
-/
import SafeHtml.Proofs.Independence
namespace SafeHtml.Proofs.IndependenceCalls

/-! # part: ICCtx -/
section
open SafeHtml SafeHtml.Model.Tmpl SafeHtml.Proofs.Frozen SafeHtml.Proofs.ConcApi SafeHtml.Proofs.ConcReach
  SafeHtml.Proofs.NoPanic SafeHtml.Proofs.NoPanic2 SafeHtml.Proofs.NoPanic3 SafeHtml.Proofs.NoPanic4
  SafeHtml.Proofs.Independence

/-! ### a context invariant: a top-level text context is literally the default context -/

def CtxInv (c : Ctx) : Prop :=
  (c.elemName = [] → c.elemNames = [] → c.scriptType = [] ∧ c.linkRel = []) ∧
  (c.state = .text → c.delim = .none ∧ c.attrName = [] ∧ c.attrValue = [] ∧ c.ambiguous = false ∧
     c.attrNames = [] ∧ c.err = none)

theorem ctxInv_default : CtxInv {} :=
  ⟨fun _ _ => ⟨rfl, rfl⟩, fun _ => ⟨rfl, rfl, rfl, rfl, rfl, rfl⟩⟩

/-- a context outside state `text` only has to satisfy the first component -/
theorem ci_nt {c : Ctx} (hs : c.state ≠ .text)
    (h1 : c.elemName = [] → c.elemNames = [] → c.scriptType = [] ∧ c.linkRel = []) : CtxInv c :=
  ⟨h1, fun h => absurd h hs⟩

theorem ctxInv_errorCtx (code : ErrCode) : CtxInv (Ctx.errorCtx code) :=
  ci_nt (by simp [Ctx.errorCtx]) (fun _ _ => ⟨rfl, rfl⟩)

theorem ci_text_eq (c : Ctx) (h : CtxInv c) (hs : c.state = .text) (h1 : c.elemName = []) (h2 : c.elemNames = []) :
    c = {} := by
  obtain ⟨ha, hb⟩ := h
  obtain ⟨a1, a2⟩ := ha h1 h2
  obtain ⟨b1, b2, b3, b4, b5, b6⟩ := hb hs
  cases c
  simp only [] at hs h1 h2 a1 a2 b1 b2 b3 b4 b5 b6
  subst hs h1 h2 a1 a2 b1 b2 b3 b4 b5 b6
  rfl

/-! ### transition -/

theorem tTextGo_ctxInv (c : Ctx) (hc : CtxInv c) : ∀ f off s, CtxInv (tTextGo c f off s).1 := by
  intro f
  induction f with
  | zero => intro off s; simp only [tTextGo]; exact hc
  | succ f ih =>
    intro off s
    simp only [tTextGo]
    repeat' split
    all_goals first
      | exact hc
      | exact ih _ _
      | exact ci_nt (by simp) (fun _ _ => ⟨rfl, rfl⟩)

theorem ci_transition (c : Ctx) (s : Bytes) (h : CtxInv c) : CtxInv (transition c s).1 := by
  unfold transition
  split
  · exact tTextGo_ctxInv c h _ _ _
  · unfold tSpecialTagEnd
    repeat' split
    all_goals first
      | exact ctxInv_default
      | exact h
  · rename_i hst
    unfold tTag
    simp only []
    split
    · exact h
    · split
      · split
        · exact ⟨fun _ _ => ⟨rfl, rfl⟩, fun _ => ⟨rfl, rfl, rfl, rfl, rfl, rfl⟩⟩
        · exact ⟨fun h1 h2 => h.1 h1 h2, fun _ => ⟨rfl, rfl, rfl, rfl, rfl, rfl⟩⟩
      · repeat' split
        all_goals first
          | exact ctxInv_errorCtx _
          | exact ci_nt (by simp) (fun h1 h2 => ⟨rfl, (h.1 h1 h2).2⟩)
          | exact ci_nt (by simp; split <;> simp) (fun h1 h2 => ⟨rfl, (h.1 h1 h2).2⟩)
  · rename_i hst
    unfold tAttrName
    repeat' split
    all_goals first
      | exact ctxInv_errorCtx _
      | exact h
      | exact ci_nt (by simp) h.1
  · rename_i hst
    unfold tAfterName
    simp only []
    repeat' split
    all_goals first
      | exact h
      | exact ci_nt (by simp) h.1
  · rename_i hst
    unfold tBeforeValue
    simp only []
    repeat' split
    all_goals first
      | exact h
      | exact ci_nt (by simp) h.1
  · rename_i hst
    unfold tHTMLCmt
    repeat' split
    all_goals first
      | exact ctxInv_default
      | exact h
  · exact h
  · exact h

theorem feedLoop_ctxInv : ∀ f c u, CtxInv c → CtxInv (feedLoop f c u) := by
  intro f
  induction f with
  | zero => intro c u h; simpa only [feedLoop] using h
  | succ f ih =>
    intro c u h
    simp only [feedLoop]
    split
    · exact h
    · exact ih _ _ (ci_transition c u h)

theorem scriptName_ne : scriptName ≠ [] := by decide
theorem linkName_ne : linkName ≠ [] := by decide

theorem ci_contextAfterText (c : Ctx) (s : Bytes) (h : CtxInv c) : CtxInv (contextAfterText c s).1 := by
  unfold contextAfterText
  split
  · simp only []
    split
    · unfold tSpecialTagEnd
      repeat' split
      all_goals first
        | exact ctxInv_default
        | exact h
    · exact ci_transition c _ h
  · rename_i hd
    have hnt : c.state ≠ .text := by
      intro hst
      have := (h.2 hst).1
      rw [this] at hd
      exact hd rfl
    simp only []
    split
    · exact ctxInv_errorCtx _
    · split
      · apply feedLoop_ctxInv
        exact ci_nt hnt h.1
      · by_cases hs1 : (c.state == State.attr && c.elemName == scriptName && c.attrName == typeName) = true
        · have hne : c.elemName ≠ [] := by
            simp only [Bool.and_eq_true, beq_iff_eq] at hs1
            rw [hs1.1.2]; exact scriptName_ne
          rw [if_pos hs1]
          split
          · exact ci_nt (by simp) (fun h1 _ => absurd h1 hne)
          · exact ci_nt (by simp) (fun h1 _ => absurd h1 hne)
        · rw [if_neg hs1]
          split
          · rename_i hs2
            have hne : c.elemName ≠ [] := by
              simp only [Bool.and_eq_true, beq_iff_eq] at hs2
              rw [hs2.1.1.2]; exact linkName_ne
            exact ci_nt (by simp) (fun h1 _ => absurd h1 hne)
          · exact ci_nt (by simp) h.1

/-! ### escapeText -/

def CIPost : Option ETState ⊕ ETResult → Prop
  | .inl (some st') => CtxInv st'.c
  | .inl none => True
  | .inr (.done c' _) => CtxInv c'
  | .inr .panic => True

theorem escapeTextLoop_cipost (csp : Bool) (s : Bytes) : ∀ f st, CtxInv st.c →
    CIPost (escapeTextLoop csp s f st) := by
  intro f
  induction f with
  | zero => intro st _; simp only [escapeTextLoop, CIPost]
  | succ f ih =>
    intro st hci
    simp only [escapeTextLoop]
    split
    · exact hci
    · split
      · exact ctxInv_errorCtx _
      · split
        · exact ctxInv_errorCtx _
        · split
          · trivial
          · exact ih _ (ci_contextAfterText st.c (s.drop st.i) hci)

theorem ci_escapeText (csp : Bool) (c : Ctx) (s : Bytes) (c' : Ctx) (nt : Option Bytes) (h : CtxInv c)
    (hr : escapeText csp c s = .done c' nt) : CtxInv c' := by
  unfold escapeText at hr
  split at hr
  · cases hr; exact ctxInv_errorCtx _
  · have hp := escapeTextLoop_cipost csp s (2 * s.length + 2) { c := c, i := 0, written := 0, b := [] } h
    split at hr
    · rename_i r heq
      rw [heq] at hp
      subst hr
      exact hp
    · cases hr
    · rename_i st heq
      rw [heq] at hp
      split at hr <;> (cases hr; exact hp)

/-! ### nudge -/

theorem ci_nudge (c : Ctx) (h : CtxInv c) : CtxInv (nudge c) := by
  unfold nudge
  split
  · exact ci_nt (by simp) h.1
  · exact ci_nt (by simp) h.1
  · exact ci_nt (by simp) h.1
  · exact h

/-- `nudge` never produces state `text` from another state -/
theorem nudge_text (c : Ctx) (h : (nudge c).state = .text) : nudge c = c ∧ c.state = .text := by
  unfold nudge at h ⊢
  split at h
  · cases h
  · cases h
  · cases h
  · exact ⟨rfl, h⟩

/-! ### join -/

def jadd (acc : List Bytes) (n : Bytes) : List Bytes := if acc.contains n then acc else acc ++ [n]

theorem jadd_ne (acc : List Bytes) (n : Bytes) : jadd acc n ≠ [] := by
  unfold jadd
  split
  · rename_i h
    intro h0
    rw [h0] at h
    cases h
  · cases acc <;> simp

theorem foldl_jadd_nil : ∀ (l : List Bytes) (r : List Bytes), l.foldl jadd r = [] → r = [] ∧ l = [] := by
  intro l
  induction l with
  | nil => intro r h; exact ⟨h, rfl⟩
  | cons x t ih =>
    intro r h
    rw [List.foldl_cons] at h
    exact absurd (ih _ h).1 (jadd_ne r x)

theorem joinNames_eq (x y : Bytes) (xs ys : List Bytes) :
    joinNames x y xs ys =
      ys.foldl jadd (if x != y then jadd (jadd (xs.foldl jadd []) x) y else xs.foldl jadd []) := rfl

theorem joinNames_nil (x y : Bytes) (xs ys : List Bytes) (h : joinNames x y xs ys = []) :
    xs = [] ∧ ys = [] ∧ x = y := by
  rw [joinNames_eq] at h
  obtain ⟨h1, h2⟩ := foldl_jadd_nil _ _ h
  split at h1
  · exact absurd h1 (jadd_ne _ _)
  · rename_i hne
    refine ⟨(foldl_jadd_nil _ _ h1).2, h2, ?_⟩
    simpa using hne

theorem joinNames_nil_nil : joinNames [] [] [] [] = [] := rfl

/-- the recomputation of the name lists and of the ambiguity flag at the beginning of `join` -/
def jstep (a b : Ctx) : Ctx :=
  { a with elemNames := joinNames a.elemName b.elemName a.elemNames b.elemNames,
           attrNames := joinNames a.attrName b.attrName a.attrNames b.attrNames,
           ambiguous := a.ambiguous || (a.attrValue != b.attrValue) || b.ambiguous }

/-- `CtxInv` without the two fields that `jstep` recomputes -/
def W (c : Ctx) : Prop :=
  (c.elemName = [] → c.elemNames = [] → c.scriptType = [] ∧ c.linkRel = []) ∧
  (c.state = .text → c.delim = .none ∧ c.attrName = [] ∧ c.attrValue = [] ∧ c.err = none)

theorem w_of_ci {c : Ctx} (h : CtxInv c) : W c :=
  ⟨h.1, fun hs => ⟨(h.2 hs).1, (h.2 hs).2.1, (h.2 hs).2.2.1, (h.2 hs).2.2.2.2.2⟩⟩

theorem w_jstep (a b : Ctx) (h : W a) : W (jstep a b) := by
  refine ⟨fun h1 h2 => ?_, fun hs => h.2 hs⟩
  exact h.1 h1 (joinNames_nil _ _ _ _ h2).1

theorem w_nudge (c : Ctx) (h : W c) : W (nudge c) := by
  unfold nudge
  split
  · exact ⟨h.1, fun hs => by cases hs⟩
  · exact ⟨h.1, fun hs => by cases hs⟩
  · exact ⟨h.1, fun hs => by cases hs⟩
  · exact h

theorem ctxInv_ite {p : Prop} [Decidable p] {x y : Ctx} (hx : p → CtxInv x) (hy : ¬ p → CtxInv y) :
    CtxInv (if p then x else y) := by
  split
  · exact hx ‹_›
  · exact hy ‹_›

theorem bor3_false : (false || (([] : Bytes) != []) || false) = false := rfl

/-- the three-way choice of `join` -/
theorem join3_ctxInv (a b fb : Ctx) (ha : W a) (hb : CtxInv b)
    (hamb : a.state = .text → b.state = .text → a.ambiguous = false ∧ a.attrNames = [])
    (hfb : CtxInv fb) :
    CtxInv (if (jstep a b).eq b then jstep a b
        else if ({ jstep a b with elemName := b.elemName }).eq b then { jstep a b with elemName := b.elemName }
        else if ({ jstep a b with attrName := b.attrName }).eq b then { jstep a b with attrName := b.attrName }
        else fb) := by
  -- the second component, common to the three cases
  have second : ∀ r : Ctx, r.state = a.state → r.state = b.state → r.delim = a.delim →
      (r.attrName = a.attrName ∨ r.attrName = b.attrName) → r.attrValue = a.attrValue →
      r.ambiguous = (a.ambiguous || (a.attrValue != b.attrValue) || b.ambiguous) →
      r.attrNames = joinNames a.attrName b.attrName a.attrNames b.attrNames → r.err = a.err →
      (r.state = .text → r.delim = .none ∧ r.attrName = [] ∧ r.attrValue = [] ∧ r.ambiguous = false ∧
        r.attrNames = [] ∧ r.err = none) := by
    intro r e1 e2 e3 e4 e5 e6 e7 e8 hs
    have hsa : a.state = .text := e1 ▸ hs
    have hsb : b.state = .text := e2 ▸ hs
    obtain ⟨a1, a2, a3, a4⟩ := ha.2 hsa
    obtain ⟨a5, a6⟩ := hamb hsa hsb
    obtain ⟨b1, b2, b3, b4, b5, b6⟩ := hb.2 hsb
    refine ⟨e3.trans a1, ?_, e5.trans a3, ?_, ?_, e8.trans a4⟩
    · rcases e4 with e4 | e4
      · exact e4.trans a2
      · exact e4.trans b2
    · rw [e6, a5, a3, b3, b4]; rfl
    · rw [e7, a2, b2, a6, b5]; rfl
  refine ctxInv_ite (fun h1 => ?_) (fun _ => ctxInv_ite (fun h2 => ?_) (fun _ => ctxInv_ite (fun h3 => ?_) (fun _ => hfb)))
  · have hst := (eq_state h1).1
    refine ⟨fun e1 e2 => ?_, second _ rfl hst rfl (Or.inl rfl) rfl rfl rfl rfl⟩
    exact ha.1 e1 (joinNames_nil _ _ _ _ e2).1
  · have hst := (eq_state h2).1
    refine ⟨fun e1 e2 => ?_, second _ rfl hst rfl (Or.inl rfl) rfl rfl rfl rfl⟩
    obtain ⟨n1, _, n3⟩ := joinNames_nil _ _ _ _ e2
    exact ha.1 (n3.trans e1) n1
  · have hst := (eq_state h3).1
    refine ⟨fun e1 e2 => ?_, second _ rfl hst rfl (Or.inr rfl) rfl rfl rfl rfl⟩
    exact ha.1 e1 (joinNames_nil _ _ _ _ e2).1

theorem ci_join (a b : Ctx) (ha : CtxInv a) (hb : CtxInv b) : CtxInv (join a b) := by
  unfold join joinCore
  by_cases h1 : (a.state == State.error) = true
  · rw [if_pos h1]; exact ha
  · rw [if_neg h1]
    by_cases h2 : (b.state == State.error) = true
    · rw [if_pos h2]; exact hb
    · rw [if_neg h2]
      simp only []
      refine join3_ctxInv a b _ (w_of_ci ha) hb (fun hs _ => ⟨(ha.2 hs).2.2.2.1, (ha.2 hs).2.2.2.2.1⟩) ?_
      -- the nudged retry
      apply ctxInv_ite (fun _ => ?_) (fun _ => ctxInv_errorCtx _)
      apply ctxInv_ite (fun _ => ?_) (fun _ => ctxInv_errorCtx _)
      have hwc : W (nudge (jstep a b)) := w_nudge _ (w_jstep a b (w_of_ci ha))
      have hnb := ci_nudge b hb
      refine ctxInv_ite (fun hce => ?_) (fun _ => ctxInv_ite (fun _ => hnb) (fun _ => ?_))
      · exact ci_nt (by intro hs; rw [hs] at hce; cases hce) hwc.1
      refine join3_ctxInv (nudge (jstep a b)) (nudge b) _ hwc hnb ?_ (ctxInv_errorCtx _)
      intro hs hs'
      obtain ⟨e1, hsa⟩ := nudge_text _ hs
      obtain ⟨_, hsb⟩ := nudge_text _ hs'
      have hsa' : a.state = .text := hsa
      rw [e1]
      obtain ⟨_, a2, a3, a4, a5, _⟩ := ha.2 hsa'
      obtain ⟨_, b2, b3, b4, b5, _⟩ := hb.2 hsb
      refine ⟨?_, ?_⟩
      · show (a.ambiguous || (a.attrValue != b.attrValue) || b.ambiguous) = false
        rw [a4, a3, b3, b4]; rfl
      · show joinNames a.attrName b.attrName a.attrNames b.attrNames = []
        rw [a2, b2, a5, b5]; rfl

/-! ### the two leaf nodes of the analysis -/

theorem ci_escapeAction (env : Env) (tn : String) (e : Esc) (c : Ctx) (id : Nat) (p : Pipe) (r : Esc × Ctx)
    (h : CtxInv c) (hr : escapeAction env tn e c id p = .ok r) : CtxInv r.2 := by
  unfold escapeAction at hr
  split at hr
  · cases hr; exact h
  · have hn := ci_nudge c h
    simp only [] at hr
    split at hr
    · cases hr
    · cases hr; exact ctxInv_errorCtx _
    · split at hr
      · cases hr; exact hn
      · have hc2 : CtxInv (if ((nudge c).state == State.attrName || (nudge c).state == State.tag) = true
            then { nudge c with state := .attrName } else nudge c) :=
          ctxInv_ite (fun _ => ci_nt (by simp) hn.1) (fun _ => hn)
        split at hr
        · cases hr; exact ctxInv_errorCtx _
        · unfold Esc.editAction at hr
          split at hr
          · cases hr
          · cases hr; exact hc2

theorem ci_escapeTextNode (env : Env) (tn : String) (e : Esc) (c : Ctx) (id : Nat) (b : Bytes) (r : Esc × Ctx)
    (h : CtxInv c) (hr : escapeTextNode env tn e c id b = .ok r) : CtxInv r.2 := by
  unfold escapeTextNode at hr
  split at hr
  · cases hr
  · rename_i c' heq
    cases hr
    exact ci_escapeText _ _ _ _ _ h heq
  · rename_i c' nb heq
    unfold Esc.editText at hr
    split at hr
    · cases hr
    · cases hr
      exact ci_escapeText _ _ _ _ _ h heq

end

/-! # part: ICFuel -/
/-
Fuel monotonicity of the analysis of call-free lists, lifted to the canonical functions `cfBody` / `cfOut` of
Independence.lean, and the keys of the pending edits produced by the canonical run.
-/
section
open SafeHtml SafeHtml.Model.Tmpl SafeHtml.Proofs.Frozen SafeHtml.Proofs.ConcApi SafeHtml.Proofs.ConcReach
  SafeHtml.Proofs.NoPanic SafeHtml.Proofs.NoPanic2 SafeHtml.Proofs.NoPanic3 SafeHtml.Proofs.NoPanic4
  SafeHtml.Proofs.Independence

/-! ### 1. fuel monotonicity -/

/-- congruence of `>>=` for results that are not "out of fuel" -/
theorem bind_mono {α β} {x x' : Out α} {g g' : α → Out β}
    (hx : x ≠ .fuel → x' = x) (hg : ∀ a, x = .ok a → g a ≠ .fuel → g' a = g a)
    (h : (x >>= g) ≠ .fuel) : (x' >>= g') = (x >>= g) := by
  cases x with
  | ok a =>
    rw [hx (by intro h; cases h)]
    exact hg a rfl h
  | panic m =>
    rw [hx (by intro h; cases h)]
    rfl
  | fuel => exact absurd rfl h

theorem branch_fuel_succ (env : Env) (t el : NodeList)
    (ht : ∀ f tn e c, escapeList env f tn e c t ≠ .fuel →
      escapeList env (f + 1) tn e c t = escapeList env f tn e c t)
    (hel : ∀ f tn e c, escapeList env f tn e c el ≠ .fuel →
      escapeList env (f + 1) tn e c el = escapeList env f tn e c el) :
    ∀ f tn e c b, escapeBranch env f tn e c t el b ≠ .fuel →
      escapeBranch env (f + 1) tn e c t el b = escapeBranch env f tn e c t el b := by
  intro f tn e c b h
  cases f with
  | zero => exact absurd (by simp only [escapeBranch]) h
  | succ k =>
    simp only [escapeBranch] at h ⊢
    refine bind_mono (ht k tn e c) ?_ h
    intro a _ h2
    obtain ⟨e1, c0⟩ := a
    simp only [] at h2 ⊢
    refine bind_mono ?_ ?_ h2
    · intro h3
      split
      · rw [if_pos (by assumption)] at h3
        refine bind_mono (ht k tn _ c0) ?_ h3
        intro a2 _ _
        rfl
      · rfl
    · intro j _ h4
      cases j with
      | some jc =>
        simp only [] at h4 ⊢
        split
        · rfl
        · rw [if_neg (by assumption)] at h4
          refine bind_mono (hel k tn e1 c) ?_ h4
          intro a2 _ _
          rfl
      | none =>
        simp only [] at h4 ⊢
        refine bind_mono (hel k tn e1 c) ?_ h4
        intro a2 _ _
        rfl

mutual
theorem node_fuel_succ (env : Env) : ∀ n, nodeNoCalls n → ∀ f tn e c, escapeNode env f tn e c n ≠ .fuel →
    escapeNode env (f + 1) tn e c n = escapeNode env f tn e c n
  | .text id b, _, f, tn, e, c, h => by
    cases f with
    | zero => exact absurd (by simp only [escapeNode]) h
    | succ g => simp only [escapeNode]
  | .action id p, _, f, tn, e, c, h => by
    cases f with
    | zero => exact absurd (by simp only [escapeNode]) h
    | succ g => simp only [escapeNode]
  | .tmpl id name p, hn, _, _, _, _, _ => by simp only [nodeNoCalls] at hn
  | .ifN id p t el, hn, f, tn, e, c, h => by
    simp only [nodeNoCalls] at hn
    cases f with
    | zero => exact absurd (by simp only [escapeNode]) h
    | succ g =>
      simp only [escapeNode] at h ⊢
      exact branch_fuel_succ env t el (list_fuel_succ env t hn.1) (list_fuel_succ env el hn.2) g tn e c false h
  | .rangeN id p t el, hn, f, tn, e, c, h => by
    simp only [nodeNoCalls] at hn
    cases f with
    | zero => exact absurd (by simp only [escapeNode]) h
    | succ g =>
      simp only [escapeNode] at h ⊢
      exact branch_fuel_succ env t el (list_fuel_succ env t hn.1) (list_fuel_succ env el hn.2) g tn e c true h
  | .withN id p t el, hn, f, tn, e, c, h => by
    simp only [nodeNoCalls] at hn
    cases f with
    | zero => exact absurd (by simp only [escapeNode]) h
    | succ g =>
      simp only [escapeNode] at h ⊢
      exact branch_fuel_succ env t el (list_fuel_succ env t hn.1) (list_fuel_succ env el hn.2) g tn e c false h
  | .brk id, _, f, tn, e, c, h => by
    cases f with
    | zero => exact absurd (by simp only [escapeNode]) h
    | succ g => simp only [escapeNode]
  | .cont id, _, f, tn, e, c, h => by
    cases f with
    | zero => exact absurd (by simp only [escapeNode]) h
    | succ g => simp only [escapeNode]
  | .comment id, _, f, tn, e, c, h => by
    cases f with
    | zero => exact absurd (by simp only [escapeNode]) h
    | succ g => simp only [escapeNode]
theorem list_fuel_succ (env : Env) : ∀ l, listNoCalls l → ∀ f tn e c, escapeList env f tn e c l ≠ .fuel →
    escapeList env (f + 1) tn e c l = escapeList env f tn e c l
  | .nil, _, f, tn, e, c, h => by
    cases f with
    | zero => exact absurd (by simp only [escapeList]) h
    | succ g => simp only [escapeList]
  | .cons n ns, hl, f, tn, e, c, h => by
    simp only [listNoCalls] at hl
    cases f with
    | zero => exact absurd (by simp only [escapeList]) h
    | succ g =>
      simp only [escapeList] at h ⊢
      refine bind_mono (node_fuel_succ env n hl.1 g tn e c) ?_ h
      intro a _ h2
      obtain ⟨e1, c1⟩ := a
      exact list_fuel_succ env ns hl.2 g tn e1 c1 h2
end

theorem list_fuel_add (env : Env) (l : NodeList) (hl : listNoCalls l) (f : Nat) (tn : String) (e : Esc)
    (c : Ctx) (h : escapeList env f tn e c l ≠ .fuel) :
    ∀ d, escapeList env (f + d) tn e c l = escapeList env f tn e c l
  | 0 => rfl
  | d + 1 => by
    have ih := list_fuel_add env l hl f tn e c h d
    have := list_fuel_succ env l hl (f + d) tn e c (by rw [ih]; exact h)
    rw [← ih, ← this]
    rfl

theorem list_fuel_mono (env : Env) (l : NodeList) (hl : listNoCalls l) (f f' : Nat) (hf : f ≤ f') (tn : String)
    (e : Esc) (c : Ctx) (h : escapeList env f tn e c l ≠ .fuel) :
    escapeList env f' tn e c l = escapeList env f tn e c l := by
  obtain ⟨d, rfl⟩ := Nat.exists_eq_add_of_le hf
  exact list_fuel_add env l hl f tn e c h d

/-! ### 2. the canonical functions -/

theorem cfBody_mono (env : Env) (f f' : Nat) (hf : f ≤ f') (tn : String) (c : Ctx) (root : NodeList)
    (hl : listNoCalls root) (r : Ctx × Bool × Esc) (h : cfBody env f tn c root = .ok r) :
    cfBody env f' tn c root = .ok r := by
  unfold cfBody at h ⊢
  cases hS : escapeList env f tn {} c root with
  | fuel => rw [hS] at h; cases h
  | panic m => rw [hS] at h; cases h
  | ok a =>
    rw [list_fuel_mono env root hl f f' hf tn {} c (by rw [hS]; intro h; cases h), hS]
    rw [hS] at h
    exact h

theorem cfOut_mono (env : Env) (f f' : Nat) (hf : f ≤ f') (tn : String) (c : Ctx) (root : NodeList)
    (hl : listNoCalls root) (r : Ctx × Esc) (h : cfOut env f tn c root = .ok r) :
    cfOut env f' tn c root = .ok r := by
  unfold cfOut at h ⊢
  cases hB : cfBody env f tn c root with
  | fuel => rw [hB] at h; cases h
  | panic m => rw [hB] at h; cases h
  | ok a =>
    obtain ⟨c1, b, s⟩ := a
    rw [cfBody_mono env f f' hf tn c root hl _ hB]
    rw [hB] at h
    cases b with
    | true => exact h
    | false =>
      simp only [] at h ⊢
      cases hB2 : cfBody env f tn c1 root with
      | fuel => rw [hB2] at h; cases h
      | panic m => rw [hB2] at h; cases h
      | ok a2 =>
        rw [cfBody_mono env f f' hf tn c1 root hl _ hB2]
        rw [hB2] at h
        exact h

/-! ### 3. keys of the pending edits -/

/-- the pending edits of `r` are those of `e` plus action / text edits keyed by `tn`; no new template edit -/
def EK (tn : String) (e r : Esc) : Prop :=
  (∀ q ∈ r.actionEdits, q ∈ e.actionEdits ∨ q.1.1 = tn) ∧ r.tmplEdits = e.tmplEdits ∧
  (∀ q ∈ r.textEdits, q ∈ e.textEdits ∨ q.1.1 = tn)

theorem EK.refl (tn : String) (e : Esc) : EK tn e e := ⟨fun _ h => .inl h, rfl, fun _ h => .inl h⟩

theorem EK.trans {tn : String} {e e1 e2 : Esc} (h1 : EK tn e e1) (h2 : EK tn e1 e2) : EK tn e e2 := by
  refine ⟨fun q hq => ?_, h2.2.1.trans h1.2.1, fun q hq => ?_⟩
  · rcases h2.1 q hq with h | h
    · exact h1.1 q h
    · exact .inr h
  · rcases h2.2.2 q hq with h | h
    · exact h1.2.2 q h
    · exact .inr h

theorem escapeAction_ek (env : Env) (tn : String) (e : Esc) (c : Ctx) (id : Nat) (p : Pipe) (r : Esc × Ctx)
    (h : escapeAction env tn e c id p = .ok r) : EK tn e r.1 := by
  unfold escapeAction at h
  split at h
  · cases h; exact EK.refl _ _
  · simp only [] at h
    split at h
    · cases h
    · cases h; exact EK.refl _ _
    · split at h
      · cases h; exact EK.refl _ _
      · split at h
        · cases h; exact EK.refl _ _
        · obtain ⟨e1, h1, h2⟩ := bind_ok h
          cases h2
          unfold Esc.editAction at h1
          split at h1
          · cases h1
          · cases h1
            refine ⟨fun q hq => ?_, rfl, fun q hq => .inl hq⟩
            simp only [List.mem_append, List.mem_singleton] at hq
            rcases hq with hq | hq
            · exact .inl hq
            · right; rw [hq]

theorem escapeTextNode_ek (env : Env) (tn : String) (e : Esc) (c : Ctx) (id : Nat) (b : Bytes) (r : Esc × Ctx)
    (h : escapeTextNode env tn e c id b = .ok r) : EK tn e r.1 := by
  unfold escapeTextNode at h
  split at h
  · cases h
  · cases h; exact EK.refl _ _
  · obtain ⟨e1, h1, h2⟩ := bind_ok h
    cases h2
    unfold Esc.editText at h1
    split at h1
    · cases h1
    · cases h1
      refine ⟨fun q hq => .inl hq, rfl, fun q hq => ?_⟩
      simp only [List.mem_append, List.mem_singleton] at hq
      rcases hq with hq | hq
      · exact .inl hq
      · right; rw [hq]

theorem branch_ek (env : Env) (t el : NodeList)
    (ht : ∀ f tn (e : Esc) c (r : Esc × Ctx), escapeList env f tn e c t = .ok r → EK tn e r.1)
    (hel : ∀ f tn (e : Esc) c (r : Esc × Ctx), escapeList env f tn e c el = .ok r → EK tn e r.1) :
    ∀ f tn (e : Esc) c b (r : Esc × Ctx), escapeBranch env f tn e c t el b = .ok r → EK tn e r.1 := by
  intro f tn e c b r h
  cases f with
  | zero => simp only [escapeBranch] at h; cases h
  | succ k =>
    simp only [escapeBranch] at h
    obtain ⟨⟨e1, c0⟩, h1, h2⟩ := bind_ok h
    have hk1 := ht k tn e c _ h1
    simp only [] at hk1 h2
    obtain ⟨j, _, h3⟩ := bind_ok h2
    cases j with
    | some jc =>
      simp only [] at h3
      split at h3
      · cases h3; exact hk1
      · obtain ⟨⟨e2, c1⟩, h4, h5⟩ := bind_ok h3
        cases h5
        exact hk1.trans (hel k tn e1 c (e2, c1) h4)
    | none =>
      simp only [] at h3
      obtain ⟨⟨e2, c1⟩, h4, h5⟩ := bind_ok h3
      cases h5
      exact hk1.trans (hel k tn e1 c (e2, c1) h4)

mutual
theorem node_ek (env : Env) : ∀ n, nodeNoCalls n → ∀ f tn (e : Esc) c (r : Esc × Ctx),
    escapeNode env f tn e c n = .ok r → EK tn e r.1
  | .text id b, _, f, tn, e, c, r, h => by
    cases f with
    | zero => simp only [escapeNode] at h; cases h
    | succ g => simp only [escapeNode] at h; exact escapeTextNode_ek env tn e c id b r h
  | .action id p, _, f, tn, e, c, r, h => by
    cases f with
    | zero => simp only [escapeNode] at h; cases h
    | succ g => simp only [escapeNode] at h; exact escapeAction_ek env tn e c id p r h
  | .tmpl id name p, hn, _, _, _, _, _, _ => by simp only [nodeNoCalls] at hn
  | .ifN id p t el, hn, f, tn, e, c, r, h => by
    simp only [nodeNoCalls] at hn
    cases f with
    | zero => simp only [escapeNode] at h; cases h
    | succ g =>
      simp only [escapeNode] at h
      exact branch_ek env t el (list_ek env t hn.1) (list_ek env el hn.2) g tn e c false r h
  | .rangeN id p t el, hn, f, tn, e, c, r, h => by
    simp only [nodeNoCalls] at hn
    cases f with
    | zero => simp only [escapeNode] at h; cases h
    | succ g =>
      simp only [escapeNode] at h
      exact branch_ek env t el (list_ek env t hn.1) (list_ek env el hn.2) g tn e c true r h
  | .withN id p t el, hn, f, tn, e, c, r, h => by
    simp only [nodeNoCalls] at hn
    cases f with
    | zero => simp only [escapeNode] at h; cases h
    | succ g =>
      simp only [escapeNode] at h
      exact branch_ek env t el (list_ek env t hn.1) (list_ek env el hn.2) g tn e c false r h
  | .brk id, _, f, tn, e, c, r, h => by
    cases f with
    | zero => simp only [escapeNode] at h; cases h
    | succ g => simp only [escapeNode] at h; cases h; exact EK.refl _ _
  | .cont id, _, f, tn, e, c, r, h => by
    cases f with
    | zero => simp only [escapeNode] at h; cases h
    | succ g => simp only [escapeNode] at h; cases h; exact EK.refl _ _
  | .comment id, _, f, tn, e, c, r, h => by
    cases f with
    | zero => simp only [escapeNode] at h; cases h
    | succ g => simp only [escapeNode] at h; cases h; exact EK.refl _ _
theorem list_ek (env : Env) : ∀ l, listNoCalls l → ∀ f tn (e : Esc) c (r : Esc × Ctx),
    escapeList env f tn e c l = .ok r → EK tn e r.1
  | .nil, _, f, tn, e, c, r, h => by
    cases f with
    | zero => simp only [escapeList] at h; cases h
    | succ g => simp only [escapeList] at h; cases h; exact EK.refl _ _
  | .cons n ns, hl, f, tn, e, c, r, h => by
    simp only [listNoCalls] at hl
    cases f with
    | zero => simp only [escapeList] at h; cases h
    | succ g =>
      simp only [escapeList] at h
      obtain ⟨⟨e1, c1⟩, h1, h2⟩ := bind_ok h
      exact (node_ek env n hl.1 g tn e c _ h1).trans (list_ek env ns hl.2 g tn e1 c1 r h2)
end

theorem cf_edit_keys (env : Env) : ∀ l, listNoCalls l → ∀ f tn (e : Esc) c (r : Esc × Ctx),
    escapeList env f tn e c l = .ok r →
    (∀ q ∈ r.1.actionEdits, q ∈ e.actionEdits ∨ q.1.1 = tn) ∧ r.1.tmplEdits = e.tmplEdits ∧
    (∀ q ∈ r.1.textEdits, q ∈ e.textEdits ∨ q.1.1 = tn) :=
  fun l hl f tn e c r h => list_ek env l hl f tn e c r h

theorem ek_empty {tn : String} {s : Esc} (h : EK tn {} s) :
    (∀ q ∈ s.actionEdits, q.1.1 = tn) ∧ s.tmplEdits = [] ∧ (∀ q ∈ s.textEdits, q.1.1 = tn) := by
  refine ⟨fun q hq => ?_, h.2.1, fun q hq => ?_⟩
  · rcases h.1 q hq with h' | h'
    · cases h'
    · exact h'
  · rcases h.2.2 q hq with h' | h'
    · cases h'
    · exact h'

theorem cfBody_edit_keys (env : Env) (f : Nat) (tn : String) (c : Ctx) (root : NodeList) (hl : listNoCalls root)
    (c1 : Ctx) (b : Bool) (s : Esc) (h : cfBody env f tn c root = .ok (c1, b, s)) : EK tn {} s := by
  unfold cfBody at h
  cases hS : escapeList env f tn {} c root with
  | fuel => rw [hS] at h; cases h
  | panic m => rw [hS] at h; cases h
  | ok a =>
    obtain ⟨s', c'⟩ := a
    rw [hS] at h
    cases h
    exact list_ek env root hl f tn {} c _ hS

theorem cfOut_edit_keys (env : Env) (f : Nat) (tn : String) (c : Ctx) (root : NodeList) (hl : listNoCalls root)
    (c' : Ctx) (ss : Esc) (h : cfOut env f tn c root = .ok (c', ss)) :
    (∀ q ∈ ss.actionEdits, q.1.1 = tn) ∧ ss.tmplEdits = [] ∧ (∀ q ∈ ss.textEdits, q.1.1 = tn) := by
  apply ek_empty
  unfold cfOut at h
  cases hB : cfBody env f tn c root with
  | fuel => rw [hB] at h; cases h
  | panic m => rw [hB] at h; cases h
  | ok a =>
    obtain ⟨c1, b, s⟩ := a
    rw [hB] at h
    cases b with
    | true =>
      cases h
      exact cfBody_edit_keys env f tn c root hl _ _ _ hB
    | false =>
      simp only [] at h
      cases hB2 : cfBody env f tn c1 root with
      | fuel => rw [hB2] at h; cases h
      | panic m => rw [hB2] at h; cases h
      | ok a2 =>
        obtain ⟨c2, b2, s2⟩ := a2
        rw [hB2] at h
        cases b2 with
        | true =>
          cases h
          exact cfBody_edit_keys env f tn c1 root hl _ _ _ hB2
        | false =>
          cases h
          exact EK.refl _ _

end

/-! # part: ICAll -/
/-
C06 (history independence, templates with calls): every context the analysis memoizes or returns satisfies the
context predicate `CtxInv`. `CtxInv` is used only through `ctxInv_errorCtx`, `ci_join`, `ci_escapeAction`, `ci_escapeTextNode`.
-/
section
open SafeHtml SafeHtml.Model.Tmpl SafeHtml.Proofs.Frozen SafeHtml.Proofs.ConcApi SafeHtml.Proofs.ConcReach
  SafeHtml.Proofs.NoPanic SafeHtml.Proofs.NoPanic2 SafeHtml.Proofs.NoPanic3 SafeHtml.Proofs.NoPanic4
  SafeHtml.Proofs.Independence

/-- every memoized output context satisfies `CtxInv` -/
def CIall (e : Esc) : Prop := ∀ p ∈ e.output, CtxInv p.2

theorem cia_escapeAction_output (env : Env) (tn : String) (e : Esc) (c : Ctx) (id : Nat) (p : Pipe) (r : Esc × Ctx)
    (h : escapeAction env tn e c id p = .ok r) : r.1.output = e.output := by
  unfold escapeAction at h
  split at h
  · cases h; rfl
  · simp only [] at h
    split at h
    · cases h
    · cases h; rfl
    · split at h
      · cases h; rfl
      · split at h
        · cases h; rfl
        · obtain ⟨e1, h1, h2⟩ := bind_ok h
          cases h2
          unfold Esc.editAction at h1
          split at h1
          · cases h1
          · cases h1; rfl

theorem cia_escapeTextNode_output (env : Env) (tn : String) (e : Esc) (c : Ctx) (id : Nat) (b : Bytes)
    (r : Esc × Ctx) (h : escapeTextNode env tn e c id b = .ok r) : r.1.output = e.output := by
  unfold escapeTextNode at h
  split at h
  · cases h
  · cases h; rfl
  · obtain ⟨e1, h1, h2⟩ := bind_ok h
    cases h2
    unfold Esc.editText at h1
    split at h1
    · cases h1
    · cases h1; rfl

theorem cia_editTmpl_output (k : EditKey) (e e1 : Esc) (v : String)
    (h : e.editTmpl k v = .ok e1) : e1.output = e.output := by
  unfold Esc.editTmpl at h
  split at h
  · cases h
  · cases h; rfl

theorem cia_of_output_eq {e e' : Esc} (h : e'.output = e.output) (hc : CIall e) : CIall e' := by
  intro p hp
  rw [h] at hp
  exact hc p hp

theorem cia_aset (l : List (String × Ctx)) (k : String) (c : Ctx) (hl : ∀ p ∈ l, CtxInv p.2) (hc : CtxInv c) :
    ∀ p ∈ aset l k c, CtxInv p.2 := by
  intro p hp
  rcases mem_aset l k c p hp with h | h
  · exact hl p h
  · rw [h]; exact hc

theorem cia_foldl_aset (l acc : List (String × Ctx)) (hl : ∀ p ∈ l, CtxInv p.2) (ha : ∀ p ∈ acc, CtxInv p.2) :
    ∀ p ∈ l.foldl (fun acc p => aset acc p.1 p.2) acc, CtxInv p.2 := by
  intro p hp
  rcases mem_foldl_aset l acc p hp with h | h
  · exact ha p h
  · exact hl p h

def cia_NodeOK (env : Env) (f : Nat) : Prop :=
  ∀ tn e c n r, CIall e → CtxInv c → escapeNode env f tn e c n = .ok r → CIall r.1 ∧ CtxInv r.2
def cia_ListOK (env : Env) (f : Nat) : Prop :=
  ∀ tn e c l r, CIall e → CtxInv c → escapeList env f tn e c l = .ok r → CIall r.1 ∧ CtxInv r.2
def cia_BranchOK (env : Env) (f : Nat) : Prop :=
  ∀ tn e c t el b r, CIall e → CtxInv c → escapeBranch env f tn e c t el b = .ok r → CIall r.1 ∧ CtxInv r.2
def cia_TreeOK (env : Env) (f : Nat) : Prop :=
  ∀ e c name r, CIall e → CtxInv c → escapeTree env f e c name = .ok r → CIall r.1 ∧ CtxInv r.2.1
def cia_OutOK (env : Env) (f : Nat) : Prop :=
  ∀ e c tname t r, CIall e → CtxInv c → computeOutCtx env f e c tname t = .ok r → CIall r.1 ∧ CtxInv r.2
def cia_BodyOK (env : Env) (f : Nat) : Prop :=
  ∀ e c tname t r, CIall e → CtxInv c → escapeTemplateBody env f e c tname t = .ok r → CIall r.1 ∧ CtxInv r.2.1

theorem cia_node_succ {env f} (hb : cia_BranchOK env f) (ht : cia_TreeOK env f) : cia_NodeOK env (f + 1) := by
  intro tn e c n r he hc h
  cases n with
  | action id p =>
    simp only [escapeNode] at h
    exact ⟨cia_of_output_eq (cia_escapeAction_output env tn e c id p r h) he,
      ci_escapeAction env tn e c id p r hc h⟩
  | text id b =>
    simp only [escapeNode] at h
    exact ⟨cia_of_output_eq (cia_escapeTextNode_output env tn e c id b r h) he,
      ci_escapeTextNode env tn e c id b r hc h⟩
  | ifN id p t el => simp only [escapeNode] at h; exact hb _ _ _ _ _ _ _ he hc h
  | withN id p t el => simp only [escapeNode] at h; exact hb _ _ _ _ _ _ _ he hc h
  | rangeN id p t el => simp only [escapeNode] at h; exact hb _ _ _ _ _ _ _ he hc h
  | tmpl id name p =>
    simp only [escapeNode] at h
    obtain ⟨⟨e1, c1, dname⟩, h1, h2⟩ := bind_ok h
    have s1 := ht _ _ _ _ he hc h1
    simp only [] at h2 s1
    split at h2
    · obtain ⟨e2, h3, h4⟩ := bind_ok h2
      cases h4
      exact ⟨cia_of_output_eq (cia_editTmpl_output _ e1 e2 dname h3) s1.1, s1.2⟩
    · cases h2; exact s1
  | brk id => simp only [escapeNode] at h; cases h; exact ⟨he, ctxInv_errorCtx _⟩
  | cont id => simp only [escapeNode] at h; cases h; exact ⟨he, ctxInv_errorCtx _⟩
  | comment id => simp only [escapeNode] at h; cases h; exact ⟨he, ctxInv_errorCtx _⟩

theorem cia_list_succ {env f} (hn : cia_NodeOK env f) (hl : cia_ListOK env f) : cia_ListOK env (f + 1) := by
  intro tn e c l r he hc h
  cases l with
  | nil => simp only [escapeList] at h; cases h; exact ⟨he, hc⟩
  | cons n ns =>
    simp only [escapeList] at h
    obtain ⟨⟨e1, c1⟩, h1, h2⟩ := bind_ok h
    have s1 := hn _ _ _ _ _ he hc h1
    exact hl _ _ _ _ _ s1.1 s1.2 h2

theorem cia_scratch (e : Esc) (he : CIall e) :
    CIall { output := e.output, pristine := e.pristine, memoPrefix := e.memoPrefix } :=
  fun p hp => he p hp

theorem cia_branch_succ {env f} (hl : cia_ListOK env f) : cia_BranchOK env (f + 1) := by
  intro tn e c t el b r he hc h
  simp only [escapeBranch] at h
  obtain ⟨⟨e1, c0⟩, h1, h2⟩ := bind_ok h
  have s1 := hl _ _ _ _ _ he hc h1
  simp only [] at h2 s1
  obtain ⟨j, h3, h4⟩ := bind_ok h2
  split at h4
  · rename_i j'
    have hj : CtxInv j' := by
      split at h3
      · obtain ⟨⟨e3, c3⟩, h5, h6⟩ := bind_ok h3
        have s3 := hl _ _ _ _ _ (cia_scratch e1 s1.1) s1.2 h5
        simp only [] at h6 s3
        cases h6
        exact ci_join _ _ s1.2 s3.2
      · cases h3
    split at h4
    · cases h4; exact ⟨s1.1, hj⟩
    · obtain ⟨⟨e2, c2⟩, h5, h6⟩ := bind_ok h4
      cases h6
      have s2 := hl _ _ _ _ (e2, c2) s1.1 hc h5
      exact ⟨s2.1, ci_join _ _ hj s2.2⟩
  · obtain ⟨⟨e2, c2⟩, h5, h6⟩ := bind_ok h4
    cases h6
    have s2 := hl _ _ _ _ (e2, c2) s1.1 hc h5
    exact ⟨s2.1, ci_join _ _ s1.2 s2.2⟩

theorem cia_setOutput (e : Esc) (k : String) (v : Ctx) (he : CIall e) (hv : CtxInv v) :
    CIall { e with output := aset e.output k v } :=
  cia_aset e.output k v he hv

theorem cia_body_succ {env f} (hl : cia_ListOK env f) : cia_BodyOK env (f + 1) := by
  intro e c tname t r he hc h
  simp only [escapeTemplateBody] at h
  have he0 := cia_setOutput e tname c he hc
  split at h
  · cases h
  · rename_i tr
    obtain ⟨⟨e1, c1⟩, h1, h2⟩ := bind_ok h
    have s1 := hl _ _ _ _ _ (cia_scratch _ he0) hc h1
    simp only [] at h2 s1
    split at h2
    · obtain ⟨ae, ha, h3⟩ := bind_ok h2
      obtain ⟨te, ht, h4⟩ := bind_ok h3
      obtain ⟨xe, hx, h5⟩ := bind_ok h4
      cases h5
      exact ⟨cia_foldl_aset _ _ s1.1 he0, s1.2⟩
    · cases h2
      exact ⟨he0, s1.2⟩

theorem cia_out_succ {env f} (hb : cia_BodyOK env f) : cia_OutOK env (f + 1) := by
  intro e c tname t r he hc h
  simp only [computeOutCtx] at h
  obtain ⟨⟨e1, c1, ok⟩, h1, h2⟩ := bind_ok h
  have s1 := hb _ _ _ _ _ he hc h1
  simp only [] at h2 s1
  split at h2
  · cases h2
    exact ⟨cia_setOutput _ _ _ s1.1 s1.2, s1.2⟩
  · obtain ⟨⟨e2, c2, ok2⟩, h3, h4⟩ := bind_ok h2
    have s2 := hb _ _ _ _ _ s1.1 s1.2 h3
    simp only [] at h4 s2
    split at h4
    · cases h4; exact ⟨cia_setOutput _ _ _ s2.1 s2.2, s2.2⟩
    · split at h4
      · cases h4; exact ⟨cia_setOutput _ _ _ s2.1 (ctxInv_errorCtx _), ctxInv_errorCtx _⟩
      · cases h4; exact ⟨cia_setOutput _ _ _ s2.1 s1.2, s1.2⟩

theorem cia_tree_succ {env f} (ho : cia_OutOK env f) : cia_TreeOK env (f + 1) := by
  intro e c name r he hc h
  simp only [escapeTree] at h
  split at h
  · cases h; exact ⟨he, hc⟩
  · skip
    split at h
    · rename_i out hsome
      cases h
      exact ⟨fun p hp => he p hp, he _ (mem_of_alookup _ _ _ hsome)⟩
    · split at h
      · cases h; exact ⟨fun p hp => he p hp, ctxInv_errorCtx _⟩
      · cases h; exact ⟨fun p hp => he p hp, ctxInv_errorCtx _⟩
      · split at h
        · split at h
          · obtain ⟨⟨e1, c1⟩, h1, h2⟩ := bind_ok h
            cases h2
            exact (fun he' => ho _ _ _ _ (e1, c1) he' hc h1) (fun p hp => he p hp)
          · obtain ⟨⟨e1, c1⟩, h1, h2⟩ := bind_ok h
            cases h2
            exact (fun he' => ho _ _ _ _ (e1, c1) he' hc h1) (fun p hp => he p hp)
        · obtain ⟨⟨e1, c1⟩, h1, h2⟩ := bind_ok h
          cases h2
          exact (fun he' => ho _ _ _ _ (e1, c1) he' hc h1) (fun p hp => he p hp)

theorem ci_analysis (env : Env) : ∀ f,
  (∀ tn e c n r, CIall e → CtxInv c → escapeNode env f tn e c n = .ok r → CIall r.1 ∧ CtxInv r.2) ∧
  (∀ tn e c l r, CIall e → CtxInv c → escapeList env f tn e c l = .ok r → CIall r.1 ∧ CtxInv r.2) ∧
  (∀ tn e c t el b r, CIall e → CtxInv c → escapeBranch env f tn e c t el b = .ok r → CIall r.1 ∧ CtxInv r.2) ∧
  (∀ e c name r, CIall e → CtxInv c → escapeTree env f e c name = .ok r → CIall r.1 ∧ CtxInv r.2.1) ∧
  (∀ e c tname t r, CIall e → CtxInv c → computeOutCtx env f e c tname t = .ok r → CIall r.1 ∧ CtxInv r.2) ∧
  (∀ e c tname t r, CIall e → CtxInv c → escapeTemplateBody env f e c tname t = .ok r → CIall r.1 ∧ CtxInv r.2.1) := by
  intro f
  induction f with
  | zero =>
    refine ⟨?_, ?_, ?_, ?_, ?_, ?_⟩
    · intro tn e c n r _ _ h; simp only [escapeNode] at h; cases h
    · intro tn e c l r _ _ h; simp only [escapeList] at h; cases h
    · intro tn e c t el b r _ _ h; simp only [escapeBranch] at h; cases h
    · intro e c name r _ _ h; simp only [escapeTree] at h; cases h
    · intro e c tname t r _ _ h; simp only [computeOutCtx] at h; cases h
    · intro e c tname t r _ _ h; simp only [escapeTemplateBody] at h; cases h
  | succ f ih =>
    obtain ⟨hn, hl, hb, ht, ho, hbd⟩ := ih
    exact ⟨cia_node_succ hb ht, cia_list_succ hn hl, cia_branch_succ hl, cia_tree_succ ho, cia_out_succ hbd,
      cia_body_succ hl⟩

end

/-! # part: ICDefs -/
section
open SafeHtml SafeHtml.Model.Tmpl SafeHtml.Proofs.Frozen SafeHtml.Proofs.ConcApi SafeHtml.Proofs.ConcReach
  SafeHtml.Proofs.NoPanic SafeHtml.Proofs.NoPanic2 SafeHtml.Proofs.NoPanic3 SafeHtml.Proofs.NoPanic4
  SafeHtml.Proofs.Independence

/-! ## 2. basic definitions: names without `$`, edits keyed by a name, original trees -/

/-- the name contains no `$` (so it is not a mangled name) -/
def NoDollar (h : String) : Prop := '$' ∉ h.toList

instance (h : String) : Decidable (NoDollar h) := by unfold NoDollar; exact inferInstance

/-- the edits keyed by template `h` -/
def fk {β} (h : String) (l : List (EditKey × β)) : List (EditKey × β) := l.filter (fun q => q.1.1 == h)

theorem fk_append {β} (h : String) (l1 l2 : List (EditKey × β)) : fk h (l1 ++ l2) = fk h l1 ++ fk h l2 :=
  List.filter_append ..

theorem fk_nil {β} (h : String) : fk h ([] : List (EditKey × β)) = [] := rfl

theorem fk_all {β} (h : String) (l : List (EditKey × β)) (hl : ∀ q ∈ l, q.1.1 = h) : fk h l = l := by
  unfold fk
  rw [List.filter_eq_self]
  intro q hq
  simp only [beq_iff_eq]
  exact hl q hq

theorem fk_none {β} (h : String) (l : List (EditKey × β)) (hl : ∀ q ∈ l, q.1.1 ≠ h) : fk h l = [] := by
  unfold fk
  rw [List.filter_eq_nil_iff]
  intro q hq
  simp only [beq_iff_eq]
  exact hl q hq

theorem fk_single_ne {β} (h tn : String) (id : Nat) (v : β) (hne : tn ≠ h) : fk h [((tn, id), v)] = [] :=
  fk_none h _ (by intro q hq; simp only [List.mem_singleton] at hq; subst hq; exact hne)


/-- the parse tree of `h` before any commit rewrote it: the pristine snapshot if there is one, else the installed tree
    (`commit` snapshots every analysed template before it first applies edits; see `origT_commit`) -/
def origT (text : TextSet) (e : Esc) (h : String) : Option Tree :=
  match alookup e.pristine h with
  | some t => some t
  | none =>
    match text.lookup h with
    | some (some t) => some t
    | _ => none

end

/-! # part: ICCommit -/
section
open SafeHtml SafeHtml.Model.Tmpl SafeHtml.Proofs.Frozen SafeHtml.Proofs.ConcApi SafeHtml.Proofs.ConcReach
  SafeHtml.Proofs.NoPanic SafeHtml.Proofs.NoPanic2 SafeHtml.Proofs.NoPanic3 SafeHtml.Proofs.NoPanic4
  SafeHtml.Proofs.Independence

/-! ## the commit: original trees, edits keyed by a name -/

/-! ### the snapshot fold -/

/-- the snapshot step of `commit` -/
def icc_snap (text : TextSet) (derived : List (String × Tree)) (acc : List (String × Tree)) (p : String × Ctx) :
    List (String × Tree) :=
  if (alookup acc p.1).isSome then acc
  else match text.lookup p.1 with
    | some (some t) => acc ++ [(p.1, t)]
    | some none => acc
    | none => match alookup derived p.1 with
      | some t => acc ++ [(p.1, t)]
      | none => acc

/-- the tree installed under `h`, if any -/
def icc_V (text : TextSet) (h : String) : Option Tree :=
  match text.lookup h with
  | some (some t) => some t
  | _ => none

theorem icc_commit_pristine (text : TextSet) (e : Esc) (text2 : TextSet) (e2 : Esc)
    (hc : commit text e = .ok (text2, e2)) :
    e2.pristine = e.output.foldl (icc_snap text e.derived) e.pristine := by
  unfold commit at hc
  simp only [] at hc
  split at hc
  · cases hc
  · obtain ⟨t2, h1, h2⟩ := bind_ok hc
    cases h2
    rfl

theorem icc_snap_other (text : TextSet) (derived : List (String × Tree)) (acc : List (String × Tree))
    (p : String × Ctx) (h : String) (hp : ¬ p.1 = h) :
    alookup (icc_snap text derived acc p) h = alookup acc h := by
  have hap : ∀ t, alookup (acc ++ [(p.1, t)]) h = alookup acc h := by
    intro t
    rw [alookup_append_single]
    cases alookup acc h with
    | some x => rfl
    | none => simp only [if_neg hp]
  unfold icc_snap
  split
  · rfl
  · split
    · exact hap _
    · rfl
    · split
      · exact hap _
      · rfl

theorem icc_snap_same (text : TextSet) (derived : List (String × Tree)) (acc : List (String × Tree))
    (p : String × Ctx) (hd : alookup derived p.1 = none) :
    alookup (icc_snap text derived acc p) p.1 = match alookup acc p.1 with
      | some t => some t
      | none => icc_V text p.1 := by
  unfold icc_snap icc_V
  cases hacc : alookup acc p.1 with
  | some x =>
    simp only [Option.isSome_some, if_true]
    exact hacc
  | none =>
    simp only [Option.isSome_none, Bool.false_eq_true, if_false]
    cases hl : text.lookup p.1 with
    | some o =>
      cases o with
      | some t =>
        simp only []
        rw [alookup_append_single, hacc]
        simp only [if_true]
      | none => simp only []; exact hacc
    | none =>
      simp only [hd]
      exact hacc

theorem icc_snap_lookup (text : TextSet) (derived : List (String × Tree)) (acc : List (String × Tree))
    (p : String × Ctx) (h : String) (hd : alookup derived h = none) :
    alookup (icc_snap text derived acc p) h = match alookup acc h with
      | some t => some t
      | none => if p.1 = h then icc_V text h else none := by
  by_cases hp : p.1 = h
  · subst hp
    rw [icc_snap_same text derived acc p hd]
    simp only [if_true]
  · rw [icc_snap_other text derived acc p h hp]
    cases alookup acc h with
    | some x => rfl
    | none => simp only [if_neg hp]

theorem icc_snap_fold (text : TextSet) (derived : List (String × Tree)) (h : String)
    (hd : alookup derived h = none) (l : List (String × Ctx)) : ∀ acc : List (String × Tree),
    alookup (l.foldl (icc_snap text derived) acc) h = match alookup acc h with
      | some t => some t
      | none => if (alookup l h).isSome then icc_V text h else none := by
  induction l with
  | nil =>
    intro acc
    rw [List.foldl_nil, alookup_nil]
    cases alookup acc h with
    | some x => rfl
    | none => rfl
  | cons p t ih =>
    intro acc
    rw [List.foldl_cons, ih, icc_snap_lookup text derived acc p h hd, alookup_cons]
    cases alookup acc h with
    | some x => rfl
    | none =>
      simp only []
      by_cases hp : p.1 = h
      · simp only [if_pos hp, Option.isSome_some, if_true]
        cases icc_V text h with
        | some x => rfl
        | none => simp only [ite_self]
      · simp only [if_neg hp]

/-! ### the edit fold keeps an entry that is not a tree -/

theorem icc_editStep_keep (e : Esc) (ts ts' : TextSet) (n m : String) (h : editStep e ts n = .ok ts')
    (hm : ¬ IsTree (ts.lookup m)) : ts'.lookup m = ts.lookup m := by
  by_cases hmn : m = n
  · subst hmn
    unfold editStep at h
    split at h
    · rename_i tr htr
      exact absurd ⟨tr, htr⟩ hm
    · cases h; rfl
  · exact editStep_lookup_other e ts ts' n m h hmn

theorem icc_edits_keep (e : Esc) (names : List String) : ∀ (ts ts' : TextSet) (m : String),
    names.foldlM (editStep e) ts = .ok ts' → ¬ IsTree (ts.lookup m) → ts'.lookup m = ts.lookup m := by
  induction names with
  | nil => intro ts ts' m h _; cases h; rfl
  | cons n t ih =>
    intro ts ts' m h hm
    rw [List.foldlM_cons] at h
    obtain ⟨ts1, h1, h2⟩ := bind_ok h
    have h3 := icc_editStep_keep e ts ts1 n m h1 hm
    rw [ih ts1 ts' m h2 (by rw [h3]; exact hm), h3]

theorem icc_alookup_none_of_keys {β} (l : List (String × β)) (h : String) (hd : ∀ p ∈ l, p.1 ≠ h) :
    alookup l h = none := by
  induction l with
  | nil => rfl
  | cons p t ih =>
    rw [alookup_cons, if_neg (hd p (List.mem_cons_self ..))]
    exact ih (fun q hq => hd q (List.mem_cons_of_mem _ hq))

/-- the commit keeps an entry that is not a tree, when no derived template has that name -/
theorem icc_commit_keep_nontree (text : TextSet) (e : Esc) (text2 : TextSet) (e2 : Esc) (h : String)
    (hc : commit text e = .ok (text2, e2)) (hd : ∀ p ∈ e.derived, p.1 ≠ h)
    (hn : ¬ IsTree (text.lookup h)) : text2.lookup h = text.lookup h := by
  obtain ⟨pr, h1, _⟩ := commit_spec text e text2 e2 hc
  have hi : (e.derived.foldl installStep text).lookup h = text.lookup h :=
    install_keeps e.derived text h (fun p hp he => absurd he (hd p hp))
  rw [icc_edits_keep _ _ _ _ h h1 (by rw [hi]; exact hn), hi]

theorem icc_not_mem_editNames_of_not_memo (e : Esc) (h : String) (hkm : KM e) (hm : ¬ Memo e h) :
    h ∉ editNames e := by
  intro hmem
  rcases mem_editNames e h hmem with ⟨p, hp, he⟩ | ⟨p, hp, he⟩ | ⟨p, hp, he⟩
  · apply hm
    rw [← he]
    exact hkm p.1 (.inl (List.mem_map.mpr ⟨p, hp, rfl⟩))
  · apply hm
    rw [← he]
    exact hkm p.1 (.inr (.inl (List.mem_map.mpr ⟨p, hp, rfl⟩)))
  · apply hm
    rw [← he]
    exact hkm p.1 (.inr (.inr (List.mem_map.mpr ⟨p, hp, rfl⟩)))

/-- **1.** the commit does not change the original tree of a name that is not a derived template -/
theorem origT_commit (text : TextSet) (e : Esc) (text2 : TextSet) (e2 : Esc) (h : String)
    (hc : commit text e = .ok (text2, e2)) (hd : ∀ p ∈ e.derived, p.1 ≠ h) (hkm : KM e) :
    origT text2 e2 h = origT text e h := by
  have hpr := icc_commit_pristine text e text2 e2 hc
  have hdn : alookup e.derived h = none := icc_alookup_none_of_keys e.derived h hd
  have hfold := icc_snap_fold text e.derived h hdn e.output e.pristine
  rw [← hpr] at hfold
  unfold origT
  cases hp : alookup e.pristine h with
  | some t =>
    rw [hp] at hfold
    simp only [] at hfold
    rw [hfold]
  | none =>
    rw [hp] at hfold
    simp only [] at hfold
    by_cases hm : Memo e h
    · unfold Memo at hm
      rw [if_pos hm] at hfold
      unfold icc_V at hfold
      cases hl : text.lookup h with
      | some o =>
        cases o with
        | some t =>
          rw [hl] at hfold
          simp only [] at hfold
          rw [hfold]
        | none =>
          rw [hl] at hfold
          simp only [] at hfold
          rw [hfold]
          have hk := icc_commit_keep_nontree text e text2 e2 h hc hd (by
            rw [hl]; rintro ⟨t, ht⟩; cases ht)
          rw [hk, hl]
      | none =>
        rw [hl] at hfold
        simp only [] at hfold
        rw [hfold]
        have hk := icc_commit_keep_nontree text e text2 e2 h hc hd (by
          rw [hl]; rintro ⟨t, ht⟩; cases ht)
        rw [hk, hl]
    · have hm' : ¬ (alookup e.output h).isSome = true := hm
      rw [if_neg hm'] at hfold
      rw [hfold]
      have hk := commit_keeps text e text2 e2 h hc (icc_not_mem_editNames_of_not_memo e h hkm hm)
        (fun p hp he => absurd he (hd p hp))
      rw [hk]

/-! ### edits keyed by a name -/

theorem icc_find_fk {β} (h : String) (id : Nat) (l : List (EditKey × β)) :
    l.find? (fun p => p.1 == (h, id)) = (fk h l).find? (fun p => p.1 == (h, id)) := by
  unfold fk
  induction l with
  | nil => rfl
  | cons q t ih =>
    by_cases hq : q.1 = (h, id)
    · have h1 : (q.1.1 == h) = true := by rw [hq]; simp only [beq_self_eq_true]
      have h2 : (q.1 == (h, id)) = true := by rw [hq]; simp only [beq_self_eq_true]
      simp only [List.filter_cons, h1, if_true, List.find?_cons, h2]
    · have h2 : (q.1 == (h, id)) = false := by simpa using hq
      by_cases h1 : (q.1.1 == h) = true
      · simp only [List.filter_cons, h1, if_true, List.find?_cons, h2]
        exact ih
      · simp only [List.filter_cons, h1, List.find?_cons, h2]
        exact ih

theorem icc_mem_names_fk {β} (h : String) (l : List (EditKey × β)) :
    h ∈ l.map (·.1.1) ↔ h ∈ (fk h l).map (·.1.1) := by
  unfold fk
  constructor
  · intro hm
    obtain ⟨q, hq, he⟩ := List.mem_map.mp hm
    exact List.mem_map.mpr ⟨q, List.mem_filter.mpr ⟨hq, by simp only [he, beq_self_eq_true]⟩, he⟩
  · intro hm
    obtain ⟨q, hq, he⟩ := List.mem_map.mp hm
    exact List.mem_map.mpr ⟨q, (List.mem_filter.mp hq).1, he⟩

theorem icc_mem_editNames_fk (ss e' : Esc) (h : String)
    (ha : fk h e'.actionEdits = ss.actionEdits) (ht : fk h e'.tmplEdits = ss.tmplEdits)
    (hx : fk h e'.textEdits = ss.textEdits) : h ∈ editNames e' ↔ h ∈ editNames ss := by
  unfold editNames
  rw [List.mem_eraseDups, List.mem_eraseDups, List.mem_append, List.mem_append, List.mem_append, List.mem_append,
    ← ha, ← ht, ← hx, ← icc_mem_names_fk h, ← icc_mem_names_fk h, ← icc_mem_names_fk h]

/-- **2.** the committed tree of a name whose pending edits are exactly the edits of `ss` -/
theorem commit_fk (text : TextSet) (ss e' : Esc) (h : String) (t : Tree) (text2 : TextSet) (e2 : Esc)
    (hc : commit text e' = .ok (text2, e2)) (hl : text.lookup h = some (some t)) (hd : ∀ p ∈ e'.derived, p.1 ≠ h)
    (ha : fk h e'.actionEdits = ss.actionEdits) (ht : fk h e'.tmplEdits = ss.tmplEdits)
    (hx : fk h e'.textEdits = ss.textEdits) :
    ∃ T, cfTree h ss t = some T ∧ text2.lookup h = some (some T) := by
  obtain ⟨pr, hfold, _⟩ := commit_spec text e' text2 e2 hc
  have h1 : (e'.derived.foldl installStep text).lookup h = some (some t) := by
    rw [install_keeps e'.derived text h (fun p hp he => absurd he (hd p hp)), hl]
  have hmem := icc_mem_editNames_fk ss e' h ha ht hx
  unfold cfTree
  by_cases hn : h ∈ editNames e'
  · obtain ⟨r, hr, hl2⟩ := edits_lookup_once _ (editNames e') _ text2 h t (nodup_eraseDups _ _ (Nat.le_refl _))
      hfold hn h1
    have hfe : FindEq h { e' with pristine := pr } ss := by
      refine ⟨fun id => ?_, fun id => ?_, fun id => ?_⟩
      · show e'.textEdits.find? _ = _
        rw [← hx]; exact icc_find_fk h id _
      · show e'.actionEdits.find? _ = _
        rw [← ha]; exact icc_find_fk h id _
      · show e'.tmplEdits.find? _ = _
        rw [← ht]; exact icc_find_fk h id _
    rw [list_applyEdits_congr h _ ss hfe] at hr
    rw [if_pos (hmem.mp hn), hr]
    exact ⟨_, rfl, hl2⟩
  · rw [if_neg (fun h' => hn (hmem.mpr h'))]
    refine ⟨t, rfl, ?_⟩
    rw [edits_lookup_other _ (editNames e') _ text2 h hfold hn, h1]

theorem icc_fk_nil_ne {β} (h : String) (l : List (EditKey × β)) (hf : fk h l = []) : ∀ q ∈ l, q.1.1 ≠ h := by
  intro q hq he
  have : q ∈ fk h l := List.mem_filter.mpr ⟨hq, by simp only [he, beq_self_eq_true]⟩
  rw [hf] at this
  cases this

/-- **3.** nothing pending for `h`: the commit keeps its entry -/
theorem commit_fk_nil (text : TextSet) (e' : Esc) (h : String) (text2 : TextSet) (e2 : Esc)
    (hc : commit text e' = .ok (text2, e2)) (hd : ∀ p ∈ e'.derived, p.1 ≠ h)
    (ha : fk h e'.actionEdits = []) (ht : fk h e'.tmplEdits = []) (hx : fk h e'.textEdits = []) :
    text2.lookup h = text.lookup h := by
  refine commit_keeps text e' text2 e2 h hc ?_ (fun p hp he => absurd he (hd p hp))
  intro hmem
  rcases mem_editNames e' h hmem with ⟨p, hp, he⟩ | ⟨p, hp, he⟩ | ⟨p, hp, he⟩
  · exact icc_fk_nil_ne h _ ha p hp he
  · exact icc_fk_nil_ne h _ ht p hp he
  · exact icc_fk_nil_ne h _ hx p hp he

/-- **4.** after a commit nothing is pending; memo and derived keys are as before -/
theorem commit_fields (text : TextSet) (e : Esc) (text2 : TextSet) (e2 : Esc) (hc : commit text e = .ok (text2, e2)) :
    e2.output = e.output ∧ e2.actionEdits = [] ∧ e2.tmplEdits = [] ∧ e2.textEdits = [] ∧
    (∀ p ∈ e2.derived, ∃ q ∈ e.derived, q.1 = p.1) := by
  obtain ⟨pr, _, rfl⟩ := commit_spec text e text2 e2 hc
  refine ⟨rfl, rfl, rfl, rfl, ?_⟩
  intro p hp
  simp only [List.mem_map] at hp
  obtain ⟨q, hq, rfl⟩ := hp
  exact ⟨q, hq, (relink_fst text2 q).symm⟩

end

/-! # part: ICPrist -/
section
open SafeHtml SafeHtml.Model.Tmpl SafeHtml.Proofs.Frozen SafeHtml.Proofs.ConcApi SafeHtml.Proofs.ConcReach
  SafeHtml.Proofs.NoPanic SafeHtml.Proofs.NoPanic2 SafeHtml.Proofs.NoPanic3 SafeHtml.Proofs.NoPanic4
  SafeHtml.Proofs.Independence

theorem icp_escapeAction (env : Env) (tn : String) (e : Esc) (c : Ctx) (id : Nat) (p : Pipe) (r : Esc × Ctx)
    (h : escapeAction env tn e c id p = .ok r) : r.1.pristine = e.pristine := by
  unfold escapeAction at h
  split at h
  · cases h; rfl
  · simp only [] at h
    split at h
    · cases h
    · cases h; rfl
    · split at h
      · cases h; rfl
      · split at h
        · cases h; rfl
        · obtain ⟨e1, h1, h2⟩ := bind_ok h
          cases h2
          unfold Esc.editAction at h1
          split at h1
          · cases h1
          · cases h1; rfl

theorem icp_escapeTextNode (env : Env) (tn : String) (e : Esc) (c : Ctx) (id : Nat) (b : Bytes) (r : Esc × Ctx)
    (h : escapeTextNode env tn e c id b = .ok r) : r.1.pristine = e.pristine := by
  unfold escapeTextNode at h
  split at h
  · cases h
  · cases h; rfl
  · obtain ⟨e1, h1, h2⟩ := bind_ok h
    cases h2
    unfold Esc.editText at h1
    split at h1
    · cases h1
    · cases h1; rfl

theorem icp_editTmpl (e e1 : Esc) (k : EditKey) (v : String)
    (h : e.editTmpl k v = .ok e1) : e1.pristine = e.pristine := by
  unfold Esc.editTmpl at h
  split at h
  · cases h
  · cases h; rfl

def icp_NodeOK (env : Env) (f : Nat) : Prop :=
  ∀ tn e c n r, escapeNode env f tn e c n = .ok r → r.1.pristine = e.pristine
def icp_ListOK (env : Env) (f : Nat) : Prop :=
  ∀ tn e c l r, escapeList env f tn e c l = .ok r → r.1.pristine = e.pristine
def icp_BranchOK (env : Env) (f : Nat) : Prop :=
  ∀ tn e c t el b r, escapeBranch env f tn e c t el b = .ok r → r.1.pristine = e.pristine
def icp_TreeOK (env : Env) (f : Nat) : Prop :=
  ∀ e c name r, escapeTree env f e c name = .ok r → r.1.pristine = e.pristine
def icp_OutOK (env : Env) (f : Nat) : Prop :=
  ∀ e c tname t r, computeOutCtx env f e c tname t = .ok r → r.1.pristine = e.pristine
def icp_BodyOK (env : Env) (f : Nat) : Prop :=
  ∀ e c tname t r, escapeTemplateBody env f e c tname t = .ok r → r.1.pristine = e.pristine

theorem icp_node_succ {env f} (hb : icp_BranchOK env f) (ht : icp_TreeOK env f) : icp_NodeOK env (f + 1) := by
  intro tn e c n r h
  cases n with
  | action id p => simp only [escapeNode] at h; exact icp_escapeAction env tn e c id p r h
  | text id b => simp only [escapeNode] at h; exact icp_escapeTextNode env tn e c id b r h
  | ifN id p t el => simp only [escapeNode] at h; exact hb _ _ _ _ _ _ _ h
  | withN id p t el => simp only [escapeNode] at h; exact hb _ _ _ _ _ _ _ h
  | rangeN id p t el => simp only [escapeNode] at h; exact hb _ _ _ _ _ _ _ h
  | tmpl id name p =>
    simp only [escapeNode] at h
    obtain ⟨⟨e1, c1, dname⟩, h1, h2⟩ := bind_ok h
    have s1 := ht _ _ _ _ h1
    simp only [] at h2 s1
    split at h2
    · obtain ⟨e2, h3, h4⟩ := bind_ok h2
      cases h4
      exact (icp_editTmpl e1 e2 _ dname h3).trans s1
    · cases h2; exact s1
  | brk id => simp only [escapeNode] at h; cases h; rfl
  | cont id => simp only [escapeNode] at h; cases h; rfl
  | comment id => simp only [escapeNode] at h; cases h; rfl

theorem icp_list_succ {env f} (hn : icp_NodeOK env f) (hl : icp_ListOK env f) : icp_ListOK env (f + 1) := by
  intro tn e c l r h
  cases l with
  | nil => simp only [escapeList] at h; cases h; rfl
  | cons n ns =>
    simp only [escapeList] at h
    obtain ⟨⟨e1, c1⟩, h1, h2⟩ := bind_ok h
    have s1 := hn _ _ _ _ _ h1
    exact (hl _ _ _ _ _ h2).trans s1

theorem icp_branch_succ {env f} (hl : icp_ListOK env f) : icp_BranchOK env (f + 1) := by
  intro tn e c t el b r h
  simp only [escapeBranch] at h
  obtain ⟨⟨e1, c0⟩, h1, h2⟩ := bind_ok h
  have s1 := hl _ _ _ _ _ h1
  simp only [] at h2 s1
  obtain ⟨j, _, h4⟩ := bind_ok h2
  split at h4
  · split at h4
    · cases h4; exact s1
    · obtain ⟨⟨e2, c2⟩, h5, h6⟩ := bind_ok h4
      cases h6
      exact (hl _ _ _ _ (e2, c2) h5).trans s1
  · obtain ⟨⟨e2, c2⟩, h5, h6⟩ := bind_ok h4
    cases h6
    exact (hl _ _ _ _ (e2, c2) h5).trans s1

theorem icp_body_succ {env f} (_hl : icp_ListOK env f) : icp_BodyOK env (f + 1) := by
  intro e c tname t r h
  simp only [escapeTemplateBody] at h
  split at h
  · cases h
  · rename_i tr
    obtain ⟨⟨e1, c1⟩, h1, h2⟩ := bind_ok h
    simp only [] at h2
    split at h2
    · obtain ⟨ae, ha, h3⟩ := bind_ok h2
      obtain ⟨te, ht, h4⟩ := bind_ok h3
      obtain ⟨xe, hx, h5⟩ := bind_ok h4
      cases h5
      rfl
    · cases h2
      rfl

theorem icp_out_succ {env f} (hb : icp_BodyOK env f) : icp_OutOK env (f + 1) := by
  intro e c tname t r h
  simp only [computeOutCtx] at h
  obtain ⟨⟨e1, c1, ok⟩, h1, h2⟩ := bind_ok h
  have s1 := hb _ _ _ _ _ h1
  simp only [] at h2 s1
  split at h2
  · cases h2
    exact s1
  · obtain ⟨⟨e2, c2, ok2⟩, h3, h4⟩ := bind_ok h2
    have s2 := hb _ _ _ _ _ h3
    simp only [] at h4 s2
    have s12 := s2.trans s1
    split at h4
    · cases h4; exact s12
    · split at h4
      · cases h4; exact s12
      · cases h4; exact s12

theorem icp_tree_succ {env f} (ho : icp_OutOK env f) : icp_TreeOK env (f + 1) := by
  intro e c name r h
  simp only [escapeTree] at h
  split at h
  · cases h; rfl
  · skip
    split at h
    · cases h; rfl
    · split at h
      · cases h; rfl
      · cases h; rfl
      · split at h
        · split at h
          · obtain ⟨⟨e1, c1⟩, h1, h2⟩ := bind_ok h
            cases h2
            have s := ho _ _ _ _ (e1, c1) h1
            exact s
          · obtain ⟨⟨e1, c1⟩, h1, h2⟩ := bind_ok h
            cases h2
            have s := ho _ _ _ _ (e1, c1) h1
            exact s
        · obtain ⟨⟨e1, c1⟩, h1, h2⟩ := bind_ok h
          cases h2
          have s := ho _ _ _ _ (e1, c1) h1
          exact s

/-- the analysis never changes the `pristine` field of the escaper -/
theorem analysis_pristine (env : Env) : ∀ f,
  (∀ tn e c n r, escapeNode env f tn e c n = .ok r → r.1.pristine = e.pristine) ∧
  (∀ tn e c l r, escapeList env f tn e c l = .ok r → r.1.pristine = e.pristine) ∧
  (∀ tn e c t el b r, escapeBranch env f tn e c t el b = .ok r → r.1.pristine = e.pristine) ∧
  (∀ e c name r, escapeTree env f e c name = .ok r → r.1.pristine = e.pristine) ∧
  (∀ e c tname t r, computeOutCtx env f e c tname t = .ok r → r.1.pristine = e.pristine) ∧
  (∀ e c tname t r, escapeTemplateBody env f e c tname t = .ok r → r.1.pristine = e.pristine) := by
  intro f
  induction f with
  | zero =>
    refine ⟨?_, ?_, ?_, ?_, ?_, ?_⟩
    · intro tn e c n r h; simp only [escapeNode] at h; cases h
    · intro tn e c l r h; simp only [escapeList] at h; cases h
    · intro tn e c t el b r h; simp only [escapeBranch] at h; cases h
    · intro e c name r h; simp only [escapeTree] at h; cases h
    · intro e c tname t r h; simp only [computeOutCtx] at h; cases h
    · intro e c tname t r h; simp only [escapeTemplateBody] at h; cases h
  | succ f ih =>
    obtain ⟨hn, hl, hb, ht, ho, hbd⟩ := ih
    exact ⟨icp_node_succ hb ht, icp_list_succ hn hl, icp_branch_succ hl, icp_tree_succ ho, icp_out_succ hbd,
      icp_body_succ hl⟩

end

/-! # part: ICWorld -/
/-
Generic "invariant of every name space of every reachable world": a per-name-space predicate that depends on the
validators and the fuel of the world, and on text set, escaper and CSP flag of the name space, holds in every world
reachable by well-formed operations with early `CSPCompatible()` calls, as soon as it holds for empty escapers and is
kept by one analysis under the mutex (`NsPred`, `nspred_reachable`).
-/
section
open SafeHtml SafeHtml.Model.Tmpl SafeHtml.Proofs.Frozen SafeHtml.Proofs.ConcApi SafeHtml.Proofs.ConcReach
  SafeHtml.Proofs.ApiFrames SafeHtml.Proofs.NoPanic SafeHtml.Proofs.NoPanic2 SafeHtml.Proofs.NoPanic3 SafeHtml.Proofs.NoPanic4
  SafeHtml.Proofs.Independence

/-- `CSPCompatible()` is only called on a set that has not been executed yet, or that already is CSP compatible -/
def CspEarly (w : World) : Op → Prop
  | .csp h => ∀ p, w.obj h = some p → (w.ns p.2.ns).escaped = false ∨ (w.ns p.2.ns).csp = true
  | _ => True

/-- reachable by well-formed operations (`OpOK`: parsed trees are parser-shaped) with early `CSPCompatible()` calls -/
inductive ReachableC : World → Prop where
  | init (w : World) (h : Initial w) (hh : w.handles = []) : ReachableC w
  | step (w : World) (op : Op) (h : ReachableC w) (hop : OpOK op) (hcsp : CspEarly w op) : ReachableC (Api.step w op).1

theorem ReachableC.reachableP {w : World} (h : ReachableC w) : ReachableP w := by
  induction h with
  | init w h hh => exact ReachableP.init w h hh
  | step w op _ hop _ ih => exact ReachableP.step w op ih hop

/-! ### 1. the construction operations: validators, fuel, and what the analysis sees of a name space -/

/-- text set, escaper, CSP flag and `escaped` flag are the same -/
def icw_Same (n n' : NS) : Prop := n'.text = n.text ∧ n'.esc = n.esc ∧ n'.csp = n.csp ∧ n'.escaped = n.escaped

/-- validators and fuel are unchanged; every name space of `w'` is one of `w` (as far as the analysis is concerned) or
    has not been executed -/
def icw_Rel (w w' : World) : Prop :=
  w'.v = w.v ∧ w'.fuel = w.fuel ∧ ∀ k, icw_Same (w.ns k) (w'.ns k) ∨ (w'.ns k).escaped = false

theorem icw_Rel.refl (w : World) : icw_Rel w w := ⟨rfl, rfl, fun _ => .inl ⟨rfl, rfl, rfl, rfl⟩⟩

theorem icw_Rel.trans {w w1 w2 : World} (h1 : icw_Rel w w1) (h2 : icw_Rel w1 w2) : icw_Rel w w2 := by
  obtain ⟨v1, f1, k1⟩ := h1
  obtain ⟨v2, f2, k2⟩ := h2
  refine ⟨v2.trans v1, f2.trans f1, fun k => ?_⟩
  rcases k2 k with ⟨a, b, c, d⟩ | h
  · rcases k1 k with ⟨a1, b1, c1, d1⟩ | h1
    · exact .inl ⟨a.trans a1, b.trans b1, c.trans c1, d.trans d1⟩
    · exact .inr (d.trans h1)
  · exact .inr h

theorem icw_rel_setObj (w : World) (id : Nat) (o : TObj) : icw_Rel w (w.setObj id o) := icw_Rel.refl w

theorem icw_rel_bind (w : World) (h id : Nat) : icw_Rel w (w.bind h id) := icw_Rel.refl w

theorem icw_rel_newSet (w : World) (name : String) : icw_Rel w (w.newSet name).1 := by
  refine ⟨rfl, rfl, fun k => ?_⟩
  rw [newSet_ns]
  by_cases hk : k = w.next
  · rw [if_pos hk]; exact .inr rfl
  · rw [if_neg hk]; exact .inl ⟨rfl, rfl, rfl, rfl⟩

theorem icw_rel_bindNew (w : World) (k : Nat) (name : String) (obj : TObj) : icw_Rel w (bindNew w k name obj).1 := by
  refine ⟨rfl, rfl, fun j => ?_⟩
  rw [bindNew_ns]
  by_cases hj : j = k
  · rw [if_pos hj, hj]; exact .inl ⟨rfl, rfl, rfl, rfl⟩
  · rw [if_neg hj]; exact .inl ⟨rfl, rfl, rfl, rfl⟩

theorem icw_rel_assocNew (w : World) (k : Nat) (name : String) : icw_Rel w (w.assocNew k name).1 := by
  rw [assocNew_eq]
  refine icw_Rel.trans ?_ (icw_rel_bindNew _ k name _)
  split
  · split
    · exact (icw_rel_newSet w name).trans (icw_rel_setObj _ _ _)
    · exact icw_rel_newSet w name
  · exact icw_Rel.refl w

theorem icw_rel_parseStep (k : Nat) (w : World) (p : String × Option Tree) : icw_Rel w (parseStep k w p) := by
  unfold parseStep
  simp only []
  cases hl : alookup (w.ns k).set p.1 with
  | some tid =>
    simp only []
    cases nlookup w.objs tid <;> exact icw_Rel.refl w
  | none =>
    simp only []
    cases nlookup (w.assocNew k p.1).1.objs (w.assocNew k p.1).2 <;> exact icw_rel_assocNew w k p.1

theorem icw_rel_parseFold (k : Nat) (l : List (String × Option Tree)) :
    ∀ w, icw_Rel w (l.foldl (parseStep k) w) := by
  induction l with
  | nil => intro w; exact icw_Rel.refl w
  | cons p t ih => intro w; exact (icw_rel_parseStep k w p).trans (ih _)

theorem icw_rel_cloneFold (nsId : Nat) (l : List (String × Option Tree)) :
    ∀ w, icw_Rel w (l.foldl (cloneStep nsId) w) := by
  induction l with
  | nil => intro w; exact icw_Rel.refl w
  | cons p t ih => intro w; exact (icw_rel_bindNew w nsId p.1 _).trans (ih _)

/-- `Parse` is gated by `escaped = false`: the name space it changes is not executed -/
theorem icw_rel_apiParse (w : World) (h : Nat) (defs : List Tree) : icw_Rel w (apiParse w h defs).1 := by
  unfold apiParse
  cases hobj : w.obj h with
  | none => exact icw_Rel.refl w
  | some q =>
    obtain ⟨oid, o⟩ := q
    simp only []
    cases hesc : (w.ns o.ns).escaped with
    | true => simp only [if_true]; exact icw_Rel.refl w
    | false =>
      simp only [Bool.false_eq_true, if_false]
      generalize defs.foldl _ ((w.ns o.ns).text, o.registered) = tr
      obtain ⟨text, reg⟩ := tr
      simp only []
      have h2 : icw_Rel w ((w.setObj oid { o with registered := reg }).setNs o.ns
          { set := (w.ns o.ns).set, csp := (w.ns o.ns).csp, esc := (w.ns o.ns).esc, text := text }) := by
        refine ⟨rfl, rfl, fun j => ?_⟩
        rw [ns_upd]
        by_cases hj : j = o.ns
        · rw [if_pos hj]; exact .inr rfl
        · rw [if_neg hj]; exact .inl ⟨rfl, rfl, rfl, rfl⟩
      exact h2.trans (icw_rel_parseFold o.ns text _)

/-- `Clone` creates a name space that is not executed -/
theorem icw_rel_apiClone (w : World) (h h' : Nat) : icw_Rel w (apiClone w h h').1 := by
  unfold apiClone
  cases hobj : w.obj h with
  | none => exact icw_Rel.refl w
  | some q =>
    obtain ⟨oid, o⟩ := q
    simp only []
    split
    · exact icw_Rel.refl w
    · split
      · exact icw_Rel.refl w
      · generalize (if o.registered = true then (w.ns o.ns).text
          else List.map (fun p => if (p.1 == o.name) = true then (p.1, none) else p) (w.ns o.ns).text) = ctext
        have h0 : icw_Rel w (((({ w with next := w.next + 2 } : World).setObj (w.next + 1)
            { ns := w.next, name := o.name, registered := (ctext.lookup o.name).isSome,
              treeNil := !(match ctext.lookup o.name with | some (some _) => true | _ => false) }).setNs w.next
            { set := [(o.name, w.next + 1)], text := ctext })) := by
          refine ⟨rfl, rfl, fun j => ?_⟩
          rw [ns_upd]
          by_cases hj : j = w.next
          · rw [if_pos hj]; exact .inr rfl
          · rw [if_neg hj]; exact .inl ⟨rfl, rfl, rfl, rfl⟩
        have h1 := h0.trans (icw_rel_cloneFold w.next ctext _)
        split
        · exact h1
        · exact h1

theorem icw_rel_apiLookup (w : World) (h : Nat) (name : String) (h' : Nat) :
    icw_Rel w (apiLookup w h name h').1 := by
  unfold apiLookup
  split
  · exact icw_Rel.refl w
  · split
    · exact icw_Rel.refl w
    · split <;> exact icw_Rel.refl w

/-! ### 2. the critical sections of `Execute` / `ExecuteTemplate` -/

theorem icw_markFailed_v (w : World) (n : Nat) (name : String) (e : Esc) (c : ErrCode) :
    (markFailed w n name e c).v = w.v := by
  unfold markFailed
  simp only []
  split
  · split <;> rfl
  · rfl

theorem icw_markOk_v (w : World) (n : Nat) (name : String) (t : TextSet) (e : Esc) :
    (markOk w n name t e).v = w.v := by
  unfold markOk
  simp only []
  split
  · split <;> rfl
  · rfl

theorem top_v_fuel (w w' : World) (k : Nat) (name : String) (r : Option ErrCode)
    (h : escapeTemplateTop w k name = .inr (w', r)) : w'.v = w.v ∧ w'.fuel = w.fuel := by
  obtain ⟨_, _, _, _, _, hf, _, _⟩ := escapeTemplateTop_spec w k name w' r h
  refine ⟨?_, hf⟩
  unfold escapeTemplateTop at h
  simp only [] at h
  split at h
  · cases h
  · cases h
  · split at h
    · simp only [Sum.inr.injEq, Prod.mk.injEq] at h; rw [← h.1]; exact icw_markFailed_v ..
    · split at h
      · cases h
      · cases h
      · simp only [Sum.inr.injEq, Prod.mk.injEq] at h; rw [← h.1]; exact icw_markOk_v ..

/-- what `Execute` does to the world under the mutex: mark the set as executed, then at most one analysis -/
theorem icw_critExecute_ind (I : World → Prop) (w : World) (h : Nat) (h0 : I w)
    (h1 : ∀ k, I (w.setNs k { w.ns k with escaped := true }))
    (h2 : ∀ k name w' r, escapeTemplateTop (w.setNs k { w.ns k with escaped := true }) k name = .inr (w', r) → I w') :
    I (critExecute w h).1 := by
  unfold critExecute
  cases hobj : w.obj h with
  | none => exact h0
  | some p =>
    obtain ⟨oid, o⟩ := p
    have h1 := h1 o.ns
    simp only []
    cases hs : o.status with
    | failed code => exact h1
    | ok => exact h1
    | unset =>
      simp only []
      cases ht : o.treeNil with
      | true => exact h1
      | false =>
        simp only [Bool.false_eq_true, if_false]
        cases he : escapeTemplateTop (w.setNs o.ns { w.ns o.ns with escaped := true }) o.ns o.name with
        | inl r => exact h1
        | inr q =>
          obtain ⟨w', oc⟩ := q
          have h2 := h2 o.ns o.name w' oc he
          cases oc with
          | some code => exact h2
          | none =>
            simp only []
            cases nlookup w'.objs oid <;> exact h2

/-- … and the same for `ExecuteTemplate` -/
theorem icw_critExecuteTemplate_ind (I : World → Prop) (w : World) (h : Nat) (name : String) (h0 : I w)
    (h1 : ∀ k, I (w.setNs k { w.ns k with escaped := true }))
    (h2 : ∀ k name w' r, escapeTemplateTop (w.setNs k { w.ns k with escaped := true }) k name = .inr (w', r) → I w') :
    I (critExecuteTemplate w h name).1 := by
  unfold critExecuteTemplate
  cases hobj : w.obj h with
  | none => exact h0
  | some p =>
    obtain ⟨oid, o⟩ := p
    have h1 := h1 o.ns
    simp only []
    cases hl : alookup (w.ns o.ns).set name with
    | none => exact h1
    | some tid =>
      simp only []
      cases hn : nlookup (w.setNs o.ns { w.ns o.ns with escaped := true }).objs tid with
      | none => exact h1
      | some t =>
        simp only []
        cases hs : t.status with
        | failed code => exact h1
        | ok =>
          simp only []
          generalize (if t.registered = true then _ else true) = b1
          generalize ((w.ns o.ns).text.lookup name).isNone = b2
          cases b1
          · cases b2
            · simp only [show (Status.ok == Status.unset) = false from rfl, Bool.false_eq_true, if_false]
              exact h1
            · exact h1
          · exact h1
        | unset =>
          simp only []
          generalize (if t.registered = true then _ else true) = b1
          generalize ((w.ns o.ns).text.lookup name).isNone = b2
          cases b1
          · cases b2
            · simp only [show (Status.unset == Status.unset) = true from rfl, Bool.false_eq_true, if_false, if_true]
              cases he : escapeTemplateTop (w.setNs o.ns { w.ns o.ns with escaped := true }) o.ns name with
              | inl r => exact h1
              | inr q =>
                obtain ⟨w', oc⟩ := q
                have h2 := h2 o.ns name w' oc he
                cases oc with
                | some code => exact h2
                | none =>
                  simp only []
                  cases nlookup w'.objs tid <;> exact h2
            · exact h1
          · exact h1

theorem icw_vf_critExecute (w : World) (h : Nat) :
    (critExecute w h).1.v = w.v ∧ (critExecute w h).1.fuel = w.fuel :=
  icw_critExecute_ind (fun w' => w'.v = w.v ∧ w'.fuel = w.fuel) w h ⟨rfl, rfl⟩ (fun _ => ⟨rfl, rfl⟩)
    (fun k name w' r he => top_v_fuel (w.setNs k { w.ns k with escaped := true }) w' k name r he)

theorem icw_vf_critExecuteTemplate (w : World) (h : Nat) (name : String) :
    (critExecuteTemplate w h name).1.v = w.v ∧ (critExecuteTemplate w h name).1.fuel = w.fuel :=
  icw_critExecuteTemplate_ind (fun w' => w'.v = w.v ∧ w'.fuel = w.fuel) w h name ⟨rfl, rfl⟩ (fun _ => ⟨rfl, rfl⟩)
    (fun k name w' r he => top_v_fuel (w.setNs k { w.ns k with escaped := true }) w' k name r he)

/-- no operation changes the validators or the fuel of the world -/
theorem step_v_fuel (w : World) (op : Op) : (Api.step w op).1.v = w.v ∧ (Api.step w op).1.fuel = w.fuel := by
  cases op with
  | new h name => exact ⟨rfl, rfl⟩
  | assocNew h name h' =>
    simp only [Api.step]
    cases hobj : w.obj h with
    | none => exact ⟨rfl, rfl⟩
    | some p => exact ⟨(icw_rel_assocNew w p.2.ns name).1, (icw_rel_assocNew w p.2.ns name).2.1⟩
  | parse h defs => exact ⟨(icw_rel_apiParse w h defs).1, (icw_rel_apiParse w h defs).2.1⟩
  | clone h h' => exact ⟨(icw_rel_apiClone w h h').1, (icw_rel_apiClone w h h').2.1⟩
  | lookup h name h' => exact ⟨(icw_rel_apiLookup w h name h').1, (icw_rel_apiLookup w h name h').2.1⟩
  | templates h => exact ⟨rfl, rfl⟩
  | csp h =>
    simp only [Api.step]
    cases hobj : w.obj h with
    | none => exact ⟨rfl, rfl⟩
    | some p => exact ⟨rfl, rfl⟩
  | exec h d =>
    show (apiExecute w h d).1.v = w.v ∧ (apiExecute w h d).1.fuel = w.fuel
    rw [apiExecute_split]; exact icw_vf_critExecute w h
  | execHTML h d =>
    show (apiExecute w h d).1.v = w.v ∧ (apiExecute w h d).1.fuel = w.fuel
    rw [apiExecute_split]; exact icw_vf_critExecute w h
  | execT h n d =>
    show (apiExecuteTemplate w h n d).1.v = w.v ∧ (apiExecuteTemplate w h n d).1.fuel = w.fuel
    rw [apiExecuteTemplate_split]; exact icw_vf_critExecuteTemplate w h n
  | execTHTML h n d =>
    show (apiExecuteTemplate w h n d).1.v = w.v ∧ (apiExecuteTemplate w h n d).1.fuel = w.fuel
    rw [apiExecuteTemplate_split]; exact icw_vf_critExecuteTemplate w h n

/-! ### 3. per-name-space predicates -/

/-- what a per-name-space predicate must satisfy to hold in every reachable world -/
structure NsPred (P : Validators → Nat → NS → Prop) : Prop where
  /-- it holds for a name space with an empty escaper -/
  fresh : ∀ v F (n : NS), n.esc.output = [] → n.esc.derived = [] → n.esc.pristine = [] → n.esc.actionEdits = [] →
    n.esc.tmplEdits = [] → n.esc.textEdits = [] → P v F n
  /-- it depends only on the text set, the escaper and the CSP flag -/
  congr : ∀ v F (n n' : NS), n'.text = n.text → n'.esc = n.esc → n'.csp = n.csp → P v F n → P v F n'
  /-- one analysis under the mutex keeps it -/
  top : ∀ (w w' : World) (k : Nat) (name : String) (r : Option ErrCode), P w.v w.fuel (w.ns k) → AI (w.ns k) →
    escapeTemplateTop w k name = .inr (w', r) → P w'.v w'.fuel (w'.ns k)

/-- the predicate holds for every name space of the world -/
def icw_Holds (P : Validators → Nat → NS → Prop) (w : World) : Prop := ∀ k, P w.v w.fuel (w.ns k)

/-- construction operations: a name space is unchanged, or not executed and hence (`QE`) has an empty escaper -/
theorem icw_holds_rel (P : Validators → Nat → NS → Prop) (hP : NsPred P) {w w' : World} (hr : icw_Rel w w')
    (hw' : WInv w') (hH : icw_Holds P w) : icw_Holds P w' := by
  intro k
  obtain ⟨hv, hf, hk⟩ := hr
  rw [hv, hf]
  rcases hk k with ⟨a, b, c, _⟩ | he
  · exact hP.congr _ _ _ _ a b c (hH k)
  · obtain ⟨h1, h2, h3, h4, h5, h6⟩ := (hw' k).1 he
    exact hP.fresh _ _ _ h1 h2 h3 h4 h5 h6

theorem icw_holds_setEscaped (P : Validators → Nat → NS → Prop) (hP : NsPred P) (w : World) (k : Nat)
    (hH : icw_Holds P w) : icw_Holds P (w.setNs k { w.ns k with escaped := true }) := by
  intro j
  show P w.v w.fuel ((w.setNs k { w.ns k with escaped := true }).ns j)
  rw [ns_upd]
  by_cases hj : j = k
  · rw [if_pos hj]; exact hP.congr _ _ (w.ns k) _ rfl rfl rfl (hH k)
  · rw [if_neg hj]; exact hH j

theorem icw_holds_top (P : Validators → Nat → NS → Prop) (hP : NsPred P) (w w' : World) (ns : Nat) (name : String)
    (r : Option ErrCode) (hH : icw_Holds P w) (ha : AI (w.ns ns))
    (h : escapeTemplateTop w ns name = .inr (w', r)) : icw_Holds P w' := by
  obtain ⟨_, _, _, _, _, _, hoth, _⟩ := escapeTemplateTop_spec w ns name w' r h
  obtain ⟨hv, hf⟩ := top_v_fuel w w' ns name r h
  intro j
  by_cases hj : j = ns
  · subst hj
    exact hP.top w w' j name r (hH j) ha h
  · rw [hoth j hj, hv, hf]; exact hH j

theorem icw_holds_critExecute (P : Validators → Nat → NS → Prop) (hP : NsPred P) (w : World) (h : Nat)
    (hw : WInv w) (hH : icw_Holds P w) : icw_Holds P (critExecute w h).1 :=
  icw_critExecute_ind (icw_Holds P) w h hH (fun k => icw_holds_setEscaped P hP w k hH)
    (fun k name w' r he => icw_holds_top P hP _ w' k name r (icw_holds_setEscaped P hP w k hH)
      (winv_setEscaped w k hw k).2 he)

theorem icw_holds_critExecuteTemplate (P : Validators → Nat → NS → Prop) (hP : NsPred P) (w : World) (h : Nat)
    (name : String) (hw : WInv w) (hH : icw_Holds P w) : icw_Holds P (critExecuteTemplate w h name).1 :=
  icw_critExecuteTemplate_ind (icw_Holds P) w h name hH (fun k => icw_holds_setEscaped P hP w k hH)
    (fun k name w' r he => icw_holds_top P hP _ w' k name r (icw_holds_setEscaped P hP w k hH)
      (winv_setEscaped w k hw k).2 he)

/-- `CSPCompatible()` on a set that is not executed, or that is CSP compatible already -/
theorem icw_rel_csp (w : World) (k : Nat) (h : (w.ns k).escaped = false ∨ (w.ns k).csp = true) :
    icw_Rel w (w.setNs k { w.ns k with csp := true }) := by
  refine ⟨rfl, rfl, fun j => ?_⟩
  rw [ns_upd]
  by_cases hj : j = k
  · rw [if_pos hj, hj]
    rcases h with h | h
    · exact .inr h
    · exact .inl ⟨rfl, rfl, h.symm, rfl⟩
  · rw [if_neg hj]; exact .inl ⟨rfl, rfl, rfl, rfl⟩

/-- every well-formed operation with an early `CSPCompatible()` keeps the predicate in every name space -/
theorem icw_holds_step (P : Validators → Nat → NS → Prop) (hP : NsPred P) (w : World) (op : Op) (hw : WInv w)
    (hop : OpOK op) (hcsp : CspEarly w op) (hH : icw_Holds P w) : icw_Holds P (Api.step w op).1 := by
  have hw' := winv_step w op hw hop
  cases op with
  | new h name =>
    exact icw_holds_rel P hP ((icw_rel_newSet w name).trans (icw_rel_bind _ h _)) hw' hH
  | assocNew h name h' =>
    simp only [Api.step] at hw' ⊢
    cases hobj : w.obj h with
    | none => exact hH
    | some p =>
      rw [hobj] at hw'
      exact icw_holds_rel P hP ((icw_rel_assocNew w p.2.ns name).trans (icw_rel_bind _ h' _)) hw' hH
  | parse h defs => exact icw_holds_rel P hP (icw_rel_apiParse w h defs) hw' hH
  | clone h h' => exact icw_holds_rel P hP (icw_rel_apiClone w h h') hw' hH
  | lookup h name h' => exact icw_holds_rel P hP (icw_rel_apiLookup w h name h') hw' hH
  | templates h => exact hH
  | csp h =>
    simp only [Api.step] at hw' ⊢
    cases hobj : w.obj h with
    | none => exact hH
    | some p =>
      rw [hobj] at hw'
      exact icw_holds_rel P hP (icw_rel_csp w p.2.ns (hcsp p hobj)) hw' hH
  | exec h d =>
    show icw_Holds P (apiExecute w h d).1
    rw [apiExecute_split]; exact icw_holds_critExecute P hP w h hw hH
  | execHTML h d =>
    show icw_Holds P (apiExecute w h d).1
    rw [apiExecute_split]; exact icw_holds_critExecute P hP w h hw hH
  | execT h n d =>
    show icw_Holds P (apiExecuteTemplate w h n d).1
    rw [apiExecuteTemplate_split]; exact icw_holds_critExecuteTemplate P hP w h n hw hH
  | execTHTML h n d =>
    show icw_Holds P (apiExecuteTemplate w h n d).1
    rw [apiExecuteTemplate_split]; exact icw_holds_critExecuteTemplate P hP w h n hw hH

/-- **a per-name-space predicate that holds for empty escapers and is kept by every analysis holds for every name
    space of every reachable world** -/
theorem nspred_reachable (P : Validators → Nat → NS → Prop) (hP : NsPred P) (w : World) (hr : ReachableC w) :
    ∀ k, P w.v w.fuel (w.ns k) := by
  induction hr with
  | init w h _ =>
    intro k
    have : w.ns k = {} := by unfold World.ns; rw [h.2]; rfl
    rw [this]
    exact hP.fresh _ _ _ rfl rfl rfl rfl rfl rfl
  | step w op h hop hcsp ih =>
    exact icw_holds_step P hP w op (winv_reachable w h.reachableP) hop hcsp ih

end

/-! # part: ICExec -/
section
open SafeHtml SafeHtml.Model.Tmpl SafeHtml.Proofs.Frozen SafeHtml.Proofs.ConcApi SafeHtml.Proofs.ConcReach
  SafeHtml.Proofs.NoPanic SafeHtml.Proofs.NoPanic2 SafeHtml.Proofs.NoPanic3 SafeHtml.Proofs.NoPanic4
  SafeHtml.Proofs.Independence

/-- Two worlds, two name spaces; the executed template has the same installed tree in both, and so has every name it
    can (transitively) call: the executions agree. -/
theorem exec_calls (w1 w2 : World) (o1 o2 : TObj) (d : Value) (C : String → Prop) (T : Tree)
    (hreg : o1.registered = o2.registered) (hf : w1.fuel = w2.fuel)
    (hl1 : (w1.ns o1.ns).text.lookup o1.name = some (some T))
    (hl2 : (w2.ns o2.ns).text.lookup o2.name = some (some T))
    (hcalls : listCallsIn C T.root)
    (hC : ∀ h, C h → ∃ Th, (w1.ns o1.ns).text.lookup h = some (some Th) ∧
        (w2.ns o2.ns).text.lookup h = some (some Th) ∧ listCallsIn C Th.root) :
    textExecute w1 o1 d = textExecute w2 o2 d := by
  have hag : ∀ n, C n → (w1.ns o1.ns).text.lookup n = (w2.ns o2.ns).text.lookup n := by
    intro n hn
    obtain ⟨Th, h1, h2, _⟩ := hC n hn
    rw [h1, h2]
  have hcl : Closed C (w1.ns o1.ns).text := by
    intro n hn tr htr
    obtain ⟨Th, h1, _, h3⟩ := hC n hn
    rw [h1] at htr
    cases htr
    exact h3
  have hw := (walk_congr C false (w1.ns o1.ns).text (w2.ns o2.ns).text hag hcl w1.fuel).2.1 0 d d [] T.root hcalls
  unfold textExecute
  simp only [hl1, hl2, ← hreg, ← hf]
  cases o1.registered with
  | false => rfl
  | true =>
    simp only [if_true]
    rw [hw]

mutual
theorem icx_node_applyEdits_calls (C : String → Prop) (tn : String) (e : Esc) (hte : e.tmplEdits = []) :
    ∀ (n n' : Node), nodeCallsIn C n → Node.applyEdits tn e n = some n' → nodeCallsIn C n'
  | .text id b, n', _, h => by
    simp only [Node.applyEdits, Option.some.injEq] at h
    subst h
    split <;> simp only [nodeCallsIn]
  | .action id p, n', _, h => by
    simp only [Node.applyEdits] at h
    split at h
    · obtain ⟨p', _, rfl⟩ := Option.map_eq_some_iff.mp h
      simp only [nodeCallsIn]
    · cases h; simp only [nodeCallsIn]
  | .tmpl id name p, n', hn, h => by
    simp only [Node.applyEdits, hte, List.find?_nil, Option.some.injEq] at h
    subst h
    exact hn
  | .ifN id p t el, n', hn, h => by
    simp only [nodeCallsIn] at hn
    simp only [Node.applyEdits] at h
    obtain ⟨t', el', h1, h2, rfl⟩ := opt_bind2 h
    simp only [nodeCallsIn]
    exact ⟨list_applyEdits_calls C tn e hte t t' hn.1 h1, list_applyEdits_calls C tn e hte el el' hn.2 h2⟩
  | .rangeN id p t el, n', hn, h => by
    simp only [nodeCallsIn] at hn
    simp only [Node.applyEdits] at h
    obtain ⟨t', el', h1, h2, rfl⟩ := opt_bind2 h
    simp only [nodeCallsIn]
    exact ⟨list_applyEdits_calls C tn e hte t t' hn.1 h1, list_applyEdits_calls C tn e hte el el' hn.2 h2⟩
  | .withN id p t el, n', hn, h => by
    simp only [nodeCallsIn] at hn
    simp only [Node.applyEdits] at h
    obtain ⟨t', el', h1, h2, rfl⟩ := opt_bind2 h
    simp only [nodeCallsIn]
    exact ⟨list_applyEdits_calls C tn e hte t t' hn.1 h1, list_applyEdits_calls C tn e hte el el' hn.2 h2⟩
  | .brk _, n', _, h => by simp only [Node.applyEdits, Option.some.injEq] at h; subst h; simp only [nodeCallsIn]
  | .cont _, n', _, h => by simp only [Node.applyEdits, Option.some.injEq] at h; subst h; simp only [nodeCallsIn]
  | .comment _, n', _, h => by simp only [Node.applyEdits, Option.some.injEq] at h; subst h; simp only [nodeCallsIn]
/-- Applying edits that contain no template edit keeps the set of called names. -/
theorem list_applyEdits_calls (C : String → Prop) (tn : String) (e : Esc) (hte : e.tmplEdits = []) :
    ∀ (l l' : NodeList), listCallsIn C l → NodeList.applyEdits tn e l = some l' → listCallsIn C l'
  | .nil, l', _, h => by simp only [NodeList.applyEdits, Option.some.injEq] at h; subst h; simp only [listCallsIn]
  | .cons n ns, l', hn, h => by
    simp only [listCallsIn] at hn
    simp only [NodeList.applyEdits] at h
    obtain ⟨n', ns', h1, h2, rfl⟩ := opt_bind2 h
    simp only [listCallsIn]
    exact ⟨icx_node_applyEdits_calls C tn e hte n n' hn.1 h1, list_applyEdits_calls C tn e hte ns ns' hn.2 h2⟩
end

theorem cfTree_calls (C : String → Prop) (name : String) (ss : Esc) (t T : Tree) (hte : ss.tmplEdits = [])
    (hc : listCallsIn C t.root) (h : cfTree name ss t = some T) : listCallsIn C T.root := by
  unfold cfTree at h
  split at h
  · obtain ⟨r, hr, rfl⟩ := Option.map_eq_some_iff.mp h
    exact list_applyEdits_calls C name ss hte t.root r hc hr
  · cases h; exact hc

/-- A call-free tree calls only names in any `C`. -/
theorem nocalls_callsIn (C : String → Prop) (l : NodeList) (h : listNoCalls l) : listCallsIn C l :=
  listCallsIn_mono (fun _ hf => hf.elim) l (ncl_callsIn l h)

end

/-! # part: ICMain -/
section
open SafeHtml SafeHtml.Model.Tmpl SafeHtml.Proofs.Frozen SafeHtml.Proofs.ConcApi SafeHtml.Proofs.ConcReach
  SafeHtml.Proofs.ApiFrames SafeHtml.Proofs.NoPanic SafeHtml.Proofs.NoPanic2 SafeHtml.Proofs.NoPanic3 SafeHtml.Proofs.NoPanic4
  SafeHtml.Proofs.Independence

/-! ## 3. names without `$`, and `mangle` -/

theorem mangle_cases (c : Ctx) (name : String) :
    (mangle c name = name ∧ (c.state == .text && c.elemName == [] && c.elemNames.isEmpty) = true) ∨
    ¬ NoDollar (mangle c name) := by
  unfold mangle
  split
  · rename_i h; exact .inl ⟨rfl, h⟩
  · right
    intro hnd
    apply hnd
    simp only [String.toList_append, List.mem_append]
    left; left; left; left; left; right
    decide

theorem mangle_nodollar (c : Ctx) (name : String) (h : NoDollar (mangle c name)) (hc : CtxInv c) :
    mangle c name = name ∧ c = {} := by
  rcases mangle_cases c name with ⟨h1, h2⟩ | h1
  · refine ⟨h1, ?_⟩
    simp only [Bool.and_eq_true, beq_iff_eq, List.isEmpty_iff] at h2
    exact ci_text_eq c hc h2.1.1 h2.1.2 h2.2
  · exact absurd h h1

theorem mangle_ne_dollar (c : Ctx) (name : String) (h : mangle c name ≠ name) : ¬ NoDollar (mangle c name) := by
  rcases mangle_cases c name with ⟨h1, _⟩ | h1
  · exact absurd h1 h
  · exact h1

/-! ## 4. the analysis invariant: memo correctness for call-free templates without `$` -/

/-- `h` is a *tracked* name: no `$`, original tree `th` (given by `O`), and `th` is call-free -/
def Trk (O : String → Option Tree) (h : String) (th : Tree) : Prop :=
  NoDollar h ∧ O h = some th ∧ listNoCalls th.root

/-- the canonical pending edits of a tracked template -/
def cEd (env : Env) (F : Nat) (h : String) (th : Tree) : Esc :=
  match cfOut (cenv env.csp env.v) F h {} th.root with
  | .ok (_, ss) => ss
  | _ => {}

def EdSame (h : String) (e e' : Esc) : Prop :=
  fk h e'.actionEdits = fk h e.actionEdits ∧ fk h e'.tmplEdits = fk h e.tmplEdits ∧
  fk h e'.textEdits = fk h e.textEdits

def EdApp (h : String) (e ss e' : Esc) : Prop :=
  fk h e'.actionEdits = fk h e.actionEdits ++ ss.actionEdits ∧ fk h e'.tmplEdits = fk h e.tmplEdits ++ ss.tmplEdits ∧
  fk h e'.textEdits = fk h e.textEdits ++ ss.textEdits

theorem EdSame.refl (h : String) (e : Esc) : EdSame h e e := ⟨rfl, rfl, rfl⟩
theorem EdSame.trans {h : String} {e e1 e2 : Esc} (a : EdSame h e e1) (b : EdSame h e1 e2) : EdSame h e e2 :=
  ⟨b.1.trans a.1, b.2.1.trans a.2.1, b.2.2.trans a.2.2⟩
theorem EdSame.app {h : String} {e e1 e2 ss : Esc} (a : EdSame h e e1) (b : EdApp h e1 ss e2) : EdApp h e ss e2 :=
  ⟨by rw [b.1, a.1], by rw [b.2.1, a.2.1], by rw [b.2.2, a.2.2]⟩
theorem EdApp.same {h : String} {e e1 e2 ss : Esc} (a : EdApp h e ss e1) (b : EdSame h e1 e2) : EdApp h e ss e2 :=
  ⟨by rw [b.1, a.1], by rw [b.2.1, a.2.1], by rw [b.2.2, a.2.2]⟩

/-- the invariant of the escaper during one analysis (`O` = original trees, `F` = the fuel bound) -/
structure MInv (env : Env) (F : Nat) (O : String → Option Tree) (e : Esc) : Prop where
  dd : ∀ p ∈ e.derived, ¬ NoDollar p.1
  lk : ∀ h th, Trk O h th → ¬ Memo e h → env.text.lookup h = some (some th)
  mc : ∀ h th, Trk O h th → ∀ p ∈ e.output, p.1 = h →
    ∃ ss, cfOut (cenv env.csp env.v) F h {} th.root = .ok (p.2, ss)

/-- what an analysis step does to the tracked names -/
structure MStep (env : Env) (F : Nat) (O : String → Option Tree) (e e' : Esc) : Prop where
  ext : ∀ n, Memo e n → Memo e' n
  frozen : ∀ h th, Trk O h th → Memo e h → EdSame h e e'
  fresh : ∀ h th, Trk O h th → ¬ Memo e h →
    (¬ Memo e' h ∧ EdSame h e e') ∨ (Memo e' h ∧ EdApp h e (cEd env F h th) e')

def MPost (env : Env) (F : Nat) (O : String → Option Tree) (e e' : Esc) : Prop :=
  MInv env F O e' ∧ MStep env F O e e'

theorem MStep.refl (env : Env) (F : Nat) (O : String → Option Tree) (e : Esc) : MStep env F O e e :=
  ⟨fun _ h => h, fun h _ _ _ => EdSame.refl h e, fun h _ _ hm => .inl ⟨hm, EdSame.refl h e⟩⟩

theorem MStep.trans {env : Env} {F : Nat} {O : String → Option Tree} {e e1 e2 : Esc}
    (a : MStep env F O e e1) (b : MStep env F O e1 e2) : MStep env F O e e2 := by
  refine ⟨fun n h => b.ext n (a.ext n h), fun h th ht hm => (a.frozen h th ht hm).trans (b.frozen h th ht (a.ext h hm)),
    fun h th ht hm => ?_⟩
  rcases a.fresh h th ht hm with ⟨h1, s1⟩ | ⟨h1, s1⟩
  · rcases b.fresh h th ht h1 with ⟨h2, s2⟩ | ⟨h2, s2⟩
    · exact .inl ⟨h2, s1.trans s2⟩
    · exact .inr ⟨h2, s1.app s2⟩
  · exact .inr ⟨b.ext h h1, s1.same (b.frozen h th ht h1)⟩

theorem MPost.trans {env : Env} {F : Nat} {O : String → Option Tree} {e e1 e2 : Esc}
    (a : MPost env F O e e1) (b : MPost env F O e1 e2) : MPost env F O e e2 := ⟨b.1, a.2.trans b.2⟩

/-- a step that changes neither memo, nor derived trees, nor the edits keyed by tracked names -/
theorem mpost_same {env : Env} {F : Nat} {O : String → Option Tree} {e e' : Esc} (hi : MInv env F O e)
    (ho : e'.output = e.output) (hd : ∀ p ∈ e'.derived, ¬ NoDollar p.1)
    (hs : ∀ h th, Trk O h th → EdSame h e e') : MPost env F O e e' := by
  refine ⟨⟨?_, ?_, ?_⟩, ⟨?_, ?_, ?_⟩⟩
  · exact hd
  · intro h th ht hm; exact hi.lk h th ht (by unfold Memo at hm ⊢; rw [← ho]; exact hm)
  · rw [ho]; exact hi.mc
  · intro n hm; unfold Memo at hm ⊢; rw [ho]; exact hm
  · intro h th ht _; exact hs h th ht
  · intro h th ht hm
    exact .inl ⟨by unfold Memo at hm ⊢; rw [ho]; exact hm, hs h th ht⟩

/-- `tn` is not a tracked name -/
def Untr (O : String → Option Tree) (tn : String) : Prop := ∀ th, ¬ Trk O tn th

theorem trk_ne {O : String → Option Tree} {tn h : String} {th : Tree} (hu : Untr O tn) (ht : Trk O h th) : tn ≠ h := by
  intro he; subst he; exact hu th ht

theorem escapeAction_mpost {env' : Env} {F O} (env : Env) (tn : String) (e : Esc) (c : Ctx) (id : Nat) (p : Pipe)
    (r : Esc × Ctx) (hi : MInv env' F O e) (hu : Untr O tn) (h : escapeAction env tn e c id p = .ok r) :
    MPost env' F O e r.1 := by
  have hrefl : MPost env' F O e e := ⟨hi, MStep.refl ..⟩
  unfold escapeAction at h
  split at h
  · cases h; exact hrefl
  · simp only [] at h
    split at h
    · cases h
    · cases h; exact hrefl
    · split at h
      · cases h; exact hrefl
      · split at h
        · cases h; exact hrefl
        · obtain ⟨e1, h1, h2⟩ := bind_ok h
          cases h2
          unfold Esc.editAction at h1
          split at h1
          · cases h1
          · cases h1
            refine mpost_same hi rfl hi.dd (fun h th ht => ⟨?_, rfl, rfl⟩)
            show fk h (e.actionEdits ++ [((tn, id), _)]) = _
            rw [fk_append, fk_single_ne h tn id _ (trk_ne hu ht), List.append_nil]

theorem escapeTextNode_mpost {env' : Env} {F O} (env : Env) (tn : String) (e : Esc) (c : Ctx) (id : Nat) (b : Bytes)
    (r : Esc × Ctx) (hi : MInv env' F O e) (hu : Untr O tn) (h : escapeTextNode env tn e c id b = .ok r) :
    MPost env' F O e r.1 := by
  have hrefl : MPost env' F O e e := ⟨hi, MStep.refl ..⟩
  unfold escapeTextNode at h
  split at h
  · cases h
  · cases h; exact hrefl
  · obtain ⟨e1, h1, h2⟩ := bind_ok h
    cases h2
    unfold Esc.editText at h1
    split at h1
    · cases h1
    · cases h1
      refine mpost_same hi rfl hi.dd (fun h th ht => ⟨rfl, rfl, ?_⟩)
      show fk h (e.textEdits ++ [((tn, id), _)]) = _
      rw [fk_append, fk_single_ne h tn id _ (trk_ne hu ht), List.append_nil]

theorem editTmpl_mpost {env' : Env} {F O} (tn : String) (e e1 : Esc) (id : Nat) (v : String)
    (hi : MInv env' F O e) (hu : Untr O tn) (h : e.editTmpl (tn, id) v = .ok e1) : MPost env' F O e e1 := by
  unfold Esc.editTmpl at h
  split at h
  · cases h
  · cases h
    refine mpost_same hi rfl hi.dd (fun h th ht => ⟨rfl, ?_, rfl⟩)
    show fk h (e.tmplEdits ++ [((tn, id), _)]) = _
    rw [fk_append, fk_single_ne h tn id _ (trk_ne hu ht), List.append_nil]

/-! ### memo membership under `aset` and the merge fold -/

theorem memo_aset_ne {β} (l : List (String × β)) (k : String) (v : β) (n : String) (h : n ≠ k) :
    (alookup (aset l k v) n).isSome = (alookup l n).isSome := by
  rw [alookup_aset, if_neg h]

theorem memo_aset_self {β} (l : List (String × β)) (k : String) (v : β) : (alookup (aset l k v) k).isSome = true := by
  rw [alookup_aset, if_pos rfl]; rfl

theorem isSome_mfold_of_mem {β} (l : List (String × β)) (n : String) : ∀ (base : List (String × β)),
    (alookup l n).isSome = true → (alookup (mfold base l) n).isSome = true := by
  induction l with
  | nil => intro base h; cases h
  | cons q t ih =>
    intro base h
    show (alookup (mfold (aset base q.1 q.2) t) n).isSome = true
    rw [alookup_cons] at h
    split at h
    · rename_i hq
      have hq' : q.1 = n := by simpa using hq
      apply isSome_foldl_aset
      rw [← hq']; exact memo_aset_self ..
    · exact ih _ h

theorem isSome_mfold_inv {β} (base l : List (String × β)) (n : String)
    (h : (alookup (mfold base l) n).isSome = true) : (alookup base n).isSome = true ∨ (alookup l n).isSome = true := by
  cases hv : alookup (mfold base l) n with
  | none => rw [hv] at h; cases h
  | some v =>
    rcases mem_foldl_aset l base (n, v) (mem_of_alookup _ _ _ hv) with h1 | h1
    · exact .inl (alookup_isSome_of_mem base (n, v) h1)
    · exact .inr (alookup_isSome_of_mem l (n, v) h1)

theorem not_memo_none {e : Esc} {n : String} (h : ¬ Memo e n) : alookup e.output n = none := by
  unfold Memo at h
  cases hv : alookup e.output n with
  | none => rfl
  | some v => rw [hv] at h; exact absurd rfl h

/-- the scratch escaper -/
theorem minv_scratch {env : Env} {F O} (e : Esc) (hi : MInv env F O e) :
    MInv env F O { output := e.output, pristine := e.pristine, memoPrefix := e.memoPrefix } :=
  ⟨fun _ h => (nomatch h), hi.lk, hi.mc⟩

theorem minv_setOutput {env : Env} {F O} (e : Esc) (k : String) (v : Ctx) (hi : MInv env F O e) (hu : Untr O k) :
    MInv env F O { e with output := aset e.output k v } := by
  refine ⟨hi.dd, ?_, ?_⟩
  · intro h th ht hm
    exact hi.lk h th ht (fun hm' => hm (isSome_aset _ _ _ _ hm'))
  · intro h th ht p hp hph
    rcases mem_aset _ _ _ p hp with h1 | h1
    · exact hi.mc h th ht p h1 hph
    · subst h1; simp only [] at hph; subst hph; exact absurd ht (hu th)

theorem mstep_setOutput {env : Env} {F O} (e : Esc) (k : String) (v : Ctx) (hu : Untr O k) :
    MStep env F O e { e with output := aset e.output k v } := by
  refine ⟨fun n hm => isSome_aset _ _ _ _ hm, fun h _ _ _ => EdSame.refl h e, fun h th ht hm => .inl ⟨?_, EdSame.refl h e⟩⟩
  intro hm'
  apply hm
  unfold Memo at hm' ⊢
  rw [memo_aset_ne _ _ _ _ (fun he => trk_ne hu ht he.symm)] at hm'
  exact hm'

theorem ciall_setOutput (e : Esc) (k : String) (v : Ctx) (hc : CIall e) (hv : CtxInv v) :
    CIall { e with output := aset e.output k v } := by
  intro p hp
  rcases mem_aset _ _ _ p hp with h1 | h1
  · exact hc p h1
  · subst h1; exact hv

/-- the merge at the end of a successful body run -/
theorem merge_mpost {env : Env} {F O} (e s1 em : Esc) (tname : String) (c : Ctx) (hi : MInv env F O e)
    (hu : Untr O tname)
    (hp : MPost env F O { output := aset e.output tname c, pristine := e.pristine, memoPrefix := e.memoPrefix } s1)
    (ho : em.output = mfold (aset e.output tname c) s1.output) (hd : em.derived = mfold e.derived s1.derived)
    (ha : em.actionEdits = e.actionEdits ++ s1.actionEdits) (ht : em.tmplEdits = e.tmplEdits ++ s1.tmplEdits)
    (hx : em.textEdits = e.textEdits ++ s1.textEdits) : MPost env F O e em := by
  obtain ⟨hi1, hs1⟩ := hp
  refine ⟨⟨?_, ?_, ?_⟩, ⟨?_, ?_, ?_⟩⟩
  · intro p hpm
    rw [hd] at hpm
    rcases mem_foldl_aset _ _ p hpm with h1 | h1
    · exact hi.dd p h1
    · exact hi1.dd p h1
  · intro h th htk hm
    apply hi.lk h th htk
    intro hm'
    apply hm
    unfold Memo; rw [ho]
    exact isSome_foldl_aset _ _ _ (isSome_aset _ _ _ _ hm')
  · intro h th htk p hpm hph
    rw [ho] at hpm
    rcases mem_foldl_aset _ _ p hpm with h1 | h1
    · exact (minv_setOutput e tname c hi hu).mc h th htk p h1 hph
    · exact hi1.mc h th htk p h1 hph
  · intro n hm
    unfold Memo; rw [ho]
    exact isSome_foldl_aset _ _ _ (isSome_aset _ _ _ _ hm)
  · intro h th htk hm
    have hf := hs1.frozen h th htk (isSome_aset _ _ _ _ hm)
    obtain ⟨f1, f2, f3⟩ := hf
    simp only [fk_nil] at f1 f2 f3
    refine ⟨?_, ?_, ?_⟩
    · rw [ha, fk_append, f1, List.append_nil]
    · rw [ht, fk_append, f2, List.append_nil]
    · rw [hx, fk_append, f3, List.append_nil]
  · intro h th htk hm
    have hne : h ≠ tname := fun he => trk_ne hu htk he.symm
    have hm0 : ¬ Memo ({ output := aset e.output tname c, pristine := e.pristine, memoPrefix := e.memoPrefix } : Esc) h := by
      intro hm'
      apply hm
      unfold Memo at hm' ⊢
      rw [memo_aset_ne _ _ _ _ hne] at hm'
      exact hm'
    rcases hs1.fresh h th htk hm0 with ⟨n1, ⟨f1, f2, f3⟩⟩ | ⟨n1, ⟨f1, f2, f3⟩⟩
    · left
      simp only [fk_nil] at f1 f2 f3
      refine ⟨?_, ?_, ?_, ?_⟩
      · intro hmm
        unfold Memo at hmm
        rw [ho] at hmm
        rcases isSome_mfold_inv _ _ _ hmm with h1 | h1
        · exact hm0 h1
        · exact n1 h1
      · rw [ha, fk_append, f1, List.append_nil]
      · rw [ht, fk_append, f2, List.append_nil]
      · rw [hx, fk_append, f3, List.append_nil]
    · right
      simp only [fk_nil, List.nil_append] at f1 f2 f3
      refine ⟨?_, ?_, ?_, ?_⟩
      · unfold Memo; rw [ho]
        exact isSome_mfold_of_mem _ _ _ n1
      · rw [ha, fk_append, f1]
      · rw [ht, fk_append, f2]
      · rw [hx, fk_append, f3]


/-! ### the memo after the analysis of a call-free body -/

theorem body_cf_out (env env' : Env) (he : EnvEq env env') (f : Nat) (e : Esc) (c : Ctx) (tname : String) (t : Tree)
    (hnc : listNoCalls t.root) (r : Esc × Ctx × Bool)
    (hr : escapeTemplateBody env' (f + 1) e c tname (some t) = .ok r) :
    (∀ p ∈ r.1.output, p ∈ aset e.output tname c) ∧ (∀ n, Memo e n → Memo r.1 n) ∧ r.1.called = e.called := by
  simp only [escapeTemplateBody] at hr
  obtain ⟨⟨e1, c1⟩, h1, h2⟩ := bind_ok hr
  have hsim := list_sim env env' he t.root hnc f tname {} (scr e (aset e.output tname c)) c ⟨rfl, rfl, rfl⟩
  cases hS : escapeList env f tname {} c t.root with
  | panic m => rw [hS] at hsim; rw [hsim] at h1; cases h1
  | fuel => rw [hS] at hsim; rw [hsim] at h1; cases h1
  | ok rs =>
    obtain ⟨s, cs⟩ := rs
    rw [hS] at hsim
    obtain ⟨_, hx⟩ := hsim
    rw [hx] at h1
    simp only [Out.ok.injEq, Prod.mk.injEq] at h1
    obtain ⟨rfl, rfl⟩ := h1
    simp only [] at h2
    split at h2
    · obtain ⟨ae, ha, h3⟩ := bind_ok h2
      obtain ⟨te, ht, h4⟩ := bind_ok h3
      obtain ⟨xe, hx', h5⟩ := bind_ok h4
      cases h5
      refine ⟨fun p hp => ?_, fun n hm => ?_, rfl⟩
      · rcases mem_foldl_aset _ _ p hp with h6 | h6
        · exact h6
        · exact h6
      · exact isSome_foldl_aset _ _ _ (isSome_aset _ _ _ _ hm)
    · cases h2
      exact ⟨fun p hp => hp, fun n hm => isSome_aset _ _ _ _ hm, rfl⟩

/-- entries of `aset (X) k v'` where every entry of `X` is in `aset l k v` -/
theorem mem_aset_chain {β} (l X : List (String × β)) (k : String) (v v' : β)
    (hX : ∀ p ∈ X, p ∈ aset l k v) (p : String × β) (h : p ∈ aset X k v') : p ∈ l ∨ p = (k, v') := by
  rcases mem_aset_strong X k v' p h with ⟨h1, h2⟩ | h1
  · rcases mem_aset l k v p (hX p h1) with h3 | h3
    · exact .inl h3
    · rw [h3] at h2; exact absurd rfl h2
  · exact .inr h1

theorem out_cf_out (env env' : Env) (he : EnvEq env env') (f : Nat) (e : Esc) (c : Ctx) (tname : String) (t : Tree)
    (hnc : listNoCalls t.root) (r : Esc × Ctx)
    (hr : computeOutCtx env' (f + 2) e c tname (some t) = .ok r) :
    (∀ p ∈ r.1.output, p ∈ e.output ∨ p = (tname, r.2)) ∧ (∀ n, Memo e n → Memo r.1 n) ∧ r.1.called = e.called := by
  simp only [computeOutCtx] at hr
  obtain ⟨⟨e1, c1, ok1⟩, h1, h2⟩ := bind_ok hr
  obtain ⟨a1, b1, d1⟩ := body_cf_out env env' he f e c tname t hnc _ h1
  simp only [] at a1 b1 d1 h2
  split at h2
  · cases h2
    exact ⟨mem_aset_chain e.output e1.output tname c c1 a1, fun n hm => isSome_aset _ _ _ _ (b1 n hm), d1⟩
  · obtain ⟨⟨e2, c2, ok2⟩, h3, h4⟩ := bind_ok h2
    obtain ⟨a2, b2, d2⟩ := body_cf_out env env' he f e1 c1 tname t hnc _ h3
    simp only [] at a2 b2 d2 h4
    have hfin : ∀ v', (∀ p ∈ aset e2.output tname v', p ∈ e.output ∨ p = (tname, v')) := by
      intro v' p hp
      rcases mem_aset_chain e1.output e2.output tname c1 v' a2 p hp with h5 | h5
      · rcases mem_aset_strong e2.output tname v' p hp with ⟨h6, h7⟩ | h6
        · rcases mem_aset e.output tname c p (a1 p h5) with h8 | h8
          · exact .inl h8
          · rw [h8] at h7; exact absurd rfl h7
        · exact .inr h6
      · exact .inr h5
    split at h4
    · cases h4
      exact ⟨hfin _, fun n hm => isSome_aset _ _ _ _ (b2 n (b1 n hm)), d2.trans d1⟩
    · split at h4
      · cases h4
        exact ⟨hfin _, fun n hm => isSome_aset _ _ _ _ (b2 n (b1 n hm)), d2.trans d1⟩
      · cases h4
        exact ⟨hfin _, fun n hm => isSome_aset _ _ _ _ (b2 n (b1 n hm)), d2.trans d1⟩

/-! ### the six specifications -/

def MNodeS (env : Env) (F : Nat) (O : String → Option Tree) (f : Nat) : Prop :=
  f ≤ F → ∀ tn e c n r, MInv env F O e → CIall e → CtxInv c → Untr O tn → escapeNode env f tn e c n = .ok r →
    MPost env F O e r.1
def MListS (env : Env) (F : Nat) (O : String → Option Tree) (f : Nat) : Prop :=
  f ≤ F → ∀ tn e c l r, MInv env F O e → CIall e → CtxInv c → Untr O tn → escapeList env f tn e c l = .ok r →
    MPost env F O e r.1
def MBranchS (env : Env) (F : Nat) (O : String → Option Tree) (f : Nat) : Prop :=
  f ≤ F → ∀ tn e c t el b r, MInv env F O e → CIall e → CtxInv c → Untr O tn →
    escapeBranch env f tn e c t el b = .ok r → MPost env F O e r.1
def MTreeS (env : Env) (F : Nat) (O : String → Option Tree) (f : Nat) : Prop :=
  f ≤ F → ∀ e c name r, MInv env F O e → CIall e → CtxInv c → escapeTree env f e c name = .ok r → MPost env F O e r.1
def MOutS (env : Env) (F : Nat) (O : String → Option Tree) (f : Nat) : Prop :=
  f ≤ F → ∀ e c tname t r, MInv env F O e → CIall e → CtxInv c → ¬ Memo e tname →
    (∀ th, Trk O tname th → c = {} ∧ t = some th) → computeOutCtx env f e c tname t = .ok r → MPost env F O e r.1
def MBodyS (env : Env) (F : Nat) (O : String → Option Tree) (f : Nat) : Prop :=
  f ≤ F → ∀ e c tname t r, MInv env F O e → CIall e → CtxInv c → Untr O tname →
    escapeTemplateBody env f e c tname t = .ok r → MPost env F O e r.1

theorem mNodeS_succ {env F O f} (hb : MBranchS env F O f) (ht : MTreeS env F O f) : MNodeS env F O (f + 1) := by
  intro hf tn e c n r hi hci hc hu h
  have hf' : f ≤ F := Nat.le_of_succ_le hf
  cases n with
  | action id p => simp only [escapeNode] at h; exact escapeAction_mpost env tn e c id p r hi hu h
  | text id b => simp only [escapeNode] at h; exact escapeTextNode_mpost env tn e c id b r hi hu h
  | ifN id p t el => simp only [escapeNode] at h; exact hb hf' _ _ _ _ _ _ _ hi hci hc hu h
  | withN id p t el => simp only [escapeNode] at h; exact hb hf' _ _ _ _ _ _ _ hi hci hc hu h
  | rangeN id p t el => simp only [escapeNode] at h; exact hb hf' _ _ _ _ _ _ _ hi hci hc hu h
  | tmpl id name p =>
    simp only [escapeNode] at h
    obtain ⟨⟨e1, c1, dname⟩, h1, h2⟩ := bind_ok h
    have s1 := ht hf' _ _ _ _ hi hci hc h1
    simp only [] at h2 s1
    split at h2
    · obtain ⟨e2, h3, h4⟩ := bind_ok h2
      cases h4
      exact s1.trans (editTmpl_mpost tn e1 e2 id dname s1.1 hu h3)
    · cases h2; exact s1
  | brk id => simp only [escapeNode] at h; cases h; exact ⟨hi, MStep.refl ..⟩
  | cont id => simp only [escapeNode] at h; cases h; exact ⟨hi, MStep.refl ..⟩
  | comment id => simp only [escapeNode] at h; cases h; exact ⟨hi, MStep.refl ..⟩

theorem mListS_succ {env F O f} (hn : MNodeS env F O f) (hl : MListS env F O f) : MListS env F O (f + 1) := by
  intro hf tn e c l r hi hci hc hu h
  have hf' : f ≤ F := Nat.le_of_succ_le hf
  cases l with
  | nil => simp only [escapeList] at h; cases h; exact ⟨hi, MStep.refl ..⟩
  | cons n ns =>
    simp only [escapeList] at h
    obtain ⟨⟨e1, c1⟩, h1, h2⟩ := bind_ok h
    have s1 := hn hf' _ _ _ _ _ hi hci hc hu h1
    obtain ⟨k1, k2⟩ := (ci_analysis env f).1 _ _ _ _ _ hci hc h1
    exact s1.trans (hl hf' _ _ _ _ _ s1.1 k1 k2 hu h2)

theorem mBranchS_succ {env F O f} (hl : MListS env F O f) : MBranchS env F O (f + 1) := by
  intro hf tn e c t el b r hi hci hc hu h
  have hf' : f ≤ F := Nat.le_of_succ_le hf
  simp only [escapeBranch] at h
  obtain ⟨⟨e1, c0⟩, h1, h2⟩ := bind_ok h
  have s1 := hl hf' _ _ _ _ _ hi hci hc hu h1
  obtain ⟨k1, _⟩ := (ci_analysis env f).2.1 _ _ _ _ _ hci hc h1
  simp only [] at h2 s1 k1
  obtain ⟨j, _, h4⟩ := bind_ok h2
  split at h4
  · split at h4
    · cases h4; exact s1
    · obtain ⟨⟨e2, c2⟩, h5, h6⟩ := bind_ok h4
      cases h6
      exact s1.trans (hl hf' _ _ _ _ (e2, c2) s1.1 k1 hc hu h5)
  · obtain ⟨⟨e2, c2⟩, h5, h6⟩ := bind_ok h4
    cases h6
    exact s1.trans (hl hf' _ _ _ _ (e2, c2) s1.1 k1 hc hu h5)

theorem mBodyS_succ {env F O f} (hl : MListS env F O f) : MBodyS env F O (f + 1) := by
  intro hf e c tname t r hi hci hc hu h
  have hf' : f ≤ F := Nat.le_of_succ_le hf
  simp only [escapeTemplateBody] at h
  have hi0 := minv_setOutput e tname c hi hu
  have hci0 := ciall_setOutput e tname c hci hc
  split at h
  · cases h
  · rename_i tr
    obtain ⟨⟨e1, c1⟩, h1, h2⟩ := bind_ok h
    have s1 := hl hf' _ _ _ _ _ (minv_scratch _ hi0) (fun p hp => hci0 p hp) hc hu h1
    simp only [] at h2 s1
    split at h2
    · obtain ⟨ae, ha, h3⟩ := bind_ok h2
      obtain ⟨te, ht, h4⟩ := bind_ok h3
      obtain ⟨xe, hx, h5⟩ := bind_ok h4
      cases h5
      exact merge_mpost e e1 _ tname c hi hu s1 rfl rfl (mergeEdits_ok_eq _ _ _ ha) (mergeEdits_ok_eq _ _ _ ht)
        (mergeEdits_ok_eq _ _ _ hx)
    · cases h2
      have hst : MStep env F O e { e with output := aset e.output tname c } := mstep_setOutput e tname c hu
      exact ⟨⟨hi0.dd, hi0.lk, hi0.mc⟩, ⟨hst.ext, hst.frozen, hst.fresh⟩⟩

theorem edsame_ext {h tn : String} {e ss r : Esc} (hext : EdExt e ss r)
    (hk : (∀ q ∈ ss.actionEdits, q.1.1 = tn) ∧ ss.tmplEdits = [] ∧ (∀ q ∈ ss.textEdits, q.1.1 = tn)) (hne : h ≠ tn) :
    EdSame h e r := by
  obtain ⟨a, b, d⟩ := hext
  refine ⟨?_, ?_, ?_⟩
  · rw [a, fk_append, fk_none h ss.actionEdits (fun q hq he => hne (he.symm.trans (hk.1 q hq))), List.append_nil]
  · rw [b, hk.2.1, List.append_nil]
  · rw [d, fk_append, fk_none h ss.textEdits (fun q hq he => hne (he.symm.trans (hk.2.2 q hq))), List.append_nil]

theorem edapp_ext {tn : String} {e ss r : Esc} (hext : EdExt e ss r)
    (hk : (∀ q ∈ ss.actionEdits, q.1.1 = tn) ∧ ss.tmplEdits = [] ∧ (∀ q ∈ ss.textEdits, q.1.1 = tn)) :
    EdApp tn e ss r := by
  obtain ⟨a, b, d⟩ := hext
  refine ⟨?_, ?_, ?_⟩
  · rw [a, fk_append, fk_all tn ss.actionEdits hk.1]
  · rw [b, hk.2.1, List.append_nil, List.append_nil]
  · rw [d, fk_append, fk_all tn ss.textEdits hk.2.2]

theorem mOutS_succ {env F O f} (hbd : MBodyS env F O f) : MOutS env F O (f + 1) := by
  intro hf e c tname t r hi hci hc hnm htk h
  have hf' : f ≤ F := Nat.le_of_succ_le hf
  by_cases hT : ∃ th, Trk O tname th
  · obtain ⟨th, ht⟩ := hT
    obtain ⟨rfl, rfl⟩ := htk th ht
    cases f with
    | zero => simp only [computeOutCtx, escapeTemplateBody] at h; cases h
    | succ g =>
      have he : EnvEq (cenv env.csp env.v) env := ⟨rfl, rfl⟩
      obtain ⟨ss, hcf, hext, hder⟩ := out_cf (cenv env.csp env.v) env he g e {} tname th ht.2.2 r h
      obtain ⟨hout, hmem, _⟩ := out_cf_out (cenv env.csp env.v) env he g e {} tname th ht.2.2 r h
      have hF := cfOut_mono (cenv env.csp env.v) g F (by omega) tname {} th.root ht.2.2 (r.2, ss) hcf
      have hkeys := cfOut_edit_keys _ g tname {} th.root ht.2.2 r.2 ss hcf
      have hced : cEd env F tname th = ss := by unfold cEd; rw [hF]
      have hmemo := computeOutCtx_memo env _ e {} tname (some th) r h
      have hback : ∀ n, n ≠ tname → Memo r.1 n → Memo e n := by
        intro n hne hm
        unfold Memo at hm
        cases hv : alookup r.1.output n with
        | none => rw [hv] at hm; cases hm
        | some v =>
          rcases hout _ (mem_of_alookup _ _ _ hv) with h1 | h1
          · exact alookup_isSome_of_mem _ _ h1
          · exact absurd (congrArg Prod.fst h1) hne
      refine ⟨⟨?_, ?_, ?_⟩, ⟨hmem, ?_, ?_⟩⟩
      · rw [hder]; exact hi.dd
      · intro h' th' ht' hm'
        exact hi.lk h' th' ht' (fun hm => hm' (hmem _ hm))
      · intro h' th' ht' p hp hph
        rcases hout p hp with h1 | h1
        · exact hi.mc h' th' ht' p h1 hph
        · subst h1
          simp only [] at hph
          subst hph
          have : th' = th := by
            have := ht'.2.1.symm.trans ht.2.1
            cases this; rfl
          subst this
          exact ⟨ss, hF⟩
      · intro h' th' ht' hm'
        have hne : h' ≠ tname := fun he => hnm (he ▸ hm')
        exact edsame_ext hext hkeys hne
      · intro h' th' ht' hm'
        by_cases hne : h' = tname
        · subst hne
          have : th' = th := by
            have := ht'.2.1.symm.trans ht.2.1
            cases this; rfl
          subst this
          right
          rw [hced]
          exact ⟨hmemo, edapp_ext hext hkeys⟩
        · exact .inl ⟨fun hm => hm' (hback _ hne hm), edsame_ext hext hkeys hne⟩
  · have hu : Untr O tname := fun th ht => hT ⟨th, ht⟩
    simp only [computeOutCtx] at h
    obtain ⟨⟨e1, c1, ok⟩, h1, h2⟩ := bind_ok h
    have s1 := hbd hf' _ _ _ _ _ hi hci hc hu h1
    obtain ⟨k1, k2⟩ := (ci_analysis env f).2.2.2.2.2 _ _ _ _ _ hci hc h1
    simp only [] at h2 s1 k1 k2
    split at h2
    · cases h2
      exact s1.trans ⟨minv_setOutput e1 tname c1 s1.1 hu, mstep_setOutput e1 tname c1 hu⟩
    · obtain ⟨⟨e2, c2, ok2⟩, h3, h4⟩ := bind_ok h2
      have s2 := hbd hf' _ _ _ _ _ s1.1 k1 k2 hu h3
      simp only [] at h4 s2
      have s12 := s1.trans s2
      split at h4
      · cases h4; exact s12.trans ⟨minv_setOutput e2 tname c2 s12.1 hu, mstep_setOutput e2 tname c2 hu⟩
      · split at h4
        · cases h4; exact s12.trans ⟨minv_setOutput e2 tname _ s12.1 hu, mstep_setOutput e2 tname _ hu⟩
        · cases h4; exact s12.trans ⟨minv_setOutput e2 tname c1 s12.1 hu, mstep_setOutput e2 tname c1 hu⟩

theorem mTreeS_succ {env F O f} (ho : MOutS env F O f) : MTreeS env F O (f + 1) := by
  intro hf e c name r hi hci hc h
  have hf' : f ≤ F := Nat.le_of_succ_le hf
  simp only [escapeTree] at h
  split at h
  · cases h; exact ⟨hi, MStep.refl ..⟩
  · split at h
    · cases h
      exact mpost_same hi rfl hi.dd (fun h _ _ => EdSame.refl h e)
    · rename_i hnone
      have hnm : ∀ (x : List String) (y : List (String × Bytes × Bool)),
          ¬ Memo ({ e with called := x, memoPrefix := y } : Esc) (mangle c name) := by
        intro x y hm
        unfold Memo at hm
        rw [show ({ e with called := x, memoPrefix := y } : Esc).output = e.output from rfl, hnone] at hm
        cases hm
      have hI : ∀ (x : List String) (y : List (String × Bytes × Bool)) (d : List (String × Tree)),
          (∀ p ∈ d, ¬ NoDollar p.1) → MInv env F O ({ e with called := x, memoPrefix := y, derived := d } : Esc) :=
        fun _ _ _ hd => ⟨hd, hi.lk, hi.mc⟩
      have hC : ∀ (x : List String) (y : List (String × Bytes × Bool)) (d : List (String × Tree)),
          CIall ({ e with called := x, memoPrefix := y, derived := d } : Esc) := fun _ _ _ p hp => hci p hp
      have hnm' : ∀ (x : List String) (y : List (String × Bytes × Bool)) (d : List (String × Tree)),
          ¬ Memo ({ e with called := x, memoPrefix := y, derived := d } : Esc) (mangle c name) := fun x y _ => hnm x y
      split at h
      · cases h
        exact mpost_same hi rfl hi.dd (fun h _ _ => EdSame.refl h e)
      · cases h
        exact mpost_same hi rfl hi.dd (fun h _ _ => EdSame.refl h e)
      · rename_i tr htmpl
        split at h
        · rename_i hdn
          have hdn' : mangle c name ≠ name := by simpa using hdn
          have hnd := mangle_ne_dollar c name hdn'
          split at h
          · obtain ⟨⟨e1, c1⟩, h1, h2⟩ := bind_ok h
            cases h2
            have s := ho hf' _ _ _ _ (e1, c1) (hI _ _ _ hi.dd) (hC _ _ _) hc (hnm' _ _ _)
              (fun th ht => absurd ht.1 hnd) h1
            exact ⟨s.1, ⟨s.2.ext, s.2.frozen, s.2.fresh⟩⟩
          · obtain ⟨⟨e1, c1⟩, h1, h2⟩ := bind_ok h
            cases h2
            have hdd : ∀ p ∈ aset e.derived (mangle c name)
                ({ name := mangle c name, root := ((alookup e.pristine name).getD tr).root } : Tree), ¬ NoDollar p.1 := by
              intro p hp
              rcases mem_aset _ _ _ p hp with h3 | h3
              · exact hi.dd p h3
              · rw [h3]; exact hnd
            have s := ho hf' _ _ _ _ (e1, c1) (hI _ _ _ hdd) (hC _ _ _) hc (hnm' _ _ _)
              (fun th ht => absurd ht.1 hnd) h1
            exact ⟨s.1, ⟨s.2.ext, s.2.frozen, s.2.fresh⟩⟩
        · rename_i hdn
          have hdn' : mangle c name = name := by simpa using hdn
          obtain ⟨⟨e1, c1⟩, h1, h2⟩ := bind_ok h
          cases h2
          have s := ho hf' _ _ _ _ (e1, c1) (hI _ _ _ hi.dd) (hC _ _ _) hc (hnm' _ _ _) ?_ h1
          · exact ⟨s.1, ⟨s.2.ext, s.2.frozen, s.2.fresh⟩⟩
          · intro th ht
            obtain ⟨_, hc0⟩ := mangle_nodollar c name ht.1 hc
            refine ⟨hc0, ?_⟩
            have hlk := hi.lk _ th ht (by unfold Memo; rw [hnone]; exact fun hh => nomatch hh)
            rw [hdn'] at hlk
            unfold Esc.template at htmpl
            rw [hlk] at htmpl
            simp only [Option.some.injEq] at htmpl
            rw [htmpl]

/-- **the analysis invariant**: all six mutually recursive functions keep `MInv` and make an `MStep` -/
theorem analysis_m (env : Env) (F : Nat) (O : String → Option Tree) : ∀ f,
    MNodeS env F O f ∧ MListS env F O f ∧ MBranchS env F O f ∧ MTreeS env F O f ∧ MOutS env F O f ∧ MBodyS env F O f := by
  intro f
  induction f with
  | zero =>
    refine ⟨?_, ?_, ?_, ?_, ?_, ?_⟩
    · intro _ tn e c n r _ _ _ _ h; simp only [escapeNode] at h; cases h
    · intro _ tn e c l r _ _ _ _ h; simp only [escapeList] at h; cases h
    · intro _ tn e c t el b r _ _ _ _ h; simp only [escapeBranch] at h; cases h
    · intro _ e c name r _ _ _ h; simp only [escapeTree] at h; cases h
    · intro _ e c tname t r _ _ _ _ _ h; simp only [computeOutCtx] at h; cases h
    · intro _ e c tname t r _ _ _ _ h; simp only [escapeTemplateBody] at h; cases h
  | succ f ih =>
    obtain ⟨hn, hl, hb, ht, ho, hbd⟩ := ih
    exact ⟨mNodeS_succ hb ht, mListS_succ hn hl, mBranchS_succ hl, mTreeS_succ ho, mOutS_succ hbd, mBodyS_succ hl⟩

/-! ## 5. the invariant of a name space between two critical sections -/

/-- the pending edits keyed by `h` are exactly the edits of `ss` -/
def EdIs (h : String) (e ss : Esc) : Prop :=
  fk h e.actionEdits = ss.actionEdits ∧ fk h e.tmplEdits = ss.tmplEdits ∧ fk h e.textEdits = ss.textEdits

/-- the state of the installed tree of a tracked, memoized template: either the original tree with the canonical edits
    still pending (after a failed analysis), or the canonical committed tree with nothing pending -/
def TState (env : Env) (F : Nat) (text : TextSet) (e : Esc) (h : String) (th : Tree) : Prop :=
  (text.lookup h = some (some th) ∧ EdIs h e (cEd env F h th)) ∨
  (∃ T, cfTree h (cEd env F h th) th = some T ∧ text.lookup h = some (some T) ∧ EdIs h e {})

@[reducible] def nsEnv (v : Validators) (n : NS) : Env :=
  { text := n.text, nsHas := fun m => (alookup n.set m).isSome, csp := n.csp, v := v }

/-- **memo correctness in the text context**: every memo entry of a call-free template without `$` is the canonical
    output context, and its installed tree is (or will be after the next commit) the canonical committed tree -/
structure NSInv (v : Validators) (F : Nat) (n : NS) : Prop where
  ci : CIall n.esc
  mi : MInv (nsEnv v n) F (origT n.text n.esc) n.esc
  ts : ∀ h th, Trk (origT n.text n.esc) h th → Memo n.esc h → TState (nsEnv v n) F n.text n.esc h th
  pm : ∀ p ∈ n.esc.pristine, Memo n.esc p.1

theorem snap_keys (text : TextSet) (derived : List (String × Tree)) (l : List (String × Ctx)) :
    ∀ (acc : List (String × Tree)), ∀ q ∈ l.foldl (icc_snap text derived) acc, q ∈ acc ∨ ∃ p ∈ l, p.1 = q.1 := by
  induction l with
  | nil => intro acc q hq; exact .inl hq
  | cons p t ih =>
    intro acc q hq
    rw [List.foldl_cons] at hq
    rcases ih _ q hq with h1 | ⟨p', hp', he⟩
    · unfold icc_snap at h1
      split at h1
      · exact .inl h1
      · split at h1
        · rcases List.mem_append.mp h1 with h2 | h2
          · exact .inl h2
          · right; refine ⟨p, List.mem_cons_self .., ?_⟩
            simp only [List.mem_singleton] at h2; rw [h2]
        · exact .inl h1
        · split at h1
          · rcases List.mem_append.mp h1 with h2 | h2
            · exact .inl h2
            · right; refine ⟨p, List.mem_cons_self .., ?_⟩
              simp only [List.mem_singleton] at h2; rw [h2]
          · exact .inl h1
    · exact .inr ⟨p', List.mem_cons_of_mem _ hp', he⟩

theorem edis_of_same {h : String} {e e' ss : Esc} (hs : EdSame h e e') (hi : EdIs h e ss) : EdIs h e' ss :=
  ⟨hs.1.trans hi.1, hs.2.1.trans hi.2.1, hs.2.2.trans hi.2.2⟩

theorem fk_nil_of_km (e : Esc) (h : String) (hkm : KM e) (hm : ¬ Memo e h) :
    fk h e.actionEdits = [] ∧ fk h e.tmplEdits = [] ∧ fk h e.textEdits = [] := by
  refine ⟨fk_none h _ ?_, fk_none h _ ?_, fk_none h _ ?_⟩
  · intro q hq he
    exact hm (he ▸ hkm q.1 (.inl (List.mem_map.mpr ⟨q, hq, rfl⟩)))
  · intro q hq he
    exact hm (he ▸ hkm q.1 (.inr (.inl (List.mem_map.mpr ⟨q, hq, rfl⟩))))
  · intro q hq he
    exact hm (he ▸ hkm q.1 (.inr (.inr (List.mem_map.mpr ⟨q, hq, rfl⟩))))

theorem trk_congr {O O' : String → Option Tree} (hO : ∀ h, NoDollar h → O' h = O h) {h : String} {th : Tree}
    (ht : Trk O' h th) : Trk O h th := ⟨ht.1, (hO h ht.1) ▸ ht.2.1, ht.2.2⟩

theorem nsinv_fresh (v : Validators) (F : Nat) (n : NS) (ho : n.esc.output = []) (hd : n.esc.derived = [])
    (hp : n.esc.pristine = []) : NSInv v F n := by
  refine ⟨?_, ⟨?_, ?_, ?_⟩, ?_, ?_⟩
  · intro p hpm; rw [ho] at hpm; cases hpm
  · intro p hpm; rw [hd] at hpm; cases hpm
  · intro h th ht _
    have := ht.2.1
    unfold origT at this
    rw [hp] at this
    simp only [alookup_nil] at this
    split at this
    · cases this; assumption
    · cases this
  · intro h th _ p hpm; rw [ho] at hpm; cases hpm
  · intro h th _ hm; unfold Memo at hm; rw [ho] at hm; cases hm
  · intro p hpm; rw [hp] at hpm; cases hpm

theorem nsinv_congr (v : Validators) (F : Nat) (n n' : NS) (ht : n'.text = n.text) (he : n'.esc = n.esc)
    (hc : n'.csp = n.csp) (hi : NSInv v F n) : NSInv v F n' := by
  obtain ⟨a, b, c, d⟩ := hi
  refine ⟨by rw [he]; exact a, ?_, ?_, by rw [he]; exact d⟩
  · rw [ht, he]
    exact ⟨b.dd, fun h th x y => by show n'.text.lookup h = _; rw [ht]; exact b.lk h th x y,
      fun h th x p y z => by show ∃ ss, cfOut (cenv n'.csp v) F h {} th.root = _; rw [hc]; exact b.mc h th x p y z⟩
  · rw [ht, he]
    intro h th x y
    have hce : cEd (nsEnv v n') F h th = cEd (nsEnv v n) F h th := by
      unfold cEd
      show (match cfOut (cenv n'.csp v) F h {} th.root with | .ok (_, ss) => ss | _ => ({} : Esc)) = _
      rw [hc]
    have := c h th x y
    unfold TState at this ⊢
    rw [hce]
    exact this

/-- one analysis (and the commit after it) keeps the invariant of the name space -/
theorem nsinv_analysis (v : Validators) (F : Nat) (n : NS) (name : String) (e1 : Esc) (c1 : Ctx) (nm : String)
    (hinv : NSInv v F n) (hsi : SI n.text n.esc)
    (htree : escapeTree (nsEnv v n) F n.esc {} name = .ok (e1, c1, nm)) :
    (NSInv v F { n with esc := e1 } ∧ origT n.text e1 = origT n.text n.esc) ∧
    ∀ text2 e2, commit n.text e1 = .ok (text2, e2) → NSInv v F { n with esc := e2, text := text2 } ∧
      ∀ x, NoDollar x → origT text2 e2 x = origT n.text n.esc x := by
  have hpost := (analysis_m (nsEnv v n) F (origT n.text n.esc) F).2.2.2.1 (Nat.le_refl _) _ _ _ _ hinv.mi hinv.ci
    ctxInv_default htree
  have hci1 := ((ci_analysis (nsEnv v n) F).2.2.2.1 _ _ _ _ hinv.ci ctxInv_default htree).1
  have hpr : e1.pristine = n.esc.pristine := (analysis_pristine (nsEnv v n) F).2.2.2.1 _ _ _ _ htree
  have hkm0 : KM n.esc := hsi.2.2.1
  have hkm1 : KM e1 :=
    (((analysis_shared (nsEnv v n) hsi.1 F).2.2.2.1 _ {} name hsi.2.1 hsi.2.2.1 hsi.2.2.2).ok_of htree).2.2.1
  simp only [] at hpost hci1 hkm1
  have hO : origT n.text e1 = origT n.text n.esc := by
    funext h; unfold origT; rw [hpr]
  have hts1 : ∀ h th, Trk (origT n.text n.esc) h th → Memo e1 h →
      TState (nsEnv v n) F n.text e1 h th := by
    intro h th ht hm
    by_cases hm0 : Memo n.esc h
    · have hs := hpost.2.frozen h th ht hm0
      rcases hinv.ts h th ht hm0 with ⟨a, b⟩ | ⟨T, a, b, d⟩
      · exact .inl ⟨a, edis_of_same hs b⟩
      · exact .inr ⟨T, a, b, edis_of_same hs d⟩
    · rcases hpost.2.fresh h th ht hm0 with ⟨n1, _⟩ | ⟨_, happ⟩
      · exact absurd hm n1
      · left
        refine ⟨hinv.mi.lk h th ht hm0, ?_⟩
        obtain ⟨z1, z2, z3⟩ := fk_nil_of_km n.esc h hkm0 hm0
        obtain ⟨y1, y2, y3⟩ := happ
        rw [z1, List.nil_append] at y1
        rw [z2, List.nil_append] at y2
        rw [z3, List.nil_append] at y3
        exact ⟨y1, y2, y3⟩
  refine ⟨⟨⟨hci1, ?_, ?_, ?_⟩, hO⟩, ?_⟩
  · show MInv (nsEnv v n) F (origT n.text e1) e1
    rw [hO]; exact hpost.1
  · show ∀ h th, Trk (origT n.text e1) h th → Memo e1 h → TState (nsEnv v n) F n.text e1 h th
    rw [hO]; exact hts1
  · show ∀ p ∈ e1.pristine, Memo e1 p.1
    rw [hpr]; intro p hp; exact hpost.2.ext _ (hinv.pm p hp)
  · intro text2 e2 hcm
    obtain ⟨f1, f2, f3, f4, f5⟩ := commit_fields n.text e1 text2 e2 hcm
    have hdne : ∀ h, NoDollar h → ∀ p ∈ e1.derived, p.1 ≠ h := by
      intro h hnd p hp he
      exact hpost.1.dd p hp (he ▸ hnd)
    have hO2 : ∀ h, NoDollar h → origT text2 e2 h = origT n.text n.esc h := by
      intro h hnd
      rw [origT_commit n.text e1 text2 e2 h hcm (hdne h hnd) hkm1, hO]
    have hmemo : ∀ h, Memo e2 h ↔ Memo e1 h := by
      intro h; unfold Memo; rw [f1]
    refine ⟨⟨?_, ⟨?_, ?_, ?_⟩, ?_, ?_⟩, hO2⟩
    · show CIall e2
      intro p hp; rw [f1] at hp; exact hci1 p hp
    · intro p hp
      obtain ⟨q, hq, hqp⟩ := f5 p hp
      rw [← hqp]; exact hpost.1.dd q hq
    · intro h th ht hm
      have ht' := trk_congr hO2 ht
      have hm1 : ¬ Memo e1 h := fun x => hm ((hmemo h).mpr x)
      obtain ⟨z1, z2, z3⟩ := fk_nil_of_km e1 h hkm1 hm1
      show text2.lookup h = _
      rw [commit_fk_nil n.text e1 h text2 e2 hcm (hdne h ht.1) z1 z2 z3]
      exact hpost.1.lk h th ht' hm1
    · intro h th ht p hp hph
      rw [f1] at hp
      exact hpost.1.mc h th (trk_congr hO2 ht) p hp hph
    · intro h th ht hm
      have ht' := trk_congr hO2 ht
      have hnil : EdIs h e2 {} := by
        refine ⟨?_, ?_, ?_⟩
        · rw [f2]; rfl
        · rw [f3]; rfl
        · rw [f4]; rfl
      rcases hts1 h th ht' ((hmemo h).mp hm) with ⟨a, b⟩ | ⟨T, a, b, d⟩
      · obtain ⟨T, hT, hl2⟩ := commit_fk n.text (cEd (nsEnv v n) F h th) e1 h th text2 e2 hcm a (hdne h ht.1)
          b.1 b.2.1 b.2.2
        exact .inr ⟨T, hT, hl2, hnil⟩
      · refine .inr ⟨T, a, ?_, hnil⟩
        show text2.lookup h = _
        rw [commit_fk_nil n.text e1 h text2 e2 hcm (hdne h ht.1) d.1 d.2.1 d.2.2]
        exact b
    · show ∀ p ∈ e2.pristine, Memo e2 p.1
      rw [icc_commit_pristine n.text e1 text2 e2 hcm]
      intro q hq
      rw [hmemo]
      rcases snap_keys _ _ _ _ q hq with h1 | ⟨p, hp, he⟩
      · rw [hpr] at h1; exact hpost.2.ext _ (hinv.pm q h1)
      · rw [← he]; exact alookup_isSome_of_mem _ _ hp


theorem nsinv_top (w w' : World) (k : Nat) (name : String) (r : Option ErrCode)
    (hinv : NSInv w.v w.fuel (w.ns k)) (hai : AI (w.ns k)) (h : escapeTemplateTop w k name = .inr (w', r)) :
    NSInv w'.v w'.fuel (w'.ns k) := by
  obtain ⟨hv, hf⟩ := top_v_fuel w w' k name r h
  rw [hv, hf]
  unfold escapeTemplateTop at h
  simp only [] at h
  cases htree : escapeTree ⟨(w.ns k).text, fun m => (alookup (w.ns k).set m).isSome, (w.ns k).csp, w.v⟩ w.fuel
      (w.ns k).esc {} name with
  | panic m => rw [htree] at h; cases h
  | fuel => rw [htree] at h; cases h
  | ok r1 =>
    obtain ⟨e1, c1, nm⟩ := r1
    rw [htree] at h
    simp only [] at h
    obtain ⟨hfail, hok⟩ := nsinv_analysis w.v w.fuel (w.ns k) name e1 c1 nm hinv hai.2.2.2.1 htree
    cases hfe : finalError c1 with
    | some cd =>
      rw [hfe] at h
      simp only [Sum.inr.injEq, Prod.mk.injEq] at h
      obtain ⟨rfl, _⟩ := h
      rw [markFailed_ns]
      exact hfail.1
    | none =>
      rw [hfe] at h
      simp only [] at h
      cases hcm : commit (w.ns k).text e1 with
      | panic m => rw [hcm] at h; cases h
      | fuel => rw [hcm] at h; cases h
      | ok r2 =>
        obtain ⟨text2, e2⟩ := r2
        rw [hcm] at h
        simp only [Sum.inr.injEq, Prod.mk.injEq] at h
        obtain ⟨rfl, _⟩ := h
        rw [markOk_ns]
        exact (hok text2 e2 hcm).1

theorem nsinv_pred : NsPred NSInv :=
  ⟨fun v F n ho hd hp _ _ _ => nsinv_fresh v F n ho hd hp, nsinv_congr, nsinv_top⟩

/-- **memo correctness in the text context holds in every reachable world** -/
theorem nsinv_reachable (w : World) (hr : ReachableC w) (k : Nat) : NSInv w.v w.fuel (w.ns k) :=
  nspred_reachable NSInv nsinv_pred w hr k


/-- the original trees (of names without `$`) are not changed by an analysis and its commit -/
theorem origT_top (w w' : World) (k : Nat) (name : String) (r : Option ErrCode)
    (hinv : NSInv w.v w.fuel (w.ns k)) (hai : AI (w.ns k)) (h : escapeTemplateTop w k name = .inr (w', r))
    (x : String) (hx : NoDollar x) :
    origT (w'.ns k).text (w'.ns k).esc x = origT (w.ns k).text (w.ns k).esc x := by
  unfold escapeTemplateTop at h
  simp only [] at h
  cases htree : escapeTree ⟨(w.ns k).text, fun m => (alookup (w.ns k).set m).isSome, (w.ns k).csp, w.v⟩ w.fuel
      (w.ns k).esc {} name with
  | panic m => rw [htree] at h; cases h
  | fuel => rw [htree] at h; cases h
  | ok r1 =>
    obtain ⟨e1, c1, nm⟩ := r1
    rw [htree] at h
    simp only [] at h
    obtain ⟨hfail, hok⟩ := nsinv_analysis w.v w.fuel (w.ns k) name e1 c1 nm hinv hai.2.2.2.1 htree
    cases hfe : finalError c1 with
    | some cd =>
      rw [hfe] at h
      simp only [Sum.inr.injEq, Prod.mk.injEq] at h
      obtain ⟨rfl, _⟩ := h
      rw [markFailed_ns]
      exact congrFun hfail.2 x
    | none =>
      rw [hfe] at h
      simp only [] at h
      cases hcm : commit (w.ns k).text e1 with
      | panic m => rw [hcm] at h; cases h
      | fuel => rw [hcm] at h; cases h
      | ok r2 =>
        obtain ⟨text2, e2⟩ := r2
        rw [hcm] at h
        simp only [Sum.inr.injEq, Prod.mk.injEq] at h
        obtain ⟨rfl, _⟩ := h
        rw [markOk_ns]
        exact (hok text2 e2 hcm).2 x hx


end

/-! # part: ICRef -/
section
open SafeHtml SafeHtml.Model.Tmpl SafeHtml.Proofs.Frozen SafeHtml.Proofs.ConcApi SafeHtml.Proofs.ConcReach
  SafeHtml.Proofs.ApiFrames SafeHtml.Proofs.NoPanic SafeHtml.Proofs.NoPanic2 SafeHtml.Proofs.NoPanic3 SafeHtml.Proofs.NoPanic4
  SafeHtml.Proofs.Independence

/-! ## 6. the reference analysis of a template whose `{{template}}` calls are in the plain text context -/

/-- the reference outcome "a `{{template}}` call outside the plain text context, or to an unknown callee" -/
def msgExcl : String := "excluded: template call outside the text context"

/-- the canonical output context of a callee: the analysis of its original (call-free) tree from the empty escaper -/
def calOf (env : Env) (F : Nat) (D : String → Option Tree) (h : String) : Out Ctx :=
  match D h with
  | none => .panic msgExcl
  | some th =>
    match cfOut (cenv env.csp env.v) F h {} th.root with
    | .ok (c, _) => .ok c
    | .panic m => .panic m
    | .fuel => .fuel

mutual
/-- the reference analysis: `escapeNode` without memo; a `{{template "h"}}` node in the context `{}` continues in the
    canonical output context of `h`; in any other (non-error) context the outcome is `msgExcl` -/
def rNode (env : Env) (cal : String → Out Ctx) : Nat → String → Esc → Ctx → Node → Out (Esc × Ctx)
  | 0, _, _, _, _ => .fuel
  | f+1, tn, s, c, n =>
    match n with
    | .action id p => escapeAction env tn s c id p
    | .text id b => escapeTextNode env tn s c id b
    | .ifN _ _ t el => rBranch env cal f tn s c t el false
    | .withN _ _ t el => rBranch env cal f tn s c t el false
    | .rangeN _ _ t el => rBranch env cal f tn s c t el true
    | .tmpl _ h _ =>
      if c.state == .error then .ok (s, c)
      else if c = {} then do
        let ch ← cal h
        pure (s, ch)
      else .panic msgExcl
    | .brk _ => .ok (s, Ctx.errorCtx .escapeAction)
    | .cont _ => .ok (s, Ctx.errorCtx .escapeAction)
    | .comment _ => .ok (s, Ctx.errorCtx .escapeAction)
def rList (env : Env) (cal : String → Out Ctx) : Nat → String → Esc → Ctx → NodeList → Out (Esc × Ctx)
  | 0, _, _, _, _ => .fuel
  | f+1, tn, s, c, l =>
    match l with
    | .nil => .ok (s, c)
    | .cons n ns => do
      let (s, c) ← rNode env cal f tn s c n
      rList env cal f tn s c ns
def rBranch (env : Env) (cal : String → Out Ctx) : Nat → String → Esc → Ctx → NodeList → NodeList → Bool → Out (Esc × Ctx)
  | 0, _, _, _, _, _, _ => .fuel
  | f+1, tn, s, c, t, el, isRange => do
    let (s, c0) ← rList env cal f tn s c t
    let c0r : Out (Option Ctx) :=
      if isRange && c0.state != .error then do
        let (_, c1) ← rList env cal f tn {} c0 t
        let j := join c0 c1
        pure (some j)
      else pure none
    match ← c0r with
    | some j =>
      if j.state == .error then pure (s, j)
      else do
        let (s, c1) ← rList env cal f tn s c el
        pure (s, join j c1)
    | none => do
      let (s, c1) ← rList env cal f tn s c el
      pure (s, join c0 c1)
end

/-- generic simulation of a real run `x` by a reference run `y` -/
def SimG {α β} (R : α → β → Prop) (x : Out α) (y : Out β) : Prop :=
  y = .panic msgExcl ∨
  match x with
  | .ok a => ∃ b, y = .ok b ∧ R a b
  | .panic m => y = .panic m ∨ m = msgShared
  | .fuel => True

theorem simg_bind {α β α' β'} {R : α → β → Prop} {R' : α' → β' → Prop} {x : Out α} {y : Out β}
    {g : α → Out α'} {g' : β → Out β'} (h : SimG R x y)
    (hg : ∀ a b, x = .ok a → R a b → SimG R' (g a) (g' b)) : SimG R' (x >>= g) (y >>= g') := by
  rcases h with h | h
  · left; rw [h]; rfl
  · cases x with
    | ok a =>
      obtain ⟨b, hy, hr⟩ := h
      rw [hy]
      exact hg a b rfl hr
    | panic m =>
      rcases h with h | h
      · right; rw [h]; exact .inl rfl
      · right; exact .inr h
    | fuel => right; trivial

theorem simg_mono {α β} {R R' : α → β → Prop} {x : Out α} {y : Out β} (h : SimG R x y)
    (hr : ∀ a b, x = .ok a → R a b → R' a b) : SimG R' x y := by
  rcases h with h | h
  · exact .inl h
  · right
    cases x with
    | ok a => obtain ⟨b, hy, hr'⟩ := h; exact ⟨b, hy, hr a b rfl hr'⟩
    | panic m => exact h
    | fuel => trivial

def CalledIn (D : String → Option Tree) (e e1 : Esc) : Prop := ∀ z ∈ e1.called, z ∈ e.called ∨ (D z).isSome = true

theorem CalledIn.refl (D : String → Option Tree) (e : Esc) : CalledIn D e e := fun _ h => .inl h
theorem CalledIn.trans {D : String → Option Tree} {e e1 e2 : Esc} (a : CalledIn D e e1) (b : CalledIn D e1 e2) :
    CalledIn D e e2 := by
  intro z hz
  rcases b z hz with h | h
  · exact a z h
  · exact .inr h

/-- the relation between a real result and a reference result -/
def Rr (tn : String) (D : String → Option Tree) (e : Esc) (r r' : Esc × Ctx) : Prop :=
  r'.2 = r.2 ∧ EdIs tn r.1 r'.1 ∧ CalledIn D e r.1

@[reducible] def SimR (tn : String) (D : String → Option Tree) (e : Esc) (x y : Out (Esc × Ctx)) : Prop :=
  SimG (Rr tn D e) x y

theorem simr_same (tn : String) (D : String → Option Tree) (e s : Esc) (c : Ctx) (h : EdIs tn e s) :
    SimR tn D e (.ok (e, c)) (.ok (s, c)) := .inr ⟨(s, c), rfl, rfl, h, CalledIn.refl D e⟩

theorem any_fk {β} (tn : String) (id : Nat) (l : List (EditKey × β)) :
    l.any (fun p => p.1 == (tn, id)) = (fk tn l).any (fun p => p.1 == (tn, id)) := by
  induction l with
  | nil => rfl
  | cons q t ih =>
    unfold fk
    rw [List.any_cons, List.filter_cons]
    by_cases hq : (q.1.1 == tn) = true
    · rw [if_pos hq, List.any_cons, ih]; rfl
    · rw [if_neg hq, ih]
      have : (q.1 == (tn, id)) = false := by
        cases hq' : (q.1 == (tn, id)) with
        | false => rfl
        | true =>
          exfalso; apply hq
          have : q.1 = (tn, id) := by simpa using hq'
          rw [this]; simp
      rw [this, Bool.false_or]; rfl

theorem fk_self_single {β} (tn : String) (id : Nat) (v : β) : fk tn [((tn, id), v)] = [((tn, id), v)] :=
  fk_all tn _ (by intro q hq; simp only [List.mem_singleton] at hq; subst hq; rfl)

theorem escapeAction_simr (env : Env) (D : String → Option Tree) (tn : String) (e s : Esc) (c : Ctx) (id : Nat)
    (p : Pipe) (h : EdIs tn e s) : SimR tn D e (escapeAction env tn e c id p) (escapeAction (cenv env.csp env.v) tn s c id p) := by
  unfold escapeAction
  dsimp only
  split
  · exact simr_same tn D e s c h
  · split
    · exact .inr (.inl rfl)
    · exact simr_same tn D e s _ h
    · split
      · exact simr_same tn D e s _ h
      · split
        · exact simr_same tn D e s _ h
        · rename_i sn _
          unfold Esc.editAction
          rw [any_fk tn id e.actionEdits, h.1]
          split
          · exact .inr (.inl rfl)
          · refine .inr ⟨_, rfl, rfl, ⟨?_, h.2.1, h.2.2⟩, CalledIn.refl D e⟩
            show fk tn (e.actionEdits ++ [((tn, id), sn)]) = s.actionEdits ++ [((tn, id), sn)]
            rw [fk_append, fk_self_single, h.1]

theorem escapeTextNode_simr (env : Env) (D : String → Option Tree) (tn : String) (e s : Esc) (c : Ctx) (id : Nat)
    (b : Bytes) (h : EdIs tn e s) : SimR tn D e (escapeTextNode env tn e c id b) (escapeTextNode (cenv env.csp env.v) tn s c id b) := by
  unfold escapeTextNode
  dsimp only
  split
  · exact .inr (.inl rfl)
  · exact simr_same tn D e s _ h
  · rename_i c' nb _
    unfold Esc.editText
    rw [any_fk tn id e.textEdits, h.2.2]
    split
    · exact .inr (.inl rfl)
    · refine .inr ⟨_, rfl, rfl, ⟨h.1, h.2.1, ?_⟩, CalledIn.refl D e⟩
      show fk tn (e.textEdits ++ [((tn, id), nb)]) = s.textEdits ++ [((tn, id), nb)]
      rw [fk_append, fk_self_single, h.2.2]

/-! ### a call of a tracked template in the context `{}` -/

theorem cfBody_eq_of_ne_fuel (env : Env) (f f' : Nat) (hf : f ≤ f') (tn : String) (c : Ctx) (root : NodeList)
    (hl : listNoCalls root) (h : cfBody env f tn c root ≠ .fuel) : cfBody env f' tn c root = cfBody env f tn c root := by
  unfold cfBody at h ⊢
  have : escapeList env f tn {} c root ≠ .fuel := by intro hh; rw [hh] at h; exact h rfl
  rw [list_fuel_mono env root hl f f' hf tn {} c this]

theorem cfOut_mono_panic (env : Env) (f f' : Nat) (hf : f ≤ f') (tn : String) (c : Ctx) (root : NodeList)
    (hl : listNoCalls root) (m : String) (h : cfOut env f tn c root = .panic m) : cfOut env f' tn c root = .panic m := by
  unfold cfOut at h ⊢
  cases hB : cfBody env f tn c root with
  | fuel => rw [hB] at h; cases h
  | panic m' =>
    rw [cfBody_eq_of_ne_fuel env f f' hf tn c root hl (by rw [hB]; intro x; cases x), hB]
    rw [hB] at h; exact h
  | ok a =>
    obtain ⟨c1, b, s⟩ := a
    rw [cfBody_eq_of_ne_fuel env f f' hf tn c root hl (by rw [hB]; intro x; cases x), hB]
    rw [hB] at h
    cases b with
    | true => cases h
    | false =>
      simp only [] at h ⊢
      cases hB2 : cfBody env f tn c1 root with
      | fuel => rw [hB2] at h; cases h
      | panic m' =>
        rw [cfBody_eq_of_ne_fuel env f f' hf tn c1 root hl (by rw [hB2]; intro x; cases x), hB2]
        rw [hB2] at h; exact h
      | ok a2 =>
        obtain ⟨c2, b2, s2⟩ := a2
        rw [hB2] at h
        cases b2 <;> cases h

theorem tree_trk_ok (env : Env) (F : Nat) (O : String → Option Tree) (g : Nat) (hF : g + 1 ≤ F) (e : Esc) (h : String)
    (th : Tree) (ht : Trk O h th) (hi : MInv env F O e) (r : Esc × Ctx × String)
    (hr : escapeTree env (g + 1) e {} h = .ok r) :
    r.2.2 = h ∧ (∃ ss, cfOut (cenv env.csp env.v) F h {} th.root = .ok (r.2.1, ss)) ∧ (∀ tn, tn ≠ h → EdSame tn e r.1) ∧
    (∀ z ∈ r.1.called, z ∈ e.called ∨ z = h) := by
  have he : EnvEq (cenv env.csp env.v) env := ⟨rfl, rfl⟩
  simp only [escapeTree, mangle_text] at hr
  rw [if_neg (by decide)] at hr
  have hcalled : ∀ z ∈ (if e.called.contains h = true then e.called else e.called ++ [h]), z ∈ e.called ∨ z = h := by
    intro z hz
    split at hz
    · exact .inl hz
    · rcases List.mem_append.mp hz with h1 | h1
      · exact .inl h1
      · exact .inr (by simpa using h1)
  cases hm : alookup e.output h with
  | some out =>
    simp only [hm] at hr
    cases hr
    exact ⟨rfl, hi.mc h th ht (h, out) (mem_of_alookup _ _ _ hm) rfl, fun _ _ => ⟨rfl, rfl, rfl⟩, hcalled⟩
  | none =>
    have hl := hi.lk h th ht (by unfold Memo; rw [hm]; exact fun x => nomatch x)
    simp only [hm, Esc.template, hl, bne_self_eq_false, Bool.false_eq_true, if_false] at hr
    obtain ⟨⟨e2, c2⟩, h1, h2⟩ := bind_ok hr
    cases h2
    match g, hF, h1 with
    | 0, _, h1 => simp only [computeOutCtx] at h1; cases h1
    | 1, _, h1 => simp only [computeOutCtx, escapeTemplateBody] at h1; cases h1
    | g' + 2, hF, h1 =>
      obtain ⟨ss, hcf, hext, _⟩ := out_cf (cenv env.csp env.v) env he g' _ {} h th ht.2.2 _ h1
      obtain ⟨_, _, hcd⟩ := out_cf_out (cenv env.csp env.v) env he g' _ {} h th ht.2.2 _ h1
      have hF' := cfOut_mono (cenv env.csp env.v) g' F (by omega) h {} th.root ht.2.2 _ hcf
      have hkeys := cfOut_edit_keys _ g' h {} th.root ht.2.2 _ ss hcf
      refine ⟨rfl, ⟨ss, hF'⟩, fun tn hne => ?_, ?_⟩
      · have := edsame_ext (h := tn) hext hkeys hne
        exact ⟨this.1, this.2.1, this.2.2⟩
      · simp only [] at hcd ⊢
        rw [hcd]; exact hcalled

theorem tree_trk_panic (env : Env) (F : Nat) (O : String → Option Tree) (g : Nat) (hF : g + 1 ≤ F) (e : Esc) (h : String)
    (th : Tree) (ht : Trk O h th) (hi : MInv env F O e) (m : String)
    (hr : escapeTree env (g + 1) e {} h = .panic m) :
    cfOut (cenv env.csp env.v) F h {} th.root = .panic m ∨ m = msgShared := by
  have he : EnvEq (cenv env.csp env.v) env := ⟨rfl, rfl⟩
  simp only [escapeTree, mangle_text] at hr
  rw [if_neg (by decide)] at hr
  cases hm : alookup e.output h with
  | some out => simp only [hm] at hr; cases hr
  | none =>
    have hl := hi.lk h th ht (by unfold Memo; rw [hm]; exact fun x => nomatch x)
    simp only [hm, Esc.template, hl, bne_self_eq_false, Bool.false_eq_true, if_false] at hr
    rcases bind_panic hr with h1 | ⟨_, _, h2⟩
    · match g, hF, h1 with
      | 0, _, h1 => simp only [computeOutCtx] at h1; cases h1
      | 1, _, h1 => simp only [computeOutCtx, escapeTemplateBody] at h1; cases h1
      | g' + 2, hF, h1 =>
        rcases out_cf_panic (cenv env.csp env.v) env he g' _ {} h th ht.2.2 m h1 with h3 | h3
        · exact .inl (cfOut_mono_panic _ g' F (by omega) h {} th.root ht.2.2 m h3)
        · exact .inr h3
    · cases h2


/-- the side conditions of the simulation: the analysed template `tn` is not tracked and not a callee; every callee
    in `D` is tracked with the tree `D` gives -/
structure SimCtx (O D : String → Option Tree) (tn : String) : Prop where
  untr : Untr O tn
  dtn : D tn = none
  dtrk : ∀ h th, D h = some th → Trk O h th

theorem tmpl_simr (env : Env) (F : Nat) (O D : String → Option Tree) (tn : String) (hx : SimCtx O D tn) (f : Nat)
    (hf : f + 1 ≤ F) (e s : Esc) (c : Ctx) (id : Nat) (h : String) (p : Option Pipe) (hi : MInv env F O e)
    (hed : EdIs tn e s) :
    SimR tn D e (escapeNode env (f + 1) tn e c (.tmpl id h p)) (rNode (cenv env.csp env.v) (calOf env F D) (f + 1) tn s c (.tmpl id h p)) := by
  simp only [escapeNode, rNode]
  by_cases hce : (c.state == .error) = true
  · rw [if_pos hce]
    cases hres : escapeTree env f e c h with
    | fuel => exact .inr trivial
    | panic m =>
      exfalso
      cases f with
      | zero => simp only [escapeTree] at hres; cases hres
      | succ g => simp only [escapeTree, if_pos hce] at hres; cases hres
    | ok r =>
      cases f with
      | zero => simp only [escapeTree] at hres; cases hres
      | succ g =>
        simp only [escapeTree, if_pos hce] at hres
        cases hres
        simp only [bind, Out.bind, bne_self_eq_false, Bool.false_eq_true, if_false]
        exact simr_same tn D e s c hed
  · rw [if_neg hce]
    by_cases hc0 : c = {}
    · subst hc0
      rw [if_pos rfl]
      cases hD : D h with
      | none => left; unfold calOf; rw [hD]; rfl
      | some th =>
        have ht := hx.dtrk h th hD
        have hne : tn ≠ h := by intro he; rw [← he, hx.dtn] at hD; cases hD
        cases hres : escapeTree env f e {} h with
        | fuel => exact .inr trivial
        | panic m =>
          cases f with
          | zero => simp only [escapeTree] at hres; cases hres
          | succ g =>
            rcases tree_trk_panic env F O g (by omega) e h th ht hi m hres with h1 | h1
            · right; left
              unfold calOf; rw [hD]; simp only [h1]; rfl
            · exact .inr (.inr h1)
        | ok r =>
          cases f with
          | zero => simp only [escapeTree] at hres; cases hres
          | succ g =>
            obtain ⟨hnm, ⟨ss, hF⟩, hsame, hcalled⟩ := tree_trk_ok env F O g (by omega) e h th ht hi r hres
            obtain ⟨e1, c1, nm⟩ := r
            simp only [] at hnm hF hsame hcalled
            subst hnm
            right
            simp only [bind, Out.bind, bne_self_eq_false, Bool.false_eq_true, if_false]
            refine ⟨(s, c1), ?_, rfl, edis_of_same (hsame tn hne) hed, ?_⟩
            · unfold calOf; rw [hD]; simp only [hF]; rfl
            · intro z hz
              rcases hcalled z hz with h1 | h1
              · exact .inl h1
              · right; rw [h1, hD]; rfl
    · rw [if_neg hc0]; exact .inl rfl


theorem simr_weaken {tn : String} {D : String → Option Tree} {e e1 : Esc} {x y : Out (Esc × Ctx)}
    (h : SimR tn D e1 x y) (hc : CalledIn D e e1) : SimR tn D e x y :=
  simg_mono h (fun _ _ _ hr => ⟨hr.1, hr.2.1, hc.trans hr.2.2⟩)

/-- the list-level statement of the simulation -/
def ListSim (env : Env) (F : Nat) (O D : String → Option Tree) (tn : String) (l : NodeList) : Prop :=
  ∀ f e s c, f ≤ F → MInv env F O e → CIall e → CtxInv c → EdIs tn e s →
    SimR tn D e (escapeList env f tn e c l) (rList (cenv env.csp env.v) (calOf env F D) f tn s c l)

theorem scratch_edis (tn : String) (e : Esc) :
    EdIs tn ({ output := e.output, pristine := e.pristine, memoPrefix := e.memoPrefix } : Esc) {} := ⟨rfl, rfl, rfl⟩

theorem branch_simr (env : Env) (F : Nat) (O D : String → Option Tree) (tn : String) (hx : SimCtx O D tn)
    (t el : NodeList) (ht : ListSim env F O D tn t) (hel : ListSim env F O D tn el) :
    ∀ f e s c b, f ≤ F → MInv env F O e → CIall e → CtxInv c → EdIs tn e s →
      SimR tn D e (escapeBranch env f tn e c t el b) (rBranch (cenv env.csp env.v) (calOf env F D) f tn s c t el b) := by
  intro f e s c b hf hi hci hc hed
  cases f with
  | zero => simp only [escapeBranch, rBranch]; exact .inr trivial
  | succ k =>
    have hk : k ≤ F := Nat.le_of_succ_le hf
    simp only [escapeBranch, rBranch]
    apply simg_bind (ht k e s c hk hi hci hc hed)
    intro a a' hxa hR
    obtain ⟨e1, c0⟩ := a
    obtain ⟨s1, c0'⟩ := a'
    obtain ⟨hcc, hed1, hcal1⟩ := hR
    simp only [] at hcc hed1 hcal1
    subst hcc
    have hp1 := (analysis_m env F O k).2.1 hk _ _ _ _ _ hi hci hc hx.untr hxa
    obtain ⟨hci1, hc0⟩ := (ci_analysis env k).2.1 _ _ _ _ _ hci hc hxa
    simp only [] at hp1 hci1 hc0
    show SimG (Rr tn D e) (_ >>= _) (_ >>= _)
    apply simg_bind (R := fun (j j' : Option Ctx) => j' = j)
    · dsimp only
      by_cases hb : (b && c0'.state != State.error) = true
      · rw [if_pos hb, if_pos hb]
        apply simg_bind (ht k _ {} c0' hk (minv_scratch e1 hp1.1) (fun p hp => hci1 p hp) hc0 (scratch_edis tn e1))
        intro r r' _ hR2
        obtain ⟨e2, c1⟩ := r
        obtain ⟨s2, c1'⟩ := r'
        have : c1' = c1 := hR2.1
        subst this
        exact .inr ⟨_, rfl, rfl⟩
      · rw [if_neg hb, if_neg hb]
        exact .inr ⟨_, rfl, rfl⟩
    · intro j j' _ hj
      subst hj
      dsimp only
      have hel1 := simr_weaken (hel k e1 s1 c hk hp1.1 hci1 hc hed1) hcal1
      cases j' with
      | some jc =>
        dsimp only
        by_cases hjs : (jc.state == State.error) = true
        · rw [if_pos hjs, if_pos hjs]
          exact .inr ⟨(s1, jc), rfl, rfl, hed1, hcal1⟩
        · rw [if_neg hjs, if_neg hjs]
          apply simg_bind hel1
          intro r r' _ hR2
          obtain ⟨e2, c1⟩ := r
          obtain ⟨s2, c1'⟩ := r'
          obtain ⟨hcc2, hed2, hcal2⟩ := hR2
          simp only [] at hcc2 hed2 hcal2
          subst hcc2
          exact .inr ⟨_, rfl, rfl, hed2, hcal2⟩
      | none =>
        dsimp only
        apply simg_bind hel1
        intro r r' _ hR2
        obtain ⟨e2, c1⟩ := r
        obtain ⟨s2, c1'⟩ := r'
        obtain ⟨hcc2, hed2, hcal2⟩ := hR2
        simp only [] at hcc2 hed2 hcal2
        subst hcc2
        exact .inr ⟨_, rfl, rfl, hed2, hcal2⟩

mutual
theorem node_simr (env : Env) (F : Nat) (O D : String → Option Tree) (tn : String) (hx : SimCtx O D tn) :
    ∀ n f e s c, f ≤ F → MInv env F O e → CIall e → CtxInv c → EdIs tn e s →
      SimR tn D e (escapeNode env f tn e c n) (rNode (cenv env.csp env.v) (calOf env F D) f tn s c n)
  | .text id b, f, e, s, c, _, _, _, _, hed => by
    cases f with
    | zero => simp only [escapeNode, rNode]; exact .inr trivial
    | succ g => simp only [escapeNode, rNode]; exact escapeTextNode_simr env D tn e s c id b hed
  | .action id p, f, e, s, c, _, _, _, _, hed => by
    cases f with
    | zero => simp only [escapeNode, rNode]; exact .inr trivial
    | succ g => simp only [escapeNode, rNode]; exact escapeAction_simr env D tn e s c id p hed
  | .tmpl id h p, f, e, s, c, hf, hi, _, _, hed => by
    cases f with
    | zero => simp only [escapeNode, rNode]; exact .inr trivial
    | succ g => exact tmpl_simr env F O D tn hx g hf e s c id h p hi hed
  | .ifN id p t el, f, e, s, c, hf, hi, hci, hc, hed => by
    cases f with
    | zero => simp only [escapeNode, rNode]; exact .inr trivial
    | succ g =>
      simp only [escapeNode, rNode]
      exact branch_simr env F O D tn hx t el (list_simr env F O D tn hx t) (list_simr env F O D tn hx el) g e s c false
        (Nat.le_of_succ_le hf) hi hci hc hed
  | .rangeN id p t el, f, e, s, c, hf, hi, hci, hc, hed => by
    cases f with
    | zero => simp only [escapeNode, rNode]; exact .inr trivial
    | succ g =>
      simp only [escapeNode, rNode]
      exact branch_simr env F O D tn hx t el (list_simr env F O D tn hx t) (list_simr env F O D tn hx el) g e s c true
        (Nat.le_of_succ_le hf) hi hci hc hed
  | .withN id p t el, f, e, s, c, hf, hi, hci, hc, hed => by
    cases f with
    | zero => simp only [escapeNode, rNode]; exact .inr trivial
    | succ g =>
      simp only [escapeNode, rNode]
      exact branch_simr env F O D tn hx t el (list_simr env F O D tn hx t) (list_simr env F O D tn hx el) g e s c false
        (Nat.le_of_succ_le hf) hi hci hc hed
  | .brk id, f, e, s, c, _, _, _, _, hed => by
    cases f with
    | zero => simp only [escapeNode, rNode]; exact .inr trivial
    | succ g => simp only [escapeNode, rNode]; exact simr_same tn D e s _ hed
  | .cont id, f, e, s, c, _, _, _, _, hed => by
    cases f with
    | zero => simp only [escapeNode, rNode]; exact .inr trivial
    | succ g => simp only [escapeNode, rNode]; exact simr_same tn D e s _ hed
  | .comment id, f, e, s, c, _, _, _, _, hed => by
    cases f with
    | zero => simp only [escapeNode, rNode]; exact .inr trivial
    | succ g => simp only [escapeNode, rNode]; exact simr_same tn D e s _ hed
theorem list_simr (env : Env) (F : Nat) (O D : String → Option Tree) (tn : String) (hx : SimCtx O D tn) :
    ∀ l, ListSim env F O D tn l
  | .nil, f, e, s, c, _, _, _, _, hed => by
    cases f with
    | zero => simp only [escapeList, rList]; exact .inr trivial
    | succ g => simp only [escapeList, rList]; exact simr_same tn D e s c hed
  | .cons n ns, f, e, s, c, hf, hi, hci, hc, hed => by
    cases f with
    | zero => simp only [escapeList, rList]; exact .inr trivial
    | succ g =>
      have hg : g ≤ F := Nat.le_of_succ_le hf
      simp only [escapeList, rList]
      apply simg_bind (node_simr env F O D tn hx n g e s c hg hi hci hc hed)
      intro a a' hxa hR
      obtain ⟨e1, c1⟩ := a
      obtain ⟨s1, c1'⟩ := a'
      obtain ⟨hcc, hed1, hcal1⟩ := hR
      simp only [] at hcc hed1 hcal1
      subst hcc
      have hp1 := (analysis_m env F O g).1 hg _ _ _ _ _ hi hci hc hx.untr hxa
      obtain ⟨hci1, hc1⟩ := (ci_analysis env g).1 _ _ _ _ _ hci hc hxa
      exact simr_weaken (list_simr env F O D tn hx ns g e1 s1 c1' hg hp1.1 hci1 hc1 hed1) hcal1
end


/-! ### the reference run of a whole body, of `computeOutCtx`, of `escapeTemplateTop` -/

def rBody (env : Env) (cal : String → Out Ctx) (f : Nat) (tn : String) (c : Ctx) (root : NodeList) :
    Out (Ctx × Bool × Esc) :=
  match rList env cal f tn {} c root with
  | .ok (s, c1) => .ok (c1, c1.state != .error, s)
  | .panic m => .panic m
  | .fuel => .fuel

def rOut (env : Env) (cal : String → Out Ctx) (f : Nat) (tn : String) (c : Ctx) (root : NodeList) : Out (Ctx × Esc) :=
  match rBody env cal f tn c root with
  | .panic m => .panic m
  | .fuel => .fuel
  | .ok (c1, true, s) => .ok (c1, s)
  | .ok (c1, false, _) =>
    match rBody env cal f tn c1 root with
    | .panic m => .panic m
    | .fuel => .fuel
    | .ok (c2, true, s2) => .ok (c2, s2)
    | .ok (_, false, _) => .ok (if c1.state != .error then Ctx.errorCtx .outputContext else c1, {})

/-- the reference outcome of `escapeTemplateTop`: a function of the CSP flag, the validators, the fuel, the name, the
    tree and the original trees `D` of the callees only -/
def rTop (csp : Bool) (v : Validators) (F : Nat) (D : String → Option Tree) (name : String) (t : Tree) :
    Out (Option ErrCode × Option Tree) :=
  match rOut (cenv csp v) (calOf (cenv csp v) F D) (F - 3) name {} t.root with
  | .panic m => .panic m
  | .fuel => .fuel
  | .ok (cc, ss) => .ok (finalError cc, cfTree name ss t)

/-- what a successful `escapeTemplateBody` on the template `tn` looks like -/
theorem body_r (env : Env) (F : Nat) (O D : String → Option Tree) (tn : String) (hx : SimCtx O D tn) (f : Nat)
    (hf : f + 1 ≤ F) (e : Esc) (c : Ctx) (t : Tree) (hi : MInv env F O e) (hci : CIall e) (hc : CtxInv c)
    (r : Esc × Ctx × Bool) (hr : escapeTemplateBody env (f + 1) e c tn (some t) = .ok r) :
    rBody (cenv env.csp env.v) (calOf env F D) f tn c t.root = .panic msgExcl ∨
    ∃ s, rBody (cenv env.csp env.v) (calOf env F D) f tn c t.root = .ok (r.2.1, r.2.2, s) ∧
      (r.2.2 = true → EdApp tn e s r.1) ∧ (r.2.2 = false → EdSame tn e r.1) := by
  have hfF : f ≤ F := Nat.le_of_succ_le hf
  simp only [escapeTemplateBody] at hr
  obtain ⟨⟨e1, c1⟩, h1, h2⟩ := bind_ok hr
  have hi0 := minv_setOutput e tn c hi hx.untr
  have hci0 := ciall_setOutput e tn c hci hc
  have hsim := list_simr env F O D tn hx t.root f _ {} c hfF (minv_scratch _ hi0) (fun p hp => hci0 p hp) hc
    (scratch_edis tn { e with output := aset e.output tn c })
  rw [h1] at hsim
  unfold rBody
  rcases hsim with hsim | ⟨⟨s1, c1'⟩, hy, hcc, hed, hcal⟩
  · left; rw [hsim]
  · right
    simp only [] at hcc hed hcal
    subst hcc
    rw [hy]
    have hcall : e1.called.contains tn = false := by
      cases hcn : e1.called.contains tn with
      | false => rfl
      | true =>
        exfalso
        have hmem : tn ∈ e1.called := by simpa using hcn
        rcases hcal tn hmem with h3 | h3
        · cases h3
        · rw [hx.dtn] at h3; cases h3
    simp only [] at h2
    rw [hcall] at h2
    simp only [Bool.not_false, Bool.true_or, Bool.and_true] at h2
    split at h2
    · rename_i hok
      obtain ⟨ae, ha, h3⟩ := bind_ok h2
      obtain ⟨te, hte, h4⟩ := bind_ok h3
      obtain ⟨xe, hxe, h5⟩ := bind_ok h4
      cases h5
      refine ⟨s1, by dsimp only; rw [hok], fun _ => ⟨?_, ?_, ?_⟩, fun hh => by cases hh⟩
      · show fk tn ae = _
        rw [mergeEdits_ok_eq _ _ _ ha, fk_append, hed.1]
      · show fk tn te = _
        rw [mergeEdits_ok_eq _ _ _ hte, fk_append, hed.2.1]
      · show fk tn xe = _
        rw [mergeEdits_ok_eq _ _ _ hxe, fk_append, hed.2.2]
    · rename_i hok
      cases h2
      have hokf : (c1'.state != State.error) = false := by simpa using hok
      exact ⟨s1, by dsimp only; rw [hokf], (fun hh => by cases hh), fun _ => ⟨rfl, rfl, rfl⟩⟩

theorem edapp_nil {tn : String} {e e' : Esc} (h : EdSame tn e e') : EdApp tn e {} e' :=
  ⟨by rw [h.1]; exact (List.append_nil _).symm, by rw [h.2.1]; exact (List.append_nil _).symm,
    by rw [h.2.2]; exact (List.append_nil _).symm⟩

theorem out_r (env : Env) (F : Nat) (O D : String → Option Tree) (tn : String) (hx : SimCtx O D tn) (f : Nat)
    (hf : f + 2 ≤ F) (e : Esc) (c : Ctx) (t : Tree) (hi : MInv env F O e) (hci : CIall e) (hc : CtxInv c)
    (r : Esc × Ctx) (hr : computeOutCtx env (f + 2) e c tn (some t) = .ok r) :
    rOut (cenv env.csp env.v) (calOf env F D) f tn c t.root = .panic msgExcl ∨
    ∃ ss, rOut (cenv env.csp env.v) (calOf env F D) f tn c t.root = .ok (r.2, ss) ∧ EdApp tn e ss r.1 := by
  simp only [computeOutCtx] at hr
  obtain ⟨⟨e1, c1, ok1⟩, h1, h2⟩ := bind_ok hr
  have hp1 := (analysis_m env F O (f + 1)).2.2.2.2.2 (by omega) _ _ _ _ _ hi hci hc hx.untr h1
  obtain ⟨hci1, hc1⟩ := (ci_analysis env (f + 1)).2.2.2.2.2 _ _ _ _ _ hci hc h1
  simp only [] at hp1 hci1 hc1 h2
  unfold rOut
  rcases body_r env F O D tn hx f (by omega) e c t hi hci hc _ h1 with hb | ⟨s1, hb, ht1, hf1⟩
  · left; rw [hb]
  · simp only [] at hb ht1 hf1
    rw [hb]
    cases ok1 with
    | true =>
      right
      simp only [if_true] at h2
      cases h2
      exact ⟨s1, rfl, ht1 rfl⟩
    | false =>
      simp only [Bool.false_eq_true, if_false] at h2
      obtain ⟨⟨e2, c2, ok2⟩, h3, h4⟩ := bind_ok h2
      dsimp only
      rcases body_r env F O D tn hx f (by omega) e1 c1 t hp1.1 hci1 hc1 _ h3 with hb2 | ⟨s2, hb2, ht2, hf2⟩
      · left; rw [hb2]
      · simp only [] at hb2 ht2 hf2 h4
        rw [hb2]
        right
        have hs1 := hf1 rfl
        cases ok2 with
        | true =>
          simp only [if_true] at h4
          cases h4
          exact ⟨s2, rfl, hs1.app (ht2 rfl)⟩
        | false =>
          simp only [Bool.false_eq_true, if_false] at h4
          have hs12 : EdSame tn e e2 := hs1.trans (hf2 rfl)
          split at h4
          · rename_i hs
            cases h4
            exact ⟨{}, by rw [if_pos hs], edapp_nil hs12⟩
          · rename_i hs
            cases h4
            exact ⟨{}, by rw [if_neg hs], edapp_nil hs12⟩

theorem tree_r (env : Env) (F : Nat) (O D : String → Option Tree) (name : String) (hx : SimCtx O D name) (e : Esc)
    (t : Tree) (hl : env.text.lookup name = some (some t)) (hm : alookup e.output name = none)
    (hi : MInv env F O e) (hci : CIall e) (r : Esc × Ctx × String) (hr : escapeTree env F e {} name = .ok r) :
    rOut (cenv env.csp env.v) (calOf env F D) (F - 3) name {} t.root = .panic msgExcl ∨
    ∃ ss, rOut (cenv env.csp env.v) (calOf env F D) (F - 3) name {} t.root = .ok (r.2.1, ss) ∧ EdApp name e ss r.1 := by
  match F, hi, hr with
  | 0, _, hr => simp only [escapeTree] at hr; cases hr
  | 1, _, hr =>
    exfalso
    simp only [escapeTree, mangle_text] at hr
    rw [if_neg (by decide)] at hr
    simp only [hm, Esc.template, hl, bne_self_eq_false, Bool.false_eq_true, if_false, computeOutCtx] at hr
    cases hr
  | 2, _, hr =>
    exfalso
    simp only [escapeTree, mangle_text] at hr
    rw [if_neg (by decide)] at hr
    simp only [hm, Esc.template, hl, bne_self_eq_false, Bool.false_eq_true, if_false, computeOutCtx,
      escapeTemplateBody] at hr
    cases hr
  | f + 3, hi, hr =>
    simp only [escapeTree, mangle_text] at hr
    rw [if_neg (by decide)] at hr
    simp only [hm, Esc.template, hl, bne_self_eq_false, Bool.false_eq_true, if_false] at hr
    obtain ⟨⟨e2, c2⟩, h1, h2⟩ := bind_ok hr
    cases h2
    have hI : ∀ (x : List String) (y : List (String × Bytes × Bool)),
        MInv env (f + 3) O ({ e with called := x, memoPrefix := y } : Esc) := fun _ _ => ⟨hi.dd, hi.lk, hi.mc⟩
    have hC : ∀ (x : List String) (y : List (String × Bytes × Bool)),
        CIall ({ e with called := x, memoPrefix := y } : Esc) := fun _ _ p hp => hci p hp
    exact out_r env (f + 3) O D name hx f (by omega) _ {} t (hI _ _) (hC _ _) ctxInv_default _ h1


end

/-! # part: ICRTmpl -/
section
open SafeHtml SafeHtml.Model.Tmpl SafeHtml.Proofs.Frozen SafeHtml.Proofs.ConcApi SafeHtml.Proofs.ConcReach
  SafeHtml.Proofs.ApiFrames SafeHtml.Proofs.NoPanic SafeHtml.Proofs.NoPanic2 SafeHtml.Proofs.NoPanic3 SafeHtml.Proofs.NoPanic4
  SafeHtml.Proofs.Independence

/-! ### 1. the reference analysis never creates a template edit -/

theorem icr_branch_tmplEdits (env : Env) (cal : String → Out Ctx) (t el : NodeList)
    (ht : ∀ (f : Nat) (tn : String) (s : Esc) (c : Ctx) (r : Esc × Ctx),
      rList env cal f tn s c t = .ok r → r.1.tmplEdits = s.tmplEdits)
    (hel : ∀ (f : Nat) (tn : String) (s : Esc) (c : Ctx) (r : Esc × Ctx),
      rList env cal f tn s c el = .ok r → r.1.tmplEdits = s.tmplEdits) :
    ∀ (f : Nat) (tn : String) (s : Esc) (c : Ctx) (b : Bool) (r : Esc × Ctx),
      rBranch env cal f tn s c t el b = .ok r → r.1.tmplEdits = s.tmplEdits := by
  intro f tn s c b r h
  cases f with
  | zero => simp only [rBranch] at h; cases h
  | succ k =>
    simp only [rBranch] at h
    obtain ⟨⟨s1, c0⟩, h1, h2⟩ := bind_ok h
    have hk1 := ht k tn s c _ h1
    simp only [] at hk1 h2
    obtain ⟨j, _, h3⟩ := bind_ok h2
    cases j with
    | some jc =>
      simp only [] at h3
      split at h3
      · cases h3; exact hk1
      · obtain ⟨⟨s2, c1⟩, h4, h5⟩ := bind_ok h3
        cases h5
        exact (hel k tn s1 c (s2, c1) h4).trans hk1
    | none =>
      simp only [] at h3
      obtain ⟨⟨s2, c1⟩, h4, h5⟩ := bind_ok h3
      cases h5
      exact (hel k tn s1 c (s2, c1) h4).trans hk1

mutual
theorem icr_rNode_tmplEdits (env : Env) (cal : String → Out Ctx) : ∀ (n : Node) (f : Nat) (tn : String) (s : Esc)
    (c : Ctx) (r : Esc × Ctx), rNode env cal f tn s c n = .ok r → r.1.tmplEdits = s.tmplEdits
  | .text id b, f, tn, s, c, r, h => by
    cases f with
    | zero => simp only [rNode] at h; cases h
    | succ g => simp only [rNode] at h; exact (escapeTextNode_ek env tn s c id b r h).2.1
  | .action id p, f, tn, s, c, r, h => by
    cases f with
    | zero => simp only [rNode] at h; cases h
    | succ g => simp only [rNode] at h; exact (escapeAction_ek env tn s c id p r h).2.1
  | .tmpl id name p, f, tn, s, c, r, h => by
    cases f with
    | zero => simp only [rNode] at h; cases h
    | succ g =>
      simp only [rNode] at h
      split at h
      · cases h; rfl
      · split at h
        · obtain ⟨ch, _, h2⟩ := bind_ok h
          cases h2; rfl
        · cases h
  | .ifN id p t el, f, tn, s, c, r, h => by
    cases f with
    | zero => simp only [rNode] at h; cases h
    | succ g =>
      simp only [rNode] at h
      exact icr_branch_tmplEdits env cal t el (rList_tmplEdits env cal t) (rList_tmplEdits env cal el) g tn s c false r h
  | .rangeN id p t el, f, tn, s, c, r, h => by
    cases f with
    | zero => simp only [rNode] at h; cases h
    | succ g =>
      simp only [rNode] at h
      exact icr_branch_tmplEdits env cal t el (rList_tmplEdits env cal t) (rList_tmplEdits env cal el) g tn s c true r h
  | .withN id p t el, f, tn, s, c, r, h => by
    cases f with
    | zero => simp only [rNode] at h; cases h
    | succ g =>
      simp only [rNode] at h
      exact icr_branch_tmplEdits env cal t el (rList_tmplEdits env cal t) (rList_tmplEdits env cal el) g tn s c false r h
  | .brk id, f, tn, s, c, r, h => by
    cases f with
    | zero => simp only [rNode] at h; cases h
    | succ g => simp only [rNode] at h; cases h; rfl
  | .cont id, f, tn, s, c, r, h => by
    cases f with
    | zero => simp only [rNode] at h; cases h
    | succ g => simp only [rNode] at h; cases h; rfl
  | .comment id, f, tn, s, c, r, h => by
    cases f with
    | zero => simp only [rNode] at h; cases h
    | succ g => simp only [rNode] at h; cases h; rfl
theorem rList_tmplEdits (env : Env) (cal : String → Out Ctx) : ∀ (l : NodeList) (f : Nat) (tn : String) (s : Esc) (c : Ctx)
    (r : Esc × Ctx), rList env cal f tn s c l = .ok r → r.1.tmplEdits = s.tmplEdits
  | .nil, f, tn, s, c, r, h => by
    cases f with
    | zero => simp only [rList] at h; cases h
    | succ g => simp only [rList] at h; cases h; rfl
  | .cons n ns, f, tn, s, c, r, h => by
    cases f with
    | zero => simp only [rList] at h; cases h
    | succ g =>
      simp only [rList] at h
      obtain ⟨⟨s1, c1⟩, h1, h2⟩ := bind_ok h
      exact (rList_tmplEdits env cal ns g tn s1 c1 r h2).trans (icr_rNode_tmplEdits env cal n g tn s c _ h1)
end

theorem icr_rBody_tmplEdits (env : Env) (cal : String → Out Ctx) (f : Nat) (tn : String) (c : Ctx) (root : NodeList)
    (c1 : Ctx) (b : Bool) (s : Esc) (h : rBody env cal f tn c root = .ok (c1, b, s)) : s.tmplEdits = [] := by
  unfold rBody at h
  cases hS : rList env cal f tn {} c root with
  | fuel => rw [hS] at h; cases h
  | panic m => rw [hS] at h; cases h
  | ok a =>
    obtain ⟨s', c'⟩ := a
    rw [hS] at h
    cases h
    exact rList_tmplEdits env cal root f tn {} c _ hS

theorem rOut_tmplEdits (env : Env) (cal : String → Out Ctx) (f : Nat) (tn : String) (c : Ctx) (root : NodeList)
    (c' : Ctx) (ss : Esc) (h : rOut env cal f tn c root = .ok (c', ss)) : ss.tmplEdits = [] := by
  unfold rOut at h
  cases hB : rBody env cal f tn c root with
  | fuel => rw [hB] at h; cases h
  | panic m => rw [hB] at h; cases h
  | ok a =>
    obtain ⟨c1, b, s⟩ := a
    rw [hB] at h
    cases b with
    | true =>
      cases h
      exact icr_rBody_tmplEdits env cal f tn c root _ _ _ hB
    | false =>
      simp only [] at h
      cases hB2 : rBody env cal f tn c1 root with
      | fuel => rw [hB2] at h; cases h
      | panic m => rw [hB2] at h; cases h
      | ok a2 =>
        obtain ⟨c2, b2, s2⟩ := a2
        rw [hB2] at h
        cases b2 with
        | true =>
          cases h
          exact icr_rBody_tmplEdits env cal f tn c1 root _ _ _ hB2
        | false =>
          cases h
          rfl

/-! ### 2. conjunction of two call-set predicates -/

mutual
theorem icr_nodeCallsIn_and (A B : String → Prop) : ∀ n : Node, nodeCallsIn A n → nodeCallsIn B n →
    nodeCallsIn (fun h => A h ∧ B h) n
  | .tmpl _ name _, ha, hb => by simp only [nodeCallsIn] at ha hb ⊢; exact ⟨ha, hb⟩
  | .ifN _ _ t e, ha, hb => by
    simp only [nodeCallsIn] at ha hb ⊢
    exact ⟨listCallsIn_and A B t ha.1 hb.1, listCallsIn_and A B e ha.2 hb.2⟩
  | .rangeN _ _ t e, ha, hb => by
    simp only [nodeCallsIn] at ha hb ⊢
    exact ⟨listCallsIn_and A B t ha.1 hb.1, listCallsIn_and A B e ha.2 hb.2⟩
  | .withN _ _ t e, ha, hb => by
    simp only [nodeCallsIn] at ha hb ⊢
    exact ⟨listCallsIn_and A B t ha.1 hb.1, listCallsIn_and A B e ha.2 hb.2⟩
  | .text _ _, _, _ => by simp only [nodeCallsIn]
  | .action _ _, _, _ => by simp only [nodeCallsIn]
  | .brk _, _, _ => by simp only [nodeCallsIn]
  | .cont _, _, _ => by simp only [nodeCallsIn]
  | .comment _, _, _ => by simp only [nodeCallsIn]
theorem listCallsIn_and (A B : String → Prop) : ∀ l : NodeList, listCallsIn A l → listCallsIn B l →
    listCallsIn (fun h => A h ∧ B h) l
  | .nil, _, _ => by simp only [listCallsIn]
  | .cons n ns, ha, hb => by
    simp only [listCallsIn] at ha hb ⊢
    exact ⟨icr_nodeCallsIn_and A B n ha.1 hb.1, listCallsIn_and A B ns ha.2 hb.2⟩
end

end

/-! # part: ICTop -/
section
open SafeHtml SafeHtml.Model.Tmpl SafeHtml.Proofs.Frozen SafeHtml.Proofs.ConcApi SafeHtml.Proofs.ConcReach
  SafeHtml.Proofs.ApiFrames SafeHtml.Proofs.NoPanic SafeHtml.Proofs.NoPanic2 SafeHtml.Proofs.NoPanic3 SafeHtml.Proofs.NoPanic4
  SafeHtml.Proofs.Independence

/-! ### the failing outcomes -/

theorem body_r_panic (env : Env) (F : Nat) (O D : String → Option Tree) (tn : String) (hx : SimCtx O D tn) (f : Nat)
    (hf : f + 1 ≤ F) (e : Esc) (c : Ctx) (t : Tree) (hi : MInv env F O e) (hci : CIall e) (hc : CtxInv c)
    (m : String) (hr : escapeTemplateBody env (f + 1) e c tn (some t) = .panic m) :
    rBody (cenv env.csp env.v) (calOf env F D) f tn c t.root = .panic msgExcl ∨
    rBody (cenv env.csp env.v) (calOf env F D) f tn c t.root = .panic m ∨ m = msgShared := by
  have hfF : f ≤ F := Nat.le_of_succ_le hf
  simp only [escapeTemplateBody] at hr
  have hi0 := minv_setOutput e tn c hi hx.untr
  have hci0 := ciall_setOutput e tn c hci hc
  have hsim := list_simr env F O D tn hx t.root f _ {} c hfF (minv_scratch _ hi0) (fun p hp => hci0 p hp) hc
    (scratch_edis tn { e with output := aset e.output tn c })
  unfold rBody
  rcases bind_panic hr with h1 | ⟨⟨e1, c1⟩, h1, h2⟩
  · rw [h1] at hsim
    rcases hsim with hsim | hsim | hsim
    · left; rw [hsim]
    · right; left; rw [hsim]
    · exact .inr (.inr hsim)
  · right; right
    simp only [] at h2
    split at h2
    · rcases bind_panic h2 with h3 | ⟨_, _, h2⟩
      · exact mergeEdits_panic _ _ _ h3
      · rcases bind_panic h2 with h3 | ⟨_, _, h2⟩
        · exact mergeEdits_panic _ _ _ h3
        · rcases bind_panic h2 with h3 | ⟨_, _, h2⟩
          · exact mergeEdits_panic _ _ _ h3
          · cases h2
    · cases h2

theorem out_r_panic (env : Env) (F : Nat) (O D : String → Option Tree) (tn : String) (hx : SimCtx O D tn) (f : Nat)
    (hf : f + 2 ≤ F) (e : Esc) (c : Ctx) (t : Tree) (hi : MInv env F O e) (hci : CIall e) (hc : CtxInv c)
    (m : String) (hr : computeOutCtx env (f + 2) e c tn (some t) = .panic m) :
    rOut (cenv env.csp env.v) (calOf env F D) f tn c t.root = .panic msgExcl ∨
    rOut (cenv env.csp env.v) (calOf env F D) f tn c t.root = .panic m ∨ m = msgShared := by
  simp only [computeOutCtx] at hr
  unfold rOut
  rcases bind_panic hr with h | ⟨⟨e1, c1, ok1⟩, h1, h2⟩
  · rcases body_r_panic env F O D tn hx f (by omega) e c t hi hci hc m h with h | h | h
    · left; rw [h]
    · right; left; rw [h]
    · exact .inr (.inr h)
  · have hp1 := (analysis_m env F O (f + 1)).2.2.2.2.2 (by omega) _ _ _ _ _ hi hci hc hx.untr h1
    obtain ⟨hci1, hc1⟩ := (ci_analysis env (f + 1)).2.2.2.2.2 _ _ _ _ _ hci hc h1
    simp only [] at hp1 hci1 hc1 h2
    rcases body_r env F O D tn hx f (by omega) e c t hi hci hc _ h1 with hb | ⟨s1, hb, _, _⟩
    · left; rw [hb]
    · simp only [] at hb
      rw [hb]
      cases ok1 with
      | true => simp only [if_true] at h2; cases h2
      | false =>
        simp only [Bool.false_eq_true, if_false] at h2
        dsimp only
        rcases bind_panic h2 with h | ⟨⟨e2, c2, ok2⟩, h3, h4⟩
        · rcases body_r_panic env F O D tn hx f (by omega) e1 c1 t hp1.1 hci1 hc1 m h with h | h | h
          · left; rw [h]
          · right; left; rw [h]
          · exact .inr (.inr h)
        · exfalso
          simp only [] at h4
          split at h4
          · cases h4
          · split at h4 <;> cases h4

theorem tree_r_panic (env : Env) (F : Nat) (O D : String → Option Tree) (name : String) (hx : SimCtx O D name)
    (e : Esc) (t : Tree) (hl : env.text.lookup name = some (some t)) (hm : alookup e.output name = none)
    (hi : MInv env F O e) (hci : CIall e) (m : String) (hr : escapeTree env F e {} name = .panic m) :
    rOut (cenv env.csp env.v) (calOf env F D) (F - 3) name {} t.root = .panic msgExcl ∨
    rOut (cenv env.csp env.v) (calOf env F D) (F - 3) name {} t.root = .panic m ∨ m = msgShared := by
  match F, hi, hr with
  | 0, _, hr => simp only [escapeTree] at hr; cases hr
  | 1, _, hr =>
    exfalso
    simp only [escapeTree, mangle_text] at hr
    rw [if_neg (by decide)] at hr
    simp only [hm, Esc.template, hl, bne_self_eq_false, Bool.false_eq_true, if_false, computeOutCtx] at hr
    cases hr
  | 2, _, hr =>
    exfalso
    simp only [escapeTree, mangle_text] at hr
    rw [if_neg (by decide)] at hr
    simp only [hm, Esc.template, hl, bne_self_eq_false, Bool.false_eq_true, if_false, computeOutCtx,
      escapeTemplateBody] at hr
    cases hr
  | f + 3, hi, hr =>
    simp only [escapeTree, mangle_text] at hr
    rw [if_neg (by decide)] at hr
    simp only [hm, Esc.template, hl, bne_self_eq_false, Bool.false_eq_true, if_false] at hr
    have hI : ∀ (x : List String) (y : List (String × Bytes × Bool)),
        MInv env (f + 3) O ({ e with called := x, memoPrefix := y } : Esc) := fun _ _ => ⟨hi.dd, hi.lk, hi.mc⟩
    have hC : ∀ (x : List String) (y : List (String × Bytes × Bool)),
        CIall ({ e with called := x, memoPrefix := y } : Esc) := fun _ _ p hp => hci p hp
    rcases bind_panic hr with h | ⟨_, _, h⟩
    · exact out_r_panic env (f + 3) O D name hx f (by omega) _ {} t (hI _ _) (hC _ _) ctxInv_default m h
    · cases h

/-! ### `escapeTemplateTop` on a template with text-context calls is determined by the reference run -/

theorem calOf_cenv (env : Env) (F : Nat) (D : String → Option Tree) :
    calOf env F D = calOf (cenv env.csp env.v) F D := rfl

theorem top_r (w : World) (n : Nat) (name : String) (t : Tree) (D : String → Option Tree)
    (hinv : NSInv w.v w.fuel (w.ns n)) (hai : AI (w.ns n))
    (hx : SimCtx (origT (w.ns n).text (w.ns n).esc) D name) (hnd : NoDollar name)
    (hl : (w.ns n).text.lookup name = some (some t)) (hm : alookup (w.ns n).esc.output name = none)
    (w' : World) (code : Option ErrCode) (h : escapeTemplateTop w n name = .inr (w', code)) :
    rTop (w.ns n).csp w.v w.fuel D name t = .panic msgExcl ∨
    ∃ T, rTop (w.ns n).csp w.v w.fuel D name t = .ok (code, T) ∧
      (code = none → ∃ T', T = some T' ∧ (w'.ns n).text.lookup name = some (some T')) := by
  unfold escapeTemplateTop at h
  simp only [] at h
  cases htree : escapeTree ⟨(w.ns n).text, fun m => (alookup (w.ns n).set m).isSome, (w.ns n).csp, w.v⟩ w.fuel
      (w.ns n).esc {} name with
  | panic m => rw [htree] at h; cases h
  | fuel => rw [htree] at h; cases h
  | ok r =>
    obtain ⟨e1, c1, nm⟩ := r
    rw [htree] at h
    simp only [] at h
    have hpost := (analysis_m (nsEnv w.v (w.ns n)) w.fuel _ w.fuel).2.2.2.1 (Nat.le_refl _) _ _ _ _ hinv.mi hinv.ci
      ctxInv_default htree
    unfold rTop
    rcases tree_r (nsEnv w.v (w.ns n)) w.fuel _ D name hx (w.ns n).esc t hl hm hinv.mi hinv.ci _ htree with
      hex | ⟨ss, hout, happ⟩
    · left
      rw [calOf_cenv] at hex
      rw [hex]
    · right
      rw [calOf_cenv] at hout
      simp only [] at hout happ hpost
      rw [hout]
      cases hfe : finalError c1 with
      | some cd =>
        rw [hfe] at h
        simp only [Sum.inr.injEq, Prod.mk.injEq] at h
        obtain ⟨rfl, rfl⟩ := h
        exact ⟨cfTree name ss t, (by dsimp only; rw [hfe]), (by intro hc; cases hc)⟩
      | none =>
        rw [hfe] at h
        simp only [] at h
        cases hcm : commit (w.ns n).text e1 with
        | panic m => rw [hcm] at h; cases h
        | fuel => rw [hcm] at h; cases h
        | ok r2 =>
          obtain ⟨text2, e2⟩ := r2
          rw [hcm] at h
          simp only [Sum.inr.injEq, Prod.mk.injEq] at h
          obtain ⟨rfl, rfl⟩ := h
          have hnm : ¬ Memo (w.ns n).esc name := by unfold Memo; rw [hm]; exact fun x => nomatch x
          obtain ⟨z1, z2, z3⟩ := fk_nil_of_km (w.ns n).esc name hai.2.2.2.1.2.2.1 hnm
          obtain ⟨y1, y2, y3⟩ := happ
          rw [z1, List.nil_append] at y1
          rw [z2, List.nil_append] at y2
          rw [z3, List.nil_append] at y3
          obtain ⟨T, hT, hl2⟩ := commit_fk (w.ns n).text ss e1 name t text2 e2 hcm hl
            (fun p hp he => hpost.1.dd p hp (he ▸ hnd)) y1 y2 y3
          refine ⟨cfTree name ss t, (by dsimp only; rw [hfe]), fun _ => ⟨T, hT, ?_⟩⟩
          rw [markOk_ns]
          exact hl2

theorem top_r_panic (w : World) (n : Nat) (name : String) (t : Tree) (D : String → Option Tree)
    (hinv : NSInv w.v w.fuel (w.ns n))
    (hx : SimCtx (origT (w.ns n).text (w.ns n).esc) D name)
    (hl : (w.ns n).text.lookup name = some (some t)) (hm : alookup (w.ns n).esc.output name = none)
    (m : String) (h : escapeTemplateTop w n name = .inl (.panic m)) :
    rTop (w.ns n).csp w.v w.fuel D name t = .panic msgExcl ∨
    rTop (w.ns n).csp w.v w.fuel D name t = .panic m ∨ m = msgShared ∨ m = msgArgs ∨ m = msgCommit := by
  unfold escapeTemplateTop at h
  simp only [] at h
  unfold rTop
  cases htree : escapeTree ⟨(w.ns n).text, fun m => (alookup (w.ns n).set m).isSome, (w.ns n).csp, w.v⟩ w.fuel
      (w.ns n).esc {} name with
  | panic m' =>
    rw [htree] at h
    simp only [Sum.inl.injEq, Res.panic.injEq] at h
    subst h
    rcases tree_r_panic (nsEnv w.v (w.ns n)) w.fuel _ D name hx (w.ns n).esc t hl hm hinv.mi hinv.ci _ htree with
      h1 | h1 | h1
    · left; rw [calOf_cenv] at h1; rw [h1]
    · right; left; rw [calOf_cenv] at h1; rw [h1]
    · exact .inr (.inr (.inl h1))
  | fuel => rw [htree] at h; cases h
  | ok r =>
    obtain ⟨e1, c1, nm⟩ := r
    rw [htree] at h
    simp only [] at h
    right; right; right
    cases hfe : finalError c1 with
    | some cd => rw [hfe] at h; cases h
    | none =>
      rw [hfe] at h
      simp only [] at h
      cases hcm : commit (w.ns n).text e1 with
      | panic m' =>
        rw [hcm] at h
        simp only [Sum.inl.injEq, Res.panic.injEq] at h
        subst h
        unfold commit at hcm
        simp only [] at hcm
        split at hcm
        · cases hcm; exact .inr rfl
        · rcases bind_panic hcm with h1 | ⟨_, _, h2⟩
          · exact .inl (edits_panic _ _ _ _ h1)
          · cases h2
      | fuel => rw [hcm] at h; cases h
      | ok r2 => rw [hcm] at h; cases h

/-- the outcome class is the reference one -/
theorem top_r_cls (w : World) (n : Nat) (name : String) (t : Tree) (D : String → Option Tree)
    (hinv : NSInv w.v w.fuel (w.ns n)) (hai : AI (w.ns n))
    (hx : SimCtx (origT (w.ns n).text (w.ns n).esc) D name) (hnd : NoDollar name)
    (hl : (w.ns n).text.lookup name = some (some t)) (hm : alookup (w.ns n).esc.output name = none)
    (hex : rTop (w.ns n).csp w.v w.fuel D name t ≠ .panic msgExcl)
    (hnf : escapeTemplateTop w n name ≠ .inl .fuel) (hc08 : NoC08 (escapeTemplateTop w n name)) :
    cls (escapeTemplateTop w n name) = cfCls (rTop (w.ns n).csp w.v w.fuel D name t) := by
  cases hres : escapeTemplateTop w n name with
  | inr p =>
    obtain ⟨w', code⟩ := p
    rcases top_r w n name t D hinv hai hx hnd hl hm w' code hres with h1 | ⟨T, hT, _⟩
    · exact absurd h1 hex
    · rw [hT]; rfl
  | inl r =>
    rcases top_shape w n name r hres with rfl | ⟨m, rfl⟩
    · exact absurd hres hnf
    · obtain ⟨h1, h2, h3⟩ := hc08 m hres
      rcases top_r_panic w n name t D hinv hx hl hm m hres with h | h | h | h | h
      · exact absurd h hex
      · rw [h]; rfl
      · exact absurd h h1
      · exact absurd h h2
      · exact absurd h h3


end

/-! # part: ICFinal -/
section
open SafeHtml SafeHtml.Model.Tmpl SafeHtml.Proofs.Frozen SafeHtml.Proofs.ConcApi SafeHtml.Proofs.ConcReach
  SafeHtml.Proofs.ApiFrames SafeHtml.Proofs.NoPanic SafeHtml.Proofs.NoPanic2 SafeHtml.Proofs.NoPanic3 SafeHtml.Proofs.NoPanic4
  SafeHtml.Proofs.Independence

/-! ## 7. history independence of the first analysis of a template with text-context calls -/

theorem cEd_cenv (env : Env) (F : Nat) (h : String) (th : Tree) :
    cEd env F h th = cEd (cenv env.csp env.v) F h th := rfl

/-- with nothing pending, the installed tree of a tracked memoized template is the canonical committed tree -/
theorem tstate_tree (env : Env) (F : Nat) (text : TextSet) (e : Esc) (h : String) (th : Tree)
    (hts : TState env F text e h th) (ha : e.actionEdits = []) (ht : e.tmplEdits = []) (hx : e.textEdits = []) :
    ∃ T, cfTree h (cEd env F h th) th = some T ∧ text.lookup h = some (some T) := by
  rcases hts with ⟨hl, h1, h2, h3⟩ | ⟨T, hT, hl, _⟩
  · refine ⟨th, ?_, hl⟩
    rw [ha] at h1; rw [ht] at h2; rw [hx] at h3
    unfold cfTree editNames
    rw [← h1, ← h2, ← h3]
    simp [fk_nil]
  · exact ⟨T, hT, hl⟩

/-- what a successful `escapeTemplateTop` leaves behind in the analysed name space -/
theorem top_ok_fields (w w' : World) (n : Nat) (name : String) (h : escapeTemplateTop w n name = .inr (w', none)) :
    (w'.ns n).esc.actionEdits = [] ∧ (w'.ns n).esc.tmplEdits = [] ∧ (w'.ns n).esc.textEdits = [] ∧
    (w'.ns n).csp = (w.ns n).csp := by
  obtain ⟨env, e1, c, d, _, _, hr⟩ := escapeTemplateTop_spec_env w n name w' none h
  rcases hr with ⟨code, hc, _⟩ | ⟨text2, e2, _, _, hc, hns⟩
  · cases hc
  · obtain ⟨_, a, b, c', _⟩ := commit_post _ _ _ _ hc
    rw [hns]
    exact ⟨a, b, c', rfl⟩

/-- the installed tree of a tracked callee after a successful analysis -/
theorem callee_tree (w w' : World) (n : Nat) (name : String) (hinv : NSInv w.v w.fuel (w.ns n)) (hai : AI (w.ns n))
    (h : escapeTemplateTop w n name = .inr (w', none)) (x : String) (th : Tree) (hnd : NoDollar x)
    (ho : origT (w.ns n).text (w.ns n).esc x = some th) (hnc : listNoCalls th.root) (hm : Memo (w'.ns n).esc x) :
    ∃ T, cfTree x (cEd (cenv (w.ns n).csp w.v) w.fuel x th) th = some T ∧
      (w'.ns n).text.lookup x = some (some T) := by
  have hinv' := nsinv_top w w' n name none hinv hai h
  obtain ⟨hv, hf⟩ := top_v_fuel w w' n name none h
  obtain ⟨a, b, c, hcsp⟩ := top_ok_fields w w' n name h
  have ht : Trk (origT (w'.ns n).text (w'.ns n).esc) x th :=
    ⟨hnd, by rw [origT_top w w' n name none hinv hai h x hnd]; exact ho, hnc⟩
  obtain ⟨T, hT, hl⟩ := tstate_tree _ _ _ _ x th (hinv'.ts x th ht hm) a b c
  refine ⟨T, ?_, hl⟩
  rw [cEd_cenv] at hT
  simp only [] at hT
  rw [hv, hf, hcsp] at hT
  exact hT

/-- the callees `D` (name ↦ original tree): call-free templates without `$` whose original tree in name space `n` of
    `w` is the one `D` gives -/
def CalleesOK (D : String → Option Tree) (w : World) (n : Nat) : Prop :=
  ∀ h th, D h = some th → NoDollar h ∧ listNoCalls th.root ∧ origT (w.ns n).text (w.ns n).esc h = some th

theorem origT_unmemo (v : Validators) (F : Nat) (n : NS) (hinv : NSInv v F n) (name : String) (t : Tree)
    (hm : alookup n.esc.output name = none) (hl : n.text.lookup name = some (some t)) :
    origT n.text n.esc name = some t := by
  unfold origT
  cases hp : alookup n.esc.pristine name with
  | some p =>
    have := hinv.pm _ (mem_of_alookup _ _ _ hp)
    unfold Memo at this
    simp only [] at this
    rw [hm] at this
    cases this
  | none => simp only [hl]

theorem simctx_of (v : Validators) (F : Nat) (n : NS) (hinv : NSInv v F n) (name : String) (t : Tree)
    (D : String → Option Tree) (hm : alookup n.esc.output name = none) (hl : n.text.lookup name = some (some t))
    (hnc : ¬ listNoCalls t.root) (hDn : D name = none)
    (hD : ∀ h th, D h = some th → NoDollar h ∧ listNoCalls th.root ∧ origT n.text n.esc h = some th) :
    SimCtx (origT n.text n.esc) D name := by
  refine ⟨?_, hDn, fun h th hd => ⟨(hD h th hd).1, (hD h th hd).2.2, (hD h th hd).2.1⟩⟩
  intro th ht
  have h1 := ht.2.1
  rw [origT_unmemo v F n hinv name t hm hl] at h1
  cases h1
  exact hnc ht.2.2

/-- **C06, first half, for templates whose `{{template}}` calls are in the plain text context and whose callees are
    call-free** (abstract hypotheses: the invariants of reachable worlds). -/
theorem C06_textcalls_independent (w1 w2 : World) (n1 n2 : Nat) (name : String) (t : Tree) (D : String → Option Tree)
    (hinv1 : NSInv w1.v w1.fuel (w1.ns n1)) (hinv2 : NSInv w2.v w2.fuel (w2.ns n2))
    (hai1 : AI (w1.ns n1)) (hai2 : AI (w2.ns n2)) (hg1 : GoodNs (w1.ns n1)) (hg2 : GoodNs (w2.ns n2))
    (hl1 : (w1.ns n1).text.lookup name = some (some t)) (hl2 : (w2.ns n2).text.lookup name = some (some t))
    (hm1 : alookup (w1.ns n1).esc.output name = none) (hm2 : alookup (w2.ns n2).esc.output name = none)
    (hnd : NoDollar name) (hDn : D name = none) (hnc : ¬ listNoCalls t.root)
    (hD1 : CalleesOK D w1 n1) (hD2 : CalleesOK D w2 n2)
    (hcallees : listCallsIn (fun h => (D h).isSome = true) t.root)
    (hf : w1.fuel = w2.fuel) (hv : w1.v = w2.v) (hcsp : (w1.ns n1).csp = (w2.ns n2).csp)
    (hex : rTop (w1.ns n1).csp w1.v w1.fuel D name t ≠ .panic msgExcl)
    (hnf1 : escapeTemplateTop w1 n1 name ≠ .inl .fuel) (hnf2 : escapeTemplateTop w2 n2 name ≠ .inl .fuel)
    (hx1 : NoC08 (escapeTemplateTop w1 n1 name)) (hx2 : NoC08 (escapeTemplateTop w2 n2 name)) :
    cls (escapeTemplateTop w1 n1 name) = cls (escapeTemplateTop w2 n2 name) ∧
    ∀ w1' w2', escapeTemplateTop w1 n1 name = .inr (w1', none) → escapeTemplateTop w2 n2 name = .inr (w2', none) →
      ∀ (o1 o2 : TObj) (d : Value), o1.ns = n1 → o1.name = name → o2.ns = n2 → o2.name = name →
        o1.registered = o2.registered → textExecute w1' o1 d = textExecute w2' o2 d := by
  have hs1 := simctx_of _ _ _ hinv1 name t D hm1 hl1 hnc hDn hD1
  have hs2 := simctx_of _ _ _ hinv2 name t D hm2 hl2 hnc hDn hD2
  have hex2 : rTop (w2.ns n2).csp w2.v w2.fuel D name t ≠ .panic msgExcl := by rw [← hcsp, ← hv, ← hf]; exact hex
  refine ⟨?_, ?_⟩
  · rw [top_r_cls w1 n1 name t D hinv1 hai1 hs1 hnd hl1 hm1 hex hnf1 hx1,
      top_r_cls w2 n2 name t D hinv2 hai2 hs2 hnd hl2 hm2 hex2 hnf2 hx2, hf, hv, hcsp]
  · intro w1' w2' h1 h2 o1 o2 d ho1 hn1 ho2 hn2 hreg
    rcases top_r w1 n1 name t D hinv1 hai1 hs1 hnd hl1 hm1 w1' none h1 with he | ⟨T1, hT1, hk1⟩
    · exact absurd he hex
    rcases top_r w2 n2 name t D hinv2 hai2 hs2 hnd hl2 hm2 w2' none h2 with he | ⟨T2, hT2, hk2⟩
    · exact absurd he hex2
    rw [hf, hv, hcsp, hT2] at hT1
    simp only [Out.ok.injEq, Prod.mk.injEq, true_and] at hT1
    subst hT1
    obtain ⟨T', hT', hlk1⟩ := hk1 rfl
    obtain ⟨T'', hT'', hlk2⟩ := hk2 rfl
    rw [hT'] at hT''
    cases hT''
    -- the committed tree calls only callees in `D`
    have hcT : listCallsIn (fun h => (D h).isSome = true) T'.root := by
      unfold rTop at hT2
      split at hT2
      · cases hT2
      · cases hT2
      · rename_i cc ss hro
        simp only [Out.ok.injEq, Prod.mk.injEq] at hT2
        exact cfTree_calls _ name ss t T' (rOut_tmplEdits _ _ _ _ _ _ cc ss hro) hcallees (hT2.2.trans hT')
    -- and, in both worlds, only memoized names
    have hst1 := settled_after_own_analysis w1 w1' n1 hg1 { ns := n1, name := name } rfl h1
    have hst2 := settled_after_own_analysis w2 w2' n2 hg2 { ns := n2, name := name } rfl h2
    have hc1 : listCallsIn (MemoOk (w1'.ns n1).esc) T'.root := hst1.2.1 name hst1.2.2 T' hlk1
    have hc2 : listCallsIn (MemoOk (w2'.ns n2).esc) T'.root := hst2.2.1 name hst2.2.2 T' hlk2
    have hcC := listCallsIn_and _ _ _ (listCallsIn_and _ _ _ hcT hc1) hc2
    obtain ⟨_, hf1⟩ := top_v_fuel w1 w1' n1 name none h1
    obtain ⟨_, hf2⟩ := top_v_fuel w2 w2' n2 name none h2
    subst ho1 ho2
    refine exec_calls w1' w2' o1 o2 d _ T' hreg (by rw [hf1, hf2, hf]) (by rw [hn1]; exact hlk1)
      (by rw [hn2]; exact hlk2) hcC ?_
    intro h hC
    obtain ⟨⟨hd, hmm1⟩, hmm2⟩ := hC
    cases hDh : D h with
    | none => rw [hDh] at hd; cases hd
    | some th =>
      obtain ⟨a1, b1, c1⟩ := hD1 h th hDh
      obtain ⟨_, _, c2⟩ := hD2 h th hDh
      obtain ⟨Th1, hTh1, hlh1⟩ := callee_tree w1 w1' o1.ns name hinv1 hai1 h1 h th a1 c1 b1 hmm1.memo
      obtain ⟨Th2, hTh2, hlh2⟩ := callee_tree w2 w2' o2.ns name hinv2 hai2 h2 h th a1 c2 b1 hmm2.memo
      rw [hcsp, hv, hf, hTh2] at hTh1
      have hTT : Th2 = Th1 := by injection hTh1
      subst hTT
      exact ⟨Th2, hlh1, hlh2, nocalls_callsIn _ _ (cfTree_nc h _ th Th2 b1 hTh2)⟩

/-- **C06, first half, Level 1, reachable worlds.** `w1`, `w2`: any two worlds built by well-formed operations
    (`ReachableC`: parsed trees parser-shaped, `CSPCompatible()` only before the first execution). `name` has the same
    installed tree `t` in name space `n1` of `w1` and `n2` of `w2` and has been analysed in neither; every
    `{{template}}` node of `t` calls a name in `D`; every callee in `D` has no `$` in its name and the same call-free
    ORIGINAL tree in both worlds (`origT`: the tree before any commit rewrote it) — whether or not it has already
    been analysed (memo hit) in either world; the reference analysis `rTop` of `t` does not report `msgExcl`, i.e. all
    calls happen in the plain text context `{}`; neither analysis runs out of model fuel. Then `escapeTemplate`
    reports the same outcome class in both worlds, and after a success `name` executes identically on every input. -/
theorem C06_textcalls_reachable (w1 w2 : World) (hr1 : ReachableC w1) (hr2 : ReachableC w2) (n1 n2 : Nat)
    (name : String) (t : Tree) (D : String → Option Tree)
    (hl1 : (w1.ns n1).text.lookup name = some (some t)) (hl2 : (w2.ns n2).text.lookup name = some (some t))
    (hm1 : alookup (w1.ns n1).esc.output name = none) (hm2 : alookup (w2.ns n2).esc.output name = none)
    (hnd : NoDollar name) (hDn : D name = none)
    (hD1 : CalleesOK D w1 n1) (hD2 : CalleesOK D w2 n2)
    (hcallees : listCallsIn (fun h => (D h).isSome = true) t.root)
    (hf : w1.fuel = w2.fuel) (hv : w1.v = w2.v) (hcsp : (w1.ns n1).csp = (w2.ns n2).csp)
    (hex : rTop (w1.ns n1).csp w1.v w1.fuel D name t ≠ .panic msgExcl)
    (hnf1 : escapeTemplateTop w1 n1 name ≠ .inl .fuel) (hnf2 : escapeTemplateTop w2 n2 name ≠ .inl .fuel) :
    cls (escapeTemplateTop w1 n1 name) = cls (escapeTemplateTop w2 n2 name) ∧
    ∀ w1' w2', escapeTemplateTop w1 n1 name = .inr (w1', none) → escapeTemplateTop w2 n2 name = .inr (w2', none) →
      ∀ (o1 o2 : TObj) (d : Value), o1.ns = n1 → o1.name = name → o2.ns = n2 → o2.name = name →
        o1.registered = o2.registered → textExecute w1' o1 d = textExecute w2' o2 d := by
  by_cases hnc : listNoCalls t.root
  · exact C06_callfree_reachable w1 w2 hr1.reachableP hr2.reachableP n1 n2 name t hl1 hl2 hnc hm1 hm2 hf hv hcsp
  · exact C06_textcalls_independent w1 w2 n1 n2 name t D (nsinv_reachable w1 hr1 n1) (nsinv_reachable w2 hr2 n2)
      (winv_reachable w1 hr1.reachableP n1).2 (winv_reachable w2 hr2.reachableP n2).2
      ((invR_reachable w1 hr1.reachableP.reachable0.reachable).1.1 n1)
      ((invR_reachable w2 hr2.reachableP.reachable0.reachable).1.1 n2)
      hl1 hl2 hm1 hm2 hnd hDn hnc hD1 hD2 hcallees hf hv hcsp hex hnf1 hnf2
      (noC08_reachable w1 hr1.reachableP n1 name) (noC08_reachable w2 hr2.reachableP n2 name)


end

/-! # part: ICStep -/
section
open SafeHtml SafeHtml.Model.Tmpl SafeHtml.Proofs.Frozen SafeHtml.Proofs.ConcApi SafeHtml.Proofs.ConcReach
  SafeHtml.Proofs.ApiFrames SafeHtml.Proofs.NoPanic SafeHtml.Proofs.NoPanic2 SafeHtml.Proofs.NoPanic3 SafeHtml.Proofs.NoPanic4
  SafeHtml.Proofs.Independence

/-! ## 8. history independence at the level of `Api.step` (`ExecuteTemplate`) -/

/-- handle `h` denotes an object of name space `n`, in which `name` is a registered template object that has not been
    executed -/
structure ExecReady (w : World) (h : Nat) (n : Nat) (name : String) : Prop where
  obj : ∃ id o, w.obj h = some (id, o) ∧ o.ns = n
  tmpl : ∃ tid t, alookup (w.ns n).set name = some tid ∧ nlookup w.objs tid = some t ∧ t.status = .unset ∧
    t.registered = true ∧ t.ns = n ∧ t.name = name

/-- the world in which `ExecuteTemplate` runs the analysis: the `escaped` flag of the name space is set -/
def ics_wE (w : World) (n : Nat) : World := w.setNs n { w.ns n with escaped := true }

theorem ics_ns (w : World) (n : Nat) : (ics_wE w n).ns n = { w.ns n with escaped := true } :=
  ns_setNs_same _ _ _

theorem ics_noC08 (w : World) (hw : WInv w) (n : Nat) (name : String) : NoC08 (escapeTemplateTop w n name) := by
  intro m hm
  rcases C08_analysis_total_inv w hw n name with ⟨_, _, h⟩ | h | h | h
  · rw [h] at hm; cases hm
  · rw [h] at hm; cases hm
  · rw [h] at hm; cases hm; decide
  · rw [h] at hm; cases hm; decide

/-- `C06_textcalls_reachable` for the two flag-set worlds -/
theorem ics_top (w1 w2 : World) (hr1 : ReachableC w1) (hr2 : ReachableC w2) (n1 n2 : Nat)
    (name : String) (t : Tree) (D : String → Option Tree)
    (hl1 : (w1.ns n1).text.lookup name = some (some t)) (hl2 : (w2.ns n2).text.lookup name = some (some t))
    (hm1 : alookup (w1.ns n1).esc.output name = none) (hm2 : alookup (w2.ns n2).esc.output name = none)
    (hnd : NoDollar name) (hDn : D name = none)
    (hD1 : CalleesOK D w1 n1) (hD2 : CalleesOK D w2 n2)
    (hcallees : listCallsIn (fun h => (D h).isSome = true) t.root)
    (hf : w1.fuel = w2.fuel) (hv : w1.v = w2.v) (hcsp : (w1.ns n1).csp = (w2.ns n2).csp)
    (hex : rTop (w1.ns n1).csp w1.v w1.fuel D name t ≠ .panic msgExcl)
    (hnf1 : escapeTemplateTop (ics_wE w1 n1) n1 name ≠ .inl .fuel)
    (hnf2 : escapeTemplateTop (ics_wE w2 n2) n2 name ≠ .inl .fuel) :
    cls (escapeTemplateTop (ics_wE w1 n1) n1 name) = cls (escapeTemplateTop (ics_wE w2 n2) n2 name) ∧
    ∀ w1' w2', escapeTemplateTop (ics_wE w1 n1) n1 name = .inr (w1', none) →
      escapeTemplateTop (ics_wE w2 n2) n2 name = .inr (w2', none) →
      ∀ (o1 o2 : TObj) (d : Value), o1.ns = n1 → o1.name = name → o2.ns = n2 → o2.name = name →
        o1.registered = o2.registered → textExecute w1' o1 d = textExecute w2' o2 d := by
  have hw1 : WInv (ics_wE w1 n1) := winv_setEscaped w1 n1 (winv_reachable w1 hr1.reachableP)
  have hw2 : WInv (ics_wE w2 n2) := winv_setEscaped w2 n2 (winv_reachable w2 hr2.reachableP)
  have hn1 := ics_ns w1 n1
  have hn2 := ics_ns w2 n2
  have hx1 : NoC08 (escapeTemplateTop (ics_wE w1 n1) n1 name) := ics_noC08 _ hw1 n1 name
  have hx2 : NoC08 (escapeTemplateTop (ics_wE w2 n2) n2 name) := ics_noC08 _ hw2 n2 name
  have hg1 : GoodNs ((ics_wE w1 n1).ns n1) := by
    rw [hn1]; exact (invR_reachable w1 hr1.reachableP.reachable0.reachable).1.1 n1
  have hg2 : GoodNs ((ics_wE w2 n2).ns n2) := by
    rw [hn2]; exact (invR_reachable w2 hr2.reachableP.reachable0.reachable).1.1 n2
  have hl1' : ((ics_wE w1 n1).ns n1).text.lookup name = some (some t) := by rw [hn1]; exact hl1
  have hl2' : ((ics_wE w2 n2).ns n2).text.lookup name = some (some t) := by rw [hn2]; exact hl2
  have hm1' : alookup ((ics_wE w1 n1).ns n1).esc.output name = none := by rw [hn1]; exact hm1
  have hm2' : alookup ((ics_wE w2 n2).ns n2).esc.output name = none := by rw [hn2]; exact hm2
  have hcsp' : ((ics_wE w1 n1).ns n1).csp = ((ics_wE w2 n2).ns n2).csp := by rw [hn1, hn2]; exact hcsp
  by_cases hnc : listNoCalls t.root
  · exact C06_callfree_independent (ics_wE w1 n1) (ics_wE w2 n2) n1 n2 name t hl1' hl2' hnc
      (quiet_of _ name hm1' ((hw1 n1).2.2.2.2.1.2.2.1) hg1.2.1)
      (quiet_of _ name hm2' ((hw2 n2).2.2.2.2.1.2.2.1) hg2.2.1) hf hv hcsp' hx1 hx2
  · have hinv1 : NSInv (ics_wE w1 n1).v (ics_wE w1 n1).fuel ((ics_wE w1 n1).ns n1) :=
      nsinv_congr w1.v w1.fuel (w1.ns n1) _ (by rw [hn1]) (by rw [hn1]) (by rw [hn1]) (nsinv_reachable w1 hr1 n1)
    have hinv2 : NSInv (ics_wE w2 n2).v (ics_wE w2 n2).fuel ((ics_wE w2 n2).ns n2) :=
      nsinv_congr w2.v w2.fuel (w2.ns n2) _ (by rw [hn2]) (by rw [hn2]) (by rw [hn2]) (nsinv_reachable w2 hr2 n2)
    have hD1' : CalleesOK D (ics_wE w1 n1) n1 := by unfold CalleesOK; rw [hn1]; exact hD1
    have hD2' : CalleesOK D (ics_wE w2 n2) n2 := by unfold CalleesOK; rw [hn2]; exact hD2
    have hex' : rTop ((ics_wE w1 n1).ns n1).csp (ics_wE w1 n1).v (ics_wE w1 n1).fuel D name t ≠ .panic msgExcl := by
      rw [hn1]; exact hex
    exact C06_textcalls_independent (ics_wE w1 n1) (ics_wE w2 n2) n1 n2 name t D hinv1 hinv2 (hw1 n1).2 (hw2 n2).2
      hg1 hg2 hl1' hl2' hm1' hm2' hnd hDn hnc hD1' hD2' hcallees hf hv hcsp' hex' hnf1 hnf2 hx1 hx2

/-- what `ExecuteTemplate` returns for a registered, not yet executed template with a tree -/
theorem ics_step (w : World) (h n : Nat) (name : String) (t : Tree) (d : Value) (he : ExecReady w h n name)
    (hl : (w.ns n).text.lookup name = some (some t)) :
    ∃ tid t0, alookup (w.ns n).set name = some tid ∧ nlookup w.objs tid = some t0 ∧ t0.registered = true ∧
      t0.ns = n ∧ t0.name = name ∧
      (Api.step w (.execT h name d)).2 = .exec (match escapeTemplateTop (ics_wE w n) n name with
        | .inl r => r
        | .inr (_, some code) => .err (analysisCls code) []
        | .inr (w', none) =>
          match nlookup w'.objs tid with
          | some t' => textExecute w' t' d
          | none => .unsupported) := by
  obtain ⟨⟨id, o, ho, hon⟩, tid, t0, hs, ht0, hst, hreg, htn, htname⟩ := he
  refine ⟨tid, t0, hs, ht0, hreg, htn, htname, ?_⟩
  subst hon
  have hobjs : nlookup (w.setNs o.ns { w.ns o.ns with escaped := true }).objs tid = some t0 := ht0
  simp only [Api.step, apiExecuteTemplate, ho, hs, hobjs, hst, hreg, hl, ics_wE]
  simp only [if_true, Bool.false_eq_true, if_false, Option.isNone_some, beq_self_eq_true]
  congr 1
  generalize escapeTemplateTop _ _ _ = x
  rcases x with r | ⟨w', _ | code⟩
  · rfl
  · dsimp only
    cases nlookup w'.objs tid <;> rfl
  · rfl

/-- a successful analysis ends in `markOk` -/
theorem ics_top_markOk (w w' : World) (n : Nat) (name : String) (h : escapeTemplateTop w n name = .inr (w', none)) :
    ∃ text e, w' = markOk w n name text e := by
  unfold escapeTemplateTop at h
  simp only [] at h
  split at h
  · cases h
  · cases h
  · split at h
    · cases h
    · split at h
      · cases h
      · cases h
      · cases h; exact ⟨_, _, rfl⟩

/-- `markOk` keeps every object in place, with its name space, name and `registered` flag -/
theorem ics_markOk_obj (w : World) (n : Nat) (name : String) (text : TextSet) (e : Esc) (tid : Nat) (t0 : TObj)
    (h0 : nlookup w.objs tid = some t0) :
    ∃ t', nlookup (markOk w n name text e).objs tid = some t' ∧ t'.ns = t0.ns ∧ t'.name = t0.name ∧
      t'.registered = t0.registered := by
  obtain ⟨o', ho', _, _⟩ := markOk_objs_fwd w n name text e tid t0 h0
  rcases markOk_objs w n name text e tid o' ho' with h1 | ⟨o, _, h2, hs⟩
  · rw [h0] at h1; cases h1; exact ⟨_, ho', rfl, rfl, rfl⟩
  · rw [h0] at h2; cases h2; exact ⟨o', ho', hs.1, hs.2.1, hs.2.2⟩

/-- **C06, first half, at the level of `Api.step`.** `w1`, `w2`: any two reachable worlds; `ExecuteTemplate(name)` is
    called through a handle of name space `n1` of `w1` / `n2` of `w2`, where `name` is a registered, not yet executed
    template object with the same installed tree `t`, analysed in neither world; the hypotheses on the callees are
    those of `C06_textcalls_reachable`. If neither call runs out of model fuel, both calls return the same result:
    the same bytes, the same error class, or the same panic. -/
theorem C06_textcalls_step (w1 w2 : World) (hr1 : ReachableC w1) (hr2 : ReachableC w2) (h1 h2 n1 n2 : Nat)
    (name : String) (t : Tree) (D : String → Option Tree) (d : Value)
    (he1 : ExecReady w1 h1 n1 name) (he2 : ExecReady w2 h2 n2 name)
    (hl1 : (w1.ns n1).text.lookup name = some (some t)) (hl2 : (w2.ns n2).text.lookup name = some (some t))
    (hm1 : alookup (w1.ns n1).esc.output name = none) (hm2 : alookup (w2.ns n2).esc.output name = none)
    (hnd : NoDollar name) (hDn : D name = none)
    (hD1 : CalleesOK D w1 n1) (hD2 : CalleesOK D w2 n2)
    (hcallees : listCallsIn (fun h => (D h).isSome = true) t.root)
    (hf : w1.fuel = w2.fuel) (hv : w1.v = w2.v) (hcsp : (w1.ns n1).csp = (w2.ns n2).csp)
    (hex : rTop (w1.ns n1).csp w1.v w1.fuel D name t ≠ .panic msgExcl)
    (hnf1 : (Api.step w1 (.execT h1 name d)).2 ≠ .exec .fuel) (hnf2 : (Api.step w2 (.execT h2 name d)).2 ≠ .exec .fuel) :
    (Api.step w1 (.execT h1 name d)).2 = (Api.step w2 (.execT h2 name d)).2 := by
  obtain ⟨tid1, t1, _, ht1, hreg1, htn1, htnm1, hstep1⟩ := ics_step w1 h1 n1 name t d he1 hl1
  obtain ⟨tid2, t2, _, ht2, hreg2, htn2, htnm2, hstep2⟩ := ics_step w2 h2 n2 name t d he2 hl2
  have hnfa1 : escapeTemplateTop (ics_wE w1 n1) n1 name ≠ .inl .fuel := by
    intro hc; rw [hc] at hstep1; exact hnf1 hstep1
  have hnfa2 : escapeTemplateTop (ics_wE w2 n2) n2 name ≠ .inl .fuel := by
    intro hc; rw [hc] at hstep2; exact hnf2 hstep2
  obtain ⟨hcls, hexec⟩ := ics_top w1 w2 hr1 hr2 n1 n2 name t D hl1 hl2 hm1 hm2 hnd hDn hD1 hD2 hcallees hf hv hcsp hex
    hnfa1 hnfa2
  cases hres1 : escapeTemplateTop (ics_wE w1 n1) n1 name with
  | inl r1 =>
    cases hres2 : escapeTemplateTop (ics_wE w2 n2) n2 name with
    | inl r2 =>
      rw [hres1, hres2] at hcls
      rw [hres1] at hstep1
      rw [hres2] at hstep2
      have : r1 = r2 := by injection hcls
      rw [hstep1, hstep2, this]
    | inr p2 =>
      rw [hres1, hres2] at hcls
      cases hcls
  | inr p1 =>
    obtain ⟨w1', c1⟩ := p1
    cases hres2 : escapeTemplateTop (ics_wE w2 n2) n2 name with
    | inl r2 =>
      rw [hres1, hres2] at hcls
      cases hcls
    | inr p2 =>
      obtain ⟨w2', c2⟩ := p2
      rw [hres1, hres2] at hcls
      have hc : c1 = c2 := by injection hcls
      subst hc
      rw [hres1] at hstep1
      rw [hres2] at hstep2
      cases c1 with
      | some code => rw [hstep1, hstep2]
      | none =>
        obtain ⟨tx1, e1, hw1⟩ := ics_top_markOk _ _ _ _ hres1
        obtain ⟨tx2, e2, hw2⟩ := ics_top_markOk _ _ _ _ hres2
        obtain ⟨t1', hk1, ha1, hb1, hc1⟩ := ics_markOk_obj (ics_wE w1 n1) n1 name tx1 e1 tid1 t1 ht1
        obtain ⟨t2', hk2, ha2, hb2, hc2⟩ := ics_markOk_obj (ics_wE w2 n2) n2 name tx2 e2 tid2 t2 ht2
        rw [← hw1] at hk1
        rw [← hw2] at hk2
        simp only [hk1] at hstep1
        simp only [hk2] at hstep2
        rw [hstep1, hstep2, hexec w1' w2' hres1 hres2 t1' t2' d (ha1.trans htn1) (hb1.trans htnm1) (ha2.trans htn2)
          (hb2.trans htnm2) (by rw [hc1, hc2, hreg1, hreg2])]

end

/-! # part: ICExampleF -/
section
open SafeHtml SafeHtml.Model.Tmpl SafeHtml.Proofs.Frozen SafeHtml.Proofs.ConcApi SafeHtml.Proofs.ConcReach
  SafeHtml.Proofs.ApiFrames SafeHtml.Proofs.NoPanic SafeHtml.Proofs.NoPanic2 SafeHtml.Proofs.NoPanic3 SafeHtml.Proofs.NoPanic4
  SafeHtml.Proofs.Independence
namespace Ex

def dotPipe : Pipe := { cmds := [{ args := [.dot] }] }

def rootTree : Tree := { name := "root", root := .cons (.text 0 (B "root")) .nil }
def cellTree : Tree := { name := "cell", root := .cons (.action 0 dotPipe) .nil }
def pageTree : Tree :=
  { name := "page", root := .cons (.text 0 (B "Hello ")) (.cons (.tmpl 1 "cell" (some dotPipe))
      (.cons (.text 2 (B "!")) .nil)) }

def defs : List Tree := [rootTree, cellTree, pageTree]

def wInit : World := { v := liteValidators, fuel := 60 }

def w2 : World := Api.run wInit [ .new 0 "root", .parse 0 defs ]

def w1 : World := (Api.step w2 (.execT 0 "cell" (.str (B "x")))).1

def D : String → Option Tree := fun h => if h = "cell" then some cellTree else none

theorem defs_ok : DefsOK defs := by
  intro tr htr
  simp only [defs, List.mem_cons, List.not_mem_nil, or_false] at htr
  rcases htr with rfl | rfl | rfl
  · refine ⟨?_, ?_⟩
    · simp only [rootTree, listWF, nodeWF, and_self]
    · unfold IdsDistinct; decide
  · refine ⟨?_, ?_⟩
    · simp only [cellTree, listWF, nodeWF, and_true]
      intro c hc
      simp only [dotPipe, List.mem_cons, List.not_mem_nil, or_false] at hc
      subst hc
      simp
    · unfold IdsDistinct; decide
  · refine ⟨?_, ?_⟩
    · simp only [pageTree, listWF, nodeWF, and_self]
    · unfold IdsDistinct; decide

theorem wInit_reachable : ReachableC wInit := ReachableC.init wInit ⟨rfl, rfl⟩ rfl

theorem w2_reachable : ReachableC w2 := by
  have h1 := ReachableC.step wInit (.new 0 "root") wInit_reachable trivial trivial
  exact ReachableC.step _ (.parse 0 defs) h1 defs_ok trivial

theorem w1_reachable : ReachableC w1 :=
  ReachableC.step w2 (.execT 0 "cell" (.str (B "x"))) w2_reachable trivial trivial

theorem cell_memoized_in_w1 : (alookup (w1.ns 0).esc.output "cell").isSome = true := by decide +kernel
theorem cell_not_memoized_in_w2 : alookup (w2.ns 0).esc.output "cell" = none := by decide +kernel

/-! ### the hypotheses of `C06_textcalls_reachable`

`Tree` has no `DecidableEq` instance in the model; it is derived here so that statements about installed trees are
decided in the kernel. -/

deriving instance DecidableEq for Node, NodeList
deriving instance DecidableEq for Tree

/-- `page` is installed, unchanged, in both worlds -/
theorem hl1 : (w1.ns 0).text.lookup "page" = some (some pageTree) := by decide +kernel
theorem hl2 : (w2.ns 0).text.lookup "page" = some (some pageTree) := by decide +kernel

/-- `page` has been analysed in neither -/
theorem hm1 : alookup (w1.ns 0).esc.output "page" = none := by decide +kernel
theorem hm2 : alookup (w2.ns 0).esc.output "page" = none := by decide +kernel

/-- in `w1` the installed tree of `cell` is the REWRITTEN one (the commit inserted the sanitizer into `{{.}}`) … -/
theorem cell_rewritten_in_w1 : (w1.ns 0).text.lookup "cell" ≠ some (some cellTree) := by decide +kernel
/-- … the pristine snapshot taken by the commit is the parsed tree -/
theorem cell_pristine_in_w1 : alookup (w1.ns 0).esc.pristine "cell" = some cellTree := by decide +kernel

/-- the ORIGINAL tree of the callee is the parsed tree in both worlds -/
theorem orig1 : origT (w1.ns 0).text (w1.ns 0).esc "cell" = some cellTree := by decide +kernel
theorem orig2 : origT (w2.ns 0).text (w2.ns 0).esc "cell" = some cellTree := by decide +kernel

theorem calleesOK (w : World) (h : origT (w.ns 0).text (w.ns 0).esc "cell" = some cellTree) : CalleesOK D w 0 := by
  intro h th hD
  unfold D at hD
  split at hD
  · rename_i hh
    subst hh
    cases hD
    refine ⟨by decide, ?_, h⟩
    simp only [cellTree, listNoCalls, nodeNoCalls, and_self]
  · cases hD

theorem hD1 : CalleesOK D w1 0 := calleesOK w1 orig1
theorem hD2 : CalleesOK D w2 0 := calleesOK w2 orig2

theorem hcallees : listCallsIn (fun h => (D h).isSome = true) pageTree.root := by
  simp only [pageTree, listCallsIn, nodeCallsIn, true_and, and_true]
  decide

theorem hf : w1.fuel = w2.fuel := by
  unfold w1
  exact (step_v_fuel w2 (.execT 0 "cell" (.str (B "x")))).2

theorem hv : w1.v = w2.v := by
  unfold w1
  exact (step_v_fuel w2 (.execT 0 "cell" (.str (B "x")))).1

theorem hcsp : (w1.ns 0).csp = (w2.ns 0).csp := by decide +kernel

def outIsOk {α} : Out α → Bool
  | .ok _ => true
  | _ => false

/-- the reference analysis of `page` succeeds … -/
theorem rTop_ok : outIsOk (rTop (w1.ns 0).csp w1.v w1.fuel D "page" pageTree) = true := by decide +kernel

/-- … in particular it does not report a call outside the text context -/
theorem hex : rTop (w1.ns 0).csp w1.v w1.fuel D "page" pageTree ≠ .panic msgExcl := by
  intro h
  have := rTop_ok
  rw [h] at this
  cases this

def isOk : Res ⊕ (World × Option ErrCode) → Bool
  | .inr (_, none) => true
  | _ => false

/-- both analyses of `page` SUCCEED (so the second half of the conclusion is not vacuous either) -/
theorem top1_ok : isOk (escapeTemplateTop w1 0 "page") = true := by decide +kernel
theorem top2_ok : isOk (escapeTemplateTop w2 0 "page") = true := by decide +kernel

theorem hnf1 : escapeTemplateTop w1 0 "page" ≠ .inl .fuel := by
  intro h; have := top1_ok; rw [h] at this; cases this
theorem hnf2 : escapeTemplateTop w2 0 "page" ≠ .inl .fuel := by
  intro h; have := top2_ok; rw [h] at this; cases this

/-- all hypotheses of `C06_textcalls_reachable` hold for `page` in `w1` (callee memoized) and `w2` (callee not
    memoized) -/
theorem page_independent :
    cls (escapeTemplateTop w1 0 "page") = cls (escapeTemplateTop w2 0 "page") ∧
    ∀ w1' w2', escapeTemplateTop w1 0 "page" = .inr (w1', none) → escapeTemplateTop w2 0 "page" = .inr (w2', none) →
      ∀ (o1 o2 : TObj) (d : Value), o1.ns = 0 → o1.name = "page" → o2.ns = 0 → o2.name = "page" →
        o1.registered = o2.registered → textExecute w1' o1 d = textExecute w2' o2 d :=
  C06_textcalls_reachable w1 w2 w1_reachable w2_reachable 0 0 "page" pageTree D hl1 hl2 hm1 hm2 (by decide) rfl
    hD1 hD2 hcallees hf hv hcsp hex hnf1 hnf2

/-- the successful analyses exist: the conclusion applies to actual result worlds -/
theorem page_analysed_in_both : ∃ w1' w2', escapeTemplateTop w1 0 "page" = .inr (w1', none) ∧
    escapeTemplateTop w2 0 "page" = .inr (w2', none) := by
  have h1 := top1_ok
  have h2 := top2_ok
  unfold isOk at h1 h2
  split at h1
  · rename_i w1' e1
    split at h2
    · rename_i w2' e2
      exact ⟨w1', w2', e1, e2⟩
    · cases h2
  · cases h1

/-- a concrete execution after the two analyses: `Hello &lt;b&gt;!` in both -/
theorem page_output_same : (Api.step w1 (.execT 0 "page" (.str (B "<b>")))).2.str =
    (Api.step w2 (.execT 0 "page" (.str (B "<b>")))).2.str ∧
    (Api.step w2 (.execT 0 "page" (.str (B "<b>")))).2.str = "ok 48656c6c6f20266c743b622667743b21" := by
  decide +kernel

end Ex
end

/-! # part: ICCex -/
section
open SafeHtml SafeHtml.Model.Tmpl SafeHtml.Proofs.Frozen SafeHtml.Proofs.Independence

/-! # Kernel-checked counterexamples: the analysis of a helper is NOT independent of the history

## 1. memo-ignores-attr-prefix

The memo key of an analysed helper (`mangle c name`) leaves out the static prefix of the attribute value.

* `cell` = `{{.}}`
* `A`    = `<a href="{{template "cell" .}}">x</a>`            (helper at the START of a URL attribute value)
* `B`    = `<a href="/search?q={{template "cell" .}}">x</a>`  (helper inside the query part)

Both calls are redirected to `cell$htmltemplate_StateAttr_DelimDoubleQuote_attrHref_elementA`; whichever of `A`, `B`
is executed first decides the sanitizer chain of `{{.}}` in that copy — for BOTH callers.

## 2. mangled-name-collision

A user template literally named `cell$htmltemplate_StateText_elementP` is taken for the derived copy of `cell`
in `<p>…</p>`: `P` = `<p>{{template "cell" .}}</p>` outputs the body of that template, not `cell`'s. -/
namespace Cex

def dotPipe : Pipe := { cmds := [{ args := [.dot] }] }

/-! ### 1. memo-ignores-attr-prefix -/

def defs : List Tree :=
  [ { name := "root", root := .cons (.text 0 (B "root")) .nil },
    { name := "cell", root := .cons (.action 0 dotPipe) .nil },
    { name := "A", root := .cons (.text 0 (B "<a href=\"")) (.cons (.tmpl 1 "cell" (some dotPipe))
        (.cons (.text 2 (B "\">x</a>")) .nil)) },
    { name := "B", root := .cons (.text 0 (B "<a href=\"/search?q=")) (.cons (.tmpl 1 "cell" (some dotPipe))
        (.cons (.text 2 (B "\">x</a>")) .nil)) } ]

/-- freshly parsed, nothing executed -/
def w0 : World := Api.run { v := liteValidators, fuel := 60 } [ .new 0 "root", .parse 0 defs ]

/-- a harmless value for the first execution -/
def d0 : Value := .str (B "x")

/-- history 1: `A` was executed first -/
def w1 : World := (Api.step w0 (.execT 0 "A" d0)).1

/-- history 2: `B` was executed first -/
def w2 : World := (Api.step w0 (.execT 0 "B" d0)).1

/-- the value on which the two chains differ -/
def d : Value := .str (B "javascript:alert(1)")

/-- the first execution of `A` succeeds: `<a href="x">x</a>` -/
theorem A_first_ok : (Api.step w0 (.execT 0 "A" d0)).2.str = "ok 3c6120687265663d2278223e783c2f613e" := by
  decide +kernel

/-- the first execution of `B` succeeds: `<a href="/search?q=x">x</a>` -/
theorem B_first_ok :
    (Api.step w0 (.execT 0 "B" d0)).2.str = "ok 3c6120687265663d222f7365617263683f713d78223e783c2f613e" := by
  decide +kernel

/-- both histories install the SAME derived name -/
theorem same_mangled_name :
    ((w1.ns 0).text.map (·.1)) =
      ["root", "cell", "A", "B", "cell$htmltemplate_StateAttr_DelimDoubleQuote_attrHref_elementA"] ∧
    ((w2.ns 0).text.map (·.1)) =
      ["root", "cell", "A", "B", "cell$htmltemplate_StateAttr_DelimDoubleQuote_attrHref_elementA"] := by
  decide +kernel

/-- `B` on a fresh set: the value is query-escaped,
    `<a href="/search?q=javascript%3aalert%281%29">x</a>` -/
theorem B_fresh : (Api.step w0 (.execT 0 "B" d)).2.str =
    "ok 3c6120687265663d222f7365617263683f713d6a617661736372697074253361616c65727425323831253239223e783c2f613e" := by
  decide +kernel

/-- `B` after `A`: the value goes through the URL validator of the attribute START,
    `<a href="/search?q=about:invalid#zGoSafez">x</a>` -/
theorem B_after_A : (Api.step w1 (.execT 0 "B" d)).2.str =
    "ok 3c6120687265663d222f7365617263683f713d61626f75743a696e76616c6964237a476f536166657a223e783c2f613e" := by
  decide +kernel

/-- the output of `B` depends on whether `A` was executed before -/
theorem memo_prefix_dependence :
    (Api.step w0 (.execT 0 "B" d)).2.str ≠ (Api.step w1 (.execT 0 "B" d)).2.str := by
  rw [B_fresh, B_after_A]; decide

/-- `A` on a fresh set: the value is validated as a URL, `<a href="about:invalid#zGoSafez">x</a>` -/
theorem A_fresh : (Api.step w0 (.execT 0 "A" d)).2.str =
    "ok 3c6120687265663d2261626f75743a696e76616c6964237a476f536166657a223e783c2f613e" := by
  decide +kernel

/-- `A` after `B`: the URL validator at the attribute start is GONE, the value is only query-escaped,
    `<a href="javascript%3aalert%281%29">x</a>` -/
theorem A_after_B : (Api.step w2 (.execT 0 "A" d)).2.str =
    "ok 3c6120687265663d226a617661736372697074253361616c65727425323831253239223e783c2f613e" := by
  decide +kernel

/-- the reverse direction -/
theorem memo_prefix_dependence_rev :
    (Api.step w0 (.execT 0 "A" d)).2.str ≠ (Api.step w2 (.execT 0 "A" d)).2.str := by
  rw [A_fresh, A_after_B]; decide

/-- a second value: a path with a query. After `B`, `A` percent-encodes `/`, `?`, `=`:
    `<a href="a/b?c=d">` (fresh) vs `<a href="a%2fb%3fc%3dd">` (after `B`) -/
def d' : Value := .str (B "a/b?c=d")

theorem A_fresh' : (Api.step w0 (.execT 0 "A" d')).2.str = "ok 3c6120687265663d22612f623f633d64223e783c2f613e" := by
  decide +kernel

theorem A_after_B' : (Api.step w2 (.execT 0 "A" d')).2.str =
    "ok 3c6120687265663d2261253266622533666325336464223e783c2f613e" := by
  decide +kernel

/-! ### 2. mangled-name-collision -/

def mangledP : String := "cell$htmltemplate_StateText_elementP"

/-- `cell` = `{{.}}`, `P` = `<p>{{template "cell" .}}</p>`, and optionally a user template named `mangledP` -/
def defsc (extra : List Tree) : List Tree :=
  [ { name := "root", root := .cons (.text 0 (B "root")) .nil },
    { name := "cell", root := .cons (.action 0 dotPipe) .nil },
    { name := "P", root := .cons (.text 0 (B "<p>")) (.cons (.tmpl 1 "cell" (some dotPipe))
        (.cons (.text 2 (B "</p>")) .nil)) } ] ++ extra

/-- the user template `cell$htmltemplate_StateText_elementP` = `EVIL` -/
def evil : Tree := { name := mangledP, root := .cons (.text 0 (B "EVIL")) .nil }

/-- the user template `cell$htmltemplate_StateText_elementP` = `<b>{{.}}</b>` -/
def bold : Tree :=
  { name := mangledP, root := .cons (.text 0 (B "<b>")) (.cons (.action 1 dotPipe) (.cons (.text 2 (B "</b>")) .nil)) }

def wc (extra : List Tree) : World :=
  Api.run { v := liteValidators, fuel := 60 } [ .new 0 "root", .parse 0 (defsc extra) ]

/-- without the colliding template -/
def w0n : World := wc []
/-- with the colliding template `EVIL` -/
def w0c : World := wc [evil]
/-- with the colliding template `<b>{{.}}</b>` -/
def w0b : World := wc [bold]

def dc : Value := .str (B "<hi>")

/-- reference: `<p>&lt;hi&gt;</p>` -/
theorem no_collision : (Api.step w0n (.execT 0 "P" dc)).2.str = "ok 3c703e266c743b68692667743b3c2f703e" := by
  decide +kernel

/-- the derived copy is installed under the name the user template has in the other worlds -/
theorem no_collision_names :
    (((Api.step w0n (.execT 0 "P" dc)).1.ns 0).text.map (·.1)) = ["root", "cell", "P", mangledP] := by
  decide +kernel

/-- `P` outputs the body of the user template instead of `cell`'s: `<p>EVIL</p>` -/
theorem mangled_collision : (Api.step w0c (.execT 0 "P" dc)).2.str = "ok 3c703e4556494c3c2f703e" := by
  decide +kernel

/-- the same with `<b>{{.}}</b>`: `<p><b>&lt;hi&gt;</b></p>` -/
theorem mangled_collision_bold :
    (Api.step w0b (.execT 0 "P" dc)).2.str = "ok 3c703e3c623e266c743b68692667743b3c2f623e3c2f703e" := by
  decide +kernel

theorem mangled_collision_differs :
    (Api.step w0c (.execT 0 "P" dc)).2.str ≠ (Api.step w0n (.execT 0 "P" dc)).2.str := by
  rw [mangled_collision, no_collision]; decide

end Cex
end

/-!
## Summary

**Setting.** `Trk O h th`: `h` is a *tracked* name — no `$` in `h` (`NoDollar`), original tree `O h = some th`, `th`
call-free. `origT text e h` is the original tree of `h` in a name space: the pristine snapshot the first commit after
`h`'s analysis took, else the installed tree (`origT_commit`, `origT_top`: no analysis/commit changes it for names
without `$`). `cfOut` (Independence.lean) is the canonical analysis of a call-free tree from the empty escaper; `cEd` its
pending edits; `cfTree` the committed tree.

**Proved** (core Lean only, no placeholders):

* part ICCtx — `CtxInv`, a context invariant kept by every context-producing operation of the analysis (`ci_transition`,
  `ci_escapeText`, `ci_join`, `ci_nudge`, `ci_escapeAction`, …) with `ci_text_eq`: a context in state text without
  element name(s) IS `{}`. Hence the memo key of a name without `$` (`mangle_nodollar`) is only ever used for
  analyses started in `{}`.  `ci_analysis` (part ICAll): all six mutually recursive analysis functions keep `CtxInv` of the
  memo and of the threaded context.
* part ICFuel — fuel monotonicity of the call-free analysis (`list_fuel_mono`, `cfOut_mono`), and `cfOut_edit_keys`.
* `analysis_m` — **the analysis invariant**: the six functions keep `MInv` (derived names contain `$`; an unmemoized
  tracked name still has its original tree installed; every memo entry of a tracked name is the canonical output
  context `cfOut … F h {} th.root`) and make an `MStep` (memo only grows; the pending edits keyed by an already memoized
  tracked name are frozen; a tracked name memoized during the step gets exactly its canonical edits `cEd`). It is robust
  under the scratch escapers of `escapeTemplateBody`/range re-entry and the merge (`merge_mpost`).
* part ICCommit — what `commit` does to a name that is not a derived template (`origT_commit`, `commit_fk`,
  `commit_fk_nil`); `analysis_pristine` (part ICPrist).
* `NSInv`, `nsinv_analysis`, `nsinv_top`, **`nsinv_reachable`** — *memo correctness in the text context for every
  reachable world* (`ReachableC`: well-formed `Parse` arguments, `CSPCompatible()` only before the first execution or on
  a set that already is CSP compatible): for every tracked `h` that is memoized, the entry is canonical and the
  installed tree is the original one with exactly the canonical edits pending (after a failed analysis) or the canonical
  committed tree `cfTree h (cEd …) th` with nothing pending (`TState`). Plumbing over all API operations: part ICWorld
  (`NsPred`, `nspred_reachable`, `step_v_fuel`).
* `rNode`/`rList`/`rBranch`, `rOut`, `rTop` — the memo-free *reference analysis* of a template whose `{{template}}`
  nodes are in the context `{}` (any other non-error calling context, or an unknown callee, gives the outcome
  `msgExcl`); `node_simr`/`list_simr` (every real run from an escaper satisfying `MInv` is simulated by the reference
  run: same context, same edits keyed by the analysed name — memo hit or memo miss for the callees alike),
  `body_r`, `out_r`, `tree_r`, `top_r`, `top_r_panic`, `top_r_cls`.
* **`C06_textcalls_reachable`** (Level 1; abstract form `C06_textcalls_independent`): two reachable worlds, `name` with
  the same tree in both and analysed in neither, callees call-free without `$` with the same original trees — already
  analysed or not, in either world —, all calls in the plain text context: the first analysis reports the same outcome
  class and, after a success, `name` executes identically on every input. For a call-free `name` it specialises to
  `C06_callfree_reachable`.
* **`C06_textcalls_step`** (Level 4 for Level 1): the same at the level of `Api.step … (.execT h name d)`.
* `Ex.page_independent`: non-vacuity (callee memoized in one world and not in the other).
* `Cex.memo_prefix_dependence`, `Cex.mangled_collision_differs`: kernel-checked witnesses that the two exclusions are
  necessary (calls inside an attribute value with different static prefixes share a memo key; a user template named
  like a mangled name replaces the derived copy).

**Hypotheses and why each is needed.**
* `NoDollar` for `name` and the callees: a name containing `$htmltemplate_…` can coincide with the memo key / derived
  name of another (context, template) pair (`Cex.mangled_collision`).
* calls in the context `{}` only (`rTop … ≠ .panic msgExcl`): for other contexts the memo key `mangle c h` leaves out
  `attrValue`/`ambiguous` (`Cex.memo_prefix_dependence`); contexts where the key does determine the analysis (element
  content, quoted non-URL attributes: Level 2) are NOT covered — they need injectivity of `mangle` and an invariant for
  derived copies.
* callees call-free (Level 3 — nested calls — is NOT covered: it needs the reference analysis as canonical function of
  a second tier of tracked names, i.e. `analysis_m` once more over `rOut`).
* `ReachableC` instead of `ReachableP`: a `CSPCompatible()` call between two executions changes the analysis of later
  templates but not the memo entries computed before; with it the statement is false.
* no run out of model fuel: a memo hit costs one unit of fuel, a miss the whole analysis of the callee; fuel is a
  device of the model, not of the Go code.
* same fuel, validators, CSP flag in both worlds: parameters of the analysis.
-/

end SafeHtml.Proofs.IndependenceCalls
