/-
Byte-level reading of `safeURLPattern`-shaped regexes (`\A(?:(C+)D|N*(?:E|\z))`, C D E ASCII classes,
N containing every non-ASCII rune) with the capture, and facts about `Model.toLowerForScheme`.
Used by Props/C11 (and available to C12 / C02).
-/
import SafeHtml.Model.Url
import SafeHtml.Proofs.RxMore
import SafeHtml.Proofs.Utf8More
import SafeHtml.Proofs.Tactics
namespace SafeHtml.UrlRx
open SafeHtml SafeHtml.Rx SafeHtml.Utf8 SafeHtml.Model

/-! ### generic part -/

theorem spanCls_append_all (C : List (Nat × Nat)) (L1 L2 : List Sym)
    (h1 : ∀ x ∈ L1, inCls C x.rune = true)
    (h2 : L2 = [] ∨ ∃ x r, L2 = x :: r ∧ inCls C x.rune = false) :
    spanCls C (L1 ++ L2) = L1.length := by
  induction L1 with
  | nil =>
    rcases h2 with rfl | ⟨x, r, rfl, hx⟩
    · simp [spanCls]
    · simp [spanCls, hx]
  | cons a l ih =>
    have ha := h1 a (by simp)
    simp only [List.cons_append, spanCls, ha, if_true, List.length_cons]
    rw [ih (fun x hx => h1 x (by simp [hx]))]

/-- head symbol of a non-empty string, as far as an ASCII class can tell -/
theorem head_inCls_ascii (C : List (Nat × Nat)) (hC : asciiCls C = true) (d : Nat) (r : Bytes) :
    ∃ x rest, decodeSyms (d :: r) = x :: rest ∧ inCls C x.rune = inCls C d := by
  refine ⟨_, _, decodeSyms_cons d r, ?_⟩
  simp only []
  by_cases hd : d < 128
  · rw [decode1_ascii d r hd]
  · have hr := decode1_nonascii d r (by omega)
    have h1 : inCls C (decode1 d r).1 = false := by
      cases hh : inCls C (decode1 d r).1 with
      | false => rfl
      | true => have := inCls_ascii C hC _ hh; omega
    have h2 : inCls C d = false := by
      cases hh : inCls C d with
      | false => rfl
      | true => have := inCls_ascii C hC _ hh; omega
    rw [h1, h2]

/-- byte predicate for a class that contains every non-ASCII rune -/
def negB (N : List (Nat × Nat)) (b : Nat) : Bool := decide (128 ≤ b) || inCls N b

def genCaps2 (N E : List (Nat × Nat)) (t : Bytes) : Option (Option Bytes) :=
  match t.dropWhile (negB N) with
  | [] => some none
  | c :: _ => if inCls E c then some none else none

/-- byte-level result (capture 1 only) of `\A(?:(C+)D|N*(?:E|\z))` -/
def genCaps (C D N E : List (Nat × Nat)) (t : Bytes) : Option (Option Bytes) :=
  match t.takeWhile (inCls C), t.dropWhile (inCls C) with
  | c :: sch, d :: _ => if inCls D d then some (some (c :: sch)) else genCaps2 N E t
  | _, _ => genCaps2 N E t

/-- `takeWhile`/`dropWhile` as a split with its two defining facts -/
theorem span_split (p : Nat → Bool) (t : Bytes) :
    ∃ a r, t = a ++ r ∧ t.takeWhile p = a ∧ t.dropWhile p = r ∧ (∀ b ∈ a, p b = true) ∧
      (r = [] ∨ ∃ d r', r = d :: r' ∧ p d = false) := by
  induction t with
  | nil => exact ⟨[], [], rfl, rfl, rfl, by simp, Or.inl rfl⟩
  | cons c t ih =>
    by_cases hc : p c = true
    · obtain ⟨a, r, ht, ha, hr, hall, hh⟩ := ih
      refine ⟨c :: a, r, by rw [ht]; rfl, by simp [hc, ha],
        by simp [hc, hr], ?_, hh⟩
      intro b hb
      rcases List.mem_cons.1 hb with rfl | hb
      · exact hc
      · exact hall b hb
    · refine ⟨[], c :: t, rfl, by simp [hc], by simp [hc],
        by simp, Or.inr ⟨c, t, rfl, by simpa using hc⟩⟩

theorem find2_bytes (N E : List (Nat × Nat)) (_hE : asciiCls E = true)
    (hN : ∀ c, 128 ≤ c → c ≤ 0x10FFFF → inCls N c = true) (t : Bytes) :
    (schemeAltFind.schemeAltFind2 N E (decodeSyms t)).map (fun mt => mt.caps) =
      (genCaps2 N E t).map (fun _ => []) := by
  obtain ⟨a, q, ht, _, hq, hall, hh⟩ := span_split (negB N) t
  have hp : ∀ x ∈ decodeSyms a, inCls N x.rune = true := by
    intro x hx
    rcases decodeSyms_symOK _ x hx with ⟨hlt, hb⟩ | ⟨hge, hle, _⟩
    · have hmem : x.rune ∈ a := sym_bytes_subset _ x hx _ (by rw [hb]; simp)
      have := hall _ hmem
      simp only [negB, Bool.or_eq_true, decide_eq_true_eq] at this
      rcases this with h | h
      · omega
      · exact h
    · exact hN _ hge hle
  unfold schemeAltFind.schemeAltFind2 genCaps2
  rw [hq]
  rcases hh with rfl | ⟨c, q', rfl, hc⟩
  · rw [List.append_nil] at ht
    subst ht
    have hs := spanCls_append_all N (decodeSyms t) [] hp (Or.inl rfl)
    rw [List.append_nil] at hs
    simp [hs]
  · simp only [negB, Bool.or_eq_false_iff, decide_eq_false_iff_not] at hc
    have hc128 : c < 128 := by omega
    have hd : decodeSyms t = decodeSyms a ++ asciiSym c :: decodeSyms q' := by
      rw [ht, decodeSyms_append_ascii c q' hc128, decodeSyms_cons_ascii c q' hc128]; rfl
    have hs := spanCls_append_all N _ (asciiSym c :: decodeSyms q') hp
      (Or.inr ⟨_, _, rfl, by simpa [asciiSym] using hc.2⟩)
    rw [hd]
    simp only [hs, List.drop_left]
    simp only [asciiSym]
    by_cases hEc : inCls E c = true <;> simp [hEc]

/-- `findSubmatch` with one capture group, as a function of the search result -/
def subOf (syms : List Sym) : Option Match → Option (List (Option Bytes))
  | none => none
  | some mt => some [some (slice syms mt.start mt.stop),
      match capLookup mt.caps 1 with
      | some (a, b) => some (slice syms a b)
      | none => none]

theorem findSubmatch_one (r : Re) (t : Bytes) :
    findSubmatch r 1 t = subOf (decodeSyms t) (find r (decodeSyms t)) := by
  unfold findSubmatch subOf
  simp only [List.range, List.range.loop, List.map_cons, List.map_nil]
  cases find r (decodeSyms t) <;> rfl

theorem findSubmatch_schemeAlt (C D N E : List (Nat × Nat))
    (hC : asciiCls C = true) (hD : asciiCls D = true) (hE : asciiCls E = true)
    (hN : ∀ c, 128 ≤ c → c ≤ 0x10FFFF → inCls N c = true)
    (hCD : ∀ c, inCls C c = true → inCls D c = false)
    (hNE : ∀ c, inCls N c = true → inCls E c = false) (t : Bytes) :
    ∃ w, findSubmatch (schemeAltRe C D N E) 1 t = (genCaps C D N E t).map (fun c => [some w, c]) := by
  rw [findSubmatch_one, find_schemeAlt C D N E hCD hNE]
  have h2 := find2_bytes N E hE hN t
  -- result when only the second alternative can match
  have hsecond : ∃ w, subOf (decodeSyms t) (schemeAltFind.schemeAltFind2 N E (decodeSyms t)) =
      (genCaps2 N E t).map (fun c => [some w, c]) := by
    cases hf : schemeAltFind.schemeAltFind2 N E (decodeSyms t) with
    | none =>
      rw [hf] at h2
      cases hg : genCaps2 N E t with
      | none => exact ⟨[], rfl⟩
      | some v => rw [hg] at h2; simp at h2
    | some mt =>
      rw [hf] at h2
      cases hg : genCaps2 N E t with
      | none => rw [hg] at h2; simp at h2
      | some v =>
        rw [hg] at h2
        simp only [Option.map_some, Option.some.injEq] at h2
        have hv : v = none := by
          unfold genCaps2 at hg
          split at hg
          · simpa using hg.symm
          · split at hg <;> simp at hg; exact hg.symm
        refine ⟨slice (decodeSyms t) mt.start mt.stop, ?_⟩
        simp [subOf, h2, hv, capLookup]
  obtain ⟨a, r, ht, hta, hr, hallb, hh⟩ := span_split (inCls C) t
  have ha : ∀ b ∈ a, b < 128 := fun b hb => inCls_ascii C hC b (hallb b hb)
  have hd : decodeSyms t = a.map asciiSym ++ decodeSyms r := by
    rw [ht]; exact decodeSyms_ascii_prefix _ _ ha
  have hall : ∀ x ∈ a.map asciiSym, inCls C x.rune = true := by
    intro x hx
    obtain ⟨b, hb, rfl⟩ := List.mem_map.1 hx
    exact hallb b hb
  unfold schemeAltFind genCaps
  simp only []
  rw [hta, hr]
  rcases hh with rfl | ⟨d, r', rfl, hdc⟩
  · rw [decodeSyms_nil, List.append_nil] at hd
    have hs := spanCls_append_all C _ [] hall (Or.inl rfl)
    rw [List.append_nil, ← hd] at hs
    have hdrop : (decodeSyms t).drop (spanCls C (decodeSyms t)) = [] := by
      rw [hs, hd]; simp
    rw [hdrop]
    cases hn : spanCls C (decodeSyms t) <;> cases a <;> exact hsecond
  · obtain ⟨x, rest, hx, hxc⟩ := head_inCls_ascii C hC d r'
    obtain ⟨x', rest', hx', hxd⟩ := head_inCls_ascii D hD d r'
    rw [hx] at hx'
    obtain ⟨rfl, rfl⟩ := List.cons.inj hx'
    rw [hx] at hd
    have hs := spanCls_append_all C _ (x :: rest) hall (Or.inr ⟨x, rest, rfl, by rw [hxc, hdc]⟩)
    rw [← hd] at hs
    have hdrop : (decodeSyms t).drop (spanCls C (decodeSyms t)) = x :: rest := by
      rw [hs, hd, List.drop_left]
    rw [hdrop, hs]
    cases a with
    | nil => exact hsecond
    | cons c sch =>
      simp only [List.map_cons, List.length_cons, List.length_map, hxd]
      cases hdd : inCls D d with
      | false => exact hsecond
      | true =>
        refine ⟨slice (decodeSyms t) 0 (sch.length + 2), ?_⟩
        simp only [if_true, Option.map_some, subOf, capLookup, List.find?, beq_self_eq_true]
        congr 3
        simp only [slice, List.drop_zero, Nat.sub_zero]
        rw [hd]
        have : sch.length + 1 = ((c :: sch).map asciiSym).length := by simp
        rw [this, List.take_left]
        have hsb : ∀ l : Bytes, symsBytes (l.map asciiSym) = l := by
          intro l; induction l with
          | nil => rfl
          | cons y l ih => simp only [symsBytes, List.map_cons, List.flatMap_cons] at ih ⊢; rw [ih]; rfl
        rw [hsb]

/-! ### `toLowerForScheme` -/

def lowSym (x : Sym) : Bytes :=
  if x.rune < 128 then [asciiLower x.rune]
  else match lowerRuneAsciiImage x.rune with
    | some a => [a]
    | none => Utf8.encodeRune x.rune

theorem toLower_def (s : Bytes) : toLowerForScheme s = (decodeSyms s).flatMap lowSym := rfl

theorem toLower_nil : toLowerForScheme [] = [] := by simp [toLower_def, decodeSyms_nil]

/-- an ASCII prefix is lowered bytewise -/
theorem toLower_ascii_append (a rest : Bytes) (h : ∀ b ∈ a, b < 128) :
    toLowerForScheme (a ++ rest) = a.map asciiLower ++ toLowerForScheme rest := by
  rw [toLower_def, decodeSyms_ascii_prefix a rest h, List.flatMap_append, ← toLower_def]
  congr 1
  induction a with
  | nil => rfl
  | cons b t ih =>
    have hb : b < 128 := h b (by simp)
    simp only [List.map_cons, List.flatMap_cons, ih (fun x hx => h x (by simp [hx]))]
    simp [lowSym, asciiSym, hb]

/-- lowering splits at every ASCII byte -/
theorem toLower_append_ascii (p : Bytes) (c : Nat) (rest : Bytes) (hc : c < 128) :
    toLowerForScheme (p ++ c :: rest) = toLowerForScheme p ++ asciiLower c :: toLowerForScheme rest := by
  rw [toLower_def, decodeSyms_append_ascii c rest hc, List.flatMap_append, ← toLower_def,
    decodeSyms_cons_ascii c rest hc]
  simp [lowSym, hc, toLower_def]

/-- where the bytes of the lowered string come from -/
theorem toLower_bytes (p : Bytes) : ∀ b' ∈ toLowerForScheme p,
    128 ≤ b' ∨ b' = 105 ∨ b' = 107 ∨ ∃ b ∈ p, b < 128 ∧ b' = asciiLower b := by
  intro b' hb'
  rw [toLower_def, List.mem_flatMap] at hb'
  obtain ⟨x, hx, hbx⟩ := hb'
  unfold lowSym at hbx
  rcases decodeSyms_symOK p x hx with ⟨hlt, hb⟩ | ⟨hge, _, _⟩
  · simp only [hlt, if_true, List.mem_singleton] at hbx
    right; right; right
    exact ⟨x.rune, sym_bytes_subset p x hx _ (by rw [hb]; simp), hlt, hbx⟩
  · have : ¬ x.rune < 128 := by omega
    simp only [this, if_false] at hbx
    unfold lowerRuneAsciiImage at hbx
    split at hbx
    · next h => split at h <;> (try split at h) <;> simp at h <;> subst h <;> simp at hbx <;> simp [hbx]
    · left; exact encodeRune_nonascii _ hge _ hbx

/-! ### the regenerated `safeURLPattern` (obligation: breaks when url.go's regex is edited) -/

/-- `[a-z0-9+.-]` -/
def isSchemeLower (c : Nat) : Bool := isLowerAlpha c || isDigit c || c == 43 || c == 45 || c == 46
/-- `[^&:/?#]` on bytes -/
def isNegB (c : Nat) : Bool := !(c == 35 || c == 38 || c == 47 || c == 58 || c == 63)
/-- `[/?#]` -/
def isDelimB (c : Nat) : Bool := c == 35 || c == 47 || c == 63

def handCaps2 (t : Bytes) : Option (Option Bytes) :=
  match t.dropWhile isNegB with
  | [] => some none
  | c :: _ => if isDelimB c then some none else none

/-- hand-written byte-level meaning of `^(?:([a-z0-9+.-]+):|[^&:/?#]*(?:[/?#]|$))`:
    `some (some sch)` = first alternative matched with capture `sch`; `some none` = second alternative. -/
def handCaps (t : Bytes) : Option (Option Bytes) :=
  match t.takeWhile isSchemeLower, t.dropWhile isSchemeLower with
  | c :: sch, d :: _ => if d == 58 then some (some (c :: sch)) else handCaps2 t
  | _, _ => handCaps2 t

open SafeHtml.Generated.Regexes in
theorem rx_safeURLPattern (t : Bytes) :
    ∃ w, findSubmatch safehtml_safeURLPattern safehtml_safeURLPattern_ncap t =
      (handCaps t).map (fun c => [some w, c]) := by
  have hre : safehtml_safeURLPattern =
      schemeAltRe [(43, 43), (45, 46), (48, 57), (97, 122)] [(58, 58)]
        [(0, 34), (36, 37), (39, 46), (48, 57), (59, 62), (64, 1114111)] [(35, 35), (47, 47), (63, 63)] := rfl
  have hn : safehtml_safeURLPattern_ncap = 1 := rfl
  rw [hre, hn]
  obtain ⟨w, hw⟩ := findSubmatch_schemeAlt [(43, 43), (45, 46), (48, 57), (97, 122)] [(58, 58)]
      [(0, 34), (36, 37), (39, 46), (48, 57), (59, 62), (64, 1114111)] [(35, 35), (47, 47), (63, 63)]
    (by decide) (by decide) (by decide)
    (by intro c h1 h2; simp only [inCls, List.any, Bool.or_false]; simp; omega)
    (by intro c; simp only [inCls, List.any, Bool.or_false]; simp; omega)
    (by intro c; simp only [inCls, List.any, Bool.or_false]; simp; omega) t
  refine ⟨w, ?_⟩
  rw [hw]
  congr 1
  have e1 : inCls [(43, 43), (45, 46), (48, 57), (97, 122)] = isSchemeLower := by
    funext b
    simp only [inCls, List.any, isSchemeLower, isLowerAlpha, isDigit, Bool.or_false]
    cls_arith
  have e2 : negB [(0, 34), (36, 37), (39, 46), (48, 57), (59, 62), (64, 1114111)] = isNegB := by
    funext b
    simp only [negB, inCls, List.any, isNegB, Bool.or_false]
    cls_arith
  have e3 : inCls [(35, 35), (47, 47), (63, 63)] = isDelimB := by
    funext b
    simp only [inCls, List.any, isDelimB, Bool.or_false]
    cls_arith
  have e4 : ∀ d, inCls [(58, 58)] d = (d == 58) := by
    intro d
    simp only [inCls, List.any, Bool.or_false]
    cls_arith
  unfold genCaps handCaps genCaps2 handCaps2
  simp only [e1, e2, e3, e4]

/-- `isSafeURL` as a byte-level function of the lowered string -/
theorem isSafeURL_eq (u : Bytes) :
    isSafeURL u =
      match handCaps (toLowerForScheme u) with
      | none => false
      | some (some sch) => sch != jsScheme
      | some none => true := by
  unfold isSafeURL
  obtain ⟨w, hw⟩ := rx_safeURLPattern (toLowerForScheme u)
  rw [hw]
  cases handCaps (toLowerForScheme u) with
  | none => rfl
  | some c => cases c <;> rfl

end SafeHtml.UrlRx
