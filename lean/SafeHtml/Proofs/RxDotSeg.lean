/- Byte-level reading of the unanchored pattern `(?i)(?:^|/)(?:\.|%2e)$` (deliver/fix-C14-tru-dot.diff). -/
import SafeHtml.Proofs.RxSearch
import SafeHtml.Spec.UrlComponents
namespace SafeHtml
namespace Rx
open SafeHtml.Spec.UrlComp

theorem decodeSyms_isEmpty (x : Bytes) : (Utf8.decodeSyms x).isEmpty = x.isEmpty := by
  cases x with
  | nil => simp [Utf8.decodeSyms_nil]
  | cons b t => rw [Utf8.decodeSyms_cons]; rfl

/-- one ASCII class step over the symbols of a byte string -/
theorem m_cls_decode (rs) (h : asciiCls rs = true) (f) (st : MSt) (x : Bytes) (k : MSt → List Sym → Option α) :
    m (.cls rs) f st (Utf8.decodeSyms x) k =
      match x with
      | [] => none
      | b :: t => if inCls rs b then k (adv st 1) (Utf8.decodeSyms t) else none := by
  cases x with
  | nil => rw [Utf8.decodeSyms_nil, m_cls_nil]
  | cons b t =>
    by_cases hb : b < 128
    · rw [Utf8.decodeSyms_cons_ascii b t hb, m_cls_cons]
    · rw [Utf8.decodeSyms_cons, m_cls_cons]
      have hr := Utf8.decode1_nonascii b t (by omega)
      have h1 : inCls rs (Utf8.decode1 b t).1 = false := by
        cases hh : inCls rs (Utf8.decode1 b t).1 with
        | false => rfl
        | true => have := inCls_ascii rs h _ hh; omega
      have h2 : inCls rs b = false := by
        cases hh : inCls rs b with
        | false => rfl
        | true => have := inCls_ascii rs h _ hh; omega
      simp [h1, h2]

theorem m_eot_decode (f) (st : MSt) (x : Bytes) (k : MSt → List Sym → Option α) :
    m .eot f st (Utf8.decodeSyms x) k = if x.isEmpty then k st (Utf8.decodeSyms x) else none := by
  rw [m_eot, decodeSyms_isEmpty]

theorem isSome_orElse {α} (a b : Option α) :
    (match a with | some r => some r | none => b).isSome = (a.isSome || b.isSome) := by
  cases a <;> simp

theorem m_alt_isSome (a b : Re) (f) (st : MSt) (s : List Sym) (k : MSt → List Sym → Option α) :
    (m (.alt a b) f st s k).isSome = ((m a f st s k).isSome || (m b f st s k).isSome) := by
  rw [m_alt]; cases m a f st s k <;> simp

def Kf (i : Nat) : MSt → List Sym → Option Match := fun st _ => some ⟨i, st.pos, st.caps⟩

theorem findFrom_cons_isSome (r : Re) (f i : Nat) (c : Sym) (t : List Sym) :
    (findFrom r f i (c :: t)).isSome =
      ((m r f ⟨i, []⟩ (c :: t) (Kf i)).isSome || (findFrom r f (i + 1) t).isSome) := by
  show (match m r f ⟨i, []⟩ (c :: t) (Kf i) with | some x => some x | none => findFrom r f (i + 1) t).isSome = _
  cases m r f ⟨i, []⟩ (c :: t) (Kf i) <;> simp

theorem findFrom_nil_isSome (r : Re) (f i : Nat) :
    (findFrom r f i []).isSome = (m r f ⟨i, []⟩ [] (Kf i)).isSome := rfl

def dotRe : Re := .alt (.cls [(46, 46)]) (.cat (.cls [(37, 37)]) (.cat (.cls [(50, 50)]) (.cls [(69, 69), (101, 101)])))
def dotSegRe : Re := .cat (.alt .bot (.cls [(47, 47)])) (.cat dotRe .eot)

theorem inCls1 (a b : Nat) : inCls [(a, a)] b = (b == a) := by
  simp only [inCls, List.any_cons, List.any_nil, Bool.or_false]
  rw [Bool.eq_iff_iff]; simp; omega

theorem inClsE (b : Nat) : inCls [(69, 69), (101, 101)] b = (b == 101 || b == 69) := by
  simp only [inCls, List.any_cons, List.any_nil, Bool.or_false]
  rw [Bool.eq_iff_iff]; simp; omega

/-- `(?:\.|%2e)$` at a position: the rest is exactly "." or "%2e" -/
theorem m_dot_eot (f) (st : MSt) (x : Bytes) (k : MSt → List Sym → Option Match)
    (hk : ∀ st s, (k st s).isSome = true) :
    (m (.cat dotRe .eot) f st (Utf8.decodeSyms x) k).isSome = dotOnly x := by
  unfold dotRe
  rw [m_cat, m_alt_isSome]
  simp only [m_cat, m_cls_decode _ (show asciiCls [(46, 46)] = true by decide),
    m_cls_decode _ (show asciiCls [(37, 37)] = true by decide), m_cls_decode _ (show asciiCls [(50, 50)] = true by decide),
    m_cls_decode _ (show asciiCls [(69, 69), (101, 101)] = true by decide), m_eot_decode, inCls1, inClsE]
  unfold dotOnly
  rcases x with _ | ⟨a, _ | ⟨b, _ | ⟨c, _ | ⟨d, u⟩⟩⟩⟩ <;> simp only [stripDot]
  · simp
  · by_cases h1 : a = 46 <;> by_cases h2 : a = 37 <;> simp [h1, h2, hk]
  · by_cases h1 : a = 46 <;> by_cases h2 : a = 37 <;> simp [h1, h2, hk]
  · by_cases h1 : a = 46 <;> by_cases h2 : a = 37 <;> by_cases h3 : b = 50 <;>
      by_cases h4 : c = 101 <;> by_cases h5 : c = 69 <;> simp [h1, h2, h3, h4, h5, hk]
  · by_cases h1 : a = 46 <;> by_cases h2 : a = 37 <;> by_cases h3 : b = 50 <;>
      by_cases h4 : c = 101 <;> by_cases h5 : c = 69 <;> simp [h1, h2, h3, h4, h5, hk]

theorem slashDot_drop_nonascii : ∀ (n : Nat) (t : Bytes), (∀ x ∈ t.take n, 128 ≤ x) → slashDot t = slashDot (t.drop n) := by
  intro n
  induction n with
  | zero => intro t _; simp
  | succ n ih =>
    intro t h
    cases t with
    | nil => simp
    | cons a u =>
      have ha : 128 ≤ a := h a (by simp)
      have : (a == 47) = false := by simp; omega
      simp only [slashDot, this, Bool.false_and, Bool.false_or, List.drop_succ_cons]
      exact ih u (fun x hx => h x (by simp [hx]))

/-- the pattern at one position of a byte string: at offset 0 also the bare "." / "%2e" -/
theorem m_dotSeg_at (f i : Nat) (x : Bytes) :
    (m dotSegRe f ⟨i, []⟩ (Utf8.decodeSyms x) (Kf i)).isSome =
      ((i == 0 && dotOnly x) || (match x with | [] => false | b :: t => b == 47 && dotOnly t)) := by
  unfold dotSegRe
  rw [m_cat, m_alt_isSome, m_bot, m_cls_decode _ (show asciiCls [(47, 47)] = true by decide)]
  have hk : ∀ st s, ((Kf i) st s).isSome = true := fun _ _ => rfl
  congr 1
  · by_cases hi : i = 0
    · subst hi; simp [m_dot_eot _ _ _ _ hk]
    · have : (i == 0) = false := by simp [hi]
      simp [this]
  · cases x with
    | nil => rfl
    | cons b t =>
      simp only [inCls1]
      by_cases hb : b = 47
      · simp [hb, m_dot_eot _ _ _ _ hk]
      · simp [hb]

theorem findFrom_dotSeg (f : Nat) : ∀ (x : Bytes) (i : Nat), 0 < i →
    (findFrom dotSegRe f i (Utf8.decodeSyms x)).isSome = slashDot x := by
  intro x
  induction x using Utf8.decode_induction with
  | hnil =>
    intro i hi
    have h := m_dotSeg_at f i []
    rw [Utf8.decodeSyms_nil] at h ⊢
    rw [findFrom_nil_isSome, h]
    have : (i == 0) = false := by simp; omega
    simp [this, slashDot]
  | hcons b t ih =>
    intro i hi
    have h := m_dotSeg_at f i (b :: t)
    have hd := Utf8.decodeSyms_cons b t
    rw [hd] at h ⊢
    rw [findFrom_cons_isSome, h, ih (i + 1) (by omega)]
    have hi0 : (i == 0) = false := by simp; omega
    simp only [hi0, Bool.false_and, Bool.false_or, slashDot]
    congr 1
    have hw := Utf8.decode1_width_pos b t
    have hdrop : (b :: t).drop (Utf8.decode1 b t).2 = t.drop ((Utf8.decode1 b t).2 - 1) := by
      obtain ⟨k, hk⟩ : ∃ k, (Utf8.decode1 b t).2 = k + 1 := ⟨(Utf8.decode1 b t).2 - 1, by omega⟩
      rw [hk]; simp
    rw [hdrop]
    exact (slashDot_drop_nonascii _ t (Utf8.decode1_skipped b t)).symm

/-- `(?i)(?:^|/)(?:\.|%2e)$` = "the last path segment so far is exactly `.` or `%2e`" -/
theorem match_dotSeg (s : Bytes) : matchString dotSegRe s = endsWithDotSegment s := by
  unfold matchString find endsWithDotSegment
  cases s with
  | nil =>
    have h := m_dotSeg_at ((Utf8.decodeSyms []).length + 1) 0 []
    rw [Utf8.decodeSyms_nil] at h ⊢
    rw [findFrom_nil_isSome, h]
    simp [slashDot]
  | cons b t =>
    generalize (Utf8.decodeSyms (b :: t)).length + 1 = f
    have h := m_dotSeg_at f 0 (b :: t)
    have hd := Utf8.decodeSyms_cons b t
    rw [hd] at h ⊢
    rw [findFrom_cons_isSome, h, findFrom_dotSeg f _ 1 (by omega)]
    have hw := Utf8.decode1_width_pos b t
    have hdrop : (b :: t).drop (Utf8.decode1 b t).2 = t.drop ((Utf8.decode1 b t).2 - 1) := by
      obtain ⟨k, hk⟩ : ∃ k, (Utf8.decode1 b t).2 = k + 1 := ⟨(Utf8.decode1 b t).2 - 1, by omega⟩
      rw [hk]; simp
    rw [hdrop, ← slashDot_drop_nonascii _ t (Utf8.decode1_skipped b t)]
    simp only [beq_self_eq_true, Bool.true_and, slashDot, Bool.or_assoc]

end Rx
end SafeHtml
