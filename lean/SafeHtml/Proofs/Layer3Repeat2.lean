/-
C01 for LATER executions through the API state machine, for the two further end-to-end theorems of `Layer3Helpers`
(follow-up to `Layer3Repeat`, which treats the single straight-line template):

* `C01_api_branch_template_repeat`: one template with `if` / `with` / `range`;
* `C01_api_main_plus_helper_repeat` (and the primed variant): a main template plus one helper called from text context.

As in `Layer3Repeat`: the first `Execute` analyses, commits and marks the main object `ok`; the world it leaves does not
depend on the data, whether or not the execution itself succeeds (`apiExecute_gen_full`, `apiExecute2_full`), and it is
a fixed point of every later `Execute` on handle 0 (`apiExecute_single_again`, `apiExecute2_again`). Hence after any
list of earlier executions on handle 0 (any data) the result of `Execute(d)` is the same function of `d`.
Core Lean only; axioms: propext, Classical.choice, Quot.sound.
-/
import SafeHtml.Proofs.Layer3Helpers
import SafeHtml.Proofs.Layer3Repeat
set_option linter.unusedSimpArgs false
set_option linter.unusedVariables false
namespace SafeHtml.Proofs.Layer3Repeat2
open SafeHtml SafeHtml.Model SafeHtml.Model.Tmpl SafeHtml.Spec SafeHtml.Spec.HtmlTok SafeHtml.Generated.Policy
open SafeHtml.Props.C01 (InertPos run_nil run_cons run_append)
open SafeHtml.Props.C02 (Untrusted)
open SafeHtml.Proofs.HtmlTokSim
open SafeHtml.Proofs.Layer3 SafeHtml.Proofs.Layer3E2E SafeHtml.Proofs.Layer3Branch SafeHtml.Proofs.Layer3Calls
open SafeHtml.Proofs.Layer3Helpers SafeHtml.Proofs.Layer3Repeat

/-! ### one template with branches -/

/-- the first `Execute` on the world after `New`, `Parse` (`Layer3Helpers.apiExecute_gen` with the world): the world
    afterwards is `worldF`, independent of the data -/
theorem apiExecute_gen_full (v : Validators) (fuel : Nat) (name : String) (tr tr' : Tree) (cf : Ctx) (E E' : Esc)
    (d : Value)
    (het : escapeTree ⟨[(name, some tr)], fun n => (alookup [(name, 1)] n).isSome, false, v⟩ fuel {} {} name =
      .ok (E, cf, name))
    (hfin : finalError cf = none) (hc : commit [(name, some tr)] E = .ok ([(name, some tr')], E')) :
    apiExecute (setupW v fuel name tr) 0 d =
      (worldF v fuel name tr' E', resOf (walkList false [(name, some tr')] 0 fuel d d [] tr'.root)) := by
  have ht : escapeTemplateTop (worldE v fuel name tr) 0 name =
      .inr (markOk (worldE v fuel name tr) 0 name [(name, some tr')] E', none) := by
    unfold escapeTemplateTop
    simp only [worldE_ns]
    have hfu : (worldE v fuel name tr).fuel = fuel := rfl
    have hv : (worldE v fuel name tr).v = v := rfl
    have hesc : (nsE name tr).esc = {} := rfl
    have hset : (nsE name tr).set = [(name, 1)] := rfl
    have hcsp : (nsE name tr).csp = false := rfl
    have htx : (nsE name tr).text = [(name, some tr)] := rfl
    rw [hfu, hv, hesc, hset, hcsp, htx, het]
    simp only [hfin, hc]
  have hobj : (setupW v fuel name tr).obj 0 =
      some (1, { ns := 0, name := name, registered := true, treeNil := false }) := by
    simp [setupW, World.obj, nlookup, bind, Option.bind]
  unfold apiExecute
  simp only [hobj, setNs_escaped, Bool.false_eq_true, if_false, ht]
  simp [markOk, worldE_ns, nsE, alookup, worldE, World.setNs, World.setObj, nset, nlookup, textExecute, World.ns,
    TextSet.lookup, resOf, worldF]
  rfl

/-- `Execute(d)` after any earlier executions, given the analysis and the commit of the first one -/
theorem step_execs_gen (v : Validators) (fuel : Nat) (name : String) (tr tr' : Tree) (cf : Ctx) (E E' : Esc)
    (het : escapeTree ⟨[(name, some tr)], fun n => (alookup [(name, 1)] n).isSome, false, v⟩ fuel {} {} name =
      .ok (E, cf, name))
    (hfin : finalError cf = none) (hc : commit [(name, some tr)] E = .ok ([(name, some tr')], E'))
    (pre : List Value) (d : Value) :
    (Api.step (execs (setupW v fuel name tr) pre) (.exec 0 d)).2 =
      .exec (resOf (walkList false [(name, some tr')] 0 fuel d d [] tr'.root)) := by
  have hE := fun d => apiExecute_gen_full v fuel name tr tr' cf E E' d het hfin hc
  cases pre with
  | nil => simp only [execs, Api.step, hE]
  | cons d0 ds => simp only [execs, Api.step, hE, execs_worldF, apiExecute_single_again]

/-- **C01 for a single template with `if` / `with` / `range` through the API state machine, later executions.** As
    `Layer3Helpers.C01_api_branch_template`, but each of the two executions compared comes after an arbitrary list of
    earlier `Execute` calls on the same template object (`pre1`, `pre2`: any data, no hypothesis — they may take other
    control paths, print trusted values, fail with an execution error, or be absent; the lists need not have the same
    length). -/
theorem C01_api_branch_template_repeat (v : Validators) (fuel : Nat) (name : String) (tr : Tree) (tps : TPs) (cf : Ctx)
    (es : ERs) (hn : tr.name = name) (hroot : tr.root = nodesTL 0 tps) (hok : ArgsOKL tps)
    (hs : SimpleRL v {} (eraseL tps)) (ha : analyseRL v {} (eraseL tps) = some (cf, es))
    (hfin : finalError cf = none) (hf : fuelRL (eraseL tps) + 3 ≤ fuel) (pre1 pre2 : List Value) (d1 d2 : Value)
    (hpath : pathL tps d1 d1 = pathL tps d2 d2)
    (hu1 : ∀ x ∈ valsL tps d1 d1, Untrusted x) (hu2 : ∀ x ∈ valsL tps d2 d2, Untrusted x)
    (o1 o2 : Bytes) (w1 w2 : World)
    (h1 : Api.step (execs (setup v fuel name tr) pre1) (.exec 0 d1) = (w1, .exec (.ok o1)))
    (h2 : Api.step (execs (setup v fuel name tr) pre2) (.exec 0 d2) = (w2, .exec (.ok o2))) :
    skeleton (HtmlTok.tokenize o1).tokens = skeleton (HtmlTok.tokenize o2).tokens ∧
    (HtmlTok.tokenize o1).final = .data ∧ (HtmlTok.tokenize o2).final = .data := by
  obtain ⟨f', rfl⟩ : ∃ f', fuel = f' + 3 := ⟨fuel - 3, by omega⟩
  have hst : cf.state = .text := by
    by_cases hc : cf.state = .text
    · exact hc
    · exfalso
      unfold finalError at hfin
      split at hfin
      · next h => cases he : cf.err <;> simp_all
      · simp [hc] at hfin
  have hne : cf.state ≠ .error := by rw [hst]; decide
  have hfresh : Fresh name 0 (escScratch name) := fun k _ => ⟨rfl, rfl⟩
  have hk0 : KeysOK name (escScratch name) := ⟨by simp [escScratch], by simp [escScratch], by simp [escScratch],
    by simp [escScratch]⟩
  have hl := refTL ⟨[(name, some tr)], fun n => (alookup [(name, 1)] n).isSome, false, v⟩ rfl name tps 0 {} cf
    (escScratch name) es f' ha hfresh (by omega) (by decide) hok
  obtain ⟨hoe, hk⟩ := keepL v name (eraseL tps) 0 {} (escScratch name) hfresh hk0
  rw [← hroot] at hl
  have het := escapeTree_gen ⟨[(name, some tr)], fun n => (alookup [(name, 1)] n).isSome, false, v⟩ name tr cf _
    (by simp [TextSet.lookup]) f' hl hoe hk hne
  have happ := applyL v name
    { escAfterG name cf (editsRL v name 0 {} (eraseL tps) (escScratch name)).actionEdits
        (editsRL v name 0 {} (eraseL tps) (escScratch name)).textEdits with pristine := [(name, tr)] }
    tps 0 {} cf (escScratch name) es ha hfresh hok (fun k _ => ⟨rfl, rfl⟩)
  rw [← hroot] at happ
  obtain ⟨E', hc⟩ := commit_gen name tr cf _ _ (outTL 0 tps es) hk.1 hk.2.2.1 happ
  rw [setup_eq v (f' + 3) name tr hn] at h1 h2
  have r1 := step_execs_gen v (f' + 3) name tr _ cf _ E' het hfin hc pre1 d1
  have r2 := step_execs_gen v (f' + 3) name tr _ cf _ E' het hfin hc pre2 d2
  rw [h1] at r1
  rw [h2] at r2
  simp only [Ret.exec.injEq] at r1 r2
  have e1 := r1.symm
  have e2 := r2.symm
  obtain ⟨n1, rfl⟩ := resOf_ok e1
  obtain ⟨n2, rfl⟩ := resOf_ok e2
  obtain ⟨p1, hx1, ho1⟩ := wL v _ 0 tps 0 {} cf es (f' + 3) d1 d1 [] [] [] ha hok n1
  obtain ⟨p2, hx2, ho2⟩ := wL v _ 0 tps 0 {} cf es (f' + 3) d2 d2 [] [] [] ha hok n2
  simp only [List.append_nil] at hx1 hx2
  rw [← hpath] at hx2
  rw [ho1, ho2]
  simp only [List.nil_append]
  have := C01_loops v (eraseL tps) cf es _ [] [] _ [] _ [] p1 p2 hs ha hu1 hu2 hx1 hx2
  exact ⟨this.1, this.2.2 hst⟩

/-! ### non-vacuity: `{{range .Items}}<b>{{.}}</b>{{else}}-{{end}}`, third execution after one that takes the `else`
branch (`Value.str` has no items: other control path or failure) and a successful two-item one -/

example : retOk (Api.step (execs (setup v0 100 "t" exLoopTree) [.str [1], loopData [34] [62]])
    (.exec 0 (loopData [60] [38]))).2 = true := by
  decide +kernel

theorem ex_api_loop_repeat (pre1 pre2 : List Value) (a1 a2 b1 b2 o1 o2 : Bytes) (w1 w2 : World)
    (h1 : Api.step (execs (setup v0 100 "t" exLoopTree) pre1) (.exec 0 (loopData a1 a2)) = (w1, .exec (.ok o1)))
    (h2 : Api.step (execs (setup v0 100 "t" exLoopTree) pre2) (.exec 0 (loopData b1 b2)) = (w2, .exec (.ok o2))) :
    skeleton (HtmlTok.tokenize o1).tokens = skeleton (HtmlTok.tokenize o2).tokens ∧
    (HtmlTok.tokenize o1).final = .data ∧ (HtmlTok.tokenize o2).final = .data :=
  C01_api_branch_template_repeat v0 100 "t" exLoopTree exLoopT {} exLoopOut rfl rfl
    ⟨⟨⟨trivial, Or.inl rfl, trivial, trivial⟩, trivial, trivial⟩, trivial⟩ r_simple r_analyse (by decide) (by decide)
    pre1 pre2 _ _
    (by rw [loopData_path, loopData_path])
    (by rw [loopData_vals]; intro x hx; simp at hx; rcases hx with rfl | rfl <;> (intro t y h; simp [Value.indirect] at h))
    (by rw [loopData_vals]; intro x hx; simp at hx; rcases hx with rfl | rfl <;> (intro t y h; simp [Value.indirect] at h))
    o1 o2 w1 w2 h1 h2

/-! ### main template plus helper -/

/-- the world after the first `Execute` of the main template: both committed trees, escaper `E`, the main object
    marked `ok` (the helper's object is not marked) -/
def worldF2 (v : Validators) (fuel : Nat) (m h : String) (T : TextSet) (E : Esc) : World :=
  { objs := [(1, { ns := 0, name := m, registered := true, treeNil := false, status := .ok }),
             (2, { ns := 0, name := h, registered := true, treeNil := false })],
    nss := [(0, { set := [(m, 1), (h, 2)], text := T, escaped := true, esc := E })],
    handles := [(0, 1)], next := 3, fuel := fuel, v := v }

/-- the first `Execute` of the main template (`Layer3Helpers.apiExecute2_gen` with the world) -/
theorem apiExecute2_full (v : Validators) (fuel : Nat) (m h : String) (hmh : m ≠ h) (trm trh trm' trh' : Tree) (cf : Ctx)
    (E E' : Esc) (d : Value)
    (het : escapeTree ⟨[(m, some trm), (h, some trh)], fun n => (alookup [(m, 1), (h, 2)] n).isSome, false, v⟩ fuel {} {}
      m = .ok (E, cf, m))
    (hfin : finalError cf = none)
    (hc : commit [(m, some trm), (h, some trh)] E = .ok ([(m, some trm'), (h, some trh')], E')) :
    apiExecute (setupW2 v fuel m h trm trh) 0 d =
      (worldF2 v fuel m h [(m, some trm'), (h, some trh')] E',
       resOf (walkList false [(m, some trm'), (h, some trh')] 0 fuel d d [] trm'.root)) := by
  have hmh' : (m == h) = false := by simpa using hmh
  have hhm' : (h == m) = false := by simpa using (Ne.symm hmh)
  have ht : escapeTemplateTop (worldE2 v fuel m h trm trh) 0 m =
      .inr (markOk (worldE2 v fuel m h trm trh) 0 m [(m, some trm'), (h, some trh')] E', none) := by
    unfold escapeTemplateTop
    simp only [worldE2_ns]
    have hfu : (worldE2 v fuel m h trm trh).fuel = fuel := rfl
    have hv : (worldE2 v fuel m h trm trh).v = v := rfl
    have hesc : (nsE2 m h trm trh).esc = {} := rfl
    have hset : (nsE2 m h trm trh).set = [(m, 1), (h, 2)] := rfl
    have hcsp : (nsE2 m h trm trh).csp = false := rfl
    have htx : (nsE2 m h trm trh).text = [(m, some trm), (h, some trh)] := rfl
    rw [hfu, hv, hesc, hset, hcsp, htx, het]
    simp only [hfin, hc]
  have hobj : (setupW2 v fuel m h trm trh).obj 0 =
      some (1, { ns := 0, name := m, registered := true, treeNil := false }) := by
    simp [setupW2, World.obj, nlookup, bind, Option.bind]
  unfold apiExecute
  simp only [hobj, setNs_escaped2, Bool.false_eq_true, if_false, ht]
  simp [markOk, worldE2_ns, nsE2, alookup, worldE2, World.setNs, World.setObj, nset, nlookup, textExecute, World.ns,
    TextSet.lookup, resOf, hmh', hhm', hmh, Ne.symm hmh, worldF2]
  exact ⟨rfl, rfl⟩

/-- every later `Execute` of the main template: the world is unchanged, the result is the walk of the committed tree -/
theorem apiExecute2_again (v : Validators) (fuel : Nat) (m h : String) (T : Tree) (TS : TextSet) (E : Esc) (d : Value) :
    apiExecute (worldF2 v fuel m h ((m, some T) :: TS) E) 0 d =
      (worldF2 v fuel m h ((m, some T) :: TS) E, resOf (walkList false ((m, some T) :: TS) 0 fuel d d [] T.root)) := by
  have hobj : (worldF2 v fuel m h ((m, some T) :: TS) E).obj 0 =
      some (1, { ns := 0, name := m, registered := true, treeNil := false, status := .ok }) := by
    simp [worldF2, World.obj, nlookup, bind, Option.bind]
  unfold apiExecute
  simp only [hobj]
  simp [worldF2, World.setNs, nset, nlookup, textExecute, World.ns, TextSet.lookup, alookup, resOf]
  rfl

theorem execs_worldF2 (v : Validators) (fuel : Nat) (m h : String) (T : Tree) (TS : TextSet) (E : Esc) :
    ∀ pre : List Value, execs (worldF2 v fuel m h ((m, some T) :: TS) E) pre = worldF2 v fuel m h ((m, some T) :: TS) E
  | [] => rfl
  | d :: ds => by
    simp only [execs, Api.step, apiExecute2_again]
    exact execs_worldF2 v fuel m h T TS E ds

/-- `Execute(d)` of the main template after any earlier executions of it -/
theorem step_execs2 (v : Validators) (fuel : Nat) (m h : String) (hmh : m ≠ h) (trm trh trm' trh' : Tree) (cf : Ctx)
    (E E' : Esc)
    (het : escapeTree ⟨[(m, some trm), (h, some trh)], fun n => (alookup [(m, 1), (h, 2)] n).isSome, false, v⟩ fuel {} {}
      m = .ok (E, cf, m))
    (hfin : finalError cf = none)
    (hc : commit [(m, some trm), (h, some trh)] E = .ok ([(m, some trm'), (h, some trh')], E'))
    (pre : List Value) (d : Value) :
    (Api.step (execs (setupW2 v fuel m h trm trh) pre) (.exec 0 d)).2 =
      .exec (resOf (walkList false [(m, some trm'), (h, some trh')] 0 fuel d d [] trm'.root)) := by
  have hE := fun d => apiExecute2_full v fuel m h hmh trm trh trm' trh' cf E E' d het hfin hc
  cases pre with
  | nil => simp only [execs, Api.step, hE]
  | cons d0 ds => simp only [execs, Api.step, hE, execs_worldF2, apiExecute2_again]

/-- the world after at least one execution of the main template is a fixed point of `Execute`, and does not depend on
    the data of the earlier executions -/
theorem execs2_fixed (v : Validators) (fuel : Nat) (m h : String) (hmh : m ≠ h) (trm trh trm' trh' : Tree) (cf : Ctx)
    (E E' : Esc)
    (het : escapeTree ⟨[(m, some trm), (h, some trh)], fun n => (alookup [(m, 1), (h, 2)] n).isSome, false, v⟩ fuel {} {}
      m = .ok (E, cf, m))
    (hfin : finalError cf = none)
    (hc : commit [(m, some trm), (h, some trh)] E = .ok ([(m, some trm'), (h, some trh')], E'))
    (d0 : Value) (pre : List Value) :
    execs (setupW2 v fuel m h trm trh) (d0 :: pre) = worldF2 v fuel m h [(m, some trm'), (h, some trh')] E' := by
  have hE := fun d => apiExecute2_full v fuel m h hmh trm trh trm' trh' cf E E' d het hfin hc
  simp only [execs, Api.step, hE, execs_worldF2]

/-- **C01 for a main template plus a helper through the API state machine, later executions.** As
    `Layer3Helpers.C01_api_main_plus_helper`, but each of the two executions compared comes after an arbitrary list of
    earlier `Execute` calls on the main template object (`pre1`, `pre2`: any data, no hypothesis — they may print
    trusted values, fail with an execution error, or be absent; the lists need not have the same length).
    Not covered: earlier `ExecuteTemplate` calls by name (the setup binds no handle to the helper's object, so
    `Execute` on the helper is not expressible in this world; `ExecuteTemplate(h)` after the first execution
    re-enters the analysis with the committed escaper and needs the memo-hit machinery). -/
theorem C01_api_main_plus_helper_repeat (v : Validators) (fuel : Nat) (m h : String) (hmh : m ≠ h) (trm trh : Tree)
    (ms : List MP) (hps : List Piece) (asH : List Arg) (cf : Ctx) (es : List EM) (esH : List EPiece)
    (hnm : trm.name = m) (hnh : trh.name = h)
    (hrootM : trm.root = NodeList.ofList (nodesM h 0 ms))
    (hrootH : trh.root = NodeList.ofList (toNodesA 0 hps asH))
    (hokM : ArgsOKM ms) (hasH : ∀ a ∈ asH, ActArg a) (hcall : MP.call ∈ ms)
    (hH : analyse v {} hps = some ({}, esH)) (hM : analyseM v {} ms = some (cf, es))
    (hs : SimpleAll v {} (inlineP hps ms))
    (hfin : finalError cf = none) (hf : ms.length + hps.length + 9 ≤ fuel) (pre1 pre2 : List Value) (d1 d2 : Value)
    (hu1 : ∀ vs, valsM d1 esH asH es = some vs → ∀ x ∈ vs, Untrusted x)
    (hu2 : ∀ vs, valsM d2 esH asH es = some vs → ∀ x ∈ vs, Untrusted x)
    (o1 o2 : Bytes) (w1 w2 : World)
    (h1 : Api.step (execs (setup2 v fuel m trm trh) pre1) (.exec 0 d1) = (w1, .exec (.ok o1)))
    (h2 : Api.step (execs (setup2 v fuel m trm trh) pre2) (.exec 0 d2) = (w2, .exec (.ok o2))) :
    skeleton (HtmlTok.tokenize o1).tokens = skeleton (HtmlTok.tokenize o2).tokens ∧
    (HtmlTok.tokenize o1).final = .data ∧ (HtmlTok.tokenize o2).final = .data := by
  obtain ⟨f', rfl⟩ : ∃ f', fuel = f' + 3 := ⟨fuel - 3, by omega⟩
  have hmh' : (m == h) = false := by simpa using hmh
  have hhm' : (h == m) = false := by simpa using (Ne.symm hmh)
  have hst : cf.state = .text := by
    by_cases hc : cf.state = .text
    · exact hc
    · exfalso
      unfold finalError at hfin
      split at hfin
      · next h => cases he : cf.err <;> simp_all
      · simp [hc] at hfin
  have hne : cf.state ≠ .error := by rw [hst]; decide
  -- the helper's analysis
  obtain ⟨hoe, hk, hAeq, hXeq⟩ := helper_keep v m h hps
  generalize hs1 : editsOf v h 0 {} hps (scratchH m h) = s1 at hoe hk hAeq hXeq
  have hfreshH : Fresh h 0 (scratchH m h) := fun k _ => ⟨rfl, rfl⟩
  let env : Env := ⟨[(m, some trm), (h, some trh)], fun n => (alookup [(m, 1), (h, 2)] n).isSome, false, v⟩
  have hlH : ∀ f, hps.length + 1 ≤ f → escapeList env f h (scratchH m h) {} trh.root = .ok (s1, {}) := by
    intro f hf
    rw [hrootH, ← hs1]
    exact escapeList_refinesA env rfl h hps 0 {} {} (scratchH m h) esH asH f hH hfreshH hasH hf
  have hlookH : env.text.lookup h = some (some trh) := by
    simp [env, TextSet.lookup, alookup, hhm', hmh, Ne.symm hmh]
  have hlookM : env.text.lookup m = some (some trm) := by
    simp [env, TextSet.lookup, alookup]
  -- the main template's analysis
  have hinv0 : MInv m 0 (false, [], []) := ⟨fun k _ => ⟨rfl, rfl⟩, fun _ => ⟨by simp, by simp⟩⟩
  have hl := refMain env rfl m h hmh trh (hps.length + 1) s1 hlookH hlH hoe hk ms 0 {} cf (false, [], []) es f' hM
    hinv0 hokM (by omega)
  obtain ⟨kA, kX, hflag⟩ := runMain_keys v m h hmh s1.actionEdits s1.textEdits hk.1 hk.2.1 hk.2.2.1 hk.2.2.2 ms 0 {}
    cf (false, [], []) es hM hinv0 ⟨by simp, by simp⟩ ⟨by simp, by simp⟩
  have hflag := hflag (Or.inr hcall)
  generalize hstF : runMain v m s1.actionEdits s1.textEdits 0 {} ms (false, [], []) = stF at hl kA kX hflag
  obtain ⟨fl, A, X⟩ := stF
  simp only at hflag kA kX
  subst hflag
  have e0 : escOf m h (false, [], []) = escM0 m [] [] := by simp [escOf]
  have e1' : escOf m h (true, A, X) = escM1 m h A X := by simp [escOf]
  rw [e0, e1', ← hrootM] at hl
  have het := escapeTree_main env m h hmh trm cf A X hlookM f' hl kA.2 kX.2 hne
  -- commit
  have happm := applyM v m h hmh s1.actionEdits s1.textEdits hk.1 hk.2.2.1
    { escAfter2 m h cf A X with pristine := [(m, trm), (h, trh)] } rfl ms 0 {} cf (false, [], []) es hM hinv0 hokM
    (by intro k _; rw [hstF]; exact ⟨rfl, rfl⟩)
  have hagree : Agree h (0 + hps.length) { escAfter2 m h cf A X with pristine := [(m, trm), (h, trh)] }
      (editsOf v h 0 {} hps (scratchH m h)) := by
    intro k _
    obtain ⟨g1, g2⟩ := find_h_false v m h hmh s1.actionEdits s1.textEdits ms 0 {} cf (false, [], []) es k hM rfl
      (by simp) (by simp) hcall
    rw [hstF] at g1 g2
    rw [hs1]
    exact ⟨g1, g2⟩
  have happh := applyEdits_outA v h { escAfter2 m h cf A X with pristine := [(m, trm), (h, trh)] } hps 0 {} {}
    (scratchH m h) esH asH hH hfreshH hasH hagree
  rw [← hrootM] at happm
  rw [← hrootH] at happh
  obtain ⟨E', hc⟩ := commit2 m h hmh trm trh cf A X _ _ kA.1 kX.1 happm happh
  -- the API run
  rw [setup2_eq v (f' + 3) m h hmh trm trh hnm hnh] at h1 h2
  have r1 := step_execs2 v (f' + 3) m h hmh trm trh _ _ cf _ E' het hfin hc pre1 d1
  have r2 := step_execs2 v (f' + 3) m h hmh trm trh _ _ cf _ E' het hfin hc pre2 d2
  rw [h1] at r1
  rw [h2] at r2
  simp only [Ret.exec.injEq] at r1 r2
  have x1 := r1.symm
  have x2 := r2.symm
  obtain ⟨n1, rfl⟩ := resOf_ok x1
  obtain ⟨n2, rfl⟩ := resOf_ok x2
  have hlk : TextSet.lookup [(m, some { trm with root := NodeList.ofList (outM h 0 es) }),
      (h, some { trh with root := NodeList.ofList (outNodes 0 esH asH) })] h =
      some (some { trh with root := NodeList.ofList (outNodes 0 esH asH) }) := by
    simp [TextSet.lookup, alookup, hhm', hmh, Ne.symm hmh]
  have hE := analyseM_args v ms {} cf es hM hokM
  obtain ⟨vs, p1, hv1, hx1, ho1⟩ := walkM_exec _ 0 (by decide) h _ esH asH hasH hlk rfl d1 d1 es 0 [] (f' + 3) hE n1
  obtain ⟨ws, p2, hv2, hx2, ho2⟩ := walkM_exec _ 0 (by decide) h _ esH asH hasH hlk rfl d2 d2 es 0 [] (f' + 3) hE n2
  rw [ho1, ho2]
  simp only [List.nil_append]
  have := C01_straight_line v (inlineP hps ms) cf (inlineE esH es) vs ws p1 p2 hs
    (analyse_inline v hps esH hH ms {} cf es hM) (hu1 vs hv1) (hu2 ws hv2) hx1 hx2
  exact ⟨this.1, this.2.2 hst⟩

/-- `C01_api_main_plus_helper_repeat` with the grammar hypothesis stated separately for the two templates -/
theorem C01_api_main_plus_helper_repeat' (v : Validators) (fuel : Nat) (m h : String) (hmh : m ≠ h) (trm trh : Tree)
    (ms : List MP) (hps : List Piece) (asH : List Arg) (cf : Ctx) (es : List EM) (esH : List EPiece)
    (hnm : trm.name = m) (hnh : trh.name = h)
    (hrootM : trm.root = NodeList.ofList (nodesM h 0 ms))
    (hrootH : trh.root = NodeList.ofList (toNodesA 0 hps asH))
    (hokM : ArgsOKM ms) (hasH : ∀ a ∈ asH, ActArg a) (hcall : MP.call ∈ ms)
    (hH : analyse v {} hps = some ({}, esH)) (hM : analyseM v {} ms = some (cf, es))
    (hsH : SimpleAll v {} hps) (hsM : SimpleM v {} ms)
    (hfin : finalError cf = none) (hf : ms.length + hps.length + 9 ≤ fuel) (pre1 pre2 : List Value) (d1 d2 : Value)
    (hu1 : ∀ vs, valsM d1 esH asH es = some vs → ∀ x ∈ vs, Untrusted x)
    (hu2 : ∀ vs, valsM d2 esH asH es = some vs → ∀ x ∈ vs, Untrusted x)
    (o1 o2 : Bytes) (w1 w2 : World)
    (h1 : Api.step (execs (setup2 v fuel m trm trh) pre1) (.exec 0 d1) = (w1, .exec (.ok o1)))
    (h2 : Api.step (execs (setup2 v fuel m trm trh) pre2) (.exec 0 d2) = (w2, .exec (.ok o2))) :
    skeleton (HtmlTok.tokenize o1).tokens = skeleton (HtmlTok.tokenize o2).tokens ∧
    (HtmlTok.tokenize o1).final = .data ∧ (HtmlTok.tokenize o2).final = .data :=
  C01_api_main_plus_helper_repeat v fuel m h hmh trm trh ms hps asH cf es esH hnm hnh hrootM hrootH hokM hasH hcall hH hM
    (SimpleAll_inline v hps esH hH hsH ms {} cf es hM hsM) hfin hf pre1 pre2 d1 d2 hu1 hu2 o1 o2 w1 w2 h1 h2

/-! ### non-vacuity: the main + helper example, third execution after a successful one and a FAILED one -/

example : retOk (Api.step (execs (setup2 v0 100 "main" exMainTree exHelperTree) [exData [34, 62, 60], .str [1]])
    (.exec 0 (exData [60, 38]))).2 = true := by
  decide +kernel

/-- the second of the earlier executions really fails -/
example : retOk (Api.step (execs (setup2 v0 100 "main" exMainTree exHelperTree) [exData [34, 62, 60]])
    (.exec 0 (.str [1]))).2 = false := by
  decide +kernel

theorem ex_api_helper_repeat (pre1 pre2 : List Value) (b1 b2 o1 o2 : Bytes) (w1 w2 : World)
    (h1 : Api.step (execs (setup2 v0 100 "main" exMainTree exHelperTree) pre1) (.exec 0 (exData b1)) =
      (w1, .exec (.ok o1)))
    (h2 : Api.step (execs (setup2 v0 100 "main" exMainTree exHelperTree) pre2) (.exec 0 (exData b2)) =
      (w2, .exec (.ok o2))) :
    skeleton (HtmlTok.tokenize o1).tokens = skeleton (HtmlTok.tokenize o2).tokens ∧
    (HtmlTok.tokenize o1).final = .data ∧ (HtmlTok.tokenize o2).final = .data :=
  C01_api_main_plus_helper_repeat' v0 100 "main" "h" (by decide) exMainTree exHelperTree exMain exTemplate exArgs {}
    exMainOut exOut rfl rfl rfl rfl ⟨Or.inr ⟨_, rfl⟩, trivial⟩
    (by intro a ha; simp [exArgs] at ha; subst ha; exact Or.inr ⟨_, rfl⟩) (by simp [exMain])
    ex_analyse exMain_analyse ex_simpleAll exMain_simple (by decide) (by decide) pre1 pre2 _ _
    (by rw [exMain_vals]; intro vs hv x hx; cases hv; simp at hx; subst hx; intro t y h; simp [Value.indirect] at h)
    (by rw [exMain_vals]; intro vs hv x hx; cases hv; simp at hx; subst hx; intro t y h; simp [Value.indirect] at h)
    o1 o2 w1 w2 h1 h2

#print axioms C01_api_branch_template_repeat
#print axioms C01_api_main_plus_helper_repeat
#print axioms C01_api_main_plus_helper_repeat'
#print axioms ex_api_loop_repeat
#print axioms ex_api_helper_repeat

end SafeHtml.Proofs.Layer3Repeat2
